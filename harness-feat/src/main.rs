//! Feature-configuration transcript (C14) and sanitizer workload (C15).
//! The same source is built against lzma-rust2 with {std, optimization} on or off; every build prints a
//! transcript of compressed-byte digests and decode results for the same seeded cases; the transcripts must be
//! identical.  Built with AddressSanitizer (nightly) the run itself is the check.
#[cfg(not(feature = "std"))]
use lzma_rust2::{Read, Write};
use lzma_rust2::*;
#[cfg(feature = "std")]
use std::io::{Read, Write};
use std::num::NonZeroU64;
use std::panic::{catch_unwind, AssertUnwindSafe};

/// `--features guard`: every allocation of at least one page (element alignment <= 16: byte buffers such as the
/// range decoder's chunk buffer, the LZ window and dictionary buffers, and the hash / probability tables) gets its own
/// mapping with an inaccessible page directly behind its last byte (VF_GUARD=back, the default) or directly in front
/// of its first byte (VF_GUARD=front), so that a load outside the buffer faults - also one made by the inline
/// assembly, which neither Miri nor AddressSanitizer instrument.
#[cfg(feature = "guard")]
mod guard_alloc {
    use std::alloc::{GlobalAlloc, Layout, System};
    use std::sync::atomic::{AtomicU8, Ordering};
    extern "C" {
        fn mmap(addr: *mut u8, len: usize, prot: i32, flags: i32, fd: i32, off: i64) -> *mut u8;
        fn munmap(addr: *mut u8, len: usize) -> i32;
        fn mprotect(addr: *mut u8, len: usize, prot: i32) -> i32;
        fn getenv(name: *const u8) -> *const u8;
    }
    const PAGE: usize = 4096;
    static MODE: AtomicU8 = AtomicU8::new(0); // 0 = not read yet, 1 = back, 2 = front
    fn front() -> bool {
        let m = MODE.load(Ordering::Relaxed);
        if m != 0 {
            return m == 2;
        }
        let v = unsafe { getenv(b"VF_GUARD\0".as_ptr()) };
        let f = !v.is_null() && unsafe { *v } == b'f';
        MODE.store(if f { 2 } else { 1 }, Ordering::Relaxed);
        f
    }
    fn guarded(l: &Layout) -> bool {
        l.size() >= PAGE && l.align() <= 16
    }
    pub struct Guarded;
    unsafe impl GlobalAlloc for Guarded {
        unsafe fn alloc(&self, l: Layout) -> *mut u8 {
            if guarded(&l) {
                let body = (l.size() + PAGE - 1) / PAGE * PAGE;
                // PROT_READ|PROT_WRITE = 3, MAP_PRIVATE|MAP_ANONYMOUS = 0x22
                let p = mmap(std::ptr::null_mut(), body + PAGE, 3, 0x22, -1, 0);
                if p as isize == -1 {
                    return std::ptr::null_mut();
                }
                if front() {
                    mprotect(p, PAGE, 0);
                    return p.add(PAGE);
                }
                mprotect(p.add(body), PAGE, 0);
                // (sizes are multiples of the element alignment, so the end-flush address is aligned)
                return p.add(body - l.size());
            }
            System.alloc(l)
        }
        unsafe fn alloc_zeroed(&self, l: Layout) -> *mut u8 {
            if guarded(&l) {
                return self.alloc(l); // fresh anonymous pages are zero
            }
            System.alloc_zeroed(l)
        }
        unsafe fn dealloc(&self, p: *mut u8, l: Layout) {
            if guarded(&l) {
                let body = (l.size() + PAGE - 1) / PAGE * PAGE;
                let base = if front() { p.sub(PAGE) } else { p.sub(body - l.size()) };
                munmap(base, body + PAGE);
                return;
            }
            System.dealloc(p, l)
        }
    }
}
#[cfg(feature = "guard")]
#[global_allocator]
static GLOBAL: guard_alloc::Guarded = guard_alloc::Guarded;

struct Rng(u64);
impl Rng {
    fn new(seed: u64) -> Self {
        Rng(seed.wrapping_mul(0x9E3779B97F4A7C15) ^ 0xD1B54A32D192ED03)
    }
    fn next(&mut self) -> u64 {
        self.0 = self.0.wrapping_add(0x9E3779B97F4A7C15);
        let mut z = self.0;
        z = (z ^ (z >> 30)).wrapping_mul(0xBF58476D1CE4E5B9);
        z = (z ^ (z >> 27)).wrapping_mul(0x94D049BB133111EB);
        z ^ (z >> 31)
    }
    fn below(&mut self, n: u64) -> u64 {
        if n == 0 { 0 } else { self.next() % n }
    }
    fn range(&mut self, lo: u64, hi: u64) -> u64 {
        lo + self.below(hi - lo + 1)
    }
    fn pick<'a, T>(&mut self, xs: &'a [T]) -> &'a T {
        &xs[self.below(xs.len() as u64) as usize]
    }
}

fn fnv(b: &[u8]) -> u64 {
    let mut h = 0xcbf29ce484222325u64;
    for &x in b {
        h ^= x as u64;
        h = h.wrapping_mul(0x100000001b3);
    }
    h
}

fn gen_data(r: &mut Rng, kind: &str, n: usize) -> Vec<u8> {
    let mut v = Vec::with_capacity(n);
    match kind {
        "random" => while v.len() < n { v.push(r.next() as u8) },
        "const" => v.resize(n, 0x41),
        "text" => {
            let words: [&[u8]; 12] = [b"the ", b"quick ", b"brown ", b"fox ", b"jumps ", b"over ", b"lazy ", b"dog ", b"lorem ", b"ipsum ", b"0123456789 ", b"\n"];
            while v.len() < n {
                let w = words[r.below(12) as usize];
                v.extend_from_slice(w);
            }
            v.truncate(n);
        }
        "periodic" => {
            let p = r.range(1, 300) as usize;
            let base: Vec<u8> = (0..p).map(|_| r.next() as u8).collect();
            while v.len() < n {
                v.push(base[v.len() % p]);
            }
        }
        _ => {
            // mixed: alternating compressible and incompressible runs, with far repeats
            while v.len() < n {
                let l = r.range(1, 5000) as usize;
                match r.below(4) {
                    0 => for _ in 0..l { v.push(r.next() as u8) },
                    1 => { let b = r.next() as u8; for _ in 0..l { v.push(b) } }
                    2 if v.len() > 10 => { let s = r.below(v.len() as u64 - 5) as usize; for k in 0..l { let x = v[s + k % (v.len() - s)]; v.push(x) } }
                    _ => for k in 0..l { v.push((k % 251) as u8 ^ 0x55) },
                }
            }
            v.truncate(n);
        }
    }
    v
}

#[cfg(feature = "std")]
fn kind_of(e: &std::io::Error) -> &'static str {
    use std::io::ErrorKind::*;
    match e.kind() {
        UnexpectedEof => "Eof",
        Interrupted => "Interrupted",
        InvalidData => "InvalidData",
        InvalidInput => "InvalidInput",
        OutOfMemory => "OutOfMemory",
        Unsupported => "Unsupported",
        WriteZero => "WriteZero",
        _ => "Other",
    }
}
#[cfg(not(feature = "std"))]
fn kind_of(e: &lzma_rust2::Error) -> &'static str {
    use lzma_rust2::Error::*;
    match e {
        EOF => "Eof",
        Interrupted => "Interrupted",
        InvalidData(_) => "InvalidData",
        InvalidInput(_) => "InvalidInput",
        OutOfMemory(_) => "OutOfMemory",
        Other(_) => "Other",
        Unsupported(_) => "Unsupported",
        WriteZero(_) => "WriteZero",
    }
}

#[derive(Clone)]
struct Opts { dict: u32, lc: u32, lp: u32, pb: u32, normal: bool, nice: u32, bt4: bool, depth: i32 }
impl Opts {
    fn to(&self) -> LZMAOptions {
        LZMAOptions::new(self.dict, self.lc, self.lp, self.pb, if self.normal { EncodeMode::Normal } else { EncodeMode::Fast }, self.nice, if self.bt4 { MFType::BT4 } else { MFType::HC4 }, self.depth)
    }
    fn sig(&self) -> String {
        format!("d{}lc{}lp{}pb{}{}{}n{}dp{}", self.dict, self.lc, self.lp, self.pb, if self.normal { "N" } else { "F" }, if self.bt4 { "B" } else { "H" }, self.nice, self.depth)
    }
}

fn read_all<R: Read>(mut r: R, cap: usize) -> (Vec<u8>, Option<&'static str>) {
    let mut out = Vec::new();
    let mut buf = vec![0u8; 4096];
    loop {
        match r.read(&mut buf) {
            Ok(0) => return (out, None),
            Ok(n) => {
                out.extend_from_slice(&buf[..n]);
                if out.len() > cap {
                    return (out, Some("cap"));
                }
            }
            Err(e) => return (out, Some(kind_of(&e))),
        }
    }
}

fn show(res: std::thread::Result<(Vec<u8>, Option<&'static str>)>) -> String {
    match res {
        Ok((out, None)) => format!("ok {}:{:016x}", out.len(), fnv(&out)),
        Ok((out, Some(k))) => format!("err {k} @{}:{:016x}", out.len(), fnv(&out)),
        Err(_) => "panic".to_string(),
    }
}

fn encode(fmt: &str, o: &Opts, data: &[u8], chunk: Option<u64>) -> std::result::Result<Vec<u8>, String> {
    let r = catch_unwind(AssertUnwindSafe(|| -> std::result::Result<Vec<u8>, String> {
        let wr = |parts: &mut dyn FnMut(&[u8]) -> std::result::Result<(), String>| -> std::result::Result<(), String> {
            // split into a few writes (the same in every configuration)
            let mut off = 0;
            let step = [1usize, 77, 4096, 100_000];
            let mut k = 0;
            // (stratum 6 chooses the size of the first write, so that the encoder window moves at varying offsets)
            let first = FIRST_WRITE.load(std::sync::atomic::Ordering::Relaxed).min(data.len());
            if first > 0 {
                parts(&data[..first])?;
                off = first;
            }
            while off < data.len() {
                let n = step[k % 4].min(data.len() - off);
                parts(&data[off..off + n])?;
                off += n;
                k += 1;
            }
            Ok(())
        };
        match fmt {
            "lzma" => {
                let mut w = LZMAWriter::new_no_header(Vec::new(), &o.to(), true).map_err(|e| kind_of(&e).to_string())?;
                wr(&mut |p| w.write_all(p).map_err(|e| kind_of(&e).to_string()))?;
                w.finish().map_err(|e| kind_of(&e).to_string())
            }
            "lzma2" => {
                let mut opts = LZMA2Options { lzma_options: o.to(), chunk_size: None };
                opts.set_chunk_size(chunk.and_then(NonZeroU64::new));
                let mut w = LZMA2Writer::new(Vec::new(), opts);
                if FLUSH_AFTER_FIRST.load(std::sync::atomic::Ordering::Relaxed) {
                    // (stratum 8) write k; flush; write rest
                    let first = FIRST_WRITE.load(std::sync::atomic::Ordering::Relaxed).min(data.len());
                    w.write_all(&data[..first]).map_err(|e| kind_of(&e).to_string())?;
                    w.flush().map_err(|e| kind_of(&e).to_string())?;
                    w.write_all(&data[first..]).map_err(|e| kind_of(&e).to_string())?;
                } else {
                    wr(&mut |p| w.write_all(p).map_err(|e| kind_of(&e).to_string()))?;
                }
                w.finish().map_err(|e| kind_of(&e).to_string())
            }
            "xz" => {
                let mut opts = XZOptions::with_preset(1);
                opts.lzma_options = o.to();
                opts.set_block_size(chunk.and_then(NonZeroU64::new));
                let mut w = XZWriter::new(Vec::new(), opts).map_err(|e| kind_of(&e).to_string())?;
                wr(&mut |p| w.write_all(p).map_err(|e| kind_of(&e).to_string()))?;
                w.finish().map_err(|e| kind_of(&e).to_string())
            }
            _ => {
                let mut opts = LZIPOptions { lzma_options: o.to(), member_size: None };
                opts.set_member_size(chunk.and_then(NonZeroU64::new));
                let mut w = LZIPWriter::new(Vec::new(), opts);
                wr(&mut |p| w.write_all(p).map_err(|e| kind_of(&e).to_string()))?;
                w.finish().map_err(|e| kind_of(&e).to_string())
            }
        }
    }));
    match r {
        Ok(x) => x,
        Err(_) => Err("panic".into()),
    }
}

static FIRST_WRITE: std::sync::atomic::AtomicUsize = std::sync::atomic::AtomicUsize::new(0);
static FLUSH_AFTER_FIRST: std::sync::atomic::AtomicBool = std::sync::atomic::AtomicBool::new(false);

fn decode(fmt: &str, o: &Opts, comp: &[u8], cap: usize) -> String {
    show(catch_unwind(AssertUnwindSafe(|| match fmt {
        "lzma" => match LZMAReader::new(comp, u64::MAX, o.lc, o.lp, o.pb, o.dict, None) {
            Ok(r) => read_all(r, cap),
            Err(e) => (vec![], Some(kind_of(&e))),
        },
        "lzma2" => read_all(LZMA2Reader::new(comp, o.dict, None), cap),
        "xz" => read_all(XZReader::new(comp, true), cap),
        _ => match LZIPReader::new(comp) {
            Ok(r) => read_all(r, cap),
            Err(e) => (vec![], Some(kind_of(&e))),
        },
    })))
}

/// size of the encoder's window buffer for raw LZMA (`get_buf_size`, extra_size_before 0)
fn window_buf_size(o: &Opts) -> usize {
    let (eb, ea) = if o.normal { (4096usize, 4096usize) } else { (1, 272) };
    let d = o.dict as usize;
    d + eb + ea + 273 + (d / 2 + (256 << 10))
}

fn main() {
    let args: Vec<String> = std::env::args().collect();
    let tier = args.get(1).map(|s| s.as_str()).unwrap_or("quick");
    let seed: u64 = args.get(2).and_then(|s| s.parse().ok()).unwrap_or(1);
    std::panic::set_hook(Box::new(|_| {}));
    let mut rng = Rng::new(seed);
    let thorough = tier == "thorough";
    let n = if thorough { 400 } else { 60 };
    let kinds = ["text", "random", "mixed", "periodic", "const"];
    let idx_cell = std::cell::Cell::new(0u32);
    let emit = |r: &mut Rng, fmt: &str, o: &Opts, data: &[u8], chunk: Option<u64>, tag: &str| {
        idx_cell.set(idx_cell.get() + 1);
        let idx = idx_cell.get();
        match encode(fmt, o, data, chunk) {
            Ok(c) => {
                println!("case {idx} {tag} {fmt} {} c{} len={} enc {}:{:016x}", o.sig(), chunk.unwrap_or(0), data.len(), c.len(), fnv(&c));
                let cap = data.len() + 64;
                println!("case {idx} dec {}", decode(fmt, o, &c, cap));
                // corrupted variants: the same flips / cuts in every configuration
                for j in 0..3 {
                    if c.is_empty() { break; }
                    let mut m = c.clone();
                    let p = r.below(m.len() as u64) as usize;
                    m[p] ^= 1 << r.below(8);
                    println!("case {idx} flip{j}@{p} dec {}", decode(fmt, o, &m, cap));
                }
                for j in 0..2 {
                    let k = r.below(c.len() as u64 + 1) as usize;
                    println!("case {idx} cut{j}@{k} dec {}", decode(fmt, o, &c[..k], cap));
                }
            }
            Err(e) => println!("case {idx} {tag} {fmt} {} len={} enc-err {e}", o.sig(), data.len()),
        }
    };
    // (1) random cases over the option space
    for i in 0..n {
        let mut r = Rng(rng.next());
        let fmt = ["lzma", "lzma2", "xz", "lzip"][i % 4];
        let lc = if fmt == "lzip" { 3 } else { r.range(0, 4) as u32 };
        let lp = if fmt == "lzip" { 0 } else { r.range(0, 4 - lc as u64) as u32 };
        let pb = if fmt == "lzip" { 2 } else { r.range(0, 4) as u32 };
        let o = Opts { dict: *r.pick(&[4096u32, 4097, 65536, 1 << 20]), lc, lp, pb, normal: r.below(2) == 0, nice: *r.pick(&[8u32, 32, 64, 273]), bt4: r.below(2) == 0, depth: *r.pick(&[0i32, 1, 8, 48]) };
        let len = match r.below(5) { 0 => r.range(0, 20), 1 => r.range(20, 5000), 2 => r.range(60000, 70000), _ => r.range(1, if thorough { 400_000 } else { 60_000 }) } as usize;
        let kind = kinds[(i / 4) % 5];
        let data = gen_data(&mut r, kind, len);
        let chunk = if fmt != "lzma" && r.below(3) == 0 { Some(r.range(4096, 70000)) } else { None };
        emit(&mut r, fmt, &o, &data, chunk, kind);
    }
    // (2) window boundary: the input fills the encoder's window buffer to within a few bytes of its end when the
    //     stream is finished (the unsafe fast paths read whole words / u16 at the current position)
    for normal in [false, true] {
        for bt4 in [false, true] {
            let o = Opts { dict: 4096, lc: 3, lp: 0, pb: 2, normal, nice: if normal { 64 } else { 32 }, bt4, depth: 8 };
            let b = window_buf_size(&o);
            let deltas: &[i64] = if thorough { &[-9, -8, -7, -3, -2, -1, 0, 1, 2, 8] } else { &[-8, -2, -1, 0, 1] };
            for &d in deltas {
                let len = (b as i64 + d) as usize;
                let reps = if d == 0 { if thorough { 8 } else { 4 } } else { 1 };
                for (vi, kind) in ["mixed", "text", "random", "random", "random"].iter().cycle().take(5 * reps).enumerate().map(|(i, k)| (i % 5, k)) {
                    let mut r = Rng(rng.next());
                    let mut data = gen_data(&mut r, kind, len);
                    // the last bytes repeat earlier data: a match is a candidate at the very end of the window;
                    // with a mismatch t bytes before the end the final t-1 bytes are a REP match after a literal
                    let l = data.len();
                    if l > 600 {
                        for k in 0..64 {
                            data[l - 64 + k] = data[l - 364 + k];
                        }
                        let t = [0usize, 3, 3, 4, 6][vi];
                        if t > 0 {
                            data[l - t] ^= 0x5A;
                            data[l - t - 9] ^= 0x33;
                        }
                    }
                    emit(&mut r, "lzma", &o, &data, None, &format!("window{d:+}"));
                }
            }
        }
    }
    // (2b) the window exactly full and a tail rich in short repeated matches from three distances separated by
    //      literals, the last two bytes continuing one of the used distances (rep1..rep3 candidates at the very
    //      end of the buffer, evaluated by the optimal parser's fast-reject path)
    for normal in [true, false] {
        for bt4 in [true, false] {
            let o = Opts { dict: 4096, lc: 3, lp: 0, pb: 2, normal, nice: 64, bt4, depth: 8 };
            let b = window_buf_size(&o);
            for v in 0..(if thorough { 40 } else { 10 }) {
                let mut r = Rng(rng.next());
                let len = b - [0usize, 0, 0, 1, 2][v % 5];
                let mut data = gen_data(&mut r, "random", len - 48);
                let dists = [100 + r.below(3000) as usize, 100 + r.below(3000) as usize, 100 + r.below(3000) as usize];
                let mut used = vec![];
                while data.len() < len - 2 {
                    for _ in 0..r.below(3) {
                        if data.len() < len - 2 {
                            data.push(r.next() as u8);
                        }
                    }
                    let d = dists[r.below(3) as usize];
                    used.push(d);
                    for _ in 0..(3 + r.below(7)) {
                        if data.len() < len - 2 {
                            let x = data[data.len() - d];
                            data.push(x);
                        }
                    }
                }
                let d = used[r.below(used.len() as u64) as usize];
                while data.len() < len {
                    let x = data[data.len() - d];
                    data.push(x);
                }
                emit(&mut r, "lzma", &o, &data, None, &format!("reptail-{}", b - len));
            }
        }
    }
    // (2c) LZMA2 chunks whose declared compressed size is too small: the range decoder runs past the end of the
    //      chunk buffer (the portable reader supplies zeros there, the assembly clamps its loads)
    for v in 0..(if thorough { 400 } else { 120 }) {
        let mut r = Rng(rng.next());
        let o = Opts { dict: 1 << 16, lc: 3, lp: 0, pb: 2, normal: false, nice: 32, bt4: false, depth: 4 };
        let kind = ["random", "mixed", "text"][v % 3];
        let len = r.range(300, 6000) as usize;
        let data = gen_data(&mut r, kind, len);
        if let Ok(c) = encode("lzma2", &o, &data, None) {
            // single LZMA chunk: e0 uu uu cc cc pp <payload> 00
            if c.len() > 40 && c[0] >= 0x80 {
                let hdr = if c[0] >= 0xC0 { 6 } else { 5 };
                let comp = ((c[3] as usize) << 8 | c[4] as usize) + 1;
                if hdr + comp + 1 == c.len() {
                    let k = r.range(1, 24.min(comp as u64 - 8)) as usize;
                    let mut m = c[..hdr + comp - k].to_vec();
                    let nc = comp - k - 1;
                    m[3] = (nc >> 8) as u8;
                    m[4] = nc as u8;
                    let last = m.len() - 1;
                    m[last] = *r.pick(&[0xFFu8, 0x80, 0x01, 0x7F]);
                    m.push(0);
                    idx_cell.set(idx_cell.get() + 1);
                    let idx = idx_cell.get();
                    println!("case {idx} shortchunk-{kind} lzma2 {} c0 len={} enc {}:{:016x}", o.sig(), data.len(), m.len(), fnv(&m));
                    println!("case {idx} cut-chunk-by-{k} dec {}", decode("lzma2", &o, &m, data.len() + 64));
                }
            }
        }
    }
    // (2d) one large LZMA2 chunk re-declared with EVERY smaller compressed size in a range, decoded with 7-byte
    //      reads: the decoder reaches the end of its chunk buffer in every possible state, also inside direct bits
    {
        let sweep = std::env::args().nth(2).and_then(|s| s.parse::<u64>().ok()).map(|s| s >= 1000).unwrap_or(false);
        let o = Opts { dict: 1 << 16, lc: 3, lp: 0, pb: 2, normal: false, nice: 32, bt4: false, depth: 4 };
        for v in 0..(if thorough || sweep { 6 } else { 2 }) {
            let mut r = Rng(rng.next());
            // matches at distances 512..16K (4..8 direct bits) mixed with literals
            let mut data = gen_data(&mut r, "random", 20_000);
            while data.len() < 60_000 {
                let d = r.range(512, 16_000) as usize;
                let l = r.range(3, 12) as usize;
                for _ in 0..l {
                    let x = data[data.len() - d];
                    data.push(x);
                }
                for _ in 0..r.below(3) {
                    data.push(r.next() as u8);
                }
            }
            if let Ok(c) = encode("lzma2", &o, &data, None) {
                if c.len() > 3500 && c[0] >= 0x80 {
                    let hdr = if c[0] >= 0xC0 { 6 } else { 5 };
                    let comp = ((c[3] as usize) << 8 | c[4] as usize) + 1;
                    let kmax = if thorough || sweep { 3000 } else { 900 };
                    let mut digest = 0xcbf29ce484222325u64;
                    let mut first_lines = 0;
                    for k in 1..kmax.min(comp - 8) {
                        let mut m = c[..hdr + comp - k].to_vec();
                        let nc = comp - k - 1;
                        m[3] = (nc >> 8) as u8;
                        m[4] = nc as u8;
                        m.push(0);
                        let res = show(catch_unwind(AssertUnwindSafe(|| {
                            let mut rd = LZMA2Reader::new(m.as_slice(), o.dict, None);
                            let mut out = Vec::new();
                            let mut buf = [0u8; 7];
                            loop {
                                match rd.read(&mut buf) {
                                    Ok(0) => return (out, None),
                                    Ok(n) => out.extend_from_slice(&buf[..n]),
                                    Err(e) => return (out, Some(kind_of(&e))),
                                }
                            }
                        })));
                        for b in res.bytes() {
                            digest = (digest ^ b as u64).wrapping_mul(0x100000001b3);
                        }
                        digest = (digest ^ k as u64).wrapping_mul(0x100000001b3);
                        if k % 100 == 0 || first_lines < 3 {
                            first_lines += 1;
                            idx_cell.set(idx_cell.get() + 1);
                            println!("case {} cutsweep-{v} lzma2 {} c0 len={} enc {}:{:016x}", idx_cell.get(), o.sig(), data.len(), m.len(), digest);
                            println!("case {} cut-chunk-by-{k}-reads7 dec {res}", idx_cell.get());
                        }
                    }
                    idx_cell.set(idx_cell.get() + 1);
                    println!("case {} cutsweep-{v}-digest lzma2 {} c0 len={} enc {}:{:016x}", idx_cell.get(), o.sig(), data.len(), kmax, digest);
                }
            }
        }
    }
    // (3) long streams with a small dictionary: several window moves and hash-table renormalisation offsets
    for i in 0..(if thorough { 6 } else { 2 }) {
        let mut r = Rng(rng.next());
        let o = Opts { dict: 4096, lc: 0, lp: 2, pb: 4, normal: i % 2 == 0, nice: 64, bt4: i % 2 == 1, depth: 8 };
        let data = gen_data(&mut r, "mixed", if thorough { 2_000_000 } else { 700_000 });
        emit(&mut r, "lzma2", &o, &data, None, "long");
    }
    // (4) every prefix of small multi-unit files of every format (cuts inside magic bytes, headers, trailers, index,
    //     padding and between members / blocks / chunks): same bytes, same error kind in every configuration
    for (fi, fmt) in ["lzip", "xz", "lzma2", "lzma"].iter().enumerate() {
        let mut r = Rng(rng.next());
        let o = Opts { dict: 4096, lc: if *fmt == "lzip" { 3 } else { 2 }, lp: 0, pb: 2, normal: fi % 2 == 0, nice: 32, bt4: fi % 2 == 1, depth: 4 };
        let mut data = gen_data(&mut r, "text", if thorough { 13_000 } else { 9_000 });
        for k in 0..40 {
            data[4090 + k] = r.next() as u8;
        }
        if let Ok(c) = encode(fmt, &o, &data, Some(4096)) {
            idx_cell.set(idx_cell.get() + 1);
            let idx = idx_cell.get();
            println!("case {idx} cutall {fmt} {} c4096 len={} enc {}:{:016x}", o.sig(), data.len(), c.len(), fnv(&c));
            for k in 0..c.len() {
                println!("case {idx} cutall@{k} dec {}", decode(fmt, &o, &c[..k], data.len() + 64));
            }
        }
    }
    // (5) BCJ2: complete streams, a main stream that runs dry before the announced size, short range-coder stream
    {
        let mut r = Rng(rng.next());
        let main: Vec<u8> = (0..300).map(|_| (r.next() % 200) as u8).collect(); // no E8 / E9 / 0F 8x opcodes
        let with_call: Vec<u8> = { let mut m = main.clone(); m[150] = 0xE8; m };
        let rc = [0u8; 5];
        let cases: Vec<(&str, &[u8], &[u8], &[u8], &[u8], u64)> = vec![
            ("complete", &main, &[], &[], &rc, 300),
            ("main-dry", &main, &[], &[], &rc, 500),
            ("main-dry-1", &main, &[], &[], &rc, 301),
            ("rc-short", &main, &[], &[], &rc[..3], 300),
            ("rc-empty", &main, &[], &[], &[], 300),
            ("call-dry", &with_call, &[], &[], &[0, 0xFF, 0xFF, 0xFF, 0xFF, 0, 0], 304),
            ("call-short", &with_call, &[1, 2], &[], &[0, 0xFF, 0xFF, 0xFF, 0xFF, 0, 0], 304),
            ("size-zero", &main, &[], &[], &rc, 0),
        ];
        for (name, m, c, j, rcs, size) in cases {
            idx_cell.set(idx_cell.get() + 1);
            let idx = idx_cell.get();
            println!("case {idx} bcj2-{name} bcj2 - c0 len={size} enc {}:{:016x}", m.len(), fnv(m));
            let res = show(catch_unwind(AssertUnwindSafe(|| read_all(lzma_rust2::filter::bcj2::BCJ2Reader::new(vec![m, c, j, rcs], size), 4096))));
            println!("case {idx} bcj2 dec {res}");
        }
    }
    // (6) streams long enough for the encoder window to move, made of short copies at distances within 64 of the
    //     dictionary size, with literals in between (a copy at the maximal distance right after a window move reads
    //     the oldest byte the window still has to hold); the first write size varies the offset of the move
    for v in 0..(if thorough { 48 } else { 10 }) {
        let mut r = Rng(rng.next());
        let dict = if v % 5 == 4 { 65536usize } else { 4096 };
        let fmt = if dict == 65536 { "lzma2" } else if v % 3 == 2 { "lzip" } else { "lzma" };
        let o = Opts { dict: dict as u32, lc: 3, lp: 0, pb: 2, normal: v % 10 == 9, nice: 32, bt4: v % 2 == 1, depth: 4 };
        let total = dict + dict / 2 + (256 << 10) + 545 + r.range(20_000, 60_000) as usize;
        let mut data = gen_data(&mut r, "random", dict + 64);
        while data.len() < total {
            let dist = dict - r.below(64) as usize;
            let len = r.range(2, 40);
            for _ in 0..r.range(1, 30) {
                for _ in 0..len {
                    let x = data[data.len() - dist];
                    data.push(x);
                }
                for _ in 0..r.below(3) {
                    data.push(r.next() as u8);
                }
            }
        }
        data.truncate(total);
        FIRST_WRITE.store(r.range(1, 70_000) as usize, std::sync::atomic::Ordering::Relaxed);
        emit(&mut r, fmt, &o, &data, None, "farrep");
        FIRST_WRITE.store(0, std::sync::atomic::Ordering::Relaxed);
    }
    // (8) LZMA2 "write k; flush; write rest" with k within keep_size_after of the end of the encoder's window buffer,
    //     BT4 with nice_len 273: flush leaves 272 bytes pending in the match finder, the next fill moves the window and
    //     re-runs the match finder on them; it looks dict_size bytes back from the first pending byte (before the
    //     repair of move_window: before the start of the buffer - a panic in the checked builds, an out-of-bounds
    //     read in the optimization build)
    for v in 0..(if thorough { 24 } else { 8 }) {
        let mut r = Rng(rng.next());
        let dict = if v % 4 == 3 { 131072usize } else { 65536 };
        let o = Opts { dict: dict as u32, lc: 3, lp: 0, pb: 2, normal: v % 8 == 5, nice: 273, bt4: v % 6 != 4, depth: 0 };
        let (eb, ea) = if o.normal { (4096usize, 4096usize) } else { (1, 272) };
        let b = dict + eb.max(65536usize.saturating_sub(dict)) + ea + 273 + (dict / 2 + (256 << 10));
        let back = if v == 0 { 225 } else { r.range(0, (ea + 272) as u64) as usize };
        let k = b - back;
        let total = k + r.range(300, 5000) as usize;
        let mut x = r.next() | 1;
        let data: Vec<u8> = (0..total).map(|_| { x ^= x << 13; x ^= x >> 7; x ^= x << 17; b"abcd"[(x >> 30) as usize & 3] }).collect();
        FIRST_WRITE.store(k, std::sync::atomic::Ordering::Relaxed);
        FLUSH_AFTER_FIRST.store(true, std::sync::atomic::Ordering::Relaxed);
        emit(&mut r, "lzma2", &o, &data, None, "flushwin");
        FLUSH_AFTER_FIRST.store(false, std::sync::atomic::Ordering::Relaxed);
        FIRST_WRITE.store(0, std::sync::atomic::Ordering::Relaxed);
    }
    // (7) only in builds with the verification hooks (the C15 builds): the match finders' aligned tables are
    //     allocated for dict_size + 1 / 2 * (dict_size + 1) entries and renormalised over the whole slice they hand
    //     out (in a real run only after 2 GiB of input): the SIMD loop must stay inside the allocation
    #[cfg(hasenbanck_lzma_rust2_verif)]
    for (k, dict) in [4096usize, 4097, 5000, 65536, 100_003, (1 << 20) + 5].iter().enumerate() {
        for len in [dict + 1, 2 * (dict + 1), 1 << 10, 1 << 16] {
            let off = 0x7FFF_FFFF - (*dict as i32 + 1);
            let (n, sum) = lzma_rust2::verif_hooks::lz_aligned_table_normalize(len, off);
            idx_cell.set(idx_cell.get() + 1);
            println!("case {} aligned-normalize-{k} table d{dict} c0 len={len} enc {}:{:016x}", idx_cell.get(), n, sum);
        }
    }
    println!("end {}", idx_cell.get());
}
