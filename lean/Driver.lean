import Driver.Proto
import Driver.Handlers
import Driver.Main
