import LzmaVerif.Generated.Consts
/-!
# The encoder's sliding window (`LZEncoderData`, src/lz/lz_encoder.rs) and its use by the writers

What is modelled (positions exactly, contents through a pluggable buffer):

* `LZEncoderData`: `buf`, `read_pos` (starts at -1), `read_limit`, `write_pos`, `pending_size`, `finishing`,
  `fill_window`, `move_window` (`MOVE_BLOCK_ALIGN`), `process_pending_bytes`, `set_flushing`, `set_finishing`,
  `has_enough_data`, `get_avail`, `move_pos(required_for_flushing, required_for_finishing)`, `get_buf_size`;
  plus the ghost field `base` = number of stream bytes dropped from the front of the buffer by window moves
  (buffer index `i` holds stream byte `base + i`).
* the writers (src/enc/lzma_writer.rs, lzma2_writer.rs): `write` = `while len > 0 { fill_window(rest); encode … }`,
  `finish` = `set_finishing; encode the rest`; for LZMA2 the encode loop may stop after any symbol (chunk
  limits) and then goes back to `fill_window` with whatever is left of the caller's slice.
* the encoder (src/enc/encoder.rs): `encode_init` / `encode_symbol` check `lz.has_enough_data(read_ahead + 1)`
  and then call the search, which calls `find_matches` / `skip` (= `move_pos`) some number of times.

What is NOT modelled: the search itself (HC4/BT4, fast/normal parser).  It is an arbitrary function
(`Oracle`) of everything it has been shown so far (the list of `View`s); per symbol it decides how many
`move_pos` calls to make, how many bytes the symbol covers and (LZMA2) whether the chunk is full.  The only
constraint is the bound `maxAhead` on how far the match finder may run ahead of the symbol start inside one
`encode_symbol` call (fast: `MATCH_LEN_MAX - 1`, normal: `OPTS - 2`; see `Mode.maxAhead`).

`LZMA2Writer::flush` inside a run: `flush`, `Ev`, `runEv` (`write` / `flush` in any order, then `finish`).  A flush changes
what the search is shown (bytes stay pending and are shown again later), so the view-independence theorems speak
about runs without flush (`run`); for runs WITH flush calls `Proofs/EncWindowFlush.lean` proves the memory-safety
side: the match finder is never run at a position with less history in the buffer than it may look back (ghost flag
`St.low`), across window moves with pending bytes (`moveOffset` is the statement after the repair `fix: move_window
keeps the history of the pending bytes`, `moveOffsetPinned` the one before, selected by `Params.pinnedMove` for the
witness).  The script machine at the end of the file (`scriptRun`) is what the driver runs against the real
`LZEncoder` (hook `lz_window_script`).

Not modelled either: preset dictionaries, `LZMA2Options::chunk_size`.
-/
namespace LzmaVerif.EncWindow

/-! ## Parameters -/

structure Params where
  dictSize : Nat
  extraBefore : Nat
  extraAfter : Nat
  matchLenMax : Nat
  niceLen : Nat
  /-- first argument of `LZEncoderData::move_pos`: HC4 passes 4 (hc4.rs:54), BT4 `nice_len` (bt4.rs:56) -/
  reqFlush : Nat
  /-- second argument of `move_pos`: 4 for both match finders -/
  reqFinish : Nat
  /-- how far `read_pos` may run ahead of the position of the symbol being coded inside one
      `encode_symbol` call -/
  maxAhead : Nat
  /-- LZMA2: the encode loop also stops when the chunk limits are reached -/
  lzma2 : Bool
  /-- `true` (always, except in the witness `raw_avail_depends_on_partition`): a view shows
      `min(get_avail(), keep_size_after - (pos - symStart))` bytes; `false`: it shows the raw `get_avail()` -/
  capViews : Bool := true
  /-- `false` (always, except in the witness `pinned_move_loses_pending_history`): `move_window` computes its offset
      from the first PENDING byte (the statement after the repair `fix: move_window keeps the history of the pending
      bytes`); `true`: the statement as it was before (`moveOffsetPinned`), which forgets the pending bytes -/
  pinnedMove : Bool := false
deriving Repr

namespace Params
def keepBefore (P : Params) : Nat := P.extraBefore + P.dictSize
def keepAfter (P : Params) : Nat := P.extraAfter + P.matchLenMax
/-- `reserve_size = (dict_size / 2 + (256 << 10)).min(512 << 20)` -/
def reserve (P : Params) : Nat := min (P.dictSize / 2 + 256 * 1024) (512 * 1024 * 1024)
/-- `get_buf_size` -/
def bufSize (P : Params) : Nat := P.keepBefore + P.keepAfter + P.reserve
end Params

inductive Mode where | fast | normal
deriving DecidableEq, Repr

inductive MF where | hc4 | bt4
deriving DecidableEq, Repr

namespace Mode
/-- `FastEncoderMode::EXTRA_SIZE_BEFORE` / `NormalEncoderMode::EXTRA_SIZE_BEFORE` -/
def extraBefore : Mode → Nat
  | .fast => Consts.FAST_EXTRA_SIZE_BEFORE
  | .normal => Consts.NORMAL_EXTRA_SIZE_BEFORE
/-- `FastEncoderMode::EXTRA_SIZE_AFTER` / `NormalEncoderMode::EXTRA_SIZE_AFTER` -/
def extraAfter : Mode → Nat
  | .fast => Consts.FAST_EXTRA_SIZE_AFTER
  | .normal => Consts.NORMAL_EXTRA_SIZE_AFTER
/-- The largest `read_pos - (position of the symbol being coded)` inside one `encode_symbol` call.

* fast (encoder_fast.rs `get_next_symbol`): `find_matches` at the symbol position (offset 0), then either
  `skip(len - 1)` with `len ≤ avail ≤ MATCH_LEN_MAX`, or a second `find_matches` (offset 1) followed by
  `skip(main_len - 2)`: the last offset is `len - 1 ≤ MATCH_LEN_MAX - 1`.
* normal (encoder_normal.rs): `skip(len - 1)` as above, or the optimum loop calls `find_matches` for
  `opt_cur = 1 .. opt_end - 1` with `opt_end ≤ OPTS - 1` (`avail = min(get_avail, OPTS - 1)`): the last
  offset is `OPTS - 2`.  While pending optimum entries are handed out no `move_pos` is made. -/
def maxAhead : Mode → Nat
  | .fast => Consts.MATCH_LEN_MAX - 1
  | .normal => max (Consts.MATCH_LEN_MAX - 1) (Consts.NORMAL_OPTS - 2)
/-- the largest argument of `min(lz.get_avail(), ·)` the parser evaluates (always at offset 0):
    `MATCH_LEN_MAX` (both) and `OPTS - 1` (normal) -/
def availCap : Mode → Nat
  | .fast => Consts.MATCH_LEN_MAX
  | .normal => max Consts.MATCH_LEN_MAX (Consts.NORMAL_OPTS - 1)
end Mode

/-- `COMPRESSED_SIZE_MAX.saturating_sub(dict_size)` (lzma2_writer.rs `get_extra_size_before`); the LZMA
    writer passes 0 -/
def lzma2ExtraBefore (dictSize : Nat) : Nat := 65536 - dictSize

/-- the parameters `LZMAEncoder::new` hands to `LZEncoder::new_*` -/
def mkParams (dictSize niceLen : Nat) (mode : Mode) (mf : MF) (lzma2 : Bool) : Params :=
  { dictSize
    extraBefore := max (if lzma2 then lzma2ExtraBefore dictSize else 0) mode.extraBefore
    extraAfter := mode.extraAfter
    matchLenMax := Consts.MATCH_LEN_MAX
    niceLen
    reqFlush := match mf with | .hc4 => 4 | .bt4 => niceLen
    reqFinish := 4
    maxAhead := mode.maxAhead
    lzma2 }

/-! ## Buffers -/

/-- the three things the window does with its byte buffer -/
structure BufOps (β : Type) where
  init : Nat → β
  /-- `buf[pos .. pos + bytes.len()].copy_from_slice(bytes)` -/
  write : β → Nat → List Nat → β
  /-- `buf.copy_within(off .. off + size, 0)` -/
  shift : β → Nat → Nat → β
  /-- `buf[start .. start + len]` -/
  slice : β → Nat → Nat → List Nat

/-- a fixed-size buffer as a list -/
def listBuf : BufOps (List Nat) where
  init n := List.replicate n 0
  write b pos bytes := b.take pos ++ bytes ++ b.drop (pos + bytes.length)
  shift b off size := (b.drop off).take size ++ b.drop size
  slice b start len := (b.drop start).take len

/-- no contents at all (positions only; used by the driver) -/
def noBuf : BufOps Unit where
  init _ := ()
  write _ _ _ := ()
  shift _ _ _ := ()
  slice _ _ _ := []

/-! ## The window -/

structure Win (β : Type) where
  buf : β
  readPos : Int := -1
  readLimit : Int := -1
  writePos : Nat := 0
  pendingSize : Nat := 0
  finishing : Bool := false
  /-- ghost: stream bytes dropped from the front of the buffer -/
  base : Nat := 0

/-- `x & !(MOVE_BLOCK_ALIGN - 1)` for `x ≥ 0` -/
def alignDown (x : Nat) : Nat := x / Consts.MOVE_BLOCK_ALIGN * Consts.MOVE_BLOCK_ALIGN

section
variable {β : Type} (B : BufOps β) (P : Params)

def Win.init : Win β := { buf := B.init P.bufSize }

def Win.isStarted (w : Win β) : Bool := w.readPos != -1

/-- `move_offset` of `move_window` AS IT WAS before the repair:
    `(self.read_pos + 1 - self.keep_size_before as i32) & MOVE_BLOCK_ALIGN_MASK`.  It keeps `keep_size_before - 1 + (0..63)`
    bytes before `read_pos` - but `process_pending_bytes` rewinds `read_pos` by `pending_size` and runs the match
    finder there again (witness `pinned_move_loses_pending_history`). -/
def moveOffsetPinned (w : Win β) : Nat := alignDown (w.readPos + 1 - (P.keepBefore : Int)).toNat

/-- the argument of `& MOVE_BLOCK_ALIGN_MASK` in the repaired `move_window`, before the alignment:
    `self.read_pos + 1 - self.keep_size_before as i32 - self.pending_size as i32`.  The code `debug_assert`s
    `move_offset >= 0`; in a release build a negative offset becomes a huge `usize` and `copy_within` panics.
    `Proofs/EncWindowFlush.lean` (`flush_inv_move_offset`) proves it is at least `MOVE_BLOCK_ALIGN` whenever
    `fill_window` calls `move_window` in a reachable state, so the `toNat` below never clamps. -/
def moveOffsetRaw (w : Win β) : Int := w.readPos + 1 - (P.keepBefore : Int) - (w.pendingSize : Int)

/-- `move_offset` of `move_window`:
    `(self.read_pos + 1 - self.keep_size_before as i32 - self.pending_size as i32) & MOVE_BLOCK_ALIGN_MASK`
    (with `P.pinnedMove` the statement before the repair) -/
def moveOffset (w : Win β) : Nat :=
  if P.pinnedMove then moveOffsetPinned P w else alignDown (moveOffsetRaw P w).toNat

def moveWindow (w : Win β) : Win β :=
  let off := moveOffset P w
  let size := w.writePos - off
  { w with
    buf := B.shift w.buf off size
    readPos := w.readPos - off
    readLimit := w.readLimit - off
    writePos := w.writePos - off
    base := w.base + off }

/-- `has_enough_data(already_read_len)` -/
def hasEnoughData (w : Win β) (alreadyRead : Int) : Bool := w.readPos - alreadyRead < w.readLimit

/-- `get_avail` -/
def getAvail (w : Win β) : Nat := ((w.writePos : Int) - w.readPos).toNat

/-- `move_pos(required_for_flushing, required_for_finishing)`: the new window and the returned `avail`
    (0 = the byte stays pending) -/
def movePos (w : Win β) : Win β × Nat :=
  let w1 := { w with readPos := w.readPos + 1 }
  let avail := ((w1.writePos : Int) - w1.readPos).toNat
  if avail < P.reqFlush ∧ (avail < P.reqFinish ∨ w1.finishing = false) then
    ({ w1 with pendingSize := w1.pendingSize + 1 }, 0)
  else (w1, avail)

/-- the part of `fill_window` before `process_pending_bytes`: new window and the number of bytes used -/
def fillCore (w : Win β) (input : List Nat) : Win β × Nat :=
  let w1 := if w.readPos ≥ (P.bufSize : Int) - (P.keepAfter : Int) then moveWindow B P w else w
  let len := min input.length (P.bufSize - w1.writePos)
  let wp := w1.writePos + len
  ({ w1 with
      buf := B.write w1.buf w1.writePos (input.take len)
      writePos := wp
      readLimit := if wp ≥ P.keepAfter then (wp : Int) - (P.keepAfter : Int) else w1.readLimit }, len)

end

/-! ## What the search is shown -/

/-- One `move_pos` as seen by the search.

* `pos` – absolute stream position of the new `read_pos`;
* `symStart` – absolute position of the symbol being coded (`read_pos - read_ahead` at the entry of
  `encode_symbol`);
* `avail` – `min(get_avail(), keep_size_after - (pos - symStart))`;
* `mfOk` – `move_pos` returned a non-zero `avail` (otherwise the match finder does nothing and the byte is
  pending);
* `matchLimit` – `match_len_limit` of `find_matches`: `min(returned avail, match_len_max)` (0 when pending);
  `nice_len_limit` is `min(matchLimit, nice_len)`;
* `ahead` – the `avail` bytes from `pos` on; `back` – the `min(pos, dict_size)` bytes before `pos`. -/
structure View where
  pos : Nat
  symStart : Nat
  avail : Nat
  mfOk : Bool
  matchLimit : Nat
  ahead : List Nat
  back : List Nat
deriving DecidableEq, Repr, Inhabited

/-- the search: from everything shown so far (newest first) to
    (number of `move_pos` calls, symbol length, LZMA2 chunk full) -/
abbrev Oracle := List View → Nat × Nat × Bool

/-- the decision actually taken: `encode_init` (window not started) is one `skip(1)` and a literal; a fresh
    symbol (`read_ahead = -1`) needs at least one `find_matches`; the match finder stays within
    `maxAhead` of the symbol start and inside the written data; the symbol covers at least one byte and at
    most the bytes the match finder has seen -/
def clampAdv (lo adv hi1 hi2 : Nat) : Nat := max lo (min adv (min hi1 hi2))

def clampLen (len : Nat) (ra' : Int) : Nat := max 1 (min len (ra' + 1).toNat)

structure St (β : Type) where
  win : Win β
  readAhead : Int := -1
  /-- newest first -/
  trace : List View := []
  /-- the write loop ran out of fuel (never happens, see `Proofs/EncWindow.lean`) -/
  stuck : Bool := false
  /-- ghost: the match finder was run (`find_matches` / one iteration of `skip`, also the re-run of pending bytes by
      `process_pending_bytes`) at a buffer position with fewer than `min(keep_size_before - 1, bytes seen so far)`
      bytes of history before it in the buffer: a candidate at distance `delta ≤ dict_size` would be read at a
      negative index (never happens with the repaired `move_window`: `Proofs/EncWindowFlush.lean`) -/
  low : Bool := false

section
variable {β : Type} (B : BufOps β) (P : Params) (O : Oracle)

def St.init : St β := { win := Win.init B P }

/-- buffer index of the symbol being coded, `read_pos - read_ahead` -/
def St.encPos (s : St β) : Int := s.win.readPos - s.readAhead

/-- bytes in the window that are not coded yet -/
def St.unenc (s : St β) : Nat := ((s.win.writePos : Int) - s.encPos).toNat

def mkView (w : Win β) (symAbs : Nat) (ret : Nat) : View :=
  let r := w.readPos.toNat
  let p := w.base + r
  let n := if P.capViews then min (w.writePos - r) (P.keepAfter - (p - symAbs)) else w.writePos - r
  let b := min p P.dictSize
  { pos := p, symStart := symAbs, avail := n, mfOk := ret != 0, matchLimit := min ret P.matchLenMax
    ahead := B.slice w.buf r n, back := B.slice w.buf (r - b) b }

/-- at buffer position `read_pos` at least `min(keep_size_before - 1, bytes seen so far)` bytes of history are in
    the buffer (`base = 0`: nothing was discarded yet) -/
def histOk (w : Win β) : Bool := decide (w.base = 0) || decide ((P.keepBefore : Int) ≤ w.readPos + 1)

/-- one `find_matches` / one iteration of `skip` -/
def mfStep (symAbs : Nat) (s : St β) : St β :=
  let r := movePos P s.win
  { s with win := r.1, trace := mkView B P r.1 symAbs r.2 :: s.trace
           low := s.low || !(histOk P r.1) }

def advance (symAbs : Nat) : Nat → St β → St β
  | 0, s => s
  | k + 1, s => advance symAbs k (mfStep B P symAbs s)

/-- `process_pending_bytes` -/
def processPending (s : St β) : St β :=
  let w := s.win
  if 0 < w.pendingSize ∧ w.readPos < w.readLimit then
    let k := w.pendingSize
    let symAbs := w.base + s.encPos.toNat
    advance B P symAbs k { s with win := { w with readPos := w.readPos - k, pendingSize := 0 } }
  else s

/-- `fill_window` -/
def fillWindow (s : St β) (input : List Nat) : St β × Nat :=
  let r := fillCore B P s.win input
  (processPending B P { s with win := r.1 }, r.2)

/-- `set_flushing` -/
def setFlushing (s : St β) : St β :=
  processPending B P { s with win := { s.win with readLimit := (s.win.writePos : Int) - 1 } }

/-- `set_finishing` -/
def setFinishing (s : St β) : St β :=
  processPending B P { s with win := { s.win with readLimit := (s.win.writePos : Int) - 1, finishing := true } }

/-- one successful `encode_init` / `encode_symbol` (the caller has checked `has_enough_data`) -/
def symbolStep (s : St β) : St β × Bool :=
  let d := if s.win.readPos = -1 then (1, 1, false) else O s.trace
  let ra := s.readAhead
  let lo := if ra = -1 then 1 else 0
  let hi1 := ((P.maxAhead : Int) - ra).toNat
  let hi2 := ((s.win.writePos : Int) - 1 - s.win.readPos).toNat
  let adv := clampAdv lo d.1 hi1 hi2
  let symAbs := s.win.base + s.encPos.toNat
  let s1 := advance B P symAbs adv s
  let ra' := ra + adv
  ({ s1 with readAhead := ra' - clampLen d.2.1 ra' }, d.2.2)

/-- `encode_for_lzma1` / `encode_for_lzma2`: symbols while `has_enough_data(read_ahead + 1)`; with
    `honorStop` the loop ends after a symbol for which the search reports a full chunk.
    Returns whether it stopped for that reason. -/
def encodeLoop (honorStop : Bool) : Nat → St β → St β × Bool
  | 0, s => (s, false)
  | f + 1, s =>
    if hasEnoughData s.win (s.readAhead + 1) then
      let r := symbolStep B P O s
      if honorStop && r.2 then (r.1, true) else encodeLoop honorStop f r.1
    else (s, false)

/-- `write(buf)`: `while len > 0 { used = fill_window(rest); encode }` -/
def writeLoop : Nat → St β → List Nat → St β
  | 0, s, rest => if rest.isEmpty then s else { s with stuck := true }
  | f + 1, s, rest =>
    if rest.isEmpty then s else
      let r := fillWindow B P s rest
      let s2 := (encodeLoop B P O P.lzma2 (r.1.unenc + 1) r.1).1
      writeLoop f s2 (rest.drop r.2)

def write (s : St β) (part : List Nat) : St β :=
  writeLoop B P O (2 * part.length + s.unenc + 1) s part

def writeAll (s : St β) : List (List Nat) → St β
  | [] => s
  | p :: ps => writeAll (write B P O s p) ps

/-- `finish()`: `set_finishing`, then encode everything that is left (for LZMA2 chunk after chunk) -/
def finish (s : St β) : St β :=
  let s1 := setFinishing B P s
  (encodeLoop B P O false (s1.unenc + 1) s1).1

/-- `LZMA2Writer::flush` (lzma2_writer.rs): `set_flushing`, then `while pending_size > 0 { encode_for_lzma2; write_chunk }`
    = symbols until every byte in the window is coded (chunk ends only re-enter the loop) -/
def flush (s : St β) : St β :=
  let s1 := setFlushing B P s
  (encodeLoop B P O false (s1.unenc + 1) s1).1

/-- what the caller does between construction and `finish` -/
inductive Ev where
  | write (part : List Nat)
  | flush
deriving Repr

def runEvs (s : St β) : List Ev → St β
  | [] => s
  | .write p :: es => runEvs (write B P O s p) es
  | .flush :: es => runEvs (flush B P O s) es

/-- a whole run with `flush` calls wherever the caller likes: `write` / `flush` in any order, then `finish` -/
def runEv (evs : List Ev) : St β := finish B P O (runEvs B P O (St.init B P) evs)

/-- the whole run: the views in the order in which the search saw them -/
def run (parts : List (List Nat)) : St β := finish B P O (writeAll B P O (St.init B P) parts)

def traceOf (parts : List (List Nat)) : List View := (run B P O parts).trace.reverse

end

/-! ## The reference: the same encoder on the whole input, without a window -/

section
variable (P : Params) (O : Oracle) (inp : List Nat)

/-- what the search is shown at absolute position `p` of a symbol starting at `e` -/
def refView (e p : Nat) : View :=
  let a := inp.length - p
  let n := min a (P.keepAfter - (p - e))
  let b := min p P.dictSize
  { pos := p, symStart := e, avail := n, mfOk := decide (P.reqFinish ≤ a)
    matchLimit := if P.reqFinish ≤ a then min a P.matchLenMax else 0
    ahead := (inp.drop p).take n, back := (inp.drop (p - b)).take b }

structure RSt where
  /-- absolute -/
  readPos : Int := -1
  readAhead : Int := -1
  trace : List View := []

def refMf (e : Nat) (c : RSt) : RSt :=
  { c with readPos := c.readPos + 1, trace := refView P inp e (c.readPos + 1).toNat :: c.trace }

def refAdvance (e : Nat) : Nat → RSt → RSt
  | 0, c => c
  | k + 1, c => refAdvance e k (refMf P inp e c)

def RSt.encPos (c : RSt) : Int := c.readPos - c.readAhead

def refSymbol (c : RSt) : RSt × Bool :=
  let d := if c.readPos = -1 then (1, 1, false) else O c.trace
  let ra := c.readAhead
  let lo := if ra = -1 then 1 else 0
  let hi1 := ((P.maxAhead : Int) - ra).toNat
  let hi2 := ((inp.length : Int) - 1 - c.readPos).toNat
  let adv := clampAdv lo d.1 hi1 hi2
  let e := c.encPos.toNat
  let c1 := refAdvance P inp e adv c
  let ra' := ra + adv
  ({ c1 with readAhead := ra' - clampLen d.2.1 ra' }, d.2.2)

/-- symbols until every byte is coded -/
def refRun : Nat → RSt → RSt
  | 0, c => c
  | f + 1, c => if c.encPos < inp.length then refRun f (refSymbol P O inp c).1 else c

def refTrace : List View := (refRun P O inp (inp.length + 1) {}).trace.reverse

end

/-! ## Position-only run for the driver -/

def fnvStep (h x : Nat) : Nat := ((h ^^^ (x % 4294967296)) * 16777619) % 4294967296

/-- FNV-1a (32 bit, one round per number) over `(pos, lookahead length, lookback length)` of every view -/
def traceHash (dictSize : Nat) (tr : List View) : Nat :=
  tr.foldl (fun h v => fnvStep (fnvStep (fnvStep h v.pos) v.avail) (min v.pos dictSize)) 2166136261

/-- the bytes `start, start+1, …` modulo 256 -/
def cyclicBytes (start len : Nat) : List Nat := (List.range len).map (fun i => (start + i) % 256)

/-- cut `0,1,2,…` (mod 256) into parts of the given lengths -/
def cyclicParts : Nat → List Nat → List (List Nat)
  | _, [] => []
  | start, l :: ls => cyclicBytes start l :: cyclicParts (start + l) ls

/-- a family of deterministic stand-ins for the search: policy 0 codes literals only; policy `k > 0`
    derives (number of `move_pos` calls, symbol length, chunk full) from the last view's position so that
    multi-byte symbols, read-ahead and chunk ends all occur -/
def policyOracle (k : Nat) : Oracle := fun tr =>
  if k = 0 then (1, 1, false) else
    match tr with
    | [] => (1, 1, false)
    | v :: _ => ((v.pos * 7 + k) % (k + 2), (v.pos * 5 + 3) % (k + 1) + 1, (v.pos + 1) % (97 * k) = 0)

/-! ## Script machine for the driver (`encwin.script`, hook `verif_hooks::lz_window_script`)

One operation per pair `(op, n)`, exactly what the hook does with the real `LZEncoder`:
* `(0, n)` – one `fill_window` call with `n` bytes offered (the bytes used are NOT offered again; `fill_window` takes
  at most `buf_size - write_pos` of them, so the model offers `min(n, buf_size)`);
* `(1, _)` – `set_flushing`;  `(2, _)` – `set_finishing`;
* `(3, n)` – at most `n` times: `if has_enough_data(0) { skip(1) }` (one `move_pos`; like an encoder that codes
  literals only, `read_ahead = -1`).
After every operation the positions `(read_pos, read_limit, write_pos, pending_size)` are logged. -/

def scriptStep (P : Params) (s : St Unit) : Nat × Nat → St Unit
  | (0, n) => if s.win.finishing then s else (fillWindow noBuf P s (List.replicate (min n P.bufSize) 0)).1
  | (1, _) => setFlushing noBuf P s
  | (2, _) => setFinishing noBuf P s
  | (_, n) =>
    let rec go : Nat → St Unit → St Unit
      | 0, s => s
      | k + 1, s => if hasEnoughData s.win 0 then go k (mfStep noBuf P (s.win.base + (s.win.readPos + 1).toNat) s) else s
    go n s

/-- FNV-1a over the logged positions (integers as 32-bit two's complement) -/
def scriptLog (h : Nat) (w : Win Unit) : Nat :=
  let u (x : Int) : Nat := (x % 4294967296).toNat
  fnvStep (fnvStep (fnvStep (fnvStep h (u w.readPos)) (u w.readLimit)) w.writePos) w.pendingSize

/-- runs the script; returns the final state and the hash of the log -/
def scriptRun (P : Params) (ops : List (Nat × Nat)) : St Unit × Nat :=
  ops.foldl (fun (acc : St Unit × Nat) op =>
    let s := { scriptStep P acc.1 op with trace := [] }
    (s, scriptLog acc.2 s.win)) (St.init noBuf P, 2166136261)

end LzmaVerif.EncWindow
