import LzmaVerif.Model.LzmaStream
/-
What a parse denotes (specification level, executable): the symbols the encoder may emit and the
effect of a parse on coder state and history.  Used in the statements of the round-trip theorems
and by the driver to validate parses recovered from real streams.  Core Lean only.
-/
namespace LzmaVerif.Lzma
open LzmaVerif Prog

/-- symbols the encoder may emit -/
def SymOk : Sym → Prop
  | .lit b => b < 256
  | .mtch dist len => 2 ≤ len ∧ len ≤ 273 ∧ dist < 2 ^ 32
  | .rep i len => i ≤ 3 ∧ 2 ≤ len ∧ len ≤ 273
  | .shortRep => True

instance : DecidablePred SymOk := fun s => by
  cases s <;> unfold SymOk <;> infer_instance

/-- What a parse denotes: run the symbols on coder state and history like the decoder does.
    `none` if some symbol is not admissible or copies from outside the dictionary. -/
def parseRun (dictBuf : Nat) : List Sym → Coder → Hist → Option (Coder × Hist)
  | [], c, h => some (c, h)
  | s :: rest, c, h =>
    match s with
    | .lit b => if b < 256 then parseRun dictBuf rest (c.apply s) (h.push b) else none
    | _ =>
      match s.copyOf c with
      | some (dist, len) =>
        if SymOk s ∧ dist < h.size ∧ dist < dictBuf then
          parseRun dictBuf rest (c.apply s) (h.copy dist len)
        else none
      | none => none


end LzmaVerif.Lzma
