/-
Model of how the writers cut their input into blocks / members / work units:
`XZWriter::write` + `finish` (src/xz/writer.rs), `LZIPWriter::write` + `finish` (src/lzip/writer.rs),
`LZMA2WriterMT::write` / `LZIPWriterMT::write` (unit cutting).  Only byte counts matter here.
Core Lean only.
-/
namespace LzmaVerif.Split

/-- One `write(buf)` call of `n` bytes on the lazy splitter used by `XZWriter` and `LZIPWriter`:
`fill` = bytes in the open block, `lim` = effective limit (> 0).  A full block is closed when the
next byte arrives (`should_finish_block` at the top of the loop), never at the end of a call.
Returns the sizes of the blocks closed during this call (oldest first) and the new fill. -/
def lazyWrite (lim : Nat) : Nat → Nat → Nat → List Nat × Nat
  | 0, fill, _ => ([], fill)
  | fuel+1, fill, n =>
    if n = 0 then ([], fill)
    else if fill ≥ lim then
      let (bs, f) := lazyWrite lim fuel 0 n
      (fill :: bs, f)
    else
      let k := min n (lim - fill)
      lazyWrite lim fuel (fill + k) (n - k)

/-- all write calls, then `finish` (which closes the open block if it holds data) -/
def lazyRun (lim : Nat) : List Nat → Nat → List Nat
  | [], fill => if fill > 0 then [fill] else []
  | n :: rest, fill =>
    let (bs, f) := lazyWrite lim (n + 2) fill n
    bs ++ lazyRun lim rest f

/-- block sizes written by `XZWriter` for a sequence of write-call lengths -/
def xzBlocks (lim : Nat) (parts : List Nat) : List Nat := lazyRun lim parts 0

/-- member sizes written by `LZIPWriter`: as `xzBlocks`, but an empty input still yields one (empty) member -/
def lzipMembers (lim : Nat) (parts : List Nat) : List Nat :=
  match lazyRun lim parts 0 with
  | [] => [0]
  | l => l

/-- One `write(buf)` call on the eager splitter of the MT writers: a unit is dispatched as soon as it is full. -/
def eagerWrite (lim : Nat) : Nat → Nat → Nat → List Nat × Nat
  | 0, fill, _ => ([], fill)
  | fuel+1, fill, n =>
    if n = 0 then ([], fill)
    else
      let k := min n (lim - fill)
      if fill + k ≥ lim then
        let (bs, f) := eagerWrite lim fuel 0 (n - k)
        ((fill + k) :: bs, f)
      else ([], fill + k)

def eagerRun (lim : Nat) : List Nat → Nat → List Nat
  | [], fill => if fill > 0 then [fill] else []
  | n :: rest, fill =>
    let (bs, f) := eagerWrite lim (n + 2) fill n
    bs ++ eagerRun lim rest f

/-- unit sizes cut by the MT writers -/
def mtUnits (lim : Nat) (parts : List Nat) : List Nat := eagerRun lim parts 0

/-- the partition-free answer: full blocks and a remainder -/
def ideal (lim total : Nat) : List Nat :=
  List.replicate (total / lim) lim ++ (if total % lim > 0 then [total % lim] else [])

end LzmaVerif.Split

namespace LzmaVerif.Split

/-- `LZMAWriter` with an expected uncompressed size: `write` refuses to go beyond it
    (`exp < current + buf.len()`), `finish` refuses to stop short of it -/
inductive SizeOutcome where
  | ok (written : Nat)       -- finish succeeded; the header announced `written` bytes
  | errWrite (call : Nat)    -- write call number `call` (0-based) was refused
  | errFinish
deriving DecidableEq, Repr

def expectedRun (exp : Nat) : List Nat → Nat → Nat → SizeOutcome
  | [], cur, _ => if exp = cur then .ok cur else .errFinish
  | n :: rest, cur, i => if exp < cur + n then .errWrite i else expectedRun exp rest (cur + n) (i + 1)

end LzmaVerif.Split
