import LzmaVerif.Model.Rc
/-
Decision programs: the symbol decoder written once as a tree of bit requests.  The *decoder*
interprets a program with the range decoder; the *encoder* walks the same program along a given
bit string and range-encodes each answer with the probability the program asked for.  The
round-trip theorem for the range coder is proved once, for every program.
-/
namespace LzmaVerif
open Rc

inductive Prog (α : Type) where
  | ret : α → Prog α
  /-- adaptive bit with probability slot `idx` -/
  | bit : Nat → (Bool → Prog α) → Prog α
  /-- direct (probability 1/2, non-adaptive) bit -/
  | direct : (Bool → Prog α) → Prog α

namespace Prog

def bind {α β : Type} : Prog α → (α → Prog β) → Prog β
  | ret a, f => f a
  | bit i k, f => bit i (fun b => bind (k b) f)
  | direct k, f => direct (fun b => bind (k b) f)

/-- pure execution on a bit string: result and the unused bits -/
def runBits {α : Type} : Prog α → List Bool → Option (α × List Bool)
  | ret a, bs => some (a, bs)
  | bit _ k, b :: bs => runBits (k b) bs
  | direct k, b :: bs => runBits (k b) bs
  | bit _ _, [] => none
  | direct _, [] => none

/-- decoder: interpret with the range decoder -/
def decRun {α : Type} : Prog α → Probs → Dec → α × Probs × Dec
  | ret a, ps, d => (a, ps, d)
  | bit i k, ps, d =>
    let p := ps.get i
    let (b, d') := d.decodeBitP p
    decRun (k b) (ps.set i (updProb p b)) d'
  | direct k, ps, d =>
    let (b, d') := d.decodeDirect1
    decRun (k b) ps d'

/-- encoder: walk along `bs`; `none` if the bits run out before the program returns -/
def encRun {α : Type} : Prog α → List Bool → Probs → Enc → Option (α × List Bool × Probs × Enc)
  | ret a, bs, ps, e => some (a, bs, ps, e)
  | bit i k, b :: bs, ps, e =>
    let p := ps.get i
    encRun (k b) bs (ps.set i (updProb p b)) (encodeBitP e p b)
  | direct k, b :: bs, ps, e => encRun (k b) bs ps (encodeDirect1 e b)
  | bit _ _, [], _, _ => none
  | direct _, [], _, _ => none

end Prog
end LzmaVerif
