import LzmaVerif.Model.Prog
import LzmaVerif.Generated.Consts
/-
Model of the LZMA symbol coder: `src/decoder.rs` (LZMADecoder::decode, decode_match,
decode_rep_match, LiteralSubDecoder::decode, LengthCoder::decode), `src/state.rs`,
`src/lib.rs` (LZMACoder tables, get_dist_state, LiteralCoder::get_sub_coder_index) and, through
the bit strings of `symBits`, `src/enc/encoder.rs` (encode_symbol, encode_match, encode_rep_match,
LiteralSubEncoder::encode, LengthEncoder::encode, get_dist_slot, encode_lzma1_end_marker).

The decoder side is a decision program (`Prog`); the encoder side is the list of answers that
leads the same program to the symbol.  Core Lean only.
-/
namespace LzmaVerif.Lzma
open LzmaVerif Prog

/-! ## Probability table layout (one flat array) -/

def oIsMatch : Nat := 0            -- [state][posState]  12*16
def oIsRep : Nat := 192            -- [state]
def oIsRep0 : Nat := 204
def oIsRep1 : Nat := 216
def oIsRep2 : Nat := 228
def oIsRep0Long : Nat := 240       -- [state][posState]  12*16
def oDistSlots : Nat := 432        -- [distState][64]
def oDistSpecial : Nat := 688      -- 124
def oDistAlign : Nat := 812        -- 16
def oMatchLen : Nat := 828         -- choice 2, low 16*8, mid 16*8, high 256  = 514
def oRepLen : Nat := 1342
def oLiteral : Nat := 1856         -- [subcoder][0x300]

def numProbs (lc lp : Nat) : Nat := oLiteral + 0x300 * 2 ^ (lc + lp)

def distSpecialIndex (i : Nat) : Nat := Consts.DIST_SPECIAL_INDEX.getD i 0

/-! ## State machine (`state.rs`) -/

def stLiteral (s : Nat) : Nat := if s ≤ 3 then 0 else if s ≤ 9 then s - 3 else s - 6
def stMatch (s : Nat) : Nat := if s < 7 then 7 else 10
def stLongRep (s : Nat) : Nat := if s < 7 then 8 else 11
def stShortRep (s : Nat) : Nat := if s < 7 then 9 else 11
def stIsLiteral (s : Nat) : Bool := s < 7

/-! ## Symbols -/

/-- distances are 0-based as in the code (`reps[0]`): `dist = 0` repeats the previous byte -/
inductive Sym where
  | lit (b : Nat)
  | mtch (dist len : Nat)
  | rep (idx len : Nat)     -- long repeat of reps[idx], len ≥ 2
  | shortRep
deriving Repr, DecidableEq, Inhabited

structure Params where
  lc : Nat
  lp : Nat
  pb : Nat
deriving Repr, DecidableEq

/-- what the symbol decoder knows before a symbol -/
structure Ctx where
  state : Nat
  pos : Nat        -- bytes in the dictionary since the last dictionary reset (incl. preset)
  prevByte : Nat
  matchByte : Nat  -- byte at distance reps[0] (only used after a non-literal)
deriving Repr

/-! ## Building blocks -/

def b2n (b : Bool) : Nat := if b then 1 else 0

/-- `decode_bit_tree` over a table at `base` with `2^n` entries: `m` runs from 1 -/
def bitTreeAux (base : Nat) : Nat → Nat → Prog Nat
  | 0, m => ret m
  | n+1, m => bit (base + m) fun b => bitTreeAux base n (2 * m + b2n b)

def bitTree (base n : Nat) : Prog Nat :=
  bind (bitTreeAux base n 1) fun m => ret (m - 2 ^ n)

/-- `decode_reverse_bit_tree`: result bit `i` is the `i`-th decoded bit -/
def revTreeAux (base : Nat) : Nat → Nat → Nat → Nat → Prog Nat
  | 0, _, _, acc => ret acc
  | n+1, m, i, acc => bit (base + m) fun b => revTreeAux base n (2 * m + b2n b) (i + 1) (acc + b2n b * 2 ^ i)

def revTree (base n : Nat) : Prog Nat := revTreeAux base n 1 0 0

/-- `decode_direct_bits(count)`: most significant bit first -/
def directBits : Nat → Nat → Prog Nat
  | 0, acc => ret acc
  | n+1, acc => direct fun b => directBits n (2 * acc + b2n b)

/-- `LengthCoder::decode`: table at `base` (choice 0,1; low at +2; mid at +130; high at +258) -/
def lenProg (base posState : Nat) : Prog Nat :=
  bit base fun c0 =>
    if !c0 then bind (bitTree (base + 2 + posState * 8) 3) fun v => ret (v + 2)
    else bit (base + 1) fun c1 =>
      if !c1 then bind (bitTree (base + 130 + posState * 8) 3) fun v => ret (v + 10)
      else bind (bitTree (base + 258) 8) fun v => ret (v + 18)

/-- `get_dist_state` / `coder_get_dict_size` -/
def distState (len : Nat) : Nat := if len < 6 then len - 2 else 3

/-- distance part of `decode_match` -/
def distProg (len : Nat) : Prog Nat :=
  bind (bitTree (oDistSlots + distState len * 64) 6) fun slot =>
    if slot < 4 then ret slot
    else
      let limit := slot / 2 - 1
      let base := (2 + slot % 2) * 2 ^ limit
      if slot < 14 then
        bind (revTree (oDistSpecial + distSpecialIndex (slot - 4)) limit) fun r => ret (base + r)
      else
        bind (directBits (limit - 4) 0) fun hi =>
          bind (revTree oDistAlign 4) fun lo => ret (base + hi * 16 + lo)

/-- literal, plain (`state.is_literal()`): 8-bit tree in the sub-coder at `base` -/
def litPlain (base : Nat) : Prog Nat :=
  bind (bitTreeAux base 8 1) fun m => ret (m - 256)

/-- literal after a match: the `offset`/`match_byte` walk of `LiteralSubDecoder::decode` -/
def litMatchedAux (base : Nat) : Nat → Nat → Nat → Nat → Prog Nat
  | 0, symbol, _, _ => ret (symbol - 256)
  | n+1, symbol, offset, matchByte =>
    let mb := (matchByte * 2) % 512                      -- only bit 8 is ever looked at
    let matchBit := if offset = 0 then 0 else (mb / 256 % 2) * 256
    bit (base + offset + matchBit + symbol) fun b =>
      let offset' := if (decide (matchBit ≠ 0)) == b then offset else 0
      litMatchedAux base n (2 * symbol + b2n b) offset' mb

def litMatched (base matchByte : Nat) : Prog Nat := litMatchedAux base 8 1 256 matchByte

/-- `get_sub_coder_index` -/
def litIndex (pr : Params) (prevByte pos : Nat) : Nat :=
  prevByte / 2 ^ (8 - pr.lc) + (pos % 2 ^ pr.lp) * 2 ^ pr.lc

/-! ## One symbol -/

/-- the decision program of one symbol (`LZMADecoder::decode` loop body) -/
def symProg (pr : Params) (c : Ctx) : Prog Sym :=
  let posState := c.pos % 2 ^ pr.pb
  bit (oIsMatch + c.state * 16 + posState) fun isMatch =>
    if !isMatch then
      let base := oLiteral + 0x300 * litIndex pr c.prevByte c.pos
      if stIsLiteral c.state then bind (litPlain base) fun b => ret (.lit b)
      else bind (litMatched base c.matchByte) fun b => ret (.lit b)
    else bit (oIsRep + c.state) fun isRep =>
      if !isRep then
        bind (lenProg oMatchLen posState) fun len =>
          bind (distProg len) fun dist => ret (.mtch dist len)
      else bit (oIsRep0 + c.state) fun r0 =>
        if !r0 then
          bit (oIsRep0Long + c.state * 16 + posState) fun long =>
            if !long then ret .shortRep
            else bind (lenProg oRepLen posState) fun len => ret (.rep 0 len)
        else bit (oIsRep1 + c.state) fun r1 =>
          if !r1 then bind (lenProg oRepLen posState) fun len => ret (.rep 1 len)
          else bit (oIsRep2 + c.state) fun r2 =>
            bind (lenProg oRepLen posState) fun len => ret (.rep (if r2 then 3 else 2) len)

/-! ## Encoder side: the answers that lead to a symbol -/

def n2b (n : Nat) : Bool := n % 2 = 1

/-- `n` bits of `v`, most significant first -/
def bitsMSB : Nat → Nat → List Bool
  | 0, _ => []
  | n+1, v => n2b (v / 2 ^ n) :: bitsMSB n v

/-- `n` bits of `v`, least significant first -/
def bitsLSB : Nat → Nat → List Bool
  | 0, _ => []
  | n+1, v => n2b v :: bitsLSB n (v / 2)

def lenBits (len : Nat) : List Bool :=
  if len < 10 then false :: bitsMSB 3 (len - 2)
  else if len < 18 then true :: false :: bitsMSB 3 (len - 10)
  else true :: true :: bitsMSB 8 (len - 18)

/-- `get_dist_slot` -/
def distSlot (dist : Nat) : Nat :=
  if dist ≤ 4 then dist
  else
    let i := Nat.log2 dist
    2 * i + (dist / 2 ^ (i - 1)) % 2

def distBits (dist len : Nat) : List Bool :=
  let _ := len
  let slot := distSlot dist
  bitsMSB 6 slot ++
    (if slot < 4 then []
     else
      let limit := slot / 2 - 1
      let red := dist - (2 + slot % 2) * 2 ^ limit
      if slot < 14 then bitsLSB limit red
      else bitsMSB (limit - 4) (red / 16) ++ bitsLSB 4 (red % 16))

def symBits (_pr : Params) (_c : Ctx) : Sym → List Bool
  | .lit b => false :: bitsMSB 8 b
  | .mtch dist len => true :: false :: (lenBits len ++ distBits dist len)
  | .shortRep => [true, true, false, false]
  | .rep 0 len => true :: true :: false :: true :: lenBits len
  | .rep 1 len => true :: true :: true :: false :: lenBits len
  | .rep 2 len => true :: true :: true :: true :: false :: lenBits len
  | .rep _ len => true :: true :: true :: true :: true :: lenBits len

/-! ## Coder state and history -/

structure Coder where
  state : Nat
  rep0 : Nat
  rep1 : Nat
  rep2 : Nat
  rep3 : Nat
deriving Repr, DecidableEq

def Coder.init : Coder := { state := 0, rep0 := 0, rep1 := 0, rep2 := 0, rep3 := 0 }

def Coder.rep (c : Coder) : Nat → Nat
  | 0 => c.rep0 | 1 => c.rep1 | 2 => c.rep2 | _ => c.rep3

/-- state/reps after a symbol (`decode_match`, `decode_rep_match`, literal) -/
def Coder.apply (c : Coder) : Sym → Coder
  | .lit _ => { c with state := stLiteral c.state }
  | .mtch dist _ => { state := stMatch c.state, rep0 := dist, rep1 := c.rep0, rep2 := c.rep1, rep3 := c.rep2 }
  | .shortRep => { c with state := stShortRep c.state }
  | .rep 0 _ => { c with state := stLongRep c.state }
  | .rep 1 _ => { c with state := stLongRep c.state, rep0 := c.rep1, rep1 := c.rep0 }
  | .rep 2 _ => { c with state := stLongRep c.state, rep0 := c.rep2, rep1 := c.rep0, rep2 := c.rep1 }
  | .rep _ _ => { state := stLongRep c.state, rep0 := c.rep3, rep1 := c.rep0, rep2 := c.rep1, rep3 := c.rep2 }

/-- the dictionary as the plain history of bytes (most recent last) -/
abbrev Hist := Array Nat

/-- byte at 0-based distance `d` (`LZDecoder::get_byte`); 0 when the history is too short
    (the ring buffer is zero-initialised and `reset` clears the byte before position 0) -/
@[inline] def Hist.back (h : Hist) (d : Nat) : Nat :=
  if d < h.size then h.getD (h.size - 1 - d) 0 else 0

/-- overlapping copy of `len` bytes from distance `d` (`LZDecoder::repeat`) -/
def Hist.copy (h : Hist) (d : Nat) : Nat → Hist
  | 0 => h
  | n+1 => Hist.copy (h.push (h.back d)) d n

def ctxOf (c : Coder) (h : Hist) : Ctx :=
  { state := c.state, pos := h.size, prevByte := h.back 0, matchByte := h.back c.rep0 }

/-- length and distance of what a symbol copies (`none` for a literal) -/
def Sym.copyOf (c : Coder) : Sym → Option (Nat × Nat)
  | .lit _ => none
  | .mtch dist len => some (dist, len)
  | .shortRep => some (c.rep0, 1)
  | .rep i len => some (c.rep i, len)

end LzmaVerif.Lzma
