/-
  Executable model of the NORMAL (optimal-parsing) encoder mode for raw LZMA1:
    src/enc/encoder_normal.rs  `NormalEncoderMode::get_next_symbol`, `convert_opts`, `update_opt_state_and_reps`,
                               `calc1_byte_prices`, `calc_long_rep_prices`, `calc_normal_match_prices`, `Optimum`
    src/enc/encoder.rs         `encode_for_lzma1`, `encode_init`, `encode_symbol` (read_ahead / back bookkeeping,
                               probability updates, price counters), `find_matches` / `skip` wrappers
  on top of a match finder (`Model/Hc4.lean`, `Model/Bt4.lean`), the price machinery of `Model/EncPrices.lean`
  and the probability models of `Model/Lzma.lean` (`symProg` / `symBits` walked by `Prog.updRun`).
  The OUTPUT of the model is the PARSE (`List Lzma.Sym`); the bytes are `Lzma.encodeParse` of it.
  Imports Model / Generated files only.

  Coordinates: LOGICAL positions as in `Model/EncFast.lean`.  `p` is the index of the first byte not yet
  encoded, `ra = read_ahead + 1 ∈ {0, 1}` when `get_next_symbol` runs the optimiser.  `lz.get_pos()` of the real
  code is the buffer position; it differs from the logical one by window moves, which are multiples of
  `MOVE_BLOCK_ALIGN` and therefore invisible in `pos & pos_mask` / the literal position mask (pb, lp ≤ 4).

  One model step = one run of the optimiser of `get_next_symbol` (the path taken when `opt_cur == opt_end`)
  together with the following calls that only hand out the pending symbols of `opts[]`: between those calls the
  real encoder only range-encodes (probabilities, `reps`, `state`, price counters change; nothing is read by the
  pending path except `opts[]`), so the step returns the list of symbols and the driver loop applies
  `encode_symbol`'s effects to each of them in turn.  The `opts[]` array is carried across steps because the
  Rust reads fields that an earlier step may have left behind (`reset()` only overwrites `price`).

  Excluded ranges (the Rust would panic / wrap there, the model does something total; stated, not proved absent):
  prices are `Nat` (no sum reaches 2^32, see `Model/EncPrices.lean`); a finder reporting a match shorter than
  `MATCH_LEN_MIN` (HC4 / BT4 never do) would make `opt_end = 1`; `nice_len < 2` would make
  `get_match_len_fast_reject` extend from 2 past its limit; array indices stay below `OPTS` because
  `opt_end ≤ min(get_avail(), OPTS - 1)`.
-/
import LzmaVerif.Model.EncFast
import LzmaVerif.Model.EncPrices

namespace LzmaVerif

namespace Prog
open Rc

/-- the probability updates of `encRun` without the range coder: walk the decision program along the bits -/
def updRun {α : Type} : Prog α → List Bool → Probs → Probs
  | ret _, _, ps => ps
  | bit i k, b :: bs, ps => updRun (k b) bs (ps.set i (updProb (ps.get i) b))
  | direct k, b :: bs, ps => updRun (k b) bs ps
  | bit _ _, [], ps => ps
  | direct _, [], ps => ps

end Prog

namespace EncNormal
open LzmaVerif Mf Lzma Rc EncFast EncPrices

/-- constants of `encoder_normal.rs` / `lib.rs` as they are in the source -/
structure NormalParams where
  /-- `MATCH_LEN_MIN` -/
  matchLenMin : Nat := 2
  /-- `MATCH_LEN_MAX` -/
  matchLenMax : Nat := 273
  /-- `REPS` -/
  reps : Nat := 4
  /-- `NormalEncoderMode::OPTS` -/
  opts : Nat := 4096
  /-- `Optimum::INFINITY_PRICE` -/
  infinity : Nat := 1073741824
  deriving Repr, DecidableEq

/-- the constants regenerated from the source (`tools/extract_consts.py`) -/
def genParams : NormalParams :=
  { matchLenMin := Consts.MATCH_LEN_MIN, matchLenMax := Consts.MATCH_LEN_MAX, reps := Consts.REPS,
    opts := Consts.NORMAL_OPTS, infinity := Consts.INFINITY_PRICE }

/-- what the proofs need of the constants -/
def NormalParams.ok (P : NormalParams) : Prop :=
  P.matchLenMin = 2 ∧ P.matchLenMax = 273 ∧ P.reps = 4 ∧ 2 ≤ P.opts ∧ 1152 * P.opts < P.infinity

instance (P : NormalParams) : Decidable P.ok := by unfold NormalParams.ok; infer_instance

example : ({} : NormalParams).ok := by decide

/-- `Optimum` (state and reps as a `Coder`) -/
structure Opt where
  c : Coder := Coder.init
  price : Nat := 0
  optPrev : Nat := 0
  backPrev : Int := 0
  prev1IsLiteral : Bool := false
  hasPrev2 : Bool := false
  optPrev2 : Nat := 0
  backPrev2 : Int := 0
  deriving Repr, Inhabited

abbrev Opts := Array Opt

@[inline] def oat (o : Opts) (i : Nat) : Opt := o.getD i {}

/-- `Optimum::reset` -/
@[inline] def Opt.reset (P : NormalParams) (o : Opt) : Opt := { o with price := P.infinity }

/-- `Optimum::set1(new_price, opt_cur, back)` -/
@[inline] def Opt.set1 (o : Opt) (price cur : Nat) (back : Int) : Opt :=
  { o with price := price, optPrev := cur, backPrev := back, prev1IsLiteral := false }

/-- `Optimum::set2(new_price, opt_cur, back)` -/
@[inline] def Opt.set2 (o : Opt) (price cur : Nat) (back : Int) : Opt :=
  { o with price := price, optPrev := cur + 1, backPrev := back, prev1IsLiteral := true, hasPrev2 := false }

/-- `Optimum::set3(new_price, opt_cur, back2, len2, back)` -/
@[inline] def Opt.set3 (o : Opt) (price cur : Nat) (back2 : Int) (len2 : Nat) (back : Int) : Opt :=
  { o with price := price, optPrev := cur + len2 + 1, backPrev := back, prev1IsLiteral := true, hasPrev2 := true,
           optPrev2 := cur, backPrev2 := back2 }

/-- `while self.opt_end < i { self.opt_end += 1; self.opts[self.opt_end].reset(); }`, `n` rounds from `optEnd` -/
def resetFrom (P : NormalParams) : Nat → Nat → Opts → Opts
  | 0, _, o => o
  | n + 1, optEnd, o => resetFrom P n (optEnd + 1) (o.modify (optEnd + 1) (Opt.reset P))

/-- `opts[]` together with `opt_end` -/
structure OA where
  opts : Opts
  optEnd : Nat

/-- `while self.opt_end < i { … }` -/
def OA.extend (P : NormalParams) (a : OA) (i : Nat) : OA :=
  if a.optEnd < i then { opts := resetFrom P (i - a.optEnd) a.optEnd a.opts, optEnd := i } else a

/-- `if price < self.opts[i].price { self.opts[i].setN(…) }` -/
@[inline] def OA.offer (a : OA) (i price : Nat) (f : Opt → Opt) : OA :=
  if price < (oat a.opts i).price then { a with opts := a.opts.modify i f } else a

/-- `get_match_len2(forward, dist, len_limit)` at logical read position `q` (returns 0 for `len_limit <= 0`) -/
def getMatchLen2 (d : Array UInt8) (q forward dist limit : Nat) : Nat :=
  if limit = 0 then 0 else extendMatch d (q + forward) (dist + 1) limit 0

/-- `get_match_len_fast_reject::<MATCH_LEN_MIN>(dist, len_limit)`: 0 unless the first two bytes agree, then
    `extend_match(buf, read_pos, 2, dist + 1, len_limit)` -/
def getMatchLenFastReject (d : Array UInt8) (q dist limit : Nat) : Nat :=
  if byteAt d q = byteAt d (q - (dist + 1)) ∧ byteAt d (q + 1) = byteAt d (q + 1 - (dist + 1)) then
    extendMatch d q (dist + 1) limit 2
  else 0

/-! ## `update_opt_state_and_reps` -/

/-- the `reps` part for a long rep / match with `back` taken from `prev` -/
def repsAfter (P : NormalParams) (prev : Coder) (back : Int) (state : Nat) : Coder :=
  if back < (P.reps : Int) then
    let b := back.toNat
    -- `reps[0] = prev.reps[back]; for rep in 1..=back { reps[rep] = prev.reps[rep - 1] }; for rep in back+1..REPS { reps[rep] = prev.reps[rep] }`
    let r := fun k => if k = 0 then prev.rep b else if k ≤ b then prev.rep (k - 1) else prev.rep k
    { state := state, rep0 := r 0, rep1 := r 1, rep2 := r 2, rep3 := r 3 }
  else
    -- `reps[0] = back - REPS; reps[1..].copy_from_slice(&prev.reps[..3])`
    { state := state, rep0 := (back - (P.reps : Int)).toNat, rep1 := prev.rep0, rep2 := prev.rep1, rep3 := prev.rep2 }

/-- `update_opt_state_and_reps()` for `opt_cur = cur`: the new `state` / `reps` of `opts[cur]` -/
def optStateAndReps (P : NormalParams) (opts : Opts) (cur : Nat) : Coder :=
  let o := oat opts cur
  let optPrev := o.optPrev
  -- first `if`: the state before the last symbol
  let optPrev1 := if o.prev1IsLiteral then optPrev - 1 else optPrev
  let state :=
    if o.prev1IsLiteral then
      let s :=
        if o.hasPrev2 then
          let s2 := (oat opts o.optPrev2).c.state
          if o.backPrev2 < (P.reps : Int) then stLongRep s2 else stMatch s2
        else (oat opts optPrev1).c.state
      stLiteral s
    else (oat opts optPrev1).c.state
  if optPrev1 = cur - 1 then
    -- short rep or literal
    let state := if o.backPrev = 0 then stShortRep state else stLiteral state
    { (oat opts optPrev1).c with state := state }
  else
    if o.prev1IsLiteral ∧ o.hasPrev2 then
      repsAfter P (oat opts o.optPrev2).c o.backPrev2 (stLongRep state)
    else
      let back := o.backPrev
      repsAfter P (oat opts optPrev1).c back (if back < (P.reps : Int) then stLongRep state else stMatch state)

/-- `update_opt_state_and_reps()` -/
def updateOptStateAndReps (P : NormalParams) (opts : Opts) (cur : Nat) : Opts :=
  let c := optStateAndReps P opts cur
  opts.modify cur fun o => { o with c := c }

/-! ## the three candidate generators of the main loop -/

/-- what the price functions read: options, probabilities, price tables, data -/
structure Env where
  P : NormalParams
  pr : Params
  nice : Nat
  d : Array UInt8
  ps : Probs
  pt : PriceSt

@[inline] def Env.posState (E : Env) (pos : Nat) : Nat := pos % 2 ^ E.pr.pb

/-- `calc1_byte_prices(encoder, pos, pos_state, avail, any_rep_price)` at `opt_cur = cur`, logical position `q` -/
def calc1BytePrices (E : Env) (a : OA) (cur q avail anyRep : Nat) : OA :=
  let oc := oat a.opts cur
  let posState := E.posState q
  let curByte := byteAt E.d q
  let matchByte := byteAt E.d (q - (oc.c.rep0 + 1))
  -- literal
  let literalPrice := oc.price + litPrice E.pr E.ps curByte matchByte (byteAt E.d (q - 1)) q oc.c.state
  let lit := decide (literalPrice < (oat a.opts (cur + 1)).price)
  let a := if lit then { a with opts := a.opts.modify (cur + 1) fun o => o.set1 literalPrice cur (-1) } else a
  -- short rep
  let o1 := oat a.opts (cur + 1)
  let tryShort := decide (matchByte = curByte) && (decide (o1.optPrev = cur) || decide (o1.backPrev ≠ 0))
  let srp := shortRepPrice E.ps anyRep oc.c.state posState
  let short := tryShort && decide (srp ≤ o1.price)
  let a := if short then { a with opts := a.opts.modify (cur + 1) fun o => o.set1 srp cur 0 } else a
  -- literal + long rep0
  if !(lit || short) ∧ matchByte ≠ curByte ∧ avail > E.P.matchLenMin then
    let lenLimit := min E.nice (avail - 1)
    let len := getMatchLen2 E.d q 1 oc.c.rep0 lenLimit
    if len ≥ E.P.matchLenMin then
      let nextState := stLiteral oc.c.state
      let price := literalPrice + longRepAndLenPrice E.ps E.pt 0 len nextState (E.posState (q + 1))
      let i := cur + 1 + len
      (a.extend E.P i).offer i price fun o => o.set2 price cur 0
    else a
  else a

/-- the composite candidate `X + literal + rep0` shared by `calc_long_rep_prices` and `calc_normal_match_prices`:
    `price0` = price up to and including `X` (length `len`, state after it `stateX`, distance `dist`, code `back2`) -/
def offerComposite (E : Env) (a : OA) (cur q avail len dist price0 stateX : Nat) (back2 : Int) : OA :=
  let len2Limit := min E.nice (avail - len - 1)
  let len2 := getMatchLen2 E.d q (len + 1) dist len2Limit
  if len2 ≥ E.P.matchLenMin then
    let curByte := byteAt E.d (q + len)
    let matchByte := byteAt E.d q               -- `get_byte_backward(0)  // lz.getByte(len, len)`
    let prevByte := byteAt E.d (q + len - 1)
    let price := price0 + litPrice E.pr E.ps curByte matchByte prevByte (q + len) stateX
    let nextState := stLiteral stateX
    let price := price + longRepAndLenPrice E.ps E.pt 0 len2 nextState (E.posState (q + len + 1))
    let i := cur + len + 1 + len2
    (a.extend E.P i).offer i price fun o => o.set3 price cur back2 len 0
  else a

/-- `for i in (MATCH_LEN_MIN..=len).rev() { price = long_rep_price + rep_len_encoder.get_price(i, pos_state); … }`:
    `n` remaining lengths ending at `MATCH_LEN_MIN` -/
def offerRepLens (E : Env) (cur posState longRep : Nat) (rep : Int) : Nat → OA → OA
  | 0, a => a
  | n + 1, a =>
    let i := n + E.P.matchLenMin
    let price := longRep + E.pt.repLen.get i posState
    offerRepLens E cur posState longRep rep n (a.offer (cur + i) price fun o => o.set1 price cur rep)

/-- body of `for rep in 0..REPS` in `calc_long_rep_prices`; returns the new `start_len` too -/
def longRepOne (E : Env) (cur q avail anyRep : Nat) (a : OA) (startLen : Nat) (rep : Nat) : OA × Nat :=
  let oc := oat a.opts cur
  let posState := E.posState q
  let lenLimit := min avail E.nice
  let dist := oc.c.rep rep
  let len := getMatchLenFastReject E.d q dist lenLimit
  if len < E.P.matchLenMin then (a, startLen)
  else
    let a := a.extend E.P (cur + len)
    let lrp := longRepPrice E.ps anyRep rep oc.c.state posState
    let a := offerRepLens E cur posState lrp rep (len + 1 - E.P.matchLenMin) a
    let startLen := if rep = 0 then len + 1 else startLen
    let price0 := lrp + E.pt.repLen.get len posState
    (offerComposite E a cur q avail len dist price0 (stLongRep oc.c.state) rep, startLen)

/-- `calc_long_rep_prices(…) -> start_len` -/
def calcLongRepPrices (E : Env) (a : OA) (cur q avail anyRep : Nat) : OA × Nat :=
  (List.range E.P.reps).foldl (fun r rep => longRepOne E cur q avail anyRep r.1 r.2 rep) (a, E.P.matchLenMin)

/-- `count = 0; while matches.len[count] < avail { count += 1 }; matches.len[count] = avail; count += 1` on the match
    list (reached only when the last length exceeds `avail`, so the `while` stops inside the list) -/
def shortenList (avail : Nat) : List Match → List Match
  | [] => []
  | m :: rest => if m.1 < avail then m :: shortenList avail rest else [(avail, m.2)]

/-- the shortening at the head of `calc_normal_match_prices`: `if matches.len[count - 1] > avail { … }` -/
def shortenMatches (ms : List Match) (avail : Nat) : List Match :=
  if (ms.getLast?.getD (0, 0)).1 > avail then shortenList avail ms else ms

/-- `while start_len > matches.len[_match] { _match += 1 }`: the matches from index `_match` on -/
def dropShort (len : Nat) : List Match → List Match
  | [] => []
  | m :: rest => if len > m.1 then dropShort len rest else m :: rest

/-- the `loop { … }` of `calc_normal_match_prices`; the list holds `matches[_match ..]` -/
def normalMatchLoop (E : Env) (cur q avail posState nmp : Nat) : Nat → Nat → List Match → OA → OA
  | 0, _, _, a => a
  | _, _, [], a => a
  | fuel + 1, len, m :: rest, a =>
    let dist := m.2
    let malp := matchAndLenPrice E.pt nmp dist len posState
    let a := a.offer (cur + len) malp fun o => o.set1 malp cur ((dist : Int) + (E.P.reps : Int))
    if len ≠ m.1 then normalMatchLoop E cur q avail posState nmp fuel (len + 1) (m :: rest) a
    else
      let a := offerComposite E a cur q avail len dist malp (stMatch (oat a.opts cur).c.state) ((dist : Int) + (E.P.reps : Int))
      -- `_match += 1; if _match == count { break }`
      if rest = [] then a
      else normalMatchLoop E cur q avail posState nmp fuel (len + 1) rest a

/-- `calc_normal_match_prices(encoder, pos, pos_state, avail, any_match_price, start_len)` (`matches.count > 0`) -/
def calcNormalMatchPrices (E : Env) (a : OA) (ms0 : List Match) (cur q avail anyMatch startLen : Nat) : OA :=
  let ms := shortenMatches ms0 avail
  let last := (ms.getLast?.getD (0, 0)).1
  if last < startLen then a
  else
    let a := a.extend E.P (cur + last)
    let nmp := normalMatchPrice E.ps anyMatch (oat a.opts cur).c.state
    normalMatchLoop E cur q avail (E.posState q) nmp (last + 1) startLen (dropShort startLen ms) a

/-! ## `convert_opts` and the pending symbols -/

/-- the `loop { … if self.opt_cur == 0 { break } }` of `convert_opts` -/
def convertLoop : Nat → Opts → Nat → Nat → Opts
  | 0, opts, _, _ => opts
  | fuel + 1, opts, optCur, optPrev =>
    let oi := oat opts optCur
    let (opts, optCur, optPrev) :=
      if oi.prev1IsLiteral then
        let opts := opts.modify optPrev fun o => { o with optPrev := optCur, backPrev := -1 }
        let optCur := optPrev
        let optPrev := optPrev - 1
        if oi.hasPrev2 then
          let opts := opts.modify optPrev fun o => { o with optPrev := optPrev + 1, backPrev := oi.backPrev2 }
          (opts, optPrev, oi.optPrev2)
        else (opts, optCur, optPrev)
      else (opts, optCur, optPrev)
    let temp := (oat opts optPrev).optPrev
    let opts := opts.modify optPrev fun o => { o with optPrev := optCur }
    if optPrev = 0 then opts else convertLoop fuel opts optPrev temp

/-- `convert_opts()`: reverses the back-pointer chain from `opts[opt_cur]` into a forward chain from `opts[0]` -/
def convertOpts (P : NormalParams) (opts : Opts) (optCur : Nat) : Opts :=
  convertLoop P.opts opts optCur (oat opts optCur).optPrev

/-- the symbol `encode_symbol` encodes for (`back`, `len`) at logical position `q` -/
def symOf (P : NormalParams) (d : Array UInt8) (q : Nat) (back : Int) (len : Nat) : Sym :=
  if back = -1 then .lit (byteAt d q)
  else if back < (P.reps : Int) then (if len = 1 then .shortRep else .rep back.toNat len)
  else .mtch (back - (P.reps : Int)).toNat len

/-- the symbols handed out after `convert_opts`: `len = opts[cur].opt_prev - cur; cur = opts[cur].opt_prev;
    back = opts[cur].back_prev` until `cur == opt_end` -/
def pending (P : NormalParams) (d : Array UInt8) (p : Nat) (opts : Opts) (optEnd : Nat) : Nat → Nat → List (Sym × Nat)
  | 0, _ => []
  | fuel + 1, cur =>
    if cur < optEnd then
      let nxt := (oat opts cur).optPrev
      let len := nxt - cur
      (symOf P d (p + cur) (oat opts nxt).backPrev len, len) :: pending P d p opts optEnd fuel nxt
    else []

/-! ## `get_next_symbol` -/

/-- first loop of `get_next_symbol`: `rep_lens[rep]` (0 below `MATCH_LEN_MIN`) and `rep_best` -/
def repLens (P : NormalParams) (d : Array UInt8) (p avail : Nat) (c : Coder) : List Nat :=
  (List.range P.reps).map fun rep =>
    let len := getMatchLen d p (c.rep rep) avail
    if len < P.matchLenMin then 0 else len

/-- `if rep_lens[rep] > rep_lens[rep_best] { rep_best = rep }` over the reps in order -/
def repBest (lens : List Nat) : Nat :=
  (List.range lens.length).foldl (fun best rep => if lens.getD rep 0 > lens.getD best 0 then rep else best) 0

/-- the loop over normal matches in the first part of `get_next_symbol`; the list holds `matches[i ..]` -/
def firstMatchLoop (E : Env) (posState nmp : Nat) : Nat → Nat → List Match → OA → OA
  | 0, _, _, a => a
  | _, _, [], a => a
  | fuel + 1, len, m :: rest, a =>
    let dist := m.2
    let price := matchAndLenPrice E.pt nmp dist len posState
    let a := a.offer len price fun o => o.set1 price 0 ((dist : Int) + (E.P.reps : Int))
    if len = m.1 then
      -- `i += 1; if i == count { break }`
      if rest = [] then a else firstMatchLoop E posState nmp fuel (len + 1) rest a
    else firstMatchLoop E posState nmp fuel (len + 1) (m :: rest) a

/-- what a run of the optimiser leaves behind -/
structure Step (σ : Type) where
  /-- the symbols handed out (each with the `len` returned by `get_next_symbol`) -/
  syms : List (Sym × Nat)
  opts : Opts
  pt : PriceSt
  mf : σ
  ms : List Match
  /-- `read_ahead + 1` after the last of these symbols -/
  ra : Nat

/-- state of the main `while` loop -/
structure LoopSt (σ : Type) where
  a : OA
  mf : σ
  ms : List Match

/-- `matches.count > 0 && matches.len[matches.count - 1] >= nice_len` -/
def niceBreak (ms : List Match) (nice : Nat) : Bool :=
  match ms.getLast? with
  | some m => decide (m.1 ≥ nice)
  | none => false

/-- `while { self.opt_cur += 1; self.opt_cur < self.opt_end } { … }`; returns the final `opt_cur` and whether the
    loop was left by `break` (a match of at least `nice_len` at `opt_cur`) -/
def mainLoop {σ : Type} (F : Finder σ) (E : Env) (p avail0 : Nat) :
    Nat → Nat → LoopSt σ → Nat × LoopSt σ × Bool
  | 0, cur, st => (cur, st, false)
  | fuel + 1, cur, st =>
    let cur := cur + 1
    if cur < st.a.optEnd then
      let fm := F.find E.d st.mf
      let st := { st with mf := fm.2, ms := fm.1 }
      if niceBreak fm.1 E.nice then (cur, st, true)
      else
        let avail := avail0 - cur
        let q := p + cur
        let posState := E.posState q
        let a := { st.a with opts := updateOptStateAndReps E.P st.a.opts cur }
        let oc := oat a.opts cur
        let anyMatch := oc.price + anyMatchPrice E.ps oc.c.state posState
        let anyRep := anyRepPrice E.ps anyMatch oc.c.state
        let a := calc1BytePrices E a cur q avail anyRep
        let a :=
          if avail ≥ E.P.matchLenMin then
            let r := calcLongRepPrices E a cur q avail anyRep
            if fm.1.isEmpty then r.1 else calcNormalMatchPrices E r.1 fm.1 cur q avail anyMatch r.2
          else a
        mainLoop F E p avail0 fuel cur { st with a := a }
    else (cur, st, false)

/-- `for (rep, &rep_len) in rep_lens.iter().enumerate() { … }` of the first part -/
def firstRepPrices (E : Env) (c : Coder) (posState anyRep : Nat) (lens : List Nat) (a : OA) : OA :=
  (List.range lens.length).foldl (init := a) fun a rep =>
    let repLen := lens.getD rep 0
    if repLen < E.P.matchLenMin then a
    else
      let lrp := longRepPrice E.ps anyRep rep c.state posState
      offerRepLens E 0 posState lrp rep (repLen + 1 - E.P.matchLenMin) a

/-- the part of `get_next_symbol` from `update_prices()` on (reached with `opt_end >= MATCH_LEN_MIN`): fill `opts[]`
    from position 0, run the main loop, `convert_opts`, hand out the symbols.  `opts` already holds the literal /
    short-rep candidate in `opts[1]`; `lens` are the `rep_lens`, `mainLen` the longest match of `ms` (0 if none) -/
def optimise {σ : Type} (F : Finder σ) (E : Env) (p : Nat) (c : Coder) (opts : Opts) (mf : σ) (ms : List Match)
    (lens : List Nat) (mainLen optEnd : Nat) : Step σ :=
  let P := E.P
  let d := E.d
  let posState := E.posState p
  let anyMatch := anyMatchPrice E.ps c.state posState
  let anyRep := anyRepPrice E.ps anyMatch c.state
  -- `update_prices()`
  let pt := E.pt.update E.ps
  let E := { E with pt := pt }
  let opts := opts.modify 0 fun o => { o with c := c }
  -- `for i in (MATCH_LEN_MIN..=opt_end).rev() { opts[i].reset() }`
  let opts := resetFrom P (optEnd + 1 - P.matchLenMin) (P.matchLenMin - 1) opts
  let a : OA := { opts := opts, optEnd := optEnd }
  let a := firstRepPrices E c posState anyRep lens a
  -- normal matches longer than rep0
  let len := max (lens.getD 0 0 + 1) P.matchLenMin
  let a :=
    if len ≤ mainLen then
      let nmp := normalMatchPrice E.ps anyMatch c.state
      -- `let mut i = 0; while len > matches.len[i] { i += 1 }`
      firstMatchLoop E posState nmp (mainLen + 1) len (dropShort len ms) a
    else a
  -- `avail = min(get_avail(), OPTS - 1)`
  let avail0 := min (d.size - p) (P.opts - 1)
  let r := mainLoop F E p avail0 P.opts 0 { a := a, mf := mf, ms := ms }
  let cur := r.1
  let st := r.2.1
  let opts := convertOpts P st.a.opts cur
  ⟨pending P d p opts cur P.opts 0, opts, pt, st.mf, st.ms, if r.2.2 then 1 else 0⟩

/-- the longest match of the finder's list (`matches.len/dist[count - 1]`; `(0, 0)` for an empty list) -/
def lastMatch (ms : List Match) : Match := ms.getLast?.getD (0, 0)

/-- `main_len`: 0 without matches -/
def mainLenOf (ms : List Match) : Nat := if ms.isEmpty then 0 else (lastMatch ms).1

/-- `opts[1]` of the first part of `get_next_symbol`: `opts[1].set1(literal_price, 0, -1)`, then the short rep if the
    bytes agree and it is cheaper -/
def initOpt1 (E : Env) (p : Nat) (c : Coder) (opts : Opts) : Opts :=
  let d := E.d
  let posState := E.posState p
  let curByte := byteAt d p
  let matchByte := byteAt d (p - (c.rep0 + 1))
  let literalPrice := litPrice E.pr E.ps curByte matchByte (byteAt d (p - 1)) p c.state
  let opts := opts.modify 1 fun o => o.set1 literalPrice 0 (-1)
  let anyMatch := anyMatchPrice E.ps c.state posState
  let anyRep := anyRepPrice E.ps anyMatch c.state
  let srp := shortRepPrice E.ps anyRep c.state posState
  if matchByte = curByte ∧ srp < (oat opts 1).price then opts.modify 1 fun o => o.set1 srp 0 0 else opts

/-- the optimiser path of `get_next_symbol` (taken when `opt_cur == opt_end`) after the initial
    `if read_ahead == -1 { find_matches() }`, at position `p < data.size`: `read_ahead = 0`, the finder has consumed
    position `p`, `ms` are its matches there.  `E.ps` / `E.pt` / `c` are the probabilities, price tables and coder
    state at this moment. -/
def nextCore {σ : Type} (F : Finder σ) (E : Env) (p : Nat) (c : Coder) (opts : Opts) (mf : σ) (ms : List Match) :
    Step σ :=
  let P := E.P
  let d := E.d
  let lit : Sym × Nat := (.lit (byteAt d p), 1)
  -- `let mut avail = min(get_avail(), MATCH_LEN_MAX); if avail < MATCH_LEN_MIN { return 1 }`
  let avail := min (d.size - p) P.matchLenMax
  if avail < P.matchLenMin then ⟨[lit], opts, E.pt, mf, ms, 0⟩
  else
    let lens := repLens P d p avail c
    let best := repBest lens
    let bestLen := lens.getD best 0
    -- `if rep_lens[rep_best] >= nice_len { back = rep_best; skip(len - 1); return len }`
    if bestLen ≥ E.nice then ⟨[(.rep best bestLen, bestLen)], opts, E.pt, F.skip d (bestLen - 1) mf, ms, 0⟩
    else
      let mainLen := mainLenOf ms
      -- `if matches.count > 0 { …; if main_len >= nice_len { back = main_dist + REPS; skip(main_len - 1); return main_len } }`
      if ms ≠ [] ∧ mainLen ≥ E.nice then
        ⟨[(.mtch (lastMatch ms).2 mainLen, mainLen)], opts, E.pt, F.skip d (mainLen - 1) mf, ms, 0⟩
      else
        let curByte := byteAt d p
        let matchByte := byteAt d (p - (c.rep0 + 1))
        if mainLen < P.matchLenMin ∧ curByte ≠ matchByte ∧ bestLen < P.matchLenMin then ⟨[lit], opts, E.pt, mf, ms, 0⟩
        else
          let opts := initOpt1 E p c opts
          let optEnd := max mainLen bestLen
          if optEnd < P.matchLenMin then
            -- `back = opts[1].back_prev; return 1`
            ⟨[(symOf P d p (oat opts 1).backPrev 1, 1)], opts, E.pt, mf, ms, 0⟩
          else optimise F E p c opts mf ms lens mainLen optEnd

/-- the context `encode_symbol` codes a symbol in, at logical position `q` (cf. `Lzma.ctxOf`) -/
def ctxAt (d : Array UInt8) (q : Nat) (c : Coder) : Ctx :=
  { state := c.state, pos := q
    prevByte := if q = 0 then 0 else byteAt d (q - 1)
    matchByte := if c.rep0 < q then byteAt d (q - 1 - c.rep0) else 0 }

/-- the effects of `encode_symbol` other than the bytes: probabilities, price counters, `state` / `reps` -/
def encodeSym (pr : Params) (d : Array UInt8) (q : Nat) (c : Coder) (ps : Probs) (pt : PriceSt) (s : Sym) :
    Coder × Probs × PriceSt :=
  let ctx := ctxAt d q c
  let ps := (symProg pr ctx).updRun (symBits pr ctx s) ps
  let posState := q % 2 ^ pr.pb
  let pt := match s with
    | .mtch dist _ => pt.encodedMatch dist posState
    | .rep _ _ => pt.encodedRep posState
    | _ => pt
  (c.apply s, ps, pt)

/-- apply `encodeSym` to the symbols of a step -/
def encodeSyms (pr : Params) (d : Array UInt8) :
    List (Sym × Nat) → Nat → Coder → Probs → PriceSt → List Sym → Nat × Coder × Probs × PriceSt × List Sym
  | [], q, c, ps, pt, acc => (q, c, ps, pt, acc)
  | (s, len) :: rest, q, c, ps, pt, acc =>
    let r := encodeSym pr d q c ps pt s
    encodeSyms pr d rest (q + len) r.1 r.2.1 r.2.2 (s :: acc)

/-- the `while self.encode_symbol(rc, mode)? {}` loop of `encode_for_lzma1` with everything present -/
def loop {σ : Type} (F : Finder σ) (P : NormalParams) (pr : Params) (nice : Nat) (d : Array UInt8) :
    (fuel : Nat) → (p : Nat) → Coder → Probs → PriceSt → Opts → σ → List Match → (ra : Nat) → (acc : List Sym) →
    List Sym
  | 0, _, _, _, _, _, _, _, _, acc => acc.reverse
  | fuel + 1, p, c, ps, pt, opts, mf, ms, ra, acc =>
    if p < d.size then
      -- `if encoder.data.read_ahead == -1 { encoder.find_matches(); }`
      let fm := if ra = 0 then F.find d mf else (ms, mf)
      let st := nextCore F { P := P, pr := pr, nice := nice, d := d, ps := ps, pt := pt } p c opts fm.2 fm.1
      let r := encodeSyms pr d st.syms p c ps st.pt acc
      loop F P pr nice d fuel r.1 r.2.1 r.2.2.1 r.2.2.2.1 st.opts st.mf st.ms st.ra r.2.2.2.2
    else acc.reverse

/-- `LZMAWriter::write(data)` + `finish()` without end marker in `EncodeMode::Normal`, as the parse it encodes -/
def normalParse {σ : Type} (F : Finder σ) (P : NormalParams) (pr : Params) (dict nice : Nat) (d : Array UInt8) :
    List Sym :=
  if d.size = 0 then []
  else
    let s0 : Sym := .lit (byteAt d 0)
    let ps0 : Probs := Array.replicate (numProbs pr.lc pr.lp) PROB_INIT
    let r := encodeSym pr d 0 Coder.init ps0 (PriceSt.init pr.pb dict nice) s0
    loop F P pr nice d d.size 1 r.1 r.2.1 r.2.2 (Array.replicate P.opts {}) (F.skip d 1 F.init) [] 0 [s0]

/-- the normal encoder over HC4 with the options `dict_size`, `nice_len`, `depth_limit` -/
def normalParseHc4 (H : Hc4.Hc4Params) (P : NormalParams) (pr : Params) (dict nice depth : Nat) (d : Array UInt8) :
    List Sym :=
  normalParse (hc4Finder H { dict := dict, niceLen := nice, mlmax := P.matchLenMax, depthLimit := depth }) P pr dict nice d

/-- the normal encoder over BT4 -/
def normalParseBt4 (B : Bt4.Bt4Params) (P : NormalParams) (pr : Params) (dict nice depth : Nat) (d : Array UInt8) :
    List Sym :=
  normalParse (bt4Finder B { dict := dict, niceLen := nice, mlmax := P.matchLenMax, depth := depth }) P pr dict nice d

end EncNormal
end LzmaVerif
