import LzmaVerif.Generated.Consts
/-
Memory estimators (`LZMAOptions::get_memory_usage`, `LZMAEncoder::get_mem_usage`,
`{Fast,Normal}EncoderMode::get_memory_usage`, `LZEncoder::get_memory_usage`, `HC4/BT4::get_mem_usage`,
`Hash234::get_mem_usage`, `lzma_get_memory_usage`, `lzma2_get_memory_usage`) and the heap allocations
the constructors really make (`allocs*`, transcribed from `LZEncoder::new`, `Hash234::new`,
`HC4/BT4::new` (64-byte rounded `AlignedMemoryI32`), `LiteralEncoder::new`, `NormalEncoderMode::new`,
`RangeEncoder::new_buffer`, `LZDecoder::new`, `LiteralDecoder::new`, `RangeDecoder::new_buffer`).
Sizes in bytes, estimates in KiB.  Core Lean only.
-/
namespace LzmaVerif.Mem

structure EncOpts where
  dict : Nat
  lc : Nat
  lp : Nat
  pb : Nat
  normal : Bool
  bt4 : Bool
  nice : Nat
deriving Repr

def round64 (n : Nat) : Nat := (n + 63) / 64 * 64

/-- `Hash234::get_hash4_size` -/
def hash4Size (dict : Nat) : Nat :=
  let h := dict - 1
  let h := h ||| (h >>> 1)
  let h := h ||| (h >>> 2)
  let h := h ||| (h >>> 4)
  let h := h ||| (h >>> 8)
  let h := h >>> 1
  let h := h ||| 0xFFFF
  let h := if h > 2 ^ 24 then h >>> 1 else h
  h + 1

def extraBeforeLzma2 (dict : Nat) : Nat := Consts.W_COMPRESSED_SIZE_MAX - dict   -- saturating

def extraBefore (o : EncOpts) (eb : Nat) : Nat := max eb (if o.normal then Consts.NORMAL_EXTRA_SIZE_BEFORE else Consts.FAST_EXTRA_SIZE_BEFORE)
def extraAfter (o : EncOpts) : Nat := if o.normal then Consts.NORMAL_EXTRA_SIZE_AFTER else Consts.FAST_EXTRA_SIZE_AFTER

/-- `get_buf_size` -/
def bufSize (dict eb ea : Nat) : Nat :=
  (eb + dict) + (ea + Consts.MATCH_LEN_MAX) + min (dict / 2 + 262144) (512 * 1024 * 1024)

/-! ## Estimators (KiB) -/

def hash234Est (dict : Nat) : Nat := (Consts.HASH2_SIZE + Consts.HASH3_SIZE + hash4Size dict) / 256 + 4
def mfEst (o : EncOpts) : Nat := hash234Est o.dict + (if o.bt4 then o.dict / 128 else o.dict / 256) + 10
def lzEncEst (o : EncOpts) (eb : Nat) : Nat := bufSize o.dict (extraBefore o eb) (extraAfter o) / 1024 + 10 + mfEst o
def modeEst (o : EncOpts) (eb : Nat) : Nat := lzEncEst o eb + (if o.normal then Consts.NORMAL_OPTS * 64 / 1024 else 0)

/-- `LZMAOptions::get_memory_usage` -/
def encEstimate (o : EncOpts) : Nat :=
  70 + (0x600 * 2 ^ (min (o.lc + o.lp) 12)) / 1024 + (80 + modeEst o (extraBeforeLzma2 o.dict))

/-- `lzma_get_memory_usage(dict, lc, lp)` (`none` = Err) -/
def lzmaDecEstimate (dict lc lp : Nat) : Option Nat :=
  if lc > 8 ∨ lp > 4 then none
  else if dict > Consts.DICT_SIZE_MAX then none
  else some (10 + ((max dict 4096 + 15) / 16 * 16) / 1024 + (0x600 * 2 ^ (lc + lp)) / 1024)

/-- `lzma2_get_memory_usage(dict)` -/
def lzma2DecEstimate (dict : Nat) : Nat :=
  40 + Consts.R_COMPRESSED_SIZE_MAX / 1024 + ((max (min dict Consts.DICT_SIZE_MAX) Consts.DICT_SIZE_MIN + 15) / 16 * 16) / 1024

/-! ## What is really allocated (bytes) -/

/-- heap allocations of an `LZMA2Writer` (`lzma2 = true`) or `LZMAWriter` with these options -/
def encAllocs (o : EncOpts) (lzma2 : Bool) : List Nat :=
  let eb := extraBefore o (if lzma2 then extraBeforeLzma2 o.dict else 0)
  let posStates := 2 ^ o.pb
  let lenSymbols := max (o.nice - 2 + 1) 16
  let slots := 64                                   -- dist_slot_price_size ≤ 64
  [ bufSize o.dict eb (extraAfter o),               -- window
    round64 (Consts.HASH2_SIZE * 4), round64 (Consts.HASH3_SIZE * 4), round64 (hash4Size o.dict * 4),
    round64 ((o.dict + 1) * 4 * (if o.bt4 then 2 else 1)),        -- chain / tree
    0x600 * 2 ^ (o.lc + o.lp),                      -- literal sub coders
    (if lzma2 then Consts.W_COMPRESSED_SIZE_MAX else 0),          -- range encoder buffer
    (if o.normal then Consts.NORMAL_OPTS * 48 else 0),            -- optimum nodes
    4 * (o.nice - 1), 4 * (o.nice - 1),             -- Matches (len, dist)
    2 * posStates * (24 + 4),                       -- length encoders: vector headers + counters
    4 * (slots * 4 + 24) ]                          -- dist slot prices
  ++ List.replicate (2 * posStates) (lenSymbols * 4) -- length encoder price rows

/-- heap allocations of `LZMAReader::new(.., lc, lp, pb, dict, None)` with unknown size -/
def lzmaDecAllocs (dict lc lp : Nat) : List Nat :=
  [ (max dict 4096 + 15) / 16 * 16, 0x600 * 2 ^ (lc + lp) ]

/-- heap allocations of `LZMA2Reader::new(.., dict, None)` plus the decoder created by the first chunk -/
def lzma2DecAllocs (dict lc lp : Nat) : List Nat :=
  [ (max (min dict Consts.DICT_SIZE_MAX) Consts.DICT_SIZE_MIN + 15) / 16 * 16, Consts.R_COMPRESSED_SIZE_MAX - 5, 0x600 * 2 ^ (lc + lp) ]

end LzmaVerif.Mem
