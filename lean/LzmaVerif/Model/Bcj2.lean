import LzmaVerif.Model.Rc
/-!
Model of the BCJ2 decoder (7-Zip's four-stream x86 branch converter):
`src/filter/bcj2.rs` (`BCJ2Reader`: refill of the four stream buffers, end checks) and
`src/filter/bcj2/decode.rs` (`Bcj2Decoder::decode`: scanner + range decoder with 2+256
probabilities), and a simple valid BCJ2 *encoder* (the crate has none).  Core Lean only.

`decode main call jump rc outSize` is what `BCJ2Reader::new(vec![main, call, jump, rc], outSize)`
yields when it is read to the end: the bytes, or the error of the failing `read`.  The buffer
mechanics (`BUF_SIZE` refills, `extra_read_sizes`, pausing at the end of the caller's buffer, the
`temp` bytes of an address split over two `read` calls) are abstracted: streams are lists.

Behaviour of the Rust code that is modelled as it is (state after the fix "BCJ2Reader reports an
input stream that ends before the declared output size is reached", /repo b212bdf):
* `outSize = 0`: `read` returns `Ok(0)` before looking at any stream – every input is accepted.
* A stream the decoder needs that is dry (MAIN, RC – also inside the 5 byte init –, CALL/JUMP with
  0 bytes left) while output is still missing: the `read` that finds it returns the bytes produced
  so far if any, the next one `UnexpectedEof`; read to the end this is `.error .eof`.
  CALL/JUMP with 1..3 bytes left where an address is needed is "bcj2 decode error:3".
* When all `outSize` bytes have been produced the reader requires `code == 0` and the decoder
  to stand at the scanner (`state` MAIN or ORIG) – also when it stopped at a dry stream.  An opcode
  in the very last position still has its bit decoded; if it is 1 the result is an error –
  *except* when the CALL/JUMP stream has 1..3 bytes left: then `read` returns `Ok(n)` from the
  "error:3" branch, the finish check is never made and the stream is accepted.
* The range decoder normalises *after* a bit (lazily, at the top of the scanner loop, or in the
  tail of `decode` when it pauses) and treats "RC stream dry when a normalisation is due" as
  end of input, even if no further bit follows.
* `ip` is a wrapping `u32` (`+=` on `u32`: would panic in a debug build after 4 GiB; release wraps).
-/
namespace LzmaVerif.Bcj2
open Rc

inductive Err where
  /-- `Bcj2Decoder::decode` returned `false` ("bcj2 decode error"): first RC byte ≠ 0, or the
      initial code is `0xFFFFFFFF` -/
  | decodeFail
  /-- "bcj2 decode error:3": CALL/JUMP stream ends with 1..3 bytes where an address is needed -/
  | shortAddr
  /-- "bcj2 decode error:4" / ":5": all bytes produced but `code ≠ 0` or the decoder is not at
      the scanner (which of the two messages appears can depend on buffer boundaries) -/
  | notFinished
  /-- `UnexpectedEof`: a stream the decoder needs has ended while output is still missing -/
  | eof
deriving Repr, DecidableEq, BEq

def Err.name : Err → String
  | .decodeFail => "DecodeFail"
  | .shortAddr => "ShortAddr"
  | .notFinished => "NotFinished"
  | .eof => "UnexpectedEof"

def M32 : Nat := 4294967296

/-- probabilities: `[BIT_MODEL_TOTAL >> 1; 2 + 256]` -/
def probs0 : Probs := Array.replicate 258 1024

/-- result of the 5-byte range decoder init (`range` counts 0..5 in the Rust code) -/
inductive InitRes where
  | fail
  | short
  | ok (d : Dec)

def rcInit : List Nat → InitRes
  | [] => .short
  | b0 :: rest =>
    if b0 ≠ 0 then .fail else
    match rest with
    | b1 :: b2 :: b3 :: b4 :: inp =>
      let code := ((b1 * 256 + b2) * 256 + b3) * 256 + b4
      if code = 0xFFFFFFFF then .fail
      else .ok { range := 0xFFFFFFFF, code := code, inp := inp, over := 0 }
    | _ => .short

/-- normalisation at the top of the scanner loop; `none` = RC stream dry (`state = BCJ2_STREAM_RC`) -/
def norm (d : Dec) : Option Dec :=
  if d.range < 2^24 then
    match d.inp with
    | [] => none
    | b :: rest => some { d with range := d.range * 256, code := (d.code * 256 + b) % 2^32, inp := rest }
  else some d

/-- `_IF_BIT_0 / _UPDATE_0 / _UPDATE_1` on an already normalised decoder -/
def rawBit (d : Dec) (p : Nat) : Bool × Dec :=
  let bound := (d.range / 2^11) * p
  if d.code < bound then (false, { d with range := bound })
  else (true, { d with range := d.range - bound, code := d.code - bound })

/-- where the decoder stands when the reader stops (`decoder.state`) -/
inductive St where
  | main | orig | rc | cj
deriving Repr, DecidableEq

/-- how the reader ends when the decoder stops in `st`; `n` = `uncompressed_size` still missing.
    `n = 0`: the checks after the reader's loop (`code == 0`, `state` MAIN or ORIG).
    `n ≠ 0` (a needed stream is dry): `UnexpectedEof`. -/
def finish (st : St) (n : Nat) (code : Nat) (acc : List Nat) : Except Err (List Nat) :=
  if n = 0 then
    if code ≠ 0 then .error .notFinished
    else match st with
      | .main => .ok acc.reverse
      | .orig => .ok acc.reverse
      | _ => .error .notFinished
  else .error .eof

/-- a branch opcode: `E8`, `E9`, or `8x` after `0F` (`prev` = previous output byte, `temp[3]`) -/
def isOp (prev b : Nat) : Bool :=
  (b &&& 0xFE == 0xE8) || (prev == 0x0F && (b &&& 0xF0 == 0x80))

/-- probability slot: `2 + prev` for `E8`, 1 for `E9`, 0 for `0F 8x` -/
def probIdx (prev b : Nat) : Nat :=
  if b = 0xE8 then 2 + prev else if b = 0xE9 then 1 else 0

inductive Addr where
  | empty
  | short
  | addr (v : Nat) (rest : List Nat)

/-- next big-endian u32 of a CALL/JUMP stream -/
def takeAddr : List Nat → Addr
  | [] => .empty
  | a0 :: a1 :: a2 :: a3 :: rest => .addr (((a0 * 256 + a1) * 256 + a2) * 256 + a3) rest
  | _ => .short

/-- the scanner loop. `n` bytes still to produce, `prev` = `temp[3]`, `d` normalised. -/
def scan : List Nat → (n prev ip : Nat) → (call jump : List Nat) → Dec → Probs → List Nat →
    Except Err (List Nat)
  | [], n, _, _, _, _, d, _, acc => finish .main n d.code acc
  | b :: ms, n, prev, ip, call, jump, d, ps, acc =>
    match n with
    | 0 => finish .orig 0 d.code acc
    | n' + 1 =>
      if isOp prev b = false then scan ms n' b ((ip + 1) % M32) call jump d ps (b :: acc)
      else
        let idx := probIdx prev b
        let p := ps.get idx
        let r := rawBit d p
        let ps1 := ps.set idx (updProb p r.1)
        let ip1 := (ip + 1) % M32
        if r.1 = false then
          match norm r.2 with
          | none => finish .rc n' r.2.code (b :: acc)
          | some d2 => scan ms n' b ip1 call jump d2 ps1 (b :: acc)
        else
          match takeAddr (if b = 0xE8 then call else jump) with
          | .empty => finish .cj n' r.2.code (b :: acc)
          | .short => if n' = 0 then .ok (b :: acc).reverse else .error .shortAddr
          | .addr v rest =>
            let ip2 := (ip1 + 4) % M32
            let val := (v + M32 - ip2) % M32
            if n' < 4 then .error .notFinished
            else
              let acc' := (val / 16777216) :: (val / 65536 % 256) :: (val / 256 % 256) :: (val % 256) :: b :: acc
              let call' := if b = 0xE8 then rest else call
              let jump' := if b = 0xE8 then jump else rest
              match norm r.2 with
              | none => finish .rc (n' - 4) r.2.code acc'
              | some d2 => scan ms (n' - 4) (val / 16777216) ip2 call' jump' d2 ps1 acc'

/-- `BCJ2Reader::new(vec![main, call, jump, rc], outSize)` read to the end -/
def decode (main call jump rc : List Nat) (outSize : Nat) : Except Err (List Nat) :=
  if outSize = 0 then .ok [] else
  match rcInit rc with
  | .fail => .error .decodeFail
  | .short => .error .eof
  | .ok d => scan main outSize 0 0 call jump d probs0 []

/-! ## Encoder -/

/-- big-endian bytes of a u32 -/
def be32 (v : Nat) : List Nat := [v / 16777216, v / 65536 % 256, v / 256 % 256, v % 256]

/-- The encoder loop.  `k` counts the opcodes seen so far; opcode number `k` is converted iff
    `convert k` and four bytes follow it.  Returns (main, call, jump, final range encoder). -/
def encLoop (convert : Nat → Bool) : (fuel : Nat) → List Nat → (prev ip k : Nat) → Enc → Probs →
    List Nat × List Nat × List Nat × Enc
  | 0, _, _, _, _, e, _ => ([], [], [], e)
  | _ + 1, [], _, _, _, e, _ => ([], [], [], e)
  | f + 1, b :: r, prev, ip, k, e, ps =>
    if isOp prev b = false then
      let t := encLoop convert f r b ((ip + 1) % M32) k e ps
      (b :: t.1, t.2.1, t.2.2.1, t.2.2.2)
    else
      let idx := probIdx prev b
      let p := ps.get idx
      let ip1 := (ip + 1) % M32
      match r with
      | x0 :: x1 :: x2 :: x3 :: r' =>
        if convert k = true then
          let e1 := encodeBitP e p true
          let ps1 := ps.set idx (updProb p true)
          let ip2 := (ip1 + 4) % M32
          let rel := ((x3 * 256 + x2) * 256 + x1) * 256 + x0
          let abs := (rel + ip2) % M32
          let t := encLoop convert f r' x3 ip2 (k + 1) e1 ps1
          if b = 0xE8 then (b :: t.1, be32 abs ++ t.2.1, t.2.2.1, t.2.2.2)
          else (b :: t.1, t.2.1, be32 abs ++ t.2.2.1, t.2.2.2)
        else
          let t := encLoop convert f r b ip1 (k + 1) (encodeBitP e p false) (ps.set idx (updProb p false))
          (b :: t.1, t.2.1, t.2.2.1, t.2.2.2)
      | _ =>
        let t := encLoop convert f r b ip1 (k + 1) (encodeBitP e p false) (ps.set idx (updProb p false))
        (b :: t.1, t.2.1, t.2.2.1, t.2.2.2)

structure Streams where
  main : List Nat
  call : List Nat
  jump : List Nat
  rc : List Nat
deriving Repr

/-- BCJ2 encoder: one adaptive bit per opcode (same contexts as the decoder), absolute big-endian
    targets in CALL (`E8`) / JUMP (`E9`, `0F 8x`), range coder flushed with five `shiftLow`
    (`RangeEnc_FlushData` of 7-Zip's Bcj2Enc). -/
def encode (convert : Nat → Bool) (data : List Nat) : Streams :=
  let t := encLoop convert data.length data 0 0 0 Enc.init probs0
  { main := t.1, call := t.2.1, jump := t.2.2.1, rc := t.2.2.2.bytes }

def roundtrip (convert : Nat → Bool) (data : List Nat) : Bool :=
  let s := encode convert data
  match decode s.main s.call s.jump s.rc data.length with
  | .ok out => out == data
  | .error _ => false

/-
Checked examples (all `true`; see `Proofs/Bcj2.lean` for the compiled versions):
#eval roundtrip (fun _ => true) [0xE8, 0, 0, 0, 0x10, 0xE9, 0xFF, 0xFF, 0xFF, 0xF0]
#eval roundtrip (fun k => k % 2 == 0) [1, 0x0F, 0x84, 1, 2, 3, 4, 0xE8, 0xFF, 0xFF, 0xFF, 0xFF, 0x0F, 0x80, 0xE8, 0xE9, 1]
#eval roundtrip (fun _ => false) [0xE8, 0, 0, 0, 0x10, 0xE9, 0xFF, 0xFF, 0xFF, 0xF0]
#eval roundtrip (fun _ => true) [0xE8, 0xE8, 0xE8, 0xE8, 0xE8, 0x0F, 0x0F, 0x8F, 0xE9]   -- opcodes in the last 4 bytes
#eval roundtrip (fun _ => true) [0xE8, 0xFC, 0xFF, 0xFF, 0xFF]   -- rel = -4: abs = 1 wraps
-/

end LzmaVerif.Bcj2
