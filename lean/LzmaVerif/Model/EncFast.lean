/-
  Executable model of the FAST encoder mode for raw LZMA1:
    src/enc/encoder_fast.rs  `FastEncoderMode::get_next_symbol`, `change_pair`
    src/enc/encoder.rs       `encode_for_lzma1`, `encode_init`, `encode_symbol` (read_ahead / back
                             bookkeeping), `find_matches` / `skip` wrappers, reps / state updates
  on top of a match finder (`Model/Hc4.lean`, `Model/Bt4.lean`).  The OUTPUT of the model is the PARSE
  (`List Lzma.Sym`); range coder and probability models are those of `Model/Lzma.lean` /
  `Model/LzmaStream.lean` (`encodeParse`).  Imports Model files only.

  Coordinates: LOGICAL positions as in the match-finder models.  `data` is the whole input, everything
  present ("finishing"): `get_avail() = data.size - read_pos`.  `p` is the index of the first byte that
  has not been encoded yet (`read_pos - read_ahead` of the real code once started).  The finder state
  counts `move_pos` calls (`pos = read_pos + 1`), so between the calls
        finder.pos = p + (read_ahead + 1).
  The model keeps `ra := read_ahead + 1` (a `Nat`; it is 0 or 1 whenever `get_next_symbol` is entered).

  Why the logical view is adequate for streaming `write` calls: before `set_finishing` the encoder only runs
  while `read_pos - (read_ahead + 1) < read_limit = write_pos - keep_size_after`, with
  `keep_size_after = EXTRA_SIZE_AFTER + MATCH_LEN_MAX = 272 + 273` and `read_ahead ≤ 272`, so
  `get_avail() ≥ 273` there and `min(get_avail(), MATCH_LEN_MAX)` is the same as with all data present
  (validated against the real writer fed in one piece and in small pieces).
-/
import LzmaVerif.Model.Hc4
import LzmaVerif.Model.Bt4
import LzmaVerif.Model.Parse

namespace LzmaVerif.EncFast
open LzmaVerif Mf Lzma

/-- constants of `encoder_fast.rs` / `lib.rs` as they are in the source -/
structure FastParams where
  /-- `MATCH_LEN_MIN` -/
  matchLenMin : Nat := 2
  /-- `MATCH_LEN_MAX` -/
  matchLenMax : Nat := 273
  /-- `small_dist < (big_dist >> 7)` in `change_pair` -/
  pairShift : Nat := 7
  /-- `if main_len == MATCH_LEN_MIN && main_dist >= 0x80 { main_len = 1 }` -/
  len2DistMin : Nat := 0x80
  /-- `best_rep_len + 2 >= main_len && main_dist >= (1 << 9)` -/
  repDist2 : Nat := 512
  /-- `best_rep_len + 3 >= main_len && main_dist >= (1 << 15)` -/
  repDist3 : Nat := 32768
  deriving Repr, DecidableEq

/-- what the proofs need of the constants (the distance thresholds of the heuristics are free) -/
def FastParams.ok (P : FastParams) : Prop := P.matchLenMin = 2 ∧ P.matchLenMax = 273

instance (P : FastParams) : Decidable P.ok := by unfold FastParams.ok; infer_instance

example : ({} : FastParams).ok := by decide

/-- a match finder in logical coordinates: `find` = `find_matches()` (reports the matches of the position
    it consumes, in increasing length), `skip n` = `skip(n)` -/
structure Finder (σ : Type) where
  init : σ
  find : Array UInt8 → σ → List Match × σ
  skip : Array UInt8 → Nat → σ → σ

/-- HC4 as created by `LZMAEncoder::new` in fast mode: `match_len_max = MATCH_LEN_MAX` -/
def hc4Finder (H : Hc4.Hc4Params) (c : Hc4.Cfg) : Finder Hc4.State :=
  { init := Hc4.init H c
    find := fun d s => Hc4.find H c d s
    skip := fun d n s => Hc4.skip H c d n s }

/-- BT4 likewise (for execution; no theorem) -/
def bt4Finder (B : Bt4.Bt4Params) (c : Bt4.Cfg) : Finder Bt4.St :=
  { init := Bt4.init B c false
    find := fun d s => let r := Bt4.find B c d s; (r.2.toList, r.1)
    skip := fun d n s => Bt4.skip B c d n s }

/-- `change_pair(small_dist, big_dist)` -/
def changePair (P : FastParams) (small big : Nat) : Bool := decide (small < big >>> P.pairShift)

/-- `LZEncoderData::get_match_len(dist, len_limit)` at logical read position `p`:
    `extend_match(buf, read_pos, 0, dist + 1, len_limit)` -/
def getMatchLen (d : Array UInt8) (p dist limit : Nat) : Nat := extendMatch d p (dist + 1) limit 0

/-- result of the first `for rep in 0..REPS` loop -/
inductive RepRes where
  /-- `len >= nice_len`: returned at once with `back = rep` -/
  | nice (idx len : Nat)
  /-- loop finished: `best_rep_len`, `best_rep_index` -/
  | best (len idx : Nat)
  deriving Repr, DecidableEq

/-- the loop `for rep in 0..REPS { let len = get_match_len(reps[rep], avail); … }` over the remaining
    indices -/
def repLoop (P : FastParams) (nice : Nat) (d : Array UInt8) (p avail : Nat) (c : Coder) :
    List Nat → (bestLen bestIdx : Nat) → RepRes
  | [], bl, bi => .best bl bi
  | i :: rest, bl, bi =>
    let len := getMatchLen d p (c.rep i) avail
    if len < P.matchLenMin then repLoop P nice d p avail c rest bl bi
    else if len ≥ nice then .nice i len
    else if len > bl then repLoop P nice d p avail c rest len i
    else repLoop P nice d p avail c rest bl bi

/-- the loop `while matches.count > 1 && main_len == matches.len[count - 2] + 1 { if !change_pair(…) break; … }`;
    the list holds the matches below the current one, longest first -/
def pairLoop (P : FastParams) : (mainLen mainDist : Nat) → List Match → Nat × Nat
  | ml, md, [] => (ml, md)
  | ml, md, m :: rest =>
    if ml = m.1 + 1 ∧ changePair P m.2 md = true then pairLoop P m.1 m.2 rest else (ml, md)

/-- result of the `main_len` / `main_dist` selection -/
inductive MainRes where
  /-- `main_len >= nice_len`: returned at once -/
  | nice (len dist : Nat)
  /-- `main_len`, `main_dist` after the `change_pair` loop and the `main_len = 1` demotion
      (`0, 0` when there is no match) -/
  | sel (len dist : Nat)
  deriving Repr, DecidableEq

/-- `if matches.count > 0 { … }` on the match list reversed (longest first) -/
def mainSel (P : FastParams) (nice : Nat) : List Match → MainRes
  | [] => .sel 0 0
  | m :: rest =>
    if m.1 ≥ nice then .nice m.1 m.2
    else
      let r := pairLoop P m.1 m.2 rest
      if r.1 = P.matchLenMin ∧ r.2 ≥ P.len2DistMin then .sel 1 r.2 else .sel r.1 r.2

/-- `best_rep_len >= MATCH_LEN_MIN && (best_rep_len + 1 >= main_len || … )` -/
def preferRep (P : FastParams) (bestRepLen mainLen mainDist : Nat) : Bool :=
  decide (bestRepLen ≥ P.matchLenMin) &&
    (decide (bestRepLen + 1 ≥ mainLen) ||
     (decide (bestRepLen + 2 ≥ mainLen) && decide (mainDist ≥ P.repDist2)) ||
     (decide (bestRepLen + 3 ≥ mainLen) && decide (mainDist ≥ P.repDist3)))

/-- "is the next match better": the test on the longest match of the look-ahead `find_matches()` -/
def nextBetter (P : FastParams) (mainLen mainDist newLen newDist : Nat) : Bool :=
  (decide (newLen ≥ mainLen) && decide (newDist < mainDist)) ||
  (decide (newLen = mainLen + 1) && !changePair P mainDist newDist) ||
  decide (newLen > mainLen + 1) ||
  (decide (newLen + 1 ≥ mainLen) && decide (mainLen > P.matchLenMin) && changePair P newDist mainDist)

/-- the second `for rep in 0..REPS` loop (at the look-ahead position `q = p + 1`):
    `get_match_len(reps[rep], limit) == limit` for some rep -/
def repHitsLimit (d : Array UInt8) (q limit : Nat) (c : Coder) : Bool :=
  [0, 1, 2, 3].any fun i => getMatchLen d q (c.rep i) limit == limit

/-- what one call of `get_next_symbol` + the rest of `encode_symbol` leaves behind -/
structure Step (σ : Type) where
  sym : Sym            -- the symbol encoded (`back == -1` literal / `back < REPS` rep / `back - REPS` match)
  len : Nat            -- the value returned by `get_next_symbol`
  mf : σ               -- finder state
  ms : List Match      -- `encoder.lz.matches` (as left by the last `find_matches`)
  ra : Nat             -- `read_ahead + 1` after `read_ahead -= len`

/-- `get_next_symbol` after the initial `if read_ahead == -1 { find_matches() }`, and the symbol part of
    `encode_symbol`, at position `p` (`p < data.size`): here `read_ahead = 0`, the finder has consumed
    position `p` and `ms` are the matches it reported for `p` -/
def nextCore {σ : Type} (F : Finder σ) (P : FastParams) (nice : Nat) (d : Array UInt8)
    (p : Nat) (c : Coder) (mf : σ) (ms : List Match) : Step σ :=
  let lit : Sym := .lit (byteAt d p)
  -- `let avail = get_avail().min(MATCH_LEN_MAX); if avail < MATCH_LEN_MIN { return 1; }`
  let avail := min (d.size - p) P.matchLenMax
  if avail < P.matchLenMin then ⟨lit, 1, mf, ms, 0⟩
  else
    match repLoop P nice d p avail c [0, 1, 2, 3] 0 0 with
    | .nice i len =>
      -- `back = rep; skip(len - 1); return len`
      ⟨.rep i len, len, F.skip d (len - 1) mf, ms, 0⟩
    | .best bestRepLen bestRepIdx =>
      match mainSel P nice ms.reverse with
      | .nice len dist =>
        -- `back = main_dist + REPS; skip(main_len - 1); return main_len`
        ⟨.mtch dist len, len, F.skip d (len - 1) mf, ms, 0⟩
      | .sel mainLen mainDist =>
        if preferRep P bestRepLen mainLen mainDist then
          -- `back = best_rep_index; skip(best_rep_len - 1); return best_rep_len`
          ⟨.rep bestRepIdx bestRepLen, bestRepLen, F.skip d (bestRepLen - 1) mf, ms, 0⟩
        else if mainLen < P.matchLenMin ∨ avail ≤ P.matchLenMin then ⟨lit, 1, mf, ms, 0⟩
        else
          -- `encoder.find_matches()` for the next position: `read_ahead = 1`
          let fm2 := F.find d mf
          let ms2 := fm2.1
          let mf2 := fm2.2
          let better := match ms2.getLast? with
            | some m => nextBetter P mainLen mainDist m.1 m.2
            | none => false
          if better then ⟨lit, 1, mf2, ms2, 1⟩
          else
            let limit := max (mainLen - 1) P.matchLenMin
            if repHitsLimit d (p + 1) limit c then ⟨lit, 1, mf2, ms2, 1⟩
            else
              -- `back = main_dist + REPS; skip(main_len - 2); return main_len`
              ⟨.mtch mainDist mainLen, mainLen, F.skip d (mainLen - 2) mf2, ms2, 0⟩

/-- `get_next_symbol` and the symbol part of `encode_symbol`, at position `p` (`p < data.size`);
    `ra = read_ahead + 1 ∈ {0, 1}` on entry; for `ra = 1`, `ms` are the matches of position `p` -/
def nextSymbol {σ : Type} (F : Finder σ) (P : FastParams) (nice : Nat) (d : Array UInt8)
    (p : Nat) (c : Coder) (mf : σ) (ms : List Match) (ra : Nat) : Step σ :=
  -- `if encoder.data.read_ahead == -1 { encoder.find_matches(); }`
  let fm := if ra = 0 then F.find d mf else (ms, mf)
  nextCore F P nice d p c fm.2 fm.1

/-- the `while self.encode_symbol(rc, mode)? {}` loop of `encode_for_lzma1` once everything is present:
    `has_enough_data(read_ahead + 1)` is `p < data.size`.  `acc` holds the symbols so far, newest first.
    `fuel` bounds the number of symbols (every symbol covers at least one byte). -/
def loop {σ : Type} (F : Finder σ) (P : FastParams) (nice : Nat) (d : Array UInt8) :
    (fuel : Nat) → (p : Nat) → Coder → σ → List Match → (ra : Nat) → (acc : List Sym) → List Sym
  | 0, _, _, _, _, _, acc => acc.reverse
  | fuel + 1, p, c, mf, ms, ra, acc =>
    if p < d.size then
      let st := nextSymbol F P nice d p c mf ms ra
      loop F P nice d fuel (p + st.len) (c.apply st.sym) st.mf st.ms st.ra (st.sym :: acc)
    else acc.reverse

/-- `LZMAWriter::write(data)` + `finish()` without end marker, seen as the parse it encodes:
    `encode_init` (nothing for empty input; otherwise `skip(1)` and the first byte as a literal with
    `read_ahead` back at -1), then the symbol loop. -/
def fastParse {σ : Type} (F : Finder σ) (P : FastParams) (nice : Nat) (d : Array UInt8) : List Sym :=
  if d.size = 0 then []
  else
    let s0 : Sym := .lit (byteAt d 0)
    loop F P nice d d.size 1 (Coder.init.apply s0) (F.skip d 1 F.init) [] 0 [s0]

/-- the fast encoder over HC4 with the options `dict_size`, `nice_len`, `depth_limit` -/
def fastParseHc4 (H : Hc4.Hc4Params) (P : FastParams) (dict nice depth : Nat) (d : Array UInt8) : List Sym :=
  fastParse (hc4Finder H { dict := dict, niceLen := nice, mlmax := P.matchLenMax, depthLimit := depth }) P nice d

/-- the fast encoder over BT4 -/
def fastParseBt4 (B : Bt4.Bt4Params) (P : FastParams) (dict nice depth : Nat) (d : Array UInt8) : List Sym :=
  fastParse (bt4Finder B { dict := dict, niceLen := nice, mlmax := P.matchLenMax, depth := depth }) P nice d

/-- ASCII rendering of a parse: `L<byte>`, `M<dist>/<len>`, `R<i>/<len>`, `S`, joined by `,` -/
def showSym : Sym → String
  | .lit b => "L" ++ toString b
  | .mtch dist len => "M" ++ toString dist ++ "/" ++ toString len
  | .rep i len => "R" ++ toString i ++ "/" ++ toString len
  | .shortRep => "S"

def showParse (p : List Sym) : String := ",".intercalate (p.map showSym)

end LzmaVerif.EncFast

