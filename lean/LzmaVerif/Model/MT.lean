import LzmaVerif.Model.SyncOps
/-
Protocol model of the multi-threaded readers (`src/lzma2_reader_mt.rs`, `src/lzip/reader_mt.rs`): one
coordinator thread inside the caller's `read`, up to `maxWorkers` worker threads, the shared work queue,
the mpsc result channel, the shared error store + shutdown flag.  The WORKER half, the queue, the channel
and the error store have the same shape in the two MT writers ("compress" for "decompress"); the writers'
COORDINATOR does not follow `coordStep` (found by the trace validation, see `Model/MTTraceW.lean`).
Real executions of the readers are replayed through this LTS on every check (`Model/MTTrace.lean`).

Abstractions (stated in DESIGN.md): a unit's payload is identified with its sequence number; what a
worker computes from unit `i` is `cfg.units[i]` (ok / fail / panic); queue operations are atomic
steps (their fine-grained mutex/condvar implementation is the subject of `Model/WorkQueue.lean`);
`set_error` is one atomic step (it holds the error mutex across the flag store); memory is
sequentially consistent.  Core Lean only.
-/
namespace LzmaVerif.MT

inductive Outcome where
  | ok | fail | panic
deriving DecidableEq, Repr

/-- the environment: what the source yields and what happens to each unit -/
structure Cfg where
  units : List Outcome     -- unit `i` exists iff `i < units.length`; its processing outcome
  srcOk : Bool             -- after the last unit: clean end of input (true) or source error (false)
  endFused : Bool := false -- the end / error of the source is met in the SAME source call that pushed the
                           -- last unit (`LZMA2ReaderMT::read_and_dispatch_chunk`: the end marker closes the
                           -- last unit and returns `Ok(false)`; a truncation inside the chunk that opened a
                           -- new unit), so the coordinator goes from the spawn check straight to the end
                           -- handling; `false`: it is met by the next source call (`LZIPReaderMT`)
  maxWorkers : Nat         -- already clamped to [1, 256] by `new`
  initialWorkers : Nat     -- workers spawned by `new` (1, or 0 for LZIPReaderMT)
deriving Repr

inductive Msg where
  | result (seq : Nat)
  | wake
deriving DecidableEq, Repr

inductive CState where
  | reading | draining | finished | error
deriving DecidableEq, Repr

/-- what a call of `get_next_uncompressed_chunk` returned -/
inductive Ret where
  | data (seq : Nat)    -- Ok(Some(chunk seq))
  | done                -- Ok(None)
  | err                 -- Err(_)
deriving DecidableEq, Repr

/-- coordinator program counter -/
inductive CPc where
  | idle (last : Option Ret)   -- outside a call; `last` = what the previous call returned
  | top                        -- loop top: look into the reorder buffer
  | chkErr                     -- look into the error store
  | byState                    -- `match self.state`
  | tryRecv                    -- Reading: non-blocking receive
  | chkQueue                   -- Reading: `work_queue.len() < 4`?
  | source                     -- Reading: `read_and_dispatch_chunk`
  | push (seq : Nat)           -- `work_queue.push` + notify_one
  | spawnChk                   -- maybe spawn another worker
  | recvReading                -- Reading: blocking receive
  | recvDraining               -- Draining: blocking receive
  | dropped                    -- the reader has been dropped
deriving DecidableEq, Repr

inductive WPc where
  | chkShutdown            -- `while !shutdown_flag.load()`
  | steal                  -- about to attempt `steal()` (atomic: pop / closed? / wait)
  | waiting                -- in the condvar wait set
  | got (seq : Nat)        -- has unit `seq`, about to `active_workers += 1`
  | work (seq : Nat)       -- processing
  | send (seq : Nat)       -- about to send the result
  | decr                   -- about to `active_workers -= 1` after a send
  | failDecr               -- failed: about to `active_workers -= 1`
  | failSet                -- about to `set_error` (error store + shutdown flag)
  | failWake               -- about to send the wake-up message
  | panicked               -- panic guard running: set error, shutdown, send wake-up (one step)
  | exited
deriving DecidableEq, Repr

structure Sys where
  cfg : Cfg
  -- shared
  queue : List Nat
  closed : Bool
  chan : List Msg            -- oldest first
  errStored : Bool
  shutdown : Bool
  active : Nat
  -- coordinator
  pc : CPc
  st : CState
  nextDispatch : Nat
  nextReturn : Nat
  lastSeq : Option Nat
  ooo : List Nat             -- reorder buffer (sequence numbers held)
  delivered : List Nat       -- what the caller received, in order
  srcDone : Bool             -- the source has reported its end / error
  -- workers
  ws : List WPc
deriving Repr

inductive Tid where
  | coord | caller | worker (i : Nat)
deriving DecidableEq, Repr

def init (cfg : Cfg) : Sys :=
  { cfg, queue := [], closed := false, chan := [], errStored := false, shutdown := false, active := 0,
    pc := .idle none, st := .reading, nextDispatch := 0, nextReturn := 0, lastSeq := none, ooo := [],
    delivered := [], srcDone := false, ws := List.replicate cfg.initialWorkers .chkShutdown }

/-- wake the first waiting worker (`notify_one`) -/
def wakeOne : List WPc → List WPc
  | [] => []
  | .waiting :: r => .steal :: r
  | w :: r => w :: wakeOne r

/-- wake all waiting workers (`notify_all`) -/
def wakeAll (ws : List WPc) : List WPc := ws.map fun w => if w = .waiting then .steal else w

/-- handling of a received message by the coordinator (`Ok((seq, result)) => …`) -/
def onMsg (s : Sys) (m : Msg) (rest : List Msg) : Sys :=
  match m with
  | .wake => { s with chan := rest, pc := .top }
  | .result seq =>
    if seq = s.nextReturn then
      { s with chan := rest, nextReturn := s.nextReturn + 1, delivered := s.delivered ++ [seq],
               pc := .idle (some (.data seq)) }
    else { s with chan := rest, ooo := seq :: s.ooo, pc := .top }

def coordStep (s : Sys) : Option Sys :=
  match s.pc with
  | .idle _ => none                       -- the caller moves, not the coordinator
  | .dropped => none
  | .top =>
    if s.nextReturn ∈ s.ooo then
      some { s with ooo := s.ooo.erase s.nextReturn, nextReturn := s.nextReturn + 1,
                    delivered := s.delivered ++ [s.nextReturn], pc := .idle (some (.data s.nextReturn)) }
    else some { s with pc := .chkErr }
  | .chkErr =>
    if s.errStored then some { s with errStored := false, st := .error, pc := .idle (some .err) }
    else some { s with pc := .byState }
  | .byState =>
    match s.st with
    | .reading => some { s with pc := .tryRecv }
    | .draining =>
      match s.lastSeq with
      | some l => if s.nextReturn > l then some { s with st := .finished, pc := .top }
                  else some { s with pc := .recvDraining }
      | none => some { s with pc := .recvDraining }
    | .finished => some { s with pc := .idle (some .done) }
    | .error => some { s with errStored := false, pc := .idle (some .err) }
  | .tryRecv =>
    match s.chan with
    | m :: rest => some (onMsg s m rest)
    | [] => some { s with pc := .chkQueue }
  | .chkQueue =>
    if s.queue.length < 4 then some { s with pc := .source } else some { s with pc := .recvReading }
  | .source =>
    if s.nextDispatch < s.cfg.units.length then some { s with pc := .push s.nextDispatch }
    else if s.cfg.srcOk then
      -- clean end: at least one unit has been dispatched (the end marker closes the last unit)
      some { s with srcDone := true, lastSeq := some (s.nextDispatch - 1), st := .draining, pc := .top }
    else
      -- source error: set_error, state = Error
      some { s with srcDone := true, errStored := true, shutdown := true, st := .error, pc := .top }
  | .push seq =>
    some { s with queue := s.queue ++ [seq], ws := wakeOne s.ws, pc := .spawnChk }
  | .spawnChk =>
    let spawned := s.ws.length
    -- after the push of the last unit a fused source call goes on to its end handling (`.source` with
    -- `nextDispatch = units.length`) without passing the loop top
    let next : CPc := if s.cfg.endFused ∧ s.nextDispatch + 1 = s.cfg.units.length then .source else .top
    if s.queue.length > 0 ∧ s.active = spawned ∧ spawned < s.cfg.maxWorkers then
      some { s with ws := s.ws ++ [.chkShutdown], nextDispatch := s.nextDispatch + 1, pc := next }
    else some { s with nextDispatch := s.nextDispatch + 1, pc := next }
  | .recvReading =>
    match s.chan with
    | m :: rest => some (onMsg s m rest)
    | [] => none                               -- blocked
  | .recvDraining =>
    match s.chan with
    | m :: rest => some (onMsg s m rest)
    | [] => none                               -- blocked

/-- the caller: starts the next `read` after a data chunk, or drops the reader.
    `dropNow` selects between the two when both are possible. -/
def callerStep (s : Sys) (dropNow : Bool) : Option Sys :=
  match s.pc with
  | .idle last =>
    if dropNow then
      some { s with shutdown := true, closed := true, ws := wakeAll s.ws, pc := .dropped }
    else
      match last with
      | some .done | some .err => none        -- the caller stops reading after end / error
      | _ => some { s with pc := .top }
  | _ => none

def workerStep (s : Sys) (i : Nat) : Option Sys :=
  match s.ws[i]? with
  | none => none
  | some pc =>
    let set (w : WPc) (s : Sys) : Sys := { s with ws := s.ws.set i w }
    match pc with
    | .chkShutdown => if s.shutdown then some (set .exited s) else some (set .steal s)
    | .steal =>
      match s.queue with
      | seq :: rest => some (set (.got seq) { s with queue := rest })
      | [] => if s.closed then some (set .exited s) else some (set .waiting s)
    | .waiting => none
    | .got seq => some (set (.work seq) { s with active := s.active + 1 })
    | .work seq =>
      match s.cfg.units.getD seq .ok with
      | .ok => some (set (.send seq) s)
      | .fail => some (set .failDecr s)
      | .panic => some (set .panicked s)
    | .send seq => some (set .decr { s with chan := s.chan ++ [.result seq] })
    | .decr => some (set .chkShutdown { s with active := s.active - 1 })
    | .failDecr => some (set .failSet { s with active := s.active - 1 })
    | .failSet => some (set .failWake { s with errStored := true, shutdown := true })
    | .failWake => some (set .exited { s with chan := s.chan ++ [.wake] })
    | .panicked => some (set .exited { s with errStored := true, shutdown := true, chan := s.chan ++ [.wake] })
    | .exited => none

/-- a scheduler label: which thread moves (for the caller: whether it drops) -/
inductive Label where
  | coord | call | drop | worker (i : Nat)
deriving DecidableEq, Repr

def step (s : Sys) : Label → Option Sys
  | .coord => coordStep s
  | .call => callerStep s false
  | .drop => callerStep s true
  | .worker i => workerStep s i

def runSched (s : Sys) : List Label → Option Sys
  | [] => some s
  | l :: ls => (step s l).bind fun s' => runSched s' ls

/-- no thread can move -/
def terminal (s : Sys) : Bool :=
  (step s .coord).isNone && (step s .call).isNone && (step s .drop).isNone &&
    (List.range s.ws.length).all fun i => (step s (.worker i)).isNone

end LzmaVerif.MT
