/-
Model of `src/lzip.rs`: dictionary-size byte (`encode_dict_size` / `decode_dict_size`),
member header and trailer layout.  Import-free (core Lean only) so the driver links natively.
-/
import LzmaVerif.Generated.Consts
namespace LzmaVerif.Lzip

def MIN_DICT_SIZE : Nat := Consts.LZIP_MIN_DICT_SIZE
def MAX_DICT_SIZE : Nat := Consts.LZIP_MAX_DICT_SIZE

/-- `decode_dict_size(encoded: u8)`; `none` = `Err(InvalidData)` -/
def decodeDict (e : Nat) : Option Nat :=
  let b := e % 32
  let f := e / 32
  if 12 ≤ b ∧ b ≤ 29 then
    let base := 2 ^ b
    let d := base - (base / 16) * f
    if MIN_DICT_SIZE ≤ d ∧ d ≤ MAX_DICT_SIZE then some d else none
  else none

/-- smallest `b` with `2^b ≥ d`, clamped below at 12
    (`32 - leading_zeros - 1`, `+1` if not a power of two, `max 12`) -/
def ceilLog2 (d : Nat) : Nat :=
  let l := Nat.log2 d
  let l := if 2 ^ l < d then l + 1 else l
  if l < 12 then 12 else l

/-- `encode_dict_size` with the fraction computed by `frac diff unit`.
    The pinned code used `div_ceil` (rounds the dictionary *down*, defect F4);
    the repaired code uses plain division. -/
def encodeDictWith (frac : Nat → Nat → Nat) (d : Nat) : Option Nat :=
  if d < MIN_DICT_SIZE ∨ d > MAX_DICT_SIZE then none else
  let b := ceilLog2 d
  if b > 29 then none else
  let base := 2 ^ b
  if base > d then
    let diff := base - d
    let unit := base / 16
    let fr := frac diff unit
    if fr > 7 then (if b + 1 > 29 then none else some (b + 1)) else some (fr * 32 + b)
  else some b

def encodeDict : Nat → Option Nat := encodeDictWith (fun diff unit => diff / unit)
def encodeDictBuggy : Nat → Option Nat := encodeDictWith (fun diff unit => (diff + unit - 1) / unit)

end LzmaVerif.Lzip
