/-
  Executable model of the binary-tree match finder BT4 (src/lz/bt4.rs, with src/lz/hash234.rs and the
  parts of src/lz/lz_encoder.rs it uses: `move_pos`, `get_byte*`, `Matches`).

  Import-free apart from the shared base: the compiled driver runs these definitions
  (`Driver/MfBt4.lean`, request `mf.trace kind=bt4 ...`) and the real code is compared with them through
  the hook `verif_hooks::mf_trace`.

  Coordinates are LOGICAL (see `MfBase.lean`): `data` is everything ever put into the window, all of it is
  present ("finishing" semantics), `St.pos` is the number of `move_pos` calls made so far (the logical
  `read_pos + 1`), so during a `find`/`skip` step the byte looked at is `p = pos - 1` (after the move).

  Every array index and every data index the Rust code touches is recorded in an optional access log
  (`St.log`; `none` = logging off, which is what the driver uses); `Proofs/Bt4Bounds.lean` proves that every
  logged access is in bounds.
-/
import LzmaVerif.Model.MfBase
namespace LzmaVerif.Mf.Bt4

/-- every constant / comparison shape of `bt4.rs` that matters, as data (defaults = current source; a
    translator regenerates an instance from the Rust text on every run) -/
structure Bt4Params where
  d2Strict    : Bool := true   -- bt4.rs:168 `delta2 < self.cyclic_size`        (false = `<=`)
  d3Strict    : Bool := true   -- bt4.rs:182 `delta3 < self.cyclic_size`        (false = `<=`)
  treeStopGe  : Bool := true   -- bt4.rs:92 and :231 `delta >= self.cyclic_size` (false = `>`)
  pairSelGt   : Bool := true   -- bt4.rs:99 and :238 `(delta > self.cyclic_pos)` (false = `>=`)
  niceStopGe  : Bool := true   -- bt4.rs:207 `len_best >= nice_len_limit`, :259 `len >= nice_len_limit` (false = `>`)
  bestStrict  : Bool := true   -- bt4.rs:251 `len > len_best`                   (false = `>=`)
  cyclicExtra : Nat := 1       -- bt4.rs:31 `cyclic_size = dict_size as i32 + 1`
  treeFactor  : Nat := 2       -- bt4.rs:34/36 tree length `cyclic_size as usize * 2`
  shLeft      : Nat := 1       -- bt4.rs:26 `sh_left(i) = ((i as u32) << 1) as i32`
  distSub     : Nat := 1       -- bt4.rs:173, :187, :256 `dist = delta - 1`
  h2Len       : Nat := 2       -- bt4.rs:171-172 `len_best = 2; matches.len[0] = 2`
  h3Len       : Nat := 3       -- bt4.rs:185 `len_best = 3`
  lenBestFloor : Nat := 3      -- bt4.rs:215-216 `if len_best < 3 { len_best = 3 }`
  minAvailFinishing : Nat := 4 -- bt4.rs:59 `encoder.move_pos(encoder.nice_len as _, 4)`
  depthBase   : Nat := 16      -- bt4.rs:46 `16 + nice_len as i32 / 2`
  depthDiv    : Nat := 2       -- bt4.rs:46
  hash        : HashParams := {}
  deriving Repr, DecidableEq

/-- the conditions on the source constants that the proofs need -/
def Bt4Params.ok (P : Bt4Params) : Prop :=
  P.d2Strict = true ∧ P.d3Strict = true ∧ P.treeStopGe = true ∧ P.pairSelGt = true ∧
  P.niceStopGe = true ∧ P.bestStrict = true ∧
  P.cyclicExtra = 1 ∧ 2 ≤ P.treeFactor ∧ P.shLeft = 1 ∧ P.distSub = 1 ∧
  P.h2Len = 2 ∧ P.h3Len = 3 ∧ 2 ≤ P.lenBestFloor ∧ P.lenBestFloor < P.minAvailFinishing ∧
  -- hash234.rs: the 2-byte hash keeps all 8 bits of byte 1, the 3-byte hash all 8 bits of byte 2
  0 < P.hash.hash2Size ∧ P.hash.hash2Size % 256 = 0 ∧
  0 < P.hash.hash3Size ∧ P.hash.hash3Size % 65536 = 0 ∧ P.hash.shift3 = 8 ∧
  -- `calc_hashes` reads 4 bytes: a position is only hashed when at least 4 bytes are available
  4 ≤ P.minAvailFinishing

instance (P : Bt4Params) : Decidable P.ok := by unfold Bt4Params.ok; exact inferInstance

/-- the run-time parameters of `LZEncoder::new_bt4` -/
structure Cfg where
  dict    : Nat
  niceLen : Nat
  mlmax   : Nat
  depth   : Nat   -- raw `depth_limit` option, 0 = default formula
  deriving Repr, DecidableEq

/-- one access of the Rust code: an index into a table, or a byte of the window -/
inductive Access where
  | h2 (i : Nat)                      -- `hash2_table[i]`
  | h3 (i : Nat)                      -- `hash3_table[i]`
  | h4 (i : Nat)                      -- `hash4_table[i]`
  | tree (i : Nat)                    -- `self.tree[i]`
  | byte (p fwd back : Nat)           -- `buf[read_pos + fwd - back]` with logical `read_pos = p`
  | extend (p cur delta limit : Nat)  -- `extend_match(buf, p, cur, delta, limit)`: slices `[p+cur, p+limit)` and the same minus `delta`
  deriving Repr, DecidableEq

abbrev Log := Option (List Access)

@[inline] def Log.push (l : Log) (a : Access) : Log :=
  match l with
  | none => none
  | some xs => some (a :: xs)

/-- `BT4` + `Hash234` + the logical read position -/
structure St where
  h2 : Array Nat
  h3 : Array Nat
  h4 : Array Nat
  tree : Array Nat
  cyclicPos : Nat   -- Rust starts at -1; the model starts at `cyclic_size - 1`: both become 0 at the first
                    -- successful `move_pos` and the value is never used before
  lzPos : Nat
  pos : Nat         -- number of `move_pos` calls so far = logical `read_pos + 1`
  log : Log

def cyclicSize (P : Bt4Params) (c : Cfg) : Nat := c.dict + P.cyclicExtra

/-- bt4.rs:43-47 -/
def depthLimit (P : Bt4Params) (c : Cfg) : Nat :=
  if c.depth > 0 then c.depth else P.depthBase + c.niceLen / P.depthDiv

/-- `BT4::new` -/
def init (P : Bt4Params) (c : Cfg) (logging : Bool) : St :=
  let cs := cyclicSize P c
  { h2 := Array.replicate P.hash.hash2Size 0
    h3 := Array.replicate P.hash.hash3Size 0
    h4 := Array.replicate (hash4Size P.hash c.dict) 0
    tree := Array.replicate (cs * P.treeFactor) 0
    cyclicPos := cs - 1
    lzPos := cs
    pos := 0
    log := if logging then some [] else none }

/-- `BT4::move_pos` on top of `LZEncoderData::move_pos(nice_len, 4)` with `finishing = true`:
    returns the new state and `avail` (0 = the byte stays pending). -/
def movePos (P : Bt4Params) (c : Cfg) (dsize : Nat) (s : St) : St × Nat :=
  let ⟨h2, h3, h4, tree, cyclicPos, lzPos, pos, log⟩ := s
  let avail := dsize - pos          -- `write_pos - read_pos` after `read_pos += 1`
  -- `avail < required_for_flushing && (avail < required_for_finishing || !self.finishing)`
  let avail := if avail < c.niceLen ∧ avail < P.minAvailFinishing then 0 else avail
  if avail ≠ 0 then
    let cp := cyclicPos + 1
    (⟨h2, h3, h4, tree, if cp = cyclicSize P c then 0 else cp, lzPos + 1, pos + 1, log⟩, avail)
  else (⟨h2, h3, h4, tree, cyclicPos, lzPos, pos + 1, log⟩, avail)

/-- `hash.calc_hashes(encoder.read_buffer())` at logical position `p` -/
def hashesAt (P : Bt4Params) (c : Cfg) (data : Array UInt8) (p : Nat) : Hashes :=
  calcHashes P.hash (hash4Size P.hash c.dict - 1)
    (byteAt data p) (byteAt data (p + 1)) (byteAt data (p + 2)) (byteAt data (p + 3))

def logHashReads (lg : Log) (p : Nat) : Log :=
  (((lg.push (.byte p 0 0)).push (.byte p 1 0)).push (.byte p 2 0)).push (.byte p 3 0)

def ltOrLe (strict : Bool) (a b : Nat) : Bool := if strict then decide (a < b) else decide (a ≤ b)
def geOrGt (ge : Bool) (a b : Nat) : Bool := if ge then decide (a ≥ b) else decide (a > b)

/-- the values that stay fixed during one tree walk -/
structure Ctx where
  p : Nat
  lzPos : Nat
  cyclicPos : Nat
  cs : Nat
  lenLimit : Nat
  niceLimit : Nat

def shl (P : Bt4Params) (x : Nat) : Nat := x <<< P.shLeft

/-- bt4.rs:99-100 / :238-239 `pair = sh_left(cyclic_pos - delta + cyclic_size * (delta > cyclic_pos))`
    (the sum is formed before the subtraction because the model computes in `Nat`) -/
def pairOf (P : Bt4Params) (k : Ctx) (delta : Nat) : Nat :=
  let sel := if geOrGt (!P.pairSelGt) delta k.cyclicPos then k.cs else 0
  shl P (k.cyclicPos + sel - delta)

/-- bt4.rs:93-95 / :232-234 -/
def terminate (tree : Array Nat) (ptr0 ptr1 : Nat) (lg : Log) : Array Nat × Log :=
  ((tree.setIfInBounds ptr0 0).setIfInBounds ptr1 0, (lg.push (.tree ptr0)).push (.tree ptr1))

/-- bt4.rs:113-114 / :260-261 -/
def relink (tree : Array Nat) (ptr0 ptr1 pair : Nat) (lg : Log) : Array Nat × Log :=
  let tree := tree.setIfInBounds ptr1 (tree.getD pair 0)
  let tree := tree.setIfInBounds ptr0 (tree.getD (pair + 1) 0)
  (tree, (((lg.push (.tree pair)).push (.tree ptr1)).push (.tree (pair + 1))).push (.tree ptr0))

/-- the tree walk of `find_matches` (bt4.rs:225-277); the first argument is `depth` -/
def findLoop (P : Bt4Params) (data : Array UInt8) (k : Ctx) :
    Nat → Array Nat → Nat → Nat → Nat → Nat → Nat → Nat → Array Match → Log →
    Array Nat × Array Match × Log
  | 0, tree, ptr0, ptr1, _, _, _, _, ms, lg =>
    let (tree, lg) := terminate tree ptr0 ptr1 lg
    (tree, ms, lg)
  | depth + 1, tree, ptr0, ptr1, len0, len1, cur, lenBest, ms, lg =>
    let delta := k.lzPos - cur
    if geOrGt P.treeStopGe delta k.cs then
      let (tree, lg) := terminate tree ptr0 ptr1 lg
      (tree, ms, lg)
    else
      let pair := pairOf P k delta
      let len := extendMatch data k.p delta k.lenLimit (min len0 len1)
      let lg := lg.push (.extend k.p (min len0 len1) delta k.lenLimit)
      let hit := ltOrLe P.bestStrict lenBest len
      let ms := if hit then ms.push (len, delta - P.distSub) else ms
      if hit && geOrGt P.niceStopGe len k.niceLimit then
        let (tree, lg) := relink tree ptr0 ptr1 pair lg
        (tree, ms, lg)
      else
        let lenBest := if hit then len else lenBest
        let lg := (lg.push (.byte k.p len delta)).push (.byte k.p len 0)
        if byteAt data (k.p + len - delta) < byteAt data (k.p + len) then
          let tree := tree.setIfInBounds ptr1 cur
          let lg := (lg.push (.tree ptr1)).push (.tree (pair + 1))
          findLoop P data k depth tree ptr0 (pair + 1) len0 len (tree.getD (pair + 1) 0) lenBest ms lg
        else
          let tree := tree.setIfInBounds ptr0 cur
          let lg := (lg.push (.tree ptr0)).push (.tree pair)
          findLoop P data k depth tree pair ptr1 len len1 (tree.getD pair 0) lenBest ms lg

/-- the inner loop of the private `skip` (bt4.rs:110-120): entered with `len` bytes known equal and the
    byte at `len` equal too.  Returns the new `len` and whether `len == nice_len_limit` was hit.
    The first argument is fuel (`nice_len_limit` suffices; the Rust loop has no other bound than a
    mismatch, the fuel never runs out when `len < nice_len_limit`, see `skipInner_spec`). -/
def skipInner (data : Array UInt8) (p delta niceLimit : Nat) : Nat → Nat → Log → Nat × Bool × Log
  | 0, len, lg => (len, false, lg)
  | fuel + 1, len, lg =>
    let len := len + 1
    if len = niceLimit then (len, true, lg)
    else
      let lg := (lg.push (.byte p len delta)).push (.byte p len 0)
      if byteAt data (p + len - delta) ≠ byteAt data (p + len) then (len, false, lg)
      else skipInner data p delta niceLimit fuel len lg

/-- the tree walk of the private `BT4::skip` (bt4.rs:89-134) -/
def skipLoop (P : Bt4Params) (data : Array UInt8) (k : Ctx) :
    Nat → Array Nat → Nat → Nat → Nat → Nat → Nat → Log → Array Nat × Log
  | 0, tree, ptr0, ptr1, _, _, _, lg => terminate tree ptr0 ptr1 lg
  | depth + 1, tree, ptr0, ptr1, len0, len1, cur, lg =>
    let delta := k.lzPos - cur
    if geOrGt P.treeStopGe delta k.cs then terminate tree ptr0 ptr1 lg
    else
      let pair := pairOf P k delta
      let len := min len0 len1
      let lg := (lg.push (.byte k.p len delta)).push (.byte k.p len 0)
      let (len, nice, lg) :=
        if byteAt data (k.p + len - delta) = byteAt data (k.p + len) then
          skipInner data k.p delta k.niceLimit k.niceLimit len lg
        else (len, false, lg)
      if nice then relink tree ptr0 ptr1 pair lg
      else
        let lg := (lg.push (.byte k.p len delta)).push (.byte k.p len 0)
        if byteAt data (k.p + len - delta) < byteAt data (k.p + len) then
          let tree := tree.setIfInBounds ptr1 cur
          let lg := (lg.push (.tree ptr1)).push (.tree (pair + 1))
          skipLoop P data k depth tree ptr0 (pair + 1) len0 len (tree.getD (pair + 1) 0) lg
        else
          let tree := tree.setIfInBounds ptr0 cur
          let lg := (lg.push (.tree ptr0)).push (.tree pair)
          skipLoop P data k depth tree pair ptr1 len len1 (tree.getD pair 0) lg

/-- result of `calc_hashes` + `get_hash{2,3,4}_pos` + `update_tables(lz_pos)` -/
structure HashStage where
  st : St
  delta2 : Nat
  delta3 : Nat
  cur : Nat

/-- bt4.rs:156-160 (`find_matches`) and :297-299 (`skip`); `p = pos - 1` -/
def hashStage (P : Bt4Params) (c : Cfg) (data : Array UInt8) (s : St) : HashStage :=
  let ⟨h2, h3, h4, tree, cyclicPos, lzPos, pos, log⟩ := s
  let p := pos - 1
  let h := hashesAt P c data p
  let log := logHashReads log p
  let e2 := h2.getD h.h2 0
  let e3 := h3.getD h.h3 0
  let e4 := h4.getD h.h4 0
  let log := ((log.push (.h2 h.h2)).push (.h3 h.h3)).push (.h4 h.h4)
  let h2 := h2.setIfInBounds h.h2 lzPos
  let h3 := h3.setIfInBounds h.h3 lzPos
  let h4 := h4.setIfInBounds h.h4 lzPos
  { st := ⟨h2, h3, h4, tree, cyclicPos, lzPos, pos, log⟩, delta2 := lzPos - e2, delta3 := lzPos - e3, cur := e4 }

def ctxOf (P : Bt4Params) (c : Cfg) (s : St) (lenLimit niceLimit : Nat) : Ctx :=
  { p := s.pos - 1, lzPos := s.lzPos, cyclicPos := s.cyclicPos, cs := cyclicSize P c,
    lenLimit := lenLimit, niceLimit := niceLimit }

/-- the private `BT4::skip(encoder, nice_len_limit, current_match)` -/
def skipTree (P : Bt4Params) (c : Cfg) (data : Array UInt8) (s : St) (niceLimit cur : Nat) : St :=
  let k := ctxOf P c s 0 niceLimit
  let ⟨h2, h3, h4, tree, cyclicPos, lzPos, pos, log⟩ := s
  let (tree, log) := skipLoop P data k (depthLimit P c) tree (shl P cyclicPos + 1) (shl P cyclicPos) 0 0 cur log
  ⟨h2, h3, h4, tree, cyclicPos, lzPos, pos, log⟩

/-- result of the two hash candidates (bt4.rs:162-190): `lenBest`, the matches so far, the `delta2`
    that is extended afterwards -/
structure Cands where
  lenBest : Nat
  ms : Array Match
  delta2 : Nat
  log : Log

def hashCands (P : Bt4Params) (data : Array UInt8) (p cs delta2 delta3 : Nat) (lg : Log) : Cands :=
  -- bt4.rs:168-175
  let lg2 := if ltOrLe P.d2Strict delta2 cs then (lg.push (.byte p 0 delta2)).push (.byte p 0 0) else lg
  let m2 := ltOrLe P.d2Strict delta2 cs && byteAt data (p - delta2) == byteAt data p
  let lenBest := if m2 then P.h2Len else 0
  let ms : Array Match := if m2 then #[(P.h2Len, delta2 - P.distSub)] else #[]
  -- bt4.rs:181-190 (`matches.len[count]` is filled in by the extension below)
  let g3 := delta2 != delta3 && ltOrLe P.d3Strict delta3 cs
  let lg3 := if g3 then (lg2.push (.byte p 0 delta3)).push (.byte p 0 0) else lg2
  let m3 := g3 && byteAt data (p - delta3) == byteAt data p
  if m3 then { lenBest := P.h3Len, ms := ms.push (P.h3Len, delta3 - P.distSub), delta2 := delta3, log := lg3 }
  else { lenBest := lenBest, ms := ms, delta2 := delta2, log := lg3 }

/-- bt4.rs:193-204: extend the last candidate -/
def extendCands (data : Array UInt8) (p lenLimit : Nat) (cd : Cands) : Cands :=
  if cd.ms.size > 0 then
    let lenBest := extendMatch data p cd.delta2 lenLimit cd.lenBest
    let c := cd.ms.size - 1
    { lenBest := lenBest, ms := cd.ms.modify c (fun m => (lenBest, m.2)), delta2 := cd.delta2,
      log := cd.log.push (.extend p cd.lenBest cd.delta2 lenLimit) }
  else cd

/-- `BT4::find_matches` -/
def find (P : Bt4Params) (c : Cfg) (data : Array UInt8) (s : St) : St × Array Match :=
  let (s, avail) := movePos P c data.size s
  -- bt4.rs:146-154
  if avail < c.mlmax ∧ avail = 0 then (s, #[]) else
  let lenLimit := if avail < c.mlmax then avail else c.mlmax
  let niceLimit := if avail < c.mlmax ∧ c.niceLen > avail then avail else c.niceLen
  let ⟨s, delta2, delta3, cur⟩ := hashStage P c data s
  let k := ctxOf P c s lenLimit niceLimit
  let ⟨h2, h3, h4, tree, cyclicPos, lzPos, pos, log⟩ := s
  let cd := extendCands data k.p lenLimit (hashCands P data k.p k.cs delta2 delta3 log)
  -- bt4.rs:207-210
  if cd.ms.size > 0 ∧ geOrGt P.niceStopGe cd.lenBest niceLimit = true then
    (skipTree P c data ⟨h2, h3, h4, tree, cyclicPos, lzPos, pos, cd.log⟩ niceLimit cur, cd.ms)
  else
    -- bt4.rs:215-217
    let lenBest := if cd.lenBest < P.lenBestFloor then P.lenBestFloor else cd.lenBest
    let (tree, ms, log) :=
      findLoop P data k (depthLimit P c) tree (shl P cyclicPos + 1) (shl P cyclicPos) 0 0 cur lenBest cd.ms cd.log
    (⟨h2, h3, h4, tree, cyclicPos, lzPos, pos, log⟩, ms)

/-- one iteration of the public `BT4::skip` loop (bt4.rs:287-301) -/
def skipOne (P : Bt4Params) (c : Cfg) (data : Array UInt8) (s : St) : St :=
  let (s, avail) := movePos P c data.size s
  -- bt4.rs:290-295
  if avail < c.niceLen ∧ avail = 0 then s else
  let niceLimit := if avail < c.niceLen then avail else c.niceLen
  let ⟨s, _, _, cur⟩ := hashStage P c data s
  skipTree P c data s niceLimit cur

/-- the public `BT4::skip(len)` -/
def skip (P : Bt4Params) (c : Cfg) (data : Array UInt8) : Nat → St → St
  | 0, s => s
  | n + 1, s => skip P c data n (skipOne P c data s)

/-- one script element: 0 = `find_matches()`, n > 0 = `skip(n)`; a find appends `(p, matches)` -/
def runOp (P : Bt4Params) (c : Cfg) (data : Array UInt8) (op : Nat) (s : St)
    (tr : Array (Nat × List Match)) : St × Array (Nat × List Match) :=
  if op = 0 then
    let p := s.pos
    let (s, ms) := find P c data s
    (s, tr.push (p, ms.toList))
  else (skip P c data op s, tr)

/-- the hook `mf_trace`: ops are executed while the encoder `has_enough_data(0)`
    (`read_pos < write_pos - 1` once started) -/
def runOps (P : Bt4Params) (c : Cfg) (data : Array UInt8) :
    List Nat → St → Array (Nat × List Match) → St × Array (Nat × List Match)
  | [], s, tr => (s, tr)
  | op :: rest, s, tr =>
    if s.pos > 0 ∧ ¬ s.pos < data.size then (s, tr)
    else
      let (s, tr) := runOp P c data op s tr
      runOps P c data rest s tr

def runScript (P : Bt4Params) (c : Cfg) (data : Array UInt8) (script : List Nat) (logging : Bool := false) :
    St × List (Nat × List Match) :=
  let (s, tr) := runOps P c data script (init P c logging) #[]
  (s, tr.toList)

end LzmaVerif.Mf.Bt4
