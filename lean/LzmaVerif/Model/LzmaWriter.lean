/-
  Model of `src/enc/lzma_writer.rs` in FAST mode, composed with the fast-encoder model:
    `LZMAWriter::new` (option validation, the 13-byte `.lzma` header: props byte, dictionary size rounded up
        to 2^n / 2^n + 2^(n-1), expected size or `u64::MAX`), `new_use_header`, `new_no_header`,
    `write` (expected-size check) and `finish` (expected-size check, `encode_for_lzma1`, optional end marker,
        `rc.finish`)
  as ONE function from options and data to the bytes the writer produces.  The symbol sequence is that of
  `Model/EncFast.lean` (`fastParseHc4` / `fastParseBt4`), the bytes those of the range-encoder model
  (`Lzma.encodeParse`).  Imports Model files only (linked into `lzdriver`).

  Not modelled: preset dictionaries (`new_use_header` refuses them; `new_no_header` with a preset is outside this
  file), the partition into `write` calls (the logical view of `Model/EncFast.lean`; the correspondence feeds the
  real writer in pieces).
-/
import LzmaVerif.Model.EncFast
import LzmaVerif.Model.LzmaStream
import LzmaVerif.Model.Options
import LzmaVerif.Model.Checks

namespace LzmaVerif.LzmaWriter
open LzmaVerif Mf Lzma EncFast

/-- the options of `LZMAOptions` that matter in fast mode (`mode = Fast`; `mf = HC4 | BT4`) -/
structure FastOpts where
  dict : Nat
  lc : Nat
  lp : Nat
  pb : Nat
  nice : Nat
  /-- raw `depth_limit` (0 = default formula) -/
  depth : Nat := 0
  /-- `mf == MFType::BT4` (execution only; the theorems are about HC4) -/
  bt4 : Bool := false
  deriving Repr

/-- the model constants: HC4 / BT4 / fast-mode parameters (the driver passes the ones regenerated from source) -/
structure MfConsts where
  hc4 : Hc4.Hc4Params := {}
  bt4 : Bt4.Bt4Params := {}
  fast : FastParams := {}

def FastOpts.params (o : FastOpts) : Params := { lc := o.lc, lp := o.lp, pb := o.pb }

/-- `options.validate(false)` -/
def FastOpts.valid (o : FastOpts) : Bool :=
  Options.validate { dict := o.dict, lc := o.lc, lp := o.lp, pb := o.pb, nice := o.nice } false

/-- the symbols `encode_for_lzma1` emits for the whole input (`LZMAEncoder::new(Fast, …, mf, depth_limit, dict_size, 0, nice_len)`) -/
def fastParseOf (K : MfConsts) (o : FastOpts) (d : Array UInt8) : List Sym :=
  if o.bt4 then fastParseBt4 K.bt4 K.fast o.dict o.nice o.depth d
  else fastParseHc4 K.hc4 K.fast o.dict o.nice o.depth d

/-- `encode_lzma1_end_marker`: a match with distance `u32::MAX` and length `MATCH_LEN_MIN` -/
def endMarker : Sym := .mtch END_DIST 2

/-- the raw LZMA1 stream: `encode_for_lzma1` over the whole data, `encode_lzma1_end_marker` if requested,
    `rc.finish()`.  `dictBuf` is the dictionary buffer of the decoder model the stream is meant for (the model
    encoder follows the decoder's decision program; for a parse inside the dictionary the bytes do not depend on it). -/
def rawBytes (pr : Params) (dictBuf : Nat) (marker : Bool) (n : Nat) (parse : List Sym) : Option (List Nat) :=
  if marker then encodeParse pr dictBuf #[] none (parse.length + 1) (parse ++ [endMarker])
  else encodeParse pr dictBuf #[] (some n) (n + 1) parse

/-- `options.get_props()`: `((pb * 5 + lp) * 9 + lc) as u8` -/
def propsByte (o : FastOpts) : Nat := ((o.pb * 5 + o.lp) * 9 + o.lc) % 256

/-- the dictionary size `LZMAWriter::new` announces in the header (u32 arithmetic):
    `d = dict_size.saturating_sub(1); d |= d >> 2; d |= d >> 3; d |= d >> 4; d |= d >> 8; d |= d >> 16;
     if d != u32::MAX { d += 1 }` -/
def hdrDict (dict : Nat) : Nat :=
  let d := dict - 1
  let d := d ||| (d >>> 2)
  let d := d ||| (d >>> 3)
  let d := d ||| (d >>> 4)
  let d := d ||| (d >>> 8)
  let d := d ||| (d >>> 16)
  if d ≠ 2 ^ 32 - 1 then d + 1 else d

/-- the 13 header bytes: props, dictionary size (LE32), `expected_uncompressed_size.unwrap_or(u64::MAX)` (LE64) -/
def header (o : FastOpts) (expected : Option Nat) : List Nat :=
  [propsByte o] ++ Checks.le 4 (hdrDict o.dict) ++ Checks.le 8 (expected.getD (2 ^ 64 - 1))

/-- the dictionary buffer `LZMAReader::new_mem_limit` allocates for this header (`Lzma.decodeAlone`) -/
def aloneDictBuf (o : FastOpts) (expected : Option Nat) : Nat :=
  let size := expected.getD (2 ^ 64 - 1)
  lzmaReaderDictBuf (hdrDict o.dict) (if size ≤ 2 ^ 63 - 1 then some size else none) 0

/-- `LZMAWriter::new(out, options, use_header = true, use_end_marker, expected)`, `write(data)`, `finish()`.
    `none`: the writer reports an error (options out of range; `write` beyond / `finish` short of the expected
    size) - or, model only, the parse cannot be encoded.
    `new_use_header(out, options, input_size)` is `useEndMarker = input_size.is_none()`, `expected = input_size`. -/
def lzmaAloneFastBytes (K : MfConsts) (o : FastOpts) (useEndMarker : Bool) (expected : Option Nat)
    (d : Array UInt8) : Option (List Nat) :=
  if !o.valid then none
  else if expected.isSome ∧ expected ≠ some d.size then none
  else
    match rawBytes o.params (aloneDictBuf o expected) useEndMarker d.size (fastParseOf K o d) with
    | none => none
    | some raw => some (header o expected ++ raw)

/-- `LZMAWriter::new_no_header(out, options, use_end_marker)`, `write(data)`, `finish()`; the reader is
    `LZMAReader::new(.., size, lc, lp, pb, dict_size, None)` with `size = data.len()` or `u64::MAX` -/
def lzmaRawFastBytes (K : MfConsts) (o : FastOpts) (useEndMarker : Bool) (d : Array UInt8) : Option (List Nat) :=
  if !o.valid then none
  else
    rawBytes o.params (lzmaReaderDictBuf o.dict (if useEndMarker then none else some d.size) 0) useEndMarker d.size
      (fastParseOf K o d)

end LzmaVerif.LzmaWriter
