import LzmaVerif.Model.Lzma2
import LzmaVerif.Model.Parse
/-!
LZMA2 writer-event checker (core Lean only, so that the driver can run it): names for the pieces of
`encodeChunks`, and `checkChunks`, an executable sufficient condition for the hypothesis `ChunksOk` of the
LZMA2 round-trip theorem (`Proofs/Lzma2.lean`: `checkChunks_sound`, `lzma2_roundtrip`).  The driver runs it on
the chunk list recovered from every real LZMA2 stream, so the theorem's hypothesis is validated, not assumed.
-/
namespace LzmaVerif.Lzma2
open LzmaVerif Lzma Prog Rc

/-! ## Names for the pieces of `encodeChunks` -/

/-- the control byte `write_lzma` computes (`lzmaHeader`, first byte) -/
def lzmaControl (f : WFlags) (unc : Nat) : Nat :=
  (if f.propsNeeded then (if f.dictResetNeeded then 0xE0 else 0xC0)
   else if f.stateResetNeeded then 0xA0 else 0x80) + (unc - 1) / 65536

/-- the control byte `write_uncompressed` computes (`storedHeader`, first byte) -/
def storedControl (f : WFlags) : Nat := if f.dictResetNeeded then 1 else 2

/-- writer state after the restart decision of `encodeChunks` (`start_independent_chunk`) -/
def restartW (ch : Chunk) (w : WState) : WState :=
  if (ch.control ≥ 0xE0 ∨ ch.control = 1) ∧ ¬ w.first then
    { w with flags := { dictResetNeeded := true, stateResetNeeded := true, propsNeeded := true }, hist := #[] }
  else w

/-- probability tables the encoder starts an LZMA chunk with -/
def chunkProbs (w : WState) : Probs :=
  if w.flags.stateResetNeeded ∨ w.flags.propsNeeded then freshProbs w.params else w.probs

/-- coder state the encoder starts an LZMA chunk with -/
def chunkCoder (w : WState) : Coder :=
  if w.flags.stateResetNeeded ∨ w.flags.propsNeeded then Coder.init else w.coder

/-- the symbol loop of one LZMA chunk of `unc` bytes -/
def lzmaProg (w : WState) (unc : Nat) : Prog LoopRes :=
  loopProg w.params w.dictBuf (unc + 1) (some unc) (chunkCoder w) w.hist [] 0

def lzmaBits (w : WState) (parse : List Sym) : List Bool :=
  parseBits w.params parse (chunkCoder w) w.hist

/-- writer state after an LZMA chunk -/
def afterLzma (w : WState) (r : LoopRes) (ps : Probs) : WState :=
  { w with flags := { dictResetNeeded := false, stateResetNeeded := false, propsNeeded := false },
           hist := r.hist, probs := ps, coder := r.coder, first := false }

/-- writer state after a stored chunk -/
def afterStored (w : WState) (raw : List Nat) : WState :=
  { w with flags := { w.flags with dictResetNeeded := false, stateResetNeeded := true },
           hist := pushAll w.hist raw, first := false }

def checkChunks (pb : Nat) : List Chunk → WState → Option (List Nat)
  | [], _ => some []
  | ch :: rest, w =>
    if ch.control ≥ 0x80 then
      match parseRun (restartW ch w).dictBuf ch.parse (chunkCoder (restartW ch w)) (restartW ch w).hist with
      | none => none
      | some (_, h') =>
        if h'.size = (restartW ch w).hist.size + ch.unc ∧ 1 ≤ ch.unc ∧ ch.unc ≤ 2 ^ 21 ∧
            ch.control = lzmaControl (restartW ch w).flags ch.unc ∧
            ch.props = (if (restartW ch w).flags.propsNeeded then some pb else none) ∧ ch.raw = [] then
          match (lzmaProg (restartW ch w) ch.unc).encRun (lzmaBits (restartW ch w) ch.parse)
              (chunkProbs (restartW ch w)) Enc.init with
          | some (r, [], ps, e) =>
            if e.bytes.length ≤ 65536 ∧ ch.comp = e.bytes.length then
              (checkChunks pb rest (afterLzma (restartW ch w) r ps)).map
                (fun d => (h'.extract (restartW ch w).hist.size h'.size).toList ++ d)
            else none
          | _ => none
        else none
    else
      if ch.control = storedControl (restartW ch w).flags ∧ ch.unc = ch.raw.length ∧
          1 ≤ ch.raw.length ∧ ch.raw.length ≤ 65536 ∧ ch.comp = 0 ∧ ch.props = none ∧ ch.parse = [] then
        (checkChunks pb rest (afterStored (restartW ch w) ch.raw)).map (fun d => ch.raw ++ d)
      else none

/-- the writer's initial state, as in `reencode` -/
def initW (dict : Nat) (preset : Array Nat) (pb : Nat) : WState :=
  { flags := { dictResetNeeded := preset.isEmpty, stateResetNeeded := true, propsNeeded := true },
    hist := preset.extract (preset.size - min preset.size (dictBufOf dict)) preset.size,
    params := paramsOfProps pb, probs := freshProbs (paramsOfProps pb), coder := Coder.init,
    dictBuf := dictBufOf dict, first := true }

/-- the properties byte `reencode` uses -/
def propsOf (chunks : List Chunk) : Nat := (chunks.findSome? (·.props)).getD 0


end LzmaVerif.Lzma2
