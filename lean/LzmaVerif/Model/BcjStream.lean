import LzmaVerif.Model.Stream
import LzmaVerif.Model.Filters
/- The concrete BCJ filters as block filters for the streaming wrappers.  Core Lean only. -/
namespace LzmaVerif.BcjStream
open LzmaVerif

def blockFilter (a : Filters.Arch) (enc : Bool) : Stream.BlockFilter Filters.St :=
  { code := fun st xs => let (b, i, st') := Filters.code a enc st xs.toArray; (b.toList, i, st') }

/-- streaming `BCJWriter` (as used inside `XZWriter`) fed with the given parts -/
def writeParts (a : Filters.Arch) (start : Nat) (parts : List (List Nat)) : List Nat :=
  Stream.wRun (blockFilter a true) (Filters.St.init a start) parts

/-- `BCJReader` read to the end with the given destination sizes and inner-read grants -/
def readAll (a : Filters.Arch) (start : Nat) (src : List Nat) (sizes grants : List Nat) : List Nat :=
  Stream.rRun (blockFilter a false) (src.length + sizes.length + 16) (Stream.rInit (Filters.St.init a start) src) sizes grants []

end LzmaVerif.BcjStream
