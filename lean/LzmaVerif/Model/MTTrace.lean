import LzmaVerif.Model.MT
/-
Trace validation for the multi-threaded readers: replay of the protocol event log that the real code
writes (cfg `hasenbanck_lzma_rust2_verif`, `verif_hooks::mt_trace_*`, events emitted by `mt_ev!` in
`src/lzma2_reader_mt.rs`, `src/lzip/reader_mt.rs`, `src/work_queue.rs`, `set_error` in `src/lib.rs`)
through the LTS of `Model/MT.lean`.

Every logged event is mapped to zero, one or two steps of `MT.step`; each step must be ENABLED in the
current model state and its observable (the sequence number a worker popped, the message the
coordinator received, the decision it took, the value the call returned) must equal the logged one.
The model state can only be advanced through `Path.step`, which carries the proof that the labels
taken so far are a path of the LTS from `init cfg` (`Path.ok`), so acceptance of a trace implies
`runSched (init cfg) labels = some finalState` by construction (`Props/C08Trace.lean`).

The abstraction between the granularity of the code and of the LTS (all of it is in this file):

* `markStutter`: an iteration of the coordinator loop whose `read_and_dispatch_chunk` only appended one
  more LZMA2 chunk to the private work-unit buffer (`src more` without a push) changes no shared state.
  Its events become check-only events (`Ev.obs`): the model stays at `pc = top`, and what the code
  observed (reorder buffer miss, no stored error, channel empty, queue length < 4) is still compared
  with the model state at that moment.
* `placeSpawn`: the spawn check reads `active_workers` and `work_queue.len()` in two separate atomic
  operations, the LTS in one step.  The step is placed at the load of `active_workers` when the code
  decided to spawn or saw a non-empty queue, otherwise at the `len()` call.
* `push` in the code is lock / push_back / unlock / notify_one, in the LTS one step that appends and wakes
  the FIRST waiting worker.  The model step is taken at the push_back.  The code's condvar may wake any
  waiter, later: when a worker that the model still has in `waiting` makes a steal attempt, it takes
  over the model identity of a worker that the model has already woken but that is really still blocked
  (`ensureSteal`, a renaming of two workers that are in the same local state); when there is none and the
  attempt finds nothing, the wake-up / wait pair is a stutter.
* `Drop` stores the shutdown flag and then closes the queue; the LTS does both in one step, taken at the
  store.  A steal attempt that falls between the two and goes to sleep is a stutter: the worker repeats
  the attempt after the `notify_all` of `close()`.
* A call made after the final answer (`Ok(None)` / `Err`) is outside the LTS (its caller stops there);
  only its return value is checked.  Every `call` must be closed by exactly one `ret` before the next
  `call` or the `drop` (`inCall`); `Proofs/MTTrace.replay_returns` uses this to show that the logged data
  returns are the model's `delivered` list.
* A worker whose `send` fails (receiver gone: the reader has been dropped) returns directly; in the LTS
  it passes through `chkShutdown`, where it sees the shutdown flag that `Drop` has set before.

Core Lean only (linked into `lzdriver`).
-/
namespace LzmaVerif.MT.Trace
open LzmaVerif.MT

theorem runSched_append (s : Sys) (a b : List Label) :
    runSched s (a ++ b) = (runSched s a).bind fun s' => runSched s' b := by
  induction a generalizing s with
  | nil => rfl
  | cons l ls ih =>
    simp only [List.cons_append, runSched]
    cases step s l with
    | none => rfl
    | some s1 => exact ih s1

/-- a state of the LTS together with the labels that lead to it from `init cfg` (newest first) -/
structure Path (cfg : Cfg) where
  rev : List Label
  sys : Sys
  ok : runSched (init cfg) rev.reverse = some sys

def Path.start (cfg : Cfg) : Path cfg := ⟨[], init cfg, rfl⟩

/-- the only way to advance the model state -/
def Path.step {cfg : Cfg} (p : Path cfg) (l : Label) : Option (Path cfg) :=
  match h : MT.step p.sys l with
  | none => none
  | some s' => some ⟨l :: p.rev, s', by
      rw [List.reverse_cons, runSched_append, p.ok]
      simp [runSched, h]⟩

/-! ## events -/

inductive RecvObs where
  | empty | result (seq : Nat) | wake | disc
deriving DecidableEq, Repr

inductive StObs where
  | reading | drainFin | drainRecv | finished | error
deriving DecidableEq, Repr

inductive SrcObs where
  | more | done | err
deriving DecidableEq, Repr

/-- coordinator events, in the order of `get_next_uncompressed_chunk` -/
inductive CEv where
  | top (hit : Option Nat)           -- reorder buffer lookup
  | err (b : Bool)                   -- error store `take()`
  | st (k : StObs)                   -- `match self.state`
  | tryRecv (r : RecvObs)
  | qlen (lt4 : Bool)                -- `work_queue.len() < 4`
  | push (seq : Nat)                 -- push_back done
  | ldActive (a : Nat)               -- `active_workers.load`
  | spawn (a q : Nat) (d : Bool)     -- `work_queue.len()` read (`d` is filled in by `resolveSpawn`)
  | spawned                          -- inside the `if`: a worker thread is being spawned
  | spawnAtLoad (a : Nat) (d : Bool) -- (placed by `placeSpawn`)
  | spawnAtLen (q : Nat) (d : Bool)  -- (placed by `placeSpawn`)
  | src (k : SrcObs)                 -- result of `read_and_dispatch_chunk` / `dispatch_next_member`
  | recv (r : RecvObs)               -- blocking receive returned
  | nop
deriving DecidableEq, Repr

/-- worker events, in the order of `worker_thread_logic` -/
inductive WEv where
  | start | sd (b : Bool) | pop (seq : Nat) | closed | wait | woke | inc
  | ok (seq : Nat) | fail (seq : Nat) | sent (seq : Nat) (good : Bool) | dec | setErr | sentWake | exit
deriving DecidableEq, Repr

inductive Ev where
  | call | drop | ret (r : Ret)
  | c (e : CEv)
  | obs (e : CEv)      -- check-only (stutter iteration)
  | w (i : Nat) (e : WEv)
deriving DecidableEq, Repr

/-! ## preprocessing -/

/-- does the coordinator iteration that starts here end in `src more` without a push? -/
def stutterAhead : List Ev → Bool
  | [] => false
  | .c (.src .more) :: _ => true
  | .c (.push _) :: _ => false
  | .c (.top _) :: _ => false
  | .c (.src _) :: _ => false
  | .ret _ :: _ => false
  | _ :: r => stutterAhead r

def markStutter : Bool → List Ev → List Ev
  | _, [] => []
  | _, .c (.top none) :: r =>
    if stutterAhead r then .obs (.top none) :: markStutter true r else .c (.top none) :: markStutter false r
  | true, .c (.src .more) :: r => .obs (.src .more) :: markStutter false r
  | true, .c e :: r => .obs e :: markStutter true r
  | b, e :: r => e :: markStutter b r

/-- is the next coordinator event `spawned`? -/
def spawnedNext : List Ev → Bool
  | [] => false
  | .c .spawned :: _ => true
  | .c _ :: _ => false
  | .call :: _ => false
  | .ret _ :: _ => false
  | .drop :: _ => false
  | _ :: r => spawnedNext r

/-- the decision of a spawn check is whether the code entered the `if` (`spawned` follows) -/
def resolveSpawn : List Ev → List Ev
  | [] => []
  | .c (.spawn a q _) :: r => .c (.spawn a q (spawnedNext r)) :: resolveSpawn r
  | .c .spawned :: r => .c .nop :: resolveSpawn r
  | e :: r => e :: resolveSpawn r

/-- the decision that belongs to an `ldActive` marker -/
def spawnAhead : List Ev → Option (Nat × Nat × Bool)
  | [] => none
  | .c (.spawn a q d) :: _ => some (a, q, d)
  | _ :: r => spawnAhead r

/-- `early` = the pending spawn check has been placed at its `ldActive` marker -/
def placeSpawn : Bool → List Ev → List Ev
  | _, [] => []
  | _, .c (.ldActive a) :: r =>
    match spawnAhead r with
    | some (_, q, d) =>
      if d || q > 0 then .c (.spawnAtLoad a d) :: placeSpawn true r else .c .nop :: placeSpawn false r
    | none => .c .nop :: placeSpawn false r
  | early, .c (.spawn _ q d) :: r =>
    (if early then .c .nop else .c (.spawnAtLen q d)) :: placeSpawn false r
  | b, e :: r => e :: placeSpawn b r

def prepare (evs : List Ev) : List Ev := markStutter false (placeSpawn false (resolveSpawn evs))

/-! ## validator -/

structure VS (cfg : Cfg) where
  path : Path cfg
  perm : List Nat       -- real worker id ↦ model index
  blocked : List Bool   -- real worker id ↦ is inside `condvar.wait`
  post : Bool           -- inside a call made after the final answer
  inCall : Bool         -- between a `call` event and its `ret` event
  pushed : Bool         -- the current source call has pushed a unit
  -- how often each part of the abstraction was used (reported by the driver on request, `stats=1`)
  nSwap : Nat := 0      -- renamings of two workers
  nPhantom : Nat := 0   -- wake-up / wait pairs without a model step
  nDropWin : Nat := 0   -- waits between the two halves of `Drop`
  nObs : Nat := 0       -- check-only events of stutter iterations
  nEarly : Nat := 0     -- spawn checks placed at the load of `active_workers`
  nPost : Nat := 0      -- calls after the final answer

def VS.start (cfg : Cfg) : VS cfg :=
  { path := Path.start cfg, perm := List.range cfg.initialWorkers,
    blocked := List.replicate cfg.initialWorkers false, post := false, inCall := false, pushed := false }

def showSys (s : Sys) : String :=
  s!"pc={repr s.pc} st={repr s.st} queue={s.queue} chan={repr s.chan} err={s.errStored} sd={s.shutdown} closed={s.closed} active={s.active} nd={s.nextDispatch} nr={s.nextReturn} ooo={s.ooo} ws={repr s.ws}"

abbrev R (cfg : Cfg) := Except String (VS cfg)

/-- one coordinator step: `pre` on the state before, `post` on (before, after) -/
def cStep {cfg : Cfg} (v : VS cfg) (pre : Sys → Bool) (post : Sys → Sys → Bool) : R cfg :=
  if !pre v.path.sys then .error "coordinator is not at this point / observation differs"
  else match v.path.step .coord with
    | none => .error "coordinator step not enabled"
    | some p =>
      if post v.path.sys p.sys then .ok { v with path := p }
      else .error s!"the model's step has a different outcome (pc'={repr p.sys.pc} st'={repr p.sys.st})"

def wStep {cfg : Cfg} (v : VS cfg) (j : Nat) (pre : WPc → Bool) (post : WPc → Bool) : R cfg :=
  match v.path.sys.ws[j]? with
  | none => .error "no such worker in the model"
  | some w =>
    if !pre w then .error s!"model worker {j} is at {repr w}"
    else match v.path.step (.worker j) with
      | none => .error s!"worker step not enabled (model worker {j} at {repr w})"
      | some p =>
        match p.sys.ws[j]? with
        | some w' =>
          if post w' then .ok { v with path := p }
          else .error s!"the model's step has a different outcome (model worker {j}: {repr w} -> {repr w'})"
        | none => .error "worker vanished"

def recvMatches (chan : List Msg) : RecvObs → Bool
  | .empty => chan.isEmpty
  | .result q => chan.head? == some (.result q)
  | .wake => chan.head? == some .wake
  | .disc => false

def onC {cfg : Cfg} (v : VS cfg) : CEv → R cfg
  | .top none => cStep v (fun s => s.pc == .top) (fun _ s' => s'.pc == .chkErr)
  | .top (some q) => cStep v (fun s => s.pc == .top) (fun _ s' => s'.pc == .idle (some (.data q)))
  | .err b => cStep v (fun s => s.pc == .chkErr) (fun _ s' => (s'.pc == .idle (some .err)) == b)
  | .st .reading => cStep v (fun s => s.pc == .byState && s.st == .reading) (fun _ s' => s'.pc == .tryRecv)
  | .st .drainFin =>
    cStep v (fun s => s.pc == .byState && s.st == .draining) (fun _ s' => s'.pc == .top && s'.st == .finished)
  | .st .drainRecv =>
    cStep v (fun s => s.pc == .byState && s.st == .draining) (fun _ s' => s'.pc == .recvDraining)
  | .st .finished =>
    cStep v (fun s => s.pc == .byState && s.st == .finished) (fun _ s' => s'.pc == .idle (some .done))
  | .st .error =>
    cStep v (fun s => s.pc == .byState && s.st == .error) (fun _ s' => s'.pc == .idle (some .err))
  | .tryRecv r =>
    cStep v (fun s => s.pc == .tryRecv && recvMatches s.chan r) (fun _ s' => r != .empty || s'.pc == .chkQueue)
  | .qlen b =>
    cStep v (fun s => s.pc == .chkQueue && decide (s.queue.length < 4) == b)
      (fun _ s' => if b then s'.pc == .source else s'.pc == .recvReading)
  | .push q => do
    let v1 ← cStep v (fun s => s.pc == .source) (fun _ s' => s'.pc == .push q)
    let v2 ← cStep v1 (fun _ => true) (fun s s' => s'.pc == .spawnChk && s'.queue == s.queue ++ [q])
    pure { v2 with pushed := true }
  | .ldActive _ => .ok v
  | .nop => .ok v
  | .spawned => .error "spawn outside a spawn check"
  | .spawn _ q d => onSpawn v (fun s => s.queue.length == q) d
  | .spawnAtLoad a d => onSpawn { v with nEarly := v.nEarly + 1 } (fun s => s.active == a) d
  | .spawnAtLen q d => onSpawn v (fun s => s.queue.length == q) d
  | .src .more =>
    if v.pushed then
      if v.path.sys.pc == .top then .ok { v with pushed := false }
      else .error "after a push the source call returned `more`, the model goes on to the end of the source"
    else .error "source call without push outside a stutter iteration"
  | .src .done => do
    let v1 ← cStep v (fun s => s.pc == .source) (fun _ s' => s'.pc == .top && s'.st == .draining)
    pure { v1 with pushed := false }
  | .src .err => do
    let v1 ← cStep v (fun s => s.pc == .source) (fun _ s' => s'.pc == .top && s'.st == .error && s'.errStored)
    pure { v1 with pushed := false }
  | .recv r =>
    cStep v (fun s => (s.pc == .recvReading || s.pc == .recvDraining) && r != .empty && recvMatches s.chan r)
      (fun _ _ => true)
where
  onSpawn (v : VS cfg) (pre : Sys → Bool) (d : Bool) : R cfg := do
    let v1 ← cStep v (fun s => s.pc == .spawnChk && pre s) (fun s s' => (s'.ws.length == s.ws.length + 1) == d)
    if d then pure { v1 with perm := v1.perm ++ [v1.perm.length], blocked := v1.blocked ++ [false] }
    else pure v1

/-- check-only events of a stutter iteration: the model stays at `top` -/
def obsGood (s : Sys) (e : CEv) : Bool :=
  s.pc == .top &&
  match e with
  | .top none => !s.ooo.contains s.nextReturn
  | .err false => !s.errStored
  | .st .reading => s.st == .reading
  | .tryRecv .empty => s.chan.isEmpty
  | .qlen true => decide (s.queue.length < 4)
  | .src .more => true
  | _ => false

def onObs {cfg : Cfg} (v : VS cfg) (e : CEv) : R cfg :=
  if obsGood v.path.sys e then .ok { v with nObs := v.nObs + 1 }
  else .error "observation of a stutter iteration differs from the model state"

def swapPerm (perm : List Nat) (i i2 : Nat) : List Nat :=
  (perm.set i (perm.getD i2 0)).set i2 (perm.getD i 0)

/-- a real worker that is blocked in `wait` while its model worker has already been woken -/
def findSwap {cfg : Cfg} (v : VS cfg) : Option Nat :=
  (List.range v.perm.length).find? fun i2 =>
    v.blocked.getD i2 false && v.path.sys.ws[v.perm.getD i2 0]? == some .steal

/-- real worker `i` makes a steal attempt: if the model has it in `waiting`, let it take over the
    identity of a model worker that has been woken but is really still blocked -/
def ensureSteal {cfg : Cfg} (v : VS cfg) (i : Nat) : VS cfg :=
  if v.path.sys.ws[v.perm.getD i 0]? == some .waiting then
    match findSwap v with
    | some i2 => { v with perm := swapPerm v.perm i i2, nSwap := v.nSwap + 1 }
    | none => v
  else v

def setBlocked {cfg : Cfg} (v : VS cfg) (i : Nat) (b : Bool) : VS cfg := { v with blocked := v.blocked.set i b }

def onW {cfg : Cfg} (v : VS cfg) (i : Nat) (e : WEv) : R cfg :=
  if i ≥ v.perm.length then .error "unknown worker" else
  match e with
  | .start =>
    if v.path.sys.ws[v.perm.getD i 0]? == some .chkShutdown then .ok v else .error "a new worker starts at chkShutdown"
  | .sd b => wStep v (v.perm.getD i 0) (· == .chkShutdown) (fun w' => (w' == .exited) == b)
  | .pop q => let v := ensureSteal v i; wStep v (v.perm.getD i 0) (· == .steal) (· == .got q)
  | .closed => let v := ensureSteal v i; wStep v (v.perm.getD i 0) (· == .steal) (· == .exited)
  | .wait =>
    let v := ensureSteal v i
    let j := v.perm.getD i 0
    match v.path.sys.ws[j]? with
    | some .steal =>
      if v.path.sys.closed then .ok { setBlocked v i true with nDropWin := v.nDropWin + 1 } -- between the halves of `Drop`
      else (wStep v j (· == .steal) (· == .waiting)).map fun v => setBlocked v i true
    | some .waiting => .ok { setBlocked v i true with nPhantom := v.nPhantom + 1 }  -- woken for an item that was gone
    | w => .error s!"model worker {j} is at {repr w}"
  | .woke => .ok (setBlocked v i false)
  | .inc => wStep v (v.perm.getD i 0) (fun w => match w with | .got _ => true | _ => false) (fun _ => true)
  | .ok q => wStep v (v.perm.getD i 0) (· == .work q) (· == .send q)
  | .fail q => wStep v (v.perm.getD i 0) (· == .work q) (· == .failDecr)
  | .sent q _ => wStep v (v.perm.getD i 0) (· == .send q) (· == .decr)
  | .dec => wStep v (v.perm.getD i 0) (fun w => w == .decr || w == .failDecr) (fun _ => true)
  | .setErr => wStep v (v.perm.getD i 0) (· == .failSet) (· == .failWake)
  | .sentWake => wStep v (v.perm.getD i 0) (· == .failWake) (· == .exited)
  | .exit =>
    let j := v.perm.getD i 0
    match v.path.sys.ws[j]? with
    | some .exited => .ok v
    | some .chkShutdown => wStep v j (· == .chkShutdown) (· == .exited)   -- return after a failed send
    | w => .error s!"thread returns while model worker {j} is at {repr w}"

def pathStep {cfg : Cfg} (v : VS cfg) (l : Label) : R cfg :=
  match v.path.step l with
  | some p => .ok { v with path := p }
  | none => .error "step not enabled"

def isFinal : CPc → Bool
  | .idle (some .done) | .idle (some .err) => true
  | _ => false

def onEv {cfg : Cfg} (v : VS cfg) : Ev → R cfg
  | .call =>
    if v.inCall then .error "call inside a call"
    else if isFinal v.path.sys.pc then .ok { v with post := true, inCall := true, nPost := v.nPost + 1 }
    else (pathStep v .call).map fun v' => { v' with inCall := true }
  | .drop => if v.inCall then .error "drop inside a call" else pathStep v .drop
  | .ret r =>
    if !v.inCall then .error "return without a call"
    else if v.path.sys.pc == .idle (some r) then .ok { v with post := false, inCall := false }
    else .error "the call returned something else than the model"
  | .c e => if v.post then .ok v else onC v e
  | .obs e => if v.post then .ok v else onObs v e
  | .w i e => onW v i e

/-- final agreement: the reader has been dropped and every worker thread has returned -/
def finalOk (s : Sys) : Bool := s.pc == .dropped && s.ws.all (· == .exited)

def replayFrom {cfg : Cfg} (v : VS cfg) (k : Nat) : List Ev → Except (Nat × String) (VS cfg)
  | [] => .ok v
  | e :: r =>
    match onEv v e with
    | .ok v' => replayFrom v' (k + 1) r
    | .error m => .error (k, s!"{m}; model: {showSys v.path.sys}")

def replay (cfg : Cfg) (evs : List Ev) : Except (Nat × String) (VS cfg) :=
  match replayFrom (VS.start cfg) 0 (prepare evs) with
  | .ok v =>
    if finalOk v.path.sys then .ok v
    else .error (evs.length, s!"final state: not dropped or a worker has not exited; model: {showSys v.path.sys}")
  | .error e => .error e

end LzmaVerif.MT.Trace
