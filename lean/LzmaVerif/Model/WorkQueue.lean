/- Reduced model of work_queue.rs: one producer (pushes `n` items, then closes), `k` workers.
    `fixed = true` models the repaired close() in the exact source order
      lock -> store closed -> unlock -> notify_all        (closeOps of the source translator)
    as four separate producer steps; `fixed = false` models the pinned close()
      store closed -> notify_all                          (mutex never taken).
    condvar.wait: `toWait -> waiting` atomically releases the mutex and joins the wait set;
    a notified worker (`woken`) has to re-acquire the mutex before it continues. -/
namespace LzmaVerif.WorkQueue

inductive WPc where
  | idle       -- about to lock
  | locked     -- holds lock, about to pop
  | check      -- holds lock, queue was empty, about to load `closed`
  | toWait     -- holds lock, saw closed = false, about to wait
  | waiting    -- in condvar wait set
  | woken      -- notified, about to re-lock
  | work       -- has an item
  | exited
deriving DecidableEq, Repr

inductive PPc where
  | pushLock (left : Nat)      -- about to lock for a push; `left` pushes remain (>0)
  | pushDo (left : Nat)        -- holds lock; push + unlock
  | pushNotify (left : Nat)    -- notify_one
  | closeLock                  -- fixed only: about to lock the queue mutex
  | closeStore                 -- about to store closed := true (fixed: holding the mutex)
  | closeUnlock                -- fixed only: holds the mutex, about to drop the guard
  | closeNotify                -- about to notify_all (not holding the mutex)
  | done
deriving DecidableEq, Repr

inductive Owner where
  | none | prod | worker (i : Nat)
deriving DecidableEq, Repr

structure Sys where
  fixed : Bool
  q : Nat
  closed : Bool
  lock : Owner
  ws : List WPc
  p : PPc
deriving Repr

inductive Tid where
  | prod | worker (i : Nat)
deriving DecidableEq, Repr

def afterPush (left : Nat) : PPc :=
  if left = 0 then PPc.done else PPc.pushLock left

def startClose (fixed : Bool) : PPc := if fixed then .closeLock else .closeStore

def nextAfterNotify (fixed : Bool) (left : Nat) : PPc :=
  if left = 0 then startClose fixed else .pushLock left

/-- wake the first waiting worker (the model is deterministic in whom notify_one wakes;
    nondeterminism is recovered by the scheduler being arbitrary over worker order) -/
def wakeOne : List WPc → List WPc
  | [] => []
  | .waiting :: r => .woken :: r
  | w :: r => w :: wakeOne r

def wakeAll (ws : List WPc) : List WPc := ws.map fun w => if w = .waiting then .woken else w

def step (s : Sys) : Tid → Option Sys
  | .prod =>
    match s.p with
    | .pushLock l => if s.lock = .none then some { s with lock := .prod, p := .pushDo l } else none
    | .pushDo l => some { s with q := s.q + 1, lock := .none, p := .pushNotify (l - 1) }
    | .pushNotify l => some { s with ws := wakeOne s.ws, p := nextAfterNotify s.fixed l }
    | .closeLock => if s.lock = .none then some { s with lock := .prod, p := .closeStore } else none
    | .closeStore =>
      some { s with closed := true, p := if s.fixed then .closeUnlock else .closeNotify }
    | .closeUnlock => some { s with lock := .none, p := .closeNotify }
    | .closeNotify => some { s with ws := wakeAll s.ws, p := .done }
    | .done => none
  | .worker i =>
    match s.ws[i]? with
    | none => none
    | some pc =>
      match pc with
      | .idle | .woken =>
        if s.lock = .none then some { s with lock := .worker i, ws := s.ws.set i .locked } else none
      | .locked =>
        if s.q > 0 then some { s with q := s.q - 1, lock := .none, ws := s.ws.set i .work }
        else some { s with ws := s.ws.set i .check }
      | .check =>
        if s.closed then some { s with lock := .none, ws := s.ws.set i .exited }
        else some { s with ws := s.ws.set i .toWait }
      | .toWait => some { s with lock := .none, ws := s.ws.set i .waiting }
      | .waiting => none
      | .work => some { s with ws := s.ws.set i .idle }
      | .exited => none

def init (fixed : Bool) (n k : Nat) : Sys :=
  { fixed, q := 0, closed := false, lock := .none, ws := List.replicate k .idle,
    p := if n = 0 then startClose fixed else .pushLock n }

def runSched (s : Sys) : List Tid → Option Sys
  | [] => some s
  | t :: ts => (step s t).bind fun s' => runSched s' ts

def terminal (s : Sys) : Bool :=
  (step s .prod).isNone && (List.range s.ws.length).all fun i => (step s (.worker i)).isNone

/-- Lost wake-up in the pinned close(): worker 0 locks, sees empty queue, reads closed = false;
    the producer stores closed and notifies (nobody waits yet); the worker waits forever. -/
theorem buggy_lost_wakeup :
    ∃ sched s, runSched (init false 0 1) sched = some s ∧ terminal s = true ∧ s.ws = [.waiting] := by
  refine ⟨[.worker 0, .worker 0, .worker 0, .prod, .prod, .worker 0], ?_⟩
  exact ⟨_, rfl, by decide, by decide⟩

end LzmaVerif.WorkQueue

