/-
  Model of `src/lzip/writer.rs` (`LZIPWriter::new`, `write`, `start_new_member`, `finish_current_member`,
  `finish`) in FAST mode, composed with the fast-encoder model: ONE function from options and data to the bytes
  of the `.lz` file.

    * `LZIPWriter::new`: lc/lp/pb forced to 3/0/2, `dict_size.clamp(MIN_DICT_SIZE, MAX_DICT_SIZE)`,
      `member_size.max(dict_size)`;
    * `write` / `finish`: the lazy member splitter (`Model/Split.lean`, `lzipMembers`: a full member is closed when
      the next byte arrives; an empty input still yields one empty member);
    * `start_new_member`: magic, version, `encode_dict_size(dict_size)` (`Model/Lzip.lean`), then a FRESH
      `LZMAWriter::new_no_header(.., use_end_marker = true)` (which validates the options: `nice_len`);
    * `finish_current_member`: `lzma_writer.finish()` (data, end marker, `rc.finish`), CRC32 of the member's data,
      data size, member size = 6 + compressed + 20 (`Model/LzipFile.lean`, `memberBytes`).

  Imports Model files only (linked into `lzdriver`).
-/
import LzmaVerif.Model.LzmaWriter
import LzmaVerif.Model.LzipFile
import LzmaVerif.Model.Split

namespace LzmaVerif.LzipWriter
open LzmaVerif Mf Lzma EncFast LzmaWriter

/-- `LZIPOptions` in fast mode: `lzma_options.{dict_size, nice_len, depth_limit, mf}`, `member_size` -/
structure LzipOpts where
  dict : Nat
  nice : Nat
  depth : Nat := 0
  /-- `member_size: Option<NonZeroU64>` -/
  memberSize : Option Nat := none
  bt4 : Bool := false
  deriving Repr

/-- `dict_size.clamp(MIN_DICT_SIZE, MAX_DICT_SIZE)` -/
def effDict (o : LzipOpts) : Nat := max Lzip.MIN_DICT_SIZE (min o.dict Lzip.MAX_DICT_SIZE)

/-- `member_size.get().max(dict_size)` -/
def effMember (o : LzipOpts) : Option Nat := o.memberSize.map fun m => max m (effDict o)

/-- the options the per-member `LZMAWriter` gets -/
def lzmaOpts (o : LzipOpts) : FastOpts :=
  { dict := effDict o, lc := 3, lp := 0, pb := 2, nice := o.nice, depth := o.depth, bt4 := o.bt4 }

/-- sizes of the members for `n` bytes of input written in one `write` call (any partition gives the same:
    `Split.lzipMembers_partition_independent`) -/
def memberSizes (o : LzipOpts) (n : Nat) : List Nat :=
  match effMember o with
  | none => [n]
  | some lim => Split.lzipMembers lim [n]

/-- consecutive pieces of `d` of the given sizes, starting at `off` -/
def cutAt (d : Array UInt8) : Nat → List Nat → List (Array UInt8)
  | _, [] => []
  | off, n :: ns => d.extract off (off + n) :: cutAt d (off + n) ns

def chunks (o : LzipOpts) (d : Array UInt8) : List (Array UInt8) := cutAt d 0 (memberSizes o d.size)

/-- the dictionary buffer `LZIPReader` gives the member's `LZMAReader` (`Model/LzipFile.lean`) -/
def memberDictBuf (db : Nat) : Nat := lzmaReaderDictBuf ((Lzip.decodeDict db).getD 0) none 0

def bytesOf (d : Array UInt8) : List Nat := d.toList.map (·.toNat)

/-- the raw LZMA stream of one member: the fast parse of the member's data, the end marker, `rc.finish` -/
def memberLzma (K : MfConsts) (o : LzipOpts) (db : Nat) (chunk : Array UInt8) : Option (List Nat) :=
  rawBytes LzipFile.lzipParams (memberDictBuf db) true chunk.size (fastParseOf K (lzmaOpts o) chunk)

/-- one member: header, stream, trailer -/
def memberFast (K : MfConsts) (o : LzipOpts) (db : Nat) (chunk : Array UInt8) : Option (List Nat) :=
  (memberLzma K o db chunk).map fun lzma => LzipFile.memberBytes db lzma (bytesOf chunk)

/-- the members one after the other -/
def membersFast (K : MfConsts) (o : LzipOpts) (db : Nat) : List (Array UInt8) → Option (List Nat)
  | [] => some []
  | c :: cs =>
    match memberFast K o db c, membersFast K o db cs with
    | some a, some b => some (a ++ b)
    | _, _ => none

/-- `LZIPWriter::new(out, options)`, `write_all(data)`, `finish()`.
    `none`: the writer reports an error (`nice_len` outside 8..=273, refused by `LZMAWriter::new` when the first
    member is started) - or, model only, a parse cannot be encoded. -/
def lzipFastBytes (K : MfConsts) (o : LzipOpts) (d : Array UInt8) : Option (List Nat) :=
  if !(lzmaOpts o).valid then none
  else
    match Lzip.encodeDict (effDict o) with
    | none => none
    | some db => membersFast K o db (chunks o d)

end LzmaVerif.LzipWriter
