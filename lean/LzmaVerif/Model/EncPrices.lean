/-
  Executable model of the PRICE machinery of the LZMA encoder:
    src/enc/range_enc.rs   `PRICES`, `get_bit_price`, `get_bit_tree_price`, `get_reverse_bit_tree_price`,
                           `get_direct_bits_price`
    src/enc/encoder.rs     `get_any_match_price`, `get_normal_match_price`, `get_any_rep_price`,
                           `get_short_rep_price`, `get_long_rep_price`, `get_long_rep_and_len_price`,
                           `get_match_and_len_price`, `update_dist_prices`, `update_align_prices`, `update_prices`,
                           `LiteralEncoder::get_price`, `LiteralSubEncoder::get_normal_price` / `get_matched_price`,
                           `LengthEncoder::{new, reset, get_price, update_prices, update_prices_with_state}` and the
                           counters decremented by `encode_match` / `LengthEncoder::encode`
  over the flat probability array of `Model/Lzma.lean` (`Rc.Probs`, offsets `oIsMatch` …).
  Imports Model / Generated files only.

  Integer arithmetic.  Prices are `u32` in the Rust.  Every price is a sum of at most a few dozen table
  entries (each ≤ 0x80) on top of `opts[cur].price < 2^30`, and the parser's array has 4096 entries, so no
  sum reaches 2^32: the model uses `Nat` without wrapping (an explicit excluded range; debug builds would
  panic and release builds wrap only beyond it).  The `i32` counters are `Int`; `LengthEncoder::encode`
  uses `wrapping_sub(1)`, which is modelled (`wsub1`); `dist_price_count -= 1` / `align_price_count -= 1`
  would need 2^31 matches without an intervening `update_prices` to overflow (excluded, stated here).
  Table reads outside a table give 0 here where the Rust would panic (`getD`); every read the parser makes
  is inside (lengths ≤ nice_len, slots < dist_slot_prices_size), which is a separate obligation.
-/
import LzmaVerif.Model.Lzma
import LzmaVerif.Generated.PriceConsts

namespace LzmaVerif.EncPrices
open LzmaVerif Lzma Rc

/-- `PRICES` of range_enc.rs (regenerated from the source) -/
def PRICES : Array Nat := Consts.PRICES.toArray

/-- `RangeEncoder::get_bit_price(prob, bit)`:
    `PRICES[(prob ^ ((-bit) as u32 & (BIT_MODEL_TOTAL - 1))) >> MOVE_REDUCING_BITS]` -/
@[inline] def bitPrice (prob : Nat) (bit : Bool) : Nat :=
  PRICES.getD ((prob ^^^ (if bit then Consts.BIT_MODEL_TOTAL - 1 else 0)) >>> Consts.MOVE_REDUCING_BITS) 0

/-- `get_direct_bits_price(count)` -/
@[inline] def directBitsPrice (count : Nat) : Nat := count <<< Consts.BIT_PRICE_SHIFT_BITS

/-- loop of `get_bit_tree_price`: `bit = symbol & 1; symbol >>= 1; price += get_bit_price(probs[symbol], bit)`
    until `symbol == 1`; for a table of `2^n` entries and `symbol < 2^n` that is exactly `n` rounds -/
def bitTreePriceAux (ps : Probs) (base : Nat) : Nat → Nat → Nat → Nat
  | 0, _, price => price
  | n + 1, symbol, price =>
    let bit := symbol % 2 == 1
    let symbol := symbol / 2
    bitTreePriceAux ps base n symbol (price + bitPrice (ps.get (base + symbol)) bit)

/-- `get_bit_tree_price(probs, symbol)` for the table of `2^n` entries at `base` (`symbol < 2^n`) -/
def bitTreePrice (ps : Probs) (base n symbol : Nat) : Nat :=
  bitTreePriceAux ps base n (symbol ||| 2 ^ n) 0

/-- loop of `get_reverse_bit_tree_price` -/
def revTreePriceAux (ps : Probs) (base : Nat) : Nat → Nat → Nat → Nat → Nat
  | 0, _, _, price => price
  | n + 1, symbol, index, price =>
    let bit := symbol % 2
    revTreePriceAux ps base n (symbol / 2) (2 * index + bit) (price + bitPrice (ps.get (base + index)) (bit == 1))

/-- `get_reverse_bit_tree_price(probs, symbol)` for the table of `2^n` entries at `base` (`symbol < 2^n`) -/
def revTreePrice (ps : Probs) (base n symbol : Nat) : Nat :=
  revTreePriceAux ps base n (symbol ||| 2 ^ n) 1 0

/-! ## Literals -/

/-- `LiteralSubEncoder::get_normal_price`: `symbol |= 0x100; loop { idx = symbol >> 8; bit = (symbol >> 7) & 1; …;
    symbol <<= 1; if symbol >= 0x10000 break }` — 8 rounds -/
def litNormalPriceAux (ps : Probs) (base : Nat) : Nat → Nat → Nat → Nat
  | 0, _, price => price
  | n + 1, symbol, price =>
    let idx := symbol >>> 8
    let bit := (symbol >>> 7) % 2 == 1
    litNormalPriceAux ps base n (symbol <<< 1) (price + bitPrice (ps.get (base + idx)) bit)

def litNormalPrice (ps : Probs) (base symbol : Nat) : Nat :=
  litNormalPriceAux ps base 8 (symbol ||| 0x100) 0

/-- `LiteralSubEncoder::get_matched_price`; `offset` is 0x100 or 0, so `offset &= !(match_byte ^ symbol)` only
    looks at bit 8 -/
def litMatchedPriceAux (ps : Probs) (base : Nat) : Nat → Nat → Nat → Nat → Nat → Nat
  | 0, _, _, _, price => price
  | n + 1, symbol, matchByte, offset, price =>
    let matchByte := matchByte <<< 1
    let matchBit := matchByte &&& offset
    let idx := offset + matchBit + (symbol >>> 8)
    let bit := (symbol >>> 7) % 2 == 1
    let price := price + bitPrice (ps.get (base + idx)) bit
    let symbol := symbol <<< 1
    let offset := offset &&& (0x100 ^^^ ((matchByte ^^^ symbol) &&& 0x100))
    litMatchedPriceAux ps base n symbol matchByte offset price

def litMatchedPrice (ps : Probs) (base symbol matchByte : Nat) : Nat :=
  litMatchedPriceAux ps base 8 (symbol ||| 0x100) matchByte 0x100 0

/-- `LiteralEncoder::get_price(encoder, cur_byte, match_byte, prev_byte, pos, state)` -/
def litPrice (pr : Params) (ps : Probs) (curByte matchByte prevByte pos state : Nat) : Nat :=
  let price := bitPrice (ps.get (oIsMatch + state * 16 + pos % 2 ^ pr.pb)) false
  let base := oLiteral + 0x300 * litIndex pr prevByte pos
  price + (if stIsLiteral state then litNormalPrice ps base curByte else litMatchedPrice ps base curByte matchByte)

/-! ## Symbol-kind prices -/

/-- `get_any_match_price(state, pos_state)` -/
def anyMatchPrice (ps : Probs) (state posState : Nat) : Nat :=
  bitPrice (ps.get (oIsMatch + state * 16 + posState)) true

/-- `get_normal_match_price(any_match_price, state)` -/
def normalMatchPrice (ps : Probs) (anyMatch state : Nat) : Nat :=
  anyMatch + bitPrice (ps.get (oIsRep + state)) false

/-- `get_any_rep_price(any_match_price, state)` -/
def anyRepPrice (ps : Probs) (anyMatch state : Nat) : Nat :=
  anyMatch + bitPrice (ps.get (oIsRep + state)) true

/-- `get_short_rep_price(any_rep_price, state, pos_state)` -/
def shortRepPrice (ps : Probs) (anyRep state posState : Nat) : Nat :=
  anyRep + bitPrice (ps.get (oIsRep0 + state)) false + bitPrice (ps.get (oIsRep0Long + state * 16 + posState)) false

/-- `get_long_rep_price(any_rep_price, rep, state, pos_state)` -/
def longRepPrice (ps : Probs) (anyRep rep state posState : Nat) : Nat :=
  if rep = 0 then
    anyRep + (bitPrice (ps.get (oIsRep0 + state)) false + bitPrice (ps.get (oIsRep0Long + state * 16 + posState)) true)
  else
    let price := anyRep + bitPrice (ps.get (oIsRep0 + state)) true
    if rep = 1 then price + bitPrice (ps.get (oIsRep1 + state)) false
    else price + (bitPrice (ps.get (oIsRep1 + state)) true + bitPrice (ps.get (oIsRep2 + state)) (rep - 2 == 1))

/-! ## Length price tables (`LengthEncoder`) -/

structure LenPrices where
  /-- `counters[pos_state]` (`i32`) -/
  counters : Array Int
  /-- `prices[pos_state][len - MATCH_LEN_MIN]` -/
  prices : Array (Array Nat)
  deriving Repr

/-- `LengthEncoder::new(pb, nice_len)` + `reset()` -/
def LenPrices.init (pb nice : Nat) : LenPrices :=
  let lenSymbols := max (nice - Consts.MATCH_LEN_MIN + 1) (Consts.LOW_SYMBOLS + Consts.MID_SYMBOLS)
  { counters := Array.replicate (2 ^ pb) 0
    prices := Array.replicate (2 ^ pb) (Array.replicate lenSymbols 0) }

/-- `LengthEncoder::get_price(len, pos_state)` -/
@[inline] def LenPrices.get (lp : LenPrices) (len posState : Nat) : Nat :=
  (lp.prices.getD posState #[]).getD (len - Consts.MATCH_LEN_MIN) 0

/-- `update_prices_with_state(pos_state)` for the length coder at `base` (choice 0,1; low +2; mid +130; high +258) -/
def lenPricesRow (ps : Probs) (base posState n : Nat) : Array Nat :=
  let c00 := bitPrice (ps.get base) false
  let c01 := bitPrice (ps.get base) true
  let c10 := bitPrice (ps.get (base + 1)) false
  let c11 := bitPrice (ps.get (base + 1)) true
  Array.ofFn (n := n) fun i =>
    if i.val < Consts.LOW_SYMBOLS then c00 + bitTreePrice ps (base + 2 + posState * 8) 3 i.val
    else if i.val < Consts.LOW_SYMBOLS + Consts.MID_SYMBOLS then
      c01 + c10 + bitTreePrice ps (base + 130 + posState * 8) 3 (i.val - Consts.LOW_SYMBOLS)
    else c01 + c11 + bitTreePrice ps (base + 258) 8 (i.val - (Consts.LOW_SYMBOLS + Consts.MID_SYMBOLS))

/-- `LengthEncoder::update_prices()`: `for pos_state in 0..counters.len() { if counters[pos_state] <= 0 { … } }` -/
def LenPrices.updateAux (ps : Probs) (base : Nat) : Nat → Nat → LenPrices → LenPrices
  | 0, _, lp => lp
  | k + 1, posState, lp =>
    let lp :=
      if lp.counters.getD posState 0 ≤ 0 then
        { counters := lp.counters.setIfInBounds posState (Int.ofNat Consts.PRICE_UPDATE_INTERVAL)
          prices := lp.prices.setIfInBounds posState (lenPricesRow ps base posState (lp.prices.getD posState #[]).size) }
      else lp
    LenPrices.updateAux ps base k (posState + 1) lp

def LenPrices.update (ps : Probs) (base : Nat) (lp : LenPrices) : LenPrices :=
  LenPrices.updateAux ps base lp.counters.size 0 lp

/-- `i32::wrapping_sub(1)` -/
@[inline] def wsub1 (c : Int) : Int := if c = -2147483648 then 2147483647 else c - 1

/-- the counter part of `LengthEncoder::encode(len, pos_state, rc)` -/
def LenPrices.encoded (lp : LenPrices) (posState : Nat) : LenPrices :=
  { lp with counters := lp.counters.modify posState wsub1 }

/-! ## Distance / align price tables (`LZMAEncData`) -/

structure PriceSt where
  distPriceCount : Int
  alignPriceCount : Int
  /-- `dist_slot_prices[dist_state][dist_slot]`, `dist_slot_prices_size` columns -/
  distSlotPrices : Array (Array Nat)
  /-- `full_dist_prices[dist_state][dist]` -/
  fullDistPrices : Array (Array Nat)
  alignPrices : Array Nat
  matchLen : LenPrices
  repLen : LenPrices
  deriving Repr

/-- `LZMAEncoder::new` + `reset`: `dist_slot_prices_size = get_dist_slot(dict_size - 1) + 1` -/
def PriceSt.init (pb dict nice : Nat) : PriceSt :=
  { distPriceCount := 0
    alignPriceCount := 0
    distSlotPrices := Array.replicate Consts.DIST_STATES (Array.replicate (distSlot (dict - 1) + 1) 0)
    fullDistPrices := Array.replicate Consts.DIST_STATES (Array.replicate Consts.FULL_DISTANCES 0)
    alignPrices := Array.replicate Consts.ALIGN_SIZE 0
    matchLen := LenPrices.init pb nice
    repLen := LenPrices.init pb nice }

/-- first two loops of `update_dist_prices` for one `dist_state`: bit-tree price of every slot, plus the
    direct bits of the slots from `DIST_MODEL_END` on -/
def distSlotRow (ps : Probs) (distState size : Nat) : Array Nat :=
  Array.ofFn (n := size) fun slot =>
    let p := bitTreePrice ps (oDistSlots + distState * 64) 6 slot.val
    if slot.val ≥ Consts.DIST_MODEL_END then p + directBitsPrice (slot.val / 2 - 1 - Consts.ALIGN_BITS) else p

/-- second half of `update_dist_prices`: `let mut dist = DIST_MODEL_START; for dist_slot in DIST_MODEL_START..DIST_MODEL_END
    { …; let limit = get_dist_special(dist_slot - DIST_MODEL_START).len(); for _i in 0..limit { …; dist += 1 } }`:
    entry `k` is `(dist_slot, reverse-bit-tree price)` of the distance `DIST_MODEL_START + k` -/
def fullDistExtras (ps : Probs) : Array (Nat × Nat) :=
  (List.range (Consts.DIST_MODEL_END - Consts.DIST_MODEL_START)).foldl (init := #[]) fun acc k =>
    let slot := Consts.DIST_MODEL_START + k
    let footer := slot / 2 - 1
    let base := (2 ||| (slot % 2)) <<< footer
    let limit := Consts.DIST_SPECIAL_END.getD k 0 - Consts.DIST_SPECIAL_INDEX.getD k 0
    (List.range limit).foldl (init := acc) fun acc _ =>
      let dist := Consts.DIST_MODEL_START + acc.size
      acc.push (slot, revTreePrice ps (oDistSpecial + distSpecialIndex k) (Nat.log2 limit) (dist - base))

/-- `update_dist_prices()` -/
def PriceSt.updateDist (ps : Probs) (pt : PriceSt) : PriceSt :=
  let size := (pt.distSlotPrices.getD 0 #[]).size
  let dsp : Array (Array Nat) := Array.ofFn (n := pt.distSlotPrices.size) fun ds => distSlotRow ps ds.val size
  let extra := fullDistExtras ps
  let full : Array (Array Nat) := Array.ofFn (n := pt.fullDistPrices.size) fun ds =>
    let row := dsp.getD ds.val #[]
    Array.ofFn (n := Consts.FULL_DISTANCES) fun dist =>
      if dist.val < Consts.DIST_MODEL_START then row.getD dist.val 0
      else
        let e := extra.getD (dist.val - Consts.DIST_MODEL_START) (0, 0)
        row.getD e.1 0 + e.2
  { pt with distPriceCount := Int.ofNat Consts.DIST_PRICE_UPDATE_INTERVAL, distSlotPrices := dsp, fullDistPrices := full }

/-- `update_align_prices()` -/
def PriceSt.updateAlign (ps : Probs) (pt : PriceSt) : PriceSt :=
  { pt with
    alignPriceCount := Int.ofNat Consts.ALIGN_PRICE_UPDATE_INTERVAL
    alignPrices := Array.ofFn (n := Consts.ALIGN_SIZE) fun i => revTreePrice ps oDistAlign Consts.ALIGN_BITS i.val }

/-- `update_prices()` -/
def PriceSt.update (ps : Probs) (pt : PriceSt) : PriceSt :=
  let pt := if pt.distPriceCount ≤ 0 then pt.updateDist ps else pt
  let pt := if pt.alignPriceCount ≤ 0 then pt.updateAlign ps else pt
  { pt with matchLen := pt.matchLen.update ps oMatchLen, repLen := pt.repLen.update ps oRepLen }

/-- `get_long_rep_and_len_price(rep, len, state, pos_state)` -/
def longRepAndLenPrice (ps : Probs) (pt : PriceSt) (rep len state posState : Nat) : Nat :=
  let am := anyMatchPrice ps state posState
  let ar := anyRepPrice ps am state
  longRepPrice ps ar rep state posState + pt.repLen.get len posState

/-- `get_match_and_len_price(normal_match_price, dist, len, pos_state)` -/
def matchAndLenPrice (pt : PriceSt) (normalMatch dist len posState : Nat) : Nat :=
  let price := normalMatch + pt.matchLen.get len posState
  let ds := distState len
  if dist < Consts.FULL_DISTANCES then price + (pt.fullDistPrices.getD ds #[]).getD dist 0
  else price + ((pt.distSlotPrices.getD ds #[]).getD (distSlot dist) 0 + pt.alignPrices.getD (dist &&& Consts.ALIGN_MASK) 0)

/-- the counter part of `encode_match(dist, len, pos_state, rc)`: `match_len_encoder.encode`,
    `align_price_count -= 1` for slots from `DIST_MODEL_END` on, `dist_price_count -= 1` -/
def PriceSt.encodedMatch (pt : PriceSt) (dist posState : Nat) : PriceSt :=
  { pt with
    matchLen := pt.matchLen.encoded posState
    alignPriceCount := if distSlot dist ≥ Consts.DIST_MODEL_END then pt.alignPriceCount - 1 else pt.alignPriceCount
    distPriceCount := pt.distPriceCount - 1 }

/-- the counter part of `encode_rep_match(rep, len, pos_state, rc)` for `len > 1`: `rep_len_encoder.encode` -/
def PriceSt.encodedRep (pt : PriceSt) (posState : Nat) : PriceSt :=
  { pt with repLen := pt.repLen.encoded posState }

end LzmaVerif.EncPrices
