import LzmaVerif.Model.Checks
import LzmaVerif.Model.Lzip
import LzmaVerif.Model.LzmaStream
/-
Model of the LZIP container: `src/lzip/reader.rs` (start_next_member, finish_current_member, read)
with `src/lzip.rs` (LZIPHeader, LZIPTrailer), and the member layout of `src/lzip/writer.rs`.
Whole-file view.  Core Lean only.
-/
namespace LzmaVerif.LzipFile
open LzmaVerif Lzma Checks

abbrev Err := Lzma.Err

def lzipParams : Params := { lc := 3, lp := 0, pb := 2 }

structure Member where
  dictByte : Nat
  lzma : List Nat
  data : List Nat

inductive Out where
  | ok (data : List Nat) (consumed : Nat) (members : List Member)   -- most recent first
  | err (e : Err)
  | capped

/-- the member loop of `LZIPReader::read`; `first` = no member has been started yet -/
def members : Nat → Bool → List Nat → Nat → List Nat → List Member → Nat → Out
  | 0, _, _, _, _, _, _ => .capped
  | fuel+1, first, inp, total, acc, n, cap =>
    -- `read_up_to(&mut reader, &mut magic)`
    let magic := inp.take 4
    let inp1 := inp.drop 4
    if magic.isEmpty then .ok acc (total - inp1.length) n
    else if magic ≠ Consts.LZIP_MAGIC then
      (if first then .err .invalidData
       -- the input ends inside the magic bytes of a further member (`LZIP_MAGIC.starts_with(&magic[..magic_len])`)
       else if magic.isPrefixOf Consts.LZIP_MAGIC then .err .eof
       else .ok acc (total - inp1.length) n)
    else
      match inp1 with
      | [] => .err .eof
      | ver :: inp2 =>
        if ver ≠ Consts.LZIP_VERSION then .err .invalidData else
        match inp2 with
        | [] => .err .eof
        | db :: inp3 =>
          match Lzip.decodeDict db with
          | none => .err .invalidData
          | some dict =>
            let dictBuf := lzmaReaderDictBuf dict none 0
            match decodeRaw lzipParams dictBuf #[] none inp3 (cap - acc.length) with
            | .capped => .capped
            | .err e => .err e
            | .ok out consumed _ =>
              let inp4 := inp3.drop consumed
              if inp4.length < 20 then .err .eof else
              let crc := ofLe (inp4.take 4)
              let dsize := ofLe ((inp4.drop 4).take 8)
              let msize := ofLe ((inp4.drop 12).take 8)
              let data := out.toList
              if crc ≠ crc32 data then .err .invalidData
              else if dsize ≠ data.length then .err .invalidData
              else if msize ≠ 6 + consumed + 20 then .err .invalidData
              else members fuel false (inp4.drop 20) total (acc ++ data)
                ({ dictByte := db, lzma := inp3.take consumed, data } :: n) cap

/-- `LZIPReader::new(inner)` read to the end -/
def decode (inp : List Nat) (cap : Nat) : Out := members (inp.length + 2) true inp inp.length [] [] cap

/-- one member as `LZIPWriter` lays it out, given the raw LZMA stream of `data` -/
def memberBytes (dictByte : Nat) (lzma : List Nat) (data : List Nat) : List Nat :=
  Consts.LZIP_MAGIC ++ [Consts.LZIP_VERSION, dictByte] ++ lzma ++
    le 4 (crc32 data) ++ le 8 data.length ++ le 8 (6 + lzma.length + 20)

/-- the writer model's bytes for decoded members -/
def reassemble (ms : List Member) : List Nat := (ms.map fun m => memberBytes m.dictByte m.lzma m.data).flatten

end LzmaVerif.LzipFile
