import LzmaVerif.Model.Xz
/-!
# A STRICT reader for the .xz file format (interoperability oracle)

`Model/Xz.lean` models the crate's own reader, which is still lax in a few places.  This file defines
`decodeStrict`, a decoder for a file of one or more streams with stream padding (the behaviour of liblzma's
stream decoder with `LZMA_CONCATENATED`) that enforces every MUST rule of xz-file-format-1.x the way liblzma
does.  It re-uses the parsers of `Model/Xz.lean` and adds every rule they skip:

* multibyte integers must be in their canonical (shortest) form — liblzma's `lzma_vli_decode` rejects a
  trailing `0x00` byte; the crate's parsers accept it.  Canonical = "re-encoding reproduces the bytes".
  (Block header: `mbStrict`; Index: the Index field must be byte-for-byte `Xz.indexBytes` of its records,
  which is the unique valid serialisation of a record list: indicator, shortest integers, zero padding to a
  multiple of four, CRC32.)
* Block header: reserved flag bits `0x3C` must be zero; the optional Compressed Size must be non-zero;
  LZMA2 must not appear before the last position of the filter chain.
* Block padding is counted from the start of the BLOCK (the crate counts from the start of the file).
* Index: Unpadded Size ≥ 5; liblzma's `index_hash` limits (stream size and total uncompressed size ≤ 2^63-1,
  Index size ≤ 2^34 = LZMA_BACKWARD_SIZE_MAX).
* Footer: `(Backward Size + 1) * 4` must be the REAL size of the Index field (the crate compares it with the size
  of the canonical re-encoding of the Index).

Rules that the crate's reader enforces itself since the fix of `XZReader` (`finish_block_record`,
`parse_index_and_footer`) and that were added here before: the optional Compressed / Uncompressed Size of the
block header must equal the real sizes; the Index records must equal, in order, (header size + compressed size +
check size, uncompressed size) of the blocks decoded; Backward Size vs Index.  They are kept (redundantly) in
`readBlocksS` so that this file remains a self-contained statement of the format.

Rules that `Model/Xz.lean` has always enforced and that are inherited unchanged: header magic, stream flags
(first byte 0, check id ∈ {0,1,4,10}, anything else rejected), CRC32 of flags / block header / index / footer,
block header size byte, 1..4 filters, filter ids and property sizes (delta 1, BCJ 0 or 4 with aligned start
offset, LZMA2 1 with value ≤ 40), last filter LZMA2, zero header padding, zero block padding, check field
verified, index indicator, number of records = number of blocks, zero index padding, footer flags = header
flags, footer magic, stream padding = zero bytes in a multiple of four, nothing but streams and padding.

Core Lean only.
-/
namespace LzmaVerif.XzStrict
open LzmaVerif Lzma Checks Xz

/-- strict multibyte integer inside a block header: the crate's slice parser plus the canonical-form rule
    (the bytes consumed must be the shortest encoding of the value) -/
def mbStrict (data : List Nat) : Except Xz.Err (Nat × List Nat) :=
  match mbSlice data with
  | .error e => .error e
  | .ok (v, rest) => if data = mb v ++ rest then .ok (v, rest) else .error .invalidData

/-- walk over `n` Filter Flags entries (id, size of properties, properties), checking the integers -/
def skipFilters : Nat → List Nat → Except Xz.Err (List Nat)
  | 0, d => pure d
  | n+1, d => do
    let (_, d) ← mbStrict d
    let (psz, d) ← mbStrict d
    if d.length < psz then throw .invalidData
    skipFilters n (d.drop psz)

/-- The block-header rules the crate's `BlockHeader::parse` does not enforce.  `inp` starts at the Block Header
Size byte (which is non-zero).  Returns the optional Compressed Size and Uncompressed Size fields. -/
def headerStrict (inp : List Nat) : Except Xz.Err (Option Nat × Option Nat) :=
  match inp with
  | [] => throw .eof
  | sz :: inp => do
    let (hd, _) ← takeN ((sz + 1) * 4 - 1) inp
    let flags := hd.getD 0 0
    -- reserved bits 0x3C (liblzma: LZMA_OPTIONS_ERROR)
    if flags / 4 % 16 ≠ 0 then throw .invalidInput
    let data := hd.drop 1
    let (cs, data) ← (if flags / 64 % 2 = 1 then do
        let (v, d) ← mbStrict data
        if v = 0 then throw .invalidData
        pure (some v, d)
      else pure (none, data))
    let (us, data) ← (if flags / 128 % 2 = 1 then do
        let (v, d) ← mbStrict data
        pure (some v, d)
      else pure (none, data))
    let _ ← skipFilters (flags % 4 + 1) data
    pure (cs, us)

def isLzma2 : Filter → Bool
  | .lzma2 _ => true
  | _ => false

/-- an optional size field of the block header agrees with the real size -/
def sizeFieldOk : Option Nat → Nat → Bool
  | none, _ => true
  | some v, actual => v == actual

def ceil4 (n : Nat) : Nat := (n + 3) / 4 * 4

/-- liblzma's limits on a stream (`lzma_index_hash_append` / `index_hash_decode`): Unpadded Size ≥ 5
(`UNPADDED_SIZE_MIN`), the size of the whole stream and its total uncompressed size are valid 63-bit integers
(this also bounds every Unpadded Size by `UNPADDED_SIZE_MAX`), the Index is at most `LZMA_BACKWARD_SIZE_MAX`. -/
def limitsOk (recs : List (Nat × Nat)) (indexSize : Nat) : Bool :=
  recs.all (fun r => decide (5 ≤ r.1)) &&
  decide (12 + (recs.map fun r => ceil4 r.1).sum + indexSize + 12 ≤ 2 ^ 63 - 1) &&
  decide ((recs.map fun r => r.2).sum ≤ 2 ^ 63 - 1) &&
  decide (indexSize ≤ 2 ^ 34)

/-- Blocks, Index and Footer of one stream, then stream padding and the next stream.
`recs` = (Unpadded Size, Uncompressed Size) of the blocks decoded so far in this stream, most recent first. -/
def readBlocksS (total : Nat) :
    Nat → Check → List Nat → List Nat → List Block → List (Nat × Nat) → Nat → Out
  | 0, _, _, _, _, _, _ => .capped
  | fuel+1, chk, inp, acc, blks, recs, cap =>
    match parseBlockHeader inp with
    | .error e => .err e
    | .ok (some h, inp') =>
      match headerStrict inp with
      | .error e => .err e
      | .ok (cs, us) =>
        -- LZMA2 is only allowed as the last filter (`lzma_validate_chain`)
        if h.filters.dropLast.any isLzma2 then .err .invalidInput else
        -- block padding is relative to the start of the block, i.e. to the header size
        match decodeBlockBody chk h h.size inp' cap with
        | .capped => .capped
        | .err e => .err e
        | .ok blk rest =>
          if ¬ sizeFieldOk cs blk.payload.length then .err .invalidData else
          if ¬ sizeFieldOk us blk.data.length then .err .invalidData else
          if acc.length + blk.data.length > cap then .capped else
          readBlocksS total fuel chk rest (acc ++ blk.data) (blk :: blks)
            ((h.size + blk.payload.length + chk.size, blk.data.length) :: recs) cap
    | .ok (none, inp') =>
      match parseIndex inp' with
      | .error e => .err e
      | .ok (irecs, _, inp'') =>
        -- size of the Index field, indicator byte included
        let indexSize := inp.length - inp''.length
        -- canonical form: the field is exactly the serialisation of its records
        if inp.take indexSize ≠ indexBytes irecs then .err .invalidData else
        -- the records describe the blocks that were decoded, in order
        if irecs ≠ recs.reverse then .err .invalidData else
        if ¬ limitsOk irecs indexSize then .err .invalidData else
        match parseFooter inp'' with
        | .error e => .err e
        | .ok (bs, flags, rest) =>
          if flags ≠ [0, chk.toByte] then .err .invalidData else
          if (bs + 1) * 4 ≠ indexSize then .err .invalidData else
          match nextStream (rest.length + 1) rest 0 with
          | .error e => .err e
          | .ok none => .ok acc total blks
          | .ok (some (chk', rest')) => readBlocksS total fuel chk' rest' acc [] [] cap

/-- **Strict decoder** for a whole file: one or more streams, each optionally followed by stream padding.
`.ok data consumed blocks`: the concatenated data of all streams, the number of bytes consumed (always the whole
input), the blocks of the LAST stream (most recent first) — the same convention as `Xz.decode true`. -/
def decodeStrict (inp : List Nat) (cap : Nat) : Out :=
  match parseStreamHeader inp with
  | .error e => .err e
  | .ok (chk, rest) => readBlocksS inp.length (inp.length + 2) chk rest [] [] [] cap

/-! ## Helpers for drivers and tests -/

def _root_.LzmaVerif.Xz.Out.isOk : Out → Bool
  | .ok _ _ _ => true
  | _ => false

/-- `(data, consumed)` of an accepted input -/
def _root_.LzmaVerif.Xz.Out.result? : Out → Option (List Nat × Nat)
  | .ok d n _ => some (d, n)
  | _ => none

/-- the error of a rejected input -/
def _root_.LzmaVerif.Xz.Out.err? : Out → Option Xz.Err
  | .err e => some e
  | _ => none

def _root_.LzmaVerif.Xz.Out.tag : Out → String
  | .ok _ _ _ => "ok"
  | .err e => "err " ++ e.name
  | .capped => "capped"

/-- accept / reject verdict on a byte array (`cap` = output limit) -/
def acceptsStrict (bytes : ByteArray) (cap : Nat) : Bool :=
  (decodeStrict (bytes.toList.map (·.toNat)) cap).isOk

end LzmaVerif.XzStrict
