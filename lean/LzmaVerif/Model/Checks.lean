/-
Executable integrity checks used by the container models: CRC-32 (ISO-HDLC), CRC-64 (XZ/ECMA-182,
reflected) and SHA-256.  In theorems they are just functions of the bytes; here they are implemented so
that the driver can run the container models on real files.  Agreement with the `crc`/`sha2` crates is
sampled by the correspondence check.  Core Lean only.
-/
namespace LzmaVerif.Checks

def crcStep (poly : Nat) (c : Nat) : Nat → Nat
  | 0 => c
  | n+1 => crcStep poly (if c % 2 = 1 then (c / 2) ^^^ poly else c / 2) n

def crcByte (poly : Nat) (c b : Nat) : Nat := crcStep poly (c ^^^ b) 8

def crc32 (bs : List Nat) : Nat :=
  (bs.foldl (crcByte 0xEDB88320) 0xFFFFFFFF) ^^^ 0xFFFFFFFF

def crc64 (bs : List Nat) : Nat :=
  (bs.foldl (crcByte 0xC96C5795D7870F42) 0xFFFFFFFFFFFFFFFF) ^^^ 0xFFFFFFFFFFFFFFFF

def le (n : Nat) (v : Nat) : List Nat := (List.range n).map fun i => (v / 256 ^ i) % 256
def be (n : Nat) (v : Nat) : List Nat := (le n v).reverse
def ofLe (bs : List Nat) : Nat := bs.foldr (fun b acc => b + 256 * acc) 0

/-! SHA-256 -/
def k256 : Array Nat := #[
  0x428a2f98, 0x71374491, 0xb5c0fbcf, 0xe9b5dba5, 0x3956c25b, 0x59f111f1, 0x923f82a4, 0xab1c5ed5,
  0xd807aa98, 0x12835b01, 0x243185be, 0x550c7dc3, 0x72be5d74, 0x80deb1fe, 0x9bdc06a7, 0xc19bf174,
  0xe49b69c1, 0xefbe4786, 0x0fc19dc6, 0x240ca1cc, 0x2de92c6f, 0x4a7484aa, 0x5cb0a9dc, 0x76f988da,
  0x983e5152, 0xa831c66d, 0xb00327c8, 0xbf597fc7, 0xc6e00bf3, 0xd5a79147, 0x06ca6351, 0x14292967,
  0x27b70a85, 0x2e1b2138, 0x4d2c6dfc, 0x53380d13, 0x650a7354, 0x766a0abb, 0x81c2c92e, 0x92722c85,
  0xa2bfe8a1, 0xa81a664b, 0xc24b8b70, 0xc76c51a3, 0xd192e819, 0xd6990624, 0xf40e3585, 0x106aa070,
  0x19a4c116, 0x1e376c08, 0x2748774c, 0x34b0bcb5, 0x391c0cb3, 0x4ed8aa4a, 0x5b9cca4f, 0x682e6ff3,
  0x748f82ee, 0x78a5636f, 0x84c87814, 0x8cc70208, 0x90befffa, 0xa4506ceb, 0xbef9a3f7, 0xc67178f2]

def rotr (x n : Nat) : Nat := ((x >>> n) ||| (x <<< (32 - n))) % 2 ^ 32
def add32 (a b : Nat) : Nat := (a + b) % 2 ^ 32

def shaSchedule (w : Array Nat) : Nat → Array Nat
  | 0 => w
  | n+1 =>
    let i := w.size
    let w15 := w.getD (i - 15) 0; let w2 := w.getD (i - 2) 0
    let s0 := rotr w15 7 ^^^ rotr w15 18 ^^^ (w15 >>> 3)
    let s1 := rotr w2 17 ^^^ rotr w2 19 ^^^ (w2 >>> 10)
    shaSchedule (w.push (add32 (add32 (w.getD (i - 16) 0) s0) (add32 (w.getD (i - 7) 0) s1))) n

structure ShaSt where
  a : Nat
  b : Nat
  c : Nat
  d : Nat
  e : Nat
  f : Nat
  g : Nat
  h : Nat

def shaRound (w : Array Nat) (s : ShaSt) (i : Nat) : ShaSt :=
  let S1 := rotr s.e 6 ^^^ rotr s.e 11 ^^^ rotr s.e 25
  let ch := (s.e &&& s.f) ^^^ ((s.e ^^^ 0xFFFFFFFF) &&& s.g)
  let t1 := add32 (add32 (add32 s.h S1) (add32 ch (k256.getD i 0))) (w.getD i 0)
  let S0 := rotr s.a 2 ^^^ rotr s.a 13 ^^^ rotr s.a 22
  let maj := (s.a &&& s.b) ^^^ (s.a &&& s.c) ^^^ (s.b &&& s.c)
  let t2 := add32 S0 maj
  { a := add32 t1 t2, b := s.a, c := s.b, d := s.c, e := add32 s.d t1, f := s.e, g := s.f, h := s.g }

def shaBlock (hs : ShaSt) (block : List Nat) : ShaSt :=
  let w0 : Array Nat := ((List.range 16).map fun i =>
    ((block.getD (4*i) 0 * 256 + block.getD (4*i+1) 0) * 256 + block.getD (4*i+2) 0) * 256 + block.getD (4*i+3) 0).toArray
  let w := shaSchedule w0 48
  let s := (List.range 64).foldl (shaRound w) hs
  { a := add32 hs.a s.a, b := add32 hs.b s.b, c := add32 hs.c s.c, d := add32 hs.d s.d,
    e := add32 hs.e s.e, f := add32 hs.f s.f, g := add32 hs.g s.g, h := add32 hs.h s.h }

def shaBlocks : Nat → ShaSt → List Nat → ShaSt
  | 0, hs, _ => hs
  | n+1, hs, bs => if bs.length < 64 then hs else shaBlocks n (shaBlock hs (bs.take 64)) (bs.drop 64)

def sha256 (bs : List Nat) : List Nat :=
  let len := bs.length
  let padLen := (119 - len % 64) % 64   -- zeros so that len + 1 + pad + 8 ≡ 0 mod 64
  let padded := bs ++ [0x80] ++ List.replicate padLen 0 ++ be 8 (len * 8)
  let h0 : ShaSt := { a := 0x6a09e667, b := 0xbb67ae85, c := 0x3c6ef372, d := 0xa54ff53a,
                      e := 0x510e527f, f := 0x9b05688c, g := 0x1f83d9ab, h := 0x5be0cd19 }
  let r := shaBlocks (padded.length / 64 + 1) h0 padded
  be 4 r.a ++ be 4 r.b ++ be 4 r.c ++ be 4 r.d ++ be 4 r.e ++ be 4 r.f ++ be 4 r.g ++ be 4 r.h

end LzmaVerif.Checks
