/- Vocabulary of the synchronisation skeleton extracted from the Rust sources by tools/extract_sync.py. -/
namespace LzmaVerif.SyncOps

/-- operations of `work_queue.rs` in source order -/
inductive QOp where
  | lock | unlock | storeClosed | loadClosed | notifyOne | notifyAll | wait | pushBack | popFront
  | branch   -- control flow where the model has none (extracted for `close` only)
deriving DecidableEq, Repr

/-- operations of `worker_thread_logic` in source order -/
inductive WOp where
  | panicGuard | steal | setError | sendWake | sendResult | ret
deriving DecidableEq, Repr

/-- operations of the `Drop` impls of the four MT types in source order -/
inductive DOp where
  | storeShutdown | readShutdown | branch | ret | closeQueue | join
deriving DecidableEq, Repr

end LzmaVerif.SyncOps
