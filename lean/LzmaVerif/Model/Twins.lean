/-
"Twins": the places where the cargo feature `optimization` of lzma-rust2 swaps safe code for an
`unsafe` / SIMD / assembly fast path.  Both variants of every twin are modelled here as small
executable functions over `Nat` / `Int` / `List`, with the fixed-width wrap-around written out where
the Rust code can wrap.  Core Lean only.  Proofs: `LzmaVerif/Proofs/Twins.lean`.

  T1  src/lz/mod.rs            extend_match / extend_match_safe  (slices  vs  raw pointer reads)
  T2  src/lz/lz_encoder.rs     get_match_len_fast_reject          (two byte compares vs clamped u16 reads)
  T3  src/lz/lz_encoder.rs     normalize_scalar vs normalize_{sse41,avx2,neon}
  T4  src/range_dec.rs         decode_direct_bits: portable loop vs x86-64 asm vs aarch64 asm
  T5  src/lz/aligned_memory.rs AlignedMemoryI32::new              (Vec<i32> vs 64-byte aligned zeroed block)

Memory is a `List Nat` of bytes; a read outside the list yields 0 in the model (in Rust it would be
undefined behaviour) — the C15 theorems show that no optimized variant ever performs such a read, so
the default value is never observed.  Every optimized variant returns, next to its result, the list of
absolute indices it reads ("trace"); the trace is produced by the same recursion as the result.
-/
namespace LzmaVerif.Twins

/-! ## Constants of the source that the twins depend on

A translator re-extracts these on every run (patterns in the report) and emits an instance; the proofs
are stated for instances satisfying `TwinParams.Ok` (a decidable conjunction), so a changed constant
makes `by decide` fail for the generated instance. -/

structure TwinParams where
  /-- `const WORD_SIZE: usize = size_of::<usize>()` (64-bit targets) -/
  wordSize : Nat := 8
  /-- the `/ 8` after `trailing_zeros()` / `_tzcnt_u64` -/
  tzDiv : Nat := 8
  /-- `buf_size.checked_sub(size_of::<u16>())` -/
  bufLimitSub : Nat := 2
  /-- width of the `read_unaligned(... as *const u16)` in bytes -/
  u16Bytes : Nat := 2
  /-- `let limit = buf.len() - 1;` of both assembly blocks -/
  asmLimitSub : Nat := 1
  /-- `top_value = const 0x0100_0000` / `self.range >= 0x0100_0000` -/
  topValue : Nat := 0x01000000
  /-- `SHIFT_BITS` -/
  shiftBits : Nat := 8
  /-- the `>> 31` of the portable sign test -/
  signShift : Nat := 31
  /-- `const ALIGNMENT: usize = 64` -/
  alignment : Nat := 64
  /-- `size_of::<i32>()` -/
  elemSize : Nat := 4
  /-- `RangeDecoderBuffer::new(size - 5)` -/
  rcBufSub : Nat := 5
  /-- `COMPRESSED_SIZE_MAX` of `lzma2_reader.rs` (argument of `new_buffer`) -/
  rcBufSize : Nat := 65536
deriving DecidableEq, Repr

/-- the values read from the source tree this model was written against -/
def srcParams : TwinParams := {}

/-! ## T1  `extend_match` -/

/-- little-endian value of a byte string (`usize::from_ne_bytes` / `read_unaligned` on a
    little-endian target) -/
def leVal : List Nat → Nat
  | [] => 0
  | b :: bs => b + 256 * leVal bs

def tzAux : Nat → Nat → Nat
  | 0, _ => 0
  | f + 1, n => if n % 2 = 1 then 0 else 1 + tzAux f (n / 2)

/-- `trailing_zeros` of a `bits`-bit word (`bits` for 0, like Rust and like `tzcnt`) -/
def tz (bits n : Nat) : Nat := tzAux bits n

/-- `&l[a .. a + n]` -/
def slice (l : List Nat) (a n : Nat) : List Nat := (l.drop a).take n

/-- `n` bytes read through a raw pointer at absolute index `i` -/
def rdBytes (mem : List Nat) (i n : Nat) : List Nat :=
  (List.range n).map fun k => mem.getD (i + k) 0

/-- byte-wise longest common prefix: the specification -/
def byteMatchLen : List Nat → List Nat → Nat
  | a :: as, b :: bs => if a = b then 1 + byteMatchLen as bs else 0
  | _, _ => 0

/-- Control flow shared by both cfg variants of `extend_match_safe`: word loop
    (`while matched + WORD_SIZE <= len`), then byte tail loop (`while matched < len && a == b`).
    Once the word loop has ended its condition stays false, so both loops are one recursion here.
    `w1 w2` fetch the word at offset `m` of the two operands, `b1 b2` the byte.
    Result = (matched, list of (offset, width) of every fetch; each fetch is done on both operands).
    Fuel `len + 1` suffices when `wordSize ≥ 1` (with `WORD_SIZE = 0` the Rust loop would not terminate). -/
def matchLoopT (P : TwinParams) (len : Nat) (w1 w2 b1 b2 : Nat → Nat) :
    Nat → Nat → Nat × List (Nat × Nat)
  | 0, m => (m, [])
  | f + 1, m =>
    if m + P.wordSize ≤ len then
      if w1 m = w2 m then
        let r := matchLoopT P len w1 w2 b1 b2 f (m + P.wordSize)
        (r.1, (m, P.wordSize) :: r.2)
      else
        (m + tz (8 * P.wordSize) (w1 m ^^^ w2 m) / P.tzDiv, [(m, P.wordSize)])
    else if m < len then
      if b1 m = b2 m then
        let r := matchLoopT P len w1 w2 b1 b2 f (m + 1)
        (r.1, (m, 1) :: r.2)
      else (m, [(m, 1)])
    else (m, [])

/-- the same recursion without the trace -/
def matchLoop (P : TwinParams) (len : Nat) (w1 w2 b1 b2 : Nat → Nat) : Nat → Nat → Nat
  | 0, m => m
  | f + 1, m =>
    if m + P.wordSize ≤ len then
      if w1 m = w2 m then matchLoop P len w1 w2 b1 b2 f (m + P.wordSize)
      else m + tz (8 * P.wordSize) (w1 m ^^^ w2 m) / P.tzDiv
    else if m < len then
      if b1 m = b2 m then matchLoop P len w1 w2 b1 b2 f (m + 1) else m
    else m

/-- `extend_match_safe`, `cfg(not(feature = "optimization"))`: sub-slices + `from_ne_bytes` -/
def extendMatchSafe (P : TwinParams) (s1 s2 : List Nat) : Nat :=
  let len := min s1.length s2.length
  matchLoop P len (fun m => leVal (slice s1 m P.wordSize)) (fun m => leVal (slice s2 m P.wordSize))
    (fun m => s1.getD m 0) (fun m => s2.getD m 0) (len + 1) 0

/-- `extend_match_safe`, `cfg(feature = "optimization")`: `read_unaligned` through `ptr1`/`ptr2`
    (also the `_tzcnt_u64` flavour: same function).  The two slices are given as (base, length)
    inside `mem`. -/
def extendMatchPtrT (P : TwinParams) (mem : List Nat) (p1 n1 p2 n2 : Nat) : Nat × List (Nat × Nat) :=
  let len := min n1 n2
  matchLoopT P len (fun m => leVal (rdBytes mem (p1 + m) P.wordSize))
    (fun m => leVal (rdBytes mem (p2 + m) P.wordSize))
    (fun m => mem.getD (p1 + m) 0) (fun m => mem.getD (p2 + m) 0) (len + 1) 0

/-- absolute byte indices of a list of (offset, width) fetches done at the bases `p1` and `p2` -/
def absReads (p1 p2 : Nat) (rs : List (Nat × Nat)) : List Nat :=
  rs.flatMap fun r => (List.range r.2).map (p1 + r.1 + ·) ++ (List.range r.2).map (p2 + r.1 + ·)

/-- `(limit - current_len) as usize` for non-negative `i32` arguments: the `i32` difference cannot
    overflow, a negative one sign-extends to `2^64 - (current_len - limit)`.  (Found by running
    `get_match_len_fast_reject`, which calls `extend_match` with `current_len = 2`, with length limits
    0 and 1 against the real code: the optimized twin then extends up to the physical end of the buffer.) -/
def extLogical (limit curLen : Nat) : Nat :=
  if curLen ≤ limit then limit - curLen else 2 ^ 64 - (curLen - limit)

/-- `extend_match`, portable: `&buf[start1..start1 + ext]` panics when out of range (`none`).
    `i32` arguments are taken as naturals: the callers pass `0 ≤ current_len ≤ limit`,
    `1 ≤ distance ≤ read_pos + current_len` (`start1 - distance` underflows otherwise: a panic with
    overflow checks, a wild `get_unchecked` without — NOT modelled, `Nat` subtraction truncates).
    With `limit < current_len` the extension is `2^64 - …`: `start1 + ext` overflows or is out of range,
    in both cases a panic. -/
def extendMatchPortable (P : TwinParams) (buf : List Nat) (readPos curLen dist limit : Nat) :
    Option Nat :=
  let start1 := readPos + curLen
  let start2 := start1 - dist
  let ext := extLogical limit curLen
  if start1 + ext ≤ buf.length then
    some (curLen + extendMatchSafe P (slice buf start1 ext) (slice buf start2 ext))
  else none

/-- `extend_match`, optimized: `get_unchecked` after clamping the extension to the physical buffer;
    result and absolute indices read -/
def extendMatchOptT (P : TwinParams) (buf : List Nat) (readPos curLen dist limit : Nat) :
    Nat × List Nat :=
  let start1 := readPos + curLen
  let start2 := start1 - dist
  let ext := min (extLogical limit curLen) (buf.length - start1)
  let r := extendMatchPtrT P buf start1 ext start2 ext
  (curLen + r.1, absReads start1 start2 r.2)

/-! ## T2  `get_match_len_fast_reject` (the two-byte pre-check; `true` = "return 0") -/

/-- `read_unaligned(ptr.add(i) as *const u16)` -/
def rdU16 (P : TwinParams) (mem : List Nat) (i : Nat) : Nat := leVal (rdBytes mem i P.u16Bytes)

/-- portable: four indexed byte loads (`none` = index panic) -/
def fastRejectPortable (buf : List Nat) (readPos matchDist : Nat) : Option Bool :=
  if readPos + 1 < buf.length then
    some (decide (buf.getD readPos 0 ≠ buf.getD (readPos - matchDist) 0
                ∨ buf.getD (readPos + 1) 0 ≠ buf.getD (readPos + 1 - matchDist) 0))
  else none

/-- `buf_limit_u16` as computed in `LZEncoder::new` -/
def bufLimitU16 (P : TwinParams) (bufSize : Nat) : Nat := bufSize - P.bufLimitSub

/-- optimized with an arbitrary clamp limit `lim`: verdict and the byte indices read -/
def fastRejectOptWith (P : TwinParams) (lim : Nat) (buf : List Nat) (readPos matchDist : Nat) :
    Bool × List Nat :=
  let c0 := min readPos lim
  let c1 := min (readPos - matchDist) lim
  (decide (rdU16 P buf c0 ≠ rdU16 P buf c1),
   (List.range P.u16Bytes).map (c0 + ·) ++ (List.range P.u16Bytes).map (c1 + ·))

/-- optimized, as in the source (`lim = buf_limit_u16`) -/
def fastRejectOpt (P : TwinParams) (buf : List Nat) (readPos matchDist : Nat) : Bool × List Nat :=
  fastRejectOptWith P (bufLimitU16 P buf.length) buf readPos matchDist

/-- `LZEncoderData::get_match_len_fast_reject(dist, len_limit)`, `cfg(feature = "optimization")`:
    `match_dist = dist + 1`; `return 0` when the clamped u16 reads differ, otherwise
    `extend_match(&self.buf, self.read_pos, 2, match_dist, len_limit)` (its optimized twin).
    Value and absolute indices read.  (`dist ≥ 0`, `dist + 1 ≤ read_pos`: the callers pass a rep
    distance that lies inside the window; outside that range `read_pos - match_dist` underflows —
    a panic with overflow checks, a wrapped and then clamped index without.) -/
def matchLenFastRejectOptT (P : TwinParams) (buf : List Nat) (readPos dist lenLimit : Nat) :
    Nat × List Nat :=
  let r := fastRejectOpt P buf readPos (dist + 1)
  if r.1 then (0, r.2)
  else
    let e := extendMatchOptT P buf readPos 2 (dist + 1) lenLimit
    (e.1, r.2 ++ e.2)

/-- the same function, `cfg(not(feature = "optimization"))`: four indexed byte loads, then the
    portable `extend_match`; `none` = index / slice panic -/
def matchLenFastRejectPortable (P : TwinParams) (buf : List Nat) (readPos dist lenLimit : Nat) :
    Option Nat :=
  match fastRejectPortable buf readPos (dist + 1) with
  | none => none
  | some true => some 0
  | some false => extendMatchPortable P buf readPos 2 (dist + 1) lenLimit

/-! ## T3  position renormalisation (`i32` as `Int` with explicit wrap) -/

def wrap32 (x : Int) : Int := (x + 2147483648) % 4294967296 - 2147483648

def IsI32 (x : Int) : Prop := -2147483648 ≤ x ∧ x < 2147483648

/-- `(*p).max(norm_offset) - norm_offset` with overflow checks (debug profile): `none` = panic -/
def normScalarChecked (off p : Int) : Option Int :=
  let r := max p off - off
  if r < 2147483648 then some r else none

/-- the same in a release profile (`-` wraps) -/
def normScalar (off p : Int) : Int := wrap32 (max p off - off)

/-- one lane of `normalize_sse41` / `normalize_avx2` / `normalize_neon` as they are in the source:
    `pmaxsd` (`vmaxq_s32`) with the broadcast offset, then the wrapping `psubd` (`vsubq_s32`) -/
def normSimd (off p : Int) : Int := wrap32 (max p off - off)

/-- the other common formulation (subtract first, then clamp at 0) — NOT what the source does;
    kept to record why the order matters -/
def normSimdSubFirst (off p : Int) : Int := max (wrap32 (p - off)) 0

def normalizeScalar (off : Int) (ps : List Int) : List Int := ps.map (normScalar off)

/-- `n` aligned chunks of `lanes` elements processed lane-wise; whatever is not covered by the
    chunks stays untouched -/
def simdChunks (off : Int) (lanes : Nat) : Nat → List Int → List Int
  | 0, l => l
  | n + 1, l => (l.take lanes).map (normSimd off) ++ simdChunks off lanes n (l.drop lanes)

/-- `align_to_mut`: an unaligned prefix of `pre` elements (depends on the address; 0 for
    `AlignedMemoryI32`), as many whole vectors as fit, and the rest.  Scalar code on prefix and
    suffix, vector code on the middle. -/
def normalizeSimd (off : Int) (lanes pre : Nat) (ps : List Int) : List Int :=
  let head := ps.take pre
  let rest := ps.drop pre
  let n := rest.length / lanes
  let mid := rest.take (n * lanes)
  let tail := rest.drop (n * lanes)
  normalizeScalar off head ++ simdChunks off lanes n mid ++ normalizeScalar off tail

/-! ## T4  `decode_direct_bits` -/

structure DState where
  range : Nat
  code : Nat
  pos : Nat
  result : Nat
deriving DecidableEq, Repr

/-- `RangeDecoderBuffer::read_u8`: `*self.buf.get(self.pos).unwrap_or(&0)` -/
def rdPortable (buf : List Nat) (pos : Nat) : Nat := buf.getD pos 0

/-- index of the clamped assembly load (`cmp pos, limit; cmovg/csel`): `min pos limit`,
    `limit = buf.len() - asmLimitSub` -/
def asmIndex (P : TwinParams) (len pos : Nat) : Nat := min pos (len - P.asmLimitSub)

/-- the byte the assembly loads -/
def rdAsm (P : TwinParams) (buf : List Nat) (pos : Nat) : Nat := buf.getD (asmIndex P buf.length pos) 0

/-- normalisation: one byte when `range < top`; `pos` is incremented unclamped in every variant -/
def dNormalize (P : TwinParams) (rd : Nat → Nat) (s : DState) : DState :=
  if s.range < P.topValue then
    { s with code := (s.code * 2 ^ P.shiftBits) % 2 ^ 32 ||| rd s.pos,
             range := (s.range * 2 ^ P.shiftBits) % 2 ^ 32,
             pos := s.pos + 1 }
  else s

/-- `a.wrapping_sub(b)` on `u32` -/
def wsub32 (a b : Nat) : Nat := (a + 2 ^ 32 - b) % 2 ^ 32

/-- portable halving step:
    `range >>= 1; t = code.wrapping_sub(range) >> 31; code -= range & t.wrapping_sub(1);
     result = (result << 1) | (1 - t)` -/
def halvePortable (P : TwinParams) (s : DState) : DState :=
  let r := s.range / 2
  let t := wsub32 s.code r / 2 ^ P.signShift
  { s with range := r,
           code := s.code - (r &&& wsub32 t 1),
           result := (s.result * 2) % 2 ^ 32 ||| (1 - t) }

/-- x86-64: `shr range,1; mov tmp,code; sub code,range; cmovs code,tmp; cmovns result,result_bit1`
    (SF = bit 31 of the wrapped difference) -/
def halveX86 (s : DState) : DState :=
  let r := s.range / 2
  let d := wsub32 s.code r
  let sf := d / 2 ^ 31 = 1
  { s with range := r,
           code := if sf then s.code else d,
           result := if sf then (s.result * 2) % 2 ^ 32 else ((s.result * 2) % 2 ^ 32 + 1) % 2 ^ 32 }

/-- aarch64: `lsr range,#1; subs tmp,code,range; csel code,tmp,code,hs; csel result,result_bit1,result,hs`
    (`hs` = carry set = unsigned `code >= range`; `orr result_bit1, result, #1`) -/
def halveA64 (s : DState) : DState :=
  let r := s.range / 2
  let hs := r ≤ s.code
  { s with range := r,
           code := if hs then wsub32 s.code r else s.code,
           result := if hs then (s.result * 2) % 2 ^ 32 ||| 1 else (s.result * 2) % 2 ^ 32 }

/-- portable `decode_direct_bits`: `'outer: loop { while range >= TOP { if count == 0 {break 'outer};
    count -= 1; halve }; if count == 0 {break 'outer}; read byte }` as one state machine
    ("count = 0: stop; range ≥ TOP: halve; otherwise: read one byte") -/
def directPortable (P : TwinParams) (buf : List Nat) : Nat → Nat → DState → DState
  | 0, _, s => s
  | f + 1, count, s =>
    if count = 0 then s
    else if P.topValue ≤ s.range then directPortable P buf f (count - 1) (halvePortable P s)
    else directPortable P buf f count (dNormalize P (rdPortable buf) s)

/-- fuel that is always sufficient for `range ≥ 1` (at most 3 byte reads per bit) -/
def directFuel (count : Nat) : Nat := 4 * count

/-- the commented-out original portable loop, and the shape of both assembly loops:
    `count` times "normalise once, halve" -/
def directLoop (P : TwinParams) (rd : Nat → Nat) (halve : DState → DState) : Nat → DState → DState
  | 0, s => s
  | k + 1, s => directLoop P rd halve k (halve (dNormalize P rd s))

/-- x86-64 assembly (`do { … } while (--count != 0)`; called with `count > 0` only) -/
def directX86 (P : TwinParams) (buf : List Nat) (count : Nat) (s : DState) : DState :=
  directLoop P (rdAsm P buf) halveX86 count s

/-- aarch64 assembly -/
def directA64 (P : TwinParams) (buf : List Nat) (count : Nat) (s : DState) : DState :=
  directLoop P (rdAsm P buf) halveA64 count s

/-- `decode_direct_bits` as the default x86-64 build (`optimization` on) dispatches it for the buffer
    reader: `if self.inner.is_buffer() && count > 0 && pos + count <= buf.len()` the assembly, else the
    portable loop -/
def directBitsOpt (P : TwinParams) (buf : List Nat) (count : Nat) (s : DState) : DState :=
  if 0 < count ∧ s.pos + count ≤ buf.length then directX86 P buf count s
  else directPortable P buf (directFuel count) count s

/-- indices loaded by an assembly run (same for both architectures when the `range` sequences agree,
    which they always do) -/
def directAsmReads (P : TwinParams) (buf : List Nat) (halve : DState → DState) :
    Nat → DState → List Nat
  | 0, _ => []
  | k + 1, s =>
    (if s.range < P.topValue then [asmIndex P buf.length s.pos] else []) ++
      directAsmReads P buf halve k (halve (dNormalize P (rdAsm P buf) s))

/-- number of normalisations (= bytes requested) during `k` direct bits: a function of the initial
    `range` alone -/
def normCount (P : TwinParams) : Nat → Nat → Nat
  | 0, _ => 0
  | k + 1, range =>
    if range < P.topValue then 1 + normCount P k ((range * 2 ^ P.shiftBits) % 2 ^ 32 / 2)
    else normCount P k (range / 2)

/-- two's complement reading of a 64-bit register (`cmovg` is a signed comparison) -/
def sgn64 (x : Nat) : Int := if x < 2 ^ 63 then (x : Int) else (x : Int) - 2 ^ 64

/-- `new_buffer(size)`: length of the decoder buffer -/
def rcBufLen (P : TwinParams) : Nat := P.rcBufSize - P.rcBufSub

/-! ## T5  `AlignedMemoryI32::new` with `usize` of `bits` bits (release profile: `*` wraps) -/

structure AlignedAlloc where
  requiredBytes : Nat
  targetLength : Nat
deriving DecidableEq, Repr

def alignedNew (P : TwinParams) (bits minLength : Nat) : AlignedAlloc :=
  let bytes := (minLength * P.elemSize) % 2 ^ bits
  -- `div_ceil` cannot overflow; the multiplication after it can
  let required := ((bytes + P.alignment - 1) / P.alignment * P.alignment) % 2 ^ bits
  { requiredBytes := required, targetLength := required / P.elemSize }

end LzmaVerif.Twins
