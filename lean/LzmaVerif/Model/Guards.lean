import LzmaVerif.Generated.Consts
/-
Fixed-width arithmetic on attacker-controlled values, with OVERFLOW MADE EXPLICIT.

Every `u16`/`u32`/`u64`/`usize` operation of the decoders that takes a value read from the input
(or a caller-supplied parameter) is written as a function into `Option Nat` that returns `none`
when the mathematical result leaves the range of the type: with overflow checks that is a panic
(`attempt to add with overflow`), without them a silent wrap.  `usize` is 64 bit.

Sources (all under `/repo/src`):
* `lzma2_reader.rs`  : `get_dict_size`, `decode_chunk_header`, `LZMA2Reader::new`
* `lzma_reader.rs`   : `get_dict_size`, `construct2`, `get_memory_usage`
* `lz/lz_decoder.rs` : `LZDecoder::new`, `reset`, `set_limit`, `get_byte`
* `range_dec.rs`     : `RangeDecoder::prepare` (buffer variant)
* `xz/reader.rs`     : `Index::parse` (capacity), `BlockHeader::parse` (header size, dictionary property)
* `lzip/reader_mt.rs`: `scan_members`
* `lzip/reader.rs`   : `finish_current_member` (member size sum)
Definitions named `…Buggy` / `…Old` keep the arithmetic of earlier revisions of the code (with the repairing commit
in the comment) so that the proofs can exhibit the concrete overflow.  Theorems: `LzmaVerif/Proofs/Total.lean`.
Core Lean only.
-/
namespace LzmaVerif.Guards
open LzmaVerif

/-! ## Checked machine arithmetic -/

def add16 (a b : Nat) : Option Nat := if a + b < 2 ^ 16 then some (a + b) else none
def add32 (a b : Nat) : Option Nat := if a + b < 2 ^ 32 then some (a + b) else none
def add64 (a b : Nat) : Option Nat := if a + b < 2 ^ 64 then some (a + b) else none
/-- unsigned subtraction of any width: `none` on underflow -/
def sub (a b : Nat) : Option Nat := if b ≤ a then some (a - b) else none
def mul64 (a b : Nat) : Option Nat := if a * b < 2 ^ 64 then some (a * b) else none
/-- `x as u32`: `none` when the cast would drop bits -/
def castU32 (a : Nat) : Option Nat := if a < 2 ^ 32 then some a else none
/-- `x as usize` from `u64`/`u32`: lossless on a 64-bit target -/
def castUsize (a : Nat) : Option Nat := if a < 2 ^ 64 then some a else none
/-- `x << k` on `u32`: `none` when the shift count is out of range (panic) or bits are lost (silent) -/
def shl32 (a k : Nat) : Option Nat := if k < 32 ∧ a * 2 ^ k < 2 ^ 32 then some (a * 2 ^ k) else none
/-- `x & !15` (no overflow possible) -/
def andNot15 (x : Nat) : Nat := x / 16 * 16
/-- `a.saturating_add(b)` on `u64` -/
def satAdd64 (a b : Nat) : Nat := min (a + b) (2 ^ 64 - 1)

def U64_MAX : Nat := 2 ^ 64 - 1

/-! ## 1. LZMA2 reader: `get_dict_size` (`lzma2_reader.rs`) -/

/-- `(dict_size.clamp(DICT_SIZE_MIN, DICT_SIZE_MAX) + 15) & !15` on `u32` (current code, after `63a4a08`) -/
def lzma2DictRound (d : Nat) : Option Nat :=
  (add32 (max (min d Consts.DICT_SIZE_MAX) Consts.DICT_SIZE_MIN) 15).map andNot15

/-- the code before the repair `63a4a08`: `(dict_size.min(DICT_SIZE_MAX) + 15) & !15` — no lower clamp,
    a caller-supplied dictionary size 0 gives an empty buffer -/
def lzma2DictRoundBuggy (d : Nat) : Option Nat :=
  (add32 (min d Consts.DICT_SIZE_MAX) 15).map andNot15

/-- the code before the repair `da8bdb6`: `(dict_size + 15) & !15` -/
def lzma2DictRoundOld (d : Nat) : Option Nat := (add32 d 15).map andNot15

/-! ## 2. LZMA reader: `get_dict_size` and `construct2` (`lzma_reader.rs`) -/

/-- result of a fallible function whose arithmetic may also overflow:
    `none` = overflow, `some (.error ())` = `Err(..)`, `some (.ok v)` = `Ok(v)` -/
abbrev Res := Option (Except Unit Nat)

/-- `get_dict_size`: `Err` above `DICT_SIZE_MAX`, `max(4096)`, `(d + 15) & !15` -/
def lzmaDictRound (d : Nat) : Res :=
  if d > Consts.DICT_SIZE_MAX then some (.error ())
  else (add32 (max d 4096) 15).map fun x => .ok (andNot15 x)

/-- the dictionary size handed to `LZDecoder::new` by `construct2`.
`dict` : caller / header dictionary size (`u32`), `uncomp` : declared size (`u64`, `u64::MAX` = unknown),
`presetLen` : length of the preset dictionary (`usize`).  -/
def construct2Dict (dict uncomp presetLen : Nat) : Res :=
  match lzmaDictRound dict with
  | none => none
  | some (.error e) => some (.error e)
  | some (.ok d1) =>
    let needed := satAdd64 uncomp presetLen
    let step2 : Res :=
      if uncomp ≤ U64_MAX / 2 ∧ d1 > needed then
        -- `needed_size as u32`
        match castU32 needed with
        | none => none
        | some n32 => lzmaDictRound n32
      else some (.ok d1)
    match step2 with
    | none => none
    | some (.error e) => some (.error e)
    | some (.ok d2) =>
      -- `LZDecoder::new(get_dict_size(dict_size)? as _, preset_dict)`
      lzmaDictRound d2

/-- `get_memory_usage(dict_size, lc, lp)` in KiB (`u32`) -/
def lzmaMemUsage (dict lc lp : Nat) : Res :=
  if lc > 8 ∨ lp > 4 then some (.error ()) else
  match lzmaDictRound dict with
  | none => none
  | some (.error e) => some (.error e)
  | some (.ok d) =>
    match shl32 (2 * 0x300) (lc + lp) with
    | none => none
    | some t =>
      match add32 10 (d / 1024) with
      | none => none
      | some a => (add32 a (t / 1024)).map .ok

/-- `get_memory_usage_by_props(dict_size, props_byte)` -/
def lzmaMemUsageByProps (dict props : Nat) : Res :=
  if dict > Consts.DICT_SIZE_MAX then some (.error ())
  else if props > 224 then some (.error ())
  else
    let p := props % 45
    let lp := p / 9
    match sub p (lp * 9) with
    | none => none
    | some lc => lzmaMemUsage dict lc lp

/-! ## 3. XZ index: the capacity reserved for the record vector (`Index::parse`) -/

/-- `Vec::with_capacity(number_of_records.min(1024) as usize)` -/
def indexCapacity (count : Nat) : Nat := min count 1024

/-- the code before the repair `a9b8dbd`: `Vec::with_capacity(number_of_records as usize)`;
    an `IndexRecord` is 16 bytes and `Vec` refuses more than `isize::MAX` bytes (capacity overflow panic) -/
def indexCapacityOldBytes (count : Nat) : Option Nat :=
  if count * 16 ≤ 2 ^ 63 - 1 then some (count * 16) else none

/-! ## 4. `LZDecoder` (`lz/lz_decoder.rs`) -/

structure LzNew where
  bufLen : Nat        -- `vec![0; dict_size]`: the one allocation of the dictionary
  pos : Nat
  presetSkip : Nat    -- `ps = preset.len() - pos`
deriving Repr, DecidableEq

/-- `LZDecoder::new(dict_size, preset)`: `presetLen = none` for no preset dictionary -/
def lzDecoderNew (dictSize : Nat) (presetLen : Option Nat) : Option LzNew :=
  match presetLen with
  | none => some { bufLen := dictSize, pos := 0, presetSkip := 0 }
  | some pl =>
    let pos := min pl dictSize
    match sub pl pos with
    | none => none
    | some ps =>
      -- `buf[0..pos].copy_from_slice(&preset[ps..])`: needs `pos ≤ buf.len()` and `ps ≤ preset.len()`
      if pos ≤ dictSize ∧ ps ≤ pl ∧ pl - ps = pos then some { bufLen := dictSize, pos, presetSkip := ps } else none

/-- `LZDecoder::reset`: the index `self.buf_size - 1` written to; `none` = underflow / out of bounds -/
def lzResetIndex (bufSize : Nat) : Option Nat :=
  match sub bufSize 1 with
  | none => none
  | some i => if i < bufSize then some i else none

/-- `set_limit`: `(out_max + self.pos).min(self.buf_size)` -/
def lzSetLimit (outMax pos bufSize : Nat) : Option Nat := (add64 outMax pos).map fun s => min s bufSize

/-- `get_byte(dist)`: the index read; `none` = underflow or out of bounds -/
def lzGetByteIndex (bufSize pos dist : Nat) : Option Nat :=
  let off : Option Nat :=
    if dist ≥ pos then
      match add64 bufSize pos with
      | none => none
      | some s => match sub s dist with
        | none => none
        | some t => sub t 1
    else match sub pos dist with
      | none => none
      | some t => sub t 1
  match off with
  | none => none
  | some o => if o < bufSize then some o else none

/-- the complete LZMA2 reader construction: rounded dictionary, then the decoder's buffer -/
def lzma2ReaderBuf (dict : Nat) (presetLen : Option Nat) : Option LzNew :=
  match lzma2DictRound dict with
  | none => none
  | some d => match castUsize d with
    | none => none
    | some d => lzDecoderNew d presetLen

/-- the same with the dictionary rounding before the repair `63a4a08` -/
def lzma2ReaderBufBuggy (dict : Nat) (presetLen : Option Nat) : Option LzNew :=
  match lzma2DictRoundBuggy dict with
  | none => none
  | some d => match castUsize d with
    | none => none
    | some d => lzDecoderNew d presetLen

/-- the complete LZMA reader construction (`Err` = `some none`) -/
def lzmaReaderBuf (dict uncomp : Nat) (presetLen : Option Nat) : Option (Option LzNew) :=
  match construct2Dict dict uncomp (presetLen.getD 0) with
  | none => none
  | some (.error _) => some none
  | some (.ok d) => match castUsize d with
    | none => none
    | some d => (lzDecoderNew d presetLen).map some

/-! ## LZMA2 chunk header (`decode_chunk_header`) and `RangeDecoder::prepare` -/

/-- LZMA chunk: `((control & 0x1F) as usize) << 16` then `+= read_u16_be()? as usize + 1` (usize) -/
def lzmaChunkSize (control u16 : Nat) : Option Nat :=
  match mul64 (control % 32) 65536 with
  | none => none
  | some hi => match add64 u16 1 with
    | none => none
    | some lo => add64 hi lo

/-- LZMA chunk: `read_u16_be()? as usize + 1` -/
def lzmaChunkCompSize (u16 : Nat) : Option Nat := add64 u16 1

/-- stored chunk (current code, after `2c6d08b`): `self.inner.read_u16_be()? as usize + 1` -/
def storedChunkSize (u16 : Nat) : Option Nat := add64 u16 1

/-- stored chunk before the repair `2c6d08b`: `(self.inner.read_u16_be()? + 1) as _` — the `+ 1` was done in
    `u16`, so the size field `0xFFFF` of a maximal stored chunk overflowed (panic with overflow checks) -/
def storedChunkSizeBuggy (u16 : Nat) : Option Nat := add16 u16 1

/-- …and what the release build (no overflow checks) computed instead: the wrapped value -/
def storedChunkSizeBuggyWrapped (u16 : Nat) : Nat := (u16 + 1) % 2 ^ 16

/-- `RangeDecoder::prepare(reader, len)` with a buffer of `bufLen` (= `COMPRESSED_SIZE_MAX`) bytes:
    `Err` for `len < 5`, else `len - 5`, `pos = buf.len() - len`, `end = pos + len`; result `(pos, end)` -/
def rcPrepare (bufLen len : Nat) : Option (Except Unit (Nat × Nat)) :=
  if len < 5 then some (.error ()) else
  match sub len 5 with
  | none => none
  | some l => match sub bufLen l with
    | none => none
    | some pos => match add64 pos l with
      | none => none
      | some e => if e ≤ bufLen then some (.ok (pos, e)) else none

/-! ## XZ block header (`BlockHeader::parse`) -/

/-- `(header_size_encoded as usize + 1) * 4`, range check `8..=1024`, `header_size - 1` bytes allocated,
    `expected_offset = header_size - 1 - 4`; result `(allocated, expected_offset)` -/
def blockHeaderSizes (enc : Nat) : Option (Except Unit (Nat × Nat)) :=
  match add64 enc 1 with
  | none => none
  | some a => match mul64 a 4 with
    | none => none
    | some hs =>
      if ¬ (8 ≤ hs ∧ hs ≤ 1024) then some (.error ()) else
      match sub hs 1 with
      | none => none
      | some alloc => match sub alloc 4 with
        | none => none
        | some eo => some (.ok (alloc, eo))

/-- LZMA2 dictionary property: `Err` above 40, `0xFFFFFFFF` for 40,
    else `(2 | (prop & 1)) << (prop / 2 + 11)` on `u32` -/
def dictOfPropChecked (p : Nat) : Res :=
  if p > 40 then some (.error ())
  else if p = 40 then some (.ok 0xFFFFFFFF)
  else (shl32 (2 + p % 2) (p / 2 + 11)).map .ok

/-- index / block padding: `(4 - (n % 4)) % 4` -/
def pad4 (n : Nat) : Option Nat := (sub 4 (n % 4)).map (· % 4)

/-! ## LZIP single-threaded reader: `finish_current_member` -/

/-- `HEADER_SIZE as u64 + compressed_bytes + TRAILER_SIZE as u64` -/
def lzipMemberSize (compressedBytes : Nat) : Option Nat :=
  match add64 Consts.LZIP_HEADER_SIZE compressedBytes with
  | none => none
  | some a => add64 a Consts.LZIP_TRAILER_SIZE

/-! ## 5. LZIP multi-threaded reader: `scan_members` (`lzip/reader_mt.rs`) -/

inductive ScanErr where
  | tooSmall      -- "File too small to contain a valid LZIP member"
  | badSize       -- "Invalid LZIP member size in trailer"
  | eof           -- `read_exact` of the 4 magic bytes runs past the end of the file
  | badMagic      -- "Invalid LZIP magic bytes"
  | noMembers     -- "No valid LZIP members found"
  | leading       -- "Data in front of the first LZIP member": 1..19 bytes are left, too few for a member
  | arith         -- model only: an unsigned subtraction underflowed
  | fuel          -- model only: the fuel ran out
deriving Repr, DecidableEq

structure Member where
  start : Nat
  size : Nat
deriving Repr, DecidableEq

/-- the `while current_pos > 0` loop, scanning backwards from `cur`.
`memberSizeAt p` is the `member_size` field of the trailer that ends at `p`;
`magicAt p` says whether the four bytes at `p` are `LZIP`.
`acc` collects the members in file order (the code pushes and reverses at the end). -/
def scanLoop (fileSize : Nat) (memberSizeAt : Nat → Nat) (magicAt : Nat → Bool) :
    Nat → Nat → List Member → Except ScanErr (List Member)
  | 0, _, _ => .error .fuel
  | fuel+1, cur, acc =>
    if cur = 0 then .ok acc
    else if cur < Consts.LZIP_TRAILER_SIZE then .error .leading  -- (was `break`: the bytes were ignored)
    else
      -- `current_pos - TRAILER_SIZE`
      match sub cur Consts.LZIP_TRAILER_SIZE with
      | none => .error .arith
      | some _trailerPos =>
        let ms := memberSizeAt cur
        if ms = 0 ∨ ms > cur then .error .badSize else
        -- `current_pos - member_size`
        match sub cur ms with
        | none => .error .arith
        | some start =>
          if start + 4 > fileSize then .error .eof
          else if ¬ magicAt start then .error .badMagic
          else scanLoop fileSize memberSizeAt magicAt fuel start ({ start, size := ms } :: acc)

/-- `scan_members` -/
def scanMembersFuel (fuel fileSize : Nat) (memberSizeAt : Nat → Nat) (magicAt : Nat → Bool) :
    Except ScanErr (List Member) :=
  if fileSize < Consts.LZIP_HEADER_SIZE + Consts.LZIP_TRAILER_SIZE then .error .tooSmall else
  match scanLoop fileSize memberSizeAt magicAt fuel fileSize [] with
  | .error e => .error e
  | .ok [] => .error .noMembers
  | .ok ms => .ok ms

def scanMembers (fileSize : Nat) (memberSizeAt : Nat → Nat) (magicAt : Nat → Bool) :
    Except ScanErr (List Member) :=
  scanMembersFuel (fileSize + 1) fileSize memberSizeAt magicAt

/-- the two oracles of `scanMembers` read off an actual file -/
def leBytes : List Nat → Nat
  | [] => 0
  | b :: bs => b + 256 * leBytes bs

def memberSizeOf (file : List Nat) (p : Nat) : Nat := leBytes ((file.drop (p - 8)).take 8)
def magicOf (file : List Nat) (p : Nat) : Bool := (file.drop p).take 4 == Consts.LZIP_MAGIC

def scanFile (file : List Nat) : Except ScanErr (List Member) :=
  scanMembers file.length (memberSizeOf file) (magicOf file)

/-- `vec![0u8; member.compressed_size as usize]` in `dispatch_next_member`: bytes allocated per member -/
def dispatchAlloc (m : Member) : Option Nat := castUsize m.size

end LzmaVerif.Guards
