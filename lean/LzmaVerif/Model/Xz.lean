import LzmaVerif.Model.Checks
import LzmaVerif.Model.XzInt
import LzmaVerif.Model.Lzma2
import LzmaVerif.Model.Filters
/-
Model of the XZ container: `src/xz/reader.rs` (StreamHeader, BlockHeader, Index, StreamFooter, finish_block_record,
XZReader::read / prepare_next_block / consume_padding / verify_block_checksum /
try_start_next_stream / parse_index_and_footer) and `src/xz/writer.rs` (write_stream_header,
write_block_header, finish_current_block, write_index, write_stream_footer).
Whole-file view (the sequence of `read` buffer sizes is abstracted away).  Core Lean only.
-/
namespace LzmaVerif.Xz
open LzmaVerif Lzma Checks

abbrev Err := Lzma.Err

inductive Check where
  | none | crc32 | crc64 | sha256
deriving DecidableEq, Repr

def Check.ofByte : Nat → Option Check
  | 0 => some .none | 1 => some .crc32 | 4 => some .crc64 | 10 => some .sha256
  | _ => Option.none   -- NOT `none`: inside `Check.ofByte` that name resolves to `Check.none` (coerced by `some`)

def Check.toByte : Check → Nat
  | .none => 0 | .crc32 => 1 | .crc64 => 4 | .sha256 => 10

def Check.size : Check → Nat
  | .none => 0 | .crc32 => 4 | .crc64 => 8 | .sha256 => 32

def Check.compute (c : Check) (data : List Nat) : List Nat :=
  match c with
  | .none => []
  | .crc32 => le 4 (Checks.crc32 data)
  | .crc64 => le 8 (Checks.crc64 data)
  | .sha256 => Checks.sha256 data

/-- filter ids as in the block header -/
inductive Filter where
  | delta (dist : Nat)
  | bcj (a : Filters.Arch) (start : Nat)
  | lzma2 (dict : Nat)
deriving Repr

def archOfId : Nat → Option Filters.Arch
  | 4 => some .x86 | 5 => some .ppc | 6 => some .ia64 | 7 => some .arm | 8 => some .armThumb
  | 9 => some .sparc | 10 => some .arm64 | 11 => some .riscv | _ => none

def idOfArch : Filters.Arch → Nat
  | .x86 => 4 | .ppc => 5 | .ia64 => 6 | .arm => 7 | .armThumb => 8 | .sparc => 9 | .arm64 => 10 | .riscv => 11

def archAlign : Filters.Arch → Nat
  | .x86 => 1 | .ppc => 4 | .ia64 => 16 | .arm => 4 | .armThumb => 2 | .sparc => 4 | .arm64 => 4 | .riscv => 2

/-- take `n` bytes or fail with EOF -/
def takeN (n : Nat) (inp : List Nat) : Except Err (List Nat × List Nat) :=
  if inp.length < n then .error .eof else .ok (inp.take n, inp.drop n)

/-! ## Stream header / footer -/

/-- `StreamHeader::parse_flags_and_crc` -/
def parseFlags (inp : List Nat) : Except Err (Check × List Nat) := do
  let (flags, inp) ← takeN 2 inp
  if flags.getD 0 0 ≠ 0 then throw .invalidData
  match Check.ofByte (flags.getD 1 0) with
  | none => throw .invalidData
  | some c =>
    let (crc, inp) ← takeN 4 inp
    if ofLe crc ≠ crc32 flags then throw .invalidData
    pure (c, inp)

/-- `StreamHeader::parse` -/
def parseStreamHeader (inp : List Nat) : Except Err (Check × List Nat) := do
  let (magic, inp) ← takeN 6 inp
  if magic ≠ Consts.XZ_MAGIC then throw .invalidData
  parseFlags inp

/-- `StreamFooter::parse`; returns (backward size, flags) -/
def parseFooter (inp : List Nat) : Except Err (Nat × List Nat × List Nat) := do
  let (crc, inp) ← takeN 4 inp
  let (bs, inp) ← takeN 4 inp
  let (flags, inp) ← takeN 2 inp
  if ofLe crc ≠ crc32 (bs ++ flags) then throw .invalidData
  let (magic, inp) ← takeN 2 inp
  if magic ≠ Consts.XZ_FOOTER_MAGIC then throw .invalidData
  pure (ofLe bs, flags, inp)

/-! ## Block header -/

/-- slice multibyte integer: value and size (`parse_multibyte_integer` + `count_multibyte_integer_size`) -/
def mbSlice (data : List Nat) : Except Err (Nat × List Nat) :=
  match XzInt.parseSlice data with
  | .ok v n => .ok (v, data.drop n)
  | _ => .error .invalidData

/-- one filter entry of the block header; `data` is the rest of the header bytes (incl. CRC) -/
def parseFilter (data : List Nat) : Except Err (Filter × List Nat) := do
  if data.isEmpty then throw .invalidData
  let (id, data) ← mbSlice data
  if id = 3 then
    if data.isEmpty then throw .invalidData
    let (psz, data) ← mbSlice data
    if psz ≠ 1 then throw .invalidData
    match data with
    | [] => throw .invalidData
    | p :: data => pure (.delta (p + 1), data)
  else if id = 0x21 then
    if data.isEmpty then throw .invalidData
    let (psz, data) ← mbSlice data
    if psz ≠ 1 then throw .invalidData
    match data with
    | [] => throw .invalidData
    | p :: data =>
      match XzInt.dictOfProp p with
      | none => throw .invalidData
      | some d => pure (.lzma2 d, data)
  else
    match archOfId id with
    | none => throw .invalidInput            -- "unsupported filter type found"
    | some a =>
      if data.isEmpty then throw .invalidData
      let (psz, data) ← mbSlice data
      if psz = 0 then pure (.bcj a 0, data)
      else if psz = 4 then
        if data.length < 4 then throw .invalidData
        let off := ofLe (data.take 4)
        if off % archAlign a ≠ 0 then throw .invalidData
        pure (.bcj a off, data.drop 4)
      else throw .invalidData

def parseFilters : Nat → List Nat → Except Err (List Filter × List Nat)
  | 0, data => pure ([], data)
  | n+1, data => do
    let (f, data) ← parseFilter data
    let (fs, data) ← parseFilters n data
    pure (f :: fs, data)

structure BlockHeader where
  filters : List Filter
  size : Nat
  /-- the optional Compressed Size / Uncompressed Size fields (`BlockHeader::compressed_size`,
      `BlockHeader::uncompressed_size`); compared with the real sizes once the block has been decoded -/
  compSize : Option Nat := none
  uncompSize : Option Nat := none
deriving Repr

/-- `BlockHeader::parse`; `none` = index indicator (0x00) -/
def parseBlockHeader (inp : List Nat) : Except Err (Option BlockHeader × List Nat) := do
  match inp with
  | [] => throw .eof
  | sz :: inp =>
    if sz = 0 then pure (none, inp) else
    let hsize := (sz + 1) * 4
    -- `(8..=1024).contains(&header_size)` always holds for sz in 1..255
    let (hd, inp) ← takeN (hsize - 1) inp
    let flags := hd.getD 0 0
    let nf := flags % 4 + 1
    let data := hd.drop 1
    -- optional sizes (checked against the real sizes by `decodeBlockBody`, see `finish_block_record`)
    let (cs, data) ← (if flags / 64 % 2 = 1 then do
        if data.length < 8 then throw .invalidData       -- `offset + 8 > header_data.len()`
        let (v, d) ← mbSlice data
        pure (some v, d)
      else pure (none, data))
    let (us, data) ← (if flags / 128 % 2 = 1 then do
        if data.isEmpty then throw .invalidData
        let (v, d) ← mbSlice data
        pure (some v, d)
      else pure (none, data))
    let (fs, data) ← parseFilters nf data
    match fs.getLast? with
    | some (.lzma2 _) =>
      -- padding up to the CRC, then CRC32 over size byte + everything before the CRC
      if data.length < 4 then throw .invalidData
      let pad := data.take (data.length - 4)
      if pad.any (· ≠ 0) then throw .invalidData
      let crc := data.drop (data.length - 4)
      if ofLe crc ≠ crc32 (sz :: hd.take (hd.length - 4)) then throw .invalidData
      pure (some { filters := fs, size := hsize, compSize := cs, uncompSize := us }, inp)
    | _ => throw .invalidInput

/-! ## Block body -/

/-- undo the non-LZMA2 filters, last listed first (the reader chain is built in reverse) -/
def unfilter : List Filter → List Nat → List Nat
  | [], d => d
  | .delta dist :: rest, d => Filters.deltaDecode dist (unfilter rest d)
  | .bcj a start :: rest, d => Filters.oneShot a false start (unfilter rest d)
  | .lzma2 _ :: rest, d => unfilter rest d

def applyFilters : List Filter → List Nat → List Nat
  | [], d => d
  | .delta dist :: rest, d => applyFilters rest (Filters.deltaEncode dist d)
  | .bcj a start :: rest, d => applyFilters rest (Filters.oneShot a true start d)
  | .lzma2 _ :: rest, d => applyFilters rest d

def lzma2Dict (fs : List Filter) : Nat :=
  match fs.getLast? with
  | some (.lzma2 d) => d
  | _ => 0

structure Block where
  header : BlockHeader
  data : List Nat            -- uncompressed content
  payload : List Nat         -- the LZMA2 stream
deriving Repr

def lzmaErr (e : Lzma.Err) : Err := e

inductive BRes where
  | ok (b : Block) (rest : List Nat)
  | err (e : Err)
  | capped

/-- `declared.is_some_and(|size| size != actual)` of `finish_block_record` -/
def declaredMismatch : Option Nat → Nat → Bool
  | none, _ => false
  | some v, actual => v != actual

/-- one block after its header: LZMA2 payload, padding, check, then (`finish_block_record`) the sizes declared
    in the block header against the real ones -/
def decodeBlockBody (chk : Check) (h : BlockHeader) (consumedBefore : Nat) (inp : List Nat) (cap : Nat) : BRes :=
  -- an LZMA2 filter anywhere but last would stack two LZMA2 decoders: outside the model
  if (h.filters.dropLast.any fun f => match f with | .lzma2 _ => true | _ => false) then .capped else
  match Lzma2.decode (lzma2Dict h.filters) #[] inp cap with
  | .capped => .capped
  | .err e => .err e
  | .ok r =>
    let rest := inp.drop r.consumed
    let data := unfilter h.filters r.out.toList
    -- `consume_padding`: relative to all bytes read so far
    let total := consumedBefore + r.consumed
    let padN := (4 - total % 4) % 4
    match takeN padN rest with
    | .error e => .err e
    | .ok (pad, rest) =>
      if pad.any (· ≠ 0) then .err .invalidData else
      match takeN chk.size rest with
      | .error e => .err e
      | .ok (stored, rest) =>
        if stored ≠ chk.compute data then .err .invalidData
        -- `finish_block_record`: "block compressed size mismatch" / "block uncompressed size mismatch"
        else if declaredMismatch h.compSize r.consumed then .err .invalidData
        else if declaredMismatch h.uncompSize data.length then .err .invalidData
        else .ok { header := h, data, payload := inp.take r.consumed } rest

/-- the `IndexRecord` that `finish_block_record` pushes for a decoded block: Unpadded Size = header size +
    compressed data size + check size (`data_end - block_start + check_size`), and the uncompressed size.
    (`payload` holds exactly the compressed data, so its length is the number of bytes the LZMA2 reader consumed.) -/
def blockRecord (chk : Check) (b : Block) : Nat × Nat :=
  (b.header.size + b.payload.length + chk.size, b.data.length)

/-! ## Index -/

def mbReader (inp : List Nat) : Except Err (Nat × List Nat) :=
  match XzInt.parseReader inp with
  | .ok v n => .ok (v, inp.drop n)
  | .incomplete => .error .eof
  | _ => .error .invalidData

def parseRecords : Nat → Nat → List Nat → List (Nat × Nat) → Except Err (List (Nat × Nat) × List Nat)
  | 0, _, inp, acc => pure (acc.reverse, inp)
  | fuel+1, n, inp, acc =>
    if n = 0 then pure (acc.reverse, inp) else do
      let (u, inp) ← mbReader inp
      let (s, inp) ← mbReader inp
      if u = 0 then throw .invalidData
      parseRecords fuel (n - 1) inp ((u, s) :: acc)

def mb (v : Nat) : List Nat := (XzInt.encode v).getD []

/-- `Index::parse` (the indicator byte has been consumed).  Padding length, CRC and the `size` field are
computed from the *re-encoded* integers, exactly as the code does.  Returns (records, `Index::size`, rest). -/
def parseIndex (inp : List Nat) : Except Err (List (Nat × Nat) × Nat × List Nat) := do
  let (n, inp1) ← mbReader inp
  let (recs, inp2) ← parseRecords (inp1.length + 1) n inp1 []
  let canon := mb n ++ (recs.map fun r => mb r.1 ++ mb r.2).flatten
  let read := 1 + canon.length
  let padN := (4 - read % 4) % 4
  let (pad, inp3) ← takeN padN inp2
  if pad.any (· ≠ 0) then throw .invalidData
  let (crc, inp4) ← takeN 4 inp3
  if ofLe crc ≠ crc32 (0 :: canon ++ pad) then throw .invalidData
  pure (recs, read + padN + 4, inp4)

/-! ## Whole file -/

inductive Out where
  | ok (data : List Nat) (consumed : Nat) (blocks : List Block)   -- blocks of the LAST stream, most recent first
  | err (e : Err)
  | capped

/-- stream padding + next stream header (`try_start_next_stream`); `none` = clean end of input -/
def nextStream : Nat → List Nat → Nat → Except Err (Option (Check × List Nat))
  | 0, _, _ => .error .invalidData
  | fuel+1, inp, zeros =>
    match inp with
    | [] => if zeros % 4 ≠ 0 then throw .invalidData else pure none
    | b :: rest =>
      if b = 0 then nextStream fuel rest (zeros + 1)
      else if b ≠ Consts.XZ_MAGIC.getD 0 0 then throw .invalidData
      else do
        if inp.length < 6 then throw .invalidData       -- "incomplete XZ magic bytes"
        if inp.take 6 ≠ Consts.XZ_MAGIC then throw .invalidData
        if zeros % 4 ≠ 0 then throw .invalidData
        let (c, rest) ← parseFlags (inp.drop 6)
        pure (some (c, rest))

/-- blocks of one stream, then index and footer (`parse_index_and_footer`).  `blks` are the blocks of the
current stream, most recent first, so `(blks.map (blockRecord chk)).reverse` is `self.block_records`. -/
def readBlocks (multi : Bool) (total : Nat) : Nat → Check → List Nat → List Nat → List Block → Nat → Out
  | 0, _, _, _, _, _ => .capped
  | fuel+1, chk, inp, acc, blks, cap =>
    match parseBlockHeader inp with
    | .error e => .err e
    | .ok (some h, inp') =>
      match decodeBlockBody chk h (total - inp'.length) inp' cap with
      | .capped => .capped
      | .err e => .err e
      | .ok blk rest =>
        if acc.length + blk.data.length > cap then .capped else
        readBlocks multi total fuel chk rest (acc ++ blk.data) (blk :: blks) cap
    | .ok (none, inp') =>
      match parseIndex inp' with
      | .error e => .err e
      | .ok (recs, isize, inp'') =>
        if recs.length ≠ blks.length then .err .invalidData else
        -- "index records don't match the sizes of the blocks"
        if recs ≠ (blks.map (blockRecord chk)).reverse then .err .invalidData else
        match parseFooter inp'' with
        | .error e => .err e
        | .ok (bs, flags, rest) =>
          -- "backward size doesn't match the size of the index"
          if (bs + 1) * 4 ≠ isize then .err .invalidData else
          if flags ≠ [0, chk.toByte] then .err .invalidData else
          if ¬ multi then .ok acc (total - rest.length) blks else
          match nextStream (rest.length + 1) rest 0 with
          | .error e => .err e
          | .ok none => .ok acc total blks
          | .ok (some (chk', rest')) => readBlocks multi total fuel chk' rest' acc [] cap

/-- `XZReader::new(inner, multi)` read to the end -/
def decode (multi : Bool) (inp : List Nat) (cap : Nat) : Out :=
  match parseStreamHeader inp with
  | .error e => .err e
  | .ok (chk, rest) => readBlocks multi inp.length (inp.length + 2) chk rest [] [] cap

/-! ## Writer -/

def encFilter : Filter → List Nat
  | .delta dist => [3, 1, (dist - 1) % 256]
  | .bcj a start => if start = 0 then [idOfArch a, 0] else idOfArch a :: 4 :: le 4 start
  | .lzma2 dict => [0x21, 1, (XzInt.propOfDict dict).getD 0]

/-- `write_block_header` -/
def blockHeaderBytes (fs : List Filter) : List Nat :=
  let data := ((fs.length - 1) % 256) :: (fs.map encFilter).flatten
  let needed := 1 + data.length + 4
  let hsize := (needed + 3) / 4 * 4
  let sz := hsize / 4 - 1
  let pad := List.replicate (hsize - 1 - data.length - 4) 0
  sz :: data ++ pad ++ le 4 (crc32 (sz :: data ++ pad))

def streamHeaderBytes (c : Check) : List Nat :=
  Consts.XZ_MAGIC ++ [0, c.toByte] ++ le 4 (crc32 [0, c.toByte])

/-- one block: header, payload (the LZMA2 stream of the filtered data), padding, check -/
def blockBytes (c : Check) (fs : List Filter) (payload data : List Nat) : List Nat × (Nat × Nat) :=
  let hdr := blockHeaderBytes fs
  let pad := List.replicate ((4 - payload.length % 4) % 4) 0
  (hdr ++ payload ++ pad ++ c.compute data, (hdr.length + payload.length + c.size, data.length))

/-- `write_index` -/
def indexBytes (recs : List (Nat × Nat)) : List Nat :=
  let body := mb recs.length ++ (recs.map fun r => mb r.1 ++ mb r.2).flatten
  let pad := List.replicate ((4 - (1 + body.length) % 4) % 4) 0
  0 :: body ++ pad ++ le 4 (crc32 (0 :: body ++ pad))

/-- `write_stream_footer` -/
def footerBytes (c : Check) (indexLen : Nat) : List Nat :=
  let bs := le 4 (indexLen / 4 - 1)
  le 4 (crc32 (bs ++ [0, c.toByte])) ++ bs ++ [0, c.toByte] ++ Consts.XZ_FOOTER_MAGIC

/-- the whole stream for given blocks `(payload, data)` -/
def streamBytes (c : Check) (fs : List Filter) (blocks : List (List Nat × List Nat)) : List Nat :=
  let bs := blocks.map fun b => blockBytes c fs b.1 b.2
  let idx := indexBytes (bs.map (·.2))
  streamHeaderBytes c ++ (bs.map (·.1)).flatten ++ idx ++ footerBytes c idx.length

/-- re-assemble a single-stream file from its decoded blocks with the writer model
    (all blocks of a stream written by `XZWriter` share one filter chain) -/
def reassemble (c : Check) (blocks : List Block) : List Nat :=
  match blocks with
  | [] => streamBytes c [] []
  | b :: _ => streamBytes c b.header.filters (blocks.map fun b => (b.payload, b.data))

end LzmaVerif.Xz
