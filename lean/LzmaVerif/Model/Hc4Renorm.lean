/-
  HC4 WITH the 31-bit position renormalisation (src/lz/hc4.rs `move_pos`, hash234.rs `normalize`,
  lz_encoder.rs `LZEncoder::normalize` / `normalize_scalar`).  Import-free; the compiled driver runs these
  definitions (`mf.trace kind=hc4 ... lzstart=<n>`), the real finder is started at the same `lz_pos` through the
  hook `verif_hooks::mf_trace_biased`.

  `Model/Hc4.lean` already stores the match finder's own counter `lz_pos` in the hash tables and in the chain
  (entries are `lz_pos` values, 0 = "empty"), but its `movePos` leaves out the branch

      self.lz_pos += 1;
      if self.lz_pos == 0x7FFFFFFF {
          let norm_offset = 0x7FFFFFFF - self.cyclic_size;
          self.hash.normalize(norm_offset);                       // hash2 / hash3 / hash4 tables
          LZEncoder::normalize(&mut self.chain, norm_offset);     // chain
          self.lz_pos = self.lz_pos.wrapping_sub(norm_offset);    // = cyclic_size
      }

  The definitions below are the SAME step functions over `movePosN`, which has that branch; `initN` takes the
  value `lz_pos` starts at (`HC4::new` uses `dict_size + 1`; the hook can set any other start value).
  Everything after `move_pos` is shared with the logical model: `find = findAfter ∘ movePos` and
  `findN = findAfter ∘ movePosN` (`find_eq_findAfter`, by `rfl`).

  The value 0.  `normalize` maps every entry `e ≤ norm_offset` to 0, and 0 also means "never written".  The code
  tolerates the ambiguity because `lz_pos ≥ cyclic_size` always holds (it starts at `cyclic_size`, only grows, and
  the normalisation resets it to exactly `cyclic_size`): an entry 0 has `delta = lz_pos - 0 ≥ cyclic_size` and is
  rejected by every distance test (`delta2 < cyclic_size`, `delta3 < cyclic_size`, `delta >= cyclic_size`).  A LIVE
  position is never stored as 0: the first stored value is `cyclic_size + 1`, and after a normalisation a position
  with `delta < cyclic_size` has the value `cyclic_size - delta ≥ 1` (`Proofs/MfRenormHc4.lean`: `ERel`).
-/
import LzmaVerif.Model.Hc4

namespace LzmaVerif.Mf

/-- where and how the finders renormalise (regenerated from hc4.rs / bt4.rs by the translator) -/
structure NormParams where
  /-- `if self.lz_pos == 0x7FFFFFFF` (hc4.rs) / `MAX_POS` (bt4.rs) -/
  maxPos : Nat := 0x7FFFFFFF
  /-- `let norm_offset = 0x7FFFFFFF - self.cyclic_size`: the minuend -/
  offBase : Nat := 0x7FFFFFFF
  deriving Repr, DecidableEq

/-- what the simulation proof needs of the constants: the offset is computed from the threshold itself -/
def NormParams.ok (N : NormParams) : Prop := N.offBase = N.maxPos

instance (N : NormParams) : Decidable N.ok := by unfold NormParams.ok; infer_instance

/-- `normalize_scalar` on one entry: `*p = (*p).max(norm_offset) - norm_offset`
    (the SIMD variants compute the same, `Props/C14.lean`) -/
def normPos (off e : Nat) : Nat := max e off - off

/-- `LZEncoder::normalize(positions, norm_offset)` -/
def normTable (off : Nat) (t : Array Nat) : Array Nat := t.map (normPos off)

namespace Hc4

/-- `self.hash.normalize(norm_offset); LZEncoder::normalize(&mut self.chain, norm_offset);
    self.lz_pos = self.lz_pos.wrapping_sub(norm_offset)` -/
def normalizeSt (off : Nat) (s : State) : State :=
  { s with h2 := normTable off s.h2, h3 := normTable off s.h3, h4 := normTable off s.h4,
           chain := normTable off s.chain, lzPos := s.lzPos - off }

/-- `HC4::move_pos` after `let avail = encoder.move_pos(4, 4)`, WITH the normalisation -/
def movePosN (N : NormParams) (P : Hc4Params) (c : Cfg) (s : State) (avail : Nat) : State :=
  if avail ≠ 0 then
    -- `self.lz_pos += 1; if self.lz_pos == 0x7FFFFFFF { … }`
    let s1 := { s with lzPos := s.lzPos + 1 }
    let s2 := if s1.lzPos = N.maxPos then normalizeSt (N.offBase - cyclicSize P c) s1 else s1
    let cp := s.cyclicPos + 1
    { s2 with pos := s.pos + 1, cyclicPos := if cp = (cyclicSize P c : Int) then 0 else cp }
  else { s with pos := s.pos + 1 }

/-- the part of `HC4::find_matches` after `let avail = self.move_pos(encoder)`;
    `p` = logical position searched, `s1` = state after `move_pos` -/
def findAfter (P : Hc4Params) (c : Cfg) (d : Array UInt8) (s1 : State) (p avail : Nat) :
    List Match × State :=
  if avail < c.mlmax ∧ avail = 0 then ([], s1)
  else
    let hs := hashesAt P c d p
    let delta2 := s1.lzPos - s1.h2.getD hs.h2 0
    let delta3 := s1.lzPos - s1.h3.getD hs.h3 0
    let cur := s1.h4.getD hs.h4 0
    let s2 := setChain (updateTables s1 hs) cur
    (findMatches P c d s2.chain s2.cyclicPos s2.lzPos p avail delta2 delta3 cur, s2)

theorem find_eq_findAfter (P : Hc4Params) (c : Cfg) (d : Array UInt8) (s : State) :
    find P c d s = findAfter P c d (movePos P c s (encMovePos P d s.pos)) s.pos (encMovePos P d s.pos) := rfl

/-- `HC4::find_matches` with the normalisation -/
def findN (N : NormParams) (P : Hc4Params) (c : Cfg) (d : Array UInt8) (s : State) : List Match × State :=
  findAfter P c d (movePosN N P c s (encMovePos P d s.pos)) s.pos (encMovePos P d s.pos)

/-- the body of the `while` loop of `HC4::skip` after `self.move_pos(encoder)` -/
def skip1After (P : Hc4Params) (c : Cfg) (d : Array UInt8) (s1 : State) (p avail : Nat) : State :=
  if avail ≠ 0 then
    let hs := hashesAt P c d p
    let cur := s1.h4.getD hs.h4 0
    updateTables (setChain s1 cur) hs
  else s1

theorem skip1_eq_skip1After (P : Hc4Params) (c : Cfg) (d : Array UInt8) (s : State) :
    skip1 P c d s = skip1After P c d (movePos P c s (encMovePos P d s.pos)) s.pos (encMovePos P d s.pos) := rfl

def skip1N (N : NormParams) (P : Hc4Params) (c : Cfg) (d : Array UInt8) (s : State) : State :=
  skip1After P c d (movePosN N P c s (encMovePos P d s.pos)) s.pos (encMovePos P d s.pos)

/-- `HC4::skip(len)` with the normalisation -/
def skipN (N : NormParams) (P : Hc4Params) (c : Cfg) (d : Array UInt8) : Nat → State → State
  | 0, s => s
  | n + 1, s => skipN N P c d n (skip1N N P c d s)

/-- `HC4::new`, with `lz_pos` starting at `lzStart` (the hook `mf_trace_biased`; `HC4::new` itself uses
    `dict_size + 1`, i.e. `initN P c (c.dict + P.lzPosInitExtra) = init P c`) -/
def initN (P : Hc4Params) (c : Cfg) (lzStart : Nat) : State := { init P c with lzPos := lzStart }

theorem initN_default (P : Hc4Params) (c : Cfg) : initN P c (c.dict + P.lzPosInitExtra) = init P c := rfl

def runScriptAuxN (N : NormParams) (P : Hc4Params) (c : Cfg) (d : Array UInt8) :
    List Nat → State → List (Nat × List Match) → List (Nat × List Match) × State
  | [], s, acc => (acc.reverse, s)
  | op :: rest, s, acc =>
    if exhausted d s then (acc.reverse, s)
    else if op = 0 then
      let p := s.pos
      let r := findN N P c d s
      runScriptAuxN N P c d rest r.2 ((p, r.1) :: acc)
    else runScriptAuxN N P c d rest (skipN N P c d op s) acc

/-- a script on the renormalising finder started at `lz_pos = lzStart` -/
def runScriptN (N : NormParams) (P : Hc4Params) (c : Cfg) (d : Array UInt8) (lzStart : Nat)
    (script : List Nat) : List (Nat × List Match) × State :=
  runScriptAuxN N P c d script (initN P c lzStart) []

end Hc4
end LzmaVerif.Mf
