import LzmaVerif.Model.MTTrace
/-
Trace validation for the multi-threaded WRITERS (`src/enc/lzma2_writer_mt.rs`, `src/lzip/writer_mt.rs`).

Finding of the trace validation: the writers' coordinator does NOT follow `MT.coordStep`.  Its loop
`get_next_compressed_chunk(blocking)` is driven by `write` / `flush` / `finish`; a unit is pushed by
`send_work_unit` after `while work_queue.len() >= 4 { blocking receive }` WITHOUT polling the result
channel first, a non-blocking poll that finds nothing returns to `write`, `Finishing` ends only when
the reorder buffer is empty, and `finish` closes the queue itself before `Drop` does it again.  The LTS's
coordinator receives whatever is in the channel before it looks at the queue and the source, so e.g.
"push unit 5 while the result of unit 1 waits in the channel" is a behaviour of the writers that is not a
path of the LTS.  The WORKER loop, the queue, the channel, the error store and the flags are the same code
shape in all four types.

What is validated for the writers therefore is the OPEN system: the workers follow `MT.workerStep`
exactly (same renaming / stutter rules as for the readers), and the shared state evolves only by worker
steps and by the coordinator's logged operations on the shared objects, applied as environment actions
(`envStep`): push (append + wake the first waiter), spawn, receive the head of the channel, take / set
the error, deliver the next unit in order, close.  What the coordinator observes (`active_workers`,
`work_queue.len()`, error store empty / set, channel empty / head) is compared with the model state.
Core Lean only.
-/
namespace LzmaVerif.MT.TraceW
open LzmaVerif.MT LzmaVerif.MT.Trace

inductive EnvAct where
  | push (q : Nat) | spawn | recv | takeErr | setErr | deliver (q : Nat) | close
deriving DecidableEq, Repr

inductive OLabel where
  | worker (i : Nat) | env (a : EnvAct)
deriving DecidableEq, Repr

/-- the coordinator's operations on the shared objects -/
def envStep (s : Sys) : EnvAct → Option Sys
  | .push q => some { s with queue := s.queue ++ [q], ws := wakeOne s.ws, nextDispatch := q + 1 }
  | .spawn => some { s with ws := s.ws ++ [.chkShutdown] }
  | .recv => match s.chan with
    | _ :: r => some { s with chan := r }
    | [] => none
  | .takeErr => if s.errStored then some { s with errStored := false } else none
  | .setErr => some { s with errStored := true, shutdown := true }
  | .deliver q =>
    if q = s.nextReturn then some { s with nextReturn := q + 1, delivered := s.delivered ++ [q] } else none
  | .close => some { s with shutdown := true, closed := true, ws := wakeAll s.ws }

def ostep (s : Sys) : OLabel → Option Sys
  | .worker i => workerStep s i
  | .env a => envStep s a

def orun (s : Sys) : List OLabel → Option Sys
  | [] => some s
  | l :: ls => (ostep s l).bind fun s' => orun s' ls

theorem orun_append (s : Sys) (a b : List OLabel) :
    orun s (a ++ b) = (orun s a).bind fun s' => orun s' b := by
  induction a generalizing s with
  | nil => rfl
  | cons l ls ih =>
    simp only [List.cons_append, orun]
    cases ostep s l with
    | none => rfl
    | some s1 => exact ih s1

structure OPath (cfg : Cfg) where
  rev : List OLabel
  sys : Sys
  ok : orun (init cfg) rev.reverse = some sys

def OPath.start (cfg : Cfg) : OPath cfg := ⟨[], init cfg, rfl⟩

def OPath.step {cfg : Cfg} (p : OPath cfg) (l : OLabel) : Option (OPath cfg) :=
  match h : ostep p.sys l with
  | none => none
  | some s' => some ⟨l :: p.rev, s', by
      rw [List.reverse_cons, orun_append, p.ok]
      simp [orun, h]⟩

structure WS (cfg : Cfg) where
  path : OPath cfg
  perm : List Nat
  blocked : List Bool
  nSwap : Nat := 0
  nPhantom : Nat := 0
  nDropWin : Nat := 0
  nPushBusy : Nat := 0  -- pushes while a message waits in the channel (impossible for `MT.coordStep`)

def WS.start (cfg : Cfg) : WS cfg :=
  { path := OPath.start cfg, perm := List.range cfg.initialWorkers,
    blocked := List.replicate cfg.initialWorkers false }

abbrev RW (cfg : Cfg) := Except String (WS cfg)

def env {cfg : Cfg} (v : WS cfg) (a : EnvAct) : RW cfg :=
  match v.path.step (.env a) with
  | some p => .ok { v with path := p }
  | none => .error s!"coordinator operation {repr a} is not possible in the model state"

def chk {cfg : Cfg} (v : WS cfg) (b : Bool) (what : String) : RW cfg :=
  if b then .ok v else .error s!"the coordinator observed {what}, the model state differs"

def wStep {cfg : Cfg} (v : WS cfg) (j : Nat) (pre : WPc → Bool) (post : WPc → Bool) : RW cfg :=
  match v.path.sys.ws[j]? with
  | none => .error "no such worker in the model"
  | some w =>
    if !pre w then .error s!"model worker {j} is at {repr w}"
    else match v.path.step (.worker j) with
      | none => .error s!"worker step not enabled (model worker {j} at {repr w})"
      | some p =>
        match p.sys.ws[j]? with
        | some w' =>
          if post w' then .ok { v with path := p }
          else .error s!"the model's step has a different outcome (model worker {j}: {repr w} -> {repr w'})"
        | none => .error "worker vanished"

def findSwap {cfg : Cfg} (v : WS cfg) : Option Nat :=
  (List.range v.perm.length).find? fun i2 =>
    v.blocked.getD i2 false && v.path.sys.ws[v.perm.getD i2 0]? == some .steal

def ensureSteal {cfg : Cfg} (v : WS cfg) (i : Nat) : WS cfg :=
  if v.path.sys.ws[v.perm.getD i 0]? == some .waiting then
    match findSwap v with
    | some i2 => { v with perm := swapPerm v.perm i i2, nSwap := v.nSwap + 1 }
    | none => v
  else v

def setBlocked {cfg : Cfg} (v : WS cfg) (i : Nat) (b : Bool) : WS cfg := { v with blocked := v.blocked.set i b }

/-- the worker events: identical to `Trace.onW` (the worker loop is the same code in all four types) -/
def onW {cfg : Cfg} (v : WS cfg) (i : Nat) (e : WEv) : RW cfg :=
  if i ≥ v.perm.length then .error "unknown worker" else
  match e with
  | .start =>
    if v.path.sys.ws[v.perm.getD i 0]? == some .chkShutdown then .ok v else .error "a new worker starts at chkShutdown"
  | .sd b => wStep v (v.perm.getD i 0) (· == .chkShutdown) (fun w' => (w' == .exited) == b)
  | .pop q => let v := ensureSteal v i; wStep v (v.perm.getD i 0) (· == .steal) (· == .got q)
  | .closed => let v := ensureSteal v i; wStep v (v.perm.getD i 0) (· == .steal) (· == .exited)
  | .wait =>
    let v := ensureSteal v i
    let j := v.perm.getD i 0
    match v.path.sys.ws[j]? with
    | some .steal =>
      if v.path.sys.closed then .ok { setBlocked v i true with nDropWin := v.nDropWin + 1 }
      else (wStep v j (· == .steal) (· == .waiting)).map fun v => setBlocked v i true
    | some .waiting => .ok { setBlocked v i true with nPhantom := v.nPhantom + 1 }
    | w => .error s!"model worker {j} is at {repr w}"
  | .woke => .ok (setBlocked v i false)
  | .inc => wStep v (v.perm.getD i 0) (fun w => match w with | .got _ => true | _ => false) (fun _ => true)
  | .ok q => wStep v (v.perm.getD i 0) (· == .work q) (· == .send q)
  | .fail q => wStep v (v.perm.getD i 0) (· == .work q) (· == .failDecr)
  | .sent q _ => wStep v (v.perm.getD i 0) (· == .send q) (· == .decr)
  | .dec => wStep v (v.perm.getD i 0) (fun w => w == .decr || w == .failDecr) (fun _ => true)
  | .setErr => wStep v (v.perm.getD i 0) (· == .failSet) (· == .failWake)
  | .sentWake => wStep v (v.perm.getD i 0) (· == .failWake) (· == .exited)
  | .exit =>
    let j := v.perm.getD i 0
    match v.path.sys.ws[j]? with
    | some .exited => .ok v
    | some .chkShutdown => wStep v j (· == .chkShutdown) (· == .exited)
    | w => .error s!"thread returns while model worker {j} is at {repr w}"

def onRecv {cfg : Cfg} (v : WS cfg) : RecvObs → RW cfg
  | .empty => chk v v.path.sys.chan.isEmpty "an empty channel"
  | .result q => do
    let v ← chk v (v.path.sys.chan.head? == some (.result q)) s!"result {q} at the head of the channel"
    env v .recv
  | .wake => do
    let v ← chk v (v.path.sys.chan.head? == some .wake) "the wake-up message at the head of the channel"
    env v .recv
  | .disc => .error "the channel cannot be disconnected: the writer holds a sender"

def onEv {cfg : Cfg} (v : WS cfg) : Ev → RW cfg
  | .w i e => onW v i e
  | .drop => env v .close
  | .ret (.data q) => env v (.deliver q)
  | .c (.push q) =>
    env { v with nPushBusy := v.nPushBusy + (if v.path.sys.chan.isEmpty then 0 else 1) } (.push q)
  | .c (.ldActive a) => chk v (v.path.sys.active == a) s!"active_workers = {a}"
  | .c (.spawn _ q d) => do
    let v ← chk v (v.path.sys.queue.length == q) s!"work_queue.len() = {q}"
    if d then
      let v ← env v .spawn
      pure { v with perm := v.perm ++ [v.perm.length], blocked := v.blocked ++ [false] }
    else pure v
  | .c (.err true) => env v .takeErr
  | .c (.err false) => chk v (!v.path.sys.errStored) "an empty error store"
  | .c (.tryRecv r) => onRecv v r
  | .c (.recv r) => onRecv v r
  | .c (.src .err) => env v .setErr
  | _ => .ok v      -- control flow of the writers' coordinator: not part of the open system

def finalOk (s : Sys) : Bool := s.closed && s.shutdown && s.ws.all (· == .exited)

def replayFrom {cfg : Cfg} (v : WS cfg) (k : Nat) : List Ev → Except (Nat × String) (WS cfg)
  | [] => .ok v
  | e :: r =>
    match onEv v e with
    | .ok v' => replayFrom v' (k + 1) r
    | .error m => .error (k, s!"{m}; model: {showSys v.path.sys}")

def replay (cfg : Cfg) (evs : List Ev) : Except (Nat × String) (WS cfg) :=
  match replayFrom (WS.start cfg) 0 (resolveSpawn evs) with
  | .ok v =>
    if finalOk v.path.sys then .ok v
    else .error (evs.length, s!"final state: queue not closed or a worker has not exited; model: {showSys v.path.sys}")
  | .error e => .error e

end LzmaVerif.MT.TraceW
