/-
  BT4 WITH the 31-bit position renormalisation (src/lz/bt4.rs `move_pos`, hash234.rs `normalize`,
  lz_encoder.rs `LZEncoder::normalize`).  Import-free; run by the compiled driver
  (`mf.trace kind=bt4 ... lzstart=<n>`) against the real finder started at the same `lz_pos` through the hook
  `verif_hooks::mf_trace_biased`.

  `Model/Bt4.lean` stores `lz_pos` values in the hash tables and in the tree (0 = "empty") but its `movePos`
  leaves out

      self.lz_pos += 1;
      if self.lz_pos == MAX_POS {
          let normalization_offset = MAX_POS - self.cyclic_size;
          self.hash.normalize(normalization_offset);
          LZEncoder::normalize(&mut self.tree, normalization_offset);
          self.lz_pos -= normalization_offset;
      }

  `movePosN` adds it (the update of `cyclic_pos` that follows in the Rust text touches another field, so
  "normalise, then bump `cyclic_pos`" and "`movePos`, then normalise" are the same function); everything after
  `move_pos` is shared with the logical model (`find = findAfter ∘ movePos`, `skipOne = skipOneAfter ∘ movePos`,
  by `rfl`).  See `Model/Hc4Renorm.lean` for the discussion of the value 0.
-/
import LzmaVerif.Model.Bt4
import LzmaVerif.Model.Hc4Renorm

namespace LzmaVerif.Mf.Bt4

/-- `self.hash.normalize(off); LZEncoder::normalize(&mut self.tree, off); self.lz_pos -= off` -/
def normalizeSt (off : Nat) (s : St) : St :=
  { s with h2 := normTable off s.h2, h3 := normTable off s.h3, h4 := normTable off s.h4,
           tree := normTable off s.tree, lzPos := s.lzPos - off }

/-- `BT4::move_pos` with the normalisation -/
def movePosN (N : NormParams) (P : Bt4Params) (c : Cfg) (dsize : Nat) (s : St) : St × Nat :=
  let r := movePos P c dsize s
  -- `if avail != 0 { self.lz_pos += 1; if self.lz_pos == MAX_POS { … } … }`
  if r.2 ≠ 0 ∧ r.1.lzPos = N.maxPos then (normalizeSt (N.offBase - cyclicSize P c) r.1, r.2) else r

/-- `BT4::find_matches` after `let avail = self.move_pos(encoder)` -/
def findAfter (P : Bt4Params) (c : Cfg) (data : Array UInt8) (r : St × Nat) : St × Array Match :=
  let (s, avail) := r
  if avail < c.mlmax ∧ avail = 0 then (s, #[]) else
  let lenLimit := if avail < c.mlmax then avail else c.mlmax
  let niceLimit := if avail < c.mlmax ∧ c.niceLen > avail then avail else c.niceLen
  let ⟨s, delta2, delta3, cur⟩ := hashStage P c data s
  let k := ctxOf P c s lenLimit niceLimit
  let ⟨h2, h3, h4, tree, cyclicPos, lzPos, pos, log⟩ := s
  let cd := extendCands data k.p lenLimit (hashCands P data k.p k.cs delta2 delta3 log)
  if cd.ms.size > 0 ∧ geOrGt P.niceStopGe cd.lenBest niceLimit = true then
    (skipTree P c data ⟨h2, h3, h4, tree, cyclicPos, lzPos, pos, cd.log⟩ niceLimit cur, cd.ms)
  else
    let lenBest := if cd.lenBest < P.lenBestFloor then P.lenBestFloor else cd.lenBest
    let (tree, ms, log) :=
      findLoop P data k (depthLimit P c) tree (shl P cyclicPos + 1) (shl P cyclicPos) 0 0 cur lenBest cd.ms cd.log
    (⟨h2, h3, h4, tree, cyclicPos, lzPos, pos, log⟩, ms)

theorem find_eq_findAfter (P : Bt4Params) (c : Cfg) (data : Array UInt8) (s : St) :
    find P c data s = findAfter P c data (movePos P c data.size s) := rfl

def findN (N : NormParams) (P : Bt4Params) (c : Cfg) (data : Array UInt8) (s : St) : St × Array Match :=
  findAfter P c data (movePosN N P c data.size s)

/-- one iteration of the public `BT4::skip` loop after `let avail = self.move_pos(encoder)` -/
def skipOneAfter (P : Bt4Params) (c : Cfg) (data : Array UInt8) (r : St × Nat) : St :=
  let (s, avail) := r
  if avail < c.niceLen ∧ avail = 0 then s else
  let niceLimit := if avail < c.niceLen then avail else c.niceLen
  let ⟨s, _, _, cur⟩ := hashStage P c data s
  skipTree P c data s niceLimit cur

theorem skipOne_eq_skipOneAfter (P : Bt4Params) (c : Cfg) (data : Array UInt8) (s : St) :
    skipOne P c data s = skipOneAfter P c data (movePos P c data.size s) := rfl

def skipOneN (N : NormParams) (P : Bt4Params) (c : Cfg) (data : Array UInt8) (s : St) : St :=
  skipOneAfter P c data (movePosN N P c data.size s)

def skipN (N : NormParams) (P : Bt4Params) (c : Cfg) (data : Array UInt8) : Nat → St → St
  | 0, s => s
  | n + 1, s => skipN N P c data n (skipOneN N P c data s)

def runOpN (N : NormParams) (P : Bt4Params) (c : Cfg) (data : Array UInt8) (op : Nat) (s : St)
    (tr : Array (Nat × List Match)) : St × Array (Nat × List Match) :=
  if op = 0 then
    let p := s.pos
    let (s, ms) := findN N P c data s
    (s, tr.push (p, ms.toList))
  else (skipN N P c data op s, tr)

def runOpsN (N : NormParams) (P : Bt4Params) (c : Cfg) (data : Array UInt8) :
    List Nat → St → Array (Nat × List Match) → St × Array (Nat × List Match)
  | [], s, tr => (s, tr)
  | op :: rest, s, tr =>
    if s.pos > 0 ∧ ¬ s.pos < data.size then (s, tr)
    else
      let (s, tr) := runOpN N P c data op s tr
      runOpsN N P c data rest s tr

/-- `BT4::new` with `lz_pos` starting at `lzStart` (`BT4::new` itself uses `cyclic_size`) -/
def initN (P : Bt4Params) (c : Cfg) (logging : Bool) (lzStart : Nat) : St :=
  { init P c logging with lzPos := lzStart }

theorem initN_default (P : Bt4Params) (c : Cfg) (logging : Bool) :
    initN P c logging (cyclicSize P c) = init P c logging := rfl

/-- a script on the renormalising finder started at `lz_pos = lzStart` -/
def runScriptN (N : NormParams) (P : Bt4Params) (c : Cfg) (data : Array UInt8) (lzStart : Nat)
    (script : List Nat) (logging : Bool := false) : St × List (Nat × List Match) :=
  let (s, tr) := runOpsN N P c data script (initN P c logging lzStart) #[]
  (s, tr.toList)

end LzmaVerif.Mf.Bt4
