/-
  Executable model of the hash-chain match finder `HC4` (src/lz/hc4.rs) on top of `MfBase`
  (src/lz/hash234.rs, `extend_match`, `Matches`, `LZEncoderData::move_pos`).  Import-free.

  Coordinates: LOGICAL positions, see `MfBase.lean`.  `State.pos` is the number of `move_pos` calls so
  far, i.e. the index in `data` of the byte the NEXT `find`/`skip` step looks at.

  Every constant and comparison shape of hc4.rs that matters for correctness is a field of `Hc4Params`
  (regenerated from the Rust source by the translator); the step functions use the fields, the
  theorems of `Props/C01Hc4.lean` hold for every `P` with `P.ok`.
-/
import LzmaVerif.Model.MfBase

namespace LzmaVerif.Mf.Hc4

/-- constants / comparison shapes of `src/lz/hc4.rs` (defaults = the current source) -/
structure Hc4Params where
  /-- `if delta2 < self.cyclic_size && …` in `find_matches` (`false` would mean `<=`) -/
  d2Strict : Bool := true
  /-- `&& delta3 < self.cyclic_size` in `find_matches` (`false` would mean `<=`) -/
  d3Strict : Bool := true
  /-- `|| delta >= self.cyclic_size` in the chain loop of `find_matches` (`false` would mean `>`) -/
  chainStopGe : Bool := true
  /-- `cyclic_size: dict_size as i32 + 1` in `HC4::new` -/
  cyclicExtra : Nat := 1
  /-- `lz_pos: dict_size as i32 + 1` in `HC4::new` -/
  lzPosInitExtra : Nat := 1
  /-- `vec![0; dict_size as usize + 1]` (chain length) in `HC4::new` -/
  chainExtra : Nat := 1
  /-- `matches.dist[..] = delta2 - 1` / `delta3 - 1` / `(delta - 1)` in `find_matches` -/
  distSub : Nat := 1
  /-- `if len_best < 3 { len_best = 3; }` in `find_matches` -/
  lenBestFloor : Nat := 3
  /-- `encoder.move_pos(4, 4)` in `HC4::move_pos` (required_for_finishing) -/
  minAvail : Nat := 4
  /-- `4 + nice_len as i32 / 4` in `HC4::new`: the `4 +` -/
  depthBase : Nat := 4
  /-- `4 + nice_len as i32 / 4` in `HC4::new`: the `/ 4` -/
  depthDiv : Nat := 4
  /-- constants of hash234.rs -/
  hash : HashParams := {}
  deriving Repr, DecidableEq

/-- what the soundness of `hash2`/`hash3` hits needs of the hash constants: the masks
    `HASH2_SIZE - 1` / `HASH3_SIZE - 1` keep the low 8 / 16 bits and byte 2 is shifted by exactly 8 -/
def hashOk (H : HashParams) : Prop :=
  H.hash2Size % 256 = 0 ∧ 0 < H.hash2Size ∧ H.hash3Size % 65536 = 0 ∧ 0 < H.hash3Size ∧ H.shift3 = 8

instance (H : HashParams) : Decidable (hashOk H) := by unfold hashOk; infer_instance

/-- the conditions on the constants of hc4.rs that the proofs need -/
def Hc4Params.ok (P : Hc4Params) : Prop :=
  P.d2Strict = true ∧ P.d3Strict = true ∧ P.chainStopGe = true ∧
  P.cyclicExtra = 1 ∧ P.lzPosInitExtra = 1 ∧ 1 ≤ P.chainExtra ∧ P.distSub = 1 ∧
  1 ≤ P.lenBestFloor ∧ P.lenBestFloor < P.minAvail ∧ 4 ≤ P.minAvail ∧ hashOk P.hash

instance (P : Hc4Params) : Decidable P.ok := by unfold Hc4Params.ok; infer_instance

example : ({} : Hc4Params).ok := by decide

/-- what the caller passes to `LZEncoder::new_hc4` -/
structure Cfg where
  dict : Nat            -- dict_size
  niceLen : Nat         -- nice_len
  mlmax : Nat           -- match_len_max
  depthLimit : Nat := 0 -- raw `depth_limit` option (0 / negative = use the default formula)
  deriving Repr, DecidableEq

/-- `cyclic_size` -/
def cyclicSize (P : Hc4Params) (c : Cfg) : Nat := c.dict + P.cyclicExtra

/-- `depth_limit: if depth_limit > 0 { depth_limit } else { 4 + nice_len as i32 / 4 }` -/
def depthOf (P : Hc4Params) (c : Cfg) : Nat :=
  if c.depthLimit > 0 then c.depthLimit else P.depthBase + c.niceLen / P.depthDiv

structure State where
  h2 : Array Nat        -- hash2_table
  h3 : Array Nat        -- hash3_table
  h4 : Array Nat        -- hash4_table
  chain : Array Nat     -- chain
  cyclicPos : Int       -- cyclic_pos (starts at -1)
  lzPos : Nat           -- lz_pos
  pos : Nat             -- read_pos + 1 in logical coordinates (number of `move_pos` calls so far)
  deriving Repr

/-- `HC4::new` + `Hash234::new` -/
def init (P : Hc4Params) (c : Cfg) : State :=
  { h2 := Array.replicate P.hash.hash2Size 0
    h3 := Array.replicate P.hash.hash3Size 0
    h4 := Array.replicate (hash4Size P.hash c.dict) 0
    chain := Array.replicate (c.dict + P.chainExtra) 0
    cyclicPos := -1
    lzPos := c.dict + P.lzPosInitExtra
    pos := 0 }

/-- `LZEncoderData::move_pos(4, 4)` with everything present ("finishing"): the new `read_pos` is `pos`;
    returns 0 (byte left pending) when fewer than `minAvail` bytes are available -/
def encMovePos (P : Hc4Params) (d : Array UInt8) (pos : Nat) : Nat :=
  let avail := d.size - pos
  if avail < P.minAvail then 0 else avail

/-- `HC4::move_pos` after `let avail = encoder.move_pos(4, 4)` (without the normalisation at
    `lz_pos = 0x7FFFFFFF`, see `normEntry` below) -/
def movePos (P : Hc4Params) (c : Cfg) (s : State) (avail : Nat) : State :=
  if avail ≠ 0 then
    let cp := s.cyclicPos + 1
    { s with pos := s.pos + 1, lzPos := s.lzPos + 1,
             cyclicPos := if cp = (cyclicSize P c : Int) then 0 else cp }
  else { s with pos := s.pos + 1 }

/-- `calc_hashes(encoder.read_buffer())` at logical position `p` -/
def hashesAt (P : Hc4Params) (c : Cfg) (d : Array UInt8) (p : Nat) : Hashes :=
  calcHashes P.hash (hash4Size P.hash c.dict - 1)
    (byteAt d p) (byteAt d (p + 1)) (byteAt d (p + 2)) (byteAt d (p + 3))

/-- `Hash234::update_tables(self.lz_pos)` -/
def updateTables (s : State) (hs : Hashes) : State :=
  match s with
  | ⟨h2, h3, h4, chain, cp, lz, pos⟩ =>
    ⟨h2.setIfInBounds hs.h2 lz, h3.setIfInBounds hs.h3 lz, h4.setIfInBounds hs.h4 lz, chain, cp, lz, pos⟩

/-- `self.chain[self.cyclic_pos as usize] = v` -/
def setChain (s : State) (v : Nat) : State :=
  match s with
  | ⟨h2, h3, h4, chain, cp, lz, pos⟩ => ⟨h2, h3, h4, chain.setIfInBounds cp.toNat v, cp, lz, pos⟩

/-- `a < b` (strict) or `a <= b` -/
def cmpLt (strict : Bool) (a b : Nat) : Bool := if strict then decide (a < b) else decide (a ≤ b)

/-- `match_len_limit` after `if avail < match_len_limit { … match_len_limit = avail; … }` -/
def matchLenLimit (c : Cfg) (avail : Nat) : Nat := if avail < c.mlmax then avail else c.mlmax

/-- `nice_len_limit` after `if avail < match_len_limit { … if nice_len_limit > avail { nice_len_limit = avail } }` -/
def niceLenLimit (c : Cfg) (avail : Nat) : Nat :=
  if avail < c.mlmax then (if c.niceLen > avail then avail else c.niceLen) else c.niceLen

/-- `matches.len[count - 1] = len_best` on the reversed list (newest match first) -/
def setLastLen (len : Nat) : List Match → List Match
  | [] => []
  | m :: r => (len, m.2) :: r

/-- index into the chain: `self.cyclic_pos - delta + if delta > self.cyclic_pos { self.cyclic_size } else { 0 }` -/
def chainIdx (cs : Nat) (cp : Int) (delta : Nat) : Int :=
  cp - (delta : Int) + (if (delta : Int) > cp then (cs : Int) else 0)

/-- the `loop { … }` of `find_matches`; `acc` = matches so far, newest first; structural on `depth`
    (`depth-- == 0` is the first exit test) -/
def chainLoop (P : Hc4Params) (d : Array UInt8) (chain : Array Nat) (cs : Nat) (cp : Int)
    (lz p mll nll : Nat) : (depth : Nat) → (cur lenBest : Nat) → (acc : List Match) → List Match
  | 0, _, _, acc => acc
  | depth + 1, cur, lenBest, acc =>
    let delta := lz - cur
    if (if P.chainStopGe then decide (delta ≥ cs) else decide (delta > cs)) then acc
    else
      let cur' := chain.getD (chainIdx cs cp delta).toNat 0
      if byteAt d (p + lenBest - delta) = byteAt d (p + lenBest) ∧ byteAt d (p - delta) = byteAt d p then
        let len := extendMatch d p delta mll 1
        if len > lenBest then
          let acc' := (len, delta - P.distSub) :: acc
          if len ≥ nll then acc' else chainLoop P d chain cs cp lz p mll nll depth cur' len acc'
        else chainLoop P d chain cs cp lz p mll nll depth cur' lenBest acc
      else chainLoop P d chain cs cp lz p mll nll depth cur' lenBest acc

/-- the part of `find_matches` after the tables were read and updated.  Returns the matches in the
    order of `Matches` (increasing length). -/
def findMatches (P : Hc4Params) (c : Cfg) (d : Array UInt8) (chain : Array Nat) (cp : Int)
    (lz p avail delta2 delta3 cur : Nat) : List Match :=
  let cs := cyclicSize P c
  let mll := matchLenLimit c avail
  let nll := niceLenLimit c avail
  -- `if delta2 < self.cyclic_size && get_byte_by_pos(read_pos - delta2) == get_byte_by_pos(read_pos)`
  let c2 := cmpLt P.d2Strict delta2 cs && (byteAt d (p - delta2) == byteAt d p)
  let acc1 : List Match := if c2 then [(2, delta2 - P.distSub)] else []
  let lb1 := if c2 then 2 else 0
  -- `if delta2 != delta3 && delta3 < self.cyclic_size && get_byte(0, delta3) == get_current_byte()`
  let c3 := (delta2 != delta3) && cmpLt P.d3Strict delta3 cs && (byteAt d (p - delta3) == byteAt d p)
  -- (`matches.len[count]` is not written here; it is overwritten below because `count > 0`)
  let acc2 : List Match := if c3 then (0, delta3 - P.distSub) :: acc1 else acc1
  let lb2 := if c3 then 3 else lb1
  let dl := if c3 then delta3 else delta2          -- `delta2 = delta3`
  -- `if matches.count > 0 { len_best = extend_match(…, len_best, delta2, match_len_limit); … }`
  let lb3 := if acc2.length > 0 then extendMatch d p dl mll lb2 else lb2
  let acc3 := if acc2.length > 0 then setLastLen lb3 acc2 else acc2
  if acc2.length > 0 ∧ lb3 ≥ nll then acc3.reverse
  else
    let lb4 := if lb3 < P.lenBestFloor then P.lenBestFloor else lb3
    (chainLoop P d chain cs cp lz p mll nll (depthOf P c) cur lb4 acc3).reverse

/-- `HC4::find_matches`: the matches reported for position `s.pos`, and the new state -/
def find (P : Hc4Params) (c : Cfg) (d : Array UInt8) (s : State) : List Match × State :=
  let p := s.pos
  let avail := encMovePos P d p
  let s1 := movePos P c s avail
  -- `if avail < match_len_limit { if avail == 0 { return; } … }`
  if avail < c.mlmax ∧ avail = 0 then ([], s1)
  else
    let hs := hashesAt P c d p
    let delta2 := s1.lzPos - s1.h2.getD hs.h2 0
    let delta3 := s1.lzPos - s1.h3.getD hs.h3 0
    let cur := s1.h4.getD hs.h4 0
    let s2 := setChain (updateTables s1 hs) cur
    (findMatches P c d s2.chain s2.cyclicPos s2.lzPos p avail delta2 delta3 cur, s2)

/-- one iteration of the `while len > 0` loop of `HC4::skip` -/
def skip1 (P : Hc4Params) (c : Cfg) (d : Array UInt8) (s : State) : State :=
  let p := s.pos
  let avail := encMovePos P d p
  let s1 := movePos P c s avail
  if avail ≠ 0 then
    let hs := hashesAt P c d p
    let cur := s1.h4.getD hs.h4 0
    updateTables (setChain s1 cur) hs
  else s1

/-- `HC4::skip(len)` -/
def skip (P : Hc4Params) (c : Cfg) (d : Array UInt8) : Nat → State → State
  | 0, s => s
  | n + 1, s => skip P c d n (skip1 P c d s)

/-- the hook `mf_trace` stops the script once all input has been consumed -/
def exhausted (d : Array UInt8) (s : State) : Bool := decide (1 ≤ s.pos ∧ d.size ≤ s.pos)

/-- run a script (0 = `find_matches`, n > 0 = `skip(n)`); the trace lists every find in order
    (newest first in `acc`) as `(position, matches)` -/
def runScriptAux (P : Hc4Params) (c : Cfg) (d : Array UInt8) :
    List Nat → State → List (Nat × List Match) → List (Nat × List Match) × State
  | [], s, acc => (acc.reverse, s)
  | op :: rest, s, acc =>
    if exhausted d s then (acc.reverse, s)
    else if op = 0 then
      let p := s.pos
      let r := find P c d s
      runScriptAux P c d rest r.2 ((p, r.1) :: acc)
    else runScriptAux P c d rest (skip P c d op s) acc

def runScript (P : Hc4Params) (c : Cfg) (d : Array UInt8) (script : List Nat) :
    List (Nat × List Match) × State :=
  runScriptAux P c d script (init P c) []

/-! ### access log: every array index / data index / subtraction the step computes -/

inductive Access where
  /-- index `idx` into a table of `size` entries (`idx` as computed, before `as usize`) -/
  | tbl (idx : Int) (size : Nat)
  /-- read of the logical input at `p + fwd - back` (`get_byte(fwd, back)`): needs `back ≤ p + fwd`
      and `p + fwd - back < data.size` -/
  | data (p fwd back : Nat)
  /-- `extend_match(buf, read_pos, cur, delta, limit)`: needs `delta ≤ p + cur`, `cur ≤ limit`,
      `p + limit ≤ data.size` -/
  | ext (p cur delta limit : Nat)
  /-- `a - b` on positions (`lz_pos - entry`): needs `b ≤ a` (no wrap-around) -/
  | sub (a b : Nat)
  deriving Repr, DecidableEq

def Access.okB (dataSize : Nat) : Access → Bool
  | .tbl idx size => decide (0 ≤ idx ∧ idx < (size : Int))
  | .data p fwd back => decide (back ≤ p + fwd ∧ p + fwd - back < dataSize)
  | .ext p cur delta limit => decide (delta ≤ p + cur ∧ cur ≤ limit ∧ p + limit ≤ dataSize)
  | .sub a b => decide (b ≤ a)

/-- accesses of the chain loop (same control flow as `chainLoop`) -/
def chainLoopAcc (P : Hc4Params) (d : Array UInt8) (chain : Array Nat) (cs : Nat) (cp : Int)
    (lz p mll nll : Nat) : (depth : Nat) → (cur lenBest : Nat) → List Access
  | 0, _, _ => []
  | depth + 1, cur, lenBest =>
    let delta := lz - cur
    .sub lz cur ::
    if (if P.chainStopGe then decide (delta ≥ cs) else decide (delta > cs)) then []
    else
      let i := chainIdx cs cp delta
      let cur' := chain.getD i.toNat 0
      .tbl i chain.size :: .data p lenBest delta :: .data p lenBest 0 ::
      if byteAt d (p + lenBest - delta) = byteAt d (p + lenBest) then
        .data p 0 delta :: .data p 0 0 ::
        if byteAt d (p - delta) = byteAt d p then
          let len := extendMatch d p delta mll 1
          .ext p 1 delta mll ::
          if len > lenBest then
            if len ≥ nll then [] else chainLoopAcc P d chain cs cp lz p mll nll depth cur' len
          else chainLoopAcc P d chain cs cp lz p mll nll depth cur' lenBest
        else chainLoopAcc P d chain cs cp lz p mll nll depth cur' lenBest
      else chainLoopAcc P d chain cs cp lz p mll nll depth cur' lenBest

/-- accesses of `findMatches` -/
def findMatchesAcc (P : Hc4Params) (c : Cfg) (d : Array UInt8) (chain : Array Nat) (cp : Int)
    (lz p avail delta2 delta3 cur : Nat) : List Access :=
  let cs := cyclicSize P c
  let mll := matchLenLimit c avail
  let nll := niceLenLimit c avail
  let t2 := cmpLt P.d2Strict delta2 cs
  let c2 := t2 && (byteAt d (p - delta2) == byteAt d p)
  let a2 : List Access := if t2 then [.data p 0 delta2, .data p 0 0] else []
  let lb1 := if c2 then 2 else 0
  let t3 := (delta2 != delta3) && cmpLt P.d3Strict delta3 cs
  let c3 := t3 && (byteAt d (p - delta3) == byteAt d p)
  let a3 : List Access := if t3 then [.data p 0 delta3, .data p 0 0] else []
  let lb2 := if c3 then 3 else lb1
  let dl := if c3 then delta3 else delta2
  let hit := c2 || c3
  let lb3 := if hit then extendMatch d p dl mll lb2 else lb2
  let a4 : List Access := if hit then [.ext p lb2 dl mll] else []
  a2 ++ a3 ++ a4 ++
  if hit ∧ lb3 ≥ nll then []
  else
    let lb4 := if lb3 < P.lenBestFloor then P.lenBestFloor else lb3
    chainLoopAcc P d chain cs cp lz p mll nll (depthOf P c) cur lb4

/-- table / chain / data accesses of one insertion (`calc_hashes`, table reads, `update_tables`,
    `chain[cyclic_pos] = …`) at position `p` in the state after `move_pos` -/
def insertAcc (P : Hc4Params) (c : Cfg) (d : Array UInt8) (s1 : State) (p : Nat) : List Access :=
  let hs := hashesAt P c d p
  [.data p 0 0, .data p 1 0, .data p 2 0, .data p 3 0,
   .tbl hs.h2 s1.h2.size, .tbl hs.h3 s1.h3.size, .tbl hs.h4 s1.h4.size,
   .tbl s1.cyclicPos s1.chain.size]

/-- all accesses of `find` -/
def findAcc (P : Hc4Params) (c : Cfg) (d : Array UInt8) (s : State) : List Access :=
  let p := s.pos
  let avail := encMovePos P d p
  let s1 := movePos P c s avail
  if avail < c.mlmax ∧ avail = 0 then []
  else
    let hs := hashesAt P c d p
    let e2 := s1.h2.getD hs.h2 0
    let e3 := s1.h3.getD hs.h3 0
    let cur := s1.h4.getD hs.h4 0
    let s2 := setChain (updateTables s1 hs) cur
    insertAcc P c d s1 p ++ [.sub s1.lzPos e2, .sub s1.lzPos e3] ++
    findMatchesAcc P c d s2.chain s2.cyclicPos s2.lzPos p avail (s1.lzPos - e2) (s1.lzPos - e3) cur

/-- all accesses of one `skip` iteration -/
def skip1Acc (P : Hc4Params) (c : Cfg) (d : Array UInt8) (s : State) : List Access :=
  let avail := encMovePos P d s.pos
  if avail ≠ 0 then insertAcc P c d (movePos P c s avail) s.pos else []

/-! ### normalisation (`LZEncoder::normalize`, reached only at `lz_pos = 0x7FFFFFFF`) -/

/-- `*p = (*p).max(norm_offset) - norm_offset` -/
def normEntry (off e : Nat) : Nat := max e off - off

end LzmaVerif.Mf.Hc4
