/-
Model of the cyclic dictionary buffer of the decoders: `src/lz/lz_decoder.rs` (`LZDecoder`), method by
method, and of the test hook `verif_hooks::lz_decoder_script`.  Core Lean only (the driver links it).

Faithfulness conventions
* the buffer is an `Array Nat` whose size is fixed at construction; bytes are `Nat` (< 256 when they
  come from the callers of this file);
* every place where the Rust code would panic is an explicit error:
  `.oob`          a slice / array index or range out of bounds (`buf[i]`, `copy_within`, `split_at_mut`,
                  `copy_from_slice` length mismatch),
  `.arith`        a `usize` subtraction that would go below zero (panic in debug builds, wrap-around
                  followed by nonsense in release builds),
  `.debugAssert`  a failed `debug_assert!` (debug builds only),
  `.diverge`      the `loop` of `repeat` would spin forever (copy size 0 with bytes left);
  `.distOverflow` is the only `Err(..)` the Rust code itself returns ("dist overflow");
  `.srcEof` stands for the error `read_exact` passes on in `copy_uncompressed`.
  `usize` additions are not bounded (all operands are bounded by `buf_size` + one read length).
* `copy_within(src..src+n, dest)` is memmove: the source range is read completely before the
  destination is written (`blit a dest (a.extract src (src+n))`);
  `split_at_mut(pos)` + `copy_from_slice` needs `back + left ≤ pos` (source inside the first half) and
  `left ≤ len - pos`: non-overlap is an index condition, violating it is `.oob`.
-/
namespace LzmaVerif.LzDecoder

inductive Err where
  | oob
  | arith
  | debugAssert
  | diverge
  | distOverflow
  | srcEof
deriving Repr, DecidableEq, Inhabited

def Err.message : Err → String
  | .oob => "panic: index out of range"
  | .arith => "panic: subtract with overflow"
  | .debugAssert => "panic: debug assertion"
  | .diverge => "hang"
  | .distOverflow => "dist overflow"
  | .srcEof => "unexpected end of the source"

structure State where
  buf : Array Nat
  bufSize : Nat
  start : Nat
  pos : Nat
  full : Nat
  limit : Nat
  pendingLen : Nat
  pendingDist : Nat
deriving Repr, DecidableEq

/-- `a` with `a[dest + i] := xs[i]` for `i < xs.size` (positions outside `a` are ignored; callers check) -/
def blit (a : Array Nat) (dest : Nat) (xs : Array Nat) : Array Nat :=
  Array.ofFn (n := a.size) fun i =>
    if dest ≤ i.val ∧ i.val < dest + xs.size then xs.getD (i.val - dest) 0 else a[i]

/-- `buf.copy_within(src..src+n, dest)`: bounds-checked memmove -/
def copyWithin (a : Array Nat) (src n dest : Nat) : Except Err (Array Nat) :=
  if src + n ≤ a.size ∧ dest + n ≤ a.size then .ok (blit a dest (a.extract src (src + n)))
  else .error .oob

/-- `let (src_part, dst_part) = buf.split_at_mut(pos); dst_part[..n].copy_from_slice(&src_part[back..back+n])` -/
def copyFromFirstHalf (a : Array Nat) (pos back n : Nat) : Except Err (Array Nat) :=
  if pos ≤ a.size ∧ n ≤ a.size - pos ∧ back + n ≤ pos then .ok (blit a pos (a.extract back (back + n)))
  else .error .oob

/-- the part of the preset dictionary that `new` keeps: its last `min len dictSize` bytes -/
def presetUsed (dictSize : Nat) (preset : Option (List Nat)) : List Nat :=
  match preset with
  | none => []
  | some p => p.drop (p.length - min p.length dictSize)

/-- `LZDecoder::new` -/
def new (dictSize : Nat) (preset : Option (List Nat)) : State :=
  let buf := Array.replicate dictSize 0
  match preset with
  | none => { buf, bufSize := dictSize, start := 0, pos := 0, full := 0, limit := 0, pendingLen := 0, pendingDist := 0 }
  | some p =>
    let pos := min p.length dictSize
    let ps := p.length - pos
    { buf := blit buf 0 (p.drop ps).toArray, bufSize := dictSize, start := pos, pos := pos, full := pos,
      limit := 0, pendingLen := 0, pendingDist := 0 }

/-- `reset` (note: `pending_len` / `pending_dist` are not touched) -/
def State.reset (s : State) : Except Err State :=
  if s.bufSize = 0 then .error .arith
  else if s.bufSize - 1 < s.buf.size then
    .ok { s with start := 0, pos := 0, full := 0, limit := 0, buf := s.buf.set! (s.bufSize - 1) 0 }
  else .error .oob

/-- `set_limit` -/
def State.setLimit (s : State) (outMax : Nat) : State :=
  { s with limit := min (outMax + s.pos) s.bufSize }

def State.hasSpace (s : State) : Bool := s.pos < s.limit
def State.hasPending (s : State) : Bool := s.pendingLen > 0
def State.getPos (s : State) : Nat := s.pos

/-- `get_byte` -/
def State.getByte (s : State) (dist : Nat) : Except Err Nat :=
  if dist ≥ s.pos then
    if s.bufSize + s.pos < dist + 1 then .error .arith
    else
      let offset := s.bufSize + s.pos - dist - 1
      if offset < s.buf.size then .ok (s.buf.getD offset 0) else .error .oob
  else
    let offset := s.pos - dist - 1
    if offset < s.buf.size then .ok (s.buf.getD offset 0) else .error .oob

/-- `put_byte` -/
def State.putByte (s : State) (b : Nat) : Except Err State :=
  if s.pos < s.buf.size then
    let pos := s.pos + 1
    .ok { s with buf := s.buf.set! s.pos b, pos := pos, full := if s.full < pos then pos else s.full }
  else .error .oob

/-- the overlapping `loop` of `repeat`: returns the buffer and the new `pos`.  Structural recursion on a
    fuel (so that the kernel can evaluate it); every iteration but the last copies at least one byte or
    is reported as `.diverge`, hence `left + 1` iterations always suffice (`copyLoop_fuel_irrelevant`) -/
def copyLoopF : Nat → Array Nat → Nat → Nat → Nat → Except Err (Array Nat × Nat)
  | 0, _, _, _, _ => .error .diverge
  | fuel + 1, buf, back, pos, left =>
    if pos < back then .error .arith
    else
      let c := min left (pos - back)
      match copyWithin buf back c pos with
      | .error e => .error e
      | .ok buf' =>
        if left - c = 0 then .ok (buf', pos + c)
        else if c = 0 then .error .diverge
        else copyLoopF fuel buf' back (pos + c) (left - c)

def copyLoop (buf : Array Nat) (back pos left : Nat) : Except Err (Array Nat × Nat) :=
  copyLoopF (left + 1) buf back pos left

/-- second half of `repeat` (after `back` is known): direct copy or the overlapping loop, then `full` -/
def State.repeatTail (s : State) (dist back left : Nat) : Except Err State :=
  if ¬ back < s.pos then .error .debugAssert
  else if ¬ left > 0 then .error .debugAssert
  else
    let r : Except Err (Array Nat × Nat) :=
      if dist ≥ left then
        match copyFromFirstHalf s.buf s.pos back left with
        | .error e => .error e
        | .ok b => .ok (b, s.pos + left)
      else copyLoop s.buf back s.pos left
    match r with
    | .error e => .error e
    | .ok (b, pos) => .ok { s with buf := b, pos := pos, full := if s.full < pos then pos else s.full }

/-- `repeat` -/
def State.repeat (s : State) (dist len : Nat) : Except Err State :=
  if dist ≥ s.full then .error .distOverflow
  else if s.limit < s.pos then .error .arith
  else
    let left := min (s.limit - s.pos) len
    let s := { s with pendingLen := len - left, pendingDist := dist }
    if s.pos < dist + 1 then
      -- the distance wraps around to the end of the cyclic buffer
      if s.full ≠ s.bufSize then .error .debugAssert
      else if s.bufSize + s.pos < dist + 1 then .error .arith
      else
        let back := s.bufSize + s.pos - dist - 1
        if s.bufSize < back then .error .arith
        else
          let copySize := min (s.bufSize - back) left
          match copyWithin s.buf back copySize s.pos with
          | .error e => .error e
          | .ok b =>
            let s := { s with buf := b, pos := s.pos + copySize }
            let left := left - copySize
            if left = 0 then .ok s      -- early return: `full` is not updated
            else s.repeatTail dist 0 left
    else s.repeatTail dist (s.pos - dist - 1) left

/-- `repeat_pending` -/
def State.repeatPending (s : State) : Except Err State :=
  if s.pendingLen > 0 then s.repeat s.pendingDist s.pendingLen else .ok s

/-- `copy_uncompressed` with the bytes the reader delivers (`read_exact` fills `copy_size` bytes; the
    source is assumed to have them) -/
def State.copyUncompressed (s : State) (data : List Nat) (len : Nat) : Except Err State :=
  if s.bufSize < s.pos then .error .arith
  else
    let copySize := min (s.bufSize - s.pos) len
    if ¬ s.pos + copySize ≤ s.buf.size then .error .oob
    else if data.length < copySize then .error .srcEof
    else
      let pos := s.pos + copySize
      .ok { s with buf := blit s.buf s.pos (data.take copySize).toArray, pos := pos,
                   full := if s.full < pos then pos else s.full }

/-- `flush(out, out_off)` into a destination with `cap` bytes after `out_off`: the bytes handed out -/
def State.flush (s : State) (cap : Nat) : Except Err (List Nat × State) :=
  if s.pos < s.start then .error .arith
  else
    let copySize := s.pos - s.start
    let pos := if s.pos = s.bufSize then 0 else s.pos
    if copySize ≤ cap ∧ s.start + copySize ≤ s.buf.size then
      .ok ((s.buf.extract s.start (s.start + copySize)).toList, { s with pos := pos, start := pos })
    else .error .oob

/-! ## The test hook `verif_hooks::lz_decoder_script` -/

/-- one op `(op, a, b)`: 0 set_limit a, 1 put_byte (a as u8) if has_space, 2 repeat a b if has_space,
    3 repeat_pending, 4 flush (appended to the output), anything else reset -/
def stepOp (s : State) (out : List Nat) (op : Nat × Nat × Nat) : Except Err (State × List Nat) :=
  match op with
  | (0, a, _) => .ok (s.setLimit a, out)
  | (1, a, _) => if s.hasSpace then (s.putByte (a % 256)).map (·, out) else .ok (s, out)
  | (2, a, b) => if s.hasSpace then (s.repeat a b).map (·, out) else .ok (s, out)
  | (3, _, _) => s.repeatPending.map (·, out)
  | (4, _, _) => (s.flush s.bufSize).map fun (o, s') => (s', out ++ o)
  | _ => s.reset.map (·, out)

def runOps : State → List Nat → List (Nat × Nat × Nat) → Except Err (List Nat)
  | _, out, [] => .ok out
  | s, out, op :: rest =>
    match stepOp s out op with
    | .error e => .error e
    | .ok (s', out') => runOps s' out' rest

/-- the hook: `Ok(out)` or the message of the failed `repeat`; a panic of the Rust code shows as a
    message starting with `panic:` -/
def runScript (dictSize : Nat) (preset : Option (List Nat)) (script : List (Nat × Nat × Nat)) :
    Except String (List Nat) :=
  match runOps (new dictSize preset) [] script with
  | .ok out => .ok out
  | .error e => .error e.message

/-! ## The reader loop (`LZMAReader::read_decode`, `LZMA2Reader::read_decode`, `LZMADecoder::decode`)
reduced to what touches the dictionary: a symbol is a literal byte or a match. -/

inductive Sym where
  | lit (b : Nat)
  | mtch (dist len : Nat)
deriving Repr, DecidableEq, Inhabited

/-- `while lz.has_space() { decode one symbol }` -/
def consume : State → List Sym → Except Err (State × List Sym)
  | s, [] => .ok (s, [])
  | s, sym :: rest =>
    if s.hasSpace then
      match sym with
      | .lit b =>
        match s.putByte b with
        | .error e => .error e
        | .ok s' => consume s' rest
      | .mtch d l =>
        match s.repeat d l with
        | .error e => .error e
        | .ok s' => consume s' rest
    else .ok (s, sym :: rest)

/-- one iteration of the `while len > 0` loop of `read_decode` with `len = n`:
    `set_limit(n)`; `decode` (= `repeat_pending`, symbols while `has_space`); `flush` into `n` bytes -/
def round (s : State) (n : Nat) (syms : List Sym) : Except Err (List Nat × State × List Sym) :=
  match (s.setLimit n).repeatPending with
  | .error e => .error e
  | .ok s2 =>
    match consume s2 syms with
    | .error e => .error e
    | .ok (s3, rest) =>
      match s3.flush n with
      | .error e => .error e
      | .ok (out, s4) => .ok (out, s4, rest)

/-- a sequence of such iterations with arbitrary sizes; the outputs are concatenated -/
def rounds : State → List Nat → List Sym → Except Err (List Nat × State × List Sym)
  | s, [], syms => .ok ([], s, syms)
  | s, n :: ns, syms =>
    match round s n syms with
    | .error e => .error e
    | .ok (o1, s1, r1) =>
      match rounds s1 ns r1 with
      | .error e => .error e
      | .ok (o2, s2, r2) => .ok (o1 ++ o2, s2, r2)

/-- one `read(buf)` call with `buf.len() = len`: iterate until the buffer is full or the symbols are
    exhausted (`end_reached`); `fuel = len + 1` suffices because every iteration yields at least one byte,
    except the very first one when a preset dictionary fills the whole buffer (`pos = buf_size`: nothing
    fits, `flush` hands out 0 bytes and wraps `pos` to 0) -/
def readCall : Nat → State → Nat → List Sym → Except Err (List Nat × State × List Sym)
  | 0, s, _, syms => .ok ([], s, syms)
  | fuel + 1, s, len, syms =>
    if len = 0 then .ok ([], s, syms)
    else
      match round s len syms with
      | .error e => .error e
      | .ok (o1, s1, r1) =>
        if r1 = [] ∧ s1.pendingLen = 0 then .ok (o1, s1, r1)
        else
          match readCall fuel s1 (len - o1.length) r1 with
          | .error e => .error e
          | .ok (o2, s2, r2) => .ok (o1 ++ o2, s2, r2)

/-- a sequence of `read` calls with the given buffer lengths -/
def readAll : State → List Nat → List Sym → Except Err (List Nat × State × List Sym)
  | s, [], syms => .ok ([], s, syms)
  | s, n :: ns, syms =>
    match readCall (n + 1) s n syms with
    | .error e => .error e
    | .ok (o1, s1, r1) =>
      match readAll s1 ns r1 with
      | .error e => .error e
      | .ok (o2, s2, r2) => .ok (o1 ++ o2, s2, r2)

end LzmaVerif.LzDecoder
