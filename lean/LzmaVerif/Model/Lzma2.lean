import LzmaVerif.Model.LzmaStream
/-
Model of the LZMA2 chunk framing: `src/lzma2_reader.rs` (LZMA2Reader::new, decode_chunk_header,
decode_props, read_decode, RangeDecoder::prepare / is_finished) and the header logic of
`src/enc/lzma2_writer.rs` (write_lzma, write_uncompressed and their reset flags).
Whole-stream view: the sequence of `read` buffer sizes is abstracted away here.  Core Lean only.
-/
namespace LzmaVerif.Lzma2
open LzmaVerif Lzma Prog Rc

/-- `get_dict_size` of `lzma2_reader.rs` (clamped into `DICT_SIZE_MIN ..= DICT_SIZE_MAX`, rounded up to 16) -/
def dictBufOf (dict : Nat) : Nat := ((max (min dict Consts.DICT_SIZE_MAX) Consts.DICT_SIZE_MIN + 15) / 16) * 16

/-- one decoded chunk, as much as the writer model needs to reproduce it -/
structure Chunk where
  control : Nat
  unc : Nat               -- uncompressed size
  comp : Nat              -- compressed size (LZMA chunks), 0 for stored chunks
  props : Option Nat      -- properties byte if present
  parse : List Sym        -- LZMA chunk: symbols in order
  raw : List Nat          -- stored chunk: the bytes
deriving Repr

structure RState where
  dictBuf : Nat
  hist : Hist
  needDictReset : Bool
  needProps : Bool
  params : Params
  probs : Probs
  coder : Coder
  out : Array Nat
  chunks : List Chunk     -- most recent first

def be16 (a b : Nat) : Nat := a * 256 + b

def freshProbs (pr : Params) : Probs := Array.replicate (numProbs pr.lc pr.lp) PROB_INIT

/-- result of the chunk loop -/
inductive Res where
  | ok (s : RState) (rest : List Nat)
  | err (e : Err)
  | capped

/-- push a list onto an array -/
def pushAll (a : Array Nat) : List Nat → Array Nat
  | [] => a
  | b :: bs => pushAll (a.push b) bs

/-- the properties / state-reset part of `decode_chunk_header` for an LZMA chunk -/
def chunkProps (s : RState) (control : Nat) (inp : List Nat) : Except Err (RState × List Nat × Option Nat) :=
  if control ≥ 0xC0 then
    match inp with
    | [] => .error .eof
    | p :: inp =>
      if p > 224 then .error .invalidInput else
      let pr := paramsOfProps p
      if pr.lc + pr.lp > 4 then .error .invalidInput else
      .ok ({ s with needProps := false, params := pr, probs := freshProbs pr, coder := Coder.init }, inp, some p)
  else if s.needProps then .error .invalidInput
  else if control ≥ 0xA0 then
    .ok ({ s with probs := freshProbs s.params, coder := Coder.init }, inp, none)
  else .ok (s, inp, none)

/-- the chunk loop of `read_decode` / `decode_chunk_header`; `fuel` bounds the number of chunks -/
def chunkLoop : Nat → RState → List Nat → Nat → Res
  | 0, _, _, _ => .capped
  | fuel+1, s, inp, cap =>
    match inp with
    | [] => .err .eof
    | control :: inp =>
      if control = 0 then .ok s inp else
      let isReset := control ≥ 0xE0 ∨ control = 1
      if ¬ isReset ∧ s.needDictReset then .err .invalidInput else
      let s := if isReset then { s with needProps := true, needDictReset := false, hist := #[] } else s
      if control ≥ 0x80 then
        match inp with
        | u1 :: u2 :: c1 :: c2 :: inp =>
          let unc := (control % 32) * 65536 + be16 u1 u2 + 1
          let comp := be16 c1 c2 + 1
          -- properties / state reset
          match chunkProps s control inp with
          | .error e => .err e
          | .ok (s, inp, props) =>
            -- `prepare`
            if comp < 5 then .err .invalidInput else
            match inp with
            | [] => .err .eof
            | b0 :: _ =>
              if b0 ≠ 0 then .err .invalidInput else
              if inp.length < comp then .err .eof else
              let body := inp.take comp
              let inp := inp.drop comp
              match Dec.init body with
              | none => .err .eof
              | some d0 =>
                if s.out.size + unc > cap then .capped else
                let (r, probs, d) := (loopProg s.params s.dictBuf (unc + 1) (some unc) s.coder s.hist [] 0).decRun s.probs d0
                let d := d.normalize
                match r.stop with
                | .limit =>
                  if ¬ d.isFinished then .err .invalidInput else
                  let newBytes := r.hist.extract s.hist.size r.hist.size
                  let ch : Chunk := { control, unc, comp, props, parse := r.parse.reverse, raw := [] }
                  chunkLoop fuel { s with hist := r.hist, probs := probs, coder := r.coder,
                                          out := s.out ++ newBytes, chunks := ch :: s.chunks } inp cap
                | .overrun => .err .invalidInput
                | .fuel => .capped
                | _ => .err .other
        | _ => .err .eof
      else if control > 2 then .err .invalidInput
      else
        match inp with
        | u1 :: u2 :: inp =>
          let unc := be16 u1 u2 + 1
          if inp.length < unc then .err .eof else
          if s.out.size + unc > cap then .capped else
          let raw := inp.take unc
          let ch : Chunk := { control, unc, comp := 0, props := none, parse := [], raw }
          chunkLoop fuel { s with hist := pushAll s.hist raw, out := pushAll s.out raw, chunks := ch :: s.chunks }
            (inp.drop unc) cap
        | _ => .err .eof

def initState (dict : Nat) (preset : Array Nat) : RState :=
  let dictBuf := dictBufOf dict
  let presetUsed := preset.extract (preset.size - min preset.size dictBuf) preset.size
  { dictBuf, hist := presetUsed, needDictReset := preset.isEmpty, needProps := true,
    params := { lc := 0, lp := 0, pb := 0 }, probs := #[], coder := Coder.init, out := #[], chunks := [] }

structure DecOk where
  out : Array Nat
  consumed : Nat
  chunks : List Chunk

inductive DecOut where
  | ok (r : DecOk)
  | err (e : Err)
  | capped

/-- `LZMA2Reader::new(inner, dict, preset)` read to the end -/
def decode (dict : Nat) (preset : Array Nat) (input : List Nat) (cap : Nat) : DecOut :=
  match chunkLoop (input.length + 1) (initState dict preset) input cap with
  | .ok s rest => .ok { out := s.out, consumed := input.length - rest.length, chunks := s.chunks.reverse }
  | .err e => .err e
  | .capped => .capped

/-! ## Writer side: reproduce the stream from its chunks -/

structure WFlags where
  dictResetNeeded : Bool
  stateResetNeeded : Bool
  propsNeeded : Bool

structure WState where
  flags : WFlags
  hist : Hist
  params : Params
  probs : Probs
  coder : Coder
  dictBuf : Nat
  first : Bool

/-- `write_lzma` header -/
def lzmaHeader (f : WFlags) (unc comp props : Nat) : List Nat × WFlags :=
  let control :=
    if f.propsNeeded then (if f.dictResetNeeded then 0xE0 else 0xC0)
    else if f.stateResetNeeded then 0xA0 else 0x80
  let control := control + (unc - 1) / 65536
  let hdr := [control, ((unc - 1) / 256) % 256, (unc - 1) % 256, ((comp - 1) / 256) % 256, (comp - 1) % 256]
  (if f.propsNeeded then hdr ++ [props] else hdr,
   { dictResetNeeded := false, stateResetNeeded := false, propsNeeded := false })

/-- one stored piece of `write_uncompressed` (≤ 64 KiB) -/
def storedHeader (f : WFlags) (unc : Nat) : List Nat × WFlags :=
  ([if f.dictResetNeeded then 1 else 2, ((unc - 1) / 256) % 256, (unc - 1) % 256],
   { f with dictResetNeeded := false, stateResetNeeded := true })

/-- Re-encode the chunk list.  A chunk that resets the dictionary and is not the first one is an
independent restart (`start_independent_chunk`): all flags set, fresh encoder.  `propsByte` is the
writer's properties byte. -/
def encodeChunks (propsByte : Nat) : List Chunk → WState → List Nat → Option (List Nat)
  | [], _, acc => some (acc ++ [0])
  | ch :: rest, w, acc =>
    let isReset := ch.control ≥ 0xE0 ∨ ch.control = 1
    let w := if isReset ∧ ¬ w.first then
        { w with flags := { dictResetNeeded := true, stateResetNeeded := true, propsNeeded := true }, hist := #[] }
      else w
    if ch.control ≥ 0x80 then
      -- the encoder state is fresh iff a state reset is announced
      let fresh := w.flags.stateResetNeeded ∨ w.flags.propsNeeded
      let probs := if fresh then freshProbs w.params else w.probs
      let coder := if fresh then Coder.init else w.coder
      let bits := parseBits w.params ch.parse coder w.hist
      match (loopProg w.params w.dictBuf (ch.unc + 1) (some ch.unc) coder w.hist [] 0).encRun bits probs Enc.init with
      | some (r, [], probs', e) =>
        let body := e.bytes
        let (hdr, flags) := lzmaHeader w.flags ch.unc body.length propsByte
        encodeChunks propsByte rest { w with flags, hist := r.hist, probs := probs', coder := r.coder, first := false }
          (acc ++ hdr ++ body)
      | _ => none
    else
      let (hdr, flags) := storedHeader w.flags ch.unc
      encodeChunks propsByte rest { w with flags, hist := pushAll w.hist ch.raw, first := false } (acc ++ hdr ++ ch.raw)

/-- the model writer's bytes for a decoded chunk list -/
def reencode (dict : Nat) (preset : Array Nat) (chunks : List Chunk) : Option (List Nat) :=
  let dictBuf := dictBufOf dict
  let presetUsed := preset.extract (preset.size - min preset.size dictBuf) preset.size
  -- properties byte and parameters: those of the first LZMA chunk that carries them
  let props := (chunks.findSome? (·.props)).getD 0
  let pr := paramsOfProps props
  encodeChunks props chunks
    { flags := { dictResetNeeded := preset.isEmpty, stateResetNeeded := true, propsNeeded := true },
      hist := presetUsed, params := pr, probs := freshProbs pr, coder := Coder.init, dictBuf, first := true } []

end LzmaVerif.Lzma2
