import LzmaVerif.Model.Lzma
/-
Stream level of LZMA: the symbol loop of `LZMADecoder::decode` + `LZMAReader::read_decode`
seen over the whole stream (one decision program per range-coder run), the `.lzma` header of
`LZMAReader::new_mem_limit` / `LZMAWriter::new`, and the encoder side as the bit string of a parse.
Core Lean only.
-/
namespace LzmaVerif.Lzma
open LzmaVerif Prog Rc

/-- why the symbol loop stopped -/
inductive Stop where
  | limit          -- the declared number of bytes has been produced exactly
  | endMarker      -- match with distance 0xFFFFFFFF
  | distOverflow   -- distance outside the dictionary (`dist >= full`)
  | overrun        -- a copy reaches beyond the declared size (`has_pending` at the end)
  | fuel           -- model only: output cap reached
deriving Repr, DecidableEq

structure LoopRes where
  stop : Stop
  coder : Coder
  hist : Hist
  parse : List Sym      -- decoded symbols, most recent first
  emitted : Nat

def END_DIST : Nat := 0xFFFFFFFF

/-- The symbol loop as one decision program.
* `dictBuf` – size of the decoder's dictionary buffer (`LZDecoder::buf_size`)
* `total`   – bytes that entered the dictionary since its last reset (incl. preset; `full = min total dictBuf`)
* `remaining` – `some n`: stop after exactly `n` more bytes; `none`: run until the end marker
* `fuel` – bound on the number of symbols (model only) -/
def loopProg (pr : Params) (dictBuf : Nat) :
    Nat → Option Nat → Coder → Hist → List Sym → Nat → Prog LoopRes
  | 0, _, c, h, acc, em => ret { stop := .fuel, coder := c, hist := h, parse := acc, emitted := em }
  | fuel+1, remaining, c, h, acc, em =>
    if remaining = some 0 then
      ret { stop := .limit, coder := c, hist := h, parse := acc, emitted := em }
    else
      bind (symProg pr (ctxOf c h)) fun s =>
        let c' := c.apply s
        match s with
        | .lit b =>
          loopProg pr dictBuf fuel (remaining.map (· - 1)) c' (h.push b) (s :: acc) (em + 1)
        | _ =>
          match s.copyOf c with
          | none => ret { stop := .fuel, coder := c', hist := h, parse := acc, emitted := em }  -- unreachable
          | some (dist, len) =>
            if dist ≥ h.size ∨ dist ≥ dictBuf then
              ret { stop := (if c'.rep0 = END_DIST then .endMarker else .distOverflow),
                    coder := c', hist := h, parse := s :: acc, emitted := em }
            else
              match remaining with
              | some r =>
                if len > r then
                  ret { stop := .overrun, coder := c', hist := h.copy dist r, parse := s :: acc, emitted := em + r }
                else loopProg pr dictBuf fuel (some (r - len)) c' (h.copy dist len) (s :: acc) (em + len)
              | none => loopProg pr dictBuf fuel none c' (h.copy dist len) (s :: acc) (em + len)

/-- error classes of the crate, as the harness canonicalises them -/
inductive Err where
  | eof            -- UnexpectedEof
  | invalidInput
  | invalidData
  | other          -- `error_other` ("dist overflow")
  | outOfMemory
  | unsupported
deriving Repr, DecidableEq

def Err.name : Err → String
  | .eof => "UnexpectedEof" | .invalidInput => "InvalidInput" | .invalidData => "InvalidData"
  | .other => "Other" | .outOfMemory => "OutOfMemory" | .unsupported => "Unsupported"

/-- result of decoding a whole stream -/
inductive DecOut where
  | ok (out : Array Nat) (consumed : Nat) (parse : List Sym)
  | err (e : Err)
  | capped           -- model only: the output cap was reached

/-- the part of a preset dictionary that fits the dictionary buffer (`LZDecoder::new`) -/
def presetUsedOf (preset : Array Nat) (dictBuf : Nat) : Array Nat :=
  preset.extract (preset.size - min preset.size dictBuf) preset.size

/-- Does the symbol loop stop with the error of `LZDecoder::repeat` ("dist overflow", `dist >= full`)?
`LZMADecoder::decode` hands that error out at once (`lz.repeat(..)?`), WITHOUT the `rc.normalize()` that ends a call
whose loop ran to the limit (`while lz.has_space() { .. }; rc.normalize(); Ok(())`). -/
def Stop.isRepeatErr : Stop → Bool
  | .endMarker | .distOverflow => true
  | _ => false

/-- What `LZMAReader::read_decode` does with the result of `LZMADecoder::decode`, in the order of the code
(`len` = length of the input, `presetSize` = bytes of preset dictionary in the history, `d` = range decoder state when the
symbol loop stopped):

```text
let decode_result = self.lzma.decode(&mut self.lz, &mut self.rc);     // Ok: ended with rc.normalize(); Err: did not
if let Some(error) = self.rc.stream_error() { return Err(error); }    // a byte was missing so far: UnexpectedEof
match decode_result {
    Ok(_) => {}
    Err(e) => {
        if self.remaining_size != u64::MAX || !self.lzma.end_marker_detected() { return Err(e); }   // Other
        self.end_reached = true;
        self.rc.normalize();
        if let Some(error) = self.rc.stream_error() { return Err(error); }
    }
}
.. flush .. if self.end_reached { if self.lz.has_pending() .. { return Err(error_invalid_data(..)) } return Ok(size) }
```

So a corrupt symbol ("dist overflow", or an end marker in a stream with a declared size) is `Other` unless a byte was
missing BEFORE the decoder got there; the byte the final normalisation would have asked for is never requested. -/
def rawFinish (presetSize : Nat) (size : Option Nat) (len : Nat) (r : LoopRes) (d : Dec) : DecOut :=
  let out := r.hist.extract presetSize r.hist.size
  -- `decode`: final `rc.normalize()` only when the loop ended because `has_space()` became false
  let d := if r.stop.isRepeatErr then d else d.normalize
  -- `stream_error()` after `decode`
  if d.over > 0 then .err .eof
  else match r.stop with
    | .limit => .ok out (len - d.inp.length) r.parse.reverse
    | .endMarker => (match size with
        | none =>
          -- `end_reached = true; rc.normalize(); stream_error()`
          let d := d.normalize
          if d.over > 0 then .err .eof else .ok out (len - d.inp.length) r.parse.reverse
        | some _ => .err .other)      -- `remaining_size != u64::MAX`: the error of `decode` is returned
    | .distOverflow => .err .other    -- `!end_marker_detected()`
    | .overrun => .err .invalidData   -- `has_pending()` at the declared end
    | .fuel => .capped

/-- `LZMAReader` over a raw LZMA1 stream (no `.lzma` header).
`size = none` is `u64::MAX` (end marker expected). `cap` bounds the output of the model.
Whole-stream view (one `decode` over all symbols); `rawFinish` is the tail of `read_decode`. -/
def decodeRaw (pr : Params) (dictBuf : Nat) (preset : Array Nat) (size : Option Nat)
    (input : List Nat) (cap : Nat) : DecOut :=
  match input with
  | [] => .err .eof
  | b0 :: _ =>
    if b0 ≠ 0 then .err .invalidInput else
    match Dec.init input with
    | none => .err .eof
    | some d0 =>
      let presetUsed := presetUsedOf preset dictBuf
      let fuel := (match size with | some n => n + 1 | none => cap + 1)
      let ps0 : Probs := Array.replicate (numProbs pr.lc pr.lp) PROB_INIT
      let (r, _, d) := (loopProg pr dictBuf fuel size Coder.init presetUsed [] 0).decRun ps0 d0
      rawFinish presetUsed.size size input.length r d

/-- `get_dict_size` of `lzma_reader.rs`: at least 4096, rounded up to a multiple of 16 -/
def lzmaDictBuf (dict : Nat) : Nat := ((max dict 4096 + 15) / 16) * 16

/-- dictionary buffer size chosen by `LZMAReader::construct2` -/
def lzmaReaderDictBuf (dict : Nat) (size : Option Nat) (presetLen : Nat) : Nat :=
  let d := lzmaDictBuf dict
  let d := match size with
    | some n => if d > n + presetLen then lzmaDictBuf (n + presetLen) else d
    | none => d
  lzmaDictBuf d

def paramsOfProps (props : Nat) : Params :=
  let pb := props / 45
  let r := props % 45
  { lc := r % 9, lp := r / 9, pb := pb }

def le32 (b0 b1 b2 b3 : Nat) : Nat := b0 + 256 * (b1 + 256 * (b2 + 256 * b3))

/-- `LZMAReader::new_mem_limit` with `mem_limit = u32::MAX` followed by reading to the end -/
def decodeAlone (preset : Array Nat) (input : List Nat) (cap : Nat) : DecOut :=
  match input with
  | p :: d0 :: d1 :: d2 :: d3 :: s0 :: s1 :: s2 :: s3 :: s4 :: s5 :: s6 :: s7 :: rest =>
    let dict := le32 d0 d1 d2 d3
    let size := le32 s0 s1 s2 s3 + 2 ^ 32 * le32 s4 s5 s6 s7
    if dict > Consts.DICT_SIZE_MAX then .err .invalidInput
    else if p > 224 then .err .invalidInput
    else
      let szOpt := if size = 2 ^ 64 - 1 then none else some size
      -- sizes above 2^63 are treated as "unknown size, but not MAX": the code then expects no
      -- end marker to terminate the stream cleanly; the model does not distinguish (documented)
      let dictBuf := lzmaReaderDictBuf dict (if size ≤ 2 ^ 63 - 1 then some size else none) preset.size
      match decodeRaw (paramsOfProps p) dictBuf preset szOpt rest cap with
      | .ok out c parse => .ok out (c + 13) parse
      | other => other
  | _ => .err .eof

/-! ## Encoder side -/

/-- bit string of a parse, threading coder state and history exactly as the decoder will -/
def parseBits (pr : Params) : List Sym → Coder → Hist → List Bool
  | [], _, _ => []
  | s :: rest, c, h =>
    let bits := symBits pr (ctxOf c h) s
    let c' := c.apply s
    let h' := match s with
      | .lit b => h.push b
      | _ => match s.copyOf c with
        | some (dist, len) => if dist < h.size then h.copy dist len else h
        | none => h
    bits ++ parseBits pr rest c' h'

/-- re-encode a parse with the model encoder (range encoder started fresh, finished with `finish`);
    `fuel` is the symbol budget of the loop program: the decoder's (`n + 1` for a declared size `n`, `cap + 1` otherwise) -/
def encodeParse (pr : Params) (dictBuf : Nat) (presetUsed : Array Nat) (size : Option Nat)
    (fuel : Nat) (parse : List Sym) : Option (List Nat) :=
  let bits := parseBits pr parse Coder.init presetUsed
  let ps0 : Probs := Array.replicate (numProbs pr.lc pr.lp) PROB_INIT
  match (loopProg pr dictBuf fuel size Coder.init presetUsed [] 0).encRun bits ps0 Enc.init with
  | some (_, [], _, e) => some e.bytes
  | _ => none

end LzmaVerif.Lzma
