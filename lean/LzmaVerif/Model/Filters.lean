import LzmaVerif.Generated.Consts
/-
Models of the block filters: `src/filter/delta.rs` (Delta::encode/decode) and the eight BCJ
transforms `src/filter/bcj/{x86,arm,ppc,sparc,ia64,riscv}.rs` (`BCJFilter::*_code`), plus the
streaming wrappers of `src/filter/bcj.rs` (BCJReader's 4096-byte buffer, the streaming BCJWriter).
All machine arithmetic is `u32`/`i32` modulo 2^32, written out on `Nat`.  Core Lean only.
-/
namespace LzmaVerif.Filters

abbrev Buf := Array Nat

@[inline] def u32 (x : Nat) : Nat := x % 2 ^ 32
@[inline] def wadd (a b : Nat) : Nat := (a + b) % 2 ^ 32
@[inline] def wsub (a b : Nat) : Nat := (a + 2 ^ 32 - b % 2 ^ 32) % 2 ^ 32
@[inline] def gb (b : Buf) (i : Nat) : Nat := b.getD i 0
@[inline] def sb (b : Buf) (i v : Nat) : Buf := b.setIfInBounds i (v % 256)

/-! ## Delta -/

/-- `Delta` state: `history[256]`, `pos` (u8, counts down) -/
structure Delta where
  distance : Nat
  history : Array Nat
  pos : Nat

def Delta.new (distance : Nat) : Delta := { distance, history := Array.replicate 256 0, pos := 0 }

def Delta.encode1 (d : Delta) (x : Nat) : Nat × Delta :=
  let h := d.history.getD ((d.distance + d.pos) % 256) 0
  ((x + 256 - h) % 256, { d with history := d.history.setIfInBounds (d.pos % 256) x, pos := (d.pos + 255) % 256 })

def Delta.decode1 (d : Delta) (x : Nat) : Nat × Delta :=
  let h := d.history.getD ((d.distance + d.pos) % 256) 0
  let y := (x + h) % 256
  (y, { d with history := d.history.setIfInBounds (d.pos % 256) y, pos := (d.pos + 255) % 256 })

def Delta.run (f : Delta → Nat → Nat × Delta) : Delta → List Nat → List Nat × Delta
  | d, [] => ([], d)
  | d, x :: xs =>
    let (y, d') := f d x
    let (ys, d'') := Delta.run f d' xs
    (y :: ys, d'')

def deltaEncode (distance : Nat) (xs : List Nat) : List Nat := (Delta.run Delta.encode1 (Delta.new distance) xs).1
def deltaDecode (distance : Nat) (xs : List Nat) : List Nat := (Delta.run Delta.decode1 (Delta.new distance) xs).1

/-! ## BCJ -/

inductive Arch where
  | x86 | ppc | ia64 | arm | armThumb | sparc | arm64 | riscv
deriving DecidableEq, Repr

/-- `BCJFilter` state -/
structure St where
  pos : Nat
  prevMask : Nat
deriving Repr

/-- initial `pos` of each filter (`new_*`) -/
def St.init (a : Arch) (start : Nat) : St :=
  { pos := (match a with | .x86 => start + 5 | .arm => start + 8 | .armThumb => start + 4 | _ => start), prevMask := 0 }

/-- `i32` position of byte `i` (`(self.pos + i) as i32`, as `u32`) -/
@[inline] def posAt (st : St) (i : Nat) : Nat := u32 (st.pos + i)

/-! ### ARM -/
def armLoop (enc : Bool) (st : St) : Nat → Nat → Buf → Buf × Nat
  | 0, i, b => (b, i)
  | fuel+1, i, b =>
    if i + 4 > b.size then (b, i) else
    if gb b (i + 3) = 0xEB then
      let x := gb b i + 256 * gb b (i + 1) + 65536 * gb b (i + 2)
      let src := u32 (x * 4)
      let p := posAt st i
      let dest := (if enc then wadd src p else wsub src p) / 4
      let b := sb (sb (sb b i dest) (i + 1) (dest / 256)) (i + 2) (dest / 65536)
      armLoop enc st fuel (i + 4) b
    else armLoop enc st fuel (i + 4) b

/-! ### ARM Thumb -/
def thumbLoop (enc : Bool) (st : St) : Nat → Nat → Buf → Buf × Nat
  | 0, i, b => (b, i)
  | fuel+1, i, b =>
    if i + 4 > b.size then (b, i) else
    let b1 := gb b (i + 1); let b3 := gb b (i + 3)
    if b3 &&& 0xF8 = 0xF8 ∧ b1 &&& 0xF8 = 0xF0 then
      let b0 := gb b i; let b2 := gb b (i + 2)
      let src := ((b1 &&& 7) <<< 19) ||| (b0 <<< 11) ||| ((b3 &&& 7) <<< 8) ||| b2
      let src := u32 (src * 2)
      let p := posAt st i
      let dest := (if enc then wadd src p else wsub src p) / 2
      let b := sb b (i + 1) (0xF0 ||| ((dest >>> 19) &&& 7))
      let b := sb b i (dest >>> 11)
      let b := sb b (i + 3) (0xF8 ||| ((dest >>> 8) &&& 7))
      let b := sb b (i + 2) dest
      thumbLoop enc st fuel (i + 4) b
    else thumbLoop enc st fuel (i + 2) b

/-! ### PowerPC -/
def ppcLoop (enc : Bool) (st : St) : Nat → Nat → Buf → Buf × Nat
  | 0, i, b => (b, i)
  | fuel+1, i, b =>
    if i + 4 > b.size then (b, i) else
    let b0 := gb b i; let b3 := gb b (i + 3)
    if b0 &&& 0xFC = 0x48 ∧ b3 &&& 3 = 1 then
      let b1 := gb b (i + 1); let b2 := gb b (i + 2)
      let src := ((b0 &&& 3) <<< 24) ||| (b1 <<< 16) ||| (b2 <<< 8) ||| (b3 &&& 0xFC)
      let p := posAt st i
      let dest := if enc then wadd src p else wsub src p
      let b := sb b i (0x48 ||| ((dest >>> 24) &&& 3))
      let b := sb b (i + 1) (dest >>> 16)
      let b := sb b (i + 2) (dest >>> 8)
      let b := sb b (i + 3) ((b3 &&& 3) ||| (dest % 256))
      ppcLoop enc st fuel (i + 4) b
    else ppcLoop enc st fuel (i + 4) b

/-! ### SPARC -/
def sparcLoop (enc : Bool) (st : St) : Nat → Nat → Buf → Buf × Nat
  | 0, i, b => (b, i)
  | fuel+1, i, b =>
    if i + 4 > b.size then (b, i) else
    let b0 := gb b i; let b1 := gb b (i + 1)
    if (b0 = 0x40 ∧ b1 &&& 0xC0 = 0) ∨ (b0 = 0x7F ∧ b1 &&& 0xC0 = 0xC0) then
      let b2 := gb b (i + 2); let b3 := gb b (i + 3)
      let src := (b0 <<< 24) ||| (b1 <<< 16) ||| (b2 <<< 8) ||| b3
      let src := u32 (src * 4)
      let p := posAt st i
      let dest := (if enc then wadd src p else wsub src p) / 4
      let sign := (dest >>> 22) &&& 1
      let dest := ((if sign = 1 then 0x3FC00000 else 0) ||| (dest &&& 0x3FFFFF)) ||| 0x40000000
      let b := sb b i (dest >>> 24)
      let b := sb b (i + 1) (dest >>> 16)
      let b := sb b (i + 2) (dest >>> 8)
      let b := sb b (i + 3) dest
      sparcLoop enc st fuel (i + 4) b
    else sparcLoop enc st fuel (i + 4) b

/-! ### ARM64 -/
def arm64Loop (enc : Bool) (st : St) : Nat → Nat → Buf → Buf × Nat
  | 0, i, b => (b, i)
  | fuel+1, i, b =>
    if i + 4 > b.size then (b, i) else
    let src := gb b i + 256 * gb b (i + 1) + 65536 * gb b (i + 2) + 16777216 * gb b (i + 3)
    let p := posAt st i
    -- BL
    let b :=
      if (src >>> 26) &&& 0x3F = 0x25 then
        let destAdr := if enc then wadd src (p >>> 2) else wsub src (p >>> 2)
        let dest := (destAdr &&& 0x03FFFFFF) ||| 0x94000000
        sb (sb (sb (sb b (i + 3) (dest >>> 24)) (i + 2) (dest >>> 16)) (i + 1) (dest >>> 8)) i dest
      else b
    -- ADRP (tested on the ORIGINAL word, like the code)
    let b :=
      if (src >>> 24) &&& 0x9F = 0x90 then
        let addr := ((src >>> 29) &&& 3) ||| ((src >>> 3) &&& 0x001FFFFC)
        if (wadd addr 0x00020000) &&& 0x001C0000 = 0 then
          let dest := 0x90000000 ||| (src &&& 0x1F)
          let addr := if enc then wadd addr (p >>> 12) else wsub addr (p >>> 12)
          let dest := dest ||| ((addr &&& 3) <<< 29)
          let dest := dest ||| ((addr &&& 0x0003FFFC) <<< 3)
          let dest := dest ||| (if addr &&& 0x00020000 ≠ 0 then 0x00E00000 else 0)
          sb (sb (sb (sb b (i + 3) (dest >>> 24)) (i + 2) (dest >>> 16)) (i + 1) (dest >>> 8)) i dest
        else b
      else b
    arm64Loop enc st fuel (i + 4) b

/-! ### x86 -/
def maskAllowed (m : Nat) : Bool := Consts.MASK_TO_ALLOWED_STATUS.getD m 0 = 1
def maskBit (m : Nat) : Nat := Consts.MASK_TO_BIT_NUMBER.getD m 0
@[inline] def msByte (b : Nat) : Bool := b = 0 ∨ b = 0xFF

/-- the `loop { dest = src ± pos; if prev_mask == 0 break; … }` of `x86_code` (fuel 64; the real loop is unbounded in form) -/
def x86Conv (enc : Bool) (p prevMask : Nat) : Nat → Nat → Nat
  | 0, src => if enc then wadd src p else wsub src p
  | fuel+1, src =>
    let dest := if enc then wadd src p else wsub src p
    if prevMask = 0 then dest else
    let index := maskBit prevMask * 8
    if ¬ msByte ((dest >>> (24 - index)) &&& 0xFF) then dest
    else x86Conv enc p prevMask fuel (dest ^^^ (2 ^ (32 - index) - 1))

/-- `prevPos` is kept as an `Int`-free encoding: `none` = -1 -/
def x86Loop (enc : Bool) (st : St) : Nat → Nat → Option Nat → Nat → Buf → Buf × Nat × Nat
  | 0, i, _, pm, b => (b, i, pm)
  | fuel+1, i, prevPos, prevMask, b =>
    if i + 5 > b.size then
      -- epilogue: prev_pos = i - prev_pos; prev_mask = if (prev_pos & !3) != 0 {0} else prev_mask << (prev_pos-1)
      let d := match prevPos with | none => i + 1 | some q => i - q
      (b, i, if d > 3 then 0 else prevMask <<< (d - 1))
    else
    let x := gb b i
    if x ≠ 0xE8 ∧ x ≠ 0xE9 then x86Loop enc st fuel (i + 1) prevPos prevMask b else
    let d := match prevPos with | none => i + 1 | some q => i - q
    -- first stage: update prev_mask, maybe skip this opcode
    let stage : Option Nat :=   -- `none` = skip (continue), `some pm` = go on with pm
      if d > 3 then some 0
      else
        let pm := (prevMask <<< (d - 1)) &&& 7
        if pm ≠ 0 ∧ (¬ maskAllowed pm ∨ msByte (gb b (i + 4 - maskBit pm))) then none
        else some pm
    match stage with
    | none =>
      let pm := (prevMask <<< (d - 1)) &&& 7
      x86Loop enc st fuel (i + 1) (some i) ((pm <<< 1) ||| 1) b
    | some pm =>
      if msByte (gb b (i + 4)) then
        let src := gb b (i + 1) + 256 * gb b (i + 2) + 65536 * gb b (i + 3) + 16777216 * gb b (i + 4)
        let dest := x86Conv enc (posAt st i) pm 64 src
        let b := sb b (i + 1) dest
        let b := sb b (i + 2) (dest >>> 8)
        let b := sb b (i + 3) (dest >>> 16)
        let b := sb b (i + 4) (if (dest >>> 24) &&& 1 = 1 then 0xFF else 0)
        x86Loop enc st fuel (i + 5) (some i) pm b
      else x86Loop enc st fuel (i + 1) (some i) ((pm <<< 1) ||| 1) b

/-! ### IA-64 -/
def ia64Table : List Nat :=
  [0,0,0,0,0,0,0,0,0,0,0,0,0,0,0,0,4,4,6,6,0,0,7,7,4,4,0,0,4,4,0,0]

def get6 (b : Buf) (o : Nat) : Nat :=
  gb b o + 256 * (gb b (o+1) + 256 * (gb b (o+2) + 256 * (gb b (o+3) + 256 * (gb b (o+4) + 256 * gb b (o+5)))))

def set6 (b : Buf) (o v : Nat) : Buf :=
  sb (sb (sb (sb (sb (sb b o v) (o+1) (v >>> 8)) (o+2) (v >>> 16)) (o+3) (v >>> 24)) (o+4) (v >>> 32)) (o+5) (v >>> 40)

def ia64Slot (enc : Bool) (st : St) (i slot : Nat) (b : Buf) : Buf :=
  let bitPos := 5 + slot * 41
  let bytePos := bitPos / 8
  let bitRes := bitPos % 8
  let instr := get6 b (i + bytePos)
  let norm := instr >>> bitRes
  if (norm >>> 37) &&& 0xF ≠ 5 ∨ (norm >>> 9) &&& 7 ≠ 0 then b else
  let src := ((norm >>> 13) &&& 0xFFFFF) ||| (((norm >>> 36) &&& 1) <<< 20)
  let src := u32 (src * 16)
  let p := posAt st i
  let dest := (if enc then wadd src p else wsub src p) / 16
  let norm := norm &&& (2 ^ 64 - 1 - (0x8FFFFF <<< 13))
  let norm := norm ||| ((dest &&& 0xFFFFF) <<< 13)
  let norm := norm ||| ((dest &&& 0x100000) <<< 16)
  let instr := (instr &&& (2 ^ bitRes - 1)) ||| ((norm <<< bitRes) % 2 ^ 64)
  set6 b (i + bytePos) instr

def ia64Loop (enc : Bool) (st : St) : Nat → Nat → Buf → Buf × Nat
  | 0, i, b => (b, i)
  | fuel+1, i, b =>
    if i + 16 > b.size then (b, i) else
    let mask := ia64Table.getD (gb b i &&& 0x1F) 0
    let b := if mask &&& 1 ≠ 0 then ia64Slot enc st i 0 b else b
    let b := if mask &&& 2 ≠ 0 then ia64Slot enc st i 1 b else b
    let b := if mask &&& 4 ≠ 0 then ia64Slot enc st i 2 b else b
    ia64Loop enc st fuel (i + 16) b

/-! ### RISC-V -/
def le32 (b : Buf) (o : Nat) : Nat := gb b o + 256 * gb b (o+1) + 65536 * gb b (o+2) + 16777216 * gb b (o+3)
def be32 (b : Buf) (o : Nat) : Nat := gb b (o+3) + 256 * gb b (o+2) + 65536 * gb b (o+1) + 16777216 * gb b o
def setLe32 (b : Buf) (o v : Nat) : Buf := sb (sb (sb (sb b o v) (o+1) (v >>> 8)) (o+2) (v >>> 16)) (o+3) (v >>> 24)
def setBe32 (b : Buf) (o v : Nat) : Buf := sb (sb (sb (sb b o (v >>> 24)) (o+1) (v >>> 16)) (o+2) (v >>> 8)) (o+3) v
/-- `(x as i32) >> 20` as u32: sign-extended upper 12 bits -/
def sar20 (x : Nat) : Nat := if x ≥ 2 ^ 31 then (x >>> 20) + (2 ^ 32 - 2 ^ 12) else x >>> 20

def riscvLoop (enc : Bool) (st : St) : Nat → Nat → Buf → Buf × Nat
  | 0, i, b => (b, i)
  | fuel+1, i, b =>
    if i + 8 > b.size then (b, i) else
    let inst := gb b i
    if inst = 0xEF then
      let b1 := gb b (i + 1)
      if b1 &&& 0x0D ≠ 0 then riscvLoop enc st fuel (i + 2) b else
      let b2 := gb b (i + 2); let b3 := gb b (i + 3)
      let pc := posAt st i
      if enc then
        let addr := ((b1 &&& 0xF0) <<< 8) ||| ((b2 &&& 0x0F) <<< 16) ||| ((b2 &&& 0x10) <<< 7) |||
                    ((b2 &&& 0xE0) >>> 4) ||| ((b3 &&& 0x7F) <<< 4) ||| ((b3 &&& 0x80) <<< 13)
        let addr := wadd addr pc
        let b := sb b (i + 1) ((b1 &&& 0x0F) ||| ((addr >>> 13) &&& 0xF0))
        let b := sb b (i + 2) (addr >>> 9)
        let b := sb b (i + 3) (addr >>> 1)
        riscvLoop enc st fuel (i + 4) b
      else
        let addr := ((b1 &&& 0xF0) <<< 13) ||| (b2 <<< 9) ||| (b3 <<< 1)
        let addr := wsub addr pc
        let b := sb b (i + 1) ((b1 &&& 0x0F) ||| ((addr >>> 8) &&& 0xF0))
        let b := sb b (i + 2) (((addr >>> 16) &&& 0x0F) ||| ((addr >>> 7) &&& 0x10) ||| ((addr <<< 4) &&& 0xE0))
        let b := sb b (i + 3) (((addr >>> 4) &&& 0x7F) ||| ((addr >>> 13) &&& 0x80))
        riscvLoop enc st fuel (i + 4) b
    else if inst &&& 0x7F = 0x17 then
      let full := le32 b i
      if full &&& 0xE80 ≠ 0 then
        let inst2 := le32 b (i + 4)
        if ((u32 (full <<< 8)) ^^^ inst2) &&& 0xF8003 ≠ 3 then riscvLoop enc st fuel (i + 6) b else
        if enc then
          let addr := wadd (full &&& 0xFFFFF000) (sar20 inst2)
          let addr := wadd addr (posAt st i)
          let full' := u32 (0x17 ||| (2 <<< 7) ||| (inst2 <<< 12))
          let b := setLe32 b i full'
          let b := setBe32 b (i + 4) addr
          riscvLoop enc st fuel (i + 8) b
        else
          let addr := wadd (full &&& 0xFFFFF000) (inst2 >>> 20)
          let full' := u32 (0x17 ||| (2 <<< 7) ||| (inst2 <<< 12))
          let b := setLe32 b i full'
          let b := setLe32 b (i + 4) addr
          riscvLoop enc st fuel (i + 8) b
      else
        let fakeRs1 := full >>> 27
        if (wsub full 0x3100) &&& 0x3F80 ≥ fakeRs1 &&& 0x1D then riscvLoop enc st fuel (i + 4) b else
        if enc then
          let fakeAddr := le32 b (i + 4)
          let fakeInst2 := u32 ((full >>> 12) ||| (fakeAddr <<< 20))
          let full' := 0x17 ||| (fakeRs1 <<< 7) ||| (fakeAddr &&& 0xFFFFF000)
          let b := setLe32 b i full'
          let b := setLe32 b (i + 4) fakeInst2
          riscvLoop enc st fuel (i + 8) b
        else
          let addr := be32 b (i + 4)
          let addr := wsub addr (posAt st i)
          let inst2 := u32 ((full >>> 12) ||| (addr <<< 20))
          let full' := 0x17 ||| (fakeRs1 <<< 7) ||| ((wadd addr 0x800) &&& 0xFFFFF000)
          let b := setLe32 b i full'
          let b := setLe32 b (i + 4) inst2
          riscvLoop enc st fuel (i + 8) b
    else riscvLoop enc st fuel (i + 2) b

/-- `BCJFilter::code`: transforms a prefix of `b`, returns the new buffer, the number of bytes
    processed and the new state -/
def code (a : Arch) (enc : Bool) (st : St) (b : Buf) : Buf × Nat × St :=
  let fuel := b.size + 1
  match a with
  | .arm => let (b', i) := armLoop enc st fuel 0 b; (b', i, { st with pos := st.pos + i })
  | .armThumb => let (b', i) := thumbLoop enc st fuel 0 b; (b', i, { st with pos := st.pos + i })
  | .ppc => let (b', i) := ppcLoop enc st fuel 0 b; (b', i, { st with pos := st.pos + i })
  | .sparc => let (b', i) := sparcLoop enc st fuel 0 b; (b', i, { st with pos := st.pos + i })
  | .arm64 => let (b', i) := arm64Loop enc st fuel 0 b; (b', i, { st with pos := st.pos + i })
  | .ia64 => let (b', i) := ia64Loop enc st fuel 0 b; (b', i, { st with pos := st.pos + i })
  | .riscv => let (b', i) := riscvLoop enc st fuel 0 b; (b', i, { st with pos := st.pos + i })
  | .x86 =>
    if b.size < 5 then (b, 0, st) else
    let (b', i, pm) := x86Loop enc st fuel 0 none st.prevMask b
    (b', i, { pos := st.pos + i, prevMask := pm })

/-- one-shot filtering of a whole byte string (what a single `code` call leaves unprocessed stays as is) -/
def oneShot (a : Arch) (enc : Bool) (start : Nat) (xs : List Nat) : List Nat :=
  (code a enc (St.init a start) xs.toArray).1.toList

end LzmaVerif.Filters
