/-
  Executable model of the single-threaded LZMA2 writer in FAST mode, end to end:

    src/enc/lzma2_writer.rs  `LZMA2Writer::new`, `write`, `finish`, `write_chunk`, `write_lzma`,
                             `write_uncompressed`, `should_start_independent_chunk`, `start_independent_chunk`
    src/enc/encoder.rs       `LZMAEncoder::encode_for_lzma2`, `encode_init`, `encode_symbol`, `reset`,
                             `reset_uncompressed_size`, `LZMA2_UNCOMPRESSED_LIMIT`, `LZMA2_COMPRESSED_LIMIT`
    src/enc/range_enc.rs     `RangeEncoderBuffer` (`COMPRESSED_SIZE_MAX` bytes; a write beyond it is an error),
                             `get_pending_size`, `finish_buffer`, `reset_buffer`
    src/lz/lz_encoder.rs     `set_preset_dict`, and (for `chunk_size` only) the positions of `fill_window` /
                             `move_window` / `has_enough_data`

  on top of `Model/EncFast.lean` (the symbol choice: `nextSymbol` over a match finder), `Model/Lzma.lean`
  (`symProg` / `symBits`: the bits of one symbol) and `Model/Rc.lean` (the range encoder; `Enc.pendingSize` is
  `get_pending_size`).  Imports Model files only; the compiled driver runs it (`lzma2w.fast`).

  HISTORIES that are modelled: `write(part₁); …; write(partₙ); finish()` (no `flush`); the headline function
  `lzma2FastBytes` is the one-call history `write(data); finish()`.
  * Without `chunk_size` the output does not depend on how the data is cut into `write` calls (the pauses of
    `encode_for_lzma2` at `has_enough_data` keep range coder, counters and `read_ahead`; `EncWindow.lean`
    proves that the search sees the same bytes), so the model runs the encoder with everything present.
  * With `chunk_size` the place where `start_independent_chunk` fires is decided once per iteration of the loop in
    `write` (`uncompressed_size >= chunk_size`), i.e. it depends on how much `fill_window` could take in: on the
    window size and on the `write` partition.  `planSeg` simulates exactly that loop for a given list of `write`
    call sizes (`fastEventsParts`; `fastEvents` is the one-call history); every segment between two cuts is then
    encoded by a fresh encoder on its own bytes.
  * `flush()` is not an event of this model (it ends the chunk at the flush point, the finder sees the data cut
    there; see the report).

  Coordinates are the LOGICAL ones of `EncFast.lean`: for one encoder instance `d` is everything that enters its
  window (used part of the preset dictionary first), `p` the index of the first byte not yet encoded,
  `ra = read_ahead + 1`.

  Failure: the only way the real writer (valid options, infallible sink) can fail is a range-coder buffer
  overflow (a chunk body of more than `COMPRESSED_SIZE_MAX` bytes: `RangeEncoderBuffer::write` returns 0,
  `write_all` fails).  The model answers `none` then.  (26 bytes of slack per symbol: never observed.)
-/
import LzmaVerif.Model.EncFast
import LzmaVerif.Model.Lzma2Check
import LzmaVerif.Model.Options
import LzmaVerif.Model.EncWindow

namespace LzmaVerif.Lzma2W
open LzmaVerif Mf Lzma Prog Rc EncFast

/-! ## Options -/

/-- `LZMA2Options` as far as the fast mode reads them (`mode = Fast`; the match finder is a parameter of the
    functions below) -/
structure Opts where
  dict : Nat
  lc : Nat
  lp : Nat
  pb : Nat
  nice : Nat
  /-- `depth_limit` (an `i32`; values `≤ 0` select the default formula and are 0 here) -/
  depth : Nat
  /-- `LZMA2Options::chunk_size` (`Option<NonZeroU64>`) -/
  chunkSize : Option Nat := none
  deriving Repr

/-- what `LZMAOptions::validate(true)` accepts (`LZMA2Writer::new` records the error otherwise and every later
    call fails) -/
def Opts.admissible (o : Opts) : Bool :=
  Options.validate { dict := o.dict, lc := o.lc, lp := o.lp, pb := o.pb, nice := o.nice } true

def Opts.params (o : Opts) : Params := { lc := o.lc, lp := o.lp, pb := o.pb }

/-- `LZMAOptions::get_props` -/
def Opts.propsByte (o : Opts) : Nat := (o.pb * 5 + o.lp) * 9 + o.lc

/-- `options.chunk_size.map(|s| s.get().max(dict_size as u64))` -/
def Opts.chunkClamped (o : Opts) : Option Nat := o.chunkSize.map fun s => max s o.dict

/-- the part of the preset dictionary `LZEncoderData::set_preset_dict` copies into the window: the last
    `min(len, dict_size)` bytes -/
def presetUsedW (dict : Nat) (preset : Array UInt8) : Array UInt8 :=
  preset.extract (preset.size - min preset.size dict) preset.size

/-! ## One symbol through the range coder -/

/-- what the symbol coder knows at position `p` of `d` (`Lzma.ctxOf` of the history `d[0..p)`):
    `state`, `pos = p` (`lz.get_pos() - read_ahead`), the previous byte (`get_byte_backward(1 + read_ahead)`),
    the byte at distance `reps[0]` -/
def ctxAt (d : Array UInt8) (p : Nat) (c : Coder) : Ctx :=
  { state := c.state, pos := p,
    prevByte := if 0 < p then byteAt d (p - 1) else 0,
    matchByte := if c.rep0 < p then byteAt d (p - 1 - c.rep0) else 0 }

/-- the `rc.encode_*` calls of `encode_symbol` for symbol `s`: the decision program of the symbol walked
    along the symbol's bits (`none` cannot happen for a symbol the length / distance coders can express) -/
def encSym (pr : Params) (ctx : Ctx) (s : Sym) (ps : Probs) (e : Enc) : Probs × Enc :=
  match (symProg pr ctx).encRun (symBits pr ctx s) ps e with
  | some (_, _, ps', e') => (ps', e')
  | none => (ps, e)

/-- `encSym` for execution: the bytes written so far (`e.out`) are set aside while the symbol is coded (the range
    encoder only ever prepends to them) and put back afterwards, so that the number of new bytes is known without
    walking the whole output: new tables, new encoder, number of bytes the symbol made the encoder write.
    (`Proofs/Lzma2WriterRc.lean`: `encSymL_eq` - the first two components are `encSym pr ctx s ps e`.) -/
def encSymL (pr : Params) (ctx : Ctx) (s : Sym) (ps : Probs) (e : Enc) : Probs × Enc × Nat :=
  match e with
  | ⟨low, range, cacheSize, cache, out⟩ =>
    let r := encSym pr ctx s ps ⟨low, range, cacheSize, cache, []⟩
    (r.1, { r.2 with out := r.2.out ++ out }, r.2.out.length)

/-! ## The encoder between two chunk boundaries -/

/-- `LZMAEncoder` + `RangeEncoder<RangeEncoderBuffer>` as far as the output depends on them -/
structure EncSt (σ : Type) where
  /-- first byte not yet encoded: `read_pos - read_ahead` (0 while `!lz.is_started()`) -/
  p : Nat
  /-- `coder.state`, `coder.reps` -/
  c : Coder
  /-- match finder -/
  mf : σ
  /-- `lz.matches` -/
  ms : List Match
  /-- `read_ahead + 1` -/
  ra : Nat
  /-- all probability tables (`coder`, `literal_encoder`, `match_len_encoder`, `rep_len_encoder`) -/
  probs : Probs
  /-- the range encoder of the chunk being built -/
  rc : Enc
  /-- `rc.out.length` (the buffer position `RangeEncoderBuffer::pos`), kept so that `get_pending_size` is O(1) -/
  outLen : Nat
  /-- `data.uncompressed_size` -/
  unc : Nat
  /-- ghost: the symbols of the chunk being built, newest first -/
  syms : List Sym

/-- what `write_chunk` emits -/
inductive Ev where
  /-- `write_lzma(unc, comp)`: uncompressed size, the symbols (ghost), the range coder's bytes -/
  | lzma (unc : Nat) (parse : List Sym) (body : List Nat)
  /-- `write_uncompressed(unc)`: the bytes (cut into pieces of at most 64 KiB when framed) -/
  | stored (raw : List Nat)
  /-- `start_independent_chunk` took effect here: fresh encoder, every reset flag set -/
  | restart
  deriving Repr

section Encoder
variable {σ : Type} (F : Finder σ) (P : FastParams) (nice : Nat) (pr : Params) (d : Array UInt8)

/-- `LZMAEncoder::new` (+ `set_preset_dict` of `q0` bytes: `match_finder.skip(q0)`; the bytes left pending
    there are skipped again by `process_pending_bytes` before the first symbol) -/
def encNew (q0 : Nat) : EncSt σ :=
  { p := q0, c := Coder.init, mf := F.skip d q0 F.init, ms := [], ra := 0,
    probs := Lzma2.freshProbs pr, rc := Enc.init, outLen := 0, unc := 0, syms := [] }

/-- one successful `encode_init` (window not started: `skip(1)`, first byte as a literal) or
    `encode_symbol` (`get_next_symbol`, the range-coder calls, `read_ahead -= len`,
    `uncompressed_size += len`) -/
def step (s : EncSt σ) : EncSt σ :=
  -- (the state is taken apart first so that the finder's tables and the probability tables stay uniquely
  -- referenced and are updated in place by the compiled driver)
  match s with
  | ⟨p, c, mf, ms, ra, probs, rc, outLen, unc, syms⟩ =>
    let st : Step σ :=
      if p = 0 then ⟨.lit (byteAt d 0), 1, F.skip d 1 mf, [], 0⟩
      else nextSymbol F P nice d p c mf ms ra
    match st with
    | ⟨sym, len, mf', ms', ra'⟩ =>
      let r := encSymL pr (ctxAt d p c) sym probs rc
      { p := p + len, c := c.apply sym, mf := mf', ms := ms', ra := ra',
        probs := r.1, rc := r.2.1, outLen := outLen + r.2.2, unc := unc + len, syms := sym :: syms }

/-- `rc.get_pending_size()`: `pos + cache_size + 5 - 1` (= `s.rc.pendingSize`, as `outLen = rc.out.length`) -/
def EncSt.pending (s : EncSt σ) : Nat := s.outLen + s.rc.cacheSize + 4

/-- `encode_for_lzma2`: `while uncompressed_size <= LZMA2_UNCOMPRESSED_LIMIT && rc.get_pending_size() <=
    LZMA2_COMPRESSED_LIMIT { if !encode_symbol()? { return false } } true`.
    `lim` is the logical read limit: `has_enough_data(read_ahead + 1)` ⇔ `p < lim`
    (`lim = d.size` when flushing / finishing, `write_pos - (keep_size_after - 1)` before).
    `fuel` bounds the number of symbols. -/
def encodeFor (lim : Nat) : Nat → EncSt σ → EncSt σ × Bool
  | 0, s => (s, false)
  | fuel + 1, s =>
    if s.unc ≤ Consts.LZMA2_UNCOMPRESSED_LIMIT ∧ s.pending ≤ Consts.LZMA2_COMPRESSED_LIMIT then
      if s.p < lim then encodeFor lim fuel (step F P nice pr d s) else (s, false)
    else (s, true)

/-- the bytes `d[a .. a + n)` -/
def sliceNat (a n : Nat) : List Nat := (List.range n).map fun i => byteAt d (a + i)

/-- `write_chunk`: `rc.finish_buffer()`, then either `write_lzma` (`compressed_size + 2 < uncompressed_size`)
    or `lzma.reset()` + `write_uncompressed`; then `reset_uncompressed_size`, `rc.reset_buffer()`.
    `none`: the chunk body does not fit `COMPRESSED_SIZE_MAX` bytes (the real writer returns an error). -/
def writeChunk (s : EncSt σ) : Option (EncSt σ × Ev) :=
  let body := s.rc.bytes
  if body.length > Consts.W_COMPRESSED_SIZE_MAX then none
  else if body.length + 2 < s.unc then
    some ({ s with rc := Enc.init, outLen := 0, unc := 0, syms := [] }, .lzma s.unc s.syms.reverse body)
  else
    -- `LZMAEncoder::reset`: state, reps and all probabilities reset; `uncompressed_size += read_ahead + 1`;
    -- `read_ahead = -1` (the byte the finder has already looked at is stored, too)
    let unc := s.unc + s.ra
    let p := s.p + s.ra
    let s' : EncSt σ :=
      { s with p := p, c := Coder.init, ra := 0, probs := Lzma2.freshProbs pr, rc := Enc.init, outLen := 0, unc := 0, syms := [] }
    some (s', .stored (sliceNat d (p - unc) unc))

/-- the loop of `finish` (`set_finishing`) / `flush` / `start_independent_chunk` (`set_flushing`):
    `while pending_size > 0 { encode_for_lzma2; write_chunk }` with everything of `d` readable.
    `pending_size` (bytes in the window that no chunk holds yet) is `d.size - (p - unc)`.
    `fuel` bounds the number of chunks; `acc` holds the events newest first. -/
def finishLoop : Nat → EncSt σ → List Ev → Option (List Ev)
  | 0, _, _ => none
  | fuel + 1, s, acc =>
    if s.p - s.unc < d.size then
      match writeChunk pr d (encodeFor F P nice pr d d.size (d.size + 1) s).1 with
      | none => none
      | some (s', ev) => finishLoop fuel s' (ev :: acc)
    else some acc.reverse

/-- one encoder instance from creation to `finish`, everything present: the events of its chunks.
    `q0` bytes of preset dictionary lead `d`. -/
def segEvents (q0 : Nat) : Option (List Ev) :=
  finishLoop F P nice pr d (d.size + 1) (encNew F pr d q0) []

end Encoder

/-! ## Framing: `write_lzma`, `write_uncompressed` and the reset flags -/

/-- `dict_reset_needed`, `state_reset_needed`, `props_needed`, `force_independent_chunk` -/
structure Flags where
  dictReset : Bool
  stateReset : Bool
  props : Bool
  force : Bool
  deriving Repr, DecidableEq

/-- `LZMA2Writer::new` -/
def Flags.init (hasPreset : Bool) : Flags :=
  { dictReset := !hasPreset, stateReset := true, props := true, force := false }

/-- the control byte of `write_lzma` -/
def lzmaControlW (f : Flags) (unc : Nat) : Nat :=
  (if f.props ∨ f.force then (if f.dictReset ∨ f.force then 0xE0 else 0xC0)
   else if f.stateReset then 0xA0 else 0x80) + (unc - 1) / 65536

/-- `write_lzma`: header (5 or 6 bytes), then the flags -/
def lzmaHdr (f : Flags) (propsByte unc comp : Nat) : List Nat × Flags :=
  let hdr := [lzmaControlW f unc, ((unc - 1) / 256) % 256, (unc - 1) % 256, ((comp - 1) / 256) % 256, (comp - 1) % 256]
  (if f.props then hdr ++ [propsByte] else hdr,
   { dictReset := false, stateReset := false, props := false, force := false })

/-- the pieces of `write_uncompressed` (`while uncompressed_size > 0 { … min(COMPRESSED_SIZE_MAX) … }`):
    `(control, bytes)` per piece.  `fuel` ≥ number of pieces. -/
def storedPieces : Nat → Bool → List Nat → List (Nat × List Nat)
  | 0, _, _ => []
  | fuel + 1, dictReset, raw =>
    if raw.isEmpty then []
    else
      let n := min raw.length Consts.W_COMPRESSED_SIZE_MAX
      ((if dictReset then 1 else 2), raw.take n) :: storedPieces fuel false (raw.drop n)

/-- header + payload of one stored piece -/
def pieceBytes (pc : Nat × List Nat) : List Nat :=
  [pc.1, ((pc.2.length - 1) / 256) % 256, (pc.2.length - 1) % 256] ++ pc.2

/-- flags after `write_uncompressed` of a non-empty chunk -/
def Flags.afterStored (f : Flags) : Flags :=
  { f with dictReset := false, stateReset := true, force := false }

/-- flags set by `start_independent_chunk` -/
def Flags.restart : Flags := { dictReset := true, stateReset := true, props := true, force := true }

/-- the byte stream: every event framed, then the end marker `0x00` of `finish` -/
def frame (propsByte : Nat) : Flags → List Ev → List Nat
  | _, [] => [0]
  | f, .lzma unc _ body :: rest =>
    let h := lzmaHdr f propsByte unc body.length
    h.1 ++ body ++ frame propsByte h.2 rest
  | f, .stored raw :: rest =>
    ((storedPieces (raw.length + 1) f.dictReset raw).map pieceBytes).flatten ++
      frame propsByte (if raw.isEmpty then f else f.afterStored) rest
  | _, .restart :: rest => frame propsByte Flags.restart rest

/-- the chunk list (as the reader model recovers it) of the events -/
def toChunks (propsByte : Nat) : Flags → List Ev → List Lzma2.Chunk
  | _, [] => []
  | f, .lzma unc parse body :: rest =>
    { control := lzmaControlW f unc, unc := unc, comp := body.length,
      props := if f.props then some propsByte else none, parse := parse, raw := [] } ::
      toChunks propsByte (lzmaHdr f propsByte unc body.length).2 rest
  | f, .stored raw :: rest =>
    (storedPieces (raw.length + 1) f.dictReset raw).map
        (fun pc => { control := pc.1, unc := pc.2.length, comp := 0, props := none, parse := [], raw := pc.2 }) ++
      toChunks propsByte (if raw.isEmpty then f else f.afterStored) rest
  | _, .restart :: rest => toChunks propsByte Flags.restart rest

/-! ## `chunk_size`: where `start_independent_chunk` fires (history: one `write` call, then `finish`) -/

/-- the window of `LZEncoder::new_*` for the fast mode of the LZMA2 writer -/
def winParams (o : Opts) : EncWindow.Params :=
  EncWindow.mkParams o.dict o.nice .fast .hc4 true

section Plan
variable {σ : Type} (F : Finder σ) (P : FastParams) (o : Opts) (W : EncWindow.Params)

/-- state of the loop in `LZMA2Writer::write` for one encoder instance over `d` (= everything that is still to
    come, not only what the window holds: the search never looks further than `keep_size_after` bytes) -/
structure PlanSt (σ : Type) where
  enc : EncSt σ
  /-- logical `write_pos` -/
  wp : Nat
  /-- bytes dropped from the front of the buffer by `move_window` -/
  base : Nat
  /-- logical `read_limit + 1` (0 while `read_limit = -1`) -/
  lim : Nat
  /-- `LZMA2Writer::uncompressed_size` -/
  written : Nat

/-- The `write` calls (`ends` = logical end positions in `d` of the current and the later calls' slices) and in
    each the iterations of `while len > 0 { … }`, until `should_start_independent_chunk()` holds with input
    left in the current call: returns the logical `write_pos` at that moment (the segment end) and the calls
    still to be served, or `none` when the input ends first (the last segment).  `cs` is the clamped chunk
    size.  `none` also stands for a range-coder overflow (found again by `segEvents`). -/
def planSeg (d : Array UInt8) (cs : Nat) : Nat → List Nat → PlanSt σ → Option (Nat × List Nat)
  | 0, _, _ => none
  | _ + 1, [], _ => none
  | fuel + 1, e :: ends, ⟨enc, wp0, base0, lim0, written⟩ =>
    if wp0 ≥ e then planSeg d cs fuel ends ⟨enc, wp0, base0, lim0, written⟩   -- `len == 0`: this call returns
    else if written ≥ cs then some (wp0, e :: ends)  -- `should_start_independent_chunk()`
    else
      -- `fill_window`
      let readPosBuf : Int := ((enc.p + enc.ra : Nat) : Int) - 1 - (base0 : Int)
      let base :=
        if readPosBuf ≥ (W.bufSize : Int) - (W.keepAfter : Int) then
          base0 + EncWindow.alignDown (readPosBuf + 1 - (W.keepBefore : Int)).toNat
        else base0
      let used := min (e - wp0) (W.bufSize - (wp0 - base))
      let wp := wp0 + used
      let lim := if wp - base ≥ W.keepAfter then wp - (W.keepAfter - 1) else lim0
      -- `if self.lzma.encode_for_lzma2(..)? { self.write_chunk()?; }`
      let r := encodeFor F P o.nice o.params d lim (d.size + 1) enc
      if r.2 then
        match writeChunk o.params d r.1 with
        | none => none
        | some (e', ev) =>
          let n := match ev with
            | .lzma unc _ _ => unc
            | .stored raw => raw.length
            | .restart => 0
          planSeg d cs fuel (e :: ends) { enc := e', wp := wp, base := base, lim := lim, written := written + n }
      else planSeg d cs fuel (e :: ends) { enc := r.1, wp := wp, base := base, lim := lim, written := written }

end Plan

/-- the segments of a history `write(part₁); …; write(partₙ); finish()`: `(bytes of the encoder instance incl.
    preset, preset length)`.  `mk last` is the match finder of a segment (`last`: it ends with `finish`, otherwise
    with `set_flushing`).  `rest` = what is still to come (for the first segment led by `q0` preset bytes),
    `ends` the end positions in `rest` of the `write` calls still to be served. -/
def segments {σ : Type} (mk : Bool → Finder σ) (P : FastParams) (o : Opts) (cs : Nat) :
    Nat → Array UInt8 → Nat → List Nat → List (Array UInt8 × Nat)
  | 0, rest, q0, _ => [(rest, q0)]
  | fuel + 1, rest, q0, ends =>
    let W := winParams o
    match planSeg (mk false) P o W rest cs (2 * rest.size + ends.length + 4) ends
        { enc := encNew (mk false) o.params rest q0, wp := q0, base := 0, lim := 0, written := 0 } with
    | none => [(rest, q0)]
    | some (cut, ends') =>
      if cut ≥ rest.size ∨ cut ≤ q0 then [(rest, q0)]
      else (rest.extract 0 cut, q0) ::
        segments mk P o cs fuel (rest.extract cut rest.size) 0 (ends'.map (· - cut))

/-- end positions of the slices of the `write` calls (lengths `parts`) from position `at` on -/
def partEnds : Nat → List Nat → List Nat
  | _, [] => []
  | pos, n :: ns => (pos + n) :: partEnds (pos + n) ns

/-- events of all segments, `restart` between them -/
def segsEvents {σ : Type} (mk : Bool → Finder σ) (P : FastParams) (o : Opts) :
    List (Array UInt8 × Nat) → Option (List Ev)
  | [] => some []
  | [(d, q0)] => segEvents (mk true) P o.nice o.params d q0
  | (d, q0) :: rest =>
    match segEvents (mk false) P o.nice o.params d q0, segsEvents mk P o rest with
    | some a, some b => some (a ++ .restart :: b)
    | _, _ => none

/-- the events of `LZMA2Writer::new(sink, options)` (preset dictionary inside), one `write` call per element of
    `parts` (their lengths; they must add up to `data.size`), `finish()`.  Without `chunk_size` the partition
    is irrelevant. -/
def fastEventsParts {σ : Type} (mk : Bool → Finder σ) (P : FastParams) (o : Opts)
    (preset data : Array UInt8) (parts : List Nat) : Option (List Ev) :=
  let pu := presetUsedW o.dict preset
  let d := pu ++ data
  match o.chunkClamped with
  | none => segEvents (mk true) P o.nice o.params d pu.size
  | some cs => segsEvents mk P o (segments mk P o cs data.size d pu.size (partEnds pu.size parts))

/-- the history `write(data); finish()` -/
def fastEvents {σ : Type} (mk : Bool → Finder σ) (P : FastParams) (o : Opts)
    (preset data : Array UInt8) : Option (List Ev) :=
  fastEventsParts mk P o preset data [data.size]

/-- **the bytes the real `LZMA2Writer` produces** in fast mode for `write(data); finish()`.
    An empty preset dictionary is no preset dictionary (`LZMA2Writer::new`). -/
def fastBytes {σ : Type} (mk : Bool → Finder σ) (P : FastParams) (o : Opts)
    (preset data : Array UInt8) : Option (List Nat) :=
  (fastEvents mk P o preset data).map (frame o.propsByte (Flags.init (!preset.isEmpty)))

/-- … and the chunk list the reader model recovers from them -/
def fastChunks {σ : Type} (mk : Bool → Finder σ) (P : FastParams) (o : Opts)
    (preset data : Array UInt8) : Option (List Lzma2.Chunk) :=
  (fastEvents mk P o preset data).map (toChunks o.propsByte (Flags.init (!preset.isEmpty)))

/-- HC4 as `LZMAEncoder::new` creates it (`move_pos(4, 4)`: flushing and finishing agree) -/
def mkHc4 (H : Hc4.Hc4Params) (P : FastParams) (o : Opts) : Bool → Finder Hc4.State := fun _ =>
  hc4Finder H { dict := o.dict, niceLen := o.nice, mlmax := P.matchLenMax, depthLimit := o.depth }

/-- BT4 (`move_pos(nice_len, 4)`): a segment that ends with `set_flushing` leaves the last `nice_len - 1`
    positions pending, one that ends with `finish` the last 3 -/
def mkBt4 (B : Bt4.Bt4Params) (P : FastParams) (o : Opts) : Bool → Finder Bt4.St := fun last =>
  bt4Finder (if last then B else { B with minAvailFinishing := max B.minAvailFinishing o.nice })
    { dict := o.dict, niceLen := o.nice, mlmax := P.matchLenMax, depth := o.depth }

/-- `lzma2FastBytes`, HC4 -/
def lzma2FastBytes (H : Hc4.Hc4Params) (P : FastParams) (o : Opts) (preset data : Array UInt8) :
    Option (List Nat) := fastBytes (mkHc4 H P o) P o preset data

/-- `lzma2FastBytes`, BT4 (execution only) -/
def lzma2FastBytesBt4 (B : Bt4.Bt4Params) (P : FastParams) (o : Opts) (preset data : Array UInt8) :
    Option (List Nat) := fastBytes (mkBt4 B P o) P o preset data

end LzmaVerif.Lzma2W
