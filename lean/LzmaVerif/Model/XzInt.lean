/-!
Model of the XZ multibyte integer (`src/xz.rs`: `encode_multibyte_integer`,
`parse_multibyte_integer`, `parse_multibyte_integer_from_reader`,
`count_multibyte_integer_size_for_value`) and of the LZMA2 dictionary-size property
(`XZWriter::encode_lzma2_dict_size`, `BlockHeader::parse`).
-/
namespace LzmaVerif.XzInt

/-- `encode_multibyte_integer(value, buf)` with `buf.len() ≥ 9`; `none` = value > 2^63-1.
    Fuel-free structural version: at most 9 groups of 7 bits. -/
def encodeFuel : Nat → Nat → List Nat
  | 0, _ => []
  | fuel+1, v => if v < 128 then [v] else (v % 128 + 128) :: encodeFuel fuel (v / 128)

def encode (v : Nat) : Option (List Nat) :=
  if v > 2^63 - 1 then none else some (encodeFuel 10 v)

/-- result of parsing -/
inductive PRes where
  | ok (v : Nat) (consumed : Nat)
  | tooLarge        -- "XZ multibyte integer too large" (shift ≥ 63)
  | incomplete      -- ran out of bytes ("incomplete" for the slice parser, EOF for the reader one)
  | tooLong         -- reader variant: 9 bytes without terminator
deriving Repr, DecidableEq

/-- `parse_multibyte_integer(data)` (slice variant): loops over all bytes, errors when
    `shift ≥ 63` *before* using the byte. -/
def parseSliceAux : List Nat → Nat → Nat → Nat → PRes
  | [], _, _, _ => .incomplete
  | b :: bs, shift, acc, n =>
    if shift ≥ 63 then .tooLarge else
    let acc' := acc + (b % 128) * 2 ^ shift
    if b < 128 then .ok acc' (n + 1) else parseSliceAux bs (shift + 7) acc' (n + 1)

def parseSlice (data : List Nat) : PRes := parseSliceAux data 0 0 0

/-- `parse_multibyte_integer_from_reader`: at most 9 bytes -/
def parseReaderAux : Nat → List Nat → Nat → Nat → Nat → PRes
  | 0, _, _, _, _ => .tooLong
  | _+1, [], _, _, _ => .incomplete
  | fuel+1, b :: bs, shift, acc, n =>
    if shift ≥ 63 then .tooLarge else
    let acc' := acc + (b % 128) * 2 ^ shift
    if b < 128 then .ok acc' (n + 1) else parseReaderAux fuel bs (shift + 7) acc' (n + 1)

def parseReader (data : List Nat) : PRes := parseReaderAux 9 data 0 0 0

/-- `count_multibyte_integer_size_for_value` -/
def sizeForFuel : Nat → Nat → Nat
  | 0, _ => 0
  | fuel+1, v => if v < 128 then 1 else 1 + sizeForFuel fuel (v / 128)

def sizeFor (v : Nat) : Nat := sizeForFuel 10 v

/-- LZMA2 dictionary property decode (`BlockHeader::parse`): prop ≤ 40 -/
def dictOfProp (p : Nat) : Option Nat :=
  if p > 40 then none
  else if p = 40 then some 0xFFFFFFFF
  else some ((2 + p % 2) * 2 ^ (p / 2 + 11))

/-- first `prop` in `lo..40` whose size is ≥ `d` -/
def findProp (d : Nat) : Nat → Nat → Option Nat
  | 0, _ => none
  | fuel+1, p =>
    if p ≥ 40 then none
    else if (2 + p % 2) * 2 ^ (p / 2 + 11) ≥ d then some p else findProp d fuel (p + 1)

/-- `encode_lzma2_dict_size`; `none` = `Err(InvalidInput)` -/
def propOfDict (d : Nat) : Option Nat :=
  if d < 4096 then none
  else if d = 0xFFFFFFFF then some 40
  else findProp d 41 0

end LzmaVerif.XzInt
