/-
Model of the range coder: `src/enc/range_enc.rs` (RangeEncoder: shift_low, encode_bit,
encode_direct_bits, finish) and `src/range_dec.rs` (RangeDecoder: normalize, decode_bit,
decode_direct_bits; buffer and stream byte sources).  Core Lean only.

All machine integers are modelled as `Nat` with the wrap-around written out where the Rust code
can actually wrap (`code << 8`, `code.wrapping_sub(range)`).
-/
namespace LzmaVerif.Rc

/-- probability tables: one flat array; reads outside the array give the initial value
    (the Rust code would panic there; index bounds are a separate obligation) -/
abbrev Probs := Array Nat

def PROB_INIT : Nat := 1024

@[inline] def Probs.get (p : Probs) (i : Nat) : Nat := p.getD i PROB_INIT
@[inline] def Probs.set (p : Probs) (i : Nat) (v : Nat) : Probs := p.setIfInBounds i v

/-- adaptive update shared by encoder and decoder
    (`*prob += (2048 - *prob) >> 5` / `*prob -= *prob >> 5`;
     decoder: `p - ((p + RC_BIT_MODEL_OFFSET & !mask) >> 5)` is the same function) -/
@[inline] def updProb (p : Nat) (bit : Bool) : Nat :=
  if bit then p - p / 32 else p + (2048 - p) / 32

/-! ## Encoder -/

/-- `RangeEncoder` state; `out` holds the bytes written so far, most recent first -/
structure Enc where
  low : Nat
  range : Nat
  cacheSize : Nat
  cache : Nat
  out : List Nat
deriving Repr

def Enc.init : Enc := { low := 0, range := 0xFFFFFFFF, cacheSize := 1, cache := 0, out := [] }

/-- `n` copies of `v` pushed on a reversed output -/
def pushN : Nat → Nat → List Nat → List Nat
  | 0, _, acc => acc
  | n+1, v, acc => pushN n v (v :: acc)

/-- `shift_low` -/
def shiftLow (s : Enc) : Enc :=
  let carry := s.low / 2^32
  if carry ≠ 0 ∨ s.low < 0xFF000000 then
    { s with
      out := pushN (s.cacheSize - 1) ((0xFF + carry) % 256) (((s.cache + carry) % 256) :: s.out)
      cache := (s.low / 2^24) % 256
      cacheSize := 1
      low := (s.low % 2^24) * 256 }
  else
    { s with cacheSize := s.cacheSize + 1, low := (s.low % 2^24) * 256 }

@[inline] def encNormalize (s : Enc) : Enc :=
  if s.range < 2^24 then shiftLow { s with range := s.range * 256 } else s

/-- `encode_bit` with the probability value `p` already looked up -/
@[inline] def encodeBitP (s : Enc) (p : Nat) (bit : Bool) : Enc :=
  let bound := (s.range / 2^11) * p
  encNormalize (if bit then { s with low := s.low + bound, range := s.range - bound }
                else { s with range := bound })

/-- one direct bit (`encode_direct_bits` loop body) -/
@[inline] def encodeDirect1 (s : Enc) (bit : Bool) : Enc :=
  let r := s.range / 2
  encNormalize (if bit then { s with low := s.low + r, range := r } else { s with range := r })

/-- `finish`: five `shift_low` -/
def Enc.finish (s : Enc) : Enc := shiftLow (shiftLow (shiftLow (shiftLow (shiftLow s))))

/-- the bytes of the finished stream in writing order -/
def Enc.bytes (s : Enc) : List Nat := s.finish.out.reverse

/-- `get_pending_size` of the buffer variant: bytes written + cache_size + 5 - 1 -/
def Enc.pendingSize (s : Enc) : Nat := s.out.length + s.cacheSize + 4

/-! ## Decoder -/

/-- `RangeDecoder` over a byte source. `inp` = bytes not yet consumed, `over` = number of reads
    past the end of the source (the buffer variant answers those with 0 and keeps counting;
    the stream variant records an error — `over > 0` stands for both). -/
structure Dec where
  range : Nat
  code : Nat
  inp : List Nat
  over : Nat
deriving Repr

@[inline] def Dec.readByte (d : Dec) : Nat × Dec :=
  match d.inp with
  | b :: rest => (b, { d with inp := rest })
  | [] => (0, { d with over := d.over + 1 })

/-- `normalize` -/
@[inline] def Dec.normalize (d : Dec) : Dec :=
  if d.range < 2^24 then
    let (b, d') := d.readByte
    { d' with code := (d'.code * 256 + b) % 2^32, range := d'.range * 256 }
  else d

/-- `decode_bit` with the probability value `p` already looked up -/
@[inline] def Dec.decodeBitP (d0 : Dec) (p : Nat) : Bool × Dec :=
  let d := d0.normalize
  let bound := (d.range / 2^11) * p
  if d.code < bound then (false, { d with range := bound })
  else (true, { d with range := d.range - bound, code := d.code - bound })

/-- one iteration of `decode_direct_bits` (portable loop and x86-64 asm: sign of the wrapped
    difference decides; equal to `code ≥ range` whenever `code < 2·range`, in particular on
    every valid stream) -/
@[inline] def Dec.decodeDirect1 (d0 : Dec) : Bool × Dec :=
  let d := d0.normalize
  let r := d.range / 2
  let diff := (d.code + 2^32 - r) % 2^32
  if diff ≥ 2^31 then (false, { d with range := r })
  else (true, { d with range := r, code := diff })

/-- `prepare` / `new_stream`: first byte must be 0, then a big-endian u32.
    `none` = error (short input or first byte ≠ 0). -/
def Dec.init (inp : List Nat) : Option Dec :=
  match inp with
  | b0 :: b1 :: b2 :: b3 :: b4 :: rest =>
    if b0 = 0 then some { range := 0xFFFFFFFF, code := ((b1 * 256 + b2) * 256 + b3) * 256 + b4, inp := rest, over := 0 }
    else none
  | _ => none

/-- buffer variant `is_finished` -/
def Dec.isFinished (d : Dec) : Bool := d.inp.isEmpty && d.over == 0 && d.code == 0

end LzmaVerif.Rc
