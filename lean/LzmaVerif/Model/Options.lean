import LzmaVerif.Generated.Consts
/-
Model of the option validation added to the writers: `LZMAOptions::validate` (src/enc/lzma2_writer.rs)
and the filter checks of `XZWriter::new` (src/xz/writer.rs).  Core Lean only.
-/
namespace LzmaVerif.Options

structure LzOptions where
  dict : Nat
  lc : Nat
  lp : Nat
  pb : Nat
  nice : Nat
deriving Repr

def DICT_SIZE_MAX_ENCODER : Nat := 768 * 1024 * 1024

/-- `LZMAOptions::validate(lzma2)`; `true` = `Ok(())` -/
def validate (o : LzOptions) (lzma2 : Bool) : Bool :=
  decide (o.lc ≤ 8 ∧ o.lp ≤ 4 ∧ o.pb ≤ 4) &&
  (!lzma2 || decide (o.lc + o.lp ≤ 4)) &&
  decide (Consts.DICT_SIZE_MIN ≤ o.dict ∧ o.dict ≤ DICT_SIZE_MAX_ENCODER) &&
  decide (8 ≤ o.nice ∧ o.nice ≤ 273)

/-- filter checks of `XZWriter::new`: id 3 = delta (distance), 4..11 = BCJ (start offset) -/
def filterOk (id prop : Nat) : Bool :=
  if id = 3 then decide (1 ≤ prop ∧ prop ≤ 256)
  else if id = 4 then true
  else if id = 8 ∨ id = 11 then prop % 2 = 0
  else if id = 6 then prop % 16 = 0
  else if 5 ≤ id ∧ id ≤ 10 then prop % 4 = 0
  else false

/-- `XZWriter::new`: at most three pre-filters, `validate(true)`, NO (non-empty) preset dictionary - the XZ format
    cannot announce one, so no reader could decode the stream - and the per-filter checks.  `presetLen` is the length
    of `lzma_options.preset_dict` (0 for `None`; an empty preset dictionary counts as none, as in `LZMA2Writer::new`). -/
def xzValidate (o : LzOptions) (filters : List (Nat × Nat)) (presetLen : Nat := 0) : Bool :=
  decide (filters.length ≤ 3) && validate o true && decide (presetLen = 0) && filters.all fun f => filterOk f.1 f.2

/-- `LZIPWriter::new` overwrites what the format fixes (lc = 3, lp = 0, pb = 2, dictionary clamped to 4 KiB .. 512 MiB,
    no preset dictionary) instead of rejecting: the preset-dictionary length that reaches the member encoder -/
def lzipPresetUsed (_presetLen : Nat) : Nat := 0

/-- outcome of a constructor: accepted, `InvalidInput`, `Unsupported` -/
inductive NewRes where
  | ok | invalid | unsupported
deriving Repr, DecidableEq

/-- `LZMAWriter::new(out, options, use_header, use_end_marker, expected_uncompressed_size)` (src/enc/lzma_writer.rs), in
    the order of the source: `validate(false)`; a header that would announce an unknown size needs the end marker (the
    pinned constructor accepted `use_header ∧ ¬use_end_marker ∧ expected = None` and wrote a `.lzma` file no reader can
    terminate); a preset dictionary cannot be combined with the header (`Unsupported`).  `expected = some n` only fixes
    what `write` / `finish` accept later (C18), not construction. -/
def lzmaWriterNew (o : LzOptions) (useHeader useEndMarker : Bool) (expectedKnown : Bool) (hasPreset : Bool) : NewRes :=
  if validate o false = false then .invalid
  else if useHeader && !useEndMarker && !expectedKnown then .invalid
  else if hasPreset && useHeader then .unsupported
  else .ok

end LzmaVerif.Options
