/-
Streaming wrappers around a block filter: the streaming `BCJWriter` (carry-over of the unprocessed
tail, `finish`) and the `BCJReader` buffer machine of `src/filter/bcj.rs` (4096-byte `filter_buf`
with `pos / filtered / unfiltered / end_reached`), over an ABSTRACT block filter.  The concrete BCJ
filters are instances (`Model/Filters.lean`).  Core Lean only.
-/
namespace LzmaVerif.Stream

/-- a block filter with state `σ`: transforms a prefix of the buffer in place and says how many
    bytes it has processed (`BCJFilter::code`) -/
structure BlockFilter (σ : Type) where
  code : σ → List Nat → List Nat × Nat × σ

variable {σ : Type}

/-- what one-shot filtering of a whole byte string produces (the unprocessed tail passes through) -/
def oneShot (F : BlockFilter σ) (st : σ) (xs : List Nat) : List Nat := (F.code st xs).1

/-! ## Streaming writer (`BCJWriter` in streaming mode) -/

structure WState (σ : Type) where
  st : σ
  carry : List Nat          -- accepted but not yet filtered/written
  out : List Nat            -- bytes handed to the inner writer so far

/-- `write(buf)`: empty writes do nothing -/
def wWrite (F : BlockFilter σ) (w : WState σ) (buf : List Nat) : WState σ :=
  if buf.isEmpty then w else
  let b := w.carry ++ buf
  let (o, p, st') := F.code w.st b
  { st := st', carry := o.drop p, out := w.out ++ o.take p }

/-- `finish()` -/
def wFinish (w : WState σ) : List Nat := w.out ++ w.carry

def wRun (F : BlockFilter σ) (st : σ) (parts : List (List Nat)) : List Nat :=
  wFinish (parts.foldl (wWrite F) { st, carry := [], out := [] })

/-! ## Buffered reader (`BCJReader`) -/

def BUF : Nat := 4096

structure RState (σ : Type) where
  st : σ
  pending : List Nat    -- filter_buf[pos .. pos + filtered + unfiltered]
  pos : Nat
  filtered : Nat        -- leading bytes of `pending` that are ready to be handed out
  unfiltered : Nat
  endReached : Bool
  src : List Nat        -- what the inner reader still has

/-- One `read(buf)` call with a destination of `len > 0` bytes.  `grants` answers the inner reader's
`read` calls: each element is the number of bytes it is willing to deliver (clamped to what is
asked and what is left; a grant of 0 while data is left is treated as 1 – a `Read` impl may return
short counts but returns 0 only at the end).  Returns the bytes delivered and the new state.
`fuel` bounds the loop iterations of the call. -/
def rRead (F : BlockFilter σ) : Nat → RState σ → Nat → List Nat → List Nat → List Nat × RState σ × List Nat
  | 0, s, _, _, acc => (acc, s, [])
  | fuel+1, s, len, grants, acc =>
    -- copy filtered data to the caller
    let c := min s.filtered len
    let acc := acc ++ s.pending.take c
    let s := { s with pending := s.pending.drop c, pos := s.pos + c, filtered := s.filtered - c }
    let len := len - c
    -- end of filter_buf reached: move the pending data to the front
    let s := if s.pos + s.filtered + s.unfiltered = BUF then { s with pos := 0 } else s
    if len = 0 ∨ s.endReached then (acc, s, grants)
    else
      let room := BUF - (s.pos + s.filtered + s.unfiltered)
      let (g, grants) := match grants with
        | [] => (room, [])
        | g :: gs => (g, gs)
      let want := min room s.src.length
      let n := if want = 0 then 0 else max 1 (min g want)
      if n = 0 then
        rRead F fuel { s with endReached := true, filtered := s.unfiltered, unfiltered := 0 } len grants acc
      else
        let incoming := s.src.take n
        let raw := s.pending ++ incoming          -- `filtered` is 0 here
        let (o, p, st') := F.code s.st raw
        rRead F fuel { s with st := st', pending := o, src := s.src.drop n, filtered := p,
                              unfiltered := s.unfiltered + n - p } len grants acc

def rInit (st : σ) (src : List Nat) : RState σ :=
  { st, pending := [], pos := 0, filtered := 0, unfiltered := 0, endReached := false, src }

/-- read to the end with the given destination sizes (cycled; zero-length reads return nothing and
leave the state untouched) -/
def rRun (F : BlockFilter σ) : Nat → RState σ → List Nat → List Nat → List Nat → List Nat
  | 0, _, _, _, acc => acc
  | fuel+1, s, sizes, grants, acc =>
    match sizes with
    | [] => acc
    | len :: rest =>
      if len = 0 then rRun F fuel s rest grants acc
      else
        let (got, s', grants') := rRead F (2 * BUF + 8) s len grants []
        if got.isEmpty then acc
        else rRun F fuel s' (rest ++ [len]) grants' (acc ++ got)

end LzmaVerif.Stream
