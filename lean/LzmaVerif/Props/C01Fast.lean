/-
  C01 (fast encoder mode): the link from the real encoder's SEARCH to the hypothesis of the LZMA round trip.

  `Model/EncFast.lean` is an executable transcription of `FastEncoderMode::get_next_symbol`
  (src/enc/encoder_fast.rs) and of the part of src/enc/encoder.rs that drives it for raw LZMA1
  (`encode_for_lzma1`, `encode_init`, `encode_symbol`, the `find_matches` / `skip` wrappers with the
  `read_ahead` bookkeeping), on top of the HC4 model (`Model/Hc4.lean`).  Its output is the PARSE.
  It was validated against the real `LZMAWriter` (`Driver/EncFast.lean`, request `encfast.parse`): the parse
  recovered by the decoder model from the real bytes and the bytes themselves agree with the model's.

  (F1) `fast_parse_valid`:  for EVERY input the parse of the modelled fast encoder satisfies `parseRun`
       (every symbol admissible, every copy inside dictionary and history) and denotes exactly the input.
  (F2) `fast_roundtrip`:    composed with `C01.lzma_roundtrip_size`: the model range encoder turns that parse
       into bytes which the model decoder (`decodeRaw` = `LZMAReader` on a raw LZMA1 stream) turns back into
       exactly the input, consuming exactly those bytes — an unconditional round trip of
       finder + fast parser + range coder + decoder.  `fast_roundtrip_reader` is the instance with the
       dictionary buffer size the reader really allocates; `fast_roundtrip_marker` the end-marker variant.

  The theorems hold for every `nice_len` and `depth_limit` (the bounds `8 ≤ nice_len ≤ 273` of
  `LZMAOptions::validate` are not needed for correctness of the parse) and for every value of the distance
  thresholds of the heuristics (`FastParams`); they need `MATCH_LEN_MIN = 2`, `MATCH_LEN_MAX = 273`
  (`FastParams.ok`), the comparison shapes / constants of hc4.rs (`Hc4Params.ok`), `1 ≤ dict_size ≤ 2^32`
  and a decoder dictionary buffer of at least `min dict_size data.size` bytes.
-/
import LzmaVerif.Proofs.EncFastHc4
import LzmaVerif.Proofs.EncFastBt4
import LzmaVerif.Props.C01
import LzmaVerif.Props.C01Mf

namespace LzmaVerif.Props.C01Fast
open LzmaVerif Mf Lzma EncFast

/-! ## (F1) the parse of the fast encoder is valid and denotes the data -/

/-- for every sound match finder (`FinderSound`: reachable-state invariant, `find` / `skip` advance the
    logical position by 1 / n, `find` reports only `ValidMatch`es) -/
theorem fast_parse_valid_generic {σ : Type} {F : Finder σ} {d : Array UInt8} {dict : Nat}
    (FS : FinderSound F d dict 273) (P : FastParams) (hP : P.ok) (nice dictBuf : Nat)
    (hd1 : 1 ≤ dict) (hdb : min dict d.size ≤ dictBuf) (h32 : dict ≤ 2 ^ 32) :
    ∃ c' h', parseRun dictBuf (fastParse F P nice d) Coder.init (#[] : Hist) = some (c', h') ∧
      h' = d.map (fun b => b.toNat) :=
  fastParse_valid_generic FS P hP nice dictBuf hd1 hdb h32

theorem fastParseHc4_eq (H : Hc4.Hc4Params) (P : FastParams) (hP : P.ok) (dict nice depth : Nat)
    (d : Array UInt8) :
    fastParseHc4 H P dict nice depth d =
      fastParse (hc4Finder H { dict := dict, niceLen := nice, mlmax := 273, depthLimit := depth }) P nice d := by
  unfold fastParseHc4
  rw [hP.2]

/-- **(F1)** the fast encoder over HC4 -/
theorem fast_parse_valid (H : Hc4.Hc4Params) (hH : H.ok) (P : FastParams) (hP : P.ok)
    (dict nice depth dictBuf : Nat) (d : Array UInt8)
    (hd1 : 1 ≤ dict) (hdb : min dict d.size ≤ dictBuf) (h32 : dict ≤ 2 ^ 32) :
    ∃ c' h', parseRun dictBuf (fastParseHc4 H P dict nice depth d) Coder.init (#[] : Hist) = some (c', h') ∧
      h' = d.map (fun b => b.toNat) := by
  rw [fastParseHc4_eq H P hP]
  exact fastParse_valid_generic (hc4Sound H hH dict nice depth hd1 d) P hP nice dictBuf hd1 hdb h32

/-! ## (F2) round trip of finder + fast parser + range coder + decoder -/

theorem presetUsedOf_empty (dictBuf : Nat) : presetUsedOf #[] dictBuf = #[] := by
  unfold presetUsedOf
  simp only [List.size_toArray, List.length_nil, zero_le, inf_of_le_left, tsub_self, Array.extract_zero]

/-- **(F2)**, declared size: the model encoder's bytes for the fast parse decode to exactly the data -/
theorem fast_roundtrip (pr : Params) (H : Hc4.Hc4Params) (hH : H.ok) (P : FastParams) (hP : P.ok)
    (dict nice depth dictBuf : Nat) (d : Array UInt8)
    (hd1 : 1 ≤ dict) (hdb : min dict d.size ≤ dictBuf) (h32 : dict ≤ 2 ^ 32)
    (rest : List Nat) (cap : Nat) :
    ∃ bytes, encodeParse pr dictBuf #[] (some d.size) (d.size + 1) (fastParseHc4 H P dict nice depth d) = some bytes ∧
      decodeRaw pr dictBuf #[] (some d.size) (bytes ++ rest) cap
        = .ok (d.map (fun b => b.toNat)) bytes.length (fastParseHc4 H P dict nice depth d) := by
  obtain ⟨c', h', hp, hh⟩ := fast_parse_valid H hH P hP dict nice depth dictBuf d hd1 hdb h32
  have hpu := presetUsedOf_empty dictBuf
  have hsz : h'.size = d.size := by rw [hh, Array.size_map]
  obtain ⟨bytes, he, hdec⟩ := C01.lzma_roundtrip_size pr dictBuf #[] (fastParseHc4 H P dict nice depth d) d.size
    c' h' (by rw [hpu]; exact hp) (by rw [hpu, hsz]; simp only [List.size_toArray, List.length_nil, zero_add]) rest cap
  rw [hpu] at he hdec
  refine ⟨bytes, he, ?_⟩
  rw [hdec]
  have : h'.extract (#[] : Array Nat).size h'.size = h' := by
    simp only [List.size_toArray, List.length_nil, Array.extract_size]
  rw [this, hh]

/-- the dictionary buffer the reader allocates (`LZMAReader::construct2`) is large enough -/
theorem readerDictBuf_ge (dict n : Nat) : min dict n ≤ lzmaReaderDictBuf dict (some n) 0 := by
  unfold lzmaReaderDictBuf lzmaDictBuf
  simp only [Nat.add_zero]
  split <;> omega

/-- **(F2)** with the dictionary buffer size `LZMAReader` really uses for a raw stream of declared size -/
theorem fast_roundtrip_reader (pr : Params) (H : Hc4.Hc4Params) (hH : H.ok) (P : FastParams) (hP : P.ok)
    (dict nice depth : Nat) (d : Array UInt8) (hd1 : 1 ≤ dict) (h32 : dict ≤ 2 ^ 32)
    (rest : List Nat) (cap : Nat) :
    ∃ bytes, encodeParse pr (lzmaReaderDictBuf dict (some d.size) 0) #[] (some d.size) (d.size + 1)
        (fastParseHc4 H P dict nice depth d) = some bytes ∧
      decodeRaw pr (lzmaReaderDictBuf dict (some d.size) 0) #[] (some d.size) (bytes ++ rest) cap
        = .ok (d.map (fun b => b.toNat)) bytes.length (fastParseHc4 H P dict nice depth d) :=
  fast_roundtrip pr H hH P hP dict nice depth _ d hd1 (readerDictBuf_ge dict d.size) h32 rest cap

/-- **(F2)**, end marker (`use_end_marker = true`; `cap` is the model's output bound) -/
theorem fast_roundtrip_marker (pr : Params) (H : Hc4.Hc4Params) (hH : H.ok) (P : FastParams) (hP : P.ok)
    (dict nice depth dictBuf : Nat) (d : Array UInt8)
    (hd1 : 1 ≤ dict) (hdb : min dict d.size ≤ dictBuf) (h32 : dict ≤ 2 ^ 32) (hbuf : dictBuf ≤ END_DIST)
    (rest : List Nat) (cap : Nat) (hcap : (fastParseHc4 H P dict nice depth d).length < cap) :
    ∃ bytes, encodeParse pr dictBuf #[] none (cap + 1)
        (fastParseHc4 H P dict nice depth d ++ [.mtch END_DIST 2]) = some bytes ∧
      decodeRaw pr dictBuf #[] none (bytes ++ rest) cap
        = .ok (d.map (fun b => b.toNat)) bytes.length (fastParseHc4 H P dict nice depth d ++ [.mtch END_DIST 2]) := by
  obtain ⟨c', h', hp, hh⟩ := fast_parse_valid H hH P hP dict nice depth dictBuf d hd1 hdb h32
  have hpu := presetUsedOf_empty dictBuf
  obtain ⟨bytes, he, hdec⟩ := C01.lzma_roundtrip_marker pr dictBuf hbuf #[] (fastParseHc4 H P dict nice depth d) 2
    (by omega) c' h' (by rw [hpu]; exact hp) rest cap hcap
  rw [hpu] at he hdec
  refine ⟨bytes, he, ?_⟩
  rw [hdec]
  have : h'.extract (#[] : Array Nat).size h'.size = h' := by
    simp only [List.size_toArray, List.length_nil, Array.extract_size]
  rw [this, hh]

/-! ## the parameters the source has now -/

/-- constants of encoder_fast.rs / lib.rs (defaults of `FastParams` = the current source) -/
theorem default_fast_params_ok : ({} : FastParams).ok := by decide

/-- the constants of encoder_fast.rs / lib.rs regenerated from the source satisfy what the proofs need -/
theorem generated_fast_params_ok : MfGen.fastParams.ok := by decide

/-- the round trip for the HC4 and fast-mode parameters regenerated from /repo's source (`Generated/MfParams.lean`),
    every input, every `lc/lp/pb`, every `dict_size` in `1 ..= 2^32`, every `nice_len`, every `depth_limit` -/
theorem fast_roundtrip_generated (pr : Params) (dict nice depth : Nat) (d : Array UInt8)
    (hd1 : 1 ≤ dict) (h32 : dict ≤ 2 ^ 32) (rest : List Nat) (cap : Nat) :
    ∃ bytes, encodeParse pr (lzmaReaderDictBuf dict (some d.size) 0) #[] (some d.size) (d.size + 1)
        (fastParseHc4 MfGen.hc4Params MfGen.fastParams dict nice depth d) = some bytes ∧
      decodeRaw pr (lzmaReaderDictBuf dict (some d.size) 0) #[] (some d.size) (bytes ++ rest) cap
        = .ok (d.map (fun b => b.toNat)) bytes.length (fastParseHc4 MfGen.hc4Params MfGen.fastParams dict nice depth d) :=
  fast_roundtrip_reader pr MfGen.hc4Params C01Mf.generated_hc4_params_ok MfGen.fastParams generated_fast_params_ok
    dict nice depth d hd1 h32 rest cap

/-! ## the fast encoder over BT4 (`MFType::BT4` with `EncodeMode::Fast`) -/

theorem fastParseBt4_eq (B : Bt4.Bt4Params) (P : FastParams) (hP : P.ok) (dict nice depth : Nat)
    (d : Array UInt8) :
    fastParseBt4 B P dict nice depth d =
      fastParse (bt4Finder B { dict := dict, niceLen := nice, mlmax := 273, depth := depth }) P nice d := by
  unfold fastParseBt4
  rw [hP.2]

/-- the hypotheses of the BT4 soundness theorem (`Bt4.HypA`) for the finder the LZMA encoder creates
    (`match_len_max = 273`), from explicit decidable conditions on the options -/
theorem bt4_hypA (B : Bt4.Bt4Params) (hB : B.ok) (dict nice depth : Nat) (d : Array UInt8)
    (hd1 : 1 ≤ dict) (hsz : d.size + dict + 2 < 2 ^ 31) (hn1 : B.minAvailFinishing ≤ nice) (hn2 : nice ≤ 273) :
    Bt4.HypA B { dict := dict, niceLen := nice, mlmax := 273, depth := depth } d :=
  ⟨⟨hB, hd1, hsz, by have := Bt4.ok_avail4 hB; show 3 ≤ nice; omega, by show 3 ≤ 273; omega⟩, hn1, hn2⟩

/-- **(F1, BT4)** the parse of the fast encoder over the BT4 match finder satisfies `parseRun` and denotes the
    data: every input, every `depth_limit`, `1 ≤ dict_size`, `4 ≤ nice_len ≤ 273`, below the match finder's
    renormalisation point (`data.size + dict_size + 2 < 2^31`; the normalisation is not part of the step model) -/
theorem fast_parse_valid_bt4 (B : Bt4.Bt4Params) (hB : B.ok) (P : FastParams) (hP : P.ok)
    (dict nice depth dictBuf : Nat) (d : Array UInt8)
    (hd1 : 1 ≤ dict) (hdb : min dict d.size ≤ dictBuf) (hsz : d.size + dict + 2 < 2 ^ 31)
    (hn1 : B.minAvailFinishing ≤ nice) (hn2 : nice ≤ 273) :
    ∃ c' h', parseRun dictBuf (fastParseBt4 B P dict nice depth d) Coder.init (#[] : Hist) = some (c', h') ∧
      h' = d.map (fun b => b.toNat) := by
  rw [fastParseBt4_eq B P hP]
  exact fastParse_valid_generic (bt4Sound B dict nice depth d (bt4_hypA B hB dict nice depth d hd1 hsz hn1 hn2))
    P hP nice dictBuf hd1 hdb (by omega)

/-- **(F2, BT4)**, declared size: BT4 finder + fast parser + range encoder + decoder return exactly the data and
    consume exactly the encoder's bytes -/
theorem fast_roundtrip_bt4 (pr : Params) (B : Bt4.Bt4Params) (hB : B.ok) (P : FastParams) (hP : P.ok)
    (dict nice depth dictBuf : Nat) (d : Array UInt8)
    (hd1 : 1 ≤ dict) (hdb : min dict d.size ≤ dictBuf) (hsz : d.size + dict + 2 < 2 ^ 31)
    (hn1 : B.minAvailFinishing ≤ nice) (hn2 : nice ≤ 273)
    (rest : List Nat) (cap : Nat) :
    ∃ bytes, encodeParse pr dictBuf #[] (some d.size) (d.size + 1) (fastParseBt4 B P dict nice depth d) = some bytes ∧
      decodeRaw pr dictBuf #[] (some d.size) (bytes ++ rest) cap
        = .ok (d.map (fun b => b.toNat)) bytes.length (fastParseBt4 B P dict nice depth d) := by
  obtain ⟨c', h', hp, hh⟩ := fast_parse_valid_bt4 B hB P hP dict nice depth dictBuf d hd1 hdb hsz hn1 hn2
  have hpu := presetUsedOf_empty dictBuf
  have hsz' : h'.size = d.size := by rw [hh, Array.size_map]
  obtain ⟨bytes, he, hdec⟩ := C01.lzma_roundtrip_size pr dictBuf #[] (fastParseBt4 B P dict nice depth d) d.size
    c' h' (by rw [hpu]; exact hp) (by rw [hpu, hsz']; simp only [List.size_toArray, List.length_nil, zero_add]) rest cap
  rw [hpu] at he hdec
  refine ⟨bytes, he, ?_⟩
  rw [hdec]
  have : h'.extract (#[] : Array Nat).size h'.size = h' := by
    simp only [List.size_toArray, List.length_nil, Array.extract_size]
  rw [this, hh]

/-- **(F2, BT4)**, end marker -/
theorem fast_roundtrip_marker_bt4 (pr : Params) (B : Bt4.Bt4Params) (hB : B.ok) (P : FastParams) (hP : P.ok)
    (dict nice depth dictBuf : Nat) (d : Array UInt8)
    (hd1 : 1 ≤ dict) (hdb : min dict d.size ≤ dictBuf) (hsz : d.size + dict + 2 < 2 ^ 31)
    (hn1 : B.minAvailFinishing ≤ nice) (hn2 : nice ≤ 273) (hbuf : dictBuf ≤ END_DIST)
    (rest : List Nat) (cap : Nat) (hcap : (fastParseBt4 B P dict nice depth d).length < cap) :
    ∃ bytes, encodeParse pr dictBuf #[] none (cap + 1)
        (fastParseBt4 B P dict nice depth d ++ [.mtch END_DIST 2]) = some bytes ∧
      decodeRaw pr dictBuf #[] none (bytes ++ rest) cap
        = .ok (d.map (fun b => b.toNat)) bytes.length (fastParseBt4 B P dict nice depth d ++ [.mtch END_DIST 2]) := by
  obtain ⟨c', h', hp, hh⟩ := fast_parse_valid_bt4 B hB P hP dict nice depth dictBuf d hd1 hdb hsz hn1 hn2
  have hpu := presetUsedOf_empty dictBuf
  obtain ⟨bytes, he, hdec⟩ := C01.lzma_roundtrip_marker pr dictBuf hbuf #[] (fastParseBt4 B P dict nice depth d) 2
    (by omega) c' h' (by rw [hpu]; exact hp) rest cap hcap
  rw [hpu] at he hdec
  refine ⟨bytes, he, ?_⟩
  rw [hdec]
  have : h'.extract (#[] : Array Nat).size h'.size = h' := by
    simp only [List.size_toArray, List.length_nil, Array.extract_size]
  rw [this, hh]

/-- the BT4 round trip at the parameters regenerated from /repo's source (`Generated/MfParams.lean`), with the
    dictionary buffer `LZMAReader` really allocates: every input, every `lc/lp/pb`, every `depth_limit`,
    `4 ≤ nice_len ≤ 273` (`LZMAOptions::validate` enforces `8 ..= 273`), `1 ≤ dict_size`,
    `data.size + dict_size + 2 < 2^31` -/
theorem fast_roundtrip_bt4_generated (pr : Params) (dict nice depth : Nat) (d : Array UInt8)
    (hd1 : 1 ≤ dict) (hsz : d.size + dict + 2 < 2 ^ 31) (hn1 : 4 ≤ nice) (hn2 : nice ≤ 273)
    (rest : List Nat) (cap : Nat) :
    ∃ bytes, encodeParse pr (lzmaReaderDictBuf dict (some d.size) 0) #[] (some d.size) (d.size + 1)
        (fastParseBt4 MfGen.bt4Params MfGen.fastParams dict nice depth d) = some bytes ∧
      decodeRaw pr (lzmaReaderDictBuf dict (some d.size) 0) #[] (some d.size) (bytes ++ rest) cap
        = .ok (d.map (fun b => b.toNat)) bytes.length (fastParseBt4 MfGen.bt4Params MfGen.fastParams dict nice depth d) :=
  fast_roundtrip_bt4 pr MfGen.bt4Params C01Mf.generated_bt4_params_ok MfGen.fastParams generated_fast_params_ok
    dict nice depth _ d hd1 (readerDictBuf_ge dict d.size) hsz hn1 hn2 rest cap

/-! ## examples -/

/-- "abcabcabcabcXabcabcabc_abX": literals, a match, repeated matches -/
def w1 : Array UInt8 :=
  #[97, 98, 99, 97, 98, 99, 97, 98, 99, 97, 98, 99, 88, 97, 98, 99, 97, 98, 99, 97, 98, 99, 95, 97, 98, 88]

/-- the hypotheses are satisfiable: the theorems instantiated at the real constants on `w1`
    (dictionary 4096, nice_len 32, default depth, lc/lp/pb = 3/0/2) -/
example := fast_parse_valid {} (by decide) {} (by decide) 4096 32 0 4096 w1 (by decide) (by decide) (by decide)
example := fast_roundtrip ⟨3, 0, 2⟩ {} (by decide) {} (by decide) 4096 32 0 4096 w1 (by decide) (by decide)
  (by decide) [] 100
example := fast_roundtrip_generated ⟨3, 0, 2⟩ 4096 32 0 w1 (by decide) (by decide) [1, 2, 3] 100
example := fast_parse_valid_bt4 {} (by decide) {} (by decide) 4096 32 0 4096 w1 (by decide) (by decide) (by decide)
  (by decide) (by decide)
example := fast_roundtrip_bt4_generated ⟨3, 0, 2⟩ 4096 32 0 w1 (by decide) (by decide) (by decide) (by decide)
  [1, 2, 3] 100

/-- … and the conclusions are not vacuous: a whole run of the model (dictionary 8, nice_len 8, with the
    small hash tables of `Hc4.tinyHash` so that the kernel can evaluate it): three literals, a match found by
    the finder (distance 3, i.e. `dist = 2`, length 9), a literal, a shorter match chosen after the look-ahead
    step, repeated matches with `reps[1]` … -/
example : fastParseHc4 { hash := Hc4.tinyHash } {} 8 8 0 w1 =
    [.lit 97, .lit 98, .lit 99, .mtch 2 9, .lit 88, .mtch 6 6, .rep 1 3, .lit 95, .rep 1 2, .lit 88] := by
  decide +kernel

/-- … which `parseRun` accepts and which denotes `w1` -/
example : (parseRun 8 (fastParseHc4 { hash := Hc4.tinyHash } {} 8 8 0 w1) Coder.init (#[] : Hist)).map (·.2) =
    some (w1.map (fun b => b.toNat)) := by decide +kernel

/-- `FastParams.ok` matters: with `MATCH_LEN_MIN = 1` the encoder would emit a repeated match of length 1 with
    the long-rep code on "aab", which the length coder cannot express (`parseRun` rejects it) -/
example : fastParseHc4 { hash := Hc4.tinyHash } { matchLenMin := 1 } 8 8 0 #[97, 97, 98] =
      [.lit 97, .rep 0 1, .lit 98] ∧
    parseRun 4096 (fastParseHc4 { hash := Hc4.tinyHash } { matchLenMin := 1 } 8 8 0 #[97, 97, 98])
      Coder.init (#[] : Hist) = none := by decide +kernel

end LzmaVerif.Props.C01Fast
