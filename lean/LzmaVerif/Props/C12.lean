import LzmaVerif.Proofs.Xz
import LzmaVerif.Proofs.LzipFile
/-!
# C12 — concatenated XZ streams and LZIP members decode to the concatenated data

For ANY number of streams (each with its own check type, filter chain and blocks), ANY stream paddings:

* `xz_concatenation` – paddings that are multiples of four (also after the last stream): the multi-stream
  reader returns the concatenation and consumes everything;
* `xz_bad_padding_between`, `xz_bad_padding_at_end`, `xz_garbage_after_stream` – padding whose length is not
  a multiple of four (between streams or at the end of the input) and non-zero garbage are rejected;
* `xz_single_stream_mode_stops` – with multi-stream decoding disabled the reader returns the first stream's
  data and has consumed exactly its bytes, whatever follows;
* `lzip_concatenation` – any non-empty sequence of members decodes to the concatenation.

All are parametric in the payload codec (`PayloadOk`, discharged by the LZMA/LZMA2 round trip of C01).
-/
namespace LzmaVerif.Props.C12
open LzmaVerif

theorem xz_concatenation (s₀ : Xz.Strm) (h₀ : s₀.Ok) (ss : List (Nat × Xz.Strm))
    (hss : ∀ x ∈ ss, x.1 % 4 = 0 ∧ x.2.Ok) (t : Nat) (ht : t % 4 = 0) (cap : Nat)
    (hcap : (s₀.data ++ Xz.catData ss).length ≤ cap) :
    Xz.decode true (s₀.bytes ++ (Xz.catBytes ss ++ List.replicate t 0)) cap
      = .ok (s₀.data ++ Xz.catData ss) (s₀.bytes ++ (Xz.catBytes ss ++ List.replicate t 0)).length
          (Xz.finalBlks ss s₀.blks) :=
  Xz.xz_concat_list s₀ h₀ ss hss t ht cap hcap

theorem xz_bad_padding_between (s : Xz.Strm) (hs : s.Ok) (k : Nat) (hk : k % 4 ≠ 0) (r : List Nat) (cap : Nat)
    (hcap : s.data.length ≤ cap) :
    Xz.decode true (s.bytes ++ (List.replicate k 0 ++ (Consts.XZ_MAGIC ++ r))) cap = .err .invalidData :=
  Xz.xz_misaligned_padding s hs k hk r cap hcap

theorem xz_bad_padding_at_end (s₀ : Xz.Strm) (h₀ : s₀.Ok) (ss : List (Nat × Xz.Strm))
    (hss : ∀ x ∈ ss, x.1 % 4 = 0 ∧ x.2.Ok) (t : Nat) (ht : t % 4 ≠ 0) (cap : Nat)
    (hcap : (s₀.data ++ Xz.catData ss).length ≤ cap) :
    Xz.decode true (s₀.bytes ++ (Xz.catBytes ss ++ List.replicate t 0)) cap = .err .invalidData :=
  Xz.xz_misaligned_trailing_padding s₀ h₀ ss hss t ht cap hcap

theorem xz_garbage_after_stream (s : Xz.Strm) (hs : s.Ok) (k b : Nat) (hb0 : b ≠ 0) (hb : b ≠ 253) (r : List Nat)
    (cap : Nat) (hcap : s.data.length ≤ cap) :
    Xz.decode true (s.bytes ++ (List.replicate k 0 ++ b :: r)) cap = .err .invalidData :=
  Xz.xz_garbage_after_stream s hs k b hb0 hb r cap hcap

theorem xz_single_stream_mode_stops (c : Xz.Check) (fs : List Xz.Filter) (hfs : Xz.FiltersOk fs)
    (blocks : List (List Nat × List Nat))
    (hb : ∀ b ∈ blocks, Xz.PayloadOk (Xz.readerDict fs) b.1 (Xz.applyFilters fs b.2) ∧
      Xz.unfilter fs (Xz.applyFilters fs b.2) = b.2)
    (hsz : Xz.SizesOk c fs blocks) (rest : List Nat) (cap : Nat)
    (hcap : ((blocks.map (·.2)).flatten).length ≤ cap) :
    Xz.decode false (Xz.streamBytes c fs blocks ++ rest) cap
      = .ok (blocks.map (·.2)).flatten (Xz.streamBytes c fs blocks).length (blocks.map (Xz.blkOf fs)).reverse :=
  Xz.xz_roundtrip_blocks c fs hfs blocks hb hsz rest cap hcap

open LzipFile in
theorem lzip_concatenation (ms : List (Nat × List Nat × List Nat)) (hne : ms ≠ []) (hm : ∀ m ∈ ms, MemberOk m)
    (trailing : List Nat) (ht : trailing.take 4 ≠ Consts.LZIP_MAGIC) (ht2 : TrailingOk trailing)
    (cap : Nat) (hcap : (fileData ms).length ≤ cap) :
    decode (fileBytes ms ++ trailing) cap =
      .ok (fileData ms) ((fileBytes ms).length + min 4 trailing.length) (fileRecs ms) :=
  lzip_roundtrip_recs ms hne hm trailing ht ht2 cap hcap

open LzipFile in
/-- trailing data that is a fragment (non-empty proper prefix) of the magic is NOT ignored: the file is reported as
    truncated inside a further member's header -/
theorem lzip_magic_fragment_is_eof (ms : List (Nat × List Nat × List Nat)) (hne : ms ≠ []) (hm : ∀ m ∈ ms, MemberOk m)
    (frag : List Nat) (hf : frag ≠ []) (ht : frag.take 4 ≠ Consts.LZIP_MAGIC)
    (hp : (frag.take 4).isPrefixOf Consts.LZIP_MAGIC = true) (cap : Nat) (hcap : (fileData ms).length ≤ cap) :
    decode (fileBytes ms ++ frag) cap = .err .eof := by
  rw [decode_after_members ms hne hm _ _ hcap]
  exact members_magic_fragment _ _ _ _ _ _ hf ht hp

end LzmaVerif.Props.C12
