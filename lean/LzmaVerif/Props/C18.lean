import LzmaVerif.Proofs.Split
/-!
# C18 — size options and declared sizes are honoured

`Model/Split.lean` transcribes how `XZWriter`, `LZIPWriter` and the MT writers cut a sequence of write
calls into blocks / members / units (validated per run against the sizes found in the real output).
The effective limit is the configured size raised to the dictionary size, hence at least 4096 ≥ 2.

For every limit and EVERY sequence of write-call lengths (one huge write, many small ones, empty ones):
* `xz_blocks`, `lzip_members`, `mt_units`: the sizes are exactly full blocks followed by the remainder;
* hence every block/member/unit holds at most the limit, all but the last hold exactly the limit,
  nothing is lost or duplicated (`*_sum`), and the cutting does not depend on the partition;
* `expected_size_honoured`: a `.lzma` writer with an expected size finishes successfully iff exactly
  that many bytes were written, and then the header carries that number.
-/
namespace LzmaVerif.Props.C18
open LzmaVerif.Split

/-- "Will get clamped to be at least the dict size" -/
def effectiveLimit (configured dict : Nat) : Nat := max configured dict

theorem effective_limit_ge_two (configured dict : Nat) (hd : 4096 ≤ dict) : 2 ≤ effectiveLimit configured dict := by
  unfold effectiveLimit; omega

theorem xz_blocks (lim : Nat) (hl : 2 ≤ lim) (parts : List Nat) :
    xzBlocks lim parts = ideal lim parts.sum ∧
    (∀ b ∈ xzBlocks lim parts, 0 < b ∧ b ≤ lim) ∧
    (∀ b ∈ (xzBlocks lim parts).dropLast, b = lim) ∧
    (xzBlocks lim parts).sum = parts.sum := by
  have h := xzBlocks_eq_ideal lim hl parts
  rw [h]
  exact ⟨rfl, ideal_bound lim parts.sum (by omega), ideal_all_but_last_full lim parts.sum (by omega),
    ideal_sum lim parts.sum (by omega)⟩

theorem lzip_members (lim : Nat) (hl : 2 ≤ lim) (parts : List Nat) :
    lzipMembers lim parts = if parts.sum = 0 then [0] else ideal lim parts.sum :=
  lzipMembers_eq lim hl parts

theorem mt_units (lim : Nat) (hl : 0 < lim) (parts : List Nat) :
    mtUnits lim parts = ideal lim parts.sum ∧
    (∀ b ∈ mtUnits lim parts, 0 < b ∧ b ≤ lim) ∧
    (∀ b ∈ (mtUnits lim parts).dropLast, b = lim) ∧
    (mtUnits lim parts).sum = parts.sum := by
  have h := mtUnits_eq_ideal lim hl parts
  rw [h]
  exact ⟨rfl, ideal_bound lim parts.sum hl, ideal_all_but_last_full lim parts.sum hl, ideal_sum lim parts.sum hl⟩

theorem cutting_is_partition_free (lim : Nat) (hl : 2 ≤ lim) (p q : List Nat) (h : p.sum = q.sum) :
    xzBlocks lim p = xzBlocks lim q ∧ mtUnits lim p = mtUnits lim q :=
  ⟨xzBlocks_partition_independent lim hl p q h, mtUnits_partition_independent lim (by omega) p q h⟩

theorem expectedRun_spec (exp : Nat) (parts : List Nat) : ∀ (cur i : Nat),
    (expectedRun exp parts cur i = .ok exp ↔ cur + parts.sum = exp) ∧
    (∀ w, expectedRun exp parts cur i = .ok w → w = exp) := by
  induction parts with
  | nil =>
    intro cur i
    simp only [expectedRun, List.sum_nil, Nat.add_zero]
    constructor
    · constructor
      · intro h; split at h <;> simp_all
      · intro h; simp [h]
    · intro w h; split at h <;> simp_all
  | cons n rest ih =>
    intro cur i
    simp only [expectedRun, List.sum_cons]
    by_cases hlt : exp < cur + n
    · simp only [hlt, if_true]
      constructor
      · constructor
        · intro h; cases h
        · intro h; omega
      · intro w h; cases h
    · simp only [hlt, if_false]
      obtain ⟨a, b⟩ := ih (cur + n) (i + 1)
      constructor
      · rw [a]; omega
      · exact b

/-- a `.lzma` writer given an expected size succeeds iff exactly that many bytes are written,
    whatever the partition, and the header then carries that number -/
theorem expected_size_honoured (exp : Nat) (parts : List Nat) :
    (expectedRun exp parts 0 0 = .ok exp ↔ parts.sum = exp) ∧
    (∀ w, expectedRun exp parts 0 0 = .ok w → w = exp) := by
  have := expectedRun_spec exp parts 0 0
  simpa using this

example : xzBlocks 10 [25, 0, 5, 3, 17] = [10, 10, 10, 10, 10] ∧ expectedRun 7 [3, 0, 4] 0 0 = .ok 7 ∧
    expectedRun 7 [3, 5] 0 0 = .errWrite 1 ∧ expectedRun 7 [3] 0 0 = .errFinish := by decide

end LzmaVerif.Props.C18
