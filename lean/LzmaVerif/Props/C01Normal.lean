/-
  C01 (NORMAL / optimal-parsing encoder mode): the model of the default mode of presets 4-9 and what is proved of it.

  `Model/EncNormal.lean` + `Model/EncPrices.lean` are an executable transcription of
  `NormalEncoderMode::get_next_symbol` with `convert_opts`, `update_opt_state_and_reps`, `calc1_byte_prices`,
  `calc_long_rep_prices`, `calc_normal_match_prices` (src/enc/encoder_normal.rs), of the price machinery of
  src/enc/encoder.rs / src/enc/range_enc.rs (price tables, their refresh counters, `PRICES`) and of the part of
  encoder.rs that drives them for raw LZMA1, on top of the finder models and the probability models of
  `Model/Lzma.lean`.  Its output is the PARSE.  It is tied to the code byte for byte: the real `LZMAWriter` in
  `EncodeMode::Normal` and the model must produce identical bytes on every sampled input (request
  `encnormal.parse … enc=1 bytesonly=1`, HC4 and BT4); the driver also runs `parseRun` on the model's parse on every
  request.

  (N1) `normal_parse_valid`:  for EVERY input, every `lc/lp/pb`, `1 ≤ dict_size ≤ 2^32`, `2 ≤ nice_len ≤ 273`, every
       `depth_limit`, and for every state the probability models, price tables, refresh counters and the left-over
       contents of `opts[]` can be in, the parse of the modelled normal encoder over HC4 satisfies `parseRun` (every
       symbol admissible, every copy inside dictionary and history) and denotes exactly the input.  No hypothesis is
       left open.  (`LZMAOptions` allows `nice_len` 8..273; outside 2..273 the Rust itself indexes out of range or emits
       unencodable lengths.  `274 ≤ OPTS`, `1152 · OPTS < INFINITY_PRICE` are checked for the constants regenerated from
       the source.)  `normal_parse_valid_generic`: the same for every sound match finder whose reported lengths strictly
       increase (the optimal parser relies on that, unlike the fast mode; proved for HC4).
  (N2) `normal_roundtrip` / `_reader` / `_marker` / `_generated`: composed with `C01.lzma_roundtrip_size/_marker`:
       finder + optimal parser + range encoder + decoder return the input and consume exactly the encoder's bytes.

  How it is proved (Proofs/EncNormal*.lean):
   * the outer loop with its read-ahead bookkeeping and the composition of the chains of all steps (`loopSpec_valid`,
     `chain_run`);
   * every EARLY EXIT of `get_next_symbol` (`nextCore_ok`): fewer than `MATCH_LEN_MIN` bytes left; best repeated match
     ≥ `nice_len`; longest finder match ≥ `nice_len`; "no match, no rep, bytes differ"; `opt_end < MATCH_LEN_MIN`;
   * the INVARIANT over `opts[]` while `opt_cur` advances (`Inv`, `mainLoop_ok`, `optimiserOk`): entries `≤ cur` are
     final — their candidate is a valid chain from an earlier final entry and `state/reps` are the coder state after it
     (`optStateAndReps_eq`: `update_opt_state_and_reps` = `Coder.apply` along the candidate); entries in
     `(cur, opt_end]` are at `INFINITY_PRICE` or hold a valid candidate from some `j ≤ cur`; `opts[cur + 1]` is never read
     at `INFINITY_PRICE` because `price(i) ≤ 1152 · i` (`litPrice_le`: every entry of `PRICES` is ≤ 128);
   * every INSERTION SITE keeps it: first part – long reps of all lengths (`firstRepPrices_thr`), normal matches
     (`firstMatchLoop_thr`); `calc1_byte_prices` – literal, short rep (only after the byte comparison), literal + rep0
     (`calc1BytePrices_inv`); `calc_long_rep_prices` – reps of all lengths after `get_match_len_fast_reject`,
     rep + literal + rep0 (`calcLongRepPrices_thr`); `calc_normal_match_prices` – the shortened match list, matches of all
     lengths, match + literal + rep0 (`calcNormalMatchPrices_thr`);
   * `convert_opts` + the pending path (`convertLoop_spec`, `convertSpec_holds`): the in-place pointer reversal hands out
     exactly the groups of the back-pointer chain of `opts[opt_cur]`, the scratch entries of the composite candidates
     included.
  The driver also runs `parseRun` on the model's parse on every request.
-/
import LzmaVerif.Proofs.EncNormalConv
import LzmaVerif.Proofs.EncFastHc4
import LzmaVerif.Props.C01Fast

namespace LzmaVerif.Props.C01Normal
open LzmaVerif Mf Lzma EncFast EncNormal

/-! ## (N1) the parse of the normal encoder is valid and denotes the data -/

/-- for every sound match finder whose reported lengths increase -/
theorem normal_parse_valid_generic {σ : Type} {F : Finder σ} {d : Array UInt8} {dict : Nat}
    (FS : FinderSound F d dict 273) (hFinc : ∀ s, FS.R s → lensIncreasing (F.find d s).1 = true)
    (P : NormalParams) (hP : P.ok) (hopts : 274 ≤ P.opts) (pr : Params) (dictOpt nice dictBuf : Nat)
    (hn2 : 2 ≤ nice) (hn273 : nice ≤ 273) (hd1 : 1 ≤ dict) (hdb : min dict d.size ≤ dictBuf) (h32 : dict ≤ 2 ^ 32):
    ∃ c' h', parseRun dictBuf (normalParse F P pr dictOpt nice d) Coder.init (#[] : Hist) = some (c', h') ∧
      h' = d.map (fun b => b.toNat) :=
  normalParse_valid_of_steps FS hFinc P pr dictOpt nice dictBuf hd1 hdb h32
    (nextCore_ok FS P hP pr nice (by omega) (optimiserOk FS hFinc P hP hopts pr nice hn2 hn273 (convertSpec_holds P)))

theorem normalParseHc4_eq (H : Hc4.Hc4Params) (P : NormalParams) (hP : P.ok) (pr : Params) (dict nice depth : Nat)
    (d : Array UInt8) :
    normalParseHc4 H P pr dict nice depth d =
      normalParse (hc4Finder H { dict := dict, niceLen := nice, mlmax := 273, depthLimit := depth }) P pr dict nice d := by
  unfold normalParseHc4
  rw [hP.2.1]

/-- HC4 reports strictly increasing lengths -/
theorem hc4_find_inc (H : Hc4.Hc4Params) (hH : H.ok) (dict nice depth : Nat) (hd1 : 1 ≤ dict) (d : Array UInt8) :
    ∀ s, (hc4Sound H hH dict nice depth hd1 d).R s →
      lensIncreasing ((hc4Finder H { dict := dict, niceLen := nice, mlmax := 273, depthLimit := depth }).find d s).1 = true :=
  fun s h => (Hc4.hc4_find_sound H hH _ d hd1 (by show 3 ≤ 273; omega) s h).2.1

/-- **(N1)** the normal encoder over HC4 -/
theorem normal_parse_valid (H : Hc4.Hc4Params) (hH : H.ok) (P : NormalParams) (hP : P.ok) (hopts : 274 ≤ P.opts) (pr : Params)
    (dict nice depth dictBuf : Nat) (d : Array UInt8)
    (hn2 : 2 ≤ nice) (hn273 : nice ≤ 273) (hd1 : 1 ≤ dict) (hdb : min dict d.size ≤ dictBuf) (h32 : dict ≤ 2 ^ 32):
    ∃ c' h', parseRun dictBuf (normalParseHc4 H P pr dict nice depth d) Coder.init (#[] : Hist) = some (c', h') ∧
      h' = d.map (fun b => b.toNat) := by
  rw [normalParseHc4_eq H P hP]
  exact normal_parse_valid_generic (hc4Sound H hH dict nice depth hd1 d) (hc4_find_inc H hH dict nice depth hd1 d)
    P hP hopts pr dict nice dictBuf hn2 hn273 hd1 hdb h32

/-! ## (N2) round trip of finder + optimal parser + range coder + decoder -/

/-- **(N2)**, declared size: the model encoder's bytes for the normal parse decode to exactly the data -/
theorem normal_roundtrip (pr : Params) (H : Hc4.Hc4Params) (hH : H.ok) (P : NormalParams) (hP : P.ok) (hopts : 274 ≤ P.opts)
    (dict nice depth dictBuf : Nat) (d : Array UInt8)
    (hn2 : 2 ≤ nice) (hn273 : nice ≤ 273) (hd1 : 1 ≤ dict) (hdb : min dict d.size ≤ dictBuf) (h32 : dict ≤ 2 ^ 32)
    (rest : List Nat) (cap : Nat) :
    ∃ bytes, encodeParse pr dictBuf #[] (some d.size) (d.size + 1) (normalParseHc4 H P pr dict nice depth d) = some bytes ∧
      decodeRaw pr dictBuf #[] (some d.size) (bytes ++ rest) cap
        = .ok (d.map (fun b => b.toNat)) bytes.length (normalParseHc4 H P pr dict nice depth d) := by
  obtain ⟨c', h', hp, hh⟩ := normal_parse_valid H hH P hP hopts pr dict nice depth dictBuf d hn2 hn273 hd1 hdb h32
  have hpu := C01Fast.presetUsedOf_empty dictBuf
  have hsz : h'.size = d.size := by rw [hh, Array.size_map]
  obtain ⟨bytes, he, hdec⟩ := C01.lzma_roundtrip_size pr dictBuf #[] (normalParseHc4 H P pr dict nice depth d) d.size
    c' h' (by rw [hpu]; exact hp) (by rw [hpu, hsz]; simp only [List.size_toArray, List.length_nil, zero_add]) rest cap
  rw [hpu] at he hdec
  refine ⟨bytes, he, ?_⟩
  rw [hdec]
  have : h'.extract (#[] : Array Nat).size h'.size = h' := by
    simp only [List.size_toArray, List.length_nil, Array.extract_size]
  rw [this, hh]

/-- **(N2)** with the dictionary buffer size `LZMAReader` really uses for a raw stream of declared size -/
theorem normal_roundtrip_reader (pr : Params) (H : Hc4.Hc4Params) (hH : H.ok) (P : NormalParams) (hP : P.ok) (hopts : 274 ≤ P.opts)
    (dict nice depth : Nat) (d : Array UInt8) (hn2 : 2 ≤ nice) (hn273 : nice ≤ 273) (hd1 : 1 ≤ dict) (h32 : dict ≤ 2 ^ 32)
    (rest : List Nat) (cap : Nat) :
    ∃ bytes, encodeParse pr (lzmaReaderDictBuf dict (some d.size) 0) #[] (some d.size) (d.size + 1)
        (normalParseHc4 H P pr dict nice depth d) = some bytes ∧
      decodeRaw pr (lzmaReaderDictBuf dict (some d.size) 0) #[] (some d.size) (bytes ++ rest) cap
        = .ok (d.map (fun b => b.toNat)) bytes.length (normalParseHc4 H P pr dict nice depth d) :=
  normal_roundtrip pr H hH P hP hopts dict nice depth _ d hn2 hn273 hd1 (C01Fast.readerDictBuf_ge dict d.size) h32 rest cap

/-- **(N2)**, end marker (`use_end_marker = true`; `cap` is the model's output bound) -/
theorem normal_roundtrip_marker (pr : Params) (H : Hc4.Hc4Params) (hH : H.ok) (P : NormalParams) (hP : P.ok) (hopts : 274 ≤ P.opts)
    (dict nice depth dictBuf : Nat) (d : Array UInt8)
    (hn2 : 2 ≤ nice) (hn273 : nice ≤ 273) (hd1 : 1 ≤ dict) (hdb : min dict d.size ≤ dictBuf) (h32 : dict ≤ 2 ^ 32) (hbuf : dictBuf ≤ END_DIST)
   
    (rest : List Nat) (cap : Nat) (hcap : (normalParseHc4 H P pr dict nice depth d).length < cap) :
    ∃ bytes, encodeParse pr dictBuf #[] none (cap + 1)
        (normalParseHc4 H P pr dict nice depth d ++ [.mtch END_DIST 2]) = some bytes ∧
      decodeRaw pr dictBuf #[] none (bytes ++ rest) cap
        = .ok (d.map (fun b => b.toNat)) bytes.length (normalParseHc4 H P pr dict nice depth d ++ [.mtch END_DIST 2]) := by
  obtain ⟨c', h', hp, hh⟩ := normal_parse_valid H hH P hP hopts pr dict nice depth dictBuf d hn2 hn273 hd1 hdb h32
  have hpu := C01Fast.presetUsedOf_empty dictBuf
  obtain ⟨bytes, he, hdec⟩ := C01.lzma_roundtrip_marker pr dictBuf hbuf #[] (normalParseHc4 H P pr dict nice depth d) 2
    (by omega) c' h' (by rw [hpu]; exact hp) rest cap hcap
  rw [hpu] at he hdec
  refine ⟨bytes, he, ?_⟩
  rw [hdec]
  have : h'.extract (#[] : Array Nat).size h'.size = h' := by
    simp only [List.size_toArray, List.length_nil, Array.extract_size]
  rw [this, hh]

/-! ## the parameters the source has now -/

/-- constants of encoder_normal.rs / lib.rs (defaults of `NormalParams` = the current source) -/
theorem default_normal_params_ok : ({} : NormalParams).ok := by decide

/-- the constants regenerated from the source satisfy what the proofs need
    (`MATCH_LEN_MIN = 2`, `MATCH_LEN_MAX = 273`, `REPS = 4`, `2 ≤ OPTS`, `1152 · OPTS < INFINITY_PRICE`) -/
theorem generated_normal_params_ok : EncNormal.genParams.ok := by decide

/-- `OPTS` regenerated from the source is large enough for a maximal match from position 0 (`273 < OPTS`) -/
theorem generated_opts_ge : 274 ≤ EncNormal.genParams.opts := by decide

/-- every entry of `PRICES` (regenerated from range_enc.rs) is at most `1 << 7`: a bit never costs more than 128, a
    literal never more than `9 · 128 = 1152` -/
theorem generated_prices_le : Consts.PRICES.all (fun x => decide (x ≤ 128)) = true := by decide +kernel

/-- the round trip for the HC4 and normal-mode parameters regenerated from /repo's source, every input, every `lc/lp/pb`,
    every `dict_size` in `1 ..= 2^32`, every `nice_len` in `2 ..= 273`, every `depth_limit` -/
theorem normal_roundtrip_generated (pr : Params) (dict nice depth : Nat) (d : Array UInt8)
    (hn2 : 2 ≤ nice) (hn273 : nice ≤ 273) (hd1 : 1 ≤ dict) (h32 : dict ≤ 2 ^ 32) (rest : List Nat) (cap : Nat) :
    ∃ bytes, encodeParse pr (lzmaReaderDictBuf dict (some d.size) 0) #[] (some d.size) (d.size + 1)
        (normalParseHc4 MfGen.hc4Params EncNormal.genParams pr dict nice depth d) = some bytes ∧
      decodeRaw pr (lzmaReaderDictBuf dict (some d.size) 0) #[] (some d.size) (bytes ++ rest) cap
        = .ok (d.map (fun b => b.toNat)) bytes.length (normalParseHc4 MfGen.hc4Params EncNormal.genParams pr dict nice depth d) :=
  normal_roundtrip_reader pr MfGen.hc4Params C01Mf.generated_hc4_params_ok EncNormal.genParams generated_normal_params_ok
    generated_opts_ge dict nice depth d hn2 hn273 hd1 h32 rest cap

/-! ## examples -/

/-- "abcabcabcabcXabcabcabc_abX" (as in `C01Fast`) -/
def w1 : Array UInt8 :=
  #[97, 98, 99, 97, 98, 99, 97, 98, 99, 97, 98, 99, 88, 97, 98, 99, 97, 98, 99, 97, 98, 99, 95, 97, 98, 88]


/-- the hypotheses are satisfiable: the theorems instantiated at the real constants on `w1`
    (dictionary 4096, nice_len 32, default depth, lc/lp/pb = 3/0/2) -/
example := normal_parse_valid {} (by decide) {} (by decide) (by decide) ⟨3, 0, 2⟩ 4096 32 0 4096 w1 (by decide) (by decide)
  (by decide) (by decide) (by decide)
example := normal_roundtrip_generated ⟨3, 0, 2⟩ 4096 32 0 w1 (by decide) (by decide) (by decide) (by decide) [1, 2, 3] 100


/-- the conclusion is not vacuous and the optimiser path is exercised: a whole run of the model (dictionary 16,
    nice_len 8, lc/lp/pb = 0/0/0, the small hash tables of `Hc4.tinyHash`, `opts[]` of 64 entries so that the kernel can
    evaluate it) is accepted by `parseRun` and denotes `w1` -/
example : (parseRun 16 (normalParseHc4 { hash := Hc4.tinyHash } { opts := 64 } ⟨0, 0, 0⟩ 16 8 0 w1) Coder.init
    (#[] : Hist)).map (·.2) = some (w1.map (fun b => b.toNat)) := by decide +kernel

/-- an early exit: a run of one byte ends in a repeated match of at least `nice_len` -/
example : normalParseHc4 { hash := Hc4.tinyHash } { opts := 64 } ⟨0, 0, 0⟩ 16 8 0 (Array.replicate 12 7) =
    [.lit 7, .rep 0 11] := by decide +kernel

end LzmaVerif.Props.C01Normal
