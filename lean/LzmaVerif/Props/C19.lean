import LzmaVerif.Model.Options
import LzmaVerif.Proofs.Xz
import LzmaVerif.Props.C17
/-!
# C19 — a writer that reports success has produced a decodable stream

The writers now validate their options (`LZMAOptions::validate`, filter checks in `XZWriter::new`); the
model of that decision (`Model/Options.lean`) is executed against the real constructors on the whole
boundary grid on every check (accept / reject must agree), and every accepted point must round-trip on the
real code without panic, abort or undecodable output (each grid point runs in its own process).

Theorems – there is no gap between what is ACCEPTED and what the round-trip theorems COVER:
* `accepted_options_are_covered` – every accepted option vector satisfies the hypotheses under which the
  container, codec-parameter and memory theorems are proved (dictionary encodable in the XZ block header,
  `lc+lp ≤ 4` hence a properties byte the LZMA2 reader accepts, parameters inside the probability-table
  layout, estimator hypotheses);
* `rejected_iff_out_of_range` – an option vector is rejected exactly when some field is outside its
  documented range (nothing in range is refused);
* `accepted_filters_are_covered` – accepted filter chains satisfy `Xz.FiltersOk`-style side conditions.
-/
namespace LzmaVerif.Props.C19
open LzmaVerif Options

theorem rejected_iff_out_of_range (o : LzOptions) (lzma2 : Bool) :
    validate o lzma2 = false ↔
      (o.lc > 8 ∨ o.lp > 4 ∨ o.pb > 4 ∨ (lzma2 = true ∧ o.lc + o.lp > 4) ∨ o.dict < 4096 ∨
       o.dict > 768 * 1024 * 1024 ∨ o.nice < 8 ∨ o.nice > 273) := by
  simp only [validate, DICT_SIZE_MAX_ENCODER, show Consts.DICT_SIZE_MIN = 4096 from rfl]
  cases lzma2 <;> simp <;> omega

theorem accepted_options_are_covered (o : LzOptions) (h : validate o true = true) :
    Xz.DictOk o.dict ∧ o.lc + o.lp ≤ 4 ∧ o.pb ≤ 4 ∧ (o.pb * 5 + o.lp) * 9 + o.lc ≤ 224 ∧
    (∀ normal bt4, C17.OptsOk { dict := o.dict, lc := o.lc, lp := o.lp, pb := o.pb, normal, bt4, nice := o.nice }) := by
  have hr := (rejected_iff_out_of_range o true).not
  simp only [h, Bool.true_eq_false, not_false_eq_true, true_iff, not_or, not_and, not_lt] at hr
  obtain ⟨h1, h2, h3, h4, h5, h6, h7, h8⟩ := hr
  have h4' := h4 trivial
  refine ⟨⟨by omega, Or.inl (by omega)⟩, by omega, by omega, by omega, fun normal bt4 => ?_⟩
  exact ⟨by simpa using h5, by simp only; omega, by simpa using h1, by simpa using h2, by simpa using h3,
    by simpa using h7, by simpa using h8⟩

theorem accepted_filters_are_covered (id prop : Nat) (h : filterOk id prop = true) :
    (id = 3 ∧ 1 ≤ prop ∧ prop ≤ 256) ∨
    (∃ a, Xz.archOfId id = some a ∧ prop % Xz.archAlign a = 0) := by
  unfold filterOk at h
  by_cases h3 : id = 3
  · left; simp only [h3, if_true, decide_eq_true_eq] at h; exact ⟨h3, h⟩
  · right
    simp only [h3, if_false] at h
    by_cases h4 : id = 4
    · exact ⟨.x86, by rw [h4]; rfl, by simp only [Xz.archAlign]; omega⟩
    · simp only [h4, if_false] at h
      by_cases h8 : id = 8 ∨ id = 11
      · simp only [h8, if_true, decide_eq_true_eq] at h
        rcases h8 with e | e <;> subst e
        · exact ⟨.armThumb, rfl, h⟩
        · exact ⟨.riscv, rfl, h⟩
      · simp only [h8, if_false] at h
        by_cases h6 : id = 6
        · simp only [h6, if_true, decide_eq_true_eq] at h
          exact ⟨.ia64, by rw [h6]; rfl, h⟩
        · simp only [h6, if_false] at h
          by_cases hr : 5 ≤ id ∧ id ≤ 10
          · simp only [hr, and_self, if_true, decide_eq_true_eq] at h
            have : id = 5 ∨ id = 7 ∨ id = 9 ∨ id = 10 := by omega
            rcases this with e | e | e | e <;> subst e
            · exact ⟨.ppc, rfl, h⟩
            · exact ⟨.arm, rfl, h⟩
            · exact ⟨.sparc, rfl, h⟩
            · exact ⟨.arm64, rfl, h⟩
          · simp only [hr, if_false] at h; cases h

/-- `XZWriter::new` accepts a configuration only without a preset dictionary (the XZ format cannot announce one, the
    reader model `Xz.decode` starts every block from an empty dictionary - `xz_container_roundtrip` is stated for
    exactly that), with at most three pre-filters, each acceptable, and in-range LZMA options.  The pinned constructor
    accepted a preset dictionary and wrote a stream its own reader rejects (repaired, KNOWN_FINDINGS `fixed`). -/
theorem xz_accepted_has_no_preset (o : LzOptions) (fs : List (Nat × Nat)) (presetLen : Nat)
    (h : xzValidate o fs presetLen = true) :
    presetLen = 0 ∧ validate o true = true ∧ fs.length ≤ 3 ∧ ∀ f ∈ fs, filterOk f.1 f.2 = true := by
  simp only [xzValidate, Bool.and_eq_true, decide_eq_true_eq, List.all_eq_true] at h
  obtain ⟨⟨⟨h1, h2⟩, h3⟩, h4⟩ := h
  exact ⟨h3, h2, h1, h4⟩

/-- what the pinned `XZWriter::new` did: the same decision without the preset-dictionary clause accepts a 1000-byte
    preset dictionary (witness of the defect; the input is replayed on the real code by the C19 grid) -/
theorem pinned_xz_accepts_preset :
    let pinned := fun (o : LzOptions) (fs : List (Nat × Nat)) (_presetLen : Nat) =>
      decide (fs.length ≤ 3) && validate o true && fs.all fun f => filterOk f.1 f.2
    pinned { dict := 65536, lc := 3, lp := 0, pb := 2, nice := 32 } [] 1000 = true ∧
    xzValidate { dict := 65536, lc := 3, lp := 0, pb := 2, nice := 32 } [] 1000 = false := by decide

/-- whatever `LZMAWriter::new` accepts can be terminated by its reader: a `.lzma` header carries the size or the stream
    carries the end marker (for raw streams the size is the caller's business, as in 7z); and a preset dictionary is never
    combined with a header, which has no field for it.  The write / finish side of a declared size is C18's
    (`Split.expectedRun`); the payload round trip is C01's (`lzma_roundtrip_size`, `lzma_roundtrip_marker`). -/
theorem lzma_new_accepted_is_terminable (o : LzOptions) (useHeader useEndMarker expectedKnown hasPreset : Bool)
    (h : lzmaWriterNew o useHeader useEndMarker expectedKnown hasPreset = .ok) :
    validate o false = true ∧ (useHeader = true → useEndMarker = true ∨ expectedKnown = true) ∧
    (useHeader = true → hasPreset = false) := by
  unfold lzmaWriterNew at h
  cases hv : validate o false <;> simp only [hv] at h
  · simp at h
  · cases useHeader <;> cases useEndMarker <;> cases expectedKnown <;> cases hasPreset <;> simp_all

/-- the pinned constructor had no such clause: header + no marker + unknown size was accepted (witness; replayed on the
    real code by the `lzma_new` grid of the C19 engine) -/
theorem pinned_lzma_new_accepts_unterminated :
    let pinned := fun (o : LzOptions) (useHeader _useEndMarker _expectedKnown hasPreset : Bool) =>
      if validate o false = false then NewRes.invalid else if hasPreset && useHeader then .unsupported else .ok
    pinned { dict := 65536, lc := 3, lp := 0, pb := 2, nice := 32 } true false false false = .ok ∧
    lzmaWriterNew { dict := 65536, lc := 3, lp := 0, pb := 2, nice := 32 } true false false false = .invalid := by decide

example : lzmaWriterNew { dict := 65536, lc := 3, lp := 0, pb := 2, nice := 32 } true false true false = .ok := by decide

example : xzValidate { dict := 65536, lc := 3, lp := 0, pb := 2, nice := 32 } [(3, 1), (4, 0)] 0 = true := by decide

example : validate { dict := 8388608, lc := 3, lp := 0, pb := 2, nice := 64 } true = true ∧
    validate { dict := 8388608, lc := 4, lp := 1, pb := 2, nice := 64 } true = false ∧
    validate { dict := 8388608, lc := 4, lp := 1, pb := 2, nice := 64 } false = true := by decide

end LzmaVerif.Props.C19
