import LzmaVerif.Generated.Shapes
/-!
# Statement shapes of the encoder's LZ window (obligation shared by C01, C07, C15)

`Model/EncWindow.lean` is a hand transcription of `LZEncoderData` (`fill_window`, `move_window`,
`process_pending_bytes`, `move_pos`, `set_preset_dict`, the buffer-size formula) and of the window parameters the
LZMA2 writer passes.  `tools/extract_shapes.py` re-reads those statements from /repo's source on every run and
records, per statement, whether it is still written the way the model transcribes it.  This theorem is re-proved
against the regenerated file: an edit of one of those statements (for instance a window move that rounds its
offset up, or an encoder built with `extra_size_before = 0`) leaves it unprovable.
-/
namespace LzmaVerif.Props.Shapes

theorem encoder_window_shapes_match : ShapeGen.allOk = true := by decide

theorem encoder_window_shapes_no_errors : ShapeGen.extractionErrors = 0 := by decide

end LzmaVerif.Props.Shapes

namespace LzmaVerif.Props.Shapes

/-- C10 ("never more worker threads than the requested maximum, clamped to 1-256"): in all four multi-threaded types
    the requested count is clamped to 1..=256, the struct field holds the clamped value, and a further worker is
    spawned only at the one place guarded by `spawned_workers < self.max_workers` (the bound the MT model's
    `maxWorkers` parameter stands for). -/
theorem mt_worker_cap_shapes_match : ShapeGen.mtAllOk = true := by decide

end LzmaVerif.Props.Shapes
