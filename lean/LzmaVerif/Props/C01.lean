import LzmaVerif.Proofs.Lzma2
import LzmaVerif.Proofs.RcRoundtrip
import LzmaVerif.Proofs.LoopRt
/-!
# C01 — LZMA compress then decompress returns exactly the input

`lzma_roundtrip_size` / `lzma_roundtrip_marker`: for EVERY parameter set `lc, lp, pb`, EVERY dictionary
buffer size, EVERY preset dictionary, EVERY parse that denotes data (every symbol admissible, every copy
inside the dictionary – `parseRun`), and ANY bytes following the stream:

  the model encoder produces a byte string, and the model decoder (`decodeRaw`, i.e. `LZMAReader` over a raw
  LZMA1 stream) run on that byte string followed by the extra bytes returns exactly the denoted data, has
  consumed exactly the encoder's bytes, and recovers the parse.

The chain: `sym_rt` (one symbol, all contexts) → `loop_rt_*` (symbol loop) → `rc_roundtrip` (range coder, for
every decision program, incl. carry propagation, the 5-byte flush against the 5-byte init, and exact
consumption) → this file.  The encoder's SEARCH (match finders, parsers) is not modelled: on every check the
parse is recovered from the real encoder's bytes, must satisfy `parseRun` against the input, and the model
encoder must reproduce the real bytes from it exactly (translation validation, see DESIGN.md).
-/
namespace LzmaVerif.Props.C01
open LzmaVerif Lzma Prog Rc

theorem symRt : SymRt := fun pr c s rest hs => sym_rt pr c s hs rest

/-- every symbol adds at least one byte -/
theorem parseRun_length_le (dictBuf : Nat) (p : List Sym) :
    ∀ (c c' : Coder) (h h' : Hist), parseRun dictBuf p c h = some (c', h') → h.size + p.length ≤ h'.size := by
  induction p with
  | nil =>
    intro c c' h h' hp
    have := parseRun_size_le dictBuf [] c c' h h' hp
    simpa using this
  | cons s p ih =>
    intro c c' h h' hp
    obtain ⟨_, hcase⟩ := parseRun_cons_inv hp
    rcases hcase with ⟨b, _, hrest⟩ | ⟨dist, len, _, _, hlen, _, _, hrest⟩
    · have := ih _ _ _ _ hrest
      rw [Array.size_push] at this
      simp only [List.length_cons]; omega
    · have := ih _ _ _ _ hrest
      rw [hist_copy_size] at this
      simp only [List.length_cons]; omega

theorem probsOk_fresh (pr : Params) : ProbsOk (Array.replicate (numProbs pr.lc pr.lp) PROB_INIT) :=
  ProbsOk_replicate _

/-- shape of `decodeRaw` once the range decoder has been initialised -/
theorem decodeRaw_eq (pr : Params) (dictBuf : Nat) (preset : Array Nat) (size : Option Nat)
    (b0 : Nat) (tl : List Nat) (cap : Nat) (d0 : Dec) (hb : b0 = 0)
    (hinit : Dec.init (b0 :: tl) = some d0) :
    decodeRaw pr dictBuf preset size (b0 :: tl) cap =
      (let presetUsed := presetUsedOf preset dictBuf
       let fuel := (match size with | some n => n + 1 | none => cap + 1)
       let ps0 : Probs := Array.replicate (numProbs pr.lc pr.lp) PROB_INIT
       let r := (loopProg pr dictBuf fuel size Coder.init presetUsed [] 0).decRun ps0 d0
       rawFinish presetUsed.size size (b0 :: tl).length r.1 r.2.2) := by
  subst hb
  simp only [decodeRaw, hinit, ne_eq, not_true_eq_false, if_false]
  generalize (loopProg pr dictBuf (match size with | some n => n + 1 | none => cap + 1) size Coder.init
    (presetUsedOf preset dictBuf) [] 0).decRun (Array.replicate (numProbs pr.lc pr.lp) PROB_INIT) d0 = t
  obtain ⟨r, ps, d⟩ := t
  rfl

/-- `rawFinish` when the loop stopped at the declared size and the final normalisation misses no byte -/
theorem rawFinish_limit (presetSize : Nat) (size : Option Nat) (len : Nat) (r : LoopRes) (d : Dec)
    (hs : r.stop = .limit) (ho : d.normalize.over = 0) :
    rawFinish presetSize size len r d
      = .ok (r.hist.extract presetSize r.hist.size) (len - d.normalize.inp.length) r.parse.reverse := by
  simp only [rawFinish, hs, Stop.isRepeatErr, Bool.false_eq_true, if_false, ho, Nat.lt_irrefl]

/-- `rawFinish` when the loop stopped at the end marker of a stream without declared size -/
theorem rawFinish_marker (presetSize : Nat) (len : Nat) (r : LoopRes) (d : Dec)
    (hs : r.stop = .endMarker) (ho : d.over = 0) (hon : d.normalize.over = 0) :
    rawFinish presetSize none len r d
      = .ok (r.hist.extract presetSize r.hist.size) (len - d.normalize.inp.length) r.parse.reverse := by
  simp only [rawFinish, hs, Stop.isRepeatErr, if_true, ho, hon, Nat.lt_irrefl, if_false]

/-- **LZMA round trip, declared size.** -/
theorem lzma_roundtrip_size (pr : Params) (dictBuf : Nat) (preset : Array Nat) (parse : List Sym) (n : Nat)
    (c' : Coder) (h' : Hist)
    (hp : parseRun dictBuf parse Coder.init (presetUsedOf preset dictBuf) = some (c', h'))
    (hn : h'.size = (presetUsedOf preset dictBuf).size + n) (rest : List Nat) (cap : Nat) :
    ∃ bytes, encodeParse pr dictBuf (presetUsedOf preset dictBuf) (some n) (n + 1) parse = some bytes ∧
      decodeRaw pr dictBuf preset (some n) (bytes ++ rest) cap
        = .ok (h'.extract (presetUsedOf preset dictBuf).size h'.size) bytes.length parse := by
  generalize hpu : presetUsedOf preset dictBuf = pu at *
  have hlen : parse.length < n + 1 := by
    have := parseRun_length_le dictBuf parse _ _ _ _ hp
    omega
  -- the loop program run on the parse's bits
  have hrun := loop_rt_size symRt pr dictBuf parse Coder.init pu c' h' (n + 1) n [] 0 [] hp hn hlen
  simp only [List.append_nil, Nat.zero_add] at hrun
  -- encoder walks the same path
  obtain ⟨ps', e', henc⟩ := Prog.runBits_encRun _ _
    (Array.replicate (numProbs pr.lc pr.lp) PROB_INIT) Enc.init _ _ hrun
  obtain ⟨d0, d', hinit, hdec, hinp, hover, _, hhead, _, _, hlen5⟩ :=
    rc_roundtrip _ _ _ (probsOk_fresh pr) _ _ _ henc rest
  refine ⟨e'.bytes, ?_, ?_⟩
  · simp only [encodeParse, henc]
  · -- first byte is 0
    obtain ⟨b0, tl, hbt⟩ : ∃ b0 tl, e'.bytes ++ rest = b0 :: tl := by
      cases hb : e'.bytes with
      | nil => rw [hb] at hlen5; simp at hlen5
      | cons b t => exact ⟨b, t ++ rest, by simp⟩
    have hb0 : b0 = 0 := by
      cases hb : e'.bytes with
      | nil => rw [hb] at hlen5; simp at hlen5
      | cons b t =>
        rw [hb] at hhead hbt
        simp only [List.head?_cons, Option.some.injEq] at hhead
        simp only [List.cons_append, List.cons.injEq] at hbt
        omega
    rw [hbt] at hinit ⊢
    rw [decodeRaw_eq pr dictBuf preset (some n) b0 tl cap d0 hb0 hinit, hpu]
    simp only [hdec]
    rw [rawFinish_limit _ _ _ _ _ rfl hover]
    simp only [hinp, List.reverse_reverse]
    have : (b0 :: tl).length - rest.length = e'.bytes.length := by
      rw [← hbt, List.length_append]; omega
    rw [this]

/-- **LZMA round trip, end marker** (`mlen` is the length field of the marker; the encoder uses 2). -/
theorem lzma_roundtrip_marker (pr : Params) (dictBuf : Nat) (hd : dictBuf ≤ END_DIST) (preset : Array Nat)
    (parse : List Sym) (mlen : Nat) (hm : 2 ≤ mlen ∧ mlen ≤ 273) (c' : Coder) (h' : Hist)
    (hp : parseRun dictBuf parse Coder.init (presetUsedOf preset dictBuf) = some (c', h'))
    (rest : List Nat) (cap : Nat) (hcap : parse.length < cap) :
    ∃ bytes, encodeParse pr dictBuf (presetUsedOf preset dictBuf) none (cap + 1) (parse ++ [.mtch END_DIST mlen]) = some bytes ∧
      decodeRaw pr dictBuf preset none (bytes ++ rest) cap
        = .ok (h'.extract (presetUsedOf preset dictBuf).size h'.size) bytes.length (parse ++ [.mtch END_DIST mlen]) := by
  generalize hpu : presetUsedOf preset dictBuf = pu at *
  have hrun := loop_rt_marker symRt pr dictBuf hd parse mlen hm Coder.init pu c' h' (cap + 1) [] 0 [] hp (by omega)
  simp only [List.append_nil, Nat.zero_add] at hrun
  obtain ⟨ps', e', henc⟩ := Prog.runBits_encRun _ _
    (Array.replicate (numProbs pr.lc pr.lp) PROB_INIT) Enc.init _ _ hrun
  obtain ⟨d0, d', hinit, hdec, hinp, hover, hover0, hhead, _, _, hlen5⟩ :=
    rc_roundtrip _ _ _ (probsOk_fresh pr) _ _ _ henc rest
  refine ⟨e'.bytes, ?_, ?_⟩
  · simp only [encodeParse, henc]
  · obtain ⟨b0, tl, hbt⟩ : ∃ b0 tl, e'.bytes ++ rest = b0 :: tl := by
      cases hb : e'.bytes with
      | nil => rw [hb] at hlen5; simp at hlen5
      | cons b t => exact ⟨b, t ++ rest, by simp⟩
    have hb0 : b0 = 0 := by
      cases hb : e'.bytes with
      | nil => rw [hb] at hlen5; simp at hlen5
      | cons b t =>
        rw [hb] at hhead hbt
        simp only [List.head?_cons, Option.some.injEq] at hhead
        simp only [List.cons_append, List.cons.injEq] at hbt
        omega
    rw [hbt] at hinit ⊢
    rw [decodeRaw_eq pr dictBuf preset none b0 tl cap d0 hb0 hinit, hpu]
    simp only [hdec]
    rw [rawFinish_marker _ _ _ _ rfl hover0 hover]
    simp only [hinp, List.reverse_cons, List.reverse_reverse]
    have : (b0 :: tl).length - rest.length = e'.bytes.length := by
      rw [← hbt, List.length_append]; omega
    rw [this]


/-! ## Encoder window moves keep the position contexts

`LZEncoderData::move_window` shifts the buffer by `move_offset = (read_pos + 1 - keep_before) & !(MOVE_BLOCK_ALIGN-1)`
and the encoder derives `pos_state` / the literal position bits from the buffer-relative position
(`pos & ((1 << pb) - 1)`, `pb, lp ≤ 4`).  The decoder uses the absolute position.  They agree for every
stream length iff every move offset is a multiple of 16 – which holds because the offset is a multiple
of `MOVE_BLOCK_ALIGN` (re-extracted from `src/lz/lz_encoder.rs` on every run) and `16 ∣ MOVE_BLOCK_ALIGN`. -/

/-- `x & !(MOVE_BLOCK_ALIGN - 1)` for a power-of-two alignment, as arithmetic -/
def moveOffset (x : Nat) : Nat := x / Consts.MOVE_BLOCK_ALIGN * Consts.MOVE_BLOCK_ALIGN

theorem move_block_align_ok : Consts.MOVE_BLOCK_ALIGN % 16 = 0 ∧ 0 < Consts.MOVE_BLOCK_ALIGN := by decide

theorem moveOffset_mod16 (x : Nat) : moveOffset x % 16 = 0 := by
  have h := move_block_align_ok.1
  unfold moveOffset
  generalize Consts.MOVE_BLOCK_ALIGN = a at *
  generalize x / a = q
  have ha : a = 16 * (a / 16) := by omega
  rw [ha, Nat.mul_comm q, Nat.mul_assoc]
  exact Nat.mul_mod_right _ _

/-- after any number of window moves the buffer-relative position and the absolute position select
    the same `pos_state` / literal-position context, for every mask width up to 4 bits -/
theorem window_move_keeps_position_bits (k : Nat) (hk : k ≤ 4) (pos x : Nat) (hle : moveOffset x ≤ pos) :
    (pos - moveOffset x) % 2 ^ k = pos % 2 ^ k := by
  have h16 := moveOffset_mod16 x
  generalize moveOffset x = off at *
  have hdvd : 2 ^ k ∣ off := by
    have : 2 ^ k ∣ 16 := by
      have : k = 0 ∨ k = 1 ∨ k = 2 ∨ k = 3 ∨ k = 4 := by omega
      rcases this with h | h | h | h | h <;> subst h <;> decide
    exact Nat.dvd_trans this (Nat.dvd_of_mod_eq_zero h16)
  obtain ⟨q, hq⟩ := hdvd
  subst hq
  have hsplit : pos = (pos - 2 ^ k * q) + 2 ^ k * q := by omega
  calc (pos - 2 ^ k * q) % 2 ^ k = ((pos - 2 ^ k * q) + 2 ^ k * q) % 2 ^ k := by
        rw [Nat.add_mul_mod_self_left]
    _ = pos % 2 ^ k := by rw [← hsplit]

/-- the alignment is necessary: with an 8-byte alignment a move by 8 flips bit 3 of the position -/
example : (24 - 8) % 2 ^ 4 ≠ 24 % 2 ^ 4 := by decide


/-! ## LZMA2 framing

`lzma2_roundtrip`: for every dictionary size, preset dictionary, properties byte with lc+lp ≤ 4 and every
sequence of writer events (LZMA chunks continuing / resetting state / resetting properties / resetting
the dictionary, stored chunks, independent restarts) that is valid from the writer's initial state and
denotes `data` (`ChunksOk`; validated on every real stream by the executable `checkChunks`,
`checkChunks_sound`), the chunk encoder succeeds and the chunk decoder returns exactly `data`, consumes
exactly the encoder's bytes whatever follows, and recovers the chunk list. -/
theorem lzma2_roundtrip (dict : Nat) (preset : Array Nat) (pb : Nat) (hpb : pb ≤ 224)
    (hlclp : (paramsOfProps pb).lc + (paramsOfProps pb).lp ≤ 4)
    (chunks : List Lzma2.Chunk) (data : List Nat)
    (hok : Lzma2.ChunksOk pb chunks (Lzma2.initW dict preset pb) data) :
    ∃ bytes, Lzma2.encodeChunks pb chunks (Lzma2.initW dict preset pb) [] = some bytes ∧
      ∀ (rest : List Nat) (cap : Nat), data.length ≤ cap →
        Lzma2.decode dict preset (bytes ++ rest) cap
          = .ok { out := data.toArray, consumed := bytes.length, chunks := chunks } :=
  Lzma2.lzma2_roundtrip dict preset pb hpb hlclp chunks data hok

theorem lzma2_check_sound (pb : Nat) (chunks : List Lzma2.Chunk) (w : Lzma2.WState) (data : List Nat)
    (h : Lzma2.checkChunks pb chunks w = some data) : Lzma2.ChunksOk pb chunks w data :=
  Lzma2.checkChunks_sound pb chunks w data h


/-! ## LZMA2 chunk size limit of the encoder

`encode_for_lzma2` runs `while uncompressed_size <= LZMA2_UNCOMPRESSED_LIMIT && pending <= LZMA2_COMPRESSED_LIMIT
{ encode_symbol }`; a symbol covers 1..MATCH_LEN_MAX bytes.  The chunk header stores `size - 1` in 5 + 16 bits, so
a chunk may hold at most 2^21 bytes (`ChunksOk` requires it, the reader model's `lzmaChunkSize` cannot express
more).  With the constants re-extracted from `src/enc/encoder.rs` on this run the loop can never exceed it. -/

/-- the uncompressed size the chunk loop ends with, for the symbol lengths it is offered -/
def chunkLoopUnc : Nat → List Nat → Nat
  | acc, [] => acc
  | acc, l :: ls => if acc ≤ Consts.LZMA2_UNCOMPRESSED_LIMIT then chunkLoopUnc (acc + l) ls else acc

theorem lzma2_limit_constants_fit : Consts.LZMA2_UNCOMPRESSED_LIMIT + Consts.MATCH_LEN_MAX ≤ 2 ^ 21 := by decide

theorem lzma2_chunk_loop_fits (lens : List Nat) (h : ∀ l ∈ lens, l ≤ Consts.MATCH_LEN_MAX) :
    ∀ acc, acc ≤ Consts.LZMA2_UNCOMPRESSED_LIMIT + Consts.MATCH_LEN_MAX →
      chunkLoopUnc acc lens ≤ 2 ^ 21 := by
  have hc := lzma2_limit_constants_fit
  induction lens with
  | nil => intro acc ha; simp only [chunkLoopUnc]; omega
  | cons l ls ih =>
    intro acc ha
    simp only [chunkLoopUnc]
    split
    · rename_i hle
      apply ih (fun x hx => h x (List.mem_cons_of_mem _ hx))
      have := h l (List.mem_cons_self ..)
      omega
    · omega

/-- the bound is tight: one more byte of limit and a maximal match overflows the 21-bit size field -/
example : chunkLoopUnc 0 [Consts.LZMA2_UNCOMPRESSED_LIMIT, Consts.MATCH_LEN_MAX] = 2 ^ 21 := by decide

end LzmaVerif.Props.C01
