import LzmaVerif.Props.C14
/-!
# C15 — unsafe fast paths never access memory outside their buffers

Every optimized twin of `Model/Twins.lean` returns, next to its value, the list of absolute byte indices it
reads.  The theorems say that EVERY such index is inside the buffer, for all arguments — also those that
violate the callers' invariants (hostile decoder input, arbitrary `read_pos`): the clamps alone guarantee
it.  Instantiated for the parameters re-extracted from the source on this run (`C14.generated_params_ok`).

* `extend_match_reads_in_bounds` – `get_unchecked` slices and the 8-byte `read_unaligned` words.
* `fast_reject_reads_in_bounds` – the two u16 reads at `min(pos, buf_size - 2)`; `buf_limit_is_largest_safe`:
  `buf_size - 2` is the largest clamp for which that holds (with `- 1` byte `buf_size` is read).
* `match_len_fast_reject_reads_in_bounds` – the function as it is called (reject + extension from `read_pos + 2`).
* `asm_direct_bits_reads_in_bounds` – the clamped `movzx` / `ldrb` loads of both assembly variants, for every
  decoder state, also when the decoder has run past the end of the chunk buffer.
* `simd_normalize_in_bounds` / `aligned_allocation_sound` – vector loads/stores cover only whole vectors inside
  the slice; the 64-byte aligned allocation holds at least the requested elements and its size cannot overflow.

PARTIAL: these are theorems about the index arithmetic of the modelled twins; that the Rust/assembly text
computes these indices is tied by the translator patterns (constants and statement shapes) and by running the
real optimized build under AddressSanitizer on inputs that put the encoder window within 0..9 bytes of its end
and drive the decoder past its chunk buffer.
-/
namespace LzmaVerif.Props.C15
open LzmaVerif LzmaVerif.Twins

theorem extend_match_reads_in_bounds (buf : List Nat) (readPos curLen dist limit : Nat) :
    ∀ i ∈ (extendMatchOptT TwinGen.params buf readPos curLen dist limit).2, i < buf.length :=
  extendMatchOptT_inBounds TwinGen.params buf readPos curLen dist limit

theorem fast_reject_reads_in_bounds (buf : List Nat) (h2 : 2 ≤ buf.length) (readPos matchDist : Nat) :
    ∀ i ∈ (fastRejectOpt TwinGen.params buf readPos matchDist).2, i < buf.length :=
  (ok_fastReject TwinGen.params Props.C14.generated_params_ok.1 buf h2 readPos matchDist).1

/-- the whole `get_match_len_fast_reject` (clamped u16 reads, then the optimized `extend_match` from
    `read_pos + 2`), for ALL arguments — also `len_limit < 2`, where only the clamp to the physical buffer bounds
    the extension (the real function was observed to extend to the end of the buffer there) -/
theorem match_len_fast_reject_reads_in_bounds (buf : List Nat) (h2 : 2 ≤ buf.length)
    (readPos dist lenLimit : Nat) :
    ∀ i ∈ (matchLenFastRejectOptT TwinGen.params buf readPos dist lenLimit).2, i < buf.length := by
  have h := Props.C14.generated_params_ok.1
  exact matchLenFastRejectOptT_inBounds TwinGen.params (by rw [h.2.2.1, h.2.2.2.1]; decide) buf
    (by rw [h.2.2.1]; exact h2) readPos dist lenLimit

/-- non-vacuity: `len_limit = 1` on a constant buffer reads up to the last byte and no further -/
example : (matchLenFastRejectOptT TwinGen.params [7, 7, 7, 7, 7, 7] 1 0 1).2 = [1, 2, 0, 1, 3, 2, 4, 3, 5, 4] := by
  decide

theorem buf_limit_is_largest_safe (bufSize lim : Nat) :
    (∀ i, min i lim + 2 ≤ bufSize) ↔ lim + 2 ≤ bufSize :=
  clamp_inBounds_iff bufSize lim

theorem asm_direct_bits_reads_in_bounds (buf : List Nat) (hB : Bytes buf)
    (hlen : buf.length = rcBufLen TwinGen.params) (k : Nat) (s : DState) (hs0 : RangeOk s) :
    (∀ i ∈ directAsmReads TwinGen.params buf halveX86 k s, i < buf.length) ∧
    (∀ i ∈ directAsmReads TwinGen.params buf halveA64 k s, i < buf.length) :=
  let h := ok_directBits TwinGen.params Props.C14.generated_params_ok.1 buf hB hlen k s hs0
  ⟨h.1, h.2.1⟩

theorem simd_normalize_in_bounds (lanes pre len : Nat) (h : pre ≤ len) :
    pre + (len - pre) / lanes * lanes ≤ len :=
  normalizeSimd_chunks_inBounds lanes pre len h

theorem aligned_allocation_sound (minLength : Nat) (hm : minLength ≤ 2 ^ 33) :
    (alignedNew TwinGen.params 64 minLength).requiredBytes % 64 = 0 ∧
    minLength ≤ (alignedNew TwinGen.params 64 minLength).targetLength ∧
    (alignedNew TwinGen.params 64 minLength).targetLength * 4 = (alignedNew TwinGen.params 64 minLength).requiredBytes ∧
    (alignedNew TwinGen.params 64 minLength).requiredBytes < 2 ^ 63 :=
  ok_alignedNew TwinGen.params Props.C14.generated_params_ok.1 minLength hm

end LzmaVerif.Props.C15
