import LzmaVerif.Proofs.Twins
import LzmaVerif.Generated.TwinParams
/-!
# C14 — feature configurations (optimization on/off, std/no_std) behave identically

The `optimization` feature swaps four safe functions for `unsafe` / SIMD / assembly twins.  Both variants
of each twin are modelled (`Model/Twins.lean`, fixed-width semantics explicit, every memory index the
optimized variant touches is part of its result) and proved equal for ALL inputs satisfying the callers'
invariants.  The models are parameterised by the constants the twins depend on; those are re-extracted from
the source on every run (`tools/extract_twins.py` → `Generated/TwinParams.lean`, a source line that no longer
matches is an extraction error), `generated_params_ok` is re-proved by `decide`, and the theorems below are
instantiated FOR the generated parameters.

* `extend_match_twins_agree` – match extension: 8-byte words + `trailing_zeros / 8` = byte-wise longest
  common prefix, for every pair of byte strings.
* `fast_reject_twins_agree` – the 2-byte fast reject through a clamped unaligned u16 read gives the portable
  verdict whenever two bytes are available (caller's invariant).
* `normalize_twins_agree` – hash-table renormalisation: SIMD body + scalar head/tail = scalar everywhere, for
  every vector width and alignment offset, on all i32 values (wrap-around included).
* `direct_bits_twins_agree` – range decoder direct bits: the x86-64 assembly formulation equals the portable
  loop on every state with `2^16 ≤ range`, as long as the reads stay inside the chunk buffer — which since
  fix e0695aa is the only situation in which the assembly is used (`pos + count ≤ len` guard; the translator
  checks that the guard is in the source).  `direct_bits_overrun_witness` is the divergence that fix removed
  (found by this proof, reproduced on the real code by the transcript engine); `aarch64_sign_test_witness`
  is a divergence between the aarch64 assembly (unsigned compare) and the portable/x86 code (sign test) on
  corrupt streams that cannot be executed in this sandbox (recorded in DESIGN.md as an open observation).

no_std vs std has no twin arithmetic (only the Read/Write/Error replacements): it is decided by the
transcript comparison of the four builds (`harness-feat`), as is every twin end to end.
-/
namespace LzmaVerif.Props.C14
open LzmaVerif LzmaVerif.Twins

theorem generated_params_ok : TwinGen.params.Ok ∧ TwinGen.extractionErrors = 0 := by decide

theorem extend_match_twins_agree (s1 s2 : List Nat) (h1 : Bytes s1) (h2 : Bytes s2) :
    extendMatchSafe TwinGen.params s1 s2 = byteMatchLen s1 s2 :=
  ok_extendMatch TwinGen.params generated_params_ok.1 s1 s2 h1 h2

theorem extend_match_unsafe_agrees (buf : List Nat) (hB : Bytes buf) (readPos curLen dist limit : Nat)
    (hb : readPos + curLen + (limit - curLen) ≤ buf.length) :
    (extendMatchOptT TwinGen.params buf readPos curLen dist limit).1 =
      curLen + byteMatchLen (slice buf (readPos + curLen) (limit - curLen))
                            (slice buf (readPos + curLen - dist) (limit - curLen)) :=
  (ok_extendMatchOpt TwinGen.params generated_params_ok.1 buf hB readPos curLen dist limit hb).1

theorem fast_reject_twins_agree (buf : List Nat) (h2 : 2 ≤ buf.length) (hB : Bytes buf)
    (readPos matchDist : Nat) (hd : matchDist ≤ readPos) (v : Bool)
    (hv : fastRejectPortable buf readPos matchDist = some v) :
    (fastRejectOpt TwinGen.params buf readPos matchDist).1 = v :=
  (ok_fastReject TwinGen.params generated_params_ok.1 buf h2 readPos matchDist).2 hB hd v hv

theorem normalize_twins_agree (off : Int) (lanes pre : Nat) (ps : List Int) :
    normalizeSimd off lanes pre ps = normalizeScalar off ps :=
  normalizeSimd_eq_scalar off lanes pre ps

theorem direct_bits_twins_agree (buf : List Nat) (hB : Bytes buf) (hlen : buf.length = rcBufLen TwinGen.params)
    (k : Nat) (s : DState) (hs0 : RangeOk s)
    (hin : (directPortable TwinGen.params buf (directFuel k) k s).pos ≤ buf.length) :
    directX86 TwinGen.params buf k s = directPortable TwinGen.params buf (directFuel k) k s :=
  (ok_directBits TwinGen.params generated_params_ok.1 buf hB hlen k s hs0).2.2.1 hin

/-- what fix e0695aa removed: past the end of the buffer the portable reader supplies 0, the assembly
    re-reads the last byte, and they decode different bits -/
theorem direct_bits_overrun_witness :
    let s : DState := ⟨2 ^ 23 + 1, 2 ^ 22, 1, 0⟩
    s.code < s.range ∧
    directPortable srcParams [0xFF] (directFuel 1) 1 s = ⟨2 ^ 30 + 128, 2 ^ 30, 2, 0⟩ ∧
    directX86 srcParams [0xFF] 1 s = ⟨2 ^ 30 + 128, 127, 2, 1⟩ ∧
    directA64 srcParams [0xFF] 1 s = ⟨2 ^ 30 + 128, 127, 2, 1⟩ :=
  direct_overrun_diverges

/-- open observation (aarch64 cannot be run here): unsigned compare vs sign test on a corrupt stream -/
theorem aarch64_sign_test_witness :
    let s : DState := ⟨2 ^ 25 - 1, 2 ^ 25 - 2, 0, 0⟩
    s.code < s.range ∧ 2 ^ 24 ≤ s.range ∧
    (directPortable srcParams [0xFF] (directFuel 2) 2 s).result = 2 ∧
    (directX86 srcParams [0xFF] 2 s).result = 2 ∧
    (directA64 srcParams [0xFF] 2 s).result = 3 ∧
    (directX86 srcParams [0xFF] 2 s).pos = 1 ∧ (directA64 srcParams [0xFF] 2 s).pos = 1 :=
  direct_diverges_from_invariant_state

end LzmaVerif.Props.C14
