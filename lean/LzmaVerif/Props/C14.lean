import LzmaVerif.Proofs.Twins
import LzmaVerif.Proofs.TwinsCalls
import LzmaVerif.Generated.TwinParams
/-!
# C14 — feature configurations (optimization on/off, std/no_std) behave identically

The `optimization` feature swaps four safe functions for `unsafe` / SIMD / assembly twins.  Both variants
of each twin are modelled (`Model/Twins.lean`, fixed-width semantics explicit, every memory index the
optimized variant touches is part of its result) and proved equal for ALL inputs satisfying the callers'
invariants.  The models are parameterised by the constants the twins depend on; those are re-extracted from
the source on every run (`tools/extract_twins.py` → `Generated/TwinParams.lean`, a source line that no longer
matches is an extraction error), `generated_params_ok` is re-proved by `decide`, and the theorems below are
instantiated FOR the generated parameters.

* `extend_match_twins_agree` – match extension: 8-byte words + `trailing_zeros / 8` = byte-wise longest
  common prefix, for every pair of byte strings.
* `fast_reject_twins_agree` – the 2-byte fast reject through a clamped unaligned u16 read gives the portable
  verdict whenever two bytes are available (caller's invariant).
* `match_len_fast_reject_twins_agree` – the same for the whole function as it is called
  (`get_match_len_fast_reject` = reject, then `extend_match` with `current_len = 2`): whenever the portable twin
  does not panic the optimized one returns the same length; `match_len_fast_reject_spec` is the byte-wise answer
  of both.  This is the granularity at which the real function is run against the model (hook
  `lz_match_len_fast_reject`, driver `twin.reject`); that run corrected the model of `(limit - current_len) as
  usize` for `limit < current_len` (`extLogical`; witness `Twins.fastReject_small_limit_extends`).
* `normalize_twins_agree` – hash-table renormalisation: SIMD body + scalar head/tail = scalar everywhere, for
  every vector width and alignment offset, on all i32 values (wrap-around included).
* `direct_bits_twins_agree` – range decoder direct bits: the x86-64 assembly formulation equals the portable
  loop on every state with `2^16 ≤ range`, as long as the reads stay inside the chunk buffer — which since
  fix e0695aa is the only situation in which the assembly is used (`pos + count ≤ len` guard; the translator
  checks that the guard is in the source).  `direct_bits_overrun_witness` is the divergence that fix removed
  (found by this proof, reproduced on the real code by the transcript engine); `aarch64_sign_test_witness`
  is a divergence between the aarch64 assembly (unsigned compare) and the portable/x86 code (sign test) on
  corrupt streams that cannot be executed in this sandbox (recorded in DESIGN.md as an open observation).

* `direct_bits_dispatch_agrees` – the function as it is called: guard `count > 0 && pos + count ≤ len`, then
  assembly or portable loop, equals the portable loop from every state with `2^16 ≤ range` — any buffer, any
  position (also beyond the end), any count; no side condition left, because `count` bits normalise at most
  `count` times.  The real `decode_direct_bits` (buffer decoder = default dispatch, and the portable loop through
  a non-buffer reader) is run against `directBitsOpt` / `directPortable` through the hook `rc_decode_direct_bits`
  (driver `twin.direct`).

no_std vs std has no twin arithmetic (only the Read/Write/Error replacements): it is decided by the
transcript comparison of the four builds (`harness-feat`), as is every twin end to end.
-/
namespace LzmaVerif.Props.C14
open LzmaVerif LzmaVerif.Twins

theorem generated_params_ok : TwinGen.params.Ok ∧ TwinGen.extractionErrors = 0 := by decide

theorem extend_match_twins_agree (s1 s2 : List Nat) (h1 : Bytes s1) (h2 : Bytes s2) :
    extendMatchSafe TwinGen.params s1 s2 = byteMatchLen s1 s2 :=
  ok_extendMatch TwinGen.params generated_params_ok.1 s1 s2 h1 h2

theorem extend_match_unsafe_agrees (buf : List Nat) (hB : Bytes buf) (readPos curLen dist limit : Nat)
    (hc : curLen ≤ limit) (hb : readPos + curLen + (limit - curLen) ≤ buf.length) :
    (extendMatchOptT TwinGen.params buf readPos curLen dist limit).1 =
      curLen + byteMatchLen (slice buf (readPos + curLen) (limit - curLen))
                            (slice buf (readPos + curLen - dist) (limit - curLen)) :=
  (ok_extendMatchOpt TwinGen.params generated_params_ok.1 buf hB readPos curLen dist limit hc hb).1

theorem fast_reject_twins_agree (buf : List Nat) (h2 : 2 ≤ buf.length) (hB : Bytes buf)
    (readPos matchDist : Nat) (hd : matchDist ≤ readPos) (v : Bool)
    (hv : fastRejectPortable buf readPos matchDist = some v) :
    (fastRejectOpt TwinGen.params buf readPos matchDist).1 = v :=
  (ok_fastReject TwinGen.params generated_params_ok.1 buf h2 readPos matchDist).2 hB hd v hv

theorem match_len_fast_reject_twins_agree (buf : List Nat) (hB : Bytes buf) (readPos dist lenLimit : Nat)
    (hd : dist + 1 ≤ readPos) (v : Nat)
    (hv : matchLenFastRejectPortable TwinGen.params buf readPos dist lenLimit = some v) :
    (matchLenFastRejectOptT TwinGen.params buf readPos dist lenLimit).1 = v :=
  matchLenFastRejectOpt_eq_portable TwinGen.params generated_params_ok.1.2.2.1 generated_params_ok.1.2.2.2.1
    buf hB readPos dist lenLimit hd v hv

theorem match_len_fast_reject_spec (buf : List Nat) (hB : Bytes buf) (readPos dist lenLimit : Nat)
    (hd : dist + 1 ≤ readPos) (h2 : 2 ≤ lenLimit) (hb : readPos + lenLimit ≤ buf.length) :
    (matchLenFastRejectOptT TwinGen.params buf readPos dist lenLimit).1 =
      (if buf.getD readPos 0 ≠ buf.getD (readPos - (dist + 1)) 0
            ∨ buf.getD (readPos + 1) 0 ≠ buf.getD (readPos + 1 - (dist + 1)) 0 then 0
       else 2 + byteMatchLen (slice buf (readPos + 2) (lenLimit - 2))
                             (slice buf (readPos + 2 - (dist + 1)) (lenLimit - 2))) :=
  match_len_fast_reject_twins_agree buf hB readPos dist lenLimit hd _
    (matchLenFastRejectPortable_spec TwinGen.params (by rw [generated_params_ok.1.1]; decide)
      generated_params_ok.1.2.1 buf hB readPos dist lenLimit h2 hb)

/-- non-vacuity of both: `read_pos = 3`, rep distance 2 (`match_dist = 3`), five bytes repeat -/
example :
    let buf := [1, 2, 3, 1, 2, 3, 1, 2, 9]
    Bytes buf ∧ 2 + 1 ≤ 3 ∧ 2 ≤ 6 ∧ 3 + 6 ≤ buf.length ∧
    matchLenFastRejectPortable TwinGen.params buf 3 2 6 = some 5 := by
  refine ⟨?_, by decide, by decide, by decide, by decide⟩
  intro b hb; simp at hb; omega

theorem normalize_twins_agree (off : Int) (lanes pre : Nat) (ps : List Int) :
    normalizeSimd off lanes pre ps = normalizeScalar off ps :=
  normalizeSimd_eq_scalar off lanes pre ps

theorem direct_bits_twins_agree (buf : List Nat) (hB : Bytes buf) (hlen : buf.length = rcBufLen TwinGen.params)
    (k : Nat) (s : DState) (hs0 : RangeOk s)
    (hin : (directPortable TwinGen.params buf (directFuel k) k s).pos ≤ buf.length) :
    directX86 TwinGen.params buf k s = directPortable TwinGen.params buf (directFuel k) k s :=
  (ok_directBits TwinGen.params generated_params_ok.1 buf hB hlen k s hs0).2.2.1 hin

theorem direct_bits_dispatch_agrees (buf : List Nat) (hB : Bytes buf) (k : Nat) (s : DState)
    (hs0 : RangeOk s) :
    directBitsOpt TwinGen.params buf k s = directPortable TwinGen.params buf (directFuel k) k s :=
  have h := generated_params_ok.1
  directBitsOpt_eq_portable TwinGen.params h.2.2.2.2.2.1 h.2.2.2.2.2.2.1 h.2.2.2.2.2.2.2.1 h.2.2.2.2.1
    buf hB k s hs0

/-- non-vacuity: a corrupt-stream state (`code ≥ range`), the guard holds with equality (the assembly runs) -/
example :
    let s : DState := ⟨0x00FFFFFF, 0xFFFFFFFF, 1, 0⟩
    Bytes [1, 2, 0xFF] ∧ RangeOk s ∧ s.range ≤ s.code ∧ s.pos + 2 ≤ [1, 2, 0xFF].length ∧
    (directBitsOpt TwinGen.params [1, 2, 0xFF] 2 s).pos = 2 := by
  refine ⟨?_, by unfold RangeOk; decide, by decide, by decide, by decide +kernel⟩
  intro b hb; simp at hb; omega

/-- what fix e0695aa removed: past the end of the buffer the portable reader supplies 0, the assembly
    re-reads the last byte, and they decode different bits -/
theorem direct_bits_overrun_witness :
    let s : DState := ⟨2 ^ 23 + 1, 2 ^ 22, 1, 0⟩
    s.code < s.range ∧
    directPortable srcParams [0xFF] (directFuel 1) 1 s = ⟨2 ^ 30 + 128, 2 ^ 30, 2, 0⟩ ∧
    directX86 srcParams [0xFF] 1 s = ⟨2 ^ 30 + 128, 127, 2, 1⟩ ∧
    directA64 srcParams [0xFF] 1 s = ⟨2 ^ 30 + 128, 127, 2, 1⟩ :=
  direct_overrun_diverges

/-- open observation (aarch64 cannot be run here): unsigned compare vs sign test on a corrupt stream -/
theorem aarch64_sign_test_witness :
    let s : DState := ⟨2 ^ 25 - 1, 2 ^ 25 - 2, 0, 0⟩
    s.code < s.range ∧ 2 ^ 24 ≤ s.range ∧
    (directPortable srcParams [0xFF] (directFuel 2) 2 s).result = 2 ∧
    (directX86 srcParams [0xFF] 2 s).result = 2 ∧
    (directA64 srcParams [0xFF] 2 s).result = 3 ∧
    (directX86 srcParams [0xFF] 2 s).pos = 1 ∧ (directA64 srcParams [0xFF] 2 s).pos = 1 :=
  direct_diverges_from_invariant_state

end LzmaVerif.Props.C14
