import LzmaVerif.Proofs.WorkQueue
import LzmaVerif.Generated.SyncShape
/-!
# C10 — dropping or finishing an MT reader/writer releases all of its threads

Protocol model: `Model/WorkQueue.lean` (one coordinator that pushes `n` units and then closes the
queue – which is what `Drop`, `finish` and end-of-input do – and `k` workers looping on `steal`).

* `skeleton_matches` – the synchronisation skeleton re-extracted from `src/work_queue.rs` on this run
  (`Generated/SyncShape.lean`) is the one the model transcribes: `close` = lock, store, unlock,
  notify_all; `steal` = lock, pop, load, wait; `push` = load, lock, push, unlock, notify_one.
* `drop_releases_all_threads` – for every number of units, every number of workers and EVERY
  schedule: once nothing can move any more, the coordinator is done and every worker has exited.
* `every_schedule_is_finite` – no schedule is longer than `10n + 8k + 5` steps, so that terminal
  state is always reached (no livelock, no unbounded spinning).
* `pinned_close_loses_wakeup` – witness: the close() of the pinned tree (store + notify without the
  mutex) has a 6-step schedule after which a worker waits forever.
-/
namespace LzmaVerif.Props.C10
open LzmaVerif.WorkQueue LzmaVerif.SyncOps

/-- the skeleton the model was written for (push_back and the unlock that follows it are one model
step: nothing can observe the state in between while the mutex is held) -/
def modelCloseOps : List QOp := [.lock, .storeClosed, .unlock, .notifyAll]
def modelStealOps : List QOp := [.lock, .popFront, .loadClosed, .wait]
def modelPushOps : List QOp := [.loadClosed, .lock, .pushBack, .unlock, .notifyOne]

theorem skeleton_matches :
    SyncShape.closeOps = modelCloseOps ∧ SyncShape.stealOps = modelStealOps ∧
    SyncShape.pushOps = modelPushOps := by decide

/-- `Drop` of each of the four MT types, as re-extracted on this run: set the shutdown flag, then close
    the queue – unconditionally (no branch, no early return), which is the `drop` step of the protocol
    model (`MT.callerStep … true`: `shutdown := true, closed := true`, all waiters woken). -/
def modelDropOps : List DOp := [.storeShutdown, .closeQueue]

theorem drop_skeleton_matches :
    SyncShape.lzma2ReaderDropOps = modelDropOps ∧ SyncShape.lzipReaderDropOps = modelDropOps ∧
    SyncShape.lzma2WriterDropOps = modelDropOps ∧ SyncShape.lzipWriterDropOps = modelDropOps := by decide

theorem drop_releases_all_threads (n k : Nat) (sched : List Tid) (s : Sys)
    (hr : runSched (init true n k) sched = some s) (ht : terminal s = true) :
    s.p = .done ∧ ∀ w ∈ s.ws, w = .exited :=
  fixed_no_lost_wakeup n k sched s hr ht

theorem every_schedule_is_finite (n k : Nat) (sched : List Tid) (s : Sys)
    (hr : runSched (init true n k) sched = some s) : sched.length ≤ 10 * n + 8 * k + 5 :=
  fixed_terminates_bound n k sched s hr

theorem pinned_close_loses_wakeup :
    ∃ sched s, runSched (init false 0 1) sched = some s ∧ terminal s = true ∧ s.ws = [.waiting] :=
  buggy_lost_wakeup

/-- the worker bound: `num_workers.clamp(1, 256)` -/
theorem worker_bound (requested : Nat) : 1 ≤ max 1 (min requested 256) ∧ max 1 (min requested 256) ≤ 256 := by
  omega

end LzmaVerif.Props.C10
