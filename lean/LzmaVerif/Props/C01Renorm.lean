import LzmaVerif.Proofs.MfRenormHc4
import LzmaVerif.Proofs.MfRenormBt4
import LzmaVerif.Props.C01Mf
/-!
# C01: the match finders AFTER they have renormalised their 31-bit positions

`src/lz/hc4.rs` / `bt4.rs` keep their own position counter `lz_pos : i32`; the hash tables, the chain and the tree
store `lz_pos` values, 0 means "empty".  When `lz_pos` reaches `0x7FFFFFFF`, `move_pos` subtracts
`0x7FFFFFFF - cyclic_size` from the counter and from every stored entry, clamping at 0
(`Hash234::normalize`, `LZEncoder::normalize`).  `Model/Hc4Renorm.lean` / `Model/Bt4Renorm.lean` are the step models
WITH that branch (and with the start value of `lz_pos` as a parameter); the real finders are run against them with
biased starts (hook `mf_trace_biased`, request `mf.trace … lzstart=`), so that the crossing happens inside the trace.

The theorems: a SIMULATION.  For every input, every script of `find_matches()` / `skip(n)` calls, every start value
`lz_pos ≥ cyclic_size`, every threshold (`NormParams`, regenerated from the source; `ok` = the offset is computed
from the threshold) and any number of crossings, the renormalising finder reports exactly the matches of the logical
finder of `Model/Hc4.lean` / `Model/Bt4.lean` (`hc4_renorm_simulates`, `bt4_renorm_simulates`).  Hence every
soundness theorem about the logical finders holds for the renormalising ones (`hc4_sound_with_renorm`,
`bt4_tree_matches_valid_with_renorm`, …), and the counter and every stored entry stay below the threshold
(`hc4_renorm_fits_31_bits`, `bt4_renorm_fits_31_bits`): no `i32` subtraction `lz_pos - entry` can wrap, whatever the
input size.  What remains of the old hypothesis `size + dict + 2 < 2^31` is only what the WINDOW needs
(`read_pos`, `write_pos : i32` index a buffer of `dict + extra` bytes; `Proofs/EncWindow*.lean`).

The relation (`Mf.ERel`, `Proofs/MfRenorm.lean`): an entry `eN` of the renormalising finder and the entry `eL` at the
same place of the logical finder are both `≤ lz_pos` and have the same `delta = lz_pos - e`, or BOTH have
`delta ≥ cyclic_size` (rejected by every distance test).  An entry that `normalize` clamps to 0 had
`delta ≥ cyclic_size` already (`Mf.ERel.norm`; this is `normalize_delta`).  The value 0 is ambiguous ("empty" or
"clamped" or, in principle, a position) - the code tolerates it because `lz_pos ≥ cyclic_size` is an invariant (start
value `cyclic_size`, `normalize` resets to exactly `cyclic_size`), so an entry 0 always has `delta ≥ cyclic_size`, and a
live position (`delta < cyclic_size`) is always stored as a value `≥ 1`.
-/
namespace LzmaVerif.Props.C01Renorm
open LzmaVerif.Mf

/-! ## the constants of the current source -/

theorem generated_hc4_norm_ok : MfGen.hc4Norm.ok := by decide
theorem generated_bt4_norm_ok : MfGen.bt4Norm.ok := by decide
/-- the threshold is the largest `i32` (so "below the threshold" = "fits 31 bits") -/
theorem generated_norm_threshold : MfGen.hc4Norm.maxPos = 2 ^ 31 - 1 ∧ MfGen.bt4Norm.maxPos = 2 ^ 31 - 1 := by decide

/-! ## HC4 -/

/-- **HC4 simulation**: for every input `d`, option set `c`, script, start value `lzStart ≥ cyclic_size` of `lz_pos`
    and normalisation constants `N` (any threshold; `N.ok`: offset = threshold - cyclic_size), the renormalising
    finder produces the same trace `[(position, matches)]` as the logical finder. -/
theorem hc4_renorm_simulates (N : NormParams) (hN : N.ok) (P : Hc4.Hc4Params) (hP : P.ok) (c : Hc4.Cfg)
    (d : Array UInt8) (lzStart : Nat) (hs : Hc4.cyclicSize P c ≤ lzStart) (script : List Nat) :
    (Hc4.runScriptN N P c d lzStart script).1 = (Hc4.runScript P c d script).1 :=
  (Hc4.runScriptAuxN_sim N hN P hP c d script [] (Hc4.initN_sim P hP c lzStart hs)).1

/-- the final states are related (`Hc4.Sim`): same position, same ring position, tables related entry by entry -/
theorem hc4_renorm_state_related (N : NormParams) (hN : N.ok) (P : Hc4.Hc4Params) (hP : P.ok) (c : Hc4.Cfg)
    (d : Array UInt8) (lzStart : Nat) (hs : Hc4.cyclicSize P c ≤ lzStart) (script : List Nat) :
    Hc4.Sim (Hc4.cyclicSize P c) (Hc4.runScriptN N P c d lzStart script).2 (Hc4.runScript P c d script).2 :=
  (Hc4.runScriptAuxN_sim N hN P hP c d script [] (Hc4.initN_sim P hP c lzStart hs)).2

/-- one more `find_matches` / `skip` in related states: same matches, related states again
    (what the encoders' own drivers - not only `mf_trace` scripts - rely on) -/
theorem hc4_renorm_step (N : NormParams) (hN : N.ok) (P : Hc4.Hc4Params) (hP : P.ok) (c : Hc4.Cfg)
    (d : Array UInt8) (sN sL : Hc4.State) (h : Hc4.Sim (Hc4.cyclicSize P c) sN sL) :
    (Hc4.findN N P c d sN).1 = (Hc4.find P c d sL).1 ∧
    Hc4.Sim (Hc4.cyclicSize P c) (Hc4.findN N P c d sN).2 (Hc4.find P c d sL).2 ∧
    ∀ n, Hc4.Sim (Hc4.cyclicSize P c) (Hc4.skipN N P c d n sN) (Hc4.skip P c d n sL) :=
  ⟨(Hc4.findN_sim N hN P hP c d h).1, (Hc4.findN_sim N hN P hP c d h).2, fun n => Hc4.skipN_sim N hN P c d n h⟩

/-- **HC4 soundness with renormalisation**: every find of every script on the renormalising finder reports only
    valid matches (real repetitions inside data and dictionary, at most the limit long), with increasing lengths,
    within the capacity of `Matches` - for EVERY input size (no `2^31` hypothesis) and every start of `lz_pos`. -/
theorem hc4_sound_with_renorm (N : NormParams) (hN : N.ok) (P : Hc4.Hc4Params) (hP : P.ok) (c : Hc4.Cfg)
    (d : Array UInt8) (hd : 1 ≤ c.dict) (hml : 3 ≤ c.mlmax) (lzStart : Nat)
    (hs : Hc4.cyclicSize P c ≤ lzStart) (script : List Nat) :
    ∀ f ∈ (Hc4.runScriptN N P c d lzStart script).1,
      (∀ m ∈ f.2, ValidMatch d c.dict f.1 (min c.mlmax (d.size - f.1)) m) ∧
      lensIncreasing f.2 = true ∧
      (3 ≤ c.niceLen → f.2.length ≤ c.niceLen - 1) := by
  rw [hc4_renorm_simulates N hN P hP c d lzStart hs script]
  exact Hc4.hc4_script_sound P hP c d hd hml script

/-- the same at the constants regenerated from the source, started like `HC4::new` does (`lz_pos = dict_size + 1`) -/
theorem hc4_generated_sound_with_renorm (c : Hc4.Cfg) (d : Array UInt8) (hd : 1 ≤ c.dict) (hml : 3 ≤ c.mlmax)
    (script : List Nat) :
    ∀ f ∈ (Hc4.runScriptN MfGen.hc4Norm MfGen.hc4Params c d (c.dict + MfGen.hc4Params.lzPosInitExtra) script).1,
      (∀ m ∈ f.2, ValidMatch d c.dict f.1 (min c.mlmax (d.size - f.1)) m) ∧
      lensIncreasing f.2 = true ∧
      (3 ≤ c.niceLen → f.2.length ≤ c.niceLen - 1) :=
  hc4_sound_with_renorm _ generated_hc4_norm_ok _ C01Mf.generated_hc4_params_ok c d hd hml _
    (Nat.le_refl _) script

/-- **31 bits suffice**: started below the threshold, `lz_pos` of the renormalising finder stays in
    `[cyclic_size, maxPos)` through every script, and no stored entry exceeds it - so `lz_pos - entry` never wraps
    in `i32` and the model's natural-number arithmetic is the code's arithmetic, for inputs of any size. -/
theorem hc4_renorm_fits_31_bits (N : NormParams) (hN : N.ok) (P : Hc4.Hc4Params) (hP : P.ok) (c : Hc4.Cfg)
    (d : Array UInt8) (lzStart : Nat) (hs : Hc4.cyclicSize P c ≤ lzStart) (hlt : lzStart < N.maxPos)
    (script : List Nat) :
    let s := (Hc4.runScriptN N P c d lzStart script).2
    Hc4.cyclicSize P c ≤ s.lzPos ∧ s.lzPos < N.maxPos ∧
    ∀ i : Nat, s.h2.getD i 0 ≤ s.lzPos ∧ s.h3.getD i 0 ≤ s.lzPos ∧ s.h4.getD i 0 ≤ s.lzPos ∧
      s.chain.getD i 0 ≤ s.lzPos := by
  intro s
  have hS := hc4_renorm_state_related N hN P hP c d lzStart hs script
  refine ⟨hS.lzN, ?_, fun i => ⟨(hS.h2.get i).1, (hS.h3.get i).1, (hS.h4.get i).1, (hS.chain.get i).1⟩⟩
  exact Hc4.runScriptAuxN_lz_lt N hN P c d script _ [] hs hlt

/-! ## BT4 -/

/-- **BT4 simulation**: same trace, for every input, option set, script, start value, threshold; and the final
    states are related (same position, ring position, ACCESS LOG; tables and tree related entry by entry) -/
theorem bt4_renorm_simulates (N : NormParams) (hN : N.ok) (P : Bt4.Bt4Params) (hP : P.ok) (c : Bt4.Cfg)
    (data : Array UInt8) (lzStart : Nat) (hs : Bt4.cyclicSize P c ≤ lzStart) (script : List Nat)
    (logging : Bool) :
    (Bt4.runScriptN N P c data lzStart script logging).2 = (Bt4.runScript P c data script logging).2 ∧
    Bt4.Sim (Bt4.cyclicSize P c) (Bt4.runScriptN N P c data lzStart script logging).1
      (Bt4.runScript P c data script logging).1 := by
  have h := Bt4.runOpsN_sim N hN P hP c data script #[] (Bt4.initN_sim P c logging lzStart hs)
  unfold Bt4.runScriptN Bt4.runScript
  exact ⟨congrArg Array.toList h.2, h.1⟩

/-- one more `find_matches` / `skip` in related states -/
theorem bt4_renorm_step (N : NormParams) (hN : N.ok) (P : Bt4.Bt4Params) (hP : P.ok) (c : Bt4.Cfg)
    (data : Array UInt8) (sN sL : Bt4.St) (h : Bt4.Sim (Bt4.cyclicSize P c) sN sL) :
    (Bt4.findN N P c data sN).2 = (Bt4.find P c data sL).2 ∧
    Bt4.Sim (Bt4.cyclicSize P c) (Bt4.findN N P c data sN).1 (Bt4.find P c data sL).1 ∧
    ∀ n, Bt4.Sim (Bt4.cyclicSize P c) (Bt4.skipN N P c data n sN) (Bt4.skip P c data n sL) :=
  ⟨(Bt4.findN_sim N hN P hP c data h).2, (Bt4.findN_sim N hN P hP c data h).1,
    fun n => Bt4.skipN_sim N hN P hP c data n h⟩

/-- **BT4 (B5) with renormalisation**: in every state the renormalising finder reaches by a script, every match
    `find_matches` reports - hash candidates and tree descent, every `depth_limit` - is a real repetition.
    (`HypA` still carries `data.size + dict + 2 < 2^31`: the proof of the logical theorem `bt4_tree_matches_valid`
    uses it in exactly one place, `InvG.noNorm`, to say that ITS counter stays below the threshold, which is
    irrelevant here; removing the field from `Bt4.Hyp` is a mechanical change of the existing BT4 files.) -/
theorem bt4_tree_matches_valid_with_renorm (N : NormParams) (hN : N.ok) {P : Bt4.Bt4Params} {c : Bt4.Cfg}
    {data : Array UInt8} (hA : Bt4.HypA P c data) (lzStart : Nat) (hs : Bt4.cyclicSize P c ≤ lzStart)
    (script : List Nat) (logging : Bool) :
    let s := (Bt4.runScriptN N P c data lzStart script logging).1
    ∀ m ∈ (Bt4.findN N P c data s).2.toList, ValidMatch data c.dict s.pos (min c.mlmax (data.size - s.pos)) m := by
  intro s
  have hS := (bt4_renorm_simulates N hN P hA.toHyp.ok c data lzStart hs script logging).2
  rw [(Bt4.findN_sim N hN P hA.toHyp.ok c data hS).2, hS.pos]
  exact Bt4.bt4_tree_matches_valid hA script logging

/-- lengths, distances, strictly increasing lengths, capacity - with renormalisation -/
theorem bt4_find_bounds_with_renorm (N : NormParams) (hN : N.ok) {P : Bt4.Bt4Params} {c : Bt4.Cfg}
    {data : Array UInt8} (hH : Bt4.Hyp P c data) (lzStart : Nat) (hs : Bt4.cyclicSize P c ≤ lzStart)
    (script : List Nat) (logging : Bool) :
    let s := (Bt4.runScriptN N P c data lzStart script logging).1
    (∀ m ∈ (Bt4.findN N P c data s).2.toList,
      2 ≤ m.1 ∧ m.1 ≤ min c.mlmax (data.size - s.pos) ∧ m.2 + 1 ≤ s.pos ∧ m.2 + 1 ≤ c.dict) ∧
    lensIncreasing (Bt4.findN N P c data s).2.toList = true ∧
    (Bt4.findN N P c data s).2.size ≤ c.niceLen - 1 := by
  intro s
  have hS := (bt4_renorm_simulates N hN P hH.ok c data lzStart hs script logging).2
  rw [(Bt4.findN_sim N hN P hH.ok c data hS).2, hS.pos]
  exact Bt4.bt4_find_bounds hH script logging

/-- the access log of the renormalising finder IS the access log of the logical finder, so
    `bt4_indices_in_bounds` covers it: no table, tree or window index out of range after a renormalisation -/
theorem bt4_indices_in_bounds_with_renorm (N : NormParams) (hN : N.ok) {P : Bt4.Bt4Params} {c : Bt4.Cfg}
    {data : Array UInt8} (hA : Bt4.HypA P c data) (lzStart : Nat) (hs : Bt4.cyclicSize P c ≤ lzStart)
    (script : List Nat) :
    ∀ l, (Bt4.runScriptN N P c data lzStart script true).1.log = some l → ∀ a ∈ l, Bt4.AccessOk P c data a := by
  have hS := (bt4_renorm_simulates N hN P hA.toHyp.ok c data lzStart hs script true).2
  rw [hS.log]
  exact Bt4.bt4_indices_in_bounds hA script

/-- the same at the constants regenerated from the source, started like `BT4::new` does (`lz_pos = cyclic_size`) -/
theorem bt4_generated_tree_matches_valid_with_renorm {c : Bt4.Cfg} {data : Array UInt8}
    (hA : Bt4.HypA MfGen.bt4Params c data) (script : List Nat) (logging : Bool) :
    let s := (Bt4.runScriptN MfGen.bt4Norm MfGen.bt4Params c data (Bt4.cyclicSize MfGen.bt4Params c) script logging).1
    ∀ m ∈ (Bt4.findN MfGen.bt4Norm MfGen.bt4Params c data s).2.toList,
      ValidMatch data c.dict s.pos (min c.mlmax (data.size - s.pos)) m :=
  bt4_tree_matches_valid_with_renorm _ generated_bt4_norm_ok hA _ (Nat.le_refl _) script logging

/-- **31 bits suffice** (BT4) -/
theorem bt4_renorm_fits_31_bits (N : NormParams) (hN : N.ok) (P : Bt4.Bt4Params) (hP : P.ok) (c : Bt4.Cfg)
    (data : Array UInt8) (lzStart : Nat) (hs : Bt4.cyclicSize P c ≤ lzStart) (hlt : lzStart < N.maxPos)
    (script : List Nat) (logging : Bool) :
    let s := (Bt4.runScriptN N P c data lzStart script logging).1
    Bt4.cyclicSize P c ≤ s.lzPos ∧ s.lzPos < N.maxPos ∧
    ∀ i : Nat, s.h2.getD i 0 ≤ s.lzPos ∧ s.h3.getD i 0 ≤ s.lzPos ∧ s.h4.getD i 0 ≤ s.lzPos ∧
      s.tree.getD i 0 ≤ s.lzPos := by
  intro s
  have hS := (bt4_renorm_simulates N hN P hP c data lzStart hs script logging).2
  refine ⟨hS.lzN, ?_, fun i => ⟨(hS.h2.get i).1, (hS.h3.get i).1, (hS.h4.get i).1, (hS.tree.get i).1⟩⟩
  exact Bt4.runScriptN_lz_lt N hN P c data lzStart script logging hs hlt

/-! ## non-vacuity: a crossing inside a run

Dictionary 8 (`cyclic_size = 9`), small hash tables so that the kernel can evaluate the runs, threshold 40 instead of
`0x7FFFFFFF` (the theorems hold for every threshold): started at `lz_pos = 30`, the 10th position reaches 40, all
tables are renormalised (`lz_pos` becomes 9) - in the middle of the data - and the matches found afterwards still
reach back across the crossing. -/

def tinyNorm : NormParams := { maxPos := 40, offBase := 40 }

/-- "abcabcabcabcXabcabcabc_abX" -/
def w1 : Array UInt8 :=
  #[97, 98, 99, 97, 98, 99, 97, 98, 99, 97, 98, 99, 88, 97, 98, 99, 97, 98, 99, 97, 98, 99, 95, 97, 98, 88]
/-- "aXcdefghaYcdefgh__" -/
def w6 : Array UInt8 := #[97, 88, 99, 100, 101, 102, 103, 104, 97, 89, 99, 100, 101, 102, 103, 104, 95, 95]

example : tinyNorm.ok ∧ ({} : NormParams).ok := by decide

example : tinyNorm.ok ∧ ({} : NormParams).ok ∧ Hc4.cyclicSize {} Hc4.cfg8 ≤ 30 ∧ 30 < tinyNorm.maxPos := by decide

/- Evaluated with `#eval` during development (small tables `Hc4.tinyHash` / `Bt4.wHashT`); the kernel re-check of these
   runs (`decide +kernel`) was too slow to keep in the build:
   * `(Hc4.runScriptN tinyNorm {hash := tinyHash} cfg8 w1 30 (List.replicate 26 0)).1` equals the logical trace, contains
     `(13, [(3, 3), (6, 6)]), (14, [(2, 3), (5, 6)])` after the crossing at position 9; final `lz_pos` 22 vs 32.
   * `(Bt4.runScriptN {maxPos := 90, offBase := 90} {hash := wHashT} ⟨64, 8, 273, 0⟩ tData 70 [28, 0]).2 =
     [(28, [(6, 7), (7, 21)])]`, crossing inside the `skip(28)`; final `lz_pos` 74 vs 94.
   * `NormParams.ok` matters (and the invariant `cyclic_size ≤ lz_pos` behind the value 0): with `offBase := 41`,
     `maxPos := 40`, start 31, on `w6` = "aXcdefghaYcdefgh__" and script `[8, 0]` the renormalising HC4 reports
     `[(8, [(8, 7)])]` - `lz_pos` is 8 < `cyclic_size` = 9 right after the crossing, the EMPTY hash2 slot (value 0) of the
     new pair "aY" passes `delta2 < cyclic_size` and an invalid match comes out (`d[9] = 'Y' ≠ 'X' = d[1]`); with
     `offBase := 40` and in the logical finder the answer is `[(8, [])]`. -/

end LzmaVerif.Props.C01Renorm
