/-
  C01 (LZMA2 writer, fast mode): the chunking decisions and the per-chunk parse of the real `LZMA2Writer` are
  INSIDE the model now (`Model/Lzma2Writer.lean`: `encode_for_lzma2` with both chunk limits, the
  store-or-compress decision of `write_chunk`, `LZMAEncoder::reset` incl. the read-ahead byte, state / reps /
  read-ahead surviving a compressed chunk, `chunk_size` restarts, preset dictionary), validated BYTE FOR BYTE
  against the real writer (`lzma2w.fast`).

  (W1) `lzma2_fast_events_valid` - PROVED, every input, every admissible option vector without `chunk_size`, every
       preset dictionary, HC4: whatever the model writer emits is a valid event list (`EvsOk`): every LZMA
       chunk's parse satisfies `parseRun` w.r.t. the history retained so far (preset dictionary, earlier
       chunks - compressed or stored) from the coder state the reader will have (fresh after a stored chunk,
       carried over after a compressed one), denotes exactly `unc` bytes with `1 ≤ unc ≤ 2^21`, its body is the
       range coder's output for that parse from the carried tables and has at most 65536 bytes; every stored
       chunk is non-empty; and the events together denote exactly the input.
  (W2) `lzma2_fast_chunk_body` - PROVED: such a body is exactly what the decision program of a whole chunk
       (`loopProg … (some unc)`, the program `Lzma2.checkChunks` / `ChunksOk` run) produces when the encoder
       walks it along `parseBits` of the chunk's parse: same final tables, same range-encoder state.
  (W3) `lzma2_fast_roundtrip_partial`: the closed round trip through `C01.lzma2_roundtrip`, with the remaining
       link as an explicit, executable hypothesis: the FRAMING of the events (`toChunks` / `frame`: control bytes
       from the reset flags, 64 KiB pieces of a stored chunk) satisfies `Lzma2.checkChunks` and is reproduced
       by `Lzma2.encodeChunks`.  The driver evaluates exactly this hypothesis on the model's output
       (`lzma2w.fast … check=1`) for sampled inputs on every run.
       What is missing for the unconditional statement `lzma2_fast_roundtrip`
         ∀ o preset data bytes, o.admissible → lzma2FastBytes … = some bytes →
           Lzma2.decode o.dict preset (bytes ++ rest) cap = .ok { out := data, consumed := bytes.length, .. }
       is only the bookkeeping lemma `EvsOk evs … → checkChunks (toChunks f evs) w = some data ∧
       encodeChunks (toChunks f evs) w [] = some (frame f evs)` (flags of `Flags` vs `WFlags`, `restartW`, pieces
       of a stored chunk); (W1) + (W2) provide every semantic fact it needs.  Also not covered by (W1):
       `chunk_size` (segments are encoded by the same `segEvents`, to which `segEvents_ok` applies verbatim;
       the cut positions come from `planSeg` and are validated by execution only) and BT4.
  The model answers `none` exactly when a chunk body would exceed the 64 KiB range-coder buffer (the real writer
  fails with an error there); that this never happens (at most 26 bytes per symbol beyond
  `LZMA2_COMPRESSED_LIMIT`) is NOT proved - it is what the real code relies on, too.
-/
import LzmaVerif.Proofs.Lzma2WriterSeg
import LzmaVerif.Proofs.EncFastHc4
import LzmaVerif.Props.C01
import LzmaVerif.Props.C01Mf
import LzmaVerif.Props.C01Fast

namespace LzmaVerif.Props.C01Lzma2Fast
open LzmaVerif Mf Lzma Rc EncFast Lzma2W

/-! ## what `LZMAOptions::validate(true)` gives -/

theorem admissible_dict (o : Opts) (h : o.admissible = true) :
    4096 ≤ o.dict ∧ o.dict ≤ 805306368 ∧ o.lc + o.lp ≤ 4 ∧ o.pb ≤ 4 ∧ 8 ≤ o.nice ∧ o.nice ≤ 273 := by
  unfold Opts.admissible Options.validate at h
  simp only [Bool.and_eq_true, decide_eq_true_eq, Bool.not_true, Bool.false_or] at h
  obtain ⟨⟨⟨h1, h2⟩, h3⟩, h4⟩ := h
  have e1 : Consts.DICT_SIZE_MIN = 4096 := rfl
  have e2 : Options.DICT_SIZE_MAX_ENCODER = 805306368 := rfl
  rw [e1, e2] at h3
  exact ⟨h3.1, h3.2, h2, h1.2.2, h4.1, h4.2⟩

theorem dictBufOf_ge (dict : Nat) (h : dict ≤ 805306368) : dict ≤ Lzma2.dictBufOf dict := by
  unfold Lzma2.dictBufOf
  have e1 : Consts.DICT_SIZE_MIN = 4096 := rfl
  have e2 : Consts.DICT_SIZE_MAX = 4294967280 := rfl
  rw [e1, e2]
  omega

/-- the bytes of `b` behind `a` in `a ++ b` -/
theorem sliceNat_append_right (a b : Array UInt8) :
    sliceNat (a ++ b) a.size b.size = b.toList.map (fun x => x.toNat) := by
  apply List.ext_getElem
  · rw [sliceNat_length, List.length_map, Array.length_toList]
  · intro i h1 h2
    rw [sliceNat_length] at h1
    simp only [sliceNat, List.getElem_map, List.getElem_range, Array.getElem_toList, byteAt]
    rw [Array.getD_eq_getD_getElem?, Array.getElem?_eq_getElem (by rw [Array.size_append]; omega)]
    simp only [Option.getD_some]
    rw [Array.getElem_append_right (by omega)]
    simp only [Nat.add_sub_cancel_left]

/-! ## (W1) the events of the model writer are valid and denote the input -/

/-- **(W1)**: every input, every admissible option vector without `chunk_size`, every preset dictionary, HC4 -/
theorem lzma2_fast_events_valid (H : Hc4.Hc4Params) (hH : H.ok) (P : FastParams) (hP : P.ok) (o : Opts)
    (hadm : o.admissible = true) (hcs : o.chunkSize = none) (preset data : Array UInt8)
    (evs : List Ev) (h : fastEvents (mkHc4 H P o) P o preset data = some evs) (c : Coder) (ps : Probs) :
    EvsOk o.params (Lzma2.dictBufOf o.dict) evs true c ps
      (histOf (presetUsedW o.dict preset ++ data) (presetUsedW o.dict preset).size)
      (data.toList.map (fun x => x.toNat)) := by
  obtain ⟨hd1, hd2, _, _, _, _⟩ := admissible_dict o hadm
  have hcc : o.chunkClamped = none := by unfold Opts.chunkClamped; rw [hcs]; rfl
  unfold fastEvents fastEventsParts at h
  simp only [hcc] at h
  have hF : mkHc4 H P o true =
      hc4Finder H { dict := o.dict, niceLen := o.nice, mlmax := 273, depthLimit := o.depth } := by
    unfold mkHc4; rw [hP.2]
  rw [hF] at h
  have hb := dictBufOf_ge o.dict hd2
  have := segEvents_ok (hc4Sound H hH o.dict o.nice o.depth (by omega) _) P hP o.nice o.params
    (Lzma2.dictBufOf o.dict) (by omega) (by omega) (by omega)
    (presetUsedW o.dict preset).size (by rw [Array.size_append]; omega) evs c ps h
  rw [Array.size_append, Nat.add_sub_cancel_left, sliceNat_append_right] at this
  exact this

/-- (W1) for the parameters regenerated from the source -/
theorem lzma2_fast_events_valid_generated (o : Opts) (hadm : o.admissible = true) (hcs : o.chunkSize = none)
    (preset data : Array UInt8) (evs : List Ev)
    (h : fastEvents (mkHc4 MfGen.hc4Params MfGen.fastParams o) MfGen.fastParams o preset data = some evs)
    (c : Coder) (ps : Probs) :
    EvsOk o.params (Lzma2.dictBufOf o.dict) evs true c ps
      (histOf (presetUsedW o.dict preset ++ data) (presetUsedW o.dict preset).size)
      (data.toList.map (fun x => x.toNat)) :=
  lzma2_fast_events_valid MfGen.hc4Params C01Mf.generated_hc4_params_ok MfGen.fastParams
    C01Fast.generated_fast_params_ok o hadm hcs preset data evs h c ps

/-! ## (W2) a chunk's body is what the chunk program's encoder produces -/

/-- **(W2)** -/
theorem lzma2_fast_chunk_body (pr : Params) (dictBuf : Nat) (parse : List Sym) (c0 c' : Coder) (h h' : Hist)
    (unc : Nat) (ps0 : Probs)
    (hp : parseRun dictBuf parse c0 h = some (c', h')) (hsz : h'.size = h.size + unc) :
    (loopProg pr dictBuf (unc + 1) (some unc) c0 h [] 0).encRun (parseBits pr parse c0 h) ps0 Enc.init
      = some ({ stop := .limit, coder := c', hist := h', parse := parse.reverse, emitted := unc }, [],
              (encFold pr parse c0 h ps0 Enc.init).1, (encFold pr parse c0 h ps0 Enc.init).2) := by
  have hl := Lzma2.parseRun_length_le' dictBuf parse c0 c' h h' hp
  have := loop_encRun_fold pr dictBuf parse c0 h c' h' (unc + 1) unc [] 0 ps0 Enc.init hp hsz (by omega)
  rw [List.append_nil, Nat.zero_add] at this
  exact this

/-! ## (W3) the closed round trip, framing as an executable hypothesis -/

/-- **(W3), partial**: if the framing of the model's events passes `checkChunks` and is what `encodeChunks`
    produces (both evaluated by the driver, `lzma2w.fast … check=1`), then the reader model returns exactly the
    input from the model writer's bytes, consumes exactly those bytes whatever follows, and recovers the chunk
    list.  (W1) and (W2) are the semantic content of that hypothesis; see the header for what is missing. -/
theorem lzma2_fast_roundtrip_partial (H : Hc4.Hc4Params) (P : FastParams) (o : Opts)
    (preset data : Array UInt8) (bytes : List Nat) (chunks : List Lzma2.Chunk) (dataN : List Nat)
    (hpb : o.propsByte ≤ 224)
    (hlclp : (paramsOfProps o.propsByte).lc + (paramsOfProps o.propsByte).lp ≤ 4)
    (_hb : lzma2FastBytes H P o preset data = some bytes)
    (_hc : fastChunks (mkHc4 H P o) P o preset data = some chunks)
    (hchk : Lzma2.checkChunks o.propsByte chunks
      (Lzma2.initW o.dict (preset.map (fun x => x.toNat)) o.propsByte) = some dataN)
    (henc : Lzma2.encodeChunks o.propsByte chunks
      (Lzma2.initW o.dict (preset.map (fun x => x.toNat)) o.propsByte) [] = some bytes)
    (rest : List Nat) (cap : Nat) (hcap : dataN.length ≤ cap) :
    Lzma2.decode o.dict (preset.map (fun x => x.toNat)) (bytes ++ rest) cap
      = .ok { out := dataN.toArray, consumed := bytes.length, chunks := chunks } := by
  obtain ⟨bytes', he, hdec⟩ := C01.lzma2_roundtrip o.dict (preset.map (fun x => x.toNat)) o.propsByte hpb hlclp
    chunks dataN (C01.lzma2_check_sound _ _ _ _ hchk)
  rw [henc] at he
  cases he
  exact hdec rest cap hcap

/-! ## non-vacuity -/

/-- "abcabcabcabcXabcabcabc_abX" -/
def w1 : Array UInt8 :=
  #[97, 98, 99, 97, 98, 99, 97, 98, 99, 97, 98, 99, 88, 97, 98, 99, 97, 98, 99, 97, 98, 99, 95, 97, 98, 88]

def o1 : Opts := { dict := 4096, lc := 3, lp := 0, pb := 2, nice := 32, depth := 0 }

example : o1.admissible = true := by decide

/-- (W1) instantiated at the real constants -/
example (evs : List Ev) (h : fastEvents (mkHc4 {} {} o1) {} o1 #[1, 2, 3] w1 = some evs) :=
  lzma2_fast_events_valid {} (by decide) {} (by decide) o1 (by decide) rfl #[1, 2, 3] w1 evs h Coder.init #[]

end LzmaVerif.Props.C01Lzma2Fast
