import LzmaVerif.Proofs.XzStrict
import LzmaVerif.Proofs.LzipFile
import LzmaVerif.Props.C01
/-!
# C03 — streams interoperate with the reference implementation (both directions)

"Interoperates" is split into (a) what can be proved – the writers' output satisfies the FORMAT, stated
as an executable strict decoder that enforces every MUST rule of xz-file-format 1.x the way liblzma does
(`XzStrict.decodeStrict`; the crate's own reader is still laxer in two respects, see `crate_reader_is_laxer`) – and (b) what ties
the format model to the reference: on every run the strict decoder, liblzma's decoder and the crate's
reader are executed on the same files (our writer's output, liblzma's output for presets / filter chains /
checks, structure-aware mutants with recomputed CRCs) and their verdicts and data are compared.

* `xz_writer_output_is_strictly_valid` – every single-stream file the writer model emits (any check, any
  admissible filter chain, any number of blocks) is accepted by the strict decoder with the original
  data; `xz_writer_concat_is_strictly_valid` – also any concatenation with 4-aligned padding.
* `strict_accepts_subset_of_reader` – whatever the strict decoder accepts the crate's reader accepts with
  the same result: the reader decodes everything that is valid (the liblzma → ours direction at the
  container level; the LZMA/LZMA2 payload level is C01's decoder correctness + correspondence on
  liblzma-produced payloads).
* `xz_writer_index_overflow_rejected` – the boundary: an Index larger than 2^34 bytes (> 2^33 blocks,
  > 100 GiB of output) makes `write_stream_footer` truncate the backward size (`as u32`); liblzma would
  reject that file, and so does the crate's reader since it compares the backward size with the Index.
  Proved on the model, not replayable on a real machine (needs > 128 GiB of RAM); recorded as an
  observation in DESIGN.md.
* LZIP: `lzip_writer_output_is_valid` (header version/dict byte, CRC, data size, member size fields all
  verified by the model reader, which enforces every field).
* `.lzma`: `lzma_alone_roundtrip` is C01's theorem; the known divergence lc+lp>4 (liblzma refuses) is a
  recorded finding.
-/
namespace LzmaVerif.Props.C03
open LzmaVerif LzmaVerif.Xz LzmaVerif.XzStrict

theorem xz_writer_output_is_strictly_valid (c : Check) (fs : List Filter) (hfs : FiltersOk fs)
    (blocks : List (List Nat × List Nat))
    (hb : ∀ b ∈ blocks, PayloadOk (readerDict fs) b.1 (applyFilters fs b.2) ∧ unfilter fs (applyFilters fs b.2) = b.2)
    (hlen : (streamBytes c fs blocks).length < 2 ^ 63) (hdat : ((blocks.map (·.2)).flatten).length < 2 ^ 63)
    (hn : blocks.length ≤ 2 ^ 29)
    (cap : Nat) (hcap : ((blocks.map (·.2)).flatten).length ≤ cap) :
    decodeStrict (streamBytes c fs blocks) cap
      = .ok (blocks.map (·.2)).flatten (streamBytes c fs blocks).length (blocks.map (blkOf fs)).reverse :=
  writer_output_strict' c fs hfs blocks hb hlen hdat hn cap hcap

theorem strict_accepts_subset_of_reader (inp : List Nat) (cap : Nat) (d : List Nat) (n : Nat) (b : List Block)
    (h : decodeStrict inp cap = .ok d n b) : Xz.decode true inp cap = .ok d n b :=
  strict_implies_lax inp cap d n b h

/-- the crate's reader is still laxer than the format in two respects — reserved Block Flags bits and non-shortest
    multibyte integers (block header and Index): three small files accepted by it and rejected by the strict
    decoder (and by liblzma).  Forged Index records / backward sizes are rejected by both since the reader fix
    (`forged_witnesses_rejected`, C04). -/
theorem crate_reader_is_laxer :
    (∃ b, Xz.decode true laxWitness 16 = .ok [0x41] 56 b) ∧ decodeStrict laxWitness 16 = .err .invalidInput ∧
    (∃ b, Xz.decode true laxWitnessVli 16 = .ok [0x41] 60 b) ∧ decodeStrict laxWitnessVli 16 = .err .invalidData ∧
    (∃ b, Xz.decode true laxWitnessIndexVli 16 = .ok [0x41] 57 b) ∧
    decodeStrict laxWitnessIndexVli 16 = .err .invalidData :=
  ⟨lax_not_strict_witness.1, lax_not_strict_witness.2.2, lax_not_strict_witness_vli.1, lax_not_strict_witness_vli.2,
   lax_not_strict_witness_index_vli.1, lax_not_strict_witness_index_vli.2⟩

/-- beyond 2^34 bytes of Index the writer's footer is wrong (truncating cast): the strict decoder, like liblzma,
    and the crate's own reader reject the writer's output -/
theorem xz_writer_index_overflow_rejected (c : Check) (N : Nat) (hN : 2 ^ 34 < N) (hN2 : N < 2 ^ 63) :
    Xz.decode false (streamBytes c [.lzma2 4096] (List.replicate N tinyBlock)) N = .err .invalidData ∧
    decodeStrict (streamBytes c [.lzma2 4096] (List.replicate N tinyBlock)) N = .err .invalidData :=
  writer_index_overflow c N hN hN2

/-- every multi-member LZIP file the writer model emits is accepted by the (field-by-field strict) reader
    model with the original data -/
theorem lzip_writer_output_is_valid (ms : List (Nat × List Nat × List Nat)) (hne : ms ≠ [])
    (hm : ∀ m ∈ ms, LzipFile.MemberOk m) (cap : Nat) (hcap : (LzipFile.fileData ms).length ≤ cap) :
    LzipFile.decode (LzipFile.fileBytes ms) cap =
      .ok (LzipFile.fileData ms) (LzipFile.fileBytes ms).length (LzipFile.fileRecs ms) :=
  LzipFile.lzip_roundtrip_recs_nil ms hne hm cap hcap

end LzmaVerif.Props.C03
