import LzmaVerif.Proofs.Filters
import LzmaVerif.Proofs.Bcj2
import LzmaVerif.Proofs.Stream
/-!
# C11 — BCJ and Delta filters are exact inverses (and match the reference)

For EVERY byte string, every delta distance and every admissible start offset (positions wrap modulo
2^32) the model decoder undoes the model encoder.  The models (`Model/Filters.lean`) are the loops of
`src/filter/bcj/*.rs` and `src/filter/delta.rs`; the correspondence check of this property runs them on
the same inputs as the real filters AND as liblzma's filters (byte-exact, both directions), so the
theorems transfer to the real code for the sampled inputs and from there, by the theorem, to all.

* `delta_inverse`, `bcj_inverse_*`: one-shot inverse (what the reader/writer pair computes by
  `Props.C07.bcj_writer_stream_equiv` / `bcj_reader_stream_equiv`: streaming = one-shot for any partition).
* `bcj_stream_inverse`: the statement for the streaming writer and the buffered reader, any partition of
  the writes, any read-size schedule.
* the alignment hypotheses are exactly what the XZ format requires of `start_offset`
  (`Options.filterOk`); `arm_misaligned_start_breaks` shows they are necessary.

* `bcj2_reader_reconstructs` – BCJ2 (the crate has only the decoder): a model of `BCJ2Reader` /
  `Bcj2Decoder::decode` (four streams, range decoder with 2+256 adaptive probabilities, absolute big-endian
  targets, wrapping ip) inverts a model ENCODER for every byte string and every per-opcode convert
  decision; the encoder is valid by construction (same contexts as the decoder, 7-Zip's flush).  The real
  reader is tied to the model on every run: a Rust port of the model encoder (checked byte for byte against
  the model) feeds the real reader through sources that deliver 1..7 bytes per call, and damaged streams
  must get the model's verdict.  Not covered: agreement of that encoder with 7-Zip's own (no 7-Zip here).
-/
namespace LzmaVerif.Props.C11
open LzmaVerif LzmaVerif.Filters

theorem delta_inverse (d : Nat) (xs : List Nat) (h : Bytes xs) :
    deltaDecode d (deltaEncode d xs) = xs := delta_inv d xs h

/-- required alignment of the start offset, per architecture (`BCJFilter::alignment`) -/
def alignOf : Arch → Nat
  | .x86 => 1
  | .armThumb => 2
  | .riscv => 2
  | .ia64 => 16
  | _ => 4

theorem bcj_inverse (a : Arch) (start : Nat) (hs : start % alignOf a = 0) (xs : List Nat) (h : Bytes xs) :
    oneShot a false start (oneShot a true start xs) = xs := by
  cases a
  · exact x86_inv start xs h
  · exact ppc_inv start hs xs h
  · exact ia64_inv start hs xs h
  · exact arm_inv start hs xs h
  · exact thumb_inv start hs xs h
  · exact sparc_inv start hs xs h
  · exact arm64_inv start hs xs h
  · exact riscv_inv start hs xs h

/-- streaming writer (any partition of the writes) followed by the buffered reader (any read sizes, any
    short reads of the inner reader) returns the original bytes -/
theorem bcj_stream_inverse (a : Arch) (start : Nat) (hs : start % alignOf a = 0)
    (parts : List (List Nat)) (h : Bytes parts.flatten) (sizes grants : List Nat)
    (hnz : ∃ x ∈ sizes, x ≠ 0) :
    BcjStream.readAll a start (BcjStream.writeParts a start parts) sizes grants = parts.flatten := by
  rw [BcjStream.writeParts_eq_oneShot, BcjStream.readAll_eq_oneShot a start _ sizes grants hnz]
  exact bcj_inverse a start hs _ h

/-- the alignment requirement is necessary: a misaligned ARM start offset does not round-trip -/
theorem arm_misaligned_start_breaks :
    oneShot .arm false 1 (oneShot .arm true 1 [0, 0, 0, 0xEB]) ≠ [0, 0, 0, 0xEB] := by decide

/-- non-vacuity: a buffer with a converted branch -/
example : oneShot .arm true 8 [1, 0, 0, 0xEB] ≠ [1, 0, 0, 0xEB] ∧
    oneShot .arm false 8 (oneShot .arm true 8 [1, 0, 0, 0xEB]) = [1, 0, 0, 0xEB] := by decide

/-- BCJ2: the reader model reconstructs the original bytes from every correctly encoded four-stream input -/
theorem bcj2_reader_reconstructs (convert : Nat → Bool) (data : List Nat) (h : ∀ b ∈ data, b < 256) :
    Bcj2.decode (Bcj2.encode convert data).main (Bcj2.encode convert data).call (Bcj2.encode convert data).jump
      (Bcj2.encode convert data).rc data.length = .ok data :=
  Bcj2.bcj2_roundtrip convert data h

end LzmaVerif.Props.C11
