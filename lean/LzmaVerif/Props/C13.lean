import LzmaVerif.Props.C08
import LzmaVerif.Proofs.Split
import LzmaVerif.Proofs.Stream
/-!
# C13 — compressed output is a pure function of input and options

* The model encoder is a Lean function, so for the modelled part determinism is by construction; it is
  transferred to the code by the byte-exact correspondence of C01/C02 (the real bytes are reproduced by
  the model from the parse) and by the repeated-run / partition oracle of this check.
* `mt_output_is_schedule_free` – for the MT writers/readers: any two complete runs, under ANY two
  schedules and any worker counts ≥ 1, hand over the same sequence of units (0,1,2,… in order); the
  bytes of unit `i` are produced by a fresh single-threaded writer from the `i`-th slice of the input.
* `unit_cutting_depends_on_bytes_only` – the slices are determined by the total byte count and the
  configured unit size, not by the partition into write calls.
* `filter_output_partition_free` – the BCJ stage inside XZ does not depend on the partition.
-/
namespace LzmaVerif.Props.C13
open LzmaVerif

theorem mt_output_is_schedule_free (cfg₁ cfg₂ : MT.Cfg) (hu : cfg₁.units = cfg₂.units)
    (h₁ : 1 ≤ cfg₁.maxWorkers) (h₂ : 1 ≤ cfg₂.maxWorkers)
    (sched₁ sched₂ : List MT.Label) (s₁ s₂ : MT.Sys)
    (r₁ : MT.runSched (MT.init cfg₁) sched₁ = some s₁) (r₂ : MT.runSched (MT.init cfg₂) sched₂ = some s₂)
    (d₁ : s₁.pc = .idle (some .done)) (d₂ : s₂.pc = .idle (some .done)) :
    s₁.delivered = s₂.delivered := by
  have a := (MT.mt_order cfg₁ h₁ sched₁ s₁ r₁).1
  have b := (MT.mt_order cfg₂ h₂ sched₂ s₂ r₂).1
  have c := (MT.mt_complete cfg₁ h₁ sched₁ s₁ r₁ d₁).1
  have d := (MT.mt_complete cfg₂ h₂ sched₂ s₂ r₂ d₂).1
  rw [a, b, c, d, hu]

theorem unit_cutting_depends_on_bytes_only (lim : Nat) (hl : 0 < lim) (p q : List Nat) (h : p.sum = q.sum) :
    Split.mtUnits lim p = Split.mtUnits lim q := Split.mtUnits_partition_independent lim hl p q h

theorem filter_output_partition_free (a : Filters.Arch) (start : Nat) (p q : List (List Nat))
    (h : p.flatten = q.flatten) : BcjStream.writeParts a start p = BcjStream.writeParts a start q := by
  rw [BcjStream.writeParts_eq_oneShot, BcjStream.writeParts_eq_oneShot, h]

end LzmaVerif.Props.C13
