import LzmaVerif.Proofs.MT
import LzmaVerif.Generated.SyncShape
/-!
# C08 — multi-threaded readers/writers are equivalent to the single-threaded ones

Protocol model `Model/MT.lean`: a coordinator inside the caller's `read`, up to `maxWorkers` workers,
work queue, result channel, reorder buffer, error store.  What a worker computes from unit `i` depends
only on `i` (each unit is decoded by a fresh single-threaded reader / encoded by a fresh single-threaded
writer), so *what the caller receives* is determined by the ORDER of delivered sequence numbers.

For every configuration (any number of units, any unit outcomes, any worker limit ≥ 1) and EVERY
schedule:

* `mt_delivers_in_order` – the caller receives units `0, 1, 2, …` in order, no gaps, no duplicates,
  whichever worker finishes first;
* `mt_nothing_lost` – a healthy unit that has been dispatched and not yet delivered is in exactly one
  place (queue, a worker's hands, channel, reorder buffer);
* `mt_end_of_stream_is_complete` – if the caller is told end-of-stream then ALL units have been
  delivered, the source ended cleanly and no unit failed.

Together with the per-unit round trip (C01/C02: each unit is a self-contained run of chunks / member)
this gives MT output = ST output.  The per-unit statement is tied to the code by the C01/C02 checks; the
cutting of units by the MT writers is `mtUnits_eq_ideal` (C18).
-/
namespace LzmaVerif.Props.C08
open LzmaVerif.MT

theorem mt_delivers_in_order (cfg : Cfg) (hcfg : 1 ≤ cfg.maxWorkers) (sched : List Label) (s : Sys)
    (hr : runSched (init cfg) sched = some s) :
    s.delivered = List.range s.delivered.length ∧ s.nextReturn = s.delivered.length :=
  mt_order cfg hcfg sched s hr

theorem mt_nothing_lost (cfg : Cfg) (hcfg : 1 ≤ cfg.maxWorkers) (sched : List Label) (s : Sys)
    (hr : runSched (init cfg) sched = some s) (q : Nat) (h1 : s.nextReturn ≤ q) (h2 : q < s.nextDispatch)
    (hok : cfg.units.getD q .ok = .ok) :
    q ∈ s.queue ∨ (∃ w ∈ s.ws, w = .got q ∨ w = .work q ∨ w = .send q) ∨ .result q ∈ s.chan ∨ q ∈ s.ooo :=
  mt_ok_unit_not_lost cfg hcfg sched s hr q h1 h2 hok

theorem mt_end_of_stream_is_complete (cfg : Cfg) (hcfg : 1 ≤ cfg.maxWorkers) (sched : List Label) (s : Sys)
    (hr : runSched (init cfg) sched = some s) (hdone : s.pc = .idle (some .done)) :
    s.delivered.length = cfg.units.length ∧ cfg.srcOk = true ∧ ∀ o ∈ cfg.units, o = .ok :=
  mt_complete cfg hcfg sched s hr hdone

/-- the output is schedule-free: any two complete runs deliver the same sequence -/
theorem mt_output_schedule_free (cfg : Cfg) (hcfg : 1 ≤ cfg.maxWorkers) (sched₁ sched₂ : List Label) (s₁ s₂ : Sys)
    (h₁ : runSched (init cfg) sched₁ = some s₁) (h₂ : runSched (init cfg) sched₂ = some s₂)
    (d₁ : s₁.pc = .idle (some .done)) (d₂ : s₂.pc = .idle (some .done)) :
    s₁.delivered = s₂.delivered := by
  have a := (mt_order cfg hcfg sched₁ s₁ h₁).1
  have b := (mt_order cfg hcfg sched₂ s₂ h₂).1
  have c := (mt_complete cfg hcfg sched₁ s₁ h₁ d₁).1
  have d := (mt_complete cfg hcfg sched₂ s₂ h₂ d₂).1
  rw [a, b, c, d]

end LzmaVerif.Props.C08
