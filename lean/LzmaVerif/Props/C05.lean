import LzmaVerif.Proofs.Trunc
import LzmaVerif.Proofs.Bcj2
/-!
# C05 — truncation surfaces as an error, never as wrong or endless data

For every well-formed stream of each format and EVERY cut position the reader models reject the prefix.
Unlike the round-trip theorems these are about the decoders alone wherever possible: they need no
encoder and hold for whatever the decoder would have accepted in full.

* `lzma_truncation_is_eof` – raw/.lzma LZMA: if the decoder accepts `input` consuming `c` bytes, then on every
  prefix shorter than `c` it returns exactly `UnexpectedEof` (range decoder extension lemma
  `Prog.decRun_ext`: a run on a prefix either hits the end of the input or is the same run).
* `lzma2_truncation_never_ok` – LZMA2 chunk loop: no prefix of an accepted stream is accepted, for any cap.
* `lzip_truncation` – multi-member LZIP: a proper non-empty prefix is an error unless the cut is EXACTLY a
  member boundary (then it is a complete, valid, shorter file – nothing a reader could notice).  Before
  fix 03ea0d3 cuts one to three bytes behind a boundary were accepted as well (found by this proof).
* `xz_truncation` – single-stream XZ of any check / filter chain / number of blocks (hypotheses of
  `xz_roundtrip_blocks`, no assumption about the codec): every proper prefix, including the empty one, is
  rejected (`.capped` is the model's output cap, reachable only inside the payload codec).
* `bcj2_truncation` – BCJ2: a proper prefix of ANY one of the four streams of an encoder output is an error
  (before fix b212bdf the reader returned the bytes produced so far and then end-of-stream).
* `lzip_empty_input_is_accepted` – the recorded known finding: the empty input decodes to the empty output.

Not expressible in these models: I/O errors raised by the source at a given `read` call, short reads and
`Interrupted` (the models take the input as a list, so they are partition-independent by construction);
those are covered by the fault-injection oracle on the real readers/writers (every read-call index).
-/
namespace LzmaVerif.Props.C05
open LzmaVerif

theorem lzma_truncation_is_eof {pr : Lzma.Params} {dictBuf : Nat} {preset : Array Nat} {size : Option Nat}
    {input : List Nat} {cap : Nat} {out : Array Nat} {c : Nat} {parse : List Lzma.Sym}
    (h : Lzma.decodeRaw pr dictBuf preset size input cap = .ok out c parse) (k : Nat) (hk : k < c) :
    Lzma.decodeRaw pr dictBuf preset size (input.take k) cap = .err .eof :=
  Lzma.decodeRaw_trunc h k hk

/-! ### The error class of the LZMA reader (order of events at the end of `LZMAReader::read_decode`)

`lzma_missing_byte_is_eof`: once the range decoder has asked for a byte behind the end of the source, the answer is
`UnexpectedEof` - whatever the symbol loop stopped for (`stream_error()` is examined before the result of `decode`).
`lzma_corrupt_symbol_is_other`: a corrupt symbol ("dist overflow", or an end marker in a stream with a declared size)
reached WITHOUT a missing byte is `Other`, even when the normalisation that would follow needs a byte that is not
there: `LZMADecoder::decode` returns the error of `LZDecoder::repeat` at once.  (Until round 5 the model normalised
first and said `UnexpectedEof` in that corner; `./check` tolerated the pair.) -/

theorem lzma_missing_byte_is_eof (pr : Lzma.Params) (dictBuf : Nat) (preset : Array Nat) (size : Option Nat)
    (input : List Nat) (cap : Nat) (d0 : Rc.Dec) (r : Lzma.LoopRes) (ps : Rc.Probs) (e : Rc.Dec)
    (hinit : Rc.Dec.init input = some d0)
    (hrun : (Lzma.rawProg pr dictBuf preset size cap).decRun (Lzma.rawPs0 pr) d0 = (r, ps, e))
    (hover : e.over > 0) :
    Lzma.decodeRaw pr dictBuf preset size input cap = .err .eof := by
  obtain ⟨b1, b2, b3, b4, rest, rfl, _⟩ := Lzma.init_inv hinit
  rw [Lzma.decodeRaw_run pr dictBuf preset size 0 _ cap d0 rfl hinit r ps e hrun]
  exact Lzma.rawResult_over0 _ _ _ _ _ _ hover

theorem lzma_corrupt_symbol_is_other (pr : Lzma.Params) (dictBuf : Nat) (preset : Array Nat) (size : Option Nat)
    (input : List Nat) (cap : Nat) (d0 : Rc.Dec) (r : Lzma.LoopRes) (ps : Rc.Probs) (e : Rc.Dec)
    (hinit : Rc.Dec.init input = some d0)
    (hrun : (Lzma.rawProg pr dictBuf preset size cap).decRun (Lzma.rawPs0 pr) d0 = (r, ps, e))
    (hstop : r.stop = .distOverflow ∨ (r.stop = .endMarker ∧ size.isSome)) (hover : e.over = 0) :
    Lzma.decodeRaw pr dictBuf preset size input cap = .err .other := by
  obtain ⟨b1, b2, b3, b4, rest, rfl, _⟩ := Lzma.init_inv hinit
  rw [Lzma.decodeRaw_run pr dictBuf preset size 0 _ cap d0 rfl hinit r ps e hrun]
  exact Lzma.rawResult_repeatErr _ _ _ _ _ _ hstop hover

/-- class of a model answer, for kernel evaluation -/
def errIs : Lzma.DecOut → Lzma.Err → Bool
  | .err e, e' => e == e'
  | _, _ => false

/-- non-vacuity, and the corner itself: a 6-byte stream whose first symbol is a match into the empty dictionary
    ("dist overflow") and takes its last bit from the last byte, leaving `range < 2^24`: the normalisation that would
    follow needs a 7th byte.  The real reader says `Other`, and so does the model (it said `UnexpectedEof` before);
    one byte less, and the symbol itself misses a byte: `UnexpectedEof`. -/
example :
    errIs (Lzma.decodeRaw LzipFile.lzipParams 4096 #[] none [0x00, 0x80, 0xd4, 0x0a, 0xa3, 0x9d] 4) .other = true ∧
    errIs (Lzma.decodeRaw LzipFile.lzipParams 4096 #[] none [0x00, 0x80, 0xd4, 0x0a, 0xa3] 4) .eof = true :=
  ⟨by decide +kernel, by decide +kernel⟩

theorem lzma2_truncation_never_ok {dict : Nat} {preset : Array Nat} {input : List Nat} {cap : Nat} {r : Lzma2.DecOk}
    (h : Lzma2.decode dict preset input cap = .ok r) (k : Nat) (hk : k < r.consumed) (cap' : Nat) (r' : Lzma2.DecOk) :
    Lzma2.decode dict preset (input.take k) cap' ≠ .ok r' :=
  Lzma2.decode_trunc h k hk cap' r'

theorem lzip_truncation (ms : List (Nat × List Nat × List Nat)) (hm : ∀ m ∈ ms, LzipFile.MemberOk m)
    (cap : Nat) (hcap : (LzipFile.fileData ms).length ≤ cap)
    (k : Nat) (hk0 : 0 < k) (hk : k < (LzipFile.fileBytes ms).length) :
    (∃ e, LzipFile.decode ((LzipFile.fileBytes ms).take k) cap = .err e) ∨
    (∃ j, 0 < j ∧ j < ms.length ∧ (LzipFile.fileBytes (ms.take j)).length = k ∧
      LzipFile.decode ((LzipFile.fileBytes ms).take k) cap =
        .ok (LzipFile.fileData (ms.take j)) k (LzipFile.fileRecs (ms.take j))) :=
  LzipFile.lzip_trunc ms hm cap hcap k hk0 hk

theorem xz_truncation (c : Xz.Check) (fs : List Xz.Filter) (hfs : Xz.FiltersOk fs)
    (blocks : List (List Nat × List Nat))
    (hb : ∀ b ∈ blocks, Xz.PayloadOk (Xz.readerDict fs) b.1 (Xz.applyFilters fs b.2) ∧
      Xz.unfilter fs (Xz.applyFilters fs b.2) = b.2)
    (hsz : Xz.SizesOk c fs blocks) (cap : Nat) (hcap : ((blocks.map (·.2)).flatten).length ≤ cap)
    (k : Nat) (hk : k < (Xz.streamBytes c fs blocks).length) :
    (∃ e, Xz.decode false ((Xz.streamBytes c fs blocks).take k) cap = .err e) ∨
    Xz.decode false ((Xz.streamBytes c fs blocks).take k) cap = .capped :=
  Xz.xz_trunc_blocks_ok c fs hfs blocks hb hsz cap hcap k hk

theorem bcj2_truncation (convert : Nat → Bool) (data : List Nat) (h : ∀ b ∈ data, b < 256) (hne : data ≠ [])
    (k : Nat) :
    (k < (Bcj2.encode convert data).main.length →
      Bcj2.isErr (Bcj2.decode ((Bcj2.encode convert data).main.take k) (Bcj2.encode convert data).call
        (Bcj2.encode convert data).jump (Bcj2.encode convert data).rc data.length)) ∧
    (k < (Bcj2.encode convert data).call.length →
      Bcj2.isErr (Bcj2.decode (Bcj2.encode convert data).main ((Bcj2.encode convert data).call.take k)
        (Bcj2.encode convert data).jump (Bcj2.encode convert data).rc data.length)) ∧
    (k < (Bcj2.encode convert data).jump.length →
      Bcj2.isErr (Bcj2.decode (Bcj2.encode convert data).main (Bcj2.encode convert data).call
        ((Bcj2.encode convert data).jump.take k) (Bcj2.encode convert data).rc data.length)) ∧
    (k < (Bcj2.encode convert data).rc.length →
      Bcj2.isErr (Bcj2.decode (Bcj2.encode convert data).main (Bcj2.encode convert data).call
        (Bcj2.encode convert data).jump ((Bcj2.encode convert data).rc.take k) data.length)) :=
  Bcj2.trunc_any convert data h hne k

/-- known finding (KNOWN_FINDINGS.jsonl, `truncation-accepted:lzip:empty-input`) as the model has it -/
theorem lzip_empty_input_is_accepted (cap : Nat) : LzipFile.decode [] cap = .ok [] 0 [] := by
  simp [LzipFile.decode, LzipFile.members]

end LzmaVerif.Props.C05
