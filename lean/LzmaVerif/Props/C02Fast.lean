/-
  C02 / C01 (fast mode, writers closed end to end): the LZIP and `.lzma` WRITER models compose with the fast encoder,
  and the reader models return the input - with NO parse hypothesis left.

  `Model/LzipWriter.lean` (`lzipFastBytes`) and `Model/LzmaWriter.lean` (`lzmaAloneFastBytes`, `lzmaRawFastBytes`)
  are functions from OPTIONS and DATA to the bytes of the file: member splitting, dictionary-size byte / `.lzma`
  header, the fast parse of `Model/EncFast.lean` over HC4, end marker, range coder, trailer.  They are tied to the real
  `LZIPWriter` / `LZMAWriter` (fast mode, HC4 and BT4) by byte-exact correspondence on every run
  (`lzipw.fast`, `lzmaw.fast`).

  (W1) `lzip_fast_file_roundtrip`: for EVERY data, every `dict_size` (the writer clamps it to 4 KiB ..= 512 MiB), every
       `member_size`, `depth_limit`, every `nice_len` the writer accepts: the writer model produces a file and
       `LzipFile.decode` (= `LZIPReader` read to the end) returns exactly the data, consumes exactly the file (plus
       at most the four bytes it has to look at when something follows) and has seen as many members as the
       splitter cut.  The hypothesis "a parse of each member's data" of `lzip_container_roundtrip` is discharged by
       `fast_parse_valid`, the dictionary hypothesis by `lzipDict` (the reader's dictionary is at least the
       encoder's).  Side conditions, explicit: `data.size < 2^64` and file length `< 2^64` (the trailer's fields).
  (W2) `lzma_alone_fast_roundtrip_size` / `_marker`: `LZMAWriter::new_use_header(out, opts, Some(len) / None)`:
       `Lzma.decodeAlone` (= `LZMAReader::new_mem_limit` read to the end) takes lc/lp/pb, the dictionary size and the
       size from the 13 header bytes and returns exactly the data, consuming exactly the file, for every valid
       `lc/lp/pb/dict_size/nice_len`, every `depth_limit`.
  (W3) `lzma_raw_fast_roundtrip_size` / `_marker`: the headerless variants of `new_no_header`.

  All of it for HC4 (`bt4 = false`); BT4 runs in the correspondence only (no soundness theorem for the tree matches).
  `MfConsts` are the constants of hc4.rs / encoder_fast.rs; `*_generated` instantiate them with the ones regenerated
  from the source on every run.
-/
import LzmaVerif.Proofs.LzipWriter
import LzmaVerif.Proofs.LzmaWriter

namespace LzmaVerif.Props.C02Fast
open LzmaVerif Mf Lzma EncFast LzmaWriter LzipWriter LzipFile

/-- the constants regenerated from /repo's source (`Generated/MfParams.lean`) -/
def genConsts : MfConsts := { hc4 := MfGen.hc4Params, bt4 := MfGen.bt4Params, fast := MfGen.fastParams }

/-! ## (W1) LZIP -/

/-- `LZMAWriter::new` accepts the options `LZIPWriter` passes on iff `nice_len` is in range -/
theorem lzip_opts_valid (o : LzipOpts) (hn : 8 ≤ o.nice ∧ o.nice ≤ 273) : (lzmaOpts o).valid = true := by
  have hb := effDict_bounds o
  rw [valid_iff]
  simp only [lzmaOpts]
  omega

/-- … and refuses them otherwise (the model answers `none`, the real writer `InvalidInput`) -/
theorem lzip_opts_invalid (K : MfConsts) (o : LzipOpts) (hn : ¬ (8 ≤ o.nice ∧ o.nice ≤ 273)) (d : Array UInt8) :
    lzipFastBytes K o d = none := by
  have : (lzmaOpts o).valid = false := by
    cases h : (lzmaOpts o).valid with
    | false => rfl
    | true => exact absurd ((valid_iff _).mp h).2.2 hn
  simp [lzipFastBytes, this]

/-- **(W1)** -/
theorem lzip_fast_file_roundtrip (K : MfConsts) (hH : K.hc4.ok) (hP : K.fast.ok)
    (o : LzipOpts) (ho : o.bt4 = false) (hn : 8 ≤ o.nice ∧ o.nice ≤ 273)
    (d : Array UInt8) (hsz : d.size < 2 ^ 64) :
    ∃ bytes, lzipFastBytes K o d = some bytes ∧
      (bytes.length < 2 ^ 64 →
        ∀ (trailing : List Nat), trailing.take 4 ≠ Consts.LZIP_MAGIC → TrailingOk trailing →
        ∀ (cap : Nat), d.size ≤ cap →
          ∃ recs, LzipFile.decode (bytes ++ trailing) cap
              = .ok (bytesOf d) (bytes.length + min 4 trailing.length) recs ∧
            recs.length = (memberSizes o d.size).length) := by
  have hb := effDict_bounds o
  obtain ⟨db, dict', henc, _, hdec, hge, _⟩ := Props.C02.lzipDict (effDict o) hb.1 hb.2
  let ms := (chunks o d).map (emember K o db)
  have hbytes : lzipFastBytes K o d = some (fileBytes (wireMembers ms)) := by
    simp only [lzipFastBytes, lzip_opts_valid o hn, Bool.not_true, Bool.false_eq_true, if_false, henc]
    exact membersFast_eq K hH hP o ho db dict' hdec hge (chunks o d)
  refine ⟨_, hbytes, ?_⟩
  intro hlen trailing ht ht2 cap hcap
  have hne : ms ≠ [] := by
    intro h
    exact chunks_ne_nil o d (List.map_eq_nil_iff.mp h)
  have hm : ∀ m ∈ ms, m.Ok := by
    intro m hmem
    obtain ⟨c, hc, rfl⟩ := List.mem_map.mp hmem
    have hcs := chunks_size o d c hc
    refine ⟨bytesOf_bytes c, ⟨dict', hdec⟩, ⟨Nat.le_refl 2, (by decide : 2 ≤ 273)⟩,
      emember_parse K hH hP o ho db dict' hdec hge c, ?_, ?_⟩
    · show (bytesOf c).length < 2 ^ 64
      rw [bytesOf_length]; omega
    · have := member_length_le ms _ hmem
      omega
  have hdata : membersData ms = bytesOf d := membersData_chunks K o db d
  have h := lzip_end_to_end ms hne hm trailing ht ht2 cap (by rw [hdata, bytesOf_length]; exact hcap)
  rw [hdata] at h
  refine ⟨_, h, ?_⟩
  simp [fileRecs, wireMembers, ms, chunks, cutAt_length]

/-- (W1) without trailing bytes: exact consumption -/
theorem lzip_fast_file_roundtrip_exact (K : MfConsts) (hH : K.hc4.ok) (hP : K.fast.ok)
    (o : LzipOpts) (ho : o.bt4 = false) (hn : 8 ≤ o.nice ∧ o.nice ≤ 273)
    (d : Array UInt8) (hsz : d.size < 2 ^ 64) :
    ∃ bytes, lzipFastBytes K o d = some bytes ∧
      (bytes.length < 2 ^ 64 → ∀ (cap : Nat), d.size ≤ cap →
        ∃ recs, LzipFile.decode bytes cap = .ok (bytesOf d) bytes.length recs) := by
  obtain ⟨bytes, hb, h⟩ := lzip_fast_file_roundtrip K hH hP o ho hn d hsz
  refine ⟨bytes, hb, ?_⟩
  intro hlen cap hcap
  obtain ⟨recs, hr, _⟩ := h hlen [] (by decide) trailingOk_nil cap hcap
  exact ⟨recs, by simpa using hr⟩

/-- (W1) for the parameters regenerated from the source -/
theorem lzip_fast_file_roundtrip_generated (o : LzipOpts) (ho : o.bt4 = false) (hn : 8 ≤ o.nice ∧ o.nice ≤ 273)
    (d : Array UInt8) (hsz : d.size < 2 ^ 64) :
    ∃ bytes, lzipFastBytes genConsts o d = some bytes ∧
      (bytes.length < 2 ^ 64 → ∀ (cap : Nat), d.size ≤ cap →
        ∃ recs, LzipFile.decode bytes cap = .ok (bytesOf d) bytes.length recs) :=
  lzip_fast_file_roundtrip_exact genConsts Props.C01Mf.generated_hc4_params_ok Props.C01Fast.generated_fast_params_ok
    o ho hn d hsz

/-! ## (W2) `.lzma` with header -/

theorem header_length (o : FastOpts) (expected : Option Nat) : (header o expected).length = 13 := by
  rw [header_eq]; rfl

/-- the dictionary buffer the reader derives from the header holds every distance the encoder can use -/
theorem aloneDictBuf_ge (o : FastOpts) (hd1 : 1 ≤ o.dict) (hd2 : o.dict ≤ 2 ^ 30) (expected : Option Nat) (n : Nat)
    (he : expected = some n ∨ expected = none) : min o.dict n ≤ aloneDictBuf o expected := by
  have hh := (hdrDict_bounds o.dict hd1 hd2).1
  have hnone := le_readerDictBuf_none (hdrDict o.dict)
  unfold aloneDictBuf
  rcases he with rfl | rfl
  · simp only [Option.getD_some]
    by_cases hn : n ≤ 2 ^ 63 - 1
    · rw [if_pos hn]
      have := Props.C01Fast.readerDictBuf_ge (hdrDict o.dict) n
      omega
    · rw [if_neg hn]; omega
  · simp only [Option.getD_none]
    rw [if_neg (by omega)]; omega

/-- **(W2), declared size** (`LZMAWriter::new_use_header(out, opts, Some(data.len()))`): the reader model, which takes
    lc/lp/pb, dictionary size and size from the header, returns exactly the data and consumes exactly the file -/
theorem lzma_alone_fast_roundtrip_size (K : MfConsts) (hH : K.hc4.ok) (hP : K.fast.ok)
    (o : FastOpts) (ho : o.bt4 = false) (hv : o.valid = true) (d : Array UInt8) (hsz : d.size < 2 ^ 64 - 1)
    (rest : List Nat) (cap : Nat) :
    ∃ bytes, lzmaAloneFastBytes K o false (some d.size) d = some bytes ∧
      decodeAlone #[] (bytes ++ rest) cap = .ok (d.map (fun b => b.toNat)) bytes.length (fastParseOf K o d) := by
  obtain ⟨_, ⟨hd1, hd2⟩, _⟩ := (valid_iff o).mp hv
  obtain ⟨raw, hraw, hdec⟩ := rawBytes_size_rt o.params K hH hP o ho (aloneDictBuf o (some d.size)) d (by omega)
    (aloneDictBuf_ge o (by omega) (by omega) _ d.size (Or.inl rfl)) (by omega) rest cap
  refine ⟨header o (some d.size) ++ raw, ?_, ?_⟩
  · simp [lzmaAloneFastBytes, hv, hraw]
  · rw [List.append_assoc, decodeAlone_header o hv (some d.size) (by simp only [Option.getD_some]; omega)]
    simp only [Option.getD_some]
    rw [if_neg (by omega), hdec, List.length_append, header_length]
    simp only [Nat.add_comm]

/-- **(W2), end marker** (`LZMAWriter::new_use_header(out, opts, None)`: size field `u64::MAX`, end marker) -/
theorem lzma_alone_fast_roundtrip_marker (K : MfConsts) (hH : K.hc4.ok) (hP : K.fast.ok)
    (o : FastOpts) (ho : o.bt4 = false) (hv : o.valid = true) (d : Array UInt8) :
    ∃ bytes, lzmaAloneFastBytes K o true none d = some bytes ∧
      ∀ (rest : List Nat) (cap : Nat), d.size ≤ cap →
        decodeAlone #[] (bytes ++ rest) cap
          = .ok (d.map (fun b => b.toNat)) bytes.length (fastParseOf K o d ++ [endMarker]) := by
  obtain ⟨_, ⟨hd1, hd2⟩, _⟩ := (valid_iff o).mp hv
  have hbuf : aloneDictBuf o none ≤ END_DIST := by
    have := (hdrDict_bounds o.dict (by omega) (by omega)).2
    simp only [aloneDictBuf, Option.getD_none, lzmaReaderDictBuf, lzmaDictBuf, END_DIST]
    rw [if_neg (by omega)]
    simp only
    omega
  obtain ⟨raw, hraw, hdec⟩ := rawBytes_marker_rt o.params K hH hP o ho (aloneDictBuf o none) d (by omega)
    (aloneDictBuf_ge o (by omega) (by omega) _ d.size (Or.inr rfl)) (by omega) hbuf
  refine ⟨header o none ++ raw, ?_, ?_⟩
  · simp [lzmaAloneFastBytes, hv, hraw]
  · intro rest cap hcap
    rw [List.append_assoc, decodeAlone_header o hv none (by simp only [Option.getD_none]; omega)]
    simp only [Option.getD_none, if_true]
    rw [hdec rest cap hcap, List.length_append, header_length]
    simp only [Nat.add_comm]

/-- the writer refuses options out of range and a declared size that differs from the number of bytes written -/
theorem lzma_alone_refuses (K : MfConsts) (o : FastOpts) (marker : Bool) (expected : Option Nat) (d : Array UInt8)
    (h : o.valid = false ∨ ∃ e, expected = some e ∧ e ≠ d.size) : lzmaAloneFastBytes K o marker expected d = none := by
  rcases h with h | ⟨e, rfl, hne⟩
  · simp [lzmaAloneFastBytes, h]
  · cases hv : o.valid <;> simp [lzmaAloneFastBytes, hv, hne]

/-! ## (W3) raw LZMA1 streams (`new_no_header`) -/

/-- **(W3), no end marker**; the reader is `LZMAReader::new(.., data.len(), lc, lp, pb, dict_size, None)` -/
theorem lzma_raw_fast_roundtrip_size (K : MfConsts) (hH : K.hc4.ok) (hP : K.fast.ok)
    (o : FastOpts) (ho : o.bt4 = false) (hv : o.valid = true) (d : Array UInt8) (rest : List Nat) (cap : Nat) :
    ∃ bytes, lzmaRawFastBytes K o false d = some bytes ∧
      decodeRaw o.params (lzmaReaderDictBuf o.dict (some d.size) 0) #[] (some d.size) (bytes ++ rest) cap
        = .ok (d.map (fun b => b.toNat)) bytes.length (fastParseOf K o d) := by
  obtain ⟨_, ⟨hd1, hd2⟩, _⟩ := (valid_iff o).mp hv
  obtain ⟨raw, hraw, hdec⟩ := rawBytes_size_rt o.params K hH hP o ho (lzmaReaderDictBuf o.dict (some d.size) 0) d
    (by omega) (Props.C01Fast.readerDictBuf_ge o.dict d.size) (by omega) rest cap
  exact ⟨raw, by simp [lzmaRawFastBytes, hv, hraw], hdec⟩

/-- **(W3), end marker**; the reader is `LZMAReader::new(.., u64::MAX, lc, lp, pb, dict_size, None)` -/
theorem lzma_raw_fast_roundtrip_marker (K : MfConsts) (hH : K.hc4.ok) (hP : K.fast.ok)
    (o : FastOpts) (ho : o.bt4 = false) (hv : o.valid = true) (d : Array UInt8) :
    ∃ bytes, lzmaRawFastBytes K o true d = some bytes ∧
      ∀ (rest : List Nat) (cap : Nat), d.size ≤ cap →
        decodeRaw o.params (lzmaReaderDictBuf o.dict none 0) #[] none (bytes ++ rest) cap
          = .ok (d.map (fun b => b.toNat)) bytes.length (fastParseOf K o d ++ [endMarker]) := by
  obtain ⟨_, ⟨hd1, hd2⟩, _⟩ := (valid_iff o).mp hv
  have hbuf : lzmaReaderDictBuf o.dict none 0 ≤ END_DIST := by
    simp only [lzmaReaderDictBuf, lzmaDictBuf, END_DIST]; omega
  have hge := le_readerDictBuf_none o.dict
  obtain ⟨raw, hraw, hdec⟩ := rawBytes_marker_rt o.params K hH hP o ho (lzmaReaderDictBuf o.dict none 0) d
    (by omega) (by omega) (by omega) hbuf
  exact ⟨raw, by simp [lzmaRawFastBytes, hv, hraw], hdec⟩

/-- (W2) for the parameters regenerated from the source -/
theorem lzma_alone_fast_roundtrip_generated (o : FastOpts) (ho : o.bt4 = false) (hv : o.valid = true)
    (d : Array UInt8) (hsz : d.size < 2 ^ 64 - 1) (rest : List Nat) (cap : Nat) (hcap : d.size ≤ cap) :
    (∃ bytes, lzmaAloneFastBytes genConsts o false (some d.size) d = some bytes ∧
      decodeAlone #[] (bytes ++ rest) cap = .ok (d.map (fun b => b.toNat)) bytes.length (fastParseOf genConsts o d)) ∧
    (∃ bytes, lzmaAloneFastBytes genConsts o true none d = some bytes ∧
      decodeAlone #[] (bytes ++ rest) cap
        = .ok (d.map (fun b => b.toNat)) bytes.length (fastParseOf genConsts o d ++ [endMarker])) := by
  have hH := Props.C01Mf.generated_hc4_params_ok
  have hP := Props.C01Fast.generated_fast_params_ok
  refine ⟨lzma_alone_fast_roundtrip_size genConsts hH hP o ho hv d hsz rest cap, ?_⟩
  obtain ⟨bytes, hb, h⟩ := lzma_alone_fast_roundtrip_marker genConsts hH hP o ho hv d
  exact ⟨bytes, hb, h rest cap hcap⟩

/-! ## non-vacuity -/

/-- "HiHiHi" -/
def w0 : Array UInt8 := #[72, 105, 72, 105, 72, 105]

/-- the hypotheses are satisfiable: the theorems instantiated at the real constants (defaults of `MfConsts` = the
    current source) and at concrete options: off-grid dictionary 5000, `member_size = 1` (raised to the dictionary
    size), the 26-byte sample of `C01Fast` -/
example := lzip_fast_file_roundtrip {} (by decide) (by decide) { dict := 5000, nice := 32, memberSize := some 1 } rfl
  (by decide) Props.C01Fast.w1 (by decide)
example := lzip_fast_file_roundtrip_generated { dict := 65536, nice := 273, depth := 48 } rfl (by decide) w0 (by decide)
example := lzma_alone_fast_roundtrip_size {} (by decide) (by decide) { dict := 5000, lc := 3, lp := 0, pb := 2, nice := 32 }
  rfl (by decide) Props.C01Fast.w1 (by decide) [1, 2, 3] 100
example := lzma_alone_fast_roundtrip_marker {} (by decide) (by decide) { dict := 4096, lc := 8, lp := 4, pb := 4, nice := 8 }
  rfl (by decide) Props.C01Fast.w1
example := lzma_raw_fast_roundtrip_marker {} (by decide) (by decide) { dict := 4096, lc := 0, lp := 0, pb := 0, nice := 273 }
  rfl (by decide) w0

/-- the small hash tables of `Hc4.tinyHash`, so that the kernel can evaluate whole runs of the writer models -/
def tiny : MfConsts := { hc4 := { hash := Hc4.tinyHash } }

/-- … and the pieces of the conclusions are attained by the executable models (whole files are evaluated by the
    compiled driver against the real writers on every run; in the kernel the probability arrays make that slow):
    the parse of "HiHiHi" under the options `LZIPWriter` passes on … -/
example : fastParseOf tiny (lzmaOpts { dict := 100, nice := 32 }) w0 = [.lit 72, .lit 105, .mtch 1 4] := by
  decide +kernel

/-- … the dictionary byte: 100 is clamped to 4096 (byte 12), 5000 is announced as 5120 = 2^13 - 6 * 2^9 -/
example : Lzip.encodeDict (effDict { dict := 100, nice := 32 }) = some 12 ∧
    Lzip.encodeDict (effDict { dict := 5000, nice := 32 }) = some (6 * 32 + 13) ∧
    Lzip.decodeDict (6 * 32 + 13) = some 5120 := by decide +kernel

/-- … the splitter: 10 000 bytes, `member_size = 1` raised to the dictionary size 4096: three members;
    an empty input still gives one (empty) member; without `member_size` one member -/
example : memberSizes { dict := 100, nice := 32, memberSize := some 1 } 10000 = [4096, 4096, 1808] ∧
    memberSizes { dict := 100, nice := 32, memberSize := some 1 } 0 = [0] ∧
    memberSizes { dict := 100, nice := 32 } 10000 = [10000] := by decide +kernel

/-- … the layout of one member around its stream (the 39 bytes the real `LZIPWriter` writes for "HiHiHi") -/
example : memberBytes 12 [0x00, 0x24, 0x1a, 0x5e, 0x06, 0x10, 0x7b, 0xdf, 0xff, 0xfe, 0xf8, 0x40, 0x00] (bytesOf w0) =
    [0x4c, 0x5a, 0x49, 0x50, 0x01, 0x0c, 0x00, 0x24, 0x1a, 0x5e, 0x06, 0x10, 0x7b, 0xdf, 0xff, 0xfe, 0xf8, 0x40, 0x00,
     0x12, 0xa0, 0x83, 0xd3, 0x06, 0, 0, 0, 0, 0, 0, 0, 0x27, 0, 0, 0, 0, 0, 0, 0] := by decide +kernel

/-- … the `.lzma` header for lc/lp/pb = 3/0/2, dictionary 5000 (announced as 6144 = 2^12 + 2^11), declared size 6 /
    no declared size -/
example : header { dict := 5000, lc := 3, lp := 0, pb := 2, nice := 32 } (some 6) =
      [0x5d, 0x00, 0x18, 0x00, 0x00, 6, 0, 0, 0, 0, 0, 0, 0] ∧
    header { dict := 5000, lc := 3, lp := 0, pb := 2, nice := 32 } none =
      [0x5d, 0x00, 0x18, 0x00, 0x00, 0xff, 0xff, 0xff, 0xff, 0xff, 0xff, 0xff, 0xff] := by decide +kernel

/-- the hypotheses matter: `nice_len = 7` is refused (`LZMAOptions::validate`), a wrong declared size is refused -/
example : lzipFastBytes tiny { dict := 4096, nice := 7 } w0 = none ∧
    lzmaAloneFastBytes tiny { dict := 5000, lc := 3, lp := 0, pb := 2, nice := 32 } false (some 5) w0 = none := by
  decide +kernel

/-- the header dictionary size: 2^n or 2^n + 2^(n-1), never below the encoder's -/
example : hdrDict 4096 = 4096 ∧ hdrDict 4097 = 6144 ∧ hdrDict 5000 = 6144 ∧ hdrDict 6145 = 8192 ∧
    hdrDict (768 * 1024 * 1024) = 768 * 1024 * 1024 ∧ hdrDict (768 * 1024 * 1024 + 1) = 2 ^ 30 ∧
    hdrDict (2 ^ 32 - 16) = 2 ^ 32 - 1 := by decide +kernel

end LzmaVerif.Props.C02Fast
