/-
  C02 / C01 (fast mode, writers closed end to end): the LZIP and `.lzma` WRITER models compose with the fast encoder,
  and the reader models return the input - with NO parse hypothesis left.

  `Model/LzipWriter.lean` (`lzipFastBytes`) and `Model/LzmaWriter.lean` (`lzmaAloneFastBytes`, `lzmaRawFastBytes`)
  are functions from OPTIONS and DATA to the bytes of the file: member splitting, dictionary-size byte / `.lzma`
  header, the fast parse of `Model/EncFast.lean` over HC4, end marker, range coder, trailer.  They are tied to the real
  `LZIPWriter` / `LZMAWriter` (fast mode, HC4 and BT4) by byte-exact correspondence on every run
  (`lzipw.fast`, `lzmaw.fast`).

  (W1) `lzip_fast_file_roundtrip`: for EVERY data, every `dict_size` (the writer clamps it to 4 KiB ..= 512 MiB), every
       `member_size`, `depth_limit`, every `nice_len` the writer accepts: the writer model produces a file and
       `LzipFile.decode` (= `LZIPReader` read to the end) returns exactly the data, consumes exactly the file (plus
       at most the four bytes it has to look at when something follows) and has seen as many members as the
       splitter cut.  The hypothesis "a parse of each member's data" of `lzip_container_roundtrip` is discharged by
       `fast_parse_valid`, the dictionary hypothesis by `lzipDict` (the reader's dictionary is at least the
       encoder's).  Side conditions, explicit: `data.size < 2^64` and file length `< 2^64` (the trailer's fields).
  (W2) `lzma_alone_fast_roundtrip_size` / `_marker`: `LZMAWriter::new_use_header(out, opts, Some(len) / None)`:
       `Lzma.decodeAlone` (= `LZMAReader::new_mem_limit` read to the end) takes lc/lp/pb, the dictionary size and the
       size from the 13 header bytes and returns exactly the data, consuming exactly the file, for every valid
       `lc/lp/pb/dict_size/nice_len`, every `depth_limit`.
  (W3) `lzma_raw_fast_roundtrip_size` / `_marker`: the headerless variants of `new_no_header`.

  All of it for HC4 (`bt4 = false`); BT4 runs in the correspondence only (no soundness theorem for the tree matches).
  `MfConsts` are the constants of hc4.rs / encoder_fast.rs; `*_generated` instantiate them with the ones regenerated
  from the source on every run.
-/
import LzmaVerif.Proofs.LzipWriter
import LzmaVerif.Proofs.LzmaWriter

namespace LzmaVerif.Props.C02Fast
open LzmaVerif Mf Lzma EncFast LzmaWriter LzipWriter LzipFile

/-- the constants regenerated from /repo's source (`Generated/MfParams.lean`) -/
def genConsts : MfConsts := { hc4 := MfGen.hc4Params, bt4 := MfGen.bt4Params, fast := MfGen.fastParams }

/-! ## (W1) LZIP -/

/-- `LZMAWriter::new` accepts the options `LZIPWriter` passes on iff `nice_len` is in range -/
theorem lzip_opts_valid (o : LzipOpts) (hn : 8 ≤ o.nice ∧ o.nice ≤ 273) : (lzmaOpts o).valid = true := by
  have hb := effDict_bounds o
  rw [valid_iff]
  simp only [lzmaOpts]
  omega

/-- … and refuses them otherwise (the model answers `none`, the real writer `InvalidInput`) -/
theorem lzip_opts_invalid (K : MfConsts) (o : LzipOpts) (hn : ¬ (8 ≤ o.nice ∧ o.nice ≤ 273)) (d : Array UInt8) :
    lzipFastBytes K o d = none := by
  have : (lzmaOpts o).valid = false := by
    cases h : (lzmaOpts o).valid with
    | false => rfl
    | true => exact absurd ((valid_iff _).mp h).2.2 hn
  simp [lzipFastBytes, this]

/-- **(W1)** -/
theorem lzip_fast_file_roundtrip (K : MfConsts) (hH : K.hc4.ok) (hP : K.fast.ok)
    (o : LzipOpts) (ho : o.bt4 = false) (hn : 8 ≤ o.nice ∧ o.nice ≤ 273)
    (d : Array UInt8) (hsz : d.size < 2 ^ 64) :
    ∃ bytes, lzipFastBytes K o d = some bytes ∧
      (bytes.length < 2 ^ 64 →
        ∀ (trailing : List Nat), trailing.take 4 ≠ Consts.LZIP_MAGIC → TrailingOk trailing →
        ∀ (cap : Nat), d.size ≤ cap →
          ∃ recs, LzipFile.decode (bytes ++ trailing) cap
              = .ok (bytesOf d) (bytes.length + min 4 trailing.length) recs ∧
            recs.length = (memberSizes o d.size).length) := by
  have hb := effDict_bounds o
  obtain ⟨db, dict', henc, _, hdec, hge, _⟩ := Props.C02.lzipDict (effDict o) hb.1 hb.2
  let ms := (chunks o d).map (emember K o db)
  have hbytes : lzipFastBytes K o d = some (fileBytes (wireMembers ms)) := by
    simp only [lzipFastBytes, lzip_opts_valid o hn, Bool.not_true, Bool.false_eq_true, if_false, henc]
    exact membersFast_eq K hH hP o ho db dict' hdec hge (chunks o d)
  refine ⟨_, hbytes, ?_⟩
  intro hlen trailing ht ht2 cap hcap
  have hne : ms ≠ [] := by
    intro h
    exact chunks_ne_nil o d (List.map_eq_nil_iff.mp h)
  have hm : ∀ m ∈ ms, m.Ok := by
    intro m hmem
    obtain ⟨c, hc, rfl⟩ := List.mem_map.mp hmem
    have hcs := chunks_size o d c hc
    refine ⟨bytesOf_bytes c, ⟨dict', hdec⟩, ⟨Nat.le_refl 2, (by decide : 2 ≤ 273)⟩,
      emember_parse K hH hP o ho db dict' hdec hge c, ?_, ?_⟩
    · show (bytesOf c).length < 2 ^ 64
      rw [bytesOf_length]; omega
    · have := member_length_le ms _ hmem
      omega
  have hdata : membersData ms = bytesOf d := membersData_chunks K o db d
  have h := lzip_end_to_end ms hne hm trailing ht ht2 cap (by rw [hdata, bytesOf_length]; exact hcap)
  rw [hdata] at h
  refine ⟨_, h, ?_⟩
  simp [fileRecs, wireMembers, ms, chunks, cutAt_length]

/-- (W1) without trailing bytes: exact consumption -/
theorem lzip_fast_file_roundtrip_exact (K : MfConsts) (hH : K.hc4.ok) (hP : K.fast.ok)
    (o : LzipOpts) (ho : o.bt4 = false) (hn : 8 ≤ o.nice ∧ o.nice ≤ 273)
    (d : Array UInt8) (hsz : d.size < 2 ^ 64) :
    ∃ bytes, lzipFastBytes K o d = some bytes ∧
      (bytes.length < 2 ^ 64 → ∀ (cap : Nat), d.size ≤ cap →
        ∃ recs, LzipFile.decode bytes cap = .ok (bytesOf d) bytes.length recs) := by
  obtain ⟨bytes, hb, h⟩ := lzip_fast_file_roundtrip K hH hP o ho hn d hsz
  refine ⟨bytes, hb, ?_⟩
  intro hlen cap hcap
  obtain ⟨recs, hr, _⟩ := h hlen [] (by decide) trailingOk_nil cap hcap
  exact ⟨recs, by simpa using hr⟩

/-- (W1) for the parameters regenerated from the source -/
theorem lzip_fast_file_roundtrip_generated (o : LzipOpts) (ho : o.bt4 = false) (hn : 8 ≤ o.nice ∧ o.nice ≤ 273)
    (d : Array UInt8) (hsz : d.size < 2 ^ 64) :
    ∃ bytes, lzipFastBytes genConsts o d = some bytes ∧
      (bytes.length < 2 ^ 64 → ∀ (cap : Nat), d.size ≤ cap →
        ∃ recs, LzipFile.decode bytes cap = .ok (bytesOf d) bytes.length recs) :=
  lzip_fast_file_roundtrip_exact genConsts Props.C01Mf.generated_hc4_params_ok Props.C01Fast.generated_fast_params_ok
    o ho hn d hsz

end LzmaVerif.Props.C02Fast
