/-
  C01 (match finder BT4): headline theorems about the executable model `LzmaVerif/Model/Bt4.lean` of
  src/lz/bt4.rs (+ hash234.rs, `move_pos` / `get_byte*` / `Matches` of lz_encoder.rs).

  The model is compared with the real code on every run through the hook `verif_hooks::mf_trace`
  (driver request `mf.trace kind=bt4 ...`, `Driver/MfBt4.lean`); the theorems hold for EVERY parameter
  instance `P` with `P.ok` (a translator regenerates `P` from the Rust source), every dictionary size,
  every input and every script of `find_matches()` / `skip(n)` calls.
-/
import LzmaVerif.Proofs.Bt4Access
import LzmaVerif.Proofs.Bt4Tree
import LzmaVerif.Proofs.Bt4BstInv
namespace LzmaVerif.Mf.Bt4

/-- (B1) every state reachable by a script of finds and skips satisfies the invariant `Inv`: every
    hash-table / tree entry is 0 or the `lz_pos` of an inserted position, hash2 / hash3 slots hold positions
    with that hash value, array sizes, `cyclic_pos < cyclic_size`, `lz_pos = inserted + cyclic_size`
    (`= p + cyclic_size + 1` while searching position `p`); and the normalisation point is never reached. -/
theorem bt4_inv_reachable {P : Bt4Params} {c : Cfg} {data : Array UInt8} (hH : Hyp P c data)
    (script : List Nat) (logging : Bool) :
    Inv P c data (runScript P c data script logging).1 ∧
    (runScript P c data script logging).1.lzPos < 0x7FFFFFFF :=
  ⟨runScript_inv hH script logging, (runScript_inv hH script logging).noNorm hH⟩

/-- (B2) in every reachable state, every match `(len, dist)` reported by `find` at logical position `p`
    has `2 ≤ len ≤ min mlmax (data.size - p)`, `dist + 1 ≤ p`, `dist + 1 ≤ dict`; the lengths strictly
    increase; there are at most `niceLen - 1` matches (capacity of `Matches::new(nice_len - 1)`).
    `Hyp` asks for `3 ≤ niceLen` and `3 ≤ mlmax`: with `niceLen = 2` the real code panics
    (bt4.rs:187, index 1 of a 1-element `Matches`), with `mlmax = 2` it reports a length-3 match. -/
theorem bt4_find_bounds {P : Bt4Params} {c : Cfg} {data : Array UInt8} (hH : Hyp P c data)
    (script : List Nat) (logging : Bool) :
    let s := (runScript P c data script logging).1
    (∀ m ∈ (find P c data s).2.toList,
      2 ≤ m.1 ∧ m.1 ≤ min c.mlmax (data.size - s.pos) ∧ m.2 + 1 ≤ s.pos ∧ m.2 + 1 ≤ c.dict) ∧
    lensIncreasing (find P c data s).2.toList = true ∧
    (find P c data s).2.size ≤ c.niceLen - 1 :=
  find_bounds hH (runScript_inv hH script logging)

/-- (B3) the matches that come from the hash2 / hash3 candidates (the first 0, 1 or 2 reported entries)
    are real repetitions: full `Mf.ValidMatch` -/
theorem bt4_hash_candidates_valid {P : Bt4Params} {c : Cfg} {data : Array UInt8} (hH : Hyp P c data)
    (script : List Nat) (logging : Bool) :
    let s := (runScript P c data script logging).1
    hashCandMatches P c data s <+: (find P c data s).2.toList ∧
    ∀ m ∈ hashCandMatches P c data s, ValidMatch data c.dict s.pos (min c.mlmax (data.size - s.pos)) m :=
  ⟨hashCandMatches_prefix hH _, hash_candidates_valid hH (runScript_inv hH script logging)⟩

/-- (B4) with the access log switched on, every access made during any script and one more `find` /
    `skip(n)` is in bounds (`AccessOk`): hash slots, `tree[ptr0]`, `tree[ptr1]`, `tree[pair]`,
    `tree[pair+1]` inside their arrays; every byte read inside `data` (and not further back than the
    dictionary); every `extend_match` call within its contract.  So `find_matches` / `skip` cannot panic
    on an index.  Needs `4 ≤ nice_len ≤ match_len_max` (`HypA`). -/
theorem bt4_indices_in_bounds {P : Bt4Params} {c : Cfg} {data : Array UInt8} (hA : HypA P c data)
    (script : List Nat) :
    ∀ l, (runScript P c data script true).1.log = some l → ∀ a ∈ l, AccessOk P c data a :=
  runScript_log hA script

/-- **(B5)** every match `find` reports in every reachable state - the hash candidates AND the matches of the
    binary-tree descent, for EVERY `depth_limit`, every input, every dictionary size and every script of
    `find_matches()` / `skip(n)` calls - is a real repetition from its first byte (`Mf.ValidMatch`, the notion of
    `hc4_generated_sound`): `data[p + i] = data[p - dist - 1 + i]` for `i < len`, inside data and dictionary,
    `2 ≤ len ≤ min mlmax avail`.  The tree walk only compares from `min(len0, len1)` on (bt4.rs:241-249); the
    first `min(len0, len1)` bytes agree because of the binary-search-tree invariant `BInv` / `TInv`
    (`Proofs/Bt4Bst.lean`): for every live node, everything still reachable through its first / second child slot
    is older and not larger / not smaller in the lexicographic order truncated to the node's `nice_len_limit`;
    a descent makes the new node the root and otherwise only removes paths, stale slots are never followed
    because of the `delta >= cyclic_size` test.
    Hypotheses (`HypA`, all decidable): `P.ok` (constants / comparison shapes of bt4.rs and hash234.rs),
    `1 ≤ dict`, `data.size + dict + 2 < 2^31` (no renormalisation), `3 ≤ mlmax`,
    `minAvailFinishing (= 4) ≤ nice_len ≤ mlmax` (the crate enforces `8 ≤ nice_len ≤ 273 = mlmax`). -/
theorem bt4_tree_matches_valid {P : Bt4Params} {c : Cfg} {data : Array UInt8} (hA : HypA P c data)
    (script : List Nat) (logging : Bool) :
    let s := (runScript P c data script logging).1
    ∀ m ∈ (find P c data s).2.toList, ValidMatch data c.dict s.pos (min c.mlmax (data.size - s.pos)) m :=
  (find_bst hA (runScript_inv hA.toHyp script logging) (runScript_binv hA script logging)).2

/-- (B5') the tree invariant itself holds in every reachable state -/
theorem bt4_bst_reachable {P : Bt4Params} {c : Cfg} {data : Array UInt8} (hA : HypA P c data)
    (script : List Nat) (logging : Bool) : BInv P c data (runScript P c data script logging).1 :=
  runScript_binv hA script logging

/-- (B5 for `depth_limit = 1`, under the weaker `Hyp`: also `nice_len = 3` and `nice_len > mlmax`) -/
theorem bt4_tree_matches_valid_partial {P : Bt4Params} {c : Cfg} {data : Array UInt8} (hH : Hyp P c data)
    (script : List Nat) (logging : Bool) (hdepth : depthLimit P c = 1) :
    let s := (runScript P c data script logging).1
    ∀ m ∈ (find P c data s).2.toList, ValidMatch data c.dict s.pos (min c.mlmax (data.size - s.pos)) m :=
  tree_matches_valid_partial hH (runScript_inv hH script logging) hdepth

/-- the checker route for (B5): what the driver verifies for every real trace (`check=1`) -/
theorem bt4_checked_match_valid (d : Array UInt8) (dict p limit : Nat) (m : Match)
    (h : validMatchB d dict p limit m = true) : ValidMatch d dict p limit m :=
  validMatchB_sound d dict p limit m h

/-! ### the hypotheses are satisfiable -/

def wHashT : HashParams := { hash2Size := 256, hash3Size := 256, h4Floor := 0xFF }
def exCfg : Cfg := { dict := 4096, niceLen := 32, mlmax := 273, depth := 0 }
def exData : Array UInt8 := #[97, 98, 99, 97, 98, 99, 97, 98, 99, 97, 98, 120, 97, 98, 99, 97, 98, 99, 100, 101]

example : ({} : Bt4Params).ok := by decide
example : Hyp {} exCfg exData := ⟨by decide, by decide, by decide, by decide, by decide⟩
example : HypA {} exCfg exData := ⟨⟨by decide, by decide, by decide, by decide, by decide⟩, by decide, by decide⟩
example : Inv {} exCfg exData (runScript {} exCfg exData [0, 0, 0, 2, 0, 0] false).1 :=
  (bt4_inv_reachable ⟨by decide, by decide, by decide, by decide, by decide⟩ _ _).1
example : depthLimit {} { exCfg with depth := 1 } = 1 := by decide

/-- (B5) is not vacuous: default depth (16 + 8/2 = 20 levels), dictionary 64; after `skip(28)` the `find` at
    position 28 reports a hash candidate (length 6) and a longer match found in the TREE (length 7, distance 22),
    both covered by `bt4_tree_matches_valid` (small hash tables so that the kernel can evaluate the run; `#eval`
    gives the same trace with the real table sizes) -/
def tData : Array UInt8 :=
  #[97, 98, 99, 100, 101, 67, 95, 97, 98, 99, 100, 101, 65, 95, 97, 98, 99, 100, 101, 66, 95, 97, 98, 99, 100, 101,
    66, 66, 95, 97, 98, 99, 100, 101, 65, 90, 95, 97, 98, 99, 100, 101, 66, 65, 95, 95]
example : HypA {} ⟨64, 8, 273, 0⟩ tData :=
  ⟨⟨by decide, by decide, by decide, by decide, by decide⟩, by decide, by decide⟩
example : (runScript { hash := wHashT } ⟨64, 8, 273, 0⟩ tData [28, 0]).2 = [(28, [(6, 7), (7, 21)])] := by
  decide +kernel

/-! ### the parameters matter -/

def wData : Array UInt8 := #[97, 98, 99, 100, 101, 102, 103, 104, 105, 97, 98, 120, 121]
/-- small tables so that the kernel can evaluate the run (`#eval` gives the same two results with the
    real table sizes) -/
def wHash : HashParams := { hash2Size := 256, hash3Size := 256, h4Floor := 0xFF }

/-- with `delta2 <= cyclic_size` instead of `<`: dictionary size 8, and `find` at position 9 reports a match
    with `dist + 1 = 9 = dict + 1` — outside the dictionary -/
theorem bt4_d2Strict_matters :
    (runScript { d2Strict := false, hash := wHash } ⟨8, 8, 273, 0⟩ wData [9, 0]).2 = [(9, [(2, 8)])] ∧
    (runScript { hash := wHash } ⟨8, 8, 273, 0⟩ wData [9, 0]).2 = [(9, [])] := by
  decide +kernel

end LzmaVerif.Mf.Bt4
