import LzmaVerif.Proofs.MT
import LzmaVerif.Model.MTTrace
import LzmaVerif.Model.MTTraceW
import LzmaVerif.Proofs.MTTrace
/-!
# C08 / C09 / C10 — validated executions of the real MT readers are paths of the protocol LTS

`Model/MTTrace.lean` replays the protocol event log that the real `LZMA2ReaderMT` / `LZIPReaderMT`
write under the shuttle runtime (one `mt.trace` request per explored schedule, answered by `lzdriver`
on every `./check C08|C09|C10`).  The theorems here say what an accepted log gives:

* `accepted_trace_is_path` – SOUNDNESS of the validator: if `replay cfg evs` accepts, the labels it
  took are a path of the LTS from `init cfg` to the final model state (`runSched`).  The validator can
  advance the model state only through `Path.step`, so this holds by construction; no property of the
  abstraction rules (stutter iterations, renaming of woken workers, the two halves of `Drop`, …) is
  assumed - a wrong rule can only make the validator reject (or take a different, still genuine, path).
* `accepted_trace_released_all_threads` – an accepted log ends with the reader dropped and every
  worker of the model exited, and every worker thread of the real run has logged its return.
* `accepted_trace_returns` – the sequence numbers that the real calls returned (`rt:d:<seq>` events, in log
  order) ARE the model's `delivered` list (invariant over the replay, `Proofs/MTTrace.lean`; the validator
  insists on exactly one return per call), so by C08 they are `0, 1, 2, …` without gap or duplicate.
* `accepted_trace_in_order`, `accepted_trace_end_is_complete`, `accepted_trace_is_short` – the
  theorems about ALL schedules (C08, C09) instantiated at the schedule of a validated real execution.

What is compared event by event (enabledness + observable) is the executable content of
`Trace.onC`, `Trace.onW`, `Trace.onEv`; the environment `cfg` (units, their outcomes, how the source
ends) is computed by the harness from the input alone.
-/
namespace LzmaVerif.Props.C08Trace
open LzmaVerif.MT LzmaVerif.MT.Trace

/-- the schedule of the model that a validated execution followed -/
def schedOf {cfg : Cfg} (v : VS cfg) : List Label := v.path.rev.reverse

theorem accepted_trace_is_path (cfg : Cfg) (evs : List Ev) (v : VS cfg) (_h : replay cfg evs = .ok v) :
    runSched (init cfg) (schedOf v) = some v.path.sys :=
  v.path.ok

theorem accepted_trace_released_all_threads (cfg : Cfg) (evs : List Ev) (v : VS cfg)
    (h : replay cfg evs = .ok v) :
    v.path.sys.pc = .dropped ∧ ∀ w ∈ v.path.sys.ws, w = .exited := by
  unfold replay at h
  split at h
  · rename_i v' _
    split at h
    · rename_i hf
      cases h
      simp only [finalOk, Bool.and_eq_true, beq_iff_eq, List.all_eq_true] at hf
      exact hf
    · cases h
  · cases h

theorem accepted_trace_returns (cfg : Cfg) (hcfg : 1 ≤ cfg.maxWorkers) (evs : List Ev) (v : VS cfg)
    (h : replay cfg evs = .ok v) :
    dataRets evs = v.path.sys.delivered ∧ dataRets evs = List.range (dataRets evs).length := by
  have hr := replay_returns cfg evs v h
  have ho := (mt_order cfg hcfg (schedOf v) v.path.sys (accepted_trace_is_path cfg evs v h)).1
  exact ⟨hr, by rw [hr]; exact ho⟩

theorem accepted_trace_in_order (cfg : Cfg) (hcfg : 1 ≤ cfg.maxWorkers) (evs : List Ev) (v : VS cfg)
    (h : replay cfg evs = .ok v) :
    v.path.sys.delivered = List.range v.path.sys.delivered.length ∧
      v.path.sys.nextReturn = v.path.sys.delivered.length :=
  mt_order cfg hcfg (schedOf v) v.path.sys (accepted_trace_is_path cfg evs v h)

/-- at ANY point of a validated execution at which the model says the caller has been told
    end-of-stream, every unit has been delivered and none failed (the prefix of an accepted log is
    replayed by the same function, so this is stated for the path reached after any accepted prefix) -/
theorem accepted_trace_end_is_complete (cfg : Cfg) (hcfg : 1 ≤ cfg.maxWorkers) (p : Path cfg)
    (hdone : p.sys.pc = .idle (some .done)) :
    p.sys.delivered.length = cfg.units.length ∧ cfg.srcOk = true ∧ ∀ o ∈ cfg.units, o = .ok :=
  mt_complete cfg hcfg p.rev.reverse p.sys p.ok hdone

theorem accepted_trace_is_short (cfg : Cfg) (hcfg : CfgOk cfg) (evs : List Ev) (v : VS cfg)
    (h : replay cfg evs = .ok v) :
    (schedOf v).length ≤ 26 * cfg.units.length + 3 * cfg.maxWorkers + 20 :=
  mt_terminates_bound cfg hcfg (schedOf v) v.path.sys (accepted_trace_is_path cfg evs v h)

/-! ## the MT writers: open system

The coordinator of `LZMA2WriterMT` / `LZIPWriterMT` is not `MT.coordStep` (see `Model/MTTraceW.lean`), so
for the writers an accepted log is a path of the OPEN system: worker steps are exactly `MT.workerStep`,
the coordinator's operations on queue / channel / error store / flags are environment actions. -/

theorem accepted_writer_trace_is_open_path (cfg : Cfg) (evs : List Ev) (v : TraceW.WS cfg)
    (_h : TraceW.replay cfg evs = .ok v) :
    TraceW.orun (init cfg) v.path.rev.reverse = some v.path.sys :=
  v.path.ok

/-- every worker step of the open system is a worker step of the LTS -/
theorem open_worker_step_is_lts_step (s : Sys) (i : Nat) :
    TraceW.ostep s (.worker i) = step s (.worker i) := rfl

theorem accepted_writer_trace_released_all_threads (cfg : Cfg) (evs : List Ev) (v : TraceW.WS cfg)
    (h : TraceW.replay cfg evs = .ok v) :
    v.path.sys.closed = true ∧ ∀ w ∈ v.path.sys.ws, w = .exited := by
  unfold TraceW.replay at h
  split at h
  · split at h
    · rename_i hf
      cases h
      simp only [TraceW.finalOk, Bool.and_eq_true, beq_iff_eq, List.all_eq_true] at hf
      exact ⟨hf.1.1, hf.2⟩
    · cases h
  · cases h

/-! ## non-vacuity: a log of the real `LZMA2ReaderMT` (one unit, one worker; shuttle random scheduler)
and one of `LZIPReaderMT` with a worker that is woken for nothing are accepted; a log in which the
worker pops a unit that was never pushed is not -/

def accepts (cfg : Cfg) (evs : List Ev) : Bool :=
  match replay cfg evs with
  | .ok _ => true
  | .error _ => false

def exCfg : Cfg := { units := [.ok], srcOk := true, endFused := true, maxWorkers := 1, initialWorkers := 1 }

/-- `call,ct:m,ce:0,cs:r,cy:e,w0:b,w0:s:0,w0:w,cq:1,cp:0,ca:0,cw:0:1,cx:e,ct:m,w0:k,w0:p:0,w0:a,w0:o:0,
    w0:t:0:1,w0:d,ce:0,cs:dr,w0:s:0,cr:r:0,rt:d:0,call,ct:m,w0:w,ce:0,cs:df,ct:m,ce:0,cs:f,rt:n,drop,w0:k,w0:c,w0:x` -/
def exLog : List Ev :=
  [.call, .c (.top none), .c (.err false), .c (.st .reading), .c (.tryRecv .empty), .w 0 .start, .w 0 (.sd false),
   .w 0 .wait, .c (.qlen true), .c (.push 0), .c (.ldActive 0), .c (.spawn 0 1 false), .c (.src .done),
   .c (.top none), .w 0 .woke, .w 0 (.pop 0), .w 0 .inc, .w 0 (.ok 0), .w 0 (.sent 0 true), .w 0 .dec,
   .c (.err false), .c (.st .drainRecv), .w 0 (.sd false), .c (.recv (.result 0)), .ret (.data 0),
   .call, .c (.top none), .w 0 .wait, .c (.err false), .c (.st .drainFin), .c (.top none), .c (.err false),
   .c (.st .finished), .ret .done, .drop, .w 0 .woke, .w 0 .closed, .w 0 .exit]

example : accepts exCfg exLog = true := by decide +kernel

example : dataRets exLog = [0] := by decide

/-- the same log with the pop of a unit that was never pushed -/
example : accepts exCfg (exLog.map fun e => if e = .w 0 (.pop 0) then .w 0 (.pop 1) else e) = false := by
  decide +kernel

/-- a log that stops before the reader is dropped is not accepted -/
example : accepts exCfg (exLog.take 34) = false := by decide +kernel

/-! ## non-vacuity and witness for the writers: a log of the real `LZMA2WriterMT` (two units, one worker;
shuttle): accepted by the open-system replay; in it the coordinator pushes unit 1 (`cp:1`) while the result
of unit 0 waits in the channel (`w0:t:0:1` before, `cr:r:0` after) - `MT.coordStep` cannot do that: it
reaches `push` only through `tryRecv` on an empty channel

`w0:b,w0:s:0,w0:w,cp:0,ca:0,cw:0:1,call,ct:m,w0:k,w0:p:0,w0:a,w0:o:0,ce:0,cy:e,rt:0,w0:t:0:1,w0:d,w0:s:0,cp:1,w0:p:1,w0:a,w0:o:1,w0:t:1:1,w0:d,ca:0,w0:s:0,cw:0:0,call,ct:m,w0:w,ce:0,cr:r:0,rt:d:0,call,ct:m,ce:0,cr:r:1,rt:d:1,call,ct:m,ce:0,cy:e,rt:0,call,ct:m,ce:0,ct:m,ce:0,rt:n,drop,drop,w0:k,w0:c,w0:x` -/

def exWriterLog : List Ev :=
  [.w 0 .start, .w 0 (.sd false), .w 0 .wait, .c (.push 0), .c (.ldActive 0), .c (.spawn 0 1 false), 
   .call, .c (.top none), .w 0 .woke, .w 0 (.pop 0), .w 0 .inc, .w 0 (.ok 0), .c (.err false), 
   .c (.tryRecv .empty), .c .nop, .w 0 (.sent 0 true), .w 0 .dec, .w 0 (.sd false), .c (.push 1), 
   .w 0 (.pop 1), .w 0 .inc, .w 0 (.ok 1), .w 0 (.sent 1 true), .w 0 .dec, .c (.ldActive 0), 
   .w 0 (.sd false), .c (.spawn 0 0 false), .call, .c (.top none), .w 0 .wait, .c (.err false), 
   .c (.recv (.result 0)), .ret (.data 0), .call, .c (.top none), .c (.err false), .c (.recv (.result 1)), 
   .ret (.data 1), .call, .c (.top none), .c (.err false), .c (.tryRecv .empty), .c .nop, .call, 
   .c (.top none), .c (.err false), .c (.top none), .c (.err false), .ret .done, .drop, .drop, .w 0 .woke, 
   .w 0 .closed, .w 0 .exit]

def acceptsW (cfg : Cfg) (evs : List Ev) : Bool :=
  match TraceW.replay cfg evs with
  | .ok _ => true
  | .error _ => false

def exWriterCfg : Cfg := { units := [], srcOk := true, maxWorkers := 256, initialWorkers := 1 }

example : acceptsW exWriterCfg exWriterLog = true := by decide +kernel

/-- the same log is not a path of the closed LTS -/
example : accepts { exWriterCfg with units := [.ok, .ok], maxWorkers := 1 } exWriterLog = false := by decide +kernel

/-- the LTS's coordinator looks into the channel before every push -/
theorem lts_never_pushes_past_a_waiting_result (s s' : Sys) (q : Nat) (hp : s.pc = .tryRecv)
    (hc : s.chan ≠ []) (hs : coordStep s = some s') : s'.pc ≠ .chkQueue ∧ s'.pc ≠ .source ∧ s'.pc ≠ .push q := by
  cases hch : s.chan with
  | nil => exact absurd hch hc
  | cons m rest =>
    simp only [coordStep, hp, hch] at hs
    cases hs
    cases m with
    | wake => simp [onMsg]
    | result seq => simp only [onMsg]; split <;> simp

end LzmaVerif.Props.C08Trace
