import LzmaVerif.Proofs.EncWindowFlush
/-!
# `flush` calls and the encoder window (obligation shared by C01, C07, C15)

C01 ("neither side panics"), C07 ("wherever the caller inserts flush calls") and C15 (the `optimization` build reads
inside its buffers) all need that the encoder's match finder is never run at a buffer position with less history
before it than it may look back (`dict_size ≤ keep_size_before - 1` bytes).  `LZMA2Writer::flush` leaves up to
`nice_len - 1` bytes pending in the match finder; the next `fill_window` may move the window and then re-runs the match
finder on the pending bytes.  The unmodified crate forgot the pending bytes when it computed the move offset
(`write(360769 bytes); flush(); write(..)` with BT4, `nice_len = 273`, 64 KiB dictionary: index `-98` in `BT4::skip`,
an out-of-bounds read in the `optimization` build); repaired by `fix: move_window keeps the history of the pending bytes`.

Model: `Model/EncWindow.lean` (`moveOffset` = the repaired statement, pinned by `tools/extract_shapes.py`;
`moveOffsetPinned` = the statement before).  The theorems hold for EVERY search (`O : Oracle`), every sequence of
`write` / `flush` calls, every dictionary size the options accept, both modes, both match finders, LZMA and LZMA2
parameters.
-/
namespace LzmaVerif.Props.Flush
open EncWindow

/-- In every run of the real encoders' window (`write` and `flush` calls in any order, then `finish`) the match finder
    is only ever run - also on the pending bytes that `process_pending_bytes` hands to it again after a window move -
    at positions with at least `min(keep_size_before - 1, bytes seen so far)` bytes of history in the buffer. -/
theorem flush_runs_keep_history {β : Type} (B : BufOps β) (dict nice : Nat) (mode : Mode) (mf : MF) (lzma2 : Bool)
    (hd : Consts.DICT_SIZE_MIN ≤ dict) (hn1 : 4 ≤ nice) (hn2 : nice ≤ Consts.MATCH_LEN_MAX)
    (O : Oracle) (evs : List Ev) :
    (runEv B (mkParams dict nice mode mf lzma2) O evs).low = false :=
  EncWindow.flush_runs_keep_history B _ O (mkParams_WF dict nice mode mf lzma2 hd hn1 hn2)
    (mkParams_flush dict nice mode mf lzma2 hn2).1 (mkParams_flush dict nice mode mf lzma2 hn2).2 evs

/-- The invariant behind it, at the end of every such run (and after every operation of it): `read_pos < write_pos ≤
    buf_size`, the rewind of the pending bytes stays in the buffer, and `keep_size_before - 1` bytes of history lie
    before the FIRST PENDING byte unless nothing was discarded yet. -/
theorem flush_run_invariant {β : Type} (B : BufOps β) (dict nice : Nat) (mode : Mode) (mf : MF) (lzma2 : Bool)
    (hd : Consts.DICT_SIZE_MIN ≤ dict) (hn1 : 4 ≤ nice) (hn2 : nice ≤ Consts.MATCH_LEN_MAX)
    (O : Oracle) (evs : List Ev) :
    let P := mkParams dict nice mode mf lzma2
    let s := runEv B P O evs
    s.win.writePos ≤ P.bufSize ∧ -1 ≤ s.win.readPos ∧ s.win.readPos + 1 ≤ s.win.writePos ∧
    (s.win.pendingSize : Int) ≤ s.win.readPos + 1 ∧
    (s.win.base = 0 ∨ (P.keepBefore : Int) ≤ s.win.readPos - s.win.pendingSize + 1) := by
  intro P s
  have h := (EncWindow.flush_inv_runEv B P O (mkParams_WF dict nice mode mf lzma2 hd hn1 hn2)
    (mkParams_flush dict nice mode mf lzma2 hn2).1 (mkParams_flush dict nice mode mf lzma2 hn2).2 evs).core
  exact ⟨h.wp_le, h.rp_ge, h.rp_lt, h.pend_le, h.lookback⟩

/-- When `fill_window` moves the window in a reachable, not finishing state - with or without pending bytes - the
    repaired `move_offset` is at least `MOVE_BLOCK_ALIGN` before alignment (the code's `debug_assert!(move_offset >= 0)`
    holds, at least 64 bytes become free: a non-empty input makes progress) and `keep_size_before - 1` bytes of
    history stay before the first pending byte, which is still inside the buffer. -/
theorem window_move_keeps_pending_history {β : Type} (B : BufOps β) (dict nice : Nat) (mode : Mode) (mf : MF) (lzma2 : Bool)
    (hd : Consts.DICT_SIZE_MIN ≤ dict) (hn1 : 4 ≤ nice) (hn2 : nice ≤ Consts.MATCH_LEN_MAX)
    (s : St β) (input : List Nat) (h : FInv (mkParams dict nice mode mf lzma2) s) (hf : s.win.finishing = false)
    (hmove : ((mkParams dict nice mode mf lzma2).bufSize : Int) - (mkParams dict nice mode mf lzma2).keepAfter ≤ s.win.readPos) :
    let P := mkParams dict nice mode mf lzma2
    let r := fillCore B P s.win input
    (Consts.MOVE_BLOCK_ALIGN : Int) ≤ moveOffsetRaw P s.win ∧ Consts.MOVE_BLOCK_ALIGN ≤ moveOffset P s.win ∧
    (P.keepBefore : Int) ≤ r.1.readPos - r.1.pendingSize + 1 ∧ 0 ≤ r.1.readPos - r.1.pendingSize ∧
    (input ≠ [] → 0 < r.2) :=
  EncWindow.flush_inv_move_offset B _ (mkParams_WF dict nice mode mf lzma2 hd hn1 hn2)
    (mkParams_flush dict nice mode mf lzma2 hn2).1 (mkParams_flush dict nice mode mf lzma2 hn2).2 s input h hf hmove

/-- The repair changes nothing in runs without `flush`: for every search and every partition of the input into `write`
    calls the views shown to the search (positions, look-ahead and look-back bytes, match length limits) - hence the
    compressed bytes - are the same with the statement before the repair and with the repaired one. -/
theorem repair_invisible_without_flush (dict nice : Nat) (mode : Mode) (mf : MF) (lzma2 : Bool)
    (hd : Consts.DICT_SIZE_MIN ≤ dict) (hn1 : 4 ≤ nice) (hn2 : nice ≤ Consts.MATCH_LEN_MAX)
    (O : Oracle) (parts : List (List Nat)) :
    traceOf listBuf { mkParams dict nice mode mf lzma2 with pinnedMove := true } O parts =
      traceOf listBuf { mkParams dict nice mode mf lzma2 with pinnedMove := false } O parts :=
  EncWindow.repair_invisible_without_flush _ (mkParams_WF dict nice mode mf lzma2 hd hn1 hn2) O parts

/-- Witness: the statement before the repair loses the history of the pending bytes on the state of the
    reproducer (and the repaired one does not). -/
theorem pinned_move_loses_pending_history :
    moveOffset (reproParams true) reproState.win = 295232 ∧
    (fillWindow noBuf (reproParams true) reproState (List.replicate 5000 0)).1.low = true ∧
    moveOffset (reproParams false) reproState.win = 294912 ∧
    (fillWindow noBuf (reproParams false) reproState (List.replicate 5000 0)).1.low = false :=
  EncWindow.pinned_move_loses_pending_history

/-- non-vacuity: the reproducer's state satisfies the hypotheses of `window_move_keeps_pending_history` -/
example : FInv (mkParams 65536 273 .fast .bt4 true) reproState ∧ reproState.win.finishing = false ∧
    ((mkParams 65536 273 .fast .bt4 true).bufSize : Int) - (mkParams 65536 273 .fast .bt4 true).keepAfter ≤ reproState.win.readPos :=
  ⟨reproParams_eq ▸ reproState_FInv false, by decide, by decide⟩

/-- non-vacuity: the default options (preset 6) and the reproducer's options satisfy the side conditions -/
example : Consts.DICT_SIZE_MIN ≤ 8 * 1024 * 1024 ∧ 4 ≤ 64 ∧ 64 ≤ Consts.MATCH_LEN_MAX ∧
    Consts.DICT_SIZE_MIN ≤ 65536 ∧ 4 ≤ 273 ∧ 273 ≤ Consts.MATCH_LEN_MAX := by decide

end LzmaVerif.Props.Flush
