import LzmaVerif.Proofs.LzipDict
import LzmaVerif.Proofs.XzInt
import Mathlib.Tactic.IntervalCases
/-!
# C02 — container header fields round-trip (property theorems)

* `lzipDict` : for every dictionary size 4 KiB … 512 MiB the LZIP header byte written by the
  (repaired) writer is accepted by the reader and announces the *smallest representable*
  dictionary that is at least as large as the one the encoder searches.
* `lzipDictBuggy_witness` : the pinned code (fraction rounded up) announces 4608 for 5000.
* `multibyte_rt` : XZ multibyte integers round-trip for every value below 2^63, with the size
  the writer's size function predicts; `lzma2DictProp` : the LZMA2 dictionary property
  announces the smallest representable size ≥ the requested one.
-/
namespace LzmaVerif.Props.C02
open LzmaVerif LzmaVerif.Lzip

/-- the encoder's result in closed form -/
theorem encodeDict_eq (d : Nat) (h1 : 4096 ≤ d) (h2 : d ≤ 2^29) :
    (2 ^ ceilLog2 d - d) / 2 ^ (ceilLog2 d - 4) ≤ 7 ∧
    encodeDict d = some ((2 ^ ceilLog2 d - d) / 2 ^ (ceilLog2 d - 4) * 32 + ceilLog2 d) ∧
    d ≤ 2 ^ ceilLog2 d - 2 ^ (ceilLog2 d - 4) * ((2 ^ ceilLog2 d - d) / 2 ^ (ceilLog2 d - 4)) ∧
    2 ^ ceilLog2 d - 2 ^ (ceilLog2 d - 4) * ((2 ^ ceilLog2 d - d) / 2 ^ (ceilLog2 d - 4) + 1) < d := by
  obtain ⟨hb12, hb29, hle, hgt⟩ := ceilLog2_spec d h1 h2
  have henc : encodeDict d =
      (if 2 ^ ceilLog2 d > d then
        (if (2 ^ ceilLog2 d - d) / 2 ^ (ceilLog2 d - 4) > 7 then
          (if ceilLog2 d + 1 > 29 then none else some (ceilLog2 d + 1))
         else some ((2 ^ ceilLog2 d - d) / 2 ^ (ceilLog2 d - 4) * 32 + ceilLog2 d))
       else some (ceilLog2 d)) := by
    unfold encodeDict encodeDictWith
    simp only [min_eq, max_eq]
    have c1 : ¬ (d < 4096 ∨ d > 2 ^ 29) := by omega
    have c2 : ¬ (ceilLog2 d > 29) := by omega
    simp only [c1, c2, if_false, pow_div16 (ceilLog2 d) (by omega)]
  rw [henc]
  generalize ceilLog2 d = b at *
  have hU : 0 < 2 ^ (b - 4) := Nat.pow_pos (by decide)
  have hsplit : 2 ^ b = 16 * 2 ^ (b - 4) := pow_split b (by omega)
  have hhalf : b = 12 ∨ 8 * 2 ^ (b - 4) < d := by
    rcases hgt with h | h
    · exact Or.inl h
    · right
      have e : 2 ^ (b - 1) = 8 * 2 ^ (b - 4) := by
        have : b - 1 = (b - 4) + 3 := by omega
        rw [this, Nat.pow_add]; omega
      omega
  have hk1 : (2 ^ b - d) / 2 ^ (b - 4) * 2 ^ (b - 4) ≤ 2 ^ b - d := Nat.div_mul_le_self _ _
  have hk2 : 2 ^ b - d < ((2 ^ b - d) / 2 ^ (b - 4) + 1) * 2 ^ (b - 4) :=
    Nat.lt_mul_of_div_lt (Nat.lt_succ_self _) hU
  generalize (2 ^ b - d) / 2 ^ (b - 4) = k at *
  have hk7 : k ≤ 7 := by
    by_contra hc
    have : 8 * 2 ^ (b - 4) ≤ k * 2 ^ (b - 4) := Nat.mul_le_mul_right _ (by omega)
    rcases hhalf with h | h
    · subst h
      have : (2:Nat) ^ 12 = 4096 := by decide
      omega
    · omega
  refine ⟨hk7, ?_, ?_, ?_⟩
  · by_cases hgt' : 2 ^ b > d
    · have c3 : ¬ (k > 7) := by omega
      simp only [hgt', if_true, c3, if_false]
    · simp only [hgt', if_false]
      have : k = 0 := by
        by_contra hc
        have : 1 * 2 ^ (b - 4) ≤ k * 2 ^ (b - 4) := Nat.mul_le_mul_right _ (by omega)
        omega
      rw [this]; simp only [Nat.zero_mul, Nat.zero_add]
  · rw [Nat.mul_comm]; omega
  · rw [Nat.mul_comm]; omega

/-- **C02 / LZIP header byte.**  For every dictionary size the format supports, the byte the
writer emits (i) fits a byte, (ii) is accepted by the reader, (iii) announces a dictionary `d'`
with `d ≤ d'`, and (iv) `d'` is the smallest size any accepted byte (`e'' < 256`) can announce
that is `≥ d`. -/
theorem lzipDict (d : Nat) (h1 : 4096 ≤ d) (h2 : d ≤ 2^29) :
    ∃ e d', encodeDict d = some e ∧ e < 256 ∧ decodeDict e = some d' ∧ d ≤ d' ∧
      ∀ e'' d'', e'' < 256 → decodeDict e'' = some d'' → d ≤ d'' → d' ≤ d'' := by
  obtain ⟨hb12, hb29, hle, _⟩ := ceilLog2_spec d h1 h2
  obtain ⟨hk7, henc, hge, hlt⟩ := encodeDict_eq d h1 h2
  generalize hb : ceilLog2 d = b at *
  generalize hk : (2 ^ b - d) / 2 ^ (b - 4) = k at *
  have hU : 0 < 2 ^ (b - 4) := Nat.pow_pos (by decide)
  have hsplit : 2 ^ b = 16 * 2 ^ (b - 4) := pow_split b (by omega)
  have hpb : 2 ^ b ≤ 2 ^ 29 := Nat.pow_le_pow_right (by decide) hb29
  have hkU : 2 ^ (b - 4) * k ≤ 7 * 2 ^ (b - 4) := by
    rw [Nat.mul_comm]; exact Nat.mul_le_mul_right _ hk7
  refine ⟨k * 32 + b, 2 ^ b - 2 ^ (b - 4) * k, henc, by omega, ?_, hge, ?_⟩
  · rw [decodeDict_eq b k hb12 hb29 hk7]
    have : 4096 ≤ 2 ^ b - 2 ^ (b - 4) * k ∧ 2 ^ b - 2 ^ (b - 4) * k ≤ 2 ^ 29 := by omega
    simp only [this, and_self, if_true]
  · intro e'' d'' hbyte hdec hdd
    obtain ⟨hb1, hb2, hd'', _, _⟩ := decodeDict_some e'' d'' hdec
    have hk2le7 : e'' / 32 ≤ 7 := by omega
    generalize e'' % 32 = b2 at *
    generalize e'' / 32 = k2 at *
    have hV : 0 < 2 ^ (b2 - 4) := Nat.pow_pos (by decide)
    have hsplit2 : 2 ^ b2 = 16 * 2 ^ (b2 - 4) := pow_split b2 (by omega)
    rcases Nat.lt_trichotomy b2 b with hlt2 | heq | hgt2
    · -- smaller base: d'' ≤ 2^b2 ≤ 2^(b-1) < d unless b = 12 (impossible, b2 ≥ 12)
      exfalso
      have hmono : 2 ^ (b2 - 4) * 2 ≤ 2 ^ (b - 4) := by
        have : 2 ^ (b2 - 4 + 1) ≤ 2 ^ (b - 4) := Nat.pow_le_pow_right (by decide) (by omega)
        rwa [Nat.pow_succ] at this
      -- d > 8U because b > 12
      obtain ⟨_, _, _, hgt⟩ := ceilLog2_spec d h1 h2
      rw [hb] at hgt
      rcases hgt with h | h
      · omega
      · have e : 2 ^ (b - 1) = 8 * 2 ^ (b - 4) := by
          have : b - 1 = (b - 4) + 3 := by omega
          rw [this, Nat.pow_add]; omega
        omega
    · subst heq
      -- same base: k2 ≤ k
      have hk2le : k2 ≤ k := by
        by_contra hc
        have : (k + 1) * 2 ^ (b2 - 4) ≤ k2 * 2 ^ (b2 - 4) := Nat.mul_le_mul_right _ (by omega)
        rw [Nat.mul_comm (2 ^ (b2 - 4)) (k + 1)] at hlt
        rw [Nat.mul_comm (2 ^ (b2 - 4)) k2] at hd''
        omega
      have : 2 ^ (b2 - 4) * k2 ≤ 2 ^ (b2 - 4) * k := Nat.mul_le_mul_left _ hk2le
      omega
    · -- larger base: d'' ≥ 9·2^(b2-4) ≥ 18·2^(b-4) > 2^b ≥ d'
      have hmono : 2 ^ (b - 4) * 2 ≤ 2 ^ (b2 - 4) := by
        have : 2 ^ (b - 4 + 1) ≤ 2 ^ (b2 - 4) := Nat.pow_le_pow_right (by decide) (by omega)
        rwa [Nat.pow_succ] at this
      have : 2 ^ (b2 - 4) * k2 ≤ 2 ^ (b2 - 4) * 7 := Nat.mul_le_mul_left _ hk2le7
      omega

/-- non-vacuity: the hypotheses are met by an off-grid size, and the byte is the expected one -/
example : encodeDict 5000 = some 0xCD ∧ decodeDict 0xCD = some 5120 := by decide

/-- **Witness against the pinned code** (defect F4): with the fraction rounded *up* the header
announces 4608 bytes for a 5000-byte dictionary. -/
theorem lzipDictBuggy_witness :
    (encodeDictBuggy 5000).bind decodeDict = some 4608 ∧ ¬ (5000 ≤ 4608) := by decide

open LzmaVerif.XzInt in
/-- **C02 / XZ multibyte integers.**  Every value below 2^63 is encoded into at most 9 bytes,
the size function used for the index/backward-size computation predicts that length, and the
reader-side parser returns the value and consumes exactly those bytes, whatever follows. -/
theorem multibyte_rt (v : Nat) (hv : v < 2 ^ 63) (rest : List Nat) :
    ∃ bs, XzInt.encode v = some bs ∧ bs.length = sizeFor v ∧ bs.length ≤ 9 ∧
      parseReader (bs ++ rest) = .ok v bs.length := by
  have h63 : ¬ (v > 2 ^ 63 - 1) := by omega
  refine ⟨encodeFuel 10 v, by simp only [XzInt.encode, h63, if_false], ?_⟩
  have hv' : v < 128 ^ 10 := by
    have : (2:Nat) ^ 63 < 128 ^ 10 := by decide
    omega
  obtain ⟨h1, h2, h3⟩ := parse_encode_aux 10 v 9 0 0 0 rest hv' (Or.inr (by decide))
    (by simpa using hv) (by decide) (by decide)
  refine ⟨h3, by omega, ?_⟩
  unfold parseReader
  rw [h1, h3]
  simp only [Nat.pow_zero, Nat.mul_one, Nat.zero_add, sizeFor]

/-- values of 2^63 and above are refused by the encoder (never silently truncated) -/
theorem multibyte_refuses (v : Nat) (hv : 2 ^ 63 ≤ v) : XzInt.encode v = none := by
  have : v > 2 ^ 63 - 1 := by omega
  simp only [XzInt.encode, this, if_true]

example : XzInt.encode 300 = some [0xAC, 0x02] ∧ XzInt.parseReader [0xAC, 0x02, 7] = .ok 300 2 := by
  decide

open LzmaVerif.XzInt in
/-- **C02 / LZMA2 dictionary property.**  For every dictionary size from 4 KiB to 3 GiB the
block header announces a size the reader accepts, at least as large as the one requested, and
no smaller property would do. -/
theorem lzma2DictProp (d : Nat) (h1 : 4096 ≤ d) (h2 : d ≤ 3 * 2 ^ 30) :
    ∃ p d', propOfDict d = some p ∧ p ≤ 40 ∧ dictOfProp p = some d' ∧ d ≤ d' ∧
      ∀ q d'', q < p → dictOfProp q = some d'' → d'' < d := by
  have hne : d ≠ 0xFFFFFFFF := by omega
  have hlt : ¬ d < 4096 := by omega
  have h39 : d ≤ propSize 39 := by
    have : propSize 39 = 3 * 2 ^ 30 := by decide
    omega
  obtain ⟨r, hr⟩ := findProp_total d 41 0 (by decide) (by decide) h39
  obtain ⟨_, r40, rge, rmin⟩ := findProp_spec d 41 0 r hr
  refine ⟨r, propSize r, ?_, by omega, ?_, rge, ?_⟩
  · simp only [propOfDict, hlt, hne, if_false]; exact hr
  · have a : ¬ r > 40 := by omega
    have b : ¬ r = 40 := by omega
    simp only [dictOfProp, a, b, if_false]; rfl
  · intro q d'' hq hd
    have a : ¬ q > 40 := by omega
    have b : ¬ q = 40 := by omega
    simp only [dictOfProp, a, b, if_false, Option.some.injEq] at hd
    rw [← hd]
    exact rmin q (Nat.zero_le _) hq

example : XzInt.propOfDict 5000 = some 1 ∧ XzInt.dictOfProp 1 = some 6144 := by decide

end LzmaVerif.Props.C02
