import LzmaVerif.Proofs.MT
import LzmaVerif.Generated.SyncShape
/-!
# C09 — multi-threaded I/O always terminates and reports worker failures

Same protocol model as C08.  For every configuration and EVERY schedule:

* `mt_call_never_blocks_forever` – whenever no thread can move (ignoring the caller's option to drop),
  the coordinator is outside a call: the caller has been given end-of-stream or an error, or has
  dropped the reader.  (Hypothesis: a source that ends cleanly has produced at least one unit – the
  LZMA2 end marker always closes a unit and the LZIP scan rejects files without members;
  `deadlock_without_units` shows the hypothesis is needed: it is exactly the hang of the pinned code on
  empty input.)
* `mt_every_schedule_is_finite` – no schedule is longer than `26·units + 3·maxWorkers + 20` steps.
* `mt_failure_is_reported` – end-of-stream is never reported when a unit failed or panicked, or the
  source failed: the only possible final answers are then an error (by the two theorems above).
* `worker_error_paths_wake_coordinator` – the worker loops re-extracted from the four `*_mt.rs` files on
  this run install the panic guard first and follow every `set_error` by the wake-up message before
  returning (this is the step the model's `failSet → failWake → exited` transcribes).
-/
namespace LzmaVerif.Props.C09
open LzmaVerif.MT LzmaVerif.SyncOps

theorem mt_call_never_blocks_forever (cfg : Cfg) (hcfg : 1 ≤ cfg.maxWorkers)
    (hne : cfg.srcOk = true → cfg.units ≠ []) (sched : List Label) (s : Sys)
    (hr : runSched (init cfg) sched = some s) (ht : terminalNoDrop s = true) :
    s.pc = .dropped ∨ s.pc = .idle (some .done) ∨ s.pc = .idle (some .err) :=
  mt_no_deadlock cfg hcfg hne sched s hr ht

theorem mt_every_schedule_is_finite (cfg : Cfg) (hcfg : CfgOk cfg) (sched : List Label) (s : Sys)
    (hr : runSched (init cfg) sched = some s) :
    sched.length ≤ 26 * cfg.units.length + 3 * cfg.maxWorkers + 20 :=
  mt_terminates_bound cfg hcfg sched s hr

theorem mt_failure_is_reported (cfg : Cfg) (hcfg : 1 ≤ cfg.maxWorkers) (sched : List Label) (s : Sys)
    (hr : runSched (init cfg) sched = some s)
    (hbad : cfg.srcOk = false ∨ ∃ o ∈ cfg.units, o ≠ .ok) :
    s.pc ≠ .idle (some .done) := by
  intro hdone
  obtain ⟨_, hsrc, hall⟩ := mt_complete cfg hcfg sched s hr hdone
  rcases hbad with h | ⟨o, ho, hne⟩
  · rw [hsrc] at h; cases h
  · exact hne (hall o ho)

theorem pinned_empty_input_hangs : ∃ sched s,
    runSched (init { units := [], srcOk := true, maxWorkers := 1, initialWorkers := 1 }) sched = some s ∧
    terminalNoDrop s = true ∧ s.pc = .recvDraining := deadlock_without_units

/-- in a worker's operation sequence every `setError` is directly followed by `sendWake` and then `ret` -/
def wakesAfterError : List WOp → Bool
  | .setError :: .sendWake :: .ret :: rest => wakesAfterError rest
  | .setError :: _ => false
  | _ :: rest => wakesAfterError rest
  | [] => true

def workerShapeOk (ops : List WOp) : Bool := ops.head? == some .panicGuard && wakesAfterError ops

theorem worker_error_paths_wake_coordinator :
    workerShapeOk SyncShape.lzma2ReaderWorkerOps = true ∧ workerShapeOk SyncShape.lzipReaderWorkerOps = true ∧
    workerShapeOk SyncShape.lzma2WriterWorkerOps = true ∧ workerShapeOk SyncShape.lzipWriterWorkerOps = true := by
  decide

end LzmaVerif.Props.C09
