import LzmaVerif.Generated.MfParams
import LzmaVerif.Props.C01Hc4
import LzmaVerif.Props.C01Bt4
/-!
# C01 (and C15, C19): the encoder's match finders, for the parameters the source has NOW

`Model/Hc4.lean` and `Model/Bt4.lean` are executable transcriptions of `src/lz/hc4.rs` and `src/lz/bt4.rs`
(with `hash234.rs`), parameterised by the constants and comparison shapes of those files.
`tools/extract_mf.py` regenerates `Generated/MfParams.lean` from /repo's source on every run; the compiled
driver runs the models with the regenerated parameters against the real match finders (hook `mf_trace`,
request `mf.trace`), and the theorems below instantiate the general results of `Props/C01Hc4.lean` /
`Props/C01Bt4.lean` at those parameters.  A changed comparison (`<` to `<=`), constant or table size makes
`generated_*_params_ok` unprovable.

What the theorems say about every input, every script of `find_matches` / `skip` calls and every option in range:
* HC4 reports only real repetitions, inside the data, inside the dictionary, not longer than the limit,
  with strictly increasing lengths and never more than `nice_len - 1` of them (`hc4_generated_sound`);
  no table, chain or window index it computes is out of range (`hc4_generated_indices`).
* BT4: the same for lengths, distances, count and indices (`bt4_generated_bounds`, `bt4_generated_indices`) and for
  the matches that come from the 2- and 3-byte hash tables (`bt4_generated_hash_candidates`); and
  `bt4_generated_tree_matches_valid`: EVERY reported match, including those found in the binary-tree descent at any
  `depth_limit`, is a real repetition (`Bt4.bt4_tree_matches_valid`, by the binary-search-tree invariant over the
  cyclic array, `Proofs/Bt4Bst*.lean`).  As a second line every real trace is still validated per run by the
  executable `Mf.validMatchB` (sound by `Bt4.bt4_checked_match_valid`).
-/
namespace LzmaVerif.Props.C01Mf
open LzmaVerif.Mf

theorem mf_extraction_clean : MfGen.extractionErrors = 0 := by decide

theorem generated_hc4_params_ok : MfGen.hc4Params.ok := by decide

theorem generated_bt4_params_ok : MfGen.bt4Params.ok := by decide

/-- HC4 with the parameters of the current source: every find of every script reports only valid matches -/
theorem hc4_generated_sound (c : Hc4.Cfg) (d : Array UInt8) (hd : 1 ≤ c.dict) (hml : 3 ≤ c.mlmax)
    (script : List Nat) :
    ∀ f ∈ (Hc4.runScript MfGen.hc4Params c d script).1,
      (∀ m ∈ f.2, ValidMatch d c.dict f.1 (min c.mlmax (d.size - f.1)) m) ∧
      lensIncreasing f.2 = true ∧
      (3 ≤ c.niceLen → f.2.length ≤ c.niceLen - 1) :=
  Hc4.hc4_script_sound MfGen.hc4Params generated_hc4_params_ok c d hd hml script

/-- HC4 with the parameters of the current source: no index out of range in any reachable state -/
theorem hc4_generated_indices (c : Hc4.Cfg) (d : Array UInt8) (hd : 1 ≤ c.dict) (hml : 3 ≤ c.mlmax)
    (hnm : c.niceLen ≤ c.mlmax) (s : Hc4.State) (hr : Hc4.Reachable MfGen.hc4Params c d s) :
    (∀ a ∈ Hc4.findAcc MfGen.hc4Params c d s, a.okB d.size = true) ∧
    (∀ a ∈ Hc4.skip1Acc MfGen.hc4Params c d s, a.okB d.size = true) :=
  Hc4.hc4_indices_in_bounds MfGen.hc4Params generated_hc4_params_ok c d hd hml hnm s hr

/-- BT4 with the parameters of the current source: lengths, distances, count -/
theorem bt4_generated_bounds {c : Bt4.Cfg} {data : Array UInt8} (hH : Bt4.Hyp MfGen.bt4Params c data)
    (script : List Nat) (logging : Bool) :
    let s := (Bt4.runScript MfGen.bt4Params c data script logging).1
    (∀ m ∈ (Bt4.find MfGen.bt4Params c data s).2.toList,
      2 ≤ m.1 ∧ m.1 ≤ min c.mlmax (data.size - s.pos) ∧ m.2 + 1 ≤ s.pos ∧ m.2 + 1 ≤ c.dict) ∧
    lensIncreasing (Bt4.find MfGen.bt4Params c data s).2.toList = true ∧
    (Bt4.find MfGen.bt4Params c data s).2.size ≤ c.niceLen - 1 :=
  Bt4.bt4_find_bounds hH script logging

/-- BT4 with the parameters of the current source: the hash-table candidates are real repetitions -/
theorem bt4_generated_hash_candidates {c : Bt4.Cfg} {data : Array UInt8} (hH : Bt4.Hyp MfGen.bt4Params c data)
    (script : List Nat) (logging : Bool) :
    let s := (Bt4.runScript MfGen.bt4Params c data script logging).1
    Bt4.hashCandMatches MfGen.bt4Params c data s <+: (Bt4.find MfGen.bt4Params c data s).2.toList ∧
    ∀ m ∈ Bt4.hashCandMatches MfGen.bt4Params c data s,
      ValidMatch data c.dict s.pos (min c.mlmax (data.size - s.pos)) m :=
  Bt4.bt4_hash_candidates_valid hH script logging

/-- BT4 with the parameters of the current source: every reported match (hash candidates and tree descent, every
    `depth_limit`, every dictionary size, every input, every script) is a real repetition -/
theorem bt4_generated_tree_matches_valid {c : Bt4.Cfg} {data : Array UInt8} (hA : Bt4.HypA MfGen.bt4Params c data)
    (script : List Nat) (logging : Bool) :
    let s := (Bt4.runScript MfGen.bt4Params c data script logging).1
    ∀ m ∈ (Bt4.find MfGen.bt4Params c data s).2.toList,
      ValidMatch data c.dict s.pos (min c.mlmax (data.size - s.pos)) m :=
  Bt4.bt4_tree_matches_valid hA script logging

/-- BT4 with the parameters of the current source: no index out of range -/
theorem bt4_generated_indices {c : Bt4.Cfg} {data : Array UInt8} (hA : Bt4.HypA MfGen.bt4Params c data)
    (script : List Nat) :
    ∀ l, (Bt4.runScript MfGen.bt4Params c data script true).1.log = some l →
      ∀ a ∈ l, Bt4.AccessOk MfGen.bt4Params c data a :=
  Bt4.bt4_indices_in_bounds hA script

/-- the hypotheses are satisfiable for the generated parameters (preset-6-like options on a small input) -/
example : Bt4.HypA MfGen.bt4Params { dict := 4096, niceLen := 64, mlmax := 273, depth := 0 } #[1, 2, 3, 1, 2, 3, 1, 2] :=
  ⟨⟨by decide, by decide, by decide, by decide, by decide⟩, by decide, by decide⟩

end LzmaVerif.Props.C01Mf
