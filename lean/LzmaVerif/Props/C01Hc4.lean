/-
  C01 (match finders): the hash-chain match finder HC4 (src/lz/hc4.rs + hash234.rs) reports only valid
  matches, for ALL inputs, scripts and every parameter set `P` with `P.ok` (the translator regenerates
  `P` from the Rust source).  Headline theorems; the proofs are in `Proofs/Hc4*.lean`.

  Model: `Model/Hc4.lean` (validated against the real code through the hook `mf_trace`).
-/
import LzmaVerif.Proofs.Hc4Bounds

namespace LzmaVerif.Mf.Hc4

/-! ## (H1) the hashes -/

/-- "the hashing algorithm guarantees that if the first byte matches, also the second byte does":
    equal `hash2` values and equal first bytes give equal second bytes; equal `hash3` values and equal
    first bytes give equal second and third bytes.  (`m`, `m'` are the hash4 masks, irrelevant here.) -/
theorem hashes_sound (H : HashParams) (hok : hashOk H) (m m' b0 b1 b2 b3 c1 c2 c3 : Nat)
    (hb1 : b1 < 256) (hc1 : c1 < 256) (hb2 : b2 < 256) (hc2 : c2 < 256) :
    ((calcHashes H m b0 b1 b2 b3).h2 = (calcHashes H m' b0 c1 c2 c3).h2 → b1 = c1) ∧
    ((calcHashes H m b0 b1 b2 b3).h3 = (calcHashes H m' b0 c1 c2 c3).h3 → b1 = c1 ∧ b2 = c2) :=
  ⟨hash2_sound H hok m m' b0 b1 b2 b3 c1 c2 c3 hb1 hc1,
   hash3_sound H hok m m' b0 b1 b2 b3 c1 c2 c3 hb1 hc1 hb2 hc2⟩

example : hashOk {} := by decide
example : (calcHashes {} 65535 97 98 99 100).h2 = (calcHashes {} 65535 97 98 120 121).h2 := by decide

/-! ## (H2) the invariant -/

/-- the invariant `Inv` (`Proofs/Hc4Inv.lean`: table sizes, `-1 ≤ cyclic_pos < cyclic_size`,
    `lz_pos = cyclic_size + #inserted positions`, every hash-table / chain entry is 0 or the `lz_pos` of
    an inserted earlier position, hash-table entries sit in the slot of that position's hash) holds
    initially and is preserved by `find_matches` and `skip` -/
theorem hc4_inv (P : Hc4Params) (hP : P.ok) (c : Cfg) (d : Array UInt8) (hd : 1 ≤ c.dict)
    (hm : 1 ≤ c.mlmax) :
    Inv P c d (init P c) ∧
    (∀ s, Inv P c d s → Inv P c d (find P c d s).2) ∧
    (∀ s n, Inv P c d s → Inv P c d (skip P c d n s)) :=
  ⟨init_inv P hP c d, fun s h => find_inv P hP c d s h hd hm, fun s n h => skip_inv P hP c d hd n s h⟩

/-- every reachable state satisfies the invariant, and `lz_pos` stays below the normalisation
    threshold (so leaving the normalisation out of the step function is justified) -/
theorem hc4_reachable_inv (P : Hc4Params) (hP : P.ok) (c : Cfg) (d : Array UInt8)
    (hsz : d.size + c.dict + 2 < 2 ^ 31) (hd : 1 ≤ c.dict) (hm : 1 ≤ c.mlmax) (s : State)
    (hr : Reachable P c d s) : Inv P c d s ∧ s.lzPos < 0x7FFFFFFF :=
  ⟨hr.inv hP hd hm, Inv.lzPos_lt P hP c d s (hr.inv hP hd hm) hsz⟩

/-! ## (H3) one `find_matches` call -/

/-- In every reachable state, every match reported by `find_matches` at position `p = s.pos` is a valid
    match (inside the data, distance at most `dict` and at most `p`, length at most
    `min match_len_max avail`, really a repetition); lengths increase strictly; for `nice_len ≥ 3` the
    number of matches fits `Matches::new(nice_len - 1)`.
    (`3 ≤ match_len_max` is needed: `extend_match` is called with `current_len = 3`.  For
    `nice_len = 2` the capacity claim is false, in the model and in the real code, see
    `capacity_exceeded_niceLen2`.) -/
theorem hc4_find_sound (P : Hc4Params) (hP : P.ok) (c : Cfg) (d : Array UInt8)
    (hd : 1 ≤ c.dict) (hml : 3 ≤ c.mlmax) (s : State) (hr : Reachable P c d s) :
    (∀ m ∈ (find P c d s).1, ValidMatch d c.dict s.pos (min c.mlmax (d.size - s.pos)) m) ∧
    lensIncreasing (find P c d s).1 = true ∧
    (3 ≤ c.niceLen → (find P c d s).1.length ≤ c.niceLen - 1) :=
  find_sound P hP c d s (hr.inv hP hd (by omega)) hd hml

/-! ## (H4) indices -/

/-- In every reachable state all table indices (`hash2/3/4_table[..]`, `chain[cyclic_pos]`, `chain[i]`),
    all data reads (`get_byte`, `calc_hashes`), all `extend_match` argument triples and all
    `lz_pos - entry` subtractions of `find_matches` and of a `skip` iteration are in bounds: the Rust
    code cannot panic on an index there.  (`nice_len ≤ match_len_max` is needed for the read
    `get_byte(len_best, 0)` to stay inside the logical data; the real buffer is larger.) -/
theorem hc4_indices_in_bounds (P : Hc4Params) (hP : P.ok) (c : Cfg) (d : Array UInt8)
    (hd : 1 ≤ c.dict) (hml : 3 ≤ c.mlmax) (hnm : c.niceLen ≤ c.mlmax) (s : State)
    (hr : Reachable P c d s) :
    (∀ a ∈ findAcc P c d s, a.okB d.size = true) ∧ (∀ a ∈ skip1Acc P c d s, a.okB d.size = true) :=
  ⟨findAcc_ok P hP c d s (hr.inv hP hd (by omega)) hd hml hnm,
   skip1Acc_ok P hP c d s (hr.inv hP hd (by omega)) hd⟩

/-! ## (H5) scripts -/

/-- every find of every script reports only valid matches (with increasing lengths, within capacity) -/
theorem hc4_script_sound (P : Hc4Params) (hP : P.ok) (c : Cfg) (d : Array UInt8)
    (hd : 1 ≤ c.dict) (hml : 3 ≤ c.mlmax) (script : List Nat) :
    ∀ f ∈ (runScript P c d script).1,
      (∀ m ∈ f.2, ValidMatch d c.dict f.1 (min c.mlmax (d.size - f.1)) m) ∧
      lensIncreasing f.2 = true ∧
      (3 ≤ c.niceLen → f.2.length ≤ c.niceLen - 1) :=
  (runScriptAux_sound P hP c d hd hml script (init P c) [] Reachable.init (fun _ h => by cases h)).1

/-- the state a script ends in is reachable -/
theorem runScript_reachable (P : Hc4Params) (hP : P.ok) (c : Cfg) (d : Array UInt8)
    (hd : 1 ≤ c.dict) (hml : 3 ≤ c.mlmax) (script : List Nat) :
    Reachable P c d (runScript P c d script).2 :=
  (runScriptAux_sound P hP c d hd hml script (init P c) [] Reachable.init (fun _ h => by cases h)).2

/-! ## normalisation -/

/-- `normalize` at `lz_pos = 0x7FFFFFFF` (`off = 0x7FFFFFFF - cyclic_size`, entry := max(entry, off) - off,
    `lz_pos := lz_pos - off`) keeps every `delta < cyclic_size` and maps all others to
    `delta ≥ cyclic_size` -/
theorem normalize_delta (cs lz e : Nat) (hcs : cs ≤ lz) (he : e ≤ lz) :
    (lz - e < cs → (lz - (lz - cs)) - normEntry (lz - cs) e = lz - e) ∧
    (cs ≤ lz - e → cs ≤ (lz - (lz - cs)) - normEntry (lz - cs) e) := by
  unfold normEntry
  constructor <;> intro h <;> omega

/-! ## examples and counter-witnesses (dictionary size 8, so `cyclic_size = 9`) -/

def cfg8 : Cfg := { dict := 8, niceLen := 8, mlmax := 273 }

/-- "abc_abX_abcd____" -/
def w4 : Array UInt8 := #[97, 98, 99, 95, 97, 98, 88, 95, 97, 98, 99, 100, 95, 95, 95, 95]
/-- "abcdefghiabxyz": "ab" repeats at distance 9 -/
def w2 : Array UInt8 := #[97, 98, 99, 100, 101, 102, 103, 104, 105, 97, 98, 120, 121, 122]
/-- "abcabdefgabcxy": "abc" repeats at distance 9, "ab" at distance 6 -/
def w3 : Array UInt8 := #[97, 98, 99, 97, 98, 100, 101, 102, 103, 97, 98, 99, 120, 121]
/-- "abcdefghiabcdxyz": "abcd" repeats at distance 9 -/
def w5 : Array UInt8 := #[97, 98, 99, 100, 101, 102, 103, 104, 105, 97, 98, 99, 100, 120, 121, 122]

/-- hash tables of 256 / 1024 / 256 entries, so that the kernel can evaluate whole runs (`decide +kernel` on the
    65536-entry tables of the real constants needs minutes and gigabytes per table operation); NOT
    `hashOk`, used only for the run-level witnesses below -/
def tinyHash : HashParams := { hash2Size := 256, hash3Size := 1024, h4Floor := 0xFF }

/-- the hypotheses of the theorems are satisfiable … -/
example : ({} : Hc4Params).ok ∧ 1 ≤ cfg8.dict ∧ 3 ≤ cfg8.mlmax ∧ cfg8.niceLen ≤ cfg8.mlmax ∧
    w4.size + cfg8.dict + 2 < 2 ^ 31 := by decide
example : Reachable {} cfg8 w4 (runScript {} cfg8 w4 [8]).2 :=
  runScript_reachable {} (by decide) cfg8 w4 (by decide) (by decide) [8]
example : Inv {} cfg8 w4 (init {} cfg8) := (hc4_inv {} (by decide) cfg8 w4 (by decide) (by decide)).1
example := hc4_find_sound {} (by decide) cfg8 w4 (by decide) (by decide) _
  (runScript_reachable {} (by decide) cfg8 w4 (by decide) (by decide) [8])
example := hc4_indices_in_bounds {} (by decide) cfg8 w4 (by decide) (by decide) (by decide) _
  (runScript_reachable {} (by decide) cfg8 w4 (by decide) (by decide) [8])
example := hc4_script_sound {} (by decide) cfg8 w4 (by decide) (by decide) [3, 0, 0, 2, 0, 0, 0]
/-- … and the conclusions are not vacuous: the search at position 8 of `w4` (table reads give
    `delta2 = 4`, `delta3 = 8`, no chain predecessor) reports a hash2 and a hash3 match, with the real
    constants … -/
example : findMatches {} cfg8 w4 #[0, 0, 0, 0, 0, 0, 0, 0, 0] 8 18 8 8 4 8 0 = [(2, 3), (3, 7)] := by
  decide +kernel
/-- … and a whole run (with the small tables) -/
example : (runScript { hash := tinyHash } cfg8 w4 [3, 0, 0, 2, 0, 0, 0]).1 =
    [(3, []), (4, [(2, 3)]), (7, [(3, 3)]), (8, [(2, 3), (3, 7)]), (9, [(2, 7)])] := by decide +kernel
example : (findAcc { hash := tinyHash } cfg8 w4 (runScript { hash := tinyHash } cfg8 w4 [8]).2).length = 16 ∧
    (findAcc { hash := tinyHash } cfg8 w4 (runScript { hash := tinyHash } cfg8 w4 [8]).2).all
      (·.okB w4.size) = true := by decide +kernel

/-- The parameters matter: with `delta2 <= cyclic_size` a match at distance `dict + 1 = 9` is reported
    (search at position 9 of `w2`: the tables give `delta2 = 9`, `delta3 = 19` (none), no chain predecessor) … -/
theorem d2_nonstrict_witness :
    findMatches { d2Strict := false } cfg8 w2 #[0, 0, 0, 0, 0, 0, 0, 0, 0] 0 19 9 5 9 19 0 = [(2, 8)] ∧
    findMatches {} cfg8 w2 #[0, 0, 0, 0, 0, 0, 0, 0, 0] 0 19 9 5 9 19 0 = [] := by decide +kernel

/-- … the same as a whole run from `init` (small tables) -/
theorem d2_nonstrict_run :
    (runScript { d2Strict := false, hash := tinyHash } cfg8 w2 [9, 0]).1 = [(9, [(2, 8)])] ∧
    (runScript { hash := tinyHash } cfg8 w2 [9, 0]).1 = [(9, [])] := by decide +kernel

theorem d2_nonstrict_invalid : ¬ ValidMatch w2 cfg8.dict 9 (min cfg8.mlmax (w2.size - 9)) (2, 8) := by
  intro h; exact absurd h.2.2.2.2.1 (by decide)

/-- likewise with `delta3 <= cyclic_size` (position 9 of `w3`: `delta2 = 6`, `delta3 = 9`) -/
theorem d3_nonstrict_witness :
    findMatches { d3Strict := false } cfg8 w3 #[0, 0, 0, 0, 0, 0, 0, 0, 0] 0 19 9 5 6 9 0 =
      [(2, 5), (3, 8)] ∧
    findMatches {} cfg8 w3 #[0, 0, 0, 0, 0, 0, 0, 0, 0] 0 19 9 5 6 9 0 = [(2, 5)] := by decide +kernel

theorem d3_nonstrict_run :
    (runScript { d3Strict := false, hash := tinyHash } cfg8 w3 [9, 0]).1 = [(9, [(2, 5), (3, 8)])] ∧
    (runScript { hash := tinyHash } cfg8 w3 [9, 0]).1 = [(9, [(2, 5)])] := by decide +kernel

theorem d3_nonstrict_invalid : ¬ ValidMatch w3 cfg8.dict 9 (min cfg8.mlmax (w3.size - 9)) (3, 8) := by
  intro h; exact absurd h.2.2.2.2.1 (by decide)

/-- and with `delta > cyclic_size` as the exit test of the chain loop -/
theorem chain_nonstrict_run :
    (runScript { chainStopGe := false, hash := tinyHash } cfg8 w5 [9, 0]).1 = [(9, [(4, 8)])] ∧
    (runScript { hash := tinyHash } cfg8 w5 [9, 0]).1 = [(9, [])] := by decide +kernel

/-- `nice_len = 2`: two matches are reported but `Matches::new(nice_len - 1)` has room for one (the real
    code panics with an index error at hc4.rs:114 on this input) -/
theorem capacity_exceeded_niceLen2 :
    findMatches {} { dict := 8, niceLen := 2, mlmax := 273 } w4 #[0, 0, 0, 0, 0, 0, 0, 0, 0] 8 18 8 8 4 8 0
      = [(2, 3), (3, 7)] := by decide +kernel

end LzmaVerif.Mf.Hc4
