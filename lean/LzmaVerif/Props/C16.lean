import LzmaVerif.Props.C01
import LzmaVerif.Proofs.Xz
/-!
# C16 — readers consume exactly the bytes of their stream

For every valid stream and ANY bytes that follow it:
* `lzma_declared_size_exact`, `lzma_end_marker_exact` – the LZMA reader (declared size without marker / end
  marker) returns the data having consumed exactly the stream's bytes: its result does not depend on what
  follows, and the count is the stream length (this is where the range decoder's 5-byte initialisation, the
  encoder's 5-byte flush and the final normalisation have to match – `rc_roundtrip`);
* `xz_single_stream_exact` – the single-stream XZ reader stops right after the 12-byte footer.
* `lzma2_exact` – raw LZMA2: for every valid sequence of writer events the chunk decoder consumes exactly the
  encoder's bytes (up to and including the 0x00 end byte) whatever follows.
The real readers are run on streams followed by nothing / zeros / random bytes / 0xFF /
another stream with three buffer schedules; `consumed` must equal the stream length.
-/
namespace LzmaVerif.Props.C16
open LzmaVerif Lzma

theorem lzma_declared_size_exact (pr : Params) (dictBuf : Nat) (preset : Array Nat) (parse : List Sym) (n : Nat)
    (c' : Coder) (h' : Hist)
    (hp : parseRun dictBuf parse Coder.init (presetUsedOf preset dictBuf) = some (c', h'))
    (hn : h'.size = (presetUsedOf preset dictBuf).size + n) (cap : Nat) :
    ∃ bytes, encodeParse pr dictBuf (presetUsedOf preset dictBuf) (some n) (n + 1) parse = some bytes ∧
      ∀ rest, decodeRaw pr dictBuf preset (some n) (bytes ++ rest) cap
        = .ok (h'.extract (presetUsedOf preset dictBuf).size h'.size) bytes.length parse := by
  obtain ⟨bytes, he, _⟩ := C01.lzma_roundtrip_size pr dictBuf preset parse n c' h' hp hn [] cap
  refine ⟨bytes, he, fun rest => ?_⟩
  obtain ⟨bytes', he', hd'⟩ := C01.lzma_roundtrip_size pr dictBuf preset parse n c' h' hp hn rest cap
  rw [he] at he'
  cases he'
  exact hd'

theorem lzma_end_marker_exact (pr : Params) (dictBuf : Nat) (hd : dictBuf ≤ END_DIST) (preset : Array Nat)
    (parse : List Sym) (c' : Coder) (h' : Hist)
    (hp : parseRun dictBuf parse Coder.init (presetUsedOf preset dictBuf) = some (c', h'))
    (cap : Nat) (hcap : parse.length < cap) :
    ∃ bytes, encodeParse pr dictBuf (presetUsedOf preset dictBuf) none (cap + 1) (parse ++ [.mtch END_DIST 2]) = some bytes ∧
      ∀ rest, decodeRaw pr dictBuf preset none (bytes ++ rest) cap
        = .ok (h'.extract (presetUsedOf preset dictBuf).size h'.size) bytes.length (parse ++ [.mtch END_DIST 2]) := by
  obtain ⟨bytes, he, _⟩ := C01.lzma_roundtrip_marker pr dictBuf hd preset parse 2 (by omega) c' h' hp [] cap hcap
  refine ⟨bytes, he, fun rest => ?_⟩
  obtain ⟨bytes', he', hd'⟩ := C01.lzma_roundtrip_marker pr dictBuf hd preset parse 2 (by omega) c' h' hp rest cap hcap
  rw [he] at he'
  cases he'
  exact hd'

theorem xz_single_stream_exact (c : Xz.Check) (fs : List Xz.Filter) (hfs : Xz.FiltersOk fs)
    (blocks : List (List Nat × List Nat))
    (hb : ∀ b ∈ blocks, Xz.PayloadOk (Xz.readerDict fs) b.1 (Xz.applyFilters fs b.2) ∧
      Xz.unfilter fs (Xz.applyFilters fs b.2) = b.2)
    (hsz : Xz.SizesOk c fs blocks) (rest : List Nat) (cap : Nat)
    (hcap : ((blocks.map (·.2)).flatten).length ≤ cap) :
    Xz.decode false (Xz.streamBytes c fs blocks ++ rest) cap
      = .ok (blocks.map (·.2)).flatten (Xz.streamBytes c fs blocks).length (blocks.map (Xz.blkOf fs)).reverse :=
  Xz.xz_roundtrip_blocks c fs hfs blocks hb hsz rest cap hcap

theorem lzma2_exact (dict : Nat) (preset : Array Nat) (pb : Nat) (hpb : pb ≤ 224)
    (hlclp : (paramsOfProps pb).lc + (paramsOfProps pb).lp ≤ 4)
    (chunks : List Lzma2.Chunk) (data : List Nat)
    (hok : Lzma2.ChunksOk pb chunks (Lzma2.initW dict preset pb) data) :
    ∃ bytes, Lzma2.encodeChunks pb chunks (Lzma2.initW dict preset pb) [] = some bytes ∧
      ∀ (rest : List Nat) (cap : Nat), data.length ≤ cap →
        Lzma2.decode dict preset (bytes ++ rest) cap
          = .ok { out := data.toArray, consumed := bytes.length, chunks := chunks } :=
  Props.C01.lzma2_roundtrip dict preset pb hpb hlclp chunks data hok

end LzmaVerif.Props.C16
