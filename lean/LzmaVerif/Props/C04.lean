import LzmaVerif.Proofs.XzForged
import LzmaVerif.Proofs.LzipFile
import LzmaVerif.Proofs.Total
import LzmaVerif.Proofs.ScanShift
/-!
# C04 — corrupted XZ/LZIP input is never returned as valid different data

The reader models `Xz.decode` / `LzipFile.decode` are executed against the real readers on every check on
thousands of corrupted files (every single-bit flip of small files, substitutions, deletions, insertions,
duplications, swaps, truncations) and on non-format inputs: outcome class, output and bytes consumed must
agree.  Theorems about the models, for EVERY input byte string:

* `xz_acceptance_implies_verified_checks` – if the XZ reader accepts, then for every block it returned it
  read the stored check from the input and found it equal to the check of exactly the data it returned,
  and the output is the concatenation of those blocks;
* `lzip_acceptance_implies_verified_trailers` – if the LZIP reader accepts, the input is, byte for byte,
  what the writer model produces for the decoded members (header, stream, CRC-32, data size, member size),
  followed by trailing bytes that do not start with the magic (`lzip_acceptance_tail_is_trailing`: and are not a
  fragment of the magic either — an input ending inside a further member's magic is `UnexpectedEof`);
* `xz_rejects_non_xz`, `lzip_rejects_non_lzip` – non-empty input without the magic is an error, never an
  empty success; `lzip_damaged_header_is_error(_later)` – a member whose magic is intact but whose
  version or dictionary byte is damaged is an error, for the first and for every later member.

* `xz_swapped_blocks_detected` – "swapped regions are an error or the original": exchanging two adjacent blocks
  of a written stream whose compressed or uncompressed sizes differ is an error (the reader compares the Index
  records, in order, with the sizes of the blocks it decoded); `xz_forged_index_rejected`,
  `xz_forged_backward_size_rejected` – so is any other record list in the Index (CRC recomputed) and any other
  Backward Size in the footer (CRC recomputed);
* `xz_swapped_equal_blocks_accepted` – the residual, a limitation of the FORMAT: two adjacent blocks with equal
  compressed and uncompressed sizes have equal Index records, the file with the two exchanged is exactly the
  writer's stream for the exchanged data and is accepted as such (XZ has one check per block and none over the
  whole stream; `xz -t` accepts it too).

* `lzip_mt_scan_accepts_only_tiled_files` – the multi-threaded LZIP reader finds its members by a backward scan
  over the trailers (`LZIPReaderMT::scan_members`, model `Guards.scanFile`); if that scan accepts a file, the
  members it hands to the workers tile the file exactly from byte 0 to its end: no byte of an accepted file is
  outside a member (each member is then decoded by an `LZIPReader`, to which the theorems above apply).  Before the
  repair of `scan_members` up to 19 bytes in front of the first member were ignored (a three-member file with
  its first member cut down to its last 10 bytes was read as `Ok` with the data of members 2 and 3).
  `lzip_mt_scan_rejects_leading_junk` – 1..19 bytes in front of a file the scan accepts are an error.

What no reader can exclude is a corruption that also matches the 32/64/256-bit check: "is the original"
follows from these theorems under the hypothesis that the check separates the original from the output.
-/
namespace LzmaVerif.Props.C04
open LzmaVerif

theorem xz_acceptance_implies_verified_checks (multi : Bool) (inp : List Nat) (cap : Nat) (d : List Nat) (n : Nat)
    (b : List Xz.Block) (h : Xz.decode multi inp cap = .ok d n b) :
    ∃ log, Xz.decodeA multi inp cap = (.ok d n b, log) ∧ (∀ a ∈ log, a.Verified) ∧ d = (log.map (·.data)).flatten :=
  Xz.decode_accepts_verified multi inp cap d n b h

theorem xz_rejects_non_xz (multi : Bool) (inp : List Nat) (cap : Nat) (h : inp.take 6 ≠ Consts.XZ_MAGIC) :
    ∃ e, Xz.decode multi inp cap = .err e := Xz.decode_rejects_non_xz multi inp cap h

theorem xz_never_overconsumes (multi : Bool) (inp : List Nat) (cap : Nat) (d : List Nat) (n : Nat) (b : List Xz.Block)
    (h : Xz.decode multi inp cap = .ok d n b) : n ≤ inp.length := Xz.decode_consumed_le multi inp cap d n b h

theorem xz_swapped_blocks_detected (multi : Bool) (c : Xz.Check) (fs : List Xz.Filter) (hfs : Xz.FiltersOk fs)
    (pre post : List (List Nat × List Nat)) (b₁ b₂ : List Nat × List Nat)
    (hb : ∀ b ∈ pre ++ b₁ :: b₂ :: post,
      Xz.PayloadOk (Xz.readerDict fs) b.1 (Xz.applyFilters fs b.2) ∧ Xz.unfilter fs (Xz.applyFilters fs b.2) = b.2)
    (hsz : Xz.SizesOk63 c fs (pre ++ b₁ :: b₂ :: post))
    (hne : b₁.1.length ≠ b₂.1.length ∨ b₁.2.length ≠ b₂.2.length)
    (cap : Nat) (hcap : (((pre ++ b₁ :: b₂ :: post).map (·.2)).flatten).length ≤ cap) :
    Xz.decode multi (Xz.swappedStream c fs pre post b₁ b₂) cap = .err .invalidData :=
  Xz.block_swap_detected multi c fs hfs pre post b₁ b₂ hb hsz hne cap hcap

/-- `swappedStream` is the written stream with the byte ranges of the two blocks exchanged -/
theorem xz_swappedStream_is_the_swap (c : Xz.Check) (fs : List Xz.Filter) (pre post : List (List Nat × List Nat))
    (b₁ b₂ : List Nat × List Nat) :
    ∃ hdr A B₁ B₂ C tail, Xz.streamBytes c fs (pre ++ b₁ :: b₂ :: post) = hdr ++ (A ++ (B₁ ++ (B₂ ++ (C ++ tail)))) ∧
      Xz.swappedStream c fs pre post b₁ b₂ = hdr ++ (A ++ (B₂ ++ (B₁ ++ (C ++ tail)))) ∧
      B₁ = (Xz.blockBytes c fs b₁.1 b₁.2).1 ∧ B₂ = (Xz.blockBytes c fs b₂.1 b₂.2).1 :=
  ⟨_, _, _, _, _, _, Xz.streamBytes_split c fs pre post b₁ b₂, rfl, rfl, rfl⟩

theorem xz_swapped_equal_blocks_accepted (c : Xz.Check) (fs : List Xz.Filter) (hfs : Xz.FiltersOk fs)
    (pre post : List (List Nat × List Nat)) (b₁ b₂ : List Nat × List Nat)
    (hb : ∀ b ∈ pre ++ b₁ :: b₂ :: post,
      Xz.PayloadOk (Xz.readerDict fs) b.1 (Xz.applyFilters fs b.2) ∧ Xz.unfilter fs (Xz.applyFilters fs b.2) = b.2)
    (hsz : Xz.SizesOk c fs (pre ++ b₁ :: b₂ :: post))
    (heq : b₁.1.length = b₂.1.length ∧ b₁.2.length = b₂.2.length)
    (rest : List Nat) (cap : Nat) (hcap : (((pre ++ b₁ :: b₂ :: post).map (·.2)).flatten).length ≤ cap) :
    Xz.swappedStream c fs pre post b₁ b₂ = Xz.streamBytes c fs (pre ++ b₂ :: b₁ :: post) ∧
    Xz.decode false (Xz.swappedStream c fs pre post b₁ b₂ ++ rest) cap
      = .ok ((pre ++ b₂ :: b₁ :: post).map (·.2)).flatten (Xz.swappedStream c fs pre post b₁ b₂).length
          ((pre ++ b₂ :: b₁ :: post).map (Xz.blkOf fs)).reverse :=
  Xz.block_swap_same_sizes_accepted c fs hfs pre post b₁ b₂ hb hsz heq rest cap hcap

theorem xz_forged_index_rejected (multi : Bool) (c : Xz.Check) (fs : List Xz.Filter) (hfs : Xz.FiltersOk fs)
    (blocks : List (List Nat × List Nat))
    (hb : ∀ b ∈ blocks, Xz.PayloadOk (Xz.readerDict fs) b.1 (Xz.applyFilters fs b.2) ∧
      Xz.unfilter fs (Xz.applyFilters fs b.2) = b.2)
    (rs : List (Nat × Nat)) (hn : rs.length < 2 ^ 63) (hrs : ∀ x ∈ rs, Xz.RecOk x) (hne : rs ≠ Xz.recsOf c fs blocks)
    (n : Nat) (cap : Nat) (hcap : ((blocks.map (·.2)).flatten).length ≤ cap) :
    Xz.decode multi (Xz.forgedStream c fs blocks rs n) cap = .err .invalidData :=
  Xz.reader_rejects_forged_index multi c fs hfs blocks hb rs hn hrs hne n cap hcap

theorem xz_forged_backward_size_rejected (multi : Bool) (c : Xz.Check) (fs : List Xz.Filter) (hfs : Xz.FiltersOk fs)
    (blocks : List (List Nat × List Nat))
    (hb : ∀ b ∈ blocks, Xz.PayloadOk (Xz.readerDict fs) b.1 (Xz.applyFilters fs b.2) ∧
      Xz.unfilter fs (Xz.applyFilters fs b.2) = b.2)
    (hsz : Xz.SizesOk63 c fs blocks)
    (n : Nat) (hn4 : n % 4 = 0) (hge : 4 ≤ n) (hle : n ≤ 2 ^ 34)
    (hne : n ≠ (Xz.indexBytes (Xz.recsOf c fs blocks)).length)
    (cap : Nat) (hcap : ((blocks.map (·.2)).flatten).length ≤ cap) :
    Xz.decode multi (Xz.forgedStream c fs blocks (Xz.recsOf c fs blocks) n) cap = .err .invalidData :=
  Xz.reader_rejects_wrong_backward_size multi c fs hfs blocks hb hsz n hn4 hge hle hne cap hcap

open LzipFile in
theorem lzip_acceptance_implies_verified_trailers (inp : List Nat) (cap : Nat) (data : List Nat) (consumed : Nat)
    (recs : List Member) (hb : Bytes inp) (h : decode inp cap = .ok data consumed recs) :
    data = (recs.reverse.map (·.data)).flatten ∧
    ∃ tail, inp = reassemble recs.reverse ++ tail ∧ tail.take 4 ≠ Consts.LZIP_MAGIC ∧
      consumed = (reassemble recs.reverse).length + min 4 tail.length ∧
      (recs = [] → inp = []) ∧ ∀ m ∈ recs, MemberDecodes m :=
  decode_accept inp cap data consumed recs hb h

open LzipFile in
/-- what follows the accepted members is trailing data: it neither starts with the magic nor is a fragment
    (non-empty proper prefix) of it — a file that ends inside a further member's magic is not accepted -/
theorem lzip_acceptance_tail_is_trailing (inp : List Nat) (cap : Nat) (data : List Nat) (consumed : Nat)
    (recs : List Member) (hb : Bytes inp) (h : decode inp cap = .ok data consumed recs) :
    ∃ tail, inp = reassemble recs.reverse ++ tail ∧ tail.take 4 ≠ Consts.LZIP_MAGIC ∧ TrailingOk tail :=
  decode_accept_trailing inp cap data consumed recs hb h

theorem lzip_rejects_non_lzip (inp : List Nat) (cap : Nat) (hne : inp ≠ []) (hm : inp.take 4 ≠ Consts.LZIP_MAGIC) :
    LzipFile.decode inp cap = .err .invalidData := LzipFile.decode_not_lzip inp cap hne hm

theorem lzip_damaged_header_is_error (v db : Nat) (rest : List Nat) (cap : Nat) :
    (v ≠ 1 → LzipFile.decode (Consts.LZIP_MAGIC ++ v :: rest) cap = .err .invalidData) ∧
    (Lzip.decodeDict db = none → LzipFile.decode (Consts.LZIP_MAGIC ++ [1, db] ++ rest) cap = .err .invalidData) :=
  ⟨fun hv => LzipFile.decode_bad_version v rest cap hv, fun hd => LzipFile.decode_bad_dict db rest cap hd⟩

open LzipFile in
theorem lzip_damaged_header_is_error_later (ms : List (Nat × List Nat × List Nat)) (hne : ms ≠ [])
    (hm : ∀ m ∈ ms, MemberOk m) (v : Nat) (rest : List Nat) (hv : v ≠ 1) (cap : Nat)
    (hcap : (fileData ms).length ≤ cap) :
    decode (fileBytes ms ++ (Consts.LZIP_MAGIC ++ v :: rest)) cap = .err .invalidData :=
  decode_later_bad_version ms hne hm v rest hv cap hcap

open Guards in
/-- `LZIPReaderMT::new` (`scan_members`) accepts a file only if the members it returns tile the file exactly
    from byte 0: the first member starts at 0, each starts where its predecessor ends, the last ends at the end
    of the file, so every byte of the file belongs to a member; every member starts with the magic bytes and its
    trailer's `member_size` field is its size -/
theorem lzip_mt_scan_accepts_only_tiled_files (file : List Nat) (ms : List Member) (h : scanFile file = .ok ms) :
    ms ≠ [] ∧ Total.Contig 4 0 ms file.length ∧
    (∀ p, p < file.length → ∃ m ∈ ms, m.start ≤ p ∧ p < m.start + m.size) ∧
    (ms.map (·.size)).sum = file.length ∧
    (∀ m ∈ ms, magicOf file m.start = true ∧ memberSizeOf file (m.start + m.size) = m.size) := by
  obtain ⟨h1, h2, h3, h4⟩ := Total.scanFile_tiles file h
  refine ⟨h1, h2, h3, ?_, h4⟩
  have := h2.sum_sizes
  omega

/-- 1..19 bytes of anything in front of a file that `scan_members` accepts are reported (`InvalidData`, "Data in
    front of the first LZIP member"); the unrepaired scan answered `Ok` with the members of `rest`.  (From 20 bytes on
    the bytes in front are read as a trailer: the verdict depends on them, and the theorem above says what an
    acceptance then means.) -/
theorem lzip_mt_scan_rejects_leading_junk (junk rest : List Nat) (ms : List Guards.Member)
    (h : Guards.scanFile rest = .ok ms) (h0 : 0 < junk.length) (h20 : junk.length < 20) :
    Guards.scanFile (junk ++ rest) = .error .leading :=
  Total.scanFile_leading_junk junk rest ms h h0 h20

/-- non-vacuity of `lzip_mt_scan_rejects_leading_junk` -/
example : Guards.scanFile ([9, 9, 9] ++ (Total.exMember ++ Total.exMember)) = .error .leading :=
  lzip_mt_scan_rejects_leading_junk [9, 9, 9] _ _ Total.exScan (by decide) (by decide)

/-- non-vacuity: a two-member file is accepted, with the members at 0 and 26 -/
example : Guards.scanFile (Total.exMember ++ Total.exMember) = .ok [⟨0, 26⟩, ⟨26, 26⟩] := Total.exScan

end LzmaVerif.Props.C04
