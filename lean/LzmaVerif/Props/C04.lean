import LzmaVerif.Proofs.Xz
import LzmaVerif.Proofs.LzipFile
/-!
# C04 — corrupted XZ/LZIP input is never returned as valid different data

The reader models `Xz.decode` / `LzipFile.decode` are executed against the real readers on every check on
thousands of corrupted files (every single-bit flip of small files, substitutions, deletions, insertions,
duplications, swaps, truncations) and on non-format inputs: outcome class, output and bytes consumed must
agree.  Theorems about the models, for EVERY input byte string:

* `xz_acceptance_implies_verified_checks` – if the XZ reader accepts, then for every block it returned it
  read the stored check from the input and found it equal to the check of exactly the data it returned,
  and the output is the concatenation of those blocks;
* `lzip_acceptance_implies_verified_trailers` – if the LZIP reader accepts, the input is, byte for byte,
  what the writer model produces for the decoded members (header, stream, CRC-32, data size, member size),
  followed by trailing bytes that do not start with the magic;
* `xz_rejects_non_xz`, `lzip_rejects_non_lzip` – non-empty input without the magic is an error, never an
  empty success; `lzip_damaged_header_is_error(_later)` – a member whose magic is intact but whose
  version or dictionary byte is damaged is an error, for the first and for every later member.

What no reader can exclude is a corruption that also matches the 32/64/256-bit check: "is the original"
follows from these theorems under the hypothesis that the check separates the original from the output.
The XZ reader does not verify the index's size fields nor the footer's backward size (observation recorded
in DESIGN.md): such edits yield the original data, which the property allows.
-/
namespace LzmaVerif.Props.C04
open LzmaVerif

theorem xz_acceptance_implies_verified_checks (multi : Bool) (inp : List Nat) (cap : Nat) (d : List Nat) (n : Nat)
    (b : List Xz.Block) (h : Xz.decode multi inp cap = .ok d n b) :
    ∃ log, Xz.decodeA multi inp cap = (.ok d n b, log) ∧ (∀ a ∈ log, a.Verified) ∧ d = (log.map (·.data)).flatten :=
  Xz.decode_accepts_verified multi inp cap d n b h

theorem xz_rejects_non_xz (multi : Bool) (inp : List Nat) (cap : Nat) (h : inp.take 6 ≠ Consts.XZ_MAGIC) :
    ∃ e, Xz.decode multi inp cap = .err e := Xz.decode_rejects_non_xz multi inp cap h

theorem xz_never_overconsumes (multi : Bool) (inp : List Nat) (cap : Nat) (d : List Nat) (n : Nat) (b : List Xz.Block)
    (h : Xz.decode multi inp cap = .ok d n b) : n ≤ inp.length := Xz.decode_consumed_le multi inp cap d n b h

open LzipFile in
theorem lzip_acceptance_implies_verified_trailers (inp : List Nat) (cap : Nat) (data : List Nat) (consumed : Nat)
    (recs : List Member) (hb : Bytes inp) (h : decode inp cap = .ok data consumed recs) :
    data = (recs.reverse.map (·.data)).flatten ∧
    ∃ tail, inp = reassemble recs.reverse ++ tail ∧ tail.take 4 ≠ Consts.LZIP_MAGIC ∧
      consumed = (reassemble recs.reverse).length + min 4 tail.length ∧
      (recs = [] → inp = []) ∧ ∀ m ∈ recs, MemberDecodes m :=
  decode_accept inp cap data consumed recs hb h

theorem lzip_rejects_non_lzip (inp : List Nat) (cap : Nat) (hne : inp ≠ []) (hm : inp.take 4 ≠ Consts.LZIP_MAGIC) :
    LzipFile.decode inp cap = .err .invalidData := LzipFile.decode_not_lzip inp cap hne hm

theorem lzip_damaged_header_is_error (v db : Nat) (rest : List Nat) (cap : Nat) :
    (v ≠ 1 → LzipFile.decode (Consts.LZIP_MAGIC ++ v :: rest) cap = .err .invalidData) ∧
    (Lzip.decodeDict db = none → LzipFile.decode (Consts.LZIP_MAGIC ++ [1, db] ++ rest) cap = .err .invalidData) :=
  ⟨fun hv => LzipFile.decode_bad_version v rest cap hv, fun hd => LzipFile.decode_bad_dict db rest cap hd⟩

open LzipFile in
theorem lzip_damaged_header_is_error_later (ms : List (Nat × List Nat × List Nat)) (hne : ms ≠ [])
    (hm : ∀ m ∈ ms, MemberOk m) (v : Nat) (rest : List Nat) (hv : v ≠ 1) (cap : Nat)
    (hcap : (fileData ms).length ≤ cap) :
    decode (fileBytes ms ++ (Consts.LZIP_MAGIC ++ v :: rest)) cap = .err .invalidData :=
  decode_later_bad_version ms hne hm v rest hv cap hcap

end LzmaVerif.Props.C04
