import LzmaVerif.Props.C02
import LzmaVerif.Proofs.EndToEnd
/-!
# C02 (continued) — the XZ and LZIP containers round-trip, end to end

(`Props/C02.lean` holds the header-field theorems; it is imported by the container proofs, so the statements
that use those proofs live in this second file.)

`xz_container_roundtrip`, `lzip_container_roundtrip` – the CLOSED end-to-end statements: for every check type,
every admissible filter chain (Delta / the eight BCJ filters with format-conforming start offsets / LZMA2),
every list of blocks of bytes, each with any valid sequence of LZMA2 writer events for its filtered data, the
reader model returns exactly the data and consumes exactly the file – with NO hypothesis about the codec or the
filters left (the filter chain inverse `xz_filter_chain_inverse`, the LZMA2 payload round trip and the container
framing are all theorems); likewise for multi-member LZIP files, given a parse of each member's data.  What
remains as hypotheses is exactly what the real encoder's search supplies and the driver validates on every real
stream (`checkChunks`, `parseRun`), plus the 63/64-bit size side conditions.
-/
namespace LzmaVerif.Props.C02
open LzmaVerif

theorem xz_filter_chain_inverse (fs : List Xz.Filter) (hfs : Xz.FiltersOk fs) (xs : List Nat) (hx : Xz.Bytes xs) :
    Xz.unfilter fs (Xz.applyFilters fs xs) = xs :=
  Xz.unfilter_applyFilters fs hfs xs hx

theorem xz_container_roundtrip (c : Xz.Check) (fs : List Xz.Filter) (hfs : Xz.FiltersOk fs) (bs : List Xz.EBlock)
    (hb : ∀ b ∈ bs, b.Ok fs)
    (hlen : (Xz.streamBytes c fs (Xz.wire fs bs)).length < 2 ^ 63) (hdat : (Xz.dataOf bs).length < 2 ^ 63)
    (hn : bs.length ≤ 2 ^ 29)
    (rest : List Nat) (cap : Nat) (hcap : (Xz.dataOf bs).length ≤ cap) :
    Xz.decode false (Xz.streamBytes c fs (Xz.wire fs bs) ++ rest) cap
      = .ok (Xz.dataOf bs) (Xz.streamBytes c fs (Xz.wire fs bs)).length ((Xz.wire fs bs).map (Xz.blkOf fs)).reverse :=
  Xz.xz_end_to_end' c fs hfs bs hb hlen hdat hn rest cap hcap

theorem lzip_container_roundtrip (ms : List LzipFile.EMember) (hne : ms ≠ []) (hm : ∀ m ∈ ms, m.Ok)
    (trailing : List Nat) (ht : trailing.take 4 ≠ Consts.LZIP_MAGIC) (ht2 : LzipFile.TrailingOk trailing)
    (cap : Nat) (hcap : (LzipFile.membersData ms).length ≤ cap) :
    LzipFile.decode (LzipFile.fileBytes (LzipFile.wireMembers ms) ++ trailing) cap
      = .ok (LzipFile.membersData ms) ((LzipFile.fileBytes (LzipFile.wireMembers ms)).length + min 4 trailing.length)
          (LzipFile.fileRecs (LzipFile.wireMembers ms)) :=
  LzipFile.lzip_end_to_end ms hne hm trailing ht ht2 cap hcap

end LzmaVerif.Props.C02
