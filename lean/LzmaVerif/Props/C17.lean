import LzmaVerif.Model.Mem
/-!
# C17 — memory estimators are sound and tight; the limit is enforced

`Model/Mem.lean` transcribes the estimator formulas and the list of heap allocations the constructors
make (validated per run: estimator values and the sorted list of all allocations ≥ 4 KiB are compared
with a counting allocator).  Theorems, for every dictionary size 4 KiB … 1 GiB, every `lc ≤ 8`,
`lp ≤ 4`, `pb ≤ 4`, `8 ≤ nice_len ≤ 273`, both modes, both match finders:

* `enc_estimate_sound`  – the sum of everything the encoder allocates is at most the estimate;
* `enc_estimate_tight`  – the estimate exceeds that sum by at most 512 KiB;
* `lzma_dec_estimate`, `lzma2_dec_estimate` – the same for the decoders (12 KiB / 42 KiB);
* `mem_limit_enforced` – the `.lzma` reader refuses exactly when the limit is below the need.

Proof organisation: `arith_sound` / `arith_tight` are purely linear facts over plain variables (one
`omega` each); the main theorems only establish the elementary bounds of each component
(`Nat.div` brackets, `round64` brackets, monotonicity of the window size in `extra_before`) and
then generalise every component to a variable.
-/
namespace LzmaVerif.Props.C17
open LzmaVerif LzmaVerif.Mem

structure OptsOk (o : EncOpts) : Prop where
  dictLo : 4096 ≤ o.dict
  dictHi : o.dict ≤ 2 ^ 30
  lc : o.lc ≤ 8
  lp : o.lp ≤ 4
  pb : o.pb ≤ 4
  niceLo : 8 ≤ o.nice
  niceHi : o.nice ≤ 273

theorem round64_bounds (n : Nat) : n ≤ round64 n ∧ round64 n ≤ n + 63 := by
  unfold round64; omega

theorem sum_replicate (n v : Nat) : (List.replicate n v).sum = n * v := by
  induction n with
  | zero => simp
  | succ n ih => simp [List.replicate_succ, ih, Nat.succ_mul, Nat.add_comm]

/-! ## Linear cores -/

/-- soundness, all components abstracted -/
theorem arith_sound (W Wl qW rH H qH rC qD lit qL RC OPT qO M LH LR : Nat)
    (hW : W ≤ Wl) (hqW : Wl < 1024 * qW + 1024)
    (hrH : rH ≤ 4 * H + 63) (hqH : 66560 + H < 256 * qH + 256)
    (hC : rC ≤ 1024 * qD + 1087)
    (hL : lit < 1024 * qL + 1024)
    (hRC : RC ≤ 65536) (hO : OPT ≤ 1024 * qO)
    (hM : M ≤ 1088) (hLH : LH ≤ 896) (hLR : LR ≤ 34816) :
    W + (4096 + (262144 + (rH + (rC + (lit + (RC + (OPT + (M + (M + (LH + (1120 + 0))))))))))) + LR
      ≤ 1024 * (70 + qL + (80 + (qW + 10 + (qH + 4 + qD + 10) + qO))) := by
  omega

/-- tightness, all components abstracted -/
theorem arith_tight (W qW rH H qH rC qD lit qL OPT qO M LH LR : Nat)
    (hqW : 1024 * qW ≤ W)
    (hrH : 4 * H ≤ rH) (hqH : 256 * qH ≤ 66560 + H)
    (hC : 1024 * qD ≤ rC)
    (hL : 1024 * qL ≤ lit)
    (hO : 1024 * qO ≤ OPT + 65536) :
    1024 * (70 + qL + (80 + (qW + 10 + (qH + 4 + qD + 10) + qO)))
      ≤ W + (4096 + (262144 + (rH + (rC + (lit + (65536 + (OPT + (M + (M + (LH + (1120 + 0))))))))))) + LR
        + 512 * 1024 := by
  omega

/-! ## Component facts -/

theorem bufSize_mono (d a b ea : Nat) (h : a ≤ b) : bufSize d a ea ≤ bufSize d b ea := by
  unfold bufSize; omega

theorem extraBefore_mono (o : EncOpts) (a b : Nat) (h : a ≤ b) : extraBefore o a ≤ extraBefore o b := by
  unfold extraBefore; omega

/-- the window the writer really allocates is never larger than the one the estimator assumes -/
theorem window_le (o : EncOpts) (lzma2 : Bool) :
    bufSize o.dict (extraBefore o (if lzma2 then extraBeforeLzma2 o.dict else 0)) (extraAfter o)
      ≤ bufSize o.dict (extraBefore o (extraBeforeLzma2 o.dict)) (extraAfter o) := by
  apply bufSize_mono; apply extraBefore_mono
  cases lzma2
  · exact Nat.zero_le _
  · exact Nat.le_refl _

/-- chain (HC4) / tree (BT4) array against its estimator term -/
theorem chain_bounds (d : Nat) (bt4 : Bool) :
    round64 ((d + 1) * 4 * (if bt4 then 2 else 1)) ≤ 1024 * (if bt4 then d / 128 else d / 256) + 1087 ∧
    1024 * (if bt4 then d / 128 else d / 256) ≤ round64 ((d + 1) * 4 * (if bt4 then 2 else 1)) := by
  cases bt4
  · have := round64_bounds ((d + 1) * 4 * 1)
    simp only [Bool.false_eq_true, if_false]
    omega
  · have := round64_bounds ((d + 1) * 4 * 2)
    simp only [if_true]
    omega

/-- optimum nodes against the estimator term -/
theorem opt_bounds (n : Bool) :
    (if n then Consts.NORMAL_OPTS * 48 else 0) ≤ 1024 * (if n then Consts.NORMAL_OPTS * 64 / 1024 else 0) ∧
    1024 * (if n then Consts.NORMAL_OPTS * 64 / 1024 else 0) ≤ (if n then Consts.NORMAL_OPTS * 48 else 0) + 65536 := by
  cases n <;> decide

theorem lenRows_le (pb nice : Nat) (hpb : pb ≤ 4) (hn : nice ≤ 273) :
    2 * 2 ^ pb * (max (nice - 2 + 1) 16 * 4) ≤ 34816 := by
  have hP : 2 ^ pb ≤ 2 ^ 4 := Nat.pow_le_pow_right (by decide) hpb
  have h1 : 2 * 2 ^ pb ≤ 32 := by omega
  have h2 : max (nice - 2 + 1) 16 * 4 ≤ 1088 := by omega
  exact Nat.mul_le_mul h1 h2

theorem lenHdr_le (pb : Nat) (hpb : pb ≤ 4) : 2 * 2 ^ pb * (24 + 4) ≤ 896 := by
  have hP : 2 ^ pb ≤ 2 ^ 4 := Nat.pow_le_pow_right (by decide) hpb
  omega

/-- the two sides in the shape of `arith_sound` / `arith_tight` -/
theorem encAllocs_sum (o : EncOpts) (lzma2 : Bool) :
    (encAllocs o lzma2).sum =
      bufSize o.dict (extraBefore o (if lzma2 then extraBeforeLzma2 o.dict else 0)) (extraAfter o)
      + (4096 + (262144 + (round64 (hash4Size o.dict * 4)
      + (round64 ((o.dict + 1) * 4 * (if o.bt4 then 2 else 1))
      + (0x600 * 2 ^ (o.lc + o.lp)
      + ((if lzma2 then Consts.W_COMPRESSED_SIZE_MAX else 0)
      + ((if o.normal then Consts.NORMAL_OPTS * 48 else 0)
      + (4 * (o.nice - 1) + (4 * (o.nice - 1)
      + (2 * 2 ^ o.pb * (24 + 4) + (1120 + 0)))))))))))
      + 2 * 2 ^ o.pb * (max (o.nice - 2 + 1) 16 * 4) := by
  have h2 : round64 (Consts.HASH2_SIZE * 4) = 4096 := by decide
  have h3 : round64 (Consts.HASH3_SIZE * 4) = 262144 := by decide
  simp only [encAllocs, List.sum_cons, List.sum_append, List.sum_nil, sum_replicate, h2, h3]

theorem encEstimate_eq (o : EncOpts) (hl : o.lc + o.lp ≤ 12) :
    encEstimate o =
      70 + 0x600 * 2 ^ (o.lc + o.lp) / 1024
      + (80 + (bufSize o.dict (extraBefore o (extraBeforeLzma2 o.dict)) (extraAfter o) / 1024 + 10
        + ((66560 + hash4Size o.dict) / 256 + 4 + (if o.bt4 then o.dict / 128 else o.dict / 256) + 10)
        + (if o.normal then Consts.NORMAL_OPTS * 64 / 1024 else 0))) := by
  have hmin : min (o.lc + o.lp) 12 = o.lc + o.lp := Nat.min_eq_left hl
  have hc : Consts.HASH2_SIZE + Consts.HASH3_SIZE = 66560 := by decide
  simp only [encEstimate, modeEst, lzEncEst, mfEst, hash234Est, hmin, hc]

/-! ## Encoder -/

theorem enc_estimate_sound (o : EncOpts) (h : OptsOk o) (lzma2 : Bool) :
    (encAllocs o lzma2).sum ≤ 1024 * encEstimate o := by
  obtain ⟨_, _, hlc, hlp, hpb, _, n2⟩ := h
  rw [encAllocs_sum, encEstimate_eq o (by omega)]
  apply arith_sound (H := hash4Size o.dict)
    (Wl := bufSize o.dict (extraBefore o (extraBeforeLzma2 o.dict)) (extraAfter o))
  · exact window_le o lzma2
  · omega
  · have := (round64_bounds (hash4Size o.dict * 4)).2; omega
  · omega
  · exact (chain_bounds o.dict o.bt4).1
  · omega
  · cases lzma2 <;> decide
  · exact (opt_bounds o.normal).1
  · omega
  · exact lenHdr_le o.pb hpb
  · exact lenRows_le o.pb o.nice hpb n2

theorem enc_estimate_tight (o : EncOpts) (h : OptsOk o) :
    1024 * encEstimate o ≤ (encAllocs o true).sum + 512 * 1024 := by
  obtain ⟨_, _, hlc, hlp, _, _, _⟩ := h
  rw [encAllocs_sum, encEstimate_eq o (by omega)]
  simp only [if_true, show Consts.W_COMPRESSED_SIZE_MAX = 65536 from rfl]
  apply arith_tight (H := hash4Size o.dict)
  · omega
  · have := (round64_bounds (hash4Size o.dict * 4)).1; omega
  · omega
  · exact (chain_bounds o.dict o.bt4).2
  · omega
  · exact (opt_bounds o.normal).2

/-! ## Decoders -/

theorem lzma_dec_estimate (dict lc lp : Nat) (hd : dict ≤ Consts.DICT_SIZE_MAX) (hlc : lc ≤ 8) (hlp : lp ≤ 4) :
    ∃ e, lzmaDecEstimate dict lc lp = some e ∧ (lzmaDecAllocs dict lc lp).sum ≤ 1024 * e ∧
      1024 * e ≤ (lzmaDecAllocs dict lc lp).sum + 12 * 1024 := by
  have c1 : ¬ (lc > 8 ∨ lp > 4) := by omega
  have c2 : ¬ dict > Consts.DICT_SIZE_MAX := by omega
  refine ⟨10 + ((max dict 4096 + 15) / 16 * 16) / 1024 + (0x600 * 2 ^ (lc + lp)) / 1024,
    by simp only [lzmaDecEstimate, c1, c2, if_false], ?_⟩
  simp only [lzmaDecAllocs, List.sum_cons, List.sum_nil]
  generalize 0x600 * 2 ^ (lc + lp) = L
  generalize (max dict 4096 + 15) / 16 * 16 = D
  constructor <;> omega

theorem lzma2_dec_estimate (dict lc lp : Nat) (hl : lc + lp ≤ 4) :
    (lzma2DecAllocs dict lc lp).sum ≤ 1024 * lzma2DecEstimate dict ∧
    1024 * lzma2DecEstimate dict ≤ (lzma2DecAllocs dict lc lp).sum + 42 * 1024 := by
  simp only [lzma2DecAllocs, lzma2DecEstimate, List.sum_cons, List.sum_nil,
    show Consts.R_COMPRESSED_SIZE_MAX = 65536 from rfl]
  have hL1 : 1 ≤ 2 ^ (lc + lp) := Nat.one_le_two_pow
  have hL2 : 2 ^ (lc + lp) ≤ 2 ^ 4 := Nat.pow_le_pow_right (by decide) hl
  generalize 2 ^ (lc + lp) = L at *
  generalize (min dict Consts.DICT_SIZE_MAX + 15) / 16 * 16 = D
  constructor <;> omega

/-- `new_mem_limit`: the out-of-memory decision is made from header fields only -/
def memLimitRefuses (limitKiB dict lc lp : Nat) : Bool :=
  match lzmaDecEstimate dict lc lp with
  | some need => limitKiB < need
  | none => true

theorem mem_limit_enforced (limit dict lc lp need : Nat) (h : lzmaDecEstimate dict lc lp = some need) :
    (memLimitRefuses limit dict lc lp = true ↔ limit < need) := by
  simp [memLimitRefuses, h]

/-- non-vacuity: preset 6 (8 MiB, BT4, normal) meets the hypotheses; its estimate is 96 MiB-ish -/
example : OptsOk { dict := 8388608, lc := 3, lp := 0, pb := 2, normal := true, bt4 := true, nice := 64 } :=
  ⟨by decide, by decide, by decide, by decide, by decide, by decide, by decide⟩

#print axioms enc_estimate_sound
#print axioms enc_estimate_tight
#print axioms lzma_dec_estimate
#print axioms lzma2_dec_estimate
#print axioms mem_limit_enforced

end LzmaVerif.Props.C17
