import LzmaVerif.Proofs.Total
/-!
# C06 — decoders stay total on untrusted bytes (PARTIAL: the arithmetic and progress part)

What a theorem can carry of "no panic, abort, hang or blow-up" is (1) the fixed-width arithmetic that
attacker-controlled values flow through never leaves its type and every index stays inside its buffer
(`Model/Guards.lean`: u16/u32/u64/usize operations return `none` where Rust would overflow / index out of
bounds, and the theorems show `none` never happens), and (2) progress: every loop of the reader models
consumes input or produces output, so the fuel the models carry is never what stops them, the number of
records / members / blocks / chunks is bounded by the input length, and the work per decoded symbol is
bounded by a constant.  The three defects found while writing this model (recursion per empty stream,
dictionary size 0, 64 KiB stored chunk) are kept as `…Buggy` definitions with their witnesses.

Allocation bound of the property ("declared dictionary + proportional to the input"):
`lzma2_reader_buffer` / `lzma_reader_buffer` (buffer ≤ max dict 4096 + 15 and ≤ declared size + preset +
15 when a size is declared), `index_capacity_bounded` with `index_records_bounded_by_input`,
`lzip_mt_scan_bounded` (≤ |file|/4 members, disjoint, inside the file).

NOT carried by theorems: panics / aborts / stack depth of the real code outside the modelled arithmetic,
wall-clock time, the allocator.  Those are decided by the hostile-input oracle on the real decoders
(panic, process abort in a child process, time, peak heap against the bound of the property).
-/
namespace LzmaVerif.Props.C06
open LzmaVerif LzmaVerif.Guards

/-- LZMA2 dictionary rounding (`get_dict_size`): total for every caller-supplied u32, also 0 and 0xFFFFFFFF -/
theorem lzma2_dict_rounding_total : ∀ d, d < 2 ^ 32 →
    ∃ r, lzma2DictRound d = some r ∧ min d Consts.DICT_SIZE_MAX ≤ r ∧ r % 16 = 0 ∧ r < 2 ^ 32 :=
  Total.lzma2DictRound_total

theorem lzma2_reader_buffer (dict : Nat) (hd : dict < 2 ^ 32) (presetLen : Option Nat) :
    ∃ r, lzma2ReaderBuf dict presetLen = some r ∧ r.bufLen = Lzma2.dictBufOf dict ∧
      4096 ≤ r.bufLen ∧ r.bufLen ≤ max dict 4096 + 15 ∧ r.bufLen < 2 ^ 32 ∧ r.pos ≤ r.bufLen :=
  Total.lzma2ReaderBuf_total dict hd presetLen

/-- `LZMAReader::construct2`: error exactly above DICT_SIZE_MAX, otherwise a buffer bounded by the declared
    dictionary and (when a size is declared) by size + preset; the `as u32` cast is exact -/
theorem lzma_reader_buffer (dict uncomp presetLen : Nat) (hd : dict < 2 ^ 32) (hu : uncomp < 2 ^ 64)
    (hp : presetLen < 2 ^ 64) :
    (Consts.DICT_SIZE_MAX < dict ∧ construct2Dict dict uncomp presetLen = some (.error ())) ∨
    (dict ≤ Consts.DICT_SIZE_MAX ∧ ∃ r,
      construct2Dict dict uncomp presetLen = some (.ok r) ∧
      r = Lzma.lzmaReaderDictBuf dict (Total.sizeOpt uncomp) presetLen ∧
      4096 ≤ r ∧ r % 16 = 0 ∧ r ≤ Lzma.lzmaDictBuf dict ∧ r ≤ max dict 4096 + 15 ∧ r < 2 ^ 32 ∧
      (uncomp ≤ 2 ^ 63 - 1 → r ≤ max (uncomp + presetLen) 4096 + 15)) :=
  Total.construct2Dict_total dict uncomp presetLen hd hu hp

theorem lzma2_chunk_sizes_total (control u16 : Nat) (hu : u16 < 2 ^ 16) :
    (lzmaChunkSize control u16 = some (control % 32 * 65536 + (u16 + 1)) ∧
      1 ≤ control % 32 * 65536 + (u16 + 1) ∧ control % 32 * 65536 + (u16 + 1) ≤ 2 ^ 21) ∧
    storedChunkSize u16 = some (u16 + 1) :=
  ⟨Total.lzmaChunkSize_total control u16 hu, (Total.storedChunkSize_total u16 hu).2⟩

theorem index_capacity_bounded (count : Nat) : indexCapacity count ≤ 1024 := Total.indexCapacity_le count

/-- an Index that announces more records than the input has bytes is rejected, whatever the count -/
theorem index_records_bounded_by_input {inp inp1 : List Nat} {n : Nat} (h1 : Xz.mbReader inp = .ok (n, inp1))
    (hbig : inp.length < n) : ∃ e, Xz.parseIndex inp = .error e :=
  Total.parseIndex_rejects_count_gt_length h1 hbig

/-- the backward member scan of `LZIPReaderMT` on any file: terminates without the fuel, members are
    inside the file, pairwise disjoint, at least 4 bytes each; the work-unit buffers of an accepted file add up
    to exactly the file size (since the repair of `scan_members`; `≤` before) -/
theorem lzip_mt_scan_bounded (file : List Nat) :
    match scanFile file with
    | .ok ms => ms ≠ [] ∧ ms.length ≤ file.length / 4 ∧
        (∀ m ∈ ms, 4 ≤ m.size ∧ m.start + m.size ≤ file.length) ∧
        ms.Pairwise (fun m1 m2 => m1.start + m1.size ≤ m2.start) ∧
        (ms.map (·.size)).sum = file.length
    | .error e => e ≠ .fuel ∧ e ≠ .arith :=
  Total.scanFile_total file

/-- progress of the container / chunk loops: the model's fuel never decides the result -/
theorem xz_fuel_irrelevant (multi : Bool) (inp : List Nat) (cap : Nat) (fuel : Nat) (hf : inp.length < fuel) :
    Xz.decode multi inp cap =
      match Xz.parseStreamHeader inp with
      | .error e => .err e
      | .ok (chk, rest) => Xz.readBlocks multi inp.length fuel chk rest [] [] cap :=
  Total.xz_decode_fuel_indep multi inp cap fuel hf

theorem lzma2_fuel_irrelevant (fuel fuel' : Nat) (s : Lzma2.RState) (inp : List Nat) (cap : Nat)
    (h : inp.length < fuel) (h' : inp.length < fuel') : Lzma2.chunkLoop fuel s inp cap = Lzma2.chunkLoop fuel' s inp cap :=
  Total.chunkLoop_fuel_indep fuel fuel' s inp cap h h'

/-- with a cap of 2 MiB per input byte the LZMA2 model always gives a definite answer -/
theorem lzma2_definite (dict : Nat) (preset : Array Nat) (input : List Nat) (cap : Nat)
    (hb : ∀ x ∈ input, x < 256) (hcap : 2 ^ 21 * input.length ≤ cap) :
    Lzma2.decode dict preset input cap ≠ .capped :=
  Total.lzma2_decode_definite dict preset input cap hb hcap

theorem lzip_members_bounded_by_input (inp : List Nat) (cap : Nat) (data : List Nat) (consumed : Nat)
    (recs : List LzipFile.Member) (h : LzipFile.decode inp cap = .ok data consumed recs) :
    26 * recs.length ≤ inp.length :=
  Total.decode_members_count inp cap data consumed recs h

/-- bounded work per symbol: at most 48 range-coder decisions, whatever the context and the input -/
theorem decisions_per_symbol_bounded (pr : Lzma.Params) (c : Lzma.Ctx) (s : Lzma.Sym) (hs : Lzma.SymOk s) :
    (Lzma.symBits pr c s).length ≤ 48 :=
  Total.symBits_length_le pr c s hs

/-- what the three repairs bought (witnesses against the pinned arithmetic) -/
theorem pinned_arithmetic_witnesses :
    (lzma2ReaderBufBuggy 0 none = some { bufLen := 0, pos := 0, presetSkip := 0 } ∧ lzResetIndex 0 = none) ∧
    (storedChunkSizeBuggy 0xFFFF = none ∧ storedChunkSizeBuggyWrapped 0xFFFF = 0 ∧ storedChunkSize 0xFFFF = some 65536) ∧
    lzma2DictRoundOld 0xFFFFFFFF = none ∧ indexCapacityOldBytes (2 ^ 63) = none :=
  ⟨Total.lzma2_dict0_reset_panicked, Total.storedChunkSizeBuggy_overflows, Total.lzma2DictRoundOld_overflows,
   Total.indexCapacityOld_overflows⟩

end LzmaVerif.Props.C06
