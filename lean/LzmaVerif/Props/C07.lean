import LzmaVerif.Proofs.Stream
import LzmaVerif.Proofs.Split
/-!
# C07 — results do not depend on how callers split writes, flushes and reads

Theorems (for EVERY input, EVERY partition into write calls incl. empty ones, EVERY sequence of read
buffer sizes incl. zero-length and one-byte buffers, EVERY pattern of short reads of the inner source):

* `bcj_writer_partition_free` – the streaming BCJ writer used inside `XZWriter` emits, for all eight
  architectures, exactly the one-shot filtering of the concatenated input;
* `bcj_reader_schedule_free` – `BCJReader` yields exactly the one-shot decoding of its source for every
  sequence of destination sizes and every sequence of short inner reads;
* `zero_length_reads_are_harmless` – inserting zero-length reads anywhere changes nothing;
* `delta_partition_free` – the Delta coder carries its state across calls: coding `xs ++ ys` is coding
  `xs`, then `ys` from the state reached;
* `container_cutting_partition_free` – block/member/unit boundaries depend on byte counts only.

The streaming models (`Model/Stream.lean`, `Model/BcjStream.lean`) are run against the real
`BCJWriter`/`BCJReader` on every check (random partitions, buffer schedules and short reads).
Not yet covered by a theorem (oracle + correspondence only): independence of the LZMA/LZMA2 readers'
ring buffer from the read sizes and of the encoder's window from the write partition.
-/
namespace LzmaVerif.Props.C07
open LzmaVerif

theorem bcj_writer_partition_free (a : Filters.Arch) (start : Nat) (parts : List (List Nat)) :
    BcjStream.writeParts a start parts = Filters.oneShot a true start parts.flatten :=
  BcjStream.writeParts_eq_oneShot a start parts

theorem bcj_reader_schedule_free (a : Filters.Arch) (start : Nat) (src sizes grants : List Nat)
    (hnz : ∃ x ∈ sizes, x ≠ 0) :
    BcjStream.readAll a start src sizes grants = Filters.oneShot a false start src :=
  BcjStream.readAll_eq_oneShot a start src sizes grants hnz

theorem zero_length_reads_are_harmless {σ : Type} (F : Stream.BlockFilter σ) (hF : Stream.Restartable F) (st : σ)
    (src sizes sizes' grants grants' : List Nat) (fuel fuel' : Nat)
    (hsame : sizes'.filter (· ≠ 0) = sizes.filter (· ≠ 0)) (hnz : ∃ x ∈ sizes, x ≠ 0)
    (hfuel : sizes.count 0 + src.length < fuel) (hfuel' : sizes'.count 0 + src.length < fuel') :
    Stream.rRun F fuel' (Stream.rInit st src) sizes' grants' [] = Stream.rRun F fuel (Stream.rInit st src) sizes grants [] :=
  Stream.rRun_insert_zeros F hF st src sizes sizes' grants grants' fuel fuel' hsame hnz hfuel hfuel'

open Filters in
theorem delta_run_append (f : Delta → Nat → Nat × Delta) (d : Delta) (xs ys : List Nat) :
    Delta.run f d (xs ++ ys) =
      ((Delta.run f d xs).1 ++ (Delta.run f (Delta.run f d xs).2 ys).1, (Delta.run f (Delta.run f d xs).2 ys).2) := by
  induction xs generalizing d with
  | nil => simp [Delta.run]
  | cons x xs ih =>
    simp only [List.cons_append, Delta.run]
    rw [ih]

/-- the Delta writer/reader over any partition = over the concatenation -/
theorem delta_partition_free (f : Filters.Delta → Nat → Nat × Filters.Delta) (d : Filters.Delta) (xs ys : List Nat) :
    (Filters.Delta.run f d (xs ++ ys)).1 =
      (Filters.Delta.run f d xs).1 ++ (Filters.Delta.run f (Filters.Delta.run f d xs).2 ys).1 := by
  rw [delta_run_append]

theorem container_cutting_partition_free (lim : Nat) (hl : 2 ≤ lim) (p q : List Nat) (h : p.sum = q.sum) :
    Split.xzBlocks lim p = Split.xzBlocks lim q ∧ Split.lzipMembers lim p = Split.lzipMembers lim q ∧
    Split.mtUnits lim p = Split.mtUnits lim q := by
  refine ⟨Split.xzBlocks_partition_independent lim hl p q h, ?_, Split.mtUnits_partition_independent lim (by omega) p q h⟩
  rw [Split.lzipMembers_eq lim hl p, Split.lzipMembers_eq lim hl q, h]

end LzmaVerif.Props.C07
