import LzmaVerif.Proofs.Stream
import LzmaVerif.Proofs.Split
import LzmaVerif.Proofs.LzDecoder
import LzmaVerif.Proofs.EncWindow
import LzmaVerif.Proofs.RcNormalize
/-!
# C07 — results do not depend on how callers split writes, flushes and reads

Theorems (for EVERY input, EVERY partition into write calls incl. empty ones, EVERY sequence of read
buffer sizes incl. zero-length and one-byte buffers, EVERY pattern of short reads of the inner source):

* `bcj_writer_partition_free` – the streaming BCJ writer used inside `XZWriter` emits, for all eight
  architectures, exactly the one-shot filtering of the concatenated input;
* `bcj_reader_schedule_free` – `BCJReader` yields exactly the one-shot decoding of its source for every
  sequence of destination sizes and every sequence of short inner reads;
* `zero_length_reads_are_harmless` – inserting zero-length reads anywhere changes nothing;
* `delta_partition_free` – the Delta coder carries its state across calls: coding `xs ++ ys` is coding
  `xs`, then `ys` from the state reached;
* `container_cutting_partition_free` – block/member/unit boundaries depend on byte counts only.

The streaming models (`Model/Stream.lean`, `Model/BcjStream.lean`) are run against the real
`BCJWriter`/`BCJReader` on every check (random partitions, buffer schedules and short reads).
* `rc_call_boundaries_unobservable` – the normalisations with which `LZMADecoder::decode` closes every call change
  neither the decisions nor the bytes consumed, for every segmentation into calls.
-/
namespace LzmaVerif.Props.C07
open LzmaVerif

theorem bcj_writer_partition_free (a : Filters.Arch) (start : Nat) (parts : List (List Nat)) :
    BcjStream.writeParts a start parts = Filters.oneShot a true start parts.flatten :=
  BcjStream.writeParts_eq_oneShot a start parts

theorem bcj_reader_schedule_free (a : Filters.Arch) (start : Nat) (src sizes grants : List Nat)
    (hnz : ∃ x ∈ sizes, x ≠ 0) :
    BcjStream.readAll a start src sizes grants = Filters.oneShot a false start src :=
  BcjStream.readAll_eq_oneShot a start src sizes grants hnz

theorem zero_length_reads_are_harmless {σ : Type} (F : Stream.BlockFilter σ) (hF : Stream.Restartable F) (st : σ)
    (src sizes sizes' grants grants' : List Nat) (fuel fuel' : Nat)
    (hsame : sizes'.filter (· ≠ 0) = sizes.filter (· ≠ 0)) (hnz : ∃ x ∈ sizes, x ≠ 0)
    (hfuel : sizes.count 0 + src.length < fuel) (hfuel' : sizes'.count 0 + src.length < fuel') :
    Stream.rRun F fuel' (Stream.rInit st src) sizes' grants' [] = Stream.rRun F fuel (Stream.rInit st src) sizes grants [] :=
  Stream.rRun_insert_zeros F hF st src sizes sizes' grants grants' fuel fuel' hsame hnz hfuel hfuel'

open Filters in
theorem delta_run_append (f : Delta → Nat → Nat × Delta) (d : Delta) (xs ys : List Nat) :
    Delta.run f d (xs ++ ys) =
      ((Delta.run f d xs).1 ++ (Delta.run f (Delta.run f d xs).2 ys).1, (Delta.run f (Delta.run f d xs).2 ys).2) := by
  induction xs generalizing d with
  | nil => simp [Delta.run]
  | cons x xs ih =>
    simp only [List.cons_append, Delta.run]
    rw [ih]

/-- the Delta writer/reader over any partition = over the concatenation -/
theorem delta_partition_free (f : Filters.Delta → Nat → Nat × Filters.Delta) (d : Filters.Delta) (xs ys : List Nat) :
    (Filters.Delta.run f d (xs ++ ys)).1 =
      (Filters.Delta.run f d xs).1 ++ (Filters.Delta.run f (Filters.Delta.run f d xs).2 ys).1 := by
  rw [delta_run_append]

theorem container_cutting_partition_free (lim : Nat) (hl : 2 ≤ lim) (p q : List Nat) (h : p.sum = q.sum) :
    Split.xzBlocks lim p = Split.xzBlocks lim q ∧ Split.lzipMembers lim p = Split.lzipMembers lim q ∧
    Split.mtUnits lim p = Split.mtUnits lim q := by
  refine ⟨Split.xzBlocks_partition_independent lim hl p q h, ?_, Split.mtUnits_partition_independent lim (by omega) p q h⟩
  rw [Split.lzipMembers_eq lim hl p, Split.lzipMembers_eq lim hl q, h]

/-! ## The LZMA readers: the cyclic dictionary against the history model

`lz_reader_partition_free`: the decoder's cyclic dictionary buffer (`lz::LZDecoder`: put_byte, repeat with
its wrap-around / direct / overlapping copy branches, matches cut by the read limit and completed by
`repeat_pending`, `flush` wrapping the position) driven by the reader loop hands out, for EVERY list of read
sizes with the same sum, the same bytes – namely the one-shot history of the symbols (`lz_reader_refines`).
The model is tied to the code by the hook `verif_hooks::lz_decoder_script` (driver `lzdec.run`). -/

theorem lz_reader_refines (dict : Nat) (preset : Option (List Nat)) (syms : List LzDecoder.Sym) (sizes : List Nat)
    (hd : 1 ≤ dict) (hadm : LzDecoder.Admissible dict (LzDecoder.presetUsed dict preset).toArray syms) :
    ∃ s' rest, LzDecoder.readAll (LzDecoder.new dict preset) sizes syms =
      .ok (((LzDecoder.applySyms (LzDecoder.presetUsed dict preset).toArray syms).toList.drop
              (LzDecoder.presetUsed dict preset).length).take sizes.sum, s', rest) :=
  LzDecoder.readAll_refine dict preset syms sizes hd hadm

theorem lz_reader_partition_free (dict : Nat) (preset : Option (List Nat)) (syms : List LzDecoder.Sym)
    (sizes₁ sizes₂ : List Nat) (hd : 1 ≤ dict)
    (hadm : LzDecoder.Admissible dict (LzDecoder.presetUsed dict preset).toArray syms)
    (hsum : sizes₁.sum = sizes₂.sum) :
    (LzDecoder.readAll (LzDecoder.new dict preset) sizes₁ syms).map (·.1) =
      (LzDecoder.readAll (LzDecoder.new dict preset) sizes₂ syms).map (·.1) :=
  LzDecoder.readAll_partition_free dict preset syms sizes₁ sizes₂ hd hadm hsum

/-! ## The LZMA readers: where a `read` call ends does not matter to the range decoder

`LZMADecoder::decode` closes every call with `rc.normalize()`; the calls end where the caller's buffers (and the
wrap-around of the dictionary buffer) make them end.  `rc_call_boundaries_unobservable`: for EVERY segmentation of the
decoding into calls (a list of decision programs), EVERY table of probabilities in range and EVERY decoder state a
decoder operation can leave (`2^16 ≤ range`), the run with a normalisation after each call and the run without any
take the same decisions, adapt the probabilities identically and - closed by the final normalisation - end in the same
decoder state: the same source bytes consumed, the same count of bytes requested past the end of the source.  With
`lz_reader_partition_free` (the dictionary hands out the same bytes for every list of read sizes) this covers both
mechanisms through which the buffer sizes reach the LZMA decoder.  What remains schedule dependent in the real reader:
how much of the decoded data has been handed out when an error is reported (the bytes decoded during the failing
`read` call are dropped with it); the error CLASS is not (oracle `error-class-depends-on-read-sizes`, C04/C05/C06).
Not proved: the composition of the two theorems into one statement about a reader model with the read schedule as
input (the whole-stream model `Lzma.decodeRaw` has no calls). -/

theorem rc_call_boundaries_unobservable {α : Type} (segs : List (Prog α)) (ps : Rc.Probs) (d : Rc.Dec)
    (hps : Rc.ProbsOk ps) (hd : Rc.RangeOk d) :
    (Prog.segRun true segs ps d).1 = (Prog.segRun false segs ps d).1 ∧
    (Prog.segRun true segs ps d).2.1 = (Prog.segRun false segs ps d).2.1 ∧
    (Prog.segRun true segs ps d).2.2.normalize = (Prog.segRun false segs ps d).2.2.normalize :=
  Prog.segRun_eq segs ps d d hps hd (Or.inl rfl)

/-- non-vacuity: the hypotheses hold for a concrete state and two one-bit calls, and the normalisation between the
    calls really reads a byte there (one byte less is left after the first call) -/
example : Rc.RangeOk Prog.exDec ∧
    (Prog.segRun true [Prog.exSeg] #[1024] Prog.exDec).2.2.inp.length + 1
      = (Prog.segRun false [Prog.exSeg] #[1024] Prog.exDec).2.2.inp.length :=
  ⟨by unfold Rc.RangeOk Prog.exDec; decide, by decide⟩

/-! ## The LZMA writers: what the search can see does not depend on the write partition

The encoder's search (match finders, parsers) is not modelled; `encoder_view_partition_free` shows that it is
always shown the same VIEW: for every oracle standing for the search (any function of the views seen so far,
constrained only by the read-ahead bound of its mode) and any two partitions of the same bytes into write
calls, the sequence of views (position, look-back of min(pos, dict) bytes, look-ahead capped by what the code
can observe, match length limit) at every `move_pos` is identical – window moves, pending bytes and the
finishing flag included.  `encoder_lookahead_constants`: the constants EXTRA_SIZE_AFTER re-extracted from the
source cover the read-ahead of both modes; `encoder_small_lookahead_witness`: with the constant reduced by
MATCH_LEN_MAX (a seeded change) the views DO depend on the partition. -/

theorem encoder_view_partition_free (dict nice : Nat) (mode : EncWindow.Mode) (mf : EncWindow.MF) (lzma2 : Bool)
    (hd : Consts.DICT_SIZE_MIN ≤ dict) (hn1 : 4 ≤ nice) (hn2 : nice ≤ Consts.MATCH_LEN_MAX)
    (O : EncWindow.Oracle) (parts₁ parts₂ : List (List Nat)) (h : parts₁.flatten = parts₂.flatten) :
    EncWindow.traceOf EncWindow.listBuf (EncWindow.mkParams dict nice mode mf lzma2) O parts₁ =
      EncWindow.traceOf EncWindow.listBuf (EncWindow.mkParams dict nice mode mf lzma2) O parts₂ :=
  EncWindow.view_independence_real dict nice mode mf lzma2 hd hn1 hn2 O parts₁ parts₂ h

theorem encoder_lookahead_constants (m : EncWindow.Mode) :
    m.maxAhead ≤ m.extraAfter ∧ m.availCap ≤ m.extraAfter + Consts.MATCH_LEN_MAX :=
  EncWindow.extra_after_covers_search m

theorem encoder_small_lookahead_witness :
    ((EncWindow.traceOf EncWindow.noBuf EncWindow.seededFast EncWindow.greedyMax (EncWindow.cyclicParts 0 [546])).map (·.matchLimit))[273]? = some 273 ∧
    ((EncWindow.traceOf EncWindow.noBuf EncWindow.seededFast EncWindow.greedyMax (EncWindow.cyclicParts 0 [274, 272])).map (·.matchLimit))[273]? = some 0 :=
  EncWindow.small_extra_after_breaks_independence

end LzmaVerif.Props.C07
