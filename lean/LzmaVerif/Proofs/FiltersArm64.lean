import LzmaVerif.Proofs.FiltersBase
import LzmaVerif.Proofs.FiltersBits
/-! ARM64 BCJ filter: decoding inverts encoding. Core Lean only. -/
namespace LzmaVerif.Filters
open LzmaVerif.Bits

def a64BL (W : Nat) : Prop := (W >>> 26) &&& 0x3F = 0x25
def a64BLDest (enc : Bool) (p W : Nat) : Nat :=
  ((if enc then wadd W (p >>> 2) else wsub W (p >>> 2)) &&& 0x03FFFFFF) ||| 0x94000000
def a64ADRP (W : Nat) : Prop := (W >>> 24) &&& 0x9F = 0x90
def a64Addr (W : Nat) : Nat := ((W >>> 29) &&& 3) ||| ((W >>> 3) &&& 0x001FFFFC)
def a64InRange (W : Nat) : Prop := (wadd (a64Addr W) 0x00020000) &&& 0x001C0000 = 0
def a64ADRPDest (enc : Bool) (p W : Nat) : Nat :=
  let dest := 0x90000000 ||| (W &&& 0x1F)
  let addr := if enc then wadd (a64Addr W) (p >>> 12) else wsub (a64Addr W) (p >>> 12)
  let dest := dest ||| ((addr &&& 3) <<< 29)
  let dest := dest ||| ((addr &&& 0x0003FFFC) <<< 3)
  dest ||| (if addr &&& 0x00020000 ≠ 0 then 0x00E00000 else 0)

instance (W : Nat) : Decidable (a64BL W) := inferInstanceAs (Decidable ((W >>> 26) &&& 0x3F = 0x25))
instance (W : Nat) : Decidable (a64ADRP W) := inferInstanceAs (Decidable ((W >>> 24) &&& 0x9F = 0x90))
instance (W : Nat) : Decidable (a64InRange W) :=
  inferInstanceAs (Decidable ((wadd (a64Addr W) 0x00020000) &&& 0x001C0000 = 0))

theorem a64BL_iff (W : Nat) : a64BL W ↔ W / 2 ^ 26 % 64 = 0x25 := by
  unfold a64BL; rw [shr_eq, and_3F]

theorem a64BLDest_eq (enc : Bool) (p W : Nat) :
    a64BLDest enc p W =
      (if enc then (W + p / 2 ^ 2) % 2 ^ 32 else (W + 2 ^ 32 - p / 2 ^ 2 % 2 ^ 32) % 2 ^ 32) % 2 ^ 26 + 0x94000000 := by
  unfold a64BLDest
  rw [and_3FFFFFF, or_disj' _ _ 26 (Nat.mod_lt _ (by decide)) (by decide), shr_eq]
  simp only [wadd, wsub]

theorem a64ADRP_iff (W : Nat) : a64ADRP W ↔ W / 2 ^ 24 / 2 ^ 7 % 2 * 2 ^ 7 + W / 2 ^ 24 % 32 = 0x90 := by
  unfold a64ADRP; rw [shr_eq, and_9F]

theorem a64Addr_eq (W : Nat) : a64Addr W = W / 2 ^ 29 % 4 + W / 2 ^ 3 / 2 ^ 2 % 2 ^ 19 * 2 ^ 2 := by
  unfold a64Addr
  rw [shr_eq, shr_eq, and_3, and_1FFFFC, or_disj' _ _ 2 (by omega) (by omega)]

theorem a64InRange_iff (W : Nat) : a64InRange W ↔ (a64Addr W + 0x20000) % 2 ^ 32 / 2 ^ 18 % 2 ^ 3 * 2 ^ 18 = 0 := by
  unfold a64InRange; rw [and_1C0000]; simp only [wadd]

/-- the ADRP re-encoding of an address `A` into the word `W` (keeps `Rd`) -/
def a64Enc (W A : Nat) : Nat :=
  0x90000000 + W % 32 + A % 4 * 2 ^ 29 + A / 2 ^ 2 % 2 ^ 16 * 2 ^ 2 * 2 ^ 3 +
    (if A / 2 ^ 17 % 2 = 1 then 0x00E00000 else 0)

theorem a64Enc_eq (W A : Nat) :
    (((0x90000000 ||| (W &&& 0x1F)) ||| ((A &&& 3) <<< 29)) ||| ((A &&& 0x0003FFFC) <<< 3)) |||
      (if A &&& 0x00020000 ≠ 0 then 0x00E00000 else 0) = a64Enc W A := by
  rw [and_1F, and_3, and_3FFFC, and_20000, shl_eq, shl_eq]
  rw [or_disj 0x90000000 (W % 32) 5 (by decide) (Nat.mod_lt _ (by decide))]
  rw [or_mid (0x90000000 + W % 32) (A % 4 * 2 ^ 29) 0x80000000 (0x10000000 + W % 32) 29 31
    (by omega) (by decide) (by omega) (by omega) (by omega)]
  rw [or_mid (0x90000000 + W % 32 + A % 4 * 2 ^ 29) (A / 2 ^ 2 % 2 ^ 16 * 2 ^ 2 * 2 ^ 3)
    (0x90000000 + A % 4 * 2 ^ 29) (W % 32) 5 21 (by omega) (by omega) (by omega) (by omega) (by omega)]
  unfold a64Enc
  by_cases h : A / 2 ^ 17 % 2 = 1
  · rw [if_pos h, if_pos (by omega)]
    rw [or_mid _ 0x00E00000 (0x90000000 + A % 4 * 2 ^ 29) (W % 32 + A / 2 ^ 2 % 2 ^ 16 * 2 ^ 2 * 2 ^ 3) 21 24
      (by omega) (by omega) (by omega) (by omega) (by omega)]
  · rw [if_neg h, if_neg (by omega), Nat.or_zero, Nat.add_zero]

theorem a64ADRPDest_eq (enc : Bool) (p W : Nat) :
    a64ADRPDest enc p W = a64Enc W
      (if enc then (a64Addr W + p / 2 ^ 12) % 2 ^ 32 else (a64Addr W + 2 ^ 32 - p / 2 ^ 12 % 2 ^ 32) % 2 ^ 32) := by
  simp only [a64ADRPDest]
  rw [a64Enc_eq, shr_eq]
  simp only [wadd, wsub]

/-- the transformed word (the word itself if no pattern applies) -/
def a64T (enc : Bool) (p W : Nat) : Nat :=
  if a64BL W then a64BLDest enc p W
  else if a64ADRP W ∧ a64InRange W then a64ADRPDest enc p W
  else W

theorem a64Enc_atoms (W A : Nat) :
    a64Enc W A = 0x90000000 + W % 32 + A % 4 * 2 ^ 29 + A / 2 ^ 2 % 2 ^ 16 * 32 +
      A / 2 ^ 2 % 2 ^ 16 / 2 ^ 15 * 0x00E00000 := by
  unfold a64Enc
  by_cases h : A / 2 ^ 17 % 2 = 1
  · rw [if_pos h]; omega
  · rw [if_neg h]; omega

theorem enc_atoms (r f m N : Nat) (hr : r < 32) (hf : f < 4) (hm : m < 2 ^ 16)
    (hN : N = 0x90000000 + r + f * 2 ^ 29 + m * 32 + (m / 2 ^ 15) * 0x00E00000) :
    N < 2 ^ 32 ∧ N / 2 ^ 26 % 64 ≠ 0x25 ∧ N / 2 ^ 24 / 2 ^ 7 % 2 * 2 ^ 7 + N / 2 ^ 24 % 32 = 0x90 ∧
    (N / 2 ^ 29 % 4 + N / 2 ^ 3 / 2 ^ 2 % 2 ^ 19 * 2 ^ 2 + 0x20000) % 2 ^ 32 / 2 ^ 18 % 2 ^ 3 * 2 ^ 18 = 0 ∧
    N % 32 = r ∧ (N / 2 ^ 29 % 4 + N / 2 ^ 3 / 2 ^ 2 % 2 ^ 19 * 2 ^ 2) % 2 ^ 18 = f + 4 * m := by
  have h1 : N / 2 ^ 29 = 4 + f := by omega
  have h2 : N / 2 ^ 3 / 2 ^ 2 % 2 ^ 19 = m + (m / 2 ^ 15) * 0x70000 := by omega
  have h3 : N / 2 ^ 24 = 0x90 + 32 * f := by omega
  refine ⟨?_, ?_, ?_, ?_, ?_, ?_⟩
  · omega
  · omega
  · rw [h3]; omega
  · rw [h1, h2]; clear hN h1 h2 h3
    have hs : m / 2 ^ 15 = 0 ∨ m / 2 ^ 15 = 1 := by omega
    rcases hs with hs | hs <;> rw [hs] <;> omega
  · omega
  · rw [h1, h2]; clear hN h1 h2 h3; omega

/-- what the decoder sees in an ADRP-encoded word -/
theorem a64Enc_props (W A N : Nat) (hN : N = a64Enc W A) :
    N < 2 ^ 32 ∧ ¬ a64BL N ∧ a64ADRP N ∧ a64InRange N ∧ N % 32 = W % 32 ∧
      a64Addr N % 2 ^ 18 = A % 2 ^ 18 := by
  rw [a64BL_iff, a64ADRP_iff, a64InRange_iff, a64Addr_eq]
  rw [a64Enc_atoms] at hN
  obtain ⟨p1, p2, p3, p4, p5, p6⟩ := enc_atoms (W % 32) (A % 4) (A / 2 ^ 2 % 2 ^ 16) N
    (Nat.mod_lt _ (by decide)) (Nat.mod_lt _ (by decide)) (Nat.mod_lt _ (by decide)) hN
  refine ⟨p1, p2, p3, p4, p5, ?_⟩
  rw [p6]; omega

theorem a64Enc_congr (W W' A A' : Nat) (hW : W % 32 = W' % 32) (hA : A % 2 ^ 18 = A' % 2 ^ 18) :
    a64Enc W A = a64Enc W' A' := by
  rw [a64Enc_atoms, a64Enc_atoms, hW]
  have e1 : A % 4 = A' % 4 := by omega
  have e2 : A / 2 ^ 2 % 2 ^ 16 = A' / 2 ^ 2 % 2 ^ 16 := by omega
  rw [e1, e2]

theorem adrp_decomp (W : Nat) (hW : W < 2 ^ 32)
    (h1 : W / 2 ^ 24 / 2 ^ 7 % 2 * 2 ^ 7 + W / 2 ^ 24 % 32 = 0x90) :
    W = 0x90000000 + W % 32 + (W / 2 ^ 29 % 4) * 2 ^ 29 + (W / 2 ^ 3 / 2 ^ 2 % 2 ^ 19) * 32 := by
  omega

theorem adrp_range (l h : Nat) (hl : l < 4) (hh : h < 2 ^ 19)
    (hr : (l + h * 2 ^ 2 + 0x20000) % 2 ^ 32 / 2 ^ 18 % 2 ^ 3 * 2 ^ 18 = 0) :
    h = h % 2 ^ 16 + (h % 2 ^ 16 / 2 ^ 15) * 0x70000 := by
  omega

theorem addr_fields (l h : Nat) (hl : l < 4) :
    (l + h * 2 ^ 2) % 4 = l ∧ (l + h * 2 ^ 2) / 2 ^ 2 % 2 ^ 16 = h % 2 ^ 16 := by
  omega

/-- an in-range ADRP word is the encoding of its own address -/
theorem a64Enc_self (W : Nat) (hW : W < 2 ^ 32) (h1 : a64ADRP W) (h2 : a64InRange W) :
    a64Enc W (a64Addr W) = W := by
  rw [a64ADRP_iff] at h1
  rw [a64InRange_iff, a64Addr_eq] at h2
  have hd := adrp_decomp W hW h1
  have hr := adrp_range (W / 2 ^ 29 % 4) (W / 2 ^ 3 / 2 ^ 2 % 2 ^ 19) (Nat.mod_lt _ (by decide))
    (Nat.mod_lt _ (by decide)) h2
  rw [a64Enc_atoms, a64Addr_eq]
  have hl : W / 2 ^ 29 % 4 < 4 := Nat.mod_lt _ (by decide)
  have hr32 : W % 32 < 32 := Nat.mod_lt _ (by decide)
  clear h1 h2
  generalize W / 2 ^ 29 % 4 = l at *
  generalize W / 2 ^ 3 / 2 ^ 2 % 2 ^ 19 = h at *
  generalize W % 32 = r at *
  obtain ⟨e1, e2⟩ := addr_fields l h hl
  rw [e1, e2]
  omega

theorem a64_sub_add (a q A A' aN : Nat) (hA : A = (a + q) % 2 ^ 32) (haN : aN % 2 ^ 18 = A % 2 ^ 18)
    (hA' : A' = (aN + 2 ^ 32 - q % 2 ^ 32) % 2 ^ 32) : A' % 2 ^ 18 = a % 2 ^ 18 := by
  omega

theorem a64T_lt (enc : Bool) (p W : Nat) (hW : W < 2 ^ 32) : a64T enc p W < 2 ^ 32 := by
  unfold a64T
  split
  · rw [a64BLDest_eq]; omega
  · split
    · rw [a64ADRPDest_eq]; exact (a64Enc_props _ _ _ rfl).1
    · exact hW

theorem a64T_inv (p W : Nat) (hW : W < 2 ^ 32) : a64T false p (a64T true p W) = W := by
  by_cases hBL : a64BL W
  · have e1 : a64T true p W = a64BLDest true p W := by unfold a64T; rw [if_pos hBL]
    rw [e1, a64BLDest_eq, if_pos rfl]
    rw [a64BL_iff] at hBL
    have hBL' : a64BL ((W + p / 2 ^ 2) % 2 ^ 32 % 2 ^ 26 + 0x94000000) := by
      rw [a64BL_iff]; omega
    unfold a64T
    rw [if_pos hBL', a64BLDest_eq, if_neg (by simp)]
    omega
  · by_cases hAD : a64ADRP W ∧ a64InRange W
    · have e1 : a64T true p W = a64ADRPDest true p W := by unfold a64T; rw [if_neg hBL, if_pos hAD]
      rw [e1, a64ADRPDest_eq, if_pos rfl]
      obtain ⟨n1, n2, n3, n4, n5, n6⟩ := a64Enc_props W ((a64Addr W + p / 2 ^ 12) % 2 ^ 32) _ rfl
      generalize hN : a64Enc W ((a64Addr W + p / 2 ^ 12) % 2 ^ 32) = N at *
      unfold a64T
      rw [if_neg n2, if_pos ⟨n3, n4⟩, a64ADRPDest_eq, if_neg (by simp)]
      have k := a64_sub_add (a64Addr W) (p / 2 ^ 12) _ _ (a64Addr N) rfl n6 rfl
      rw [a64Enc_congr N W _ (a64Addr W) n5 k]
      exact a64Enc_self W hW hAD.1 hAD.2
    · have e1 : ∀ enc, a64T enc p W = W := by intro enc; unfold a64T; rw [if_neg hBL, if_neg hAD]
      rw [e1, e1]

theorem a64_excl (W : Nat) (h : a64BL W) : ¬ a64ADRP W := by
  rw [a64BL_iff] at h
  rw [a64ADRP_iff]
  omega

/-! ### the step on buffers -/

def put4 (b : Buf) (i dest : Nat) : Buf :=
  sb (sb (sb (sb b (i + 3) (dest >>> 24)) (i + 2) (dest >>> 16)) (i + 1) (dest >>> 8)) i dest

def leWord (b : Buf) (i : Nat) : Nat :=
  gb b i + 256 * gb b (i + 1) + 65536 * gb b (i + 2) + 16777216 * gb b (i + 3)

def arm64Step (enc : Bool) (st : St) (i : Nat) (b : Buf) : Buf :=
  let b1 := if a64BL (leWord b i) then put4 b i (a64BLDest enc (posAt st i) (leWord b i)) else b
  if a64ADRP (leWord b i) then
    if a64InRange (leWord b i) then put4 b1 i (a64ADRPDest enc (posAt st i) (leWord b i)) else b1
  else b1

theorem arm64Loop_eq_scan (enc : Bool) (st : St) : ∀ fuel i b,
    arm64Loop enc st fuel i b = scan 4 (fun i b => (arm64Step enc st i b, 4)) fuel i b := by
  intro fuel
  induction fuel with
  | zero => intro i b; rfl
  | succ n ih =>
    intro i b
    simp only [arm64Loop, scan]
    split
    · rfl
    · rw [← ih]; rfl

theorem put4_size (b : Buf) (i d : Nat) : (put4 b i d).size = b.size := by
  simp only [put4, size_sb]

theorem put4_frame (b : Buf) (i d k : Nat) (hk : k < i ∨ i + 4 ≤ k) : gb (put4 b i d) k = gb b k := by
  simp only [put4]
  rw [gb_sb_ne _ _ _ _ (by omega), gb_sb_ne _ _ _ _ (by omega), gb_sb_ne _ _ _ _ (by omega),
    gb_sb_ne _ _ _ _ (by omega)]

theorem put4_bytes (b : Buf) (i d : Nat) (h : BBytes b) : BBytes (put4 b i d) :=
  BBytes_sb _ _ _ (BBytes_sb _ _ _ (BBytes_sb _ _ _ (BBytes_sb _ _ _ h)))

theorem put4_agree (b b' : Buf) (i d : Nat) (h : Agree i 4 b b') : Agree i 4 (put4 b i d) (put4 b' i d) :=
  (((h.sb _ _).sb _ _).sb _ _).sb _ _

theorem put4_get (b : Buf) (i d : Nat) (hw : i + 4 ≤ b.size) :
    gb (put4 b i d) i = d % 256 ∧ gb (put4 b i d) (i + 1) = d / 2 ^ 8 % 256 ∧
    gb (put4 b i d) (i + 2) = d / 2 ^ 16 % 256 ∧ gb (put4 b i d) (i + 3) = d / 2 ^ 24 % 256 := by
  simp only [put4, ← shr_eq]
  refine ⟨?_, ?_, ?_, ?_⟩
  · rw [gb_sb_eq _ _ _ (by simp only [size_sb]; omega)]
  · rw [gb_sb_ne _ _ _ _ (by omega), gb_sb_eq _ _ _ (by simp only [size_sb]; omega)]
  · rw [gb_sb_ne _ _ _ _ (by omega), gb_sb_ne _ _ _ _ (by omega),
      gb_sb_eq _ _ _ (by simp only [size_sb]; omega)]
  · rw [gb_sb_ne _ _ _ _ (by omega), gb_sb_ne _ _ _ _ (by omega), gb_sb_ne _ _ _ _ (by omega),
      gb_sb_eq _ _ _ (by omega)]

theorem arm64Step_eq (enc : Bool) (st : St) (i : Nat) (b : Buf) :
    arm64Step enc st i b =
      if a64BL (leWord b i) then put4 b i (a64BLDest enc (posAt st i) (leWord b i))
      else if a64ADRP (leWord b i) ∧ a64InRange (leWord b i) then
        put4 b i (a64ADRPDest enc (posAt st i) (leWord b i))
      else b := by
  unfold arm64Step
  by_cases hBL : a64BL (leWord b i)
  · have hAD := a64_excl _ hBL
    simp only [if_pos hBL, if_neg hAD]
  · by_cases hAD : a64ADRP (leWord b i)
    · by_cases hR : a64InRange (leWord b i)
      · simp only [if_neg hBL, if_pos hAD, if_pos hR]
        rw [if_pos ⟨hAD, hR⟩]
      · simp only [if_neg hBL, if_pos hAD, if_neg hR]
        rw [if_neg (fun h => hR h.2)]
    · simp only [if_neg hBL, if_neg hAD]
      rw [if_neg (fun h => hAD h.1)]

theorem arm64Step_size (enc : Bool) (st : St) (i : Nat) (b : Buf) : (arm64Step enc st i b).size = b.size := by
  rw [arm64Step_eq]
  split
  · exact put4_size _ _ _
  · split
    · exact put4_size _ _ _
    · rfl

theorem arm64Step_frame (enc : Bool) (st : St) (i : Nat) (b : Buf) (k : Nat) (hk : k < i ∨ i + 4 ≤ k) :
    gb (arm64Step enc st i b) k = gb b k := by
  rw [arm64Step_eq]
  split
  · exact put4_frame _ _ _ _ hk
  · split
    · exact put4_frame _ _ _ _ hk
    · rfl

theorem arm64Step_bytes (enc : Bool) (st : St) (i : Nat) (b : Buf) (h : BBytes b) :
    BBytes (arm64Step enc st i b) := by
  rw [arm64Step_eq]
  split
  · exact put4_bytes _ _ _ h
  · split
    · exact put4_bytes _ _ _ h
    · exact h

theorem leWord_agree (i : Nat) (b b' : Buf) (h : Agree i 4 b b') : leWord b' i = leWord b i := by
  simp only [leWord, h.2 i (by omega) (by omega), h.2 (i + 1) (by omega) (by omega),
    h.2 (i + 2) (by omega) (by omega), h.2 (i + 3) (by omega) (by omega)]

theorem arm64Step_loc (enc : Bool) (st : St) (i : Nat) (b b' : Buf) (h : Agree i 4 b b') :
    Agree i 4 (arm64Step enc st i b) (arm64Step enc st i b') := by
  rw [arm64Step_eq, arm64Step_eq, leWord_agree i b b' h]
  split
  · exact put4_agree _ _ _ _ h
  · split
    · exact put4_agree _ _ _ _ h
    · exact h

theorem leWord_bytes (b : Buf) (i : Nat) (hB : BBytes b) :
    gb b i = leWord b i % 256 ∧ gb b (i + 1) = leWord b i / 2 ^ 8 % 256 ∧
    gb b (i + 2) = leWord b i / 2 ^ 16 % 256 ∧ gb b (i + 3) = leWord b i / 2 ^ 24 % 256 := by
  have b0 := hB i; have b1 := hB (i + 1); have b2 := hB (i + 2); have b3 := hB (i + 3)
  simp only [leWord]
  omega

/-- the step writes the transformed word -/
theorem arm64Step_get (enc : Bool) (st : St) (i : Nat) (b : Buf) (hw : i + 4 ≤ b.size) (hB : BBytes b) :
    gb (arm64Step enc st i b) i = a64T enc (posAt st i) (leWord b i) % 256 ∧
    gb (arm64Step enc st i b) (i + 1) = a64T enc (posAt st i) (leWord b i) / 2 ^ 8 % 256 ∧
    gb (arm64Step enc st i b) (i + 2) = a64T enc (posAt st i) (leWord b i) / 2 ^ 16 % 256 ∧
    gb (arm64Step enc st i b) (i + 3) = a64T enc (posAt st i) (leWord b i) / 2 ^ 24 % 256 := by
  rw [arm64Step_eq]
  unfold a64T
  split
  · exact put4_get _ _ _ hw
  · split
    · exact put4_get _ _ _ hw
    · exact leWord_bytes b i hB

theorem le_word_of_bytes (T : Nat) (hT : T < 2 ^ 32) :
    T % 256 + 256 * (T / 2 ^ 8 % 256) + 65536 * (T / 2 ^ 16 % 256) + 16777216 * (T / 2 ^ 24 % 256) = T := by
  omega

theorem arm64Step_inv (st : St) (i : Nat) (b : Buf) (hB : BBytes b) (hw : i + 4 ≤ b.size) :
    arm64Step false st i (arm64Step true st i b) = b := by
  have b0 := hB i; have b1 := hB (i + 1); have b2 := hB (i + 2); have b3 := hB (i + 3)
  have hW : leWord b i < 2 ^ 32 := by simp only [leWord]; omega
  obtain ⟨g0, g1, g2, g3⟩ := arm64Step_get true st i b hw hB
  have hT := a64T_lt true (posAt st i) _ hW
  have hW' : leWord (arm64Step true st i b) i = a64T true (posAt st i) (leWord b i) := by
    unfold leWord
    rw [g0, g1, g2, g3]
    exact le_word_of_bytes _ hT
  obtain ⟨f0, f1, f2, f3⟩ := arm64Step_get false st i (arm64Step true st i b)
    (by rw [arm64Step_size]; exact hw) (arm64Step_bytes _ _ _ _ hB)
  rw [hW', a64T_inv _ _ hW] at f0 f1 f2 f3
  apply buf_ext
  · rw [arm64Step_size, arm64Step_size]
  · intro k _
    by_cases hwin : k < i ∨ i + 4 ≤ k
    · rw [arm64Step_frame _ _ _ _ _ hwin, arm64Step_frame _ _ _ _ _ hwin]
    · have : k = i ∨ k = i + 1 ∨ k = i + 2 ∨ k = i + 3 := by omega
      obtain ⟨w0, w1, w2, w3⟩ := leWord_bytes b i hB
      rcases this with rfl | rfl | rfl | rfl
      · rw [f0, w0]
      · rw [f1, w1]
      · rw [f2, w2]
      · rw [f3, w3]

theorem arm64_stepOK (st : St) :
    StepOK 4 (fun _ => True) (fun _ _ => 0) (fun i b => (arm64Step true st i b, 4)) (fun i b => (arm64Step false st i b, 4)) :=
  StepOK.fixed 4 _ _ _ (arm64Step_size _ _) (arm64Step_size _ _) (fun _ _ => trivial)
    (arm64Step_frame _ _) (arm64Step_frame _ _) (arm64Step_bytes _ _)
    (fun i b b' h _ => arm64Step_loc _ _ i b b' h)
    (fun i b _ hB hw => arm64Step_inv st i b hB hw)

/-- STRETCH: ARM64 (the alignment hypothesis is not needed by the proof) -/
theorem arm64_inv (start : Nat) (_hs : start % 4 = 0) (xs : List Nat) (h : Bytes xs) :
    oneShot .arm64 false start (oneShot .arm64 true start xs) = xs := by
  simp only [oneShot, code, arm64Loop_eq_scan]
  rw [Array.toArray_toList, scan_size _ (arm64Step_size _ _)]
  rw [scan_inv (arm64_stepOK _) _ _ trivial (BBytes_toArray xs h)]

end LzmaVerif.Filters
