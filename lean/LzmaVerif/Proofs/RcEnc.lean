import LzmaVerif.Model.Rc
import Mathlib.Tactic.Ring
import Mathlib.Tactic.Linarith
/-!
Refinement of the real range encoder (`Enc`: 33-bit `low`, `cache`, `cacheSize`, reversed `out`)
to a single unbounded number `val`.  `shiftLow` multiplies `val` by 256.
-/
namespace LzmaVerif.Rc

/-- big-endian value of a byte list -/
def num : List Nat → Nat
  | [] => 0
  | b :: bs => b * 256 ^ bs.length + num bs

theorem num_append (a b : List Nat) : num (a ++ b) = num a * 256 ^ b.length + num b := by
  induction a with
  | nil => simp [num]
  | cons x xs ih =>
    simp only [List.cons_append, num, List.length_append, ih]
    rw [Nat.pow_add]; ring

theorem num_replicate_zero (n : Nat) : num (List.replicate n 0) = 0 := by
  induction n with
  | zero => simp [num]
  | succ n ih => simp only [List.replicate_succ, num, ih]; omega

theorem num_replicate_ff (n : Nat) : num (List.replicate n 255) + 1 = 256 ^ n := by
  induction n with
  | zero => simp [num]
  | succ n ih =>
    simp only [List.replicate_succ, num, List.length_replicate]
    rw [Nat.pow_succ]; omega

theorem num_lt (bs : List Nat) (h : ∀ b ∈ bs, b < 256) : num bs < 256 ^ bs.length := by
  induction bs with
  | nil => simp [num]
  | cons x xs ih =>
    have hx : x < 256 := h x (by simp)
    have ih' := ih (fun b hb => h b (by simp [hb]))
    simp only [num, List.length_cons]
    rw [Nat.pow_succ]
    have : x * 256 ^ xs.length ≤ 255 * 256 ^ xs.length := Nat.mul_le_mul_right _ (by omega)
    omega

theorem pushN_reverse (n v : Nat) : ∀ acc : List Nat,
    (pushN n v acc).reverse = acc.reverse ++ List.replicate n v := by
  induction n with
  | zero => intro acc; simp [pushN]
  | succ n ih =>
    intro acc
    simp only [pushN, ih, List.reverse_cons, List.replicate_succ, List.append_assoc,
      List.singleton_append]

theorem pushN_length (n v : Nat) (acc : List Nat) : (pushN n v acc).length = acc.length + n := by
  have := congrArg List.length (pushN_reverse n v acc)
  simpa using this

theorem pushN_mem (n v : Nat) (acc : List Nat) (b : Nat) (h : b ∈ pushN n v acc) :
    b = v ∨ b ∈ acc := by
  have h' : b ∈ (pushN n v acc).reverse := List.mem_reverse.mpr h
  rw [pushN_reverse] at h'
  rcases List.mem_append.mp h' with h1 | h1
  · right; exact List.mem_reverse.mp h1
  · left; exact (List.mem_replicate.mp h1).2

/-- the number formed by the flushed bytes, the cache byte and the pending 0xFF bytes -/
def PP (s : Enc) : Nat :=
  num s.out.reverse * 256 ^ s.cacheSize + s.cache * 256 ^ (s.cacheSize - 1) + (256 ^ (s.cacheSize - 1) - 1)

/-- the number the encoder state denotes (the ideal, unbounded `low`) -/
def val (s : Enc) : Nat := PP s * 2^32 + s.low

/-- `val + range` may never reach this: a carry cannot propagate into the bytes already written -/
def capv (s : Enc) : Nat := (num s.out.reverse + 1) * 256 ^ s.cacheSize * 2^32

structure WF (s : Enc) : Prop where
  cs : 1 ≤ s.cacheSize
  cache : s.cache ≤ 255
  bytes : ∀ b ∈ s.out, b < 256

theorem shiftLow_flush (s : Enc) (h : s.low / 2^32 ≠ 0 ∨ s.low < 0xFF000000) :
    shiftLow s = { s with
      out := pushN (s.cacheSize - 1) ((0xFF + s.low / 2^32) % 256) (((s.cache + s.low / 2^32) % 256) :: s.out)
      cache := (s.low / 2^24) % 256
      cacheSize := 1
      low := (s.low % 2^24) * 256 } := by
  simp only [shiftLow]
  rw [if_pos h]

theorem shiftLow_defer (s : Enc) (h : ¬ (s.low / 2^32 ≠ 0 ∨ s.low < 0xFF000000)) :
    shiftLow s = { s with cacheSize := s.cacheSize + 1, low := (s.low % 2^24) * 256 } := by
  simp only [shiftLow]
  rw [if_neg h]

/-- value of the flushed prefix after a flush: old pending number plus carry -/
theorem flush_num (s : Enc) (hw : WF s) (carry : Nat)
    (hc : carry = 0 ∨ (carry = 1 ∧ s.cache ≤ 254)) :
    num (pushN (s.cacheSize - 1) ((0xFF + carry) % 256) (((s.cache + carry) % 256) :: s.out)).reverse
      = PP s + carry := by
  obtain ⟨n, hn⟩ : ∃ n, s.cacheSize = n + 1 := ⟨s.cacheSize - 1, by have := hw.cs; omega⟩
  have hcache := hw.cache
  rw [pushN_reverse, List.reverse_cons, num_append, num_append]
  simp only [PP, hn, Nat.add_sub_cancel, List.length_replicate, num, List.length_cons,
    List.length_nil, Nat.pow_zero, Nat.mul_one, Nat.add_zero]
  have hff := num_replicate_ff n
  have hz := num_replicate_zero n
  rcases hc with rfl | ⟨rfl, h254⟩
  · have e1 : (s.cache + 0) % 256 = s.cache := by omega
    have e2 : (255 + 0) % 256 = 255 := by omega
    rw [e1, e2, pow_succ 256 n, ← hff]
    generalize num (List.replicate n 255) = X
    generalize num s.out.reverse = O
    generalize s.cache = c
    simp only [Nat.add_sub_cancel]
    ring
  · have e1 : (s.cache + 1) % 256 = s.cache + 1 := by omega
    have e2 : (255 + 1) % 256 = 0 := by omega
    rw [e1, e2, hz, pow_succ 256 n, ← hff]
    generalize num (List.replicate n 255) = X
    generalize num s.out.reverse = O
    generalize s.cache = c
    simp only [Nat.add_sub_cancel]
    ring

/-- **`shiftLow` multiplies the denoted number by 256** and preserves all invariants.
`r` is the width of the current interval (`range`, or anything positive and smaller). -/
theorem shiftLow_spec (s : Enc) (r : Nat) (hw : WF s) (hr0 : 0 < r) (hr : r ≤ 2^24)
    (hJ : s.low + r ≤ 2^33) (hcap : val s + r ≤ capv s) :
    WF (shiftLow s) ∧ (shiftLow s).low = (s.low % 2^24) * 256 ∧
    val (shiftLow s) = 256 * val s ∧
    val (shiftLow s) + 256 * r ≤ capv (shiftLow s) ∧
    (shiftLow s).out.length + (shiftLow s).cacheSize = s.out.length + s.cacheSize + 1 ∧
    (shiftLow s).range = s.range ∧
    (s.low = 0 → (shiftLow s).cacheSize = 1 ∧ (shiftLow s).cache = 0) := by
  have hcs := hw.cs
  by_cases h : s.low / 2^32 ≠ 0 ∨ s.low < 0xFF000000
  · -- flush
    rw [shiftLow_flush s h]
    have hcarry : s.low / 2^32 = 0 ∨ (s.low / 2^32 = 1 ∧ s.cache ≤ 254) := by
      by_cases h0 : s.low / 2^32 = 0
      · left; exact h0
      · right
        refine ⟨by omega, ?_⟩
        -- cache = 255 would make the cap forbid a carry
        rcases Nat.lt_or_ge s.cache 255 with hlt | hge
        · omega
        · exfalso
          have hc255 : s.cache = 255 := by have := hw.cache; omega
          obtain ⟨n, hn⟩ : ∃ n, s.cacheSize = n + 1 := ⟨s.cacheSize - 1, by omega⟩
          have hp : 1 ≤ 256 ^ n := Nat.one_le_pow _ _ (by decide)
          have hPP : PP s + 1 = (num s.out.reverse + 1) * 256 ^ s.cacheSize := by
            simp only [PP, hn, hc255, Nat.add_sub_cancel, Nat.pow_succ]
            generalize 256 ^ n = A at *
            obtain ⟨B, rfl⟩ : ∃ B, A = B + 1 := ⟨A - 1, by omega⟩
            simp only [Nat.add_sub_cancel]
            ring
          have hcap' : capv s = (PP s + 1) * 2^32 := by rw [hPP]; rfl
          rw [hcap'] at hcap
          simp only [val] at hcap
          omega
    have hnum := flush_num s hw (s.low / 2^32) hcarry
    refine ⟨⟨Nat.le_refl _, ?_, ?_⟩, rfl, ?_, ?_, ?_, rfl, ?_⟩
    · simp only; omega
    · intro b hb
      simp only at hb
      rcases pushN_mem _ _ _ _ hb with rfl | hb'
      · omega
      · rcases List.mem_cons.mp hb' with rfl | hb''
        · omega
        · exact hw.bytes b hb''
    · simp only [val]
      generalize PP s = P at *
      simp only [PP, hnum, Nat.pow_one, Nat.sub_self, Nat.pow_zero, Nat.mul_one, Nat.add_zero]
      omega
    · simp only [val, capv]
      generalize PP s = P at *
      simp only [PP, hnum, Nat.pow_one, Nat.sub_self, Nat.pow_zero, Nat.mul_one, Nat.add_zero]
      have hlr : s.low + r ≤ (s.low / 2^32 + 1) * 2^32 := by
        rcases hcarry with h0 | ⟨h1, _⟩
        · rw [h0]; omega
        · rw [h1]; omega
      have e : ∀ cy, (P + cy + 1) * 256 * 2^32 = 256 * (P * 2^32 + (cy + 1) * 2^32) := by
        intro cy; ring
      rw [e]
      omega
    · simp only [pushN_length, List.length_cons]; omega
    · intro h0; simp only [h0]; exact ⟨trivial, by decide⟩
  · -- defer
    rw [shiftLow_defer s h]
    have hlo1 : 0xFF000000 ≤ s.low := by omega
    have hlo2 : s.low < 2^32 := by
      rcases Nat.lt_or_ge s.low (2^32) with h' | h'
      · exact h'
      · exfalso; apply h; left
        have : 1 ≤ s.low / 2^32 := (Nat.le_div_iff_mul_le (by decide)).mpr (by omega)
        omega
    obtain ⟨n, hn⟩ : ∃ n, s.cacheSize = n + 1 := ⟨s.cacheSize - 1, by omega⟩
    have hp : 1 ≤ 256 ^ n := Nat.one_le_pow _ _ (by decide)
    have hval : val ({ s with cacheSize := s.cacheSize + 1, low := (s.low % 2^24) * 256 } : Enc)
        = 256 * val s := by
      simp only [val, PP, hn, Nat.add_sub_cancel]
      have hm : s.low % 2^24 = s.low - 0xFF000000 := by omega
      obtain ⟨l, hl⟩ : ∃ l, s.low = l + 0xFF000000 := ⟨s.low - 0xFF000000, by omega⟩
      rw [hm, hl, Nat.add_sub_cancel]
      rw [Nat.pow_succ, Nat.pow_succ]
      generalize 256 ^ n = A at *
      obtain ⟨B, rfl⟩ : ∃ B, A = B + 1 := ⟨A - 1, by omega⟩
      have e : (B + 1) * 256 - 1 = B * 256 + 255 := by omega
      rw [e]
      simp only [Nat.add_sub_cancel]
      ring
    have hcapv : capv ({ s with cacheSize := s.cacheSize + 1, low := (s.low % 2^24) * 256 } : Enc)
        = 256 * capv s := by
      simp only [capv, Nat.pow_succ]; ring
    refine ⟨⟨by simp only; omega, hw.cache, hw.bytes⟩, rfl, hval, ?_, ?_, rfl, ?_⟩
    · rw [hval, hcapv]; omega
    · simp only; omega
    · intro h0; omega

end LzmaVerif.Rc
