import LzmaVerif.Proofs.FiltersBase
import LzmaVerif.Proofs.FiltersBits
/-! SPARC BCJ filter: decoding inverts encoding. Core Lean only. -/
namespace LzmaVerif.Filters
open LzmaVerif.Bits


def sparcRec (b0 b1 : Nat) : Prop := (b0 = 0x40 ∧ b1 &&& 0xC0 = 0) ∨ (b0 = 0x7F ∧ b1 &&& 0xC0 = 0xC0)
instance (b0 b1 : Nat) : Decidable (sparcRec b0 b1) :=
  inferInstanceAs (Decidable ((b0 = 0x40 ∧ b1 &&& 0xC0 = 0) ∨ (b0 = 0x7F ∧ b1 &&& 0xC0 = 0xC0)))

def sparcDest (enc : Bool) (p b0 b1 b2 b3 : Nat) : Nat :=
  let src := (b0 <<< 24) ||| (b1 <<< 16) ||| (b2 <<< 8) ||| b3
  let src := u32 (src * 4)
  let dest := (if enc then wadd src p else wsub src p) / 4
  let sign := (dest >>> 22) &&& 1
  ((if sign = 1 then 0x3FC00000 else 0) ||| (dest &&& 0x3FFFFF)) ||| 0x40000000

/-- the normal form of a recognised word: `01`, then bit 22 replicated, then bits 21..0 -/
def sparcNF (d : Nat) : Nat := 2 ^ 30 + (if d / 2 ^ 22 % 2 = 1 then 0x3FC00000 else 0) + d % 2 ^ 22

theorem sparcNF_cases (d : Nat) :
    (d / 2 ^ 22 % 2 = 1 ∧ sparcNF d = 2 ^ 30 + 0x3FC00000 + d % 2 ^ 22) ∨
    (d / 2 ^ 22 % 2 = 0 ∧ sparcNF d = 2 ^ 30 + d % 2 ^ 22) := by
  unfold sparcNF
  by_cases h : d / 2 ^ 22 % 2 = 1
  · left; exact ⟨h, by rw [if_pos h]⟩
  · right; exact ⟨by omega, by rw [if_neg h]⟩

theorem sparcNF_congr (a b : Nat) (h : a % 2 ^ 23 = b % 2 ^ 23) : sparcNF a = sparcNF b := by
  rcases sparcNF_cases a with ⟨h1, h2⟩ | ⟨h1, h2⟩ <;> rcases sparcNF_cases b with ⟨h3, h4⟩ | ⟨h3, h4⟩ <;>
    rw [h2, h4] <;> omega

theorem sparcWord_eq (b0 b1 b2 b3 : Nat) (h1 : b1 < 256) (h2 : b2 < 256) (h3 : b3 < 256) :
    (b0 <<< 24) ||| (b1 <<< 16) ||| (b2 <<< 8) ||| b3 = b0 * 2 ^ 24 + b1 * 2 ^ 16 + b2 * 2 ^ 8 + b3 := by
  rw [shl_eq, shl_eq, shl_eq]
  rw [or_disj (b0 * 2 ^ 24) (b1 * 2 ^ 16) 24 (by omega) (by omega),
    or_disj (b0 * 2 ^ 24 + b1 * 2 ^ 16) _ 16 (by omega) (by omega),
    or_disj _ _ 8 (by omega) (by omega)]


theorem sparcTail (d : Nat) :
    ((if (d >>> 22) &&& 1 = 1 then 0x3FC00000 else 0) ||| (d &&& 0x3FFFFF)) ||| 0x40000000 = sparcNF d := by
  rw [shr_eq, and_1, and_3FFFFF]
  unfold sparcNF
  by_cases h : d / 2 ^ 22 % 2 = 1
  · rw [if_pos h]
    rw [or_disj 0x3FC00000 (d % 2 ^ 22) 22 (by omega) (by omega), or_disj' _ 0x40000000 30 (by omega) (by omega)]
    omega
  · rw [if_neg h]
    rw [or_disj 0 (d % 2 ^ 22) 22 (by omega) (by omega), or_disj' _ 0x40000000 30 (by omega) (by omega)]
    omega

theorem sparcDest_eq (enc : Bool) (p b0 b1 b2 b3 : Nat) (h1 : b1 < 256) (h2 : b2 < 256) (h3 : b3 < 256) :
    sparcDest enc p b0 b1 b2 b3 = sparcNF
      ((if enc then ((b0 * 2 ^ 24 + b1 * 2 ^ 16 + b2 * 2 ^ 8 + b3) * 4 % 2 ^ 32 + p) % 2 ^ 32
        else ((b0 * 2 ^ 24 + b1 * 2 ^ 16 + b2 * 2 ^ 8 + b3) * 4 % 2 ^ 32 + 2 ^ 32 - p % 2 ^ 32) % 2 ^ 32) / 4) := by
  simp only [sparcDest]
  rw [sparcTail, sparcWord_eq _ _ _ _ h1 h2 h3]
  simp only [u32, wadd, wsub]

theorem sparcRec_iff (b0 b1 : Nat) :
    sparcRec b0 b1 ↔ (b0 = 0x40 ∧ b1 / 64 % 4 * 64 = 0) ∨ (b0 = 0x7F ∧ b1 / 64 % 4 * 64 = 0xC0) := by
  unfold sparcRec; rw [and_C0]

theorem sparc_k1 (W p d : Nat) (hp : p % 4 = 0) (_hp2 : p < 2 ^ 32)
    (hd : d = (W * 4 % 2 ^ 32 + p) % 2 ^ 32 / 4) : d % 2 ^ 23 = (W + p / 4) % 2 ^ 23 := by
  omega

theorem sparc_k3 (N p d' : Nat) (hp : p % 4 = 0) (hp2 : p < 2 ^ 32)
    (hd : d' = (N * 4 % 2 ^ 32 + 2 ^ 32 - p % 2 ^ 32) % 2 ^ 32 / 4) : (d' + p / 4) % 2 ^ 23 = N % 2 ^ 23 := by
  omega

theorem sparcNF_mod (d : Nat) : sparcNF d % 2 ^ 23 = d % 2 ^ 23 ∧ sparcNF d < 2 ^ 32 := by
  rcases sparcNF_cases d with ⟨h1, h2⟩ | ⟨h1, h2⟩ <;> rw [h2] <;> omega

/-- a recognised word is in normal form -/
theorem sparcRec_NF (b0 b1 b2 b3 : Nat) (h1 : b1 < 256) (h2 : b2 < 256) (h3 : b3 < 256)
    (hr : sparcRec b0 b1) :
    sparcNF (b0 * 2 ^ 24 + b1 * 2 ^ 16 + b2 * 2 ^ 8 + b3) = b0 * 2 ^ 24 + b1 * 2 ^ 16 + b2 * 2 ^ 8 + b3 := by
  rw [sparcRec_iff] at hr
  rcases sparcNF_cases (b0 * 2 ^ 24 + b1 * 2 ^ 16 + b2 * 2 ^ 8 + b3) with ⟨e1, e2⟩ | ⟨e1, e2⟩ <;>
    rw [e2] <;> rcases hr with ⟨r1, r2⟩ | ⟨r1, r2⟩ <;> omega

/-- the bytes of a normal form are recognised -/
theorem sparcNF_rec (d : Nat) : sparcRec (sparcNF d / 2 ^ 24 % 256) (sparcNF d / 2 ^ 16 % 256) := by
  rw [sparcRec_iff]
  rcases sparcNF_cases d with ⟨h1, h2⟩ | ⟨h1, h2⟩ <;> rw [h2]
  · right; omega
  · left; omega

theorem sparc_k4 (W q d N d' : Nat) (k1 : d % 2 ^ 23 = (W + q) % 2 ^ 23) (k2 : N % 2 ^ 23 = d % 2 ^ 23)
    (k3 : (d' + q) % 2 ^ 23 = N % 2 ^ 23) : d' % 2 ^ 23 = W % 2 ^ 23 := by
  omega

theorem sparc_arith (p b0 b1 b2 b3 N c0 c1 c2 c3 N' : Nat) (hp : p % 4 = 0) (hp2 : p < 2 ^ 32)
    (h0 : b0 < 256) (h1 : b1 < 256) (h2 : b2 < 256) (h3 : b3 < 256) (hr : sparcRec b0 b1)
    (hN : N = sparcDest true p b0 b1 b2 b3)
    (hc0 : c0 = (N >>> 24) % 256) (hc1 : c1 = (N >>> 16) % 256) (hc2 : c2 = (N >>> 8) % 256)
    (hc3 : c3 = N % 256)
    (hN' : N' = sparcDest false p c0 c1 c2 c3) :
    sparcRec c0 c1 ∧ (N' >>> 24) % 256 = b0 ∧ (N' >>> 16) % 256 = b1 ∧
      (N' >>> 8) % 256 = b2 ∧ N' % 256 = b3 := by
  rw [sparcDest_eq _ _ _ _ _ _ h1 h2 h3, if_pos rfl] at hN
  rw [shr_eq] at hc0 hc1 hc2
  have hW := sparcRec_NF b0 b1 b2 b3 h1 h2 h3 hr
  have k1 := sparc_k1 (b0 * 2 ^ 24 + b1 * 2 ^ 16 + b2 * 2 ^ 8 + b3) p _ hp hp2 rfl
  obtain ⟨k2, hNlt⟩ := sparcNF_mod
    (((b0 * 2 ^ 24 + b1 * 2 ^ 16 + b2 * 2 ^ 8 + b3) * 4 % 2 ^ 32 + p) % 2 ^ 32 / 4)
  have hrec := sparcNF_rec
    (((b0 * 2 ^ 24 + b1 * 2 ^ 16 + b2 * 2 ^ 8 + b3) * 4 % 2 ^ 32 + p) % 2 ^ 32 / 4)
  rw [← hN] at k2 hNlt hrec
  rw [← hc0, ← hc1] at hrec
  have hNb := word_of_bytes N c0 c1 c2 c3 hNlt hc0 hc1 hc2 hc3
  have hcb : c1 < 256 ∧ c2 < 256 ∧ c3 < 256 := by
    rw [hc1, hc2, hc3]; exact ⟨Nat.mod_lt _ (by decide), Nat.mod_lt _ (by decide), Nat.mod_lt _ (by decide)⟩
  rw [sparcDest_eq _ _ _ _ _ _ hcb.1 hcb.2.1 hcb.2.2, if_neg (by simp), hNb] at hN'
  have k3 := sparc_k3 N p _ hp hp2 rfl
  have k4 := sparc_k4 _ _ _ _ _ k1 k2 k3
  rw [sparcNF_congr _ _ k4, hW] at hN'
  obtain ⟨w0, w1, w2, w3⟩ := bytes_of_word b0 b1 b2 b3 h0 h1 h2 h3
  rw [shr_eq, shr_eq, shr_eq, hN']
  exact ⟨hrec, w0, w1, w2, w3⟩

def sparcStep (enc : Bool) (st : St) (i : Nat) (b : Buf) : Buf :=
  if sparcRec (gb b i) (gb b (i + 1)) then
    let dest := sparcDest enc (posAt st i) (gb b i) (gb b (i + 1)) (gb b (i + 2)) (gb b (i + 3))
    sb (sb (sb (sb b i (dest >>> 24)) (i + 1) (dest >>> 16)) (i + 2) (dest >>> 8)) (i + 3) dest
  else b

theorem sparcLoop_eq_scan (enc : Bool) (st : St) : ∀ fuel i b,
    sparcLoop enc st fuel i b = scan 4 (fun i b => (sparcStep enc st i b, 4)) fuel i b := by
  intro fuel
  induction fuel with
  | zero => intro i b; rfl
  | succ n ih =>
    intro i b
    simp only [sparcLoop, scan]
    split
    · rfl
    · rw [← ih]
      simp only [sparcStep]
      split <;> rename_i h
      · rw [if_pos (show sparcRec _ _ from h)]; rfl
      · rw [if_neg (show ¬ sparcRec _ _ from h)]

theorem sparcStep_size (enc : Bool) (st : St) (i : Nat) (b : Buf) : (sparcStep enc st i b).size = b.size := by
  simp only [sparcStep]; split <;> simp only [size_sb]

theorem sparcStep_frame (enc : Bool) (st : St) (i : Nat) (b : Buf) (k : Nat) (hk : k < i ∨ i + 4 ≤ k) :
    gb (sparcStep enc st i b) k = gb b k := by
  simp only [sparcStep]; split
  · rw [gb_sb_ne _ _ _ _ (by omega), gb_sb_ne _ _ _ _ (by omega), gb_sb_ne _ _ _ _ (by omega),
      gb_sb_ne _ _ _ _ (by omega)]
  · rfl

theorem sparcStep_bytes (enc : Bool) (st : St) (i : Nat) (b : Buf) (h : BBytes b) : BBytes (sparcStep enc st i b) := by
  simp only [sparcStep]; split
  · exact BBytes_sb _ _ _ (BBytes_sb _ _ _ (BBytes_sb _ _ _ (BBytes_sb _ _ _ h)))
  · exact h

theorem sparcStep_loc (enc : Bool) (st : St) (i : Nat) (b b' : Buf) (h : Agree i 4 b b') :
    Agree i 4 (sparcStep enc st i b) (sparcStep enc st i b') := by
  have h0 := h.2 i (by omega) (by omega)
  have h1 := h.2 (i + 1) (by omega) (by omega)
  have h2 := h.2 (i + 2) (by omega) (by omega)
  have h3 := h.2 (i + 3) (by omega) (by omega)
  simp only [sparcStep, h0, h1, h2, h3]
  split
  · exact (((h.sb _ _).sb _ _).sb _ _).sb _ _
  · exact h

theorem sparcStep_get (enc : Bool) (st : St) (i : Nat) (b : Buf) (hw : i + 4 ≤ b.size)
    (hr : sparcRec (gb b i) (gb b (i + 1))) (D : Nat)
    (hD : D = sparcDest enc (posAt st i) (gb b i) (gb b (i + 1)) (gb b (i + 2)) (gb b (i + 3))) :
    gb (sparcStep enc st i b) i = (D >>> 24) % 256 ∧
    gb (sparcStep enc st i b) (i + 1) = (D >>> 16) % 256 ∧
    gb (sparcStep enc st i b) (i + 2) = (D >>> 8) % 256 ∧
    gb (sparcStep enc st i b) (i + 3) = D % 256 := by
  simp only [sparcStep, if_pos hr, ← hD]
  refine ⟨?_, ?_, ?_, ?_⟩
  · rw [gb_sb_ne _ _ _ _ (by omega), gb_sb_ne _ _ _ _ (by omega), gb_sb_ne _ _ _ _ (by omega),
      gb_sb_eq _ _ _ (by omega)]
  · rw [gb_sb_ne _ _ _ _ (by omega), gb_sb_ne _ _ _ _ (by omega),
      gb_sb_eq _ _ _ (by simp only [size_sb]; omega)]
  · rw [gb_sb_ne _ _ _ _ (by omega), gb_sb_eq _ _ _ (by simp only [size_sb]; omega)]
  · rw [gb_sb_eq _ _ _ (by simp only [size_sb]; omega)]

theorem sparcStep_inv (st : St) (hp : st.pos % 4 = 0) (i : Nat) (b : Buf) (hi : i % 4 = 0) (hB : BBytes b)
    (hw : i + 4 ≤ b.size) : sparcStep false st i (sparcStep true st i b) = b := by
  by_cases hr : sparcRec (gb b i) (gb b (i + 1))
  · obtain ⟨g0, g1, g2, g3⟩ := sparcStep_get true st i b hw hr _ rfl
    have hpp : posAt st i % 4 = 0 ∧ posAt st i < 2 ^ 32 := by simp only [posAt, u32]; omega
    obtain ⟨hr', a0, a1, a2, a3⟩ := sparc_arith (posAt st i) _ _ _ _ _ _ _ _ _ _ hpp.1 hpp.2
      (hB i) (hB (i + 1)) (hB (i + 2)) (hB (i + 3)) hr rfl g0 g1 g2 g3 rfl
    obtain ⟨f0, f1, f2, f3⟩ := sparcStep_get false st i (sparcStep true st i b)
      (by rw [sparcStep_size]; exact hw) hr' _ rfl
    apply buf_ext
    · rw [sparcStep_size, sparcStep_size]
    · intro k _
      by_cases hwin : k < i ∨ i + 4 ≤ k
      · rw [sparcStep_frame _ _ _ _ _ hwin, sparcStep_frame _ _ _ _ _ hwin]
      · have : k = i ∨ k = i + 1 ∨ k = i + 2 ∨ k = i + 3 := by omega
        rcases this with rfl | rfl | rfl | rfl
        · rw [f0, a0]
        · rw [f1, a1]
        · rw [f2, a2]
        · rw [f3, a3]
  · have e1 : sparcStep true st i b = b := by simp only [sparcStep, if_neg hr]
    have e2 : sparcStep false st i b = b := by simp only [sparcStep, if_neg hr]
    rw [e1, e2]

theorem sparc_stepOK (st : St) (hp : st.pos % 4 = 0) :
    StepOK 4 (fun i => i % 4 = 0) (fun _ _ => 0) (fun i b => (sparcStep true st i b, 4)) (fun i b => (sparcStep false st i b, 4)) :=
  StepOK.fixed 4 _ _ _ (sparcStep_size _ _) (sparcStep_size _ _) (fun i h => by omega)
    (sparcStep_frame _ _) (sparcStep_frame _ _) (sparcStep_bytes _ _)
    (fun i b b' h _ => sparcStep_loc _ _ i b b' h)
    (fun i b hi hB hw => sparcStep_inv st hp i b hi hB hw)

/-- REQUIRED 4 -/
theorem sparc_inv (start : Nat) (hs : start % 4 = 0) (xs : List Nat) (h : Bytes xs) :
    oneShot .sparc false start (oneShot .sparc true start xs) = xs := by
  have hp : (St.init .sparc start).pos % 4 = 0 := by simp only [St.init]; omega
  simp only [oneShot, code, sparcLoop_eq_scan]
  rw [Array.toArray_toList, scan_size _ (sparcStep_size _ _)]
  rw [scan_inv (sparc_stepOK _ hp) _ _ (by rfl) (BBytes_toArray xs h)]

end LzmaVerif.Filters
