/-
  Helper lemmas for `Props/C02Fast.lean`: the `.lzma` header written by the writer model (`Model/LzmaWriter.lean`)
  is read back by `Lzma.decodeAlone` as the writer's lc/lp/pb, a dictionary at least as large as the encoder's and
  the declared size; the raw stream of the fast parse (with declared size or end marker) decodes to the data.
-/
import LzmaVerif.Model.LzmaWriter
import LzmaVerif.Props.C01Fast
import LzmaVerif.Proofs.EndToEndLzma

namespace LzmaVerif.LzmaWriter
open LzmaVerif Mf Lzma EncFast

/-! ## header fields -/


theorem le4_eq (h : Nat) : Checks.le 4 h = [h % 256, h / 256 % 256, h / 65536 % 256, h / 16777216 % 256] := by
  simp [Checks.le, List.range_succ]

theorem le8_eq (s : Nat) : Checks.le 8 s = [s % 256, s / 256 % 256, s / 65536 % 256, s / 16777216 % 256,
    s / 4294967296 % 256, s / 1099511627776 % 256, s / 281474976710656 % 256, s / 72057594037927936 % 256] := by
  simp [Checks.le, List.range_succ]

theorem le32_digits (h : Nat) (hh : h < 2 ^ 32) :
    le32 (h % 256) (h / 256 % 256) (h / 65536 % 256) (h / 16777216 % 256) = h := by
  unfold le32; omega

theorem le64_digits (s : Nat) (hs : s < 2 ^ 64) :
    le32 (s % 256) (s / 256 % 256) (s / 65536 % 256) (s / 16777216 % 256) +
      2 ^ 32 * le32 (s / 4294967296 % 256) (s / 1099511627776 % 256) (s / 281474976710656 % 256) (s / 72057594037927936 % 256) = s := by
  unfold le32; omega

theorem valid_iff (o : FastOpts) : o.valid = true ↔
    (o.lc ≤ 8 ∧ o.lp ≤ 4 ∧ o.pb ≤ 4) ∧ (4096 ≤ o.dict ∧ o.dict ≤ 805306368) ∧ (8 ≤ o.nice ∧ o.nice ≤ 273) := by
  simp only [FastOpts.valid, Options.validate, Consts.DICT_SIZE_MIN, Options.DICT_SIZE_MAX_ENCODER, Bool.and_eq_true,
    Bool.or_eq_true, decide_eq_true_eq, Bool.not_false, true_or, and_true]
  constructor
  · intro ⟨⟨h1, h2⟩, h3⟩; exact ⟨h1, of_decide_eq_true h2, h3⟩
  · intro ⟨h1, h2, h3⟩; exact ⟨⟨h1, decide_eq_true h2⟩, h3⟩

theorem props_rt (o : FastOpts) (h : o.lc ≤ 8 ∧ o.lp ≤ 4 ∧ o.pb ≤ 4) :
    propsByte o ≤ 224 ∧ paramsOfProps (propsByte o) = o.params := by
  obtain ⟨h1, h2, h3⟩ := h
  have e : propsByte o = o.pb * 45 + o.lp * 9 + o.lc := by unfold propsByte; omega
  refine ⟨by omega, ?_⟩
  simp only [paramsOfProps, FastOpts.params, e]
  congr 1 <;> omega

theorem hdrDict_bounds (dict : Nat) (h1 : 1 ≤ dict) (h2 : dict ≤ 2 ^ 30) : dict ≤ hdrDict dict ∧ hdrDict dict ≤ 2 ^ 30 := by
  have smear : ∀ (x k : Nat), x < 2 ^ 30 → x ≤ (x ||| (x >>> k)) ∧ (x ||| (x >>> k)) < 2 ^ 30 := by
    intro x k hx
    refine ⟨Nat.left_le_or, Nat.or_lt_two_pow hx ?_⟩
    exact Nat.lt_of_le_of_lt (Nat.shiftRight_le x k) hx
  have h0 : dict - 1 < 2 ^ 30 := by omega
  obtain ⟨a1, b1⟩ := smear _ 2 h0
  obtain ⟨a2, b2⟩ := smear _ 3 b1
  obtain ⟨a3, b3⟩ := smear _ 4 b2
  obtain ⟨a4, b4⟩ := smear _ 8 b3
  obtain ⟨a5, b5⟩ := smear _ 16 b4
  simp only [hdrDict]
  rw [if_pos (by omega)]
  omega

/-! ## the raw stream of the fast parse over HC4 -/

theorem fastParseOf_hc4 (K : MfConsts) (o : FastOpts) (ho : o.bt4 = false) (d : Array UInt8) :
    fastParseOf K o d = fastParseHc4 K.hc4 K.fast o.dict o.nice o.depth d := by
  simp [fastParseOf, ho]

/-- declared size: the stream exists and decodes to the data, consuming exactly the stream -/
theorem rawBytes_size_rt (pr : Params) (K : MfConsts) (hH : K.hc4.ok) (hP : K.fast.ok) (o : FastOpts) (ho : o.bt4 = false)
    (dictBuf : Nat) (d : Array UInt8) (hd1 : 1 ≤ o.dict) (hdb : min o.dict d.size ≤ dictBuf) (h32 : o.dict ≤ 2 ^ 32)
    (rest : List Nat) (cap : Nat) :
    ∃ bytes, rawBytes pr dictBuf false d.size (fastParseOf K o d) = some bytes ∧
      decodeRaw pr dictBuf #[] (some d.size) (bytes ++ rest) cap
        = .ok (d.map (fun b => b.toNat)) bytes.length (fastParseOf K o d) := by
  rw [fastParseOf_hc4 K o ho]
  simp only [rawBytes, Bool.false_eq_true, if_false]
  exact Props.C01Fast.fast_roundtrip pr K.hc4 hH K.fast hP o.dict o.nice o.depth dictBuf d hd1 hdb h32 rest cap

/-- end marker: ONE stream (symbol budget `parse.length + 1`) that decodes to the data under every cap that
    admits the data -/
theorem rawBytes_marker_rt (pr : Params) (K : MfConsts) (hH : K.hc4.ok) (hP : K.fast.ok) (o : FastOpts) (ho : o.bt4 = false)
    (dictBuf : Nat) (d : Array UInt8) (hd1 : 1 ≤ o.dict) (hdb : min o.dict d.size ≤ dictBuf) (h32 : o.dict ≤ 2 ^ 32)
    (hbuf : dictBuf ≤ END_DIST) :
    ∃ bytes, rawBytes pr dictBuf true d.size (fastParseOf K o d) = some bytes ∧
      ∀ (rest : List Nat) (cap : Nat), d.size ≤ cap →
        decodeRaw pr dictBuf #[] none (bytes ++ rest) cap
          = .ok (d.map (fun b => b.toNat)) bytes.length (fastParseOf K o d ++ [endMarker]) := by
  rw [fastParseOf_hc4 K o ho]
  obtain ⟨c', h', hp, hh⟩ := Props.C01Fast.fast_parse_valid K.hc4 hH K.fast hP o.dict o.nice o.depth dictBuf d hd1 hdb h32
  have hpu := Props.C01Fast.presetUsedOf_empty dictBuf
  have hlen : (fastParseHc4 K.hc4 K.fast o.dict o.nice o.depth d).length ≤ d.size := by
    have := Props.C01.parseRun_length_le _ _ _ _ _ _ hp
    rw [hh, Array.size_map] at this
    simpa using this
  obtain ⟨bytes, henc, _, hdec⟩ := lzma_marker_uniform pr dictBuf hbuf #[] _ 2 (by omega) c' h' (by rw [hpu]; exact hp)
  rw [hpu] at henc hdec
  refine ⟨bytes, ?_, ?_⟩
  · simp only [rawBytes, if_true, endMarker]
    exact henc _ (Nat.lt_succ_self _)
  · intro rest cap hcap
    rw [hdec rest cap (by omega)]
    have : h'.extract (#[] : Array Nat).size h'.size = h' := by
      simp only [List.size_toArray, List.length_nil, Array.extract_size]
    rw [this, hh]
    rfl

/-! ## `decodeAlone` on the writer's header -/

theorem header_eq (o : FastOpts) (expected : Option Nat) :
    header o expected = [propsByte o,
      hdrDict o.dict % 256, hdrDict o.dict / 256 % 256, hdrDict o.dict / 65536 % 256, hdrDict o.dict / 16777216 % 256,
      expected.getD (2 ^ 64 - 1) % 256, expected.getD (2 ^ 64 - 1) / 256 % 256, expected.getD (2 ^ 64 - 1) / 65536 % 256,
      expected.getD (2 ^ 64 - 1) / 16777216 % 256, expected.getD (2 ^ 64 - 1) / 4294967296 % 256,
      expected.getD (2 ^ 64 - 1) / 1099511627776 % 256, expected.getD (2 ^ 64 - 1) / 281474976710656 % 256,
      expected.getD (2 ^ 64 - 1) / 72057594037927936 % 256] := by
  simp only [header, le4_eq, le8_eq, List.cons_append, List.nil_append]

/-- what `LZMAReader::new_mem_limit` makes of the header `LZMAWriter::new` wrote: the writer's lc/lp/pb, the
    dictionary buffer `aloneDictBuf`, the declared size (`none` for `u64::MAX`) -/
theorem decodeAlone_header (o : FastOpts) (hv : o.valid = true) (expected : Option Nat)
    (he : expected.getD (2 ^ 64 - 1) < 2 ^ 64) (tail : List Nat) (cap : Nat) :
    decodeAlone #[] (header o expected ++ tail) cap =
      match decodeRaw o.params (aloneDictBuf o expected) #[]
          (if expected.getD (2 ^ 64 - 1) = 2 ^ 64 - 1 then none else some (expected.getD (2 ^ 64 - 1))) tail cap with
      | .ok out c parse => .ok out (c + 13) parse
      | other => other := by
  obtain ⟨hl, ⟨hd1, hd2⟩, _⟩ := (valid_iff o).mp hv
  obtain ⟨hp1, hp2⟩ := props_rt o hl
  obtain ⟨_, hh2⟩ := hdrDict_bounds o.dict (by omega) (by omega)
  rw [header_eq]
  simp only [List.cons_append, List.nil_append, decodeAlone]
  rw [le32_digits _ (by omega), le64_digits _ he]
  rw [if_neg (by simp only [Consts.DICT_SIZE_MAX]; omega), if_neg (by omega), hp2]
  rfl

end LzmaVerif.LzmaWriter
