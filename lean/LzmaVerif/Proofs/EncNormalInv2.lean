/-
  Normal encoder: the invariant `Inv` over `opts[]` and its preservation by the three kinds of writes
  (`extend` = reset loops, `offer` = conditional `setN`, `updateOptStateAndReps`), and the chain it yields.
-/
import LzmaVerif.Proofs.EncNormalInv

namespace LzmaVerif.EncNormal
open LzmaVerif Mf Lzma Rc EncFast EncPrices
open LzmaVerif.Mf.Hc4 (Eqs byteAt_lt extendMatch_spec)

/-- only the candidate fields of `opts[i]` and the coder states of the entries `≤ cur` matter for `CandOk` -/
theorem CandOk.congr' {P : NormalParams} {d : Array UInt8} {dict p : Nat} {o o' : Opts} {cur i : Nat}
    (h : CandOk P d dict p o cur i)
    (hg : groupOf P d p (oat o' i) i = groupOf P d p (oat o i) i)
    (hs : Shape (oat o' i) i ↔ Shape (oat o i) i)
    (hj : ∀ j, j ≤ cur → (oat o' j).c = (oat o j).c) :
    CandOk P d dict p o' cur i := by
  unfold CandOk at h ⊢
  rw [hg, hj _ h.2.1]
  exact ⟨hs.mpr h.1, h.2⟩

/-- the invariant over `opts[]`: `cur` = last final index, `b` = last index with a price bound -/
structure Inv (P : NormalParams) (d : Array UInt8) (dict p : Nat) (c0 : Coder) (avail0 cur b : Nat) (a : OA) : Prop where
  size : a.opts.size = P.opts
  endLe : a.optEnd ≤ avail0
  zero : (oat a.opts 0).c = c0
  fin : ∀ i, 1 ≤ i → i ≤ cur → CandOk P d dict p a.opts (i - 1) i ∧
    (oat a.opts i).c = applyAll (oat a.opts (groupOf P d p (oat a.opts i) i).1).c (groupOf P d p (oat a.opts i) i).2
  pend : ∀ i, cur < i → i ≤ a.optEnd → P.infinity ≤ (oat a.opts i).price ∨ CandOk P d dict p a.opts cur i
  bnd : ∀ i, 1 ≤ i → i ≤ b → i ≤ a.optEnd → (oat a.opts i).price ≤ 1152 * i

section
variable {P : NormalParams} {d : Array UInt8} {dict p : Nat} {c0 : Coder} {avail0 cur b : Nat} {a : OA}

/-- a write that leaves the entries `≤ cur` alone, keeps candidates and prices of the old range or makes the entry
    infinite / a valid candidate -/
theorem Inv.change (h : Inv P d dict p c0 avail0 cur b a) (a' : OA)
    (hsz : a'.opts.size = P.opts) (hend : a'.optEnd ≤ avail0)
    (hlow : ∀ j, j ≤ cur → oat a'.opts j = oat a.opts j)
    (hhigh : ∀ i, cur < i → i ≤ a'.optEnd →
      (i ≤ a.optEnd ∧ oat a'.opts i = oat a.opts i) ∨ P.infinity ≤ (oat a'.opts i).price ∨
        CandOk P d dict p a'.opts cur i)
    (hb : ∀ i, 1 ≤ i → i ≤ b → i ≤ a'.optEnd → i ≤ a.optEnd ∧ (oat a'.opts i).price ≤ (oat a.opts i).price) :
    Inv P d dict p c0 avail0 cur b a' := by
  refine ⟨hsz, hend, by rw [hlow 0 (Nat.zero_le _)]; exact h.zero, ?_, ?_, ?_⟩
  · intro i h1 hi
    obtain ⟨hc, he⟩ := h.fin i h1 hi
    have hgi := hc.2.1
    refine ⟨hc.congr' (by rw [hlow i hi]) (by rw [hlow i hi]) (fun j hj => by rw [hlow j (by omega)]), ?_⟩
    rw [hlow i hi, hlow _ (by omega)]
    exact he
  · intro i hi hie
    rcases hhigh i hi hie with ⟨hie', heq⟩ | hinf | hc
    · rcases h.pend i hi hie' with hinf | hc
      · left; rw [heq]; exact hinf
      · right
        exact hc.congr' (by rw [heq]) (by rw [heq]) (fun j hj => by rw [hlow j hj])
    · exact Or.inl hinf
    · exact Or.inr hc
  · intro i h1 hib hie
    obtain ⟨hie', hp⟩ := hb i h1 hib hie
    exact Nat.le_trans hp (h.bnd i h1 hib hie')

/-- `while self.opt_end < t { self.opt_end += 1; self.opts[self.opt_end].reset(); }` -/
theorem Inv.extend (h : Inv P d dict p c0 avail0 cur b a) (hav : avail0 < P.opts) (hcur : cur ≤ a.optEnd)
    (hb : b ≤ a.optEnd) (t : Nat) (ht : t ≤ avail0) :
    Inv P d dict p c0 avail0 cur b (a.extend P t) ∧ a.optEnd ≤ (a.extend P t).optEnd ∧ t ≤ (a.extend P t).optEnd := by
  unfold OA.extend
  split
  · next hlt =>
    have hsize : a.optEnd + (t - a.optEnd) < a.opts.size := by rw [h.size]; omega
    refine ⟨?_, by show a.optEnd ≤ t; omega, Nat.le_refl t⟩
    refine h.change _ (by rw [resetFrom_size, h.size]) ht ?_ ?_ ?_
    · intro j hj
      rw [oat_resetFrom P _ _ _ j hsize, if_neg (by omega)]
    · intro i hi hie
      rw [oat_resetFrom P _ _ _ i hsize]
      by_cases hr : a.optEnd < i ∧ i ≤ a.optEnd + (t - a.optEnd)
      · rw [if_pos hr]
        exact Or.inr (Or.inl (Nat.le_refl _))
      · rw [if_neg hr]
        simp only at hie
        exact Or.inl ⟨by omega, rfl⟩
    · intro i h1 hib hie
      rw [oat_resetFrom P _ _ _ i hsize, if_neg (by omega)]
      exact ⟨by omega, Nat.le_refl _⟩
  · next hge => exact ⟨h, Nat.le_refl _, by omega⟩

/-- `if price < self.opts[t].price { self.opts[t].setN(price, …) }` with a valid candidate -/
theorem Inv.offer (h : Inv P d dict p c0 avail0 cur b a) (hav : avail0 < P.opts) (t price : Nat) (f : Opt → Opt)
    (ht : cur < t) (hte : t ≤ a.optEnd) (hf : ∀ o, (f o).price = price)
    (hc : ∀ o : Opts, (∀ j, j ≤ cur → oat o j = oat a.opts j) → oat o t = f (oat a.opts t) →
      CandOk P d dict p o cur t) :
    Inv P d dict p c0 avail0 cur b (a.offer t price f) ∧ (a.offer t price f).optEnd = a.optEnd ∧
      (oat (a.offer t price f).opts t).price ≤ price := by
  unfold OA.offer
  have hts : t < a.opts.size := by rw [h.size]; have := h.endLe; omega
  split
  · next hlt =>
    refine ⟨?_, rfl, by simp only; rw [oat_modify_self _ _ _ hts, hf]⟩
    have hlow : ∀ j, j ≤ cur → oat (a.opts.modify t f) j = oat a.opts j := by
      intro j hj
      rw [oat_modify _ _ _ _ hts, if_neg (by omega)]
    refine h.change _ (by simp only [Array.size_modify]; exact h.size) h.endLe hlow ?_ ?_
    · intro i hi hie
      by_cases hit : t = i
      · subst hit
        exact Or.inr (Or.inr (hc _ hlow (oat_modify_self _ _ _ hts)))
      · refine Or.inl ⟨hie, ?_⟩
        simp only
        rw [oat_modify _ _ _ _ hts, if_neg hit]
    · intro i h1 hib hie
      refine ⟨hie, ?_⟩
      simp only
      rw [oat_modify _ _ _ _ hts]
      split
      · next hit => subst hit; rw [hf]; omega
      · exact Nat.le_refl _
  · next hge => exact ⟨h, rfl, by omega⟩

/-- `update_opt_state_and_reps()` at `cur + 1`, whose price is finite -/
theorem Inv.update (h : Inv P d dict p c0 avail0 cur b a) (hreps : P.reps = 4) (hav : avail0 < P.opts)
    (hce : cur + 1 ≤ a.optEnd) (hfin : (oat a.opts (cur + 1)).price < P.infinity) :
    Inv P d dict p c0 avail0 (cur + 1) b { a with opts := updateOptStateAndReps P a.opts (cur + 1) } ∧
      (oat (updateOptStateAndReps P a.opts (cur + 1)) (cur + 1)).price = (oat a.opts (cur + 1)).price := by
  have hts : cur + 1 < a.opts.size := by rw [h.size]; have := h.endLe; omega
  have hcand : CandOk P d dict p a.opts cur (cur + 1) := by
    rcases h.pend (cur + 1) (by omega) hce with hinf | hc
    · omega
    · exact hc
  unfold updateOptStateAndReps
  -- the new array differs from the old one in `opts[cur + 1].c` only
  have hoat : ∀ j, oat (a.opts.modify (cur + 1) fun o => { o with c := optStateAndReps P a.opts (cur + 1) }) j =
      if cur + 1 = j then { oat a.opts j with c := optStateAndReps P a.opts (cur + 1) } else oat a.opts j :=
    fun j => oat_modify _ _ _ _ hts
  have hg : ∀ j k, groupOf P d p (oat (a.opts.modify (cur + 1) fun o => { o with c := optStateAndReps P a.opts (cur + 1) }) j) k =
      groupOf P d p (oat a.opts j) k := by
    intro j k; rw [hoat]; split <;> rfl
  have hs : ∀ j k, Shape (oat (a.opts.modify (cur + 1) fun o => { o with c := optStateAndReps P a.opts (cur + 1) }) j) k ↔
      Shape (oat a.opts j) k := by
    intro j k; rw [hoat]; split <;> exact Iff.rfl
  have hp : ∀ j, (oat (a.opts.modify (cur + 1) fun o => { o with c := optStateAndReps P a.opts (cur + 1) }) j).price =
      (oat a.opts j).price := by
    intro j; rw [hoat]; split <;> rfl
  have hcj : ∀ j, j ≤ cur →
      (oat (a.opts.modify (cur + 1) fun o => { o with c := optStateAndReps P a.opts (cur + 1) }) j).c = (oat a.opts j).c := by
    intro j hj; rw [hoat, if_neg (by omega)]
  refine ⟨⟨by simp only [Array.size_modify]; exact h.size, h.endLe, by rw [hcj 0 (Nat.zero_le _)]; exact h.zero,
    ?_, ?_, ?_⟩, hp _⟩
  · intro i h1 hi
    by_cases hic : i = cur + 1
    · subst hic
      refine ⟨hcand.congr' (hg _ _) (hs _ _) (fun j hj => hcj j (by omega)), ?_⟩
      simp only
      rw [hg, hcj _ hcand.2.1, hoat, if_pos rfl]
      exact optStateAndReps_eq P hreps d dict p a.opts cur (cur + 1) hcand
    · obtain ⟨hc, he⟩ := h.fin i h1 (by omega)
      have := hc.2.1
      refine ⟨hc.congr' (hg _ _) (hs _ _) (fun j hj => hcj j (by omega)), ?_⟩
      simp only
      rw [hg, hcj _ (by omega), hcj _ (by omega)]
      exact he
  · intro i hi hie
    rcases h.pend i (by omega) hie with hinf | hc
    · left; simp only; rw [hp]; exact hinf
    · right
      exact (hc.congr' (hg _ _) (hs _ _) (fun j hj => hcj j hj)).mono (by omega)
  · intro i h1 hib hie
    simp only
    rw [hp]
    exact h.bnd i h1 hib hie

end

/-! ### the back-pointer chain -/

/-- the symbols of the back-pointer chain of `opts[i]`, in encoding order -/
def chainOf (P : NormalParams) (d : Array UInt8) (p : Nat) (opts : Opts) : Nat → Nat → List (Sym × Nat)
  | 0, _ => []
  | fuel + 1, i =>
    if i = 0 then []
    else chainOf P d p opts fuel (groupOf P d p (oat opts i) i).1 ++ (groupOf P d p (oat opts i) i).2

theorem chainOf_ok {P : NormalParams} {d : Array UInt8} {dict p : Nat} {c0 : Coder} {avail0 cur b : Nat} {a : OA}
    (h : Inv P d dict p c0 avail0 cur b a) :
    ∀ (fuel i : Nat), i ≤ fuel → i ≤ cur →
      ChainOk d dict (chainOf P d p a.opts fuel i) p c0 ∧ chainLen (chainOf P d p a.opts fuel i) = i ∧
        applyAll c0 (chainOf P d p a.opts fuel i) = (oat a.opts i).c
  | 0, i, hf, _ => by
    have : i = 0 := by omega
    subst this
    exact ⟨trivial, rfl, h.zero.symm⟩
  | fuel + 1, i, hf, hi => by
    rw [chainOf]
    split
    · next h0 => subst h0; exact ⟨trivial, rfl, h.zero.symm⟩
    · next h0 =>
      obtain ⟨hc, he⟩ := h.fin i (by omega) hi
      obtain ⟨_, hg1, hg2, hch, hlen⟩ := hc
      obtain ⟨i1, i2, i3⟩ := chainOf_ok h fuel (groupOf P d p (oat a.opts i) i).1 (by omega) (by omega)
      refine ⟨chainOk_append d dict _ _ p c0 i1 (by rw [i2, i3]; exact hch), by rw [chainLen_append, i2, hlen]; omega, ?_⟩
      rw [applyAll_append, i3, he]

/-- the chain of an index whose candidate is valid from final entries -/
theorem chainOf_last {P : NormalParams} {d : Array UInt8} {dict p : Nat} {c0 : Coder} {avail0 cur b : Nat} {a : OA}
    (h : Inv P d dict p c0 avail0 cur b a) (i fuel : Nat) (hi : 1 ≤ i) (hf : i ≤ fuel + 1)
    (hc : CandOk P d dict p a.opts cur i) :
    ChainOk d dict (chainOf P d p a.opts (fuel + 1) i) p c0 ∧ chainLen (chainOf P d p a.opts (fuel + 1) i) = i := by
  rw [chainOf, if_neg (by omega)]
  obtain ⟨_, hg1, hg2, hch, hlen⟩ := hc
  obtain ⟨i1, i2, i3⟩ := chainOf_ok h fuel (groupOf P d p (oat a.opts i) i).1 (by omega) hg1
  exact ⟨chainOk_append d dict _ _ p c0 i1 (by rw [i2, i3]; exact hch), by rw [chainLen_append, i2, hlen]; omega⟩

end LzmaVerif.EncNormal
