/-
  Normal encoder: one run of `get_next_symbol`'s optimiser path (`nextCore`).
  * the EARLY EXITS are valid unconditionally: fewer than `MATCH_LEN_MIN` bytes left (literal), a repeated match of
    at least `nice_len` (`rep_best`), a finder match of at least `nice_len`, "no match, no rep" (literal), and
    `opt_end < MATCH_LEN_MIN` (literal or short rep, whichever `opts[1]` holds);
  * the remaining branch is the function `optimise`; `OptimiserOk` states what is needed of it, with everything
    the call site knows as hypotheses.  `nextCore_ok`: `OptimiserOk → StepsOk`.
-/
import LzmaVerif.Proofs.EncNormalLoop
import LzmaVerif.Proofs.EncNormalPrice

namespace LzmaVerif.EncNormal
open LzmaVerif Mf Lzma Rc EncFast EncPrices
open LzmaVerif.Mf.Hc4 (Eqs byteAt_lt extendMatch_spec)

/-- `opts[1]` as the first part of `get_next_symbol` leaves it: the literal or the (byte-checked) short rep from
    position 0 -/
def Cand1 (d : Array UInt8) (p : Nat) (c : Coder) (o : Opt) : Prop :=
  o.optPrev = 0 ∧ o.prev1IsLiteral = false ∧
    (o.backPrev = -1 ∨ (o.backPrev = 0 ∧ byteAt d p = byteAt d (p - (c.rep0 + 1)))) ∧ o.price ≤ 1152

/-- every element of `rep_lens` is 0 or the length of a real repetition at `reps[i]` -/
def LensOk (d : Array UInt8) (p avail : Nat) (c : Coder) (lens : List Nat) : Prop :=
  lens.length = 4 ∧ ∀ i, i < 4 → lens.getD i 0 = 0 ∨ RepOk d p avail c (lens.getD i 0) i

/-- what the call site of `optimise` knows, and what `optimise` has to deliver -/
def OptimiserOk {σ : Type} {F : Finder σ} {d : Array UInt8} {dict : Nat} (FS : FinderSound F d dict 273)
    (P : NormalParams) (pr : Params) (nice : Nat) : Prop :=
  ∀ (ps : Probs) (pt : PriceSt) (p : Nat) (c : Coder) (opts : Opts) (mf : σ) (ms : List Match)
    (lens : List Nat) (mainLen optEnd : Nat),
    p < d.size → 2 ≤ min (d.size - p) 273 → opts.size = P.opts → RepsLt c p → RepsLt c dict →
    FS.R mf → FS.pos mf = p + 1 →
    (∀ m ∈ ms, ValidMatch d dict p (min 273 (d.size - p)) m) → lensIncreasing ms = true →
    LensOk d p (min (d.size - p) 273) c lens →
    mainLen = mainLenOf ms →
    (∀ i, i < 4 → lens.getD i 0 < nice) → (ms = [] ∨ mainLen < nice) →
    optEnd = max mainLen (lens.getD (repBest lens) 0) → 2 ≤ optEnd →
    Cand1 d p c (oat opts 1) →
    StepOk FS P.opts p c
      (optimise F { P := P, pr := pr, nice := nice, d := d, ps := ps, pt := pt } p c opts mf ms lens mainLen optEnd)

/-! ### `rep_lens` / `rep_best` -/

theorem repLens_ok (P : NormalParams) (hmin : P.matchLenMin = 2) (hreps : P.reps = 4) (d : Array UInt8)
    (p avail : Nat) (c : Coder) : LensOk d p avail c (repLens P d p avail c) := by
  unfold LensOk repLens
  rw [hreps, hmin]
  refine ⟨by simp only [List.length_map, List.length_range], ?_⟩
  intro i hi
  have hs := getMatchLen_spec d p (c.rep i) avail
  have hget : ((List.range 4).map fun rep =>
      if getMatchLen d p (c.rep rep) avail < 2 then 0 else getMatchLen d p (c.rep rep) avail).getD i 0 =
      (if getMatchLen d p (c.rep i) avail < 2 then 0 else getMatchLen d p (c.rep i) avail) := by
    rw [List.getD_eq_getElem?_getD, List.getElem?_map, List.getElem?_range hi]
    rfl
  rw [hget]
  split
  · exact Or.inl rfl
  · exact Or.inr ⟨by omega, by omega, hs.1, hs.2⟩

theorem repBest_lt (lens : List Nat) (hl : lens.length = 4) : repBest lens < 4 := by
  unfold repBest
  rw [hl]
  have : ∀ (l : List Nat) (b : Nat), b < 4 → (∀ x ∈ l, x < 4) →
      l.foldl (fun best rep => if lens.getD rep 0 > lens.getD best 0 then rep else best) b < 4 := by
    intro l
    induction l with
    | nil => intro b hb _; exact hb
    | cons x xs ih =>
      intro b hb hx
      simp only [List.foldl_cons]
      apply ih
      · split
        · exact hx x (List.mem_cons_self ..)
        · exact hb
      · intro y hy; exact hx y (List.mem_cons_of_mem _ hy)
  exact this _ 0 (by omega) (fun x hx => List.mem_range.mp hx)

/-! ### the step -/

theorem oat_modify_self (opts : Opts) (i : Nat) (f : Opt → Opt) (hi : i < opts.size) :
    oat (opts.modify i f) i = f (oat opts i) := by
  unfold oat
  rw [Array.getD_eq_getD_getElem?, Array.getD_eq_getD_getElem?, Array.getElem?_modify,
    Array.getElem?_eq_getElem hi]
  simp only [if_true, Option.map_some, Option.getD_some]

theorem lastMatch_mem (ms : List Match) (h : ms ≠ []) : lastMatch ms ∈ ms := by
  unfold lastMatch
  cases hms : ms.getLast? with
  | none => exact absurd (List.getLast?_eq_none_iff.mp hms) h
  | some m => simpa only [Option.getD_some] using List.mem_of_getLast? hms

theorem mainLenOf_nil : mainLenOf [] = 0 := rfl

theorem mainLenOf_ne (ms : List Match) (h : ms ≠ []) : mainLenOf ms = (lastMatch ms).1 := by
  unfold mainLenOf
  cases ms with
  | nil => exact absurd rfl h
  | cons m r => simp only [List.isEmpty_cons, Bool.false_eq_true, if_false]

theorem initOpt1_ok (E : Env) (p : Nat) (c : Coder) (opts : Opts) (h1 : 1 < opts.size) :
    Cand1 E.d p c (oat (initOpt1 E p c opts) 1) ∧ (initOpt1 E p c opts).size = opts.size := by
  unfold initOpt1
  simp only
  split
  · next hsr =>
    have hlt := hsr.2
    rw [oat_modify_self _ _ _ h1] at hlt
    rw [oat_modify_self _ _ _ (by rw [Array.size_modify]; exact h1)]
    refine ⟨⟨rfl, rfl, Or.inr ⟨rfl, hsr.1.symm⟩, ?_⟩, by simp only [Array.size_modify]⟩
    have := litPrice_le E.pr E.ps (byteAt E.d p) (byteAt E.d (p - (c.rep0 + 1))) (byteAt E.d (p - 1)) p c.state
    simp only [Opt.set1] at hlt ⊢
    omega
  · rw [oat_modify_self _ _ _ h1]
    exact ⟨⟨rfl, rfl, Or.inl rfl, litPrice_le _ _ _ _ _ _ _⟩, by simp only [Array.size_modify]⟩

/-- `rep_best` holds a maximal element of `rep_lens` -/
theorem repBest_max (lens : List Nat) (i : Nat) (hi : i < lens.length) :
    lens.getD i 0 ≤ lens.getD (repBest lens) 0 := by
  have hmax : ∀ (l : List Nat) (b : Nat),
      lens.getD b 0 ≤ lens.getD (l.foldl (fun best rep => if lens.getD rep 0 > lens.getD best 0 then rep else best) b) 0 ∧
      ∀ x ∈ l, lens.getD x 0 ≤
        lens.getD (l.foldl (fun best rep => if lens.getD rep 0 > lens.getD best 0 then rep else best) b) 0 := by
    intro l
    induction l with
    | nil => intro b; exact ⟨Nat.le_refl _, fun x hx => absurd hx (List.not_mem_nil)⟩
    | cons y ys ih =>
      intro b
      simp only [List.foldl_cons]
      have := ih (if lens.getD y 0 > lens.getD b 0 then y else b)
      refine ⟨?_, ?_⟩
      · refine Nat.le_trans ?_ this.1
        split <;> omega
      · intro x hx
        rcases List.mem_cons.mp hx with rfl | hx
        · refine Nat.le_trans ?_ this.1
          split <;> omega
        · exact this.2 x hx
  exact (hmax (List.range lens.length) 0).2 i (List.mem_range.mpr hi)

theorem nextCore_ok {σ : Type} {F : Finder σ} {d : Array UInt8} {dict : Nat}
    (FS : FinderSound F d dict 273) (P : NormalParams) (hP : P.ok) (pr : Params) (nice : Nat) (hn : 1 ≤ nice)
    (hO : OptimiserOk FS P pr nice) : StepsOk FS P pr nice := by
  intro ps pt p c opts mf ms hp hos hrp hrd hR hpos hms hmsinc
  obtain ⟨hmin, hmax, hreps, hopts2, _⟩ := hP
  -- a one-byte step that leaves the finder where it is
  have h1 : ∀ (s : Sym) (o : Opts) (q : PriceSt), o.size = P.opts → SymAt d dict p c s 1 →
      StepOk FS P.opts p c ⟨[(s, 1)], o, q, mf, ms, 0⟩ := by
    intro s o q ho hs
    refine ⟨by simp only [chainLen]; omega, ⟨Nat.le_refl 1, by omega, hs, trivial⟩, ho, hR, ?_, Or.inl rfl⟩
    simp only [chainLen]; rw [hpos]
  -- a longer step followed by `skip(len - 1)`
  have hk : ∀ (s : Sym) (len : Nat), 2 ≤ len → p + len ≤ d.size → SymAt d dict p c s len →
      StepOk FS P.opts p c ⟨[(s, len)], opts, pt, F.skip d (len - 1) mf, ms, 0⟩ := by
    intro s len h2 hle hs
    refine ⟨by simp only [chainLen]; omega, ⟨by omega, hle, hs, trivial⟩, hos, FS.skip_R _ _ hR, ?_, Or.inl rfl⟩
    simp only [chainLen]
    rw [FS.skip_pos _ _ hR, hpos]; omega
  unfold nextCore
  simp only [hmin, hmax]
  split
  · exact h1 _ _ _ hos (Or.inl ⟨rfl, rfl⟩)
  · next hav =>
    have hav2 : 2 ≤ min (d.size - p) 273 := by omega
    have hlens := repLens_ok P hmin hreps d p (min (d.size - p) 273) c
    generalize repLens P d p (min (d.size - p) 273) c = lens at hlens
    have hbest := repBest_lt lens hlens.1
    split
    · next hnice =>
      -- the best repeated match is at least `nice_len` long
      rcases hlens.2 _ hbest with h0 | hok
      · omega
      · have h2 := hok.2.1
        have hl := hok.2.2.1
        exact hk _ _ h2 (by omega) (Or.inr (Or.inr (Or.inl ⟨_, rfl, hok⟩)))
    · next hnn =>
      have hlt : ∀ i, i < 4 → lens.getD i 0 < nice := by
        intro i hi
        have := repBest_max lens i (by rw [hlens.1]; exact hi)
        omega
      split
      · next hm =>
        -- the longest match of the finder is at least `nice_len` long
        obtain ⟨hne, hge⟩ := hm
        have hv := hms _ (lastMatch_mem ms hne)
        rw [mainLenOf_ne ms hne]
        exact hk _ _ hv.1 hv.2.2.1 (Or.inr (Or.inr (Or.inr ⟨_, rfl, hv⟩)))
      · next hnm =>
        split
        · exact h1 _ _ _ hos (Or.inl ⟨rfl, rfl⟩)
        · next hnl =>
          -- `opts[1]`
          have hi1 := initOpt1_ok { P := P, pr := pr, nice := nice, d := d, ps := ps, pt := pt } p c opts (by omega)
          obtain ⟨hc1, hsz⟩ := hi1
          rw [hos] at hsz
          generalize initOpt1 { P := P, pr := pr, nice := nice, d := d, ps := ps, pt := pt } p c opts = opts1
            at hc1 hsz ⊢
          split
          · -- `opt_end < MATCH_LEN_MIN`: literal or short rep
            obtain ⟨_, _, hb, _⟩ := hc1
            rcases hb with hb | ⟨hb, hbyte⟩
            · refine h1 _ _ _ hsz (Or.inl ⟨?_, rfl⟩)
              simp only [symOf, hb, if_true]
            · refine h1 _ _ _ hsz (Or.inr (Or.inl ⟨?_, rfl, hbyte⟩))
              simp only [symOf, hb, hreps]
              rw [if_neg (by decide), if_pos (by decide), if_pos trivial]
          · next hoe =>
            refine hO ps pt p c opts1 mf ms lens _ _ hp hav2 hsz hrp hrd hR hpos hms hmsinc hlens rfl hlt ?_ rfl (by omega) hc1
            by_cases hne : ms = []
            · exact Or.inl hne
            · right
              have : ¬ (mainLenOf ms ≥ nice) := fun h => hnm ⟨hne, h⟩
              omega

end LzmaVerif.EncNormal
