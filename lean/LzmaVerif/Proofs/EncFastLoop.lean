/-
  Fast encoder: the whole symbol loop.  For every sound match finder the parse produced by `fastParse`
  satisfies `parseRun` (every symbol admissible, every copy inside the dictionary) and denotes exactly the
  data (F1, generic form).
-/
import LzmaVerif.Proofs.EncFastStep

namespace LzmaVerif.EncFast
open LzmaVerif Mf Lzma
open LzmaVerif.Mf.Hc4 (Eqs byteAt_lt extendMatch_spec)

/-! ### the four rep distances stay below a bound -/

def RepsLt (c : Coder) (m : Nat) : Prop := c.rep0 < m ∧ c.rep1 < m ∧ c.rep2 < m ∧ c.rep3 < m

theorem RepsLt.rep {c : Coder} {m : Nat} (h : RepsLt c m) (i : Nat) : c.rep i < m := by
  obtain ⟨h0, h1, h2, h3⟩ := h
  rcases i with _ | _ | _ | i
  · exact h0
  · exact h1
  · exact h2
  · exact h3

theorem RepsLt.mono {c : Coder} {m m' : Nat} (h : RepsLt c m) (hle : m ≤ m') : RepsLt c m' := by
  obtain ⟨h0, h1, h2, h3⟩ := h
  exact ⟨by omega, by omega, by omega, by omega⟩

theorem RepsLt.lit {c : Coder} {m : Nat} (h : RepsLt c m) (b : Nat) : RepsLt (c.apply (.lit b)) m := h

theorem RepsLt.mtch {c : Coder} {m : Nat} (h : RepsLt c m) (dist len : Nat) (hd : dist < m) :
    RepsLt (c.apply (.mtch dist len)) m := by
  obtain ⟨h0, h1, h2, h3⟩ := h
  exact ⟨hd, h0, h1, h2⟩

theorem RepsLt.repSym {c : Coder} {m : Nat} (h : RepsLt c m) (i len : Nat) :
    RepsLt (c.apply (.rep i len)) m := by
  obtain ⟨h0, h1, h2, h3⟩ := h
  rcases i with _ | _ | _ | i
  · exact ⟨h0, h1, h2, h3⟩
  · exact ⟨h1, h0, h2, h3⟩
  · exact ⟨h2, h0, h1, h3⟩
  · exact ⟨h3, h0, h1, h2⟩

theorem RepsLt.init_lit (b m : Nat) (hm : 1 ≤ m) : RepsLt (Coder.init.apply (.lit b)) m := by
  refine ⟨?_, ?_, ?_, ?_⟩ <;> exact hm

/-! ### the loop -/

theorem loopSpec_valid {σ : Type} {F : Finder σ} {d : Array UInt8} {dict : Nat}
    (FS : FinderSound F d dict 273) (P : FastParams) (hP : P.ok) (nice dictBuf : Nat)
    (hdb : min dict d.size ≤ dictBuf) (h32 : dict ≤ 2 ^ 32) :
    ∀ (fuel p : Nat) (c : Coder) (mf : σ) (ms : List Match) (ra : Nat) (h : Hist),
      d.size - p ≤ fuel → p ≤ d.size → HistIs d p h → RepsLt c p → RepsLt c dict →
      FS.R mf → FS.pos mf = p + ra →
      (ra = 0 ∨ (ra = 1 ∧ ∀ m ∈ ms, ValidMatch d dict p (min 273 (d.size - p)) m)) →
      ∃ c' h', parseRun dictBuf (loopSpec F P nice d fuel p c mf ms ra) c h = some (c', h') ∧
        HistIs d d.size h'
  | 0, p, c, mf, ms, ra, h, hf, hple, hh, _, _, _, _, _ => by
    have : p = d.size := by omega
    subst this
    exact ⟨c, h, by simp only [loopSpec, parseRun], hh⟩
  | fuel + 1, p, c, mf, ms, ra, h, hf, hple, hh, hrp, hrd, hR, hpos, hra => by
    simp only [loopSpec]
    split
    · next hp =>
      have hs := nextSymbol_ok FS P hP nice p c mf ms ra hp hR hpos hra
      generalize nextSymbol F P nice d p c mf ms ra = st at hs
      obtain ⟨hl1, hlle, hsym, hmR, hmPos, hmRa⟩ := hs
      have hfuel : d.size - (p + st.len) ≤ fuel := by omega
      rcases hsym with ⟨hlit, hlen⟩ | ⟨i, hrep, hok⟩ | ⟨dist, hm, hv⟩
      · -- literal
        rw [hlit, parseRun_lit dictBuf _ _ _ _ (byteAt_lt d p)]
        have hh' := hh.push
        rw [hlen] at hfuel hlle hmPos hmRa
        rw [hlen]
        exact loopSpec_valid FS P hP nice dictBuf hdb h32 fuel (p + 1) _ st.mf st.ms st.ra _ hfuel hlle hh'
          ((hrp.lit _).mono (by omega)) (hrd.lit _) hmR hmPos hmRa
      · -- repeated match
        obtain ⟨hi, h2, hl, he⟩ := hok
        have hdp : c.rep i < p := hrp.rep i
        have hdd : c.rep i < dict := hrd.rep i
        rw [hrep, parseRun_rep dictBuf i st.len _ c h hi h2 (by omega) (by rw [hh.1]; exact hdp) (by omega)]
        have hh' := HistIs.copy (c.rep i) st.len p h hh (by omega) he
        exact loopSpec_valid FS P hP nice dictBuf hdb h32 fuel (p + st.len) _ st.mf st.ms st.ra _ hfuel hlle
          hh' ((hrp.repSym i st.len).mono (by omega)) (hrd.repSym i st.len) hmR hmPos hmRa
      · -- match from the finder's list
        obtain ⟨h2, hl, _, hdp, hdd, he⟩ := hv
        simp only at h2 hl hdp hdd he
        rw [hm, parseRun_mtch dictBuf dist st.len _ c h h2 (by omega) (by omega) (by rw [hh.1]; omega)
          (by omega)]
        have hh' := HistIs.copy dist st.len p h hh hdp he
        exact loopSpec_valid FS P hP nice dictBuf hdb h32 fuel (p + st.len) _ st.mf st.ms st.ra _ hfuel hlle
          hh' ((hrp.mtch dist st.len (by omega)).mono (by omega)) (hrd.mtch dist st.len (by omega))
          hmR hmPos hmRa
    · next hp =>
      have : p = d.size := by omega
      subst this
      exact ⟨c, h, by simp only [parseRun], hh⟩

/-- **F1, generic**: with a sound match finder the fast encoder's parse is valid and denotes the data -/
theorem fastParse_valid_generic {σ : Type} {F : Finder σ} {d : Array UInt8} {dict : Nat}
    (FS : FinderSound F d dict 273) (P : FastParams) (hP : P.ok) (nice dictBuf : Nat)
    (hd1 : 1 ≤ dict) (hdb : min dict d.size ≤ dictBuf) (h32 : dict ≤ 2 ^ 32) :
    ∃ c' h', parseRun dictBuf (fastParse F P nice d) Coder.init (#[] : Hist) = some (c', h') ∧
      h' = d.map (fun b => b.toNat) := by
  rw [fastParse_eq]
  split
  · next h0 =>
    refine ⟨Coder.init, #[], by simp only [parseRun], ?_⟩
    have : HistIs d d.size (#[] : Hist) := by rw [h0]; exact HistIs.empty d
    exact this.eq_map
  · next h0 =>
    rw [parseRun_lit dictBuf _ _ _ _ (byteAt_lt d 0)]
    have hh : HistIs d (0 + 1) ((#[] : Hist).push (byteAt d 0)) := (HistIs.empty d).push
    obtain ⟨c', h', hp, hh'⟩ := loopSpec_valid FS P hP nice dictBuf hdb h32 d.size 1
      (Coder.init.apply (.lit (byteAt d 0))) (F.skip d 1 F.init) [] 0 _ (by omega) (by omega) hh
      (RepsLt.init_lit _ 1 (Nat.le_refl 1)) (RepsLt.init_lit _ dict hd1) (FS.skip_R _ _ FS.init_R)
      (by rw [FS.skip_pos _ _ FS.init_R, FS.init_pos]) (Or.inl rfl)
    exact ⟨c', h', hp, hh'.eq_map⟩

end LzmaVerif.EncFast
