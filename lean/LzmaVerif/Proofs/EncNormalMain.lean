/-
  Normal encoder: the main loop of `get_next_symbol` keeps the invariant; what it hands to `convert_opts`.
-/
import LzmaVerif.Proofs.EncNormalSites2

namespace LzmaVerif.EncNormal
open LzmaVerif Mf Lzma Rc EncFast EncPrices
open LzmaVerif.Mf.Hc4 (Eqs byteAt_lt extendMatch_spec)

/-! ### `start_len` -/

theorem longRepOne_startLen (E : Env) (hmin : E.P.matchLenMin = 2) (cur q avail anyRep : Nat) (a : OA)
    (startLen rep : Nat) (hs : 2 ≤ startLen) : 2 ≤ (longRepOne E cur q avail anyRep a startLen rep).2 := by
  unfold longRepOne
  simp only [hmin]
  split
  · exact hs
  · simp only
    split <;> omega

theorem calcLongRepPrices_startLen (E : Env) (hmin : E.P.matchLenMin = 2) (a : OA) (cur q avail anyRep : Nat) :
    2 ≤ (calcLongRepPrices E a cur q avail anyRep).2 := by
  unfold calcLongRepPrices
  have hfold : ∀ (l : List Nat) (a : OA) (sl : Nat), 2 ≤ sl →
      2 ≤ (l.foldl (fun r rep => longRepOne E cur q avail anyRep r.1 r.2 rep) (a, sl)).2 := by
    intro l
    induction l with
    | nil => intro a sl h; exact h
    | cons x xs ih =>
      intro a sl h
      simp only [List.foldl_cons]
      exact ih _ _ (longRepOne_startLen E hmin cur q avail anyRep a sl x h)
  exact hfold _ a _ (by omega)

/-- `offerRepLens` never changes `opt_end` -/
theorem offerRepLens_optEnd (E : Env) (cur posState longRep : Nat) (rep : Int) :
    ∀ (n : Nat) (a : OA), (offerRepLens E cur posState longRep rep n a).optEnd = a.optEnd
  | 0, a => rfl
  | n + 1, a => by rw [offerRepLens, offerRepLens_optEnd E cur posState longRep rep n, offer_optEnd]

/-! ### the rep loop of the first part -/

theorem firstRepPrices_thr {P : NormalParams} {d : Array UInt8} {dict p : Nat} {c0 : Coder} {avail0 b : Nat}
    {cc : Coder} {lo : Nat} {a : OA}
    (E : Env) (hEP : E.P = P) (hEd : E.d = d) (hpos : PosOk P d p avail0 0 E.nice)
    (h : Thr P d dict p c0 avail0 0 b cc lo a) (c : Coder) (posState anyRep : Nat) (lens : List Nat)
    (hlens : LensOk d p (min (d.size - p) 273) cc lens) (hle : ∀ i, i < 4 → lens.getD i 0 ≤ a.optEnd) :
    Thr P d dict p c0 avail0 0 b cc lo (firstRepPrices E c posState anyRep lens a) := by
  have hmin : E.P.matchLenMin = 2 := by rw [hEP]; exact hpos.pok.1
  unfold firstRepPrices
  rw [hlens.1]
  have hfold : ∀ (l : List Nat) (a : OA), (∀ r ∈ l, r < 4) → Thr P d dict p c0 avail0 0 b cc lo a →
      (∀ i, i < 4 → lens.getD i 0 ≤ a.optEnd) →
      Thr P d dict p c0 avail0 0 b cc lo
        (l.foldl (fun a rep =>
          if lens.getD rep 0 < E.P.matchLenMin then a
          else offerRepLens E 0 posState (longRepPrice E.ps anyRep rep c.state posState) rep
            (lens.getD rep 0 + 1 - E.P.matchLenMin) a) a) := by
    intro l
    induction l with
    | nil => intro a _ h _; exact h
    | cons x xs ih =>
      intro a hl h hle
      simp only [List.foldl_cons]
      have hx := hl x (List.mem_cons_self ..)
      have hstep : Thr P d dict p c0 avail0 0 b cc lo
          (if lens.getD x 0 < E.P.matchLenMin then a
           else offerRepLens E 0 posState (longRepPrice E.ps anyRep x c.state posState) x
            (lens.getD x 0 + 1 - E.P.matchLenMin) a) ∧
          a.optEnd ≤ (if lens.getD x 0 < E.P.matchLenMin then a
           else offerRepLens E 0 posState (longRepPrice E.ps anyRep x c.state posState) x
            (lens.getD x 0 + 1 - E.P.matchLenMin) a).optEnd := by
        split
        · exact ⟨h, Nat.le_refl _⟩
        · next hge =>
          rw [hmin] at hge ⊢
          rcases hlens.2 x hx with h0 | ⟨hr, h2, hlim, heq⟩
          · omega
          · have := offerRepLens_thr (cur := 0) E hEP hEd hpos posState
              (longRepPrice E.ps anyRep x c.state posState) x (lens.getD x 0) hr (by simpa using hlim)
              (by simpa using heq) (lens.getD x 0 + 1 - 2) a h (by omega) (by have := hle x hx; omega)
            exact ⟨this, Nat.le_of_eq (offerRepLens_optEnd E 0 posState _ _ _ a).symm⟩
      exact ih _ (fun r hr => hl r (List.mem_cons_of_mem _ hr)) hstep.1
        (fun i hi => Nat.le_trans (hle i hi) hstep.2)
  exact hfold _ a (fun r hr => List.mem_range.mp hr) h hle

/-! ### the main loop -/

/-- what the main loop hands to `convert_opts`: final index `cur ≥ 1`, entries below it final, its own candidate valid -/
structure LoopOut {σ : Type} {F : Finder σ} {d : Array UInt8} {dict : Nat} (FS : FinderSound F d dict 273)
    (P : NormalParams) (p : Nat) (c0 : Coder) (avail0 : Nat) (r : Nat × LoopSt σ × Bool) : Prop where
  pos : 1 ≤ r.1
  le : r.1 ≤ avail0
  inv : ∃ b, Inv P d dict p c0 avail0 (r.1 - 1) b r.2.1.a
  cand : CandOk P d dict p r.2.1.a.opts (r.1 - 1) r.1
  mfR : FS.R r.2.1.mf
  mfPos : FS.pos r.2.1.mf = p + r.1 + (if r.2.2 then 1 else 0)
  ms : r.2.2 = true → AllValid d dict (p + r.1) r.2.1.ms ∧ lensIncreasing r.2.1.ms = true

theorem mainLoop_ok {σ : Type} {F : Finder σ} (E : Env) {dict : Nat} (FS : FinderSound F E.d dict 273)
    (hFinc : ∀ s, FS.R s → lensIncreasing (F.find E.d s).1 = true)
    (hP : E.P.ok) (hn2 : 2 ≤ E.nice) (hn273 : E.nice ≤ 273)
    (p : Nat) (c0 : Coder) (avail0 : Nat) (hav0 : avail0 ≤ E.d.size - p) (hav1 : avail0 < E.P.opts) :
    ∀ (fuel cur : Nat) (st : LoopSt σ), Inv E.P E.d dict p c0 avail0 cur (cur + 1) st.a → cur < st.a.optEnd →
      FS.R st.mf → FS.pos st.mf = p + cur + 1 → avail0 + 1 ≤ cur + fuel →
      LoopOut FS E.P p c0 avail0 (mainLoop F E p avail0 fuel cur st)
  | 0, cur, st, hinv, hlt, _, _, hfuel => by
    have := hinv.endLe
    omega
  | fuel + 1, cur, st, hinv, hlt, hR, hpos, hfuel => by
    obtain ⟨hmin, hmax, hreps, hopts2, hinf⟩ := hP
    have hend := hinv.endLe
    -- `opts[cur + 1]` is finite, hence a valid candidate
    have hprice : (oat st.a.opts (cur + 1)).price < E.P.infinity := by
      have := hinv.bnd (cur + 1) (by omega) (Nat.le_refl _) (by omega)
      have h2 : 1152 * (cur + 1) ≤ 1152 * E.P.opts := Nat.mul_le_mul_left _ (by omega)
      omega
    have hcand : CandOk E.P E.d dict p st.a.opts cur (cur + 1) := by
      rcases hinv.pend (cur + 1) (by omega) (by omega) with h | h
      · omega
      · exact h
    rw [mainLoop]
    simp only
    split
    · next hlt' =>
      -- `find_matches()` at position `p + cur + 1`
      have hR2 := FS.find_R _ hR
      have hpos2 := FS.find_pos _ hR
      have hv2 := FS.find_valid _ hR
      have hinc2 := hFinc _ hR
      rw [hpos] at hpos2 hv2
      have hval : AllValid E.d dict (p + (cur + 1)) (F.find E.d st.mf).1 := by
        intro m hm
        have := hv2 m hm
        have e : p + cur + 1 = p + (cur + 1) := by omega
        rw [e] at this
        exact this
      split
      · -- `break`
        refine ⟨by simp only; omega, by simp only; omega, ⟨cur + 1, by simpa only [Nat.add_sub_cancel] using hinv⟩,
          by simpa only [Nat.add_sub_cancel] using hcand, hR2, ?_, ?_⟩
        · simp only [if_true]; rw [hpos2]; omega
        · intro _; exact ⟨hval, hinc2⟩
      · -- one more position
        have hposok : PosOk E.P E.d p avail0 (cur + 1) E.nice :=
          ⟨⟨hmin, hmax, hreps, hopts2, hinf⟩, hn2, hn273, hav0, hav1, by omega⟩
        obtain ⟨hu, hup⟩ := hinv.update hreps hav1 (by omega) hprice
        have hc1 := calc1BytePrices_inv (cur := cur + 1) E rfl rfl hposok hu (by simp only; omega)
          (by omega)
          (anyRepPrice E.ps ((oat (updateOptStateAndReps E.P st.a.opts (cur + 1)) (cur + 1)).price +
            anyMatchPrice E.ps (oat (updateOptStateAndReps E.P st.a.opts (cur + 1)) (cur + 1)).c.state (E.posState (p + (cur + 1))))
            (oat (updateOptStateAndReps E.P st.a.opts (cur + 1)) (cur + 1)).c.state)
        obtain ⟨hc1i, hc1e⟩ := hc1
        simp only at hc1e
        generalize calc1BytePrices E { st.a with opts := updateOptStateAndReps E.P st.a.opts (cur + 1) } (cur + 1) (p + (cur + 1))
          (avail0 - (cur + 1)) _ = a2 at hc1i hc1e ⊢
        have hthr : Thr E.P E.d dict p c0 avail0 (cur + 1) (cur + 1 + 1) (oat a2.opts (cur + 1)).c a2.optEnd a2 :=
          ⟨hc1i, rfl, Nat.le_refl _, by omega, by omega⟩
        generalize (oat (updateOptStateAndReps E.P st.a.opts (cur + 1)) (cur + 1)).price +
            anyMatchPrice E.ps (oat (updateOptStateAndReps E.P st.a.opts (cur + 1)) (cur + 1)).c.state (E.posState (p + (cur + 1))) = anyMatch
        generalize anyRepPrice E.ps anyMatch (oat (updateOptStateAndReps E.P st.a.opts (cur + 1)) (cur + 1)).c.state = anyRep
        -- the rest of the body
        have hbody : Thr E.P E.d dict p c0 avail0 (cur + 1) (cur + 1 + 1) (oat a2.opts (cur + 1)).c a2.optEnd
            (if avail0 - (cur + 1) ≥ E.P.matchLenMin then
              if (F.find E.d st.mf).1.isEmpty = true then
                (calcLongRepPrices E a2 (cur + 1) (p + (cur + 1)) (avail0 - (cur + 1)) anyRep).1
              else calcNormalMatchPrices E
                (calcLongRepPrices E a2 (cur + 1) (p + (cur + 1)) (avail0 - (cur + 1)) anyRep).1
                (F.find E.d st.mf).1 (cur + 1) (p + (cur + 1)) (avail0 - (cur + 1)) anyMatch
                (calcLongRepPrices E a2 (cur + 1) (p + (cur + 1)) (avail0 - (cur + 1)) anyRep).2
            else a2) := by
          rw [hmin]
          split
          · next hav2 =>
            have hl := calcLongRepPrices_thr E rfl rfl hposok (by omega) hthr anyRep
            split
            · exact hl
            · exact calcNormalMatchPrices_thr E rfl rfl hposok (by omega) hl _ hval hinc2 _ _
                (calcLongRepPrices_startLen E hmin _ _ _ _ _)
          · exact hthr
        exact mainLoop_ok E FS hFinc ⟨hmin, hmax, hreps, hopts2, hinf⟩ hn2 hn273 p c0 avail0 hav0 hav1 fuel
          (cur + 1) _ hbody.1 (by have := hbody.2.2.1; simp only; omega) hR2
          (by rw [hpos2]; omega) (by omega)
    · next hge =>
      -- `opt_cur == opt_end`
      refine ⟨by simp only; omega, by simp only; omega, ⟨cur + 1, by simpa only [Nat.add_sub_cancel] using hinv⟩,
        by simpa only [Nat.add_sub_cancel] using hcand, hR, ?_, ?_⟩
      · simp only [Bool.false_eq_true, if_false]; rw [hpos]; omega
      · intro hf; cases hf

end LzmaVerif.EncNormal
