/-
  Helper lemmas for `Props/C02Fast.lean`: the LZIP writer model in fast mode (`Model/LzipWriter.lean`) produces
  exactly `LzipFile.fileBytes (wireMembers ms)` for members `ms : List EMember` built from the fast parse of each
  piece of the data, every such member satisfies `EMember.Ok` (the parse hypothesis is DISCHARGED by
  `fast_parse_valid`, the dictionary hypothesis by `lzipDict`), and the members' data concatenate to the input.
-/
import LzmaVerif.Model.LzipWriter
import LzmaVerif.Props.C01Fast
import LzmaVerif.Props.C02E
import LzmaVerif.Proofs.Split

namespace LzmaVerif.LzipWriter
open LzmaVerif Mf Lzma EncFast LzmaWriter LzipFile

/-! ## pieces of the data -/

theorem bytesOf_bytes (c : Array UInt8) : Bytes (bytesOf c) := by
  intro x hx
  simp only [bytesOf, List.mem_map] at hx
  obtain ⟨b, _, rfl⟩ := hx
  exact UInt8.toNat_lt b

theorem bytesOf_length (c : Array UInt8) : (bytesOf c).length = c.size := by
  simp [bytesOf]

theorem bytesOf_toArray (c : Array UInt8) : (bytesOf c).toArray = c.map (fun b => b.toNat) := by
  apply Array.ext'; simp [bytesOf]

theorem extract_toList (d : Array UInt8) (off n : Nat) :
    (d.extract off (off + n)).toList = (d.toList.drop off).take n := by
  simp [Array.toList_extract]

theorem cutAt_flatten (d : Array UInt8) : ∀ (ns : List Nat) (off : Nat),
    ((cutAt d off ns).map bytesOf).flatten = ((d.toList.drop off).take ns.sum).map (·.toNat) := by
  intro ns
  induction ns with
  | nil => intro off; simp [cutAt]
  | cons n ns ih =>
    intro off
    simp only [cutAt, List.map_cons, List.flatten_cons, ih, List.sum_cons, bytesOf, extract_toList]
    rw [← List.map_append]
    congr 1
    rw [List.take_add, List.drop_drop]

theorem cutAt_size (d : Array UInt8) : ∀ (ns : List Nat) (off : Nat), ∀ c ∈ cutAt d off ns, c.size ≤ d.size := by
  intro ns
  induction ns with
  | nil => intro off c hc; simp [cutAt] at hc
  | cons n ns ih =>
    intro off c hc
    simp only [cutAt, List.mem_cons] at hc
    rcases hc with rfl | hc
    · rw [Array.size_extract]; omega
    · exact ih _ c hc

theorem cutAt_length (d : Array UInt8) : ∀ (ns : List Nat) (off : Nat), (cutAt d off ns).length = ns.length := by
  intro ns
  induction ns with
  | nil => intro off; rfl
  | cons n ns ih => intro off; simp [cutAt, ih]

theorem cutAt_ne_nil (d : Array UInt8) (ns : List Nat) (off : Nat) (h : ns ≠ []) : cutAt d off ns ≠ [] := by
  cases ns with
  | nil => exact absurd rfl h
  | cons n ns => simp [cutAt]

theorem effDict_bounds (o : LzipOpts) : 4096 ≤ effDict o ∧ effDict o ≤ 2 ^ 29 := by
  unfold effDict
  rw [Lzip.min_eq, Lzip.max_eq]
  omega

/-- the member sizes add up to the input and there is at least one member -/
theorem memberSizes_spec (o : LzipOpts) (n : Nat) : (memberSizes o n).sum = n ∧ memberSizes o n ≠ [] := by
  unfold memberSizes
  cases h : effMember o with
  | none => simp
  | some lim =>
    have hl : 2 ≤ lim := by
      unfold effMember at h
      cases hm : o.memberSize with
      | none => rw [hm] at h; simp at h
      | some m =>
        rw [hm] at h
        simp only [Option.map_some, Option.some.injEq] at h
        have := (effDict_bounds o).1
        omega
    simp only
    rw [Split.lzipMembers_eq lim hl [n]]
    have hs : [n].sum = n := by simp
    by_cases h0 : n = 0
    · rw [if_pos (by rw [hs]; exact h0)]; simp [h0]
    · rw [if_neg (by rw [hs]; exact h0)]
      refine ⟨Split.ideal_sum lim n (by omega), ?_⟩
      intro he
      exact h0 ((Split.ideal_eq_nil_iff lim n (by omega)).mp he)

theorem chunks_flatten (o : LzipOpts) (d : Array UInt8) : ((chunks o d).map bytesOf).flatten = bytesOf d := by
  unfold chunks
  rw [cutAt_flatten, (memberSizes_spec o d.size).1, List.drop_zero, List.take_of_length_le (by simp)]
  rfl

theorem chunks_ne_nil (o : LzipOpts) (d : Array UInt8) : chunks o d ≠ [] :=
  cutAt_ne_nil d _ 0 (memberSizes_spec o d.size).2

theorem chunks_size (o : LzipOpts) (d : Array UInt8) : ∀ c ∈ chunks o d, c.size ≤ d.size :=
  cutAt_size d _ 0

/-! ## one member -/

/-- the member as the container theorem sees it -/
def emember (K : MfConsts) (o : LzipOpts) (db : Nat) (chunk : Array UInt8) : EMember :=
  { dictByte := db, parse := fastParseOf K (lzmaOpts o) chunk, mlen := 2, data := bytesOf chunk }

theorem memberDictBuf_eq (db : Nat) : LzipWriter.memberDictBuf db = LzipFile.memberDictBuf db := rfl

theorem memberLzma_eq (K : MfConsts) (o : LzipOpts) (db : Nat) (chunk : Array UInt8) :
    memberLzma K o db chunk =
      encodeParse lzipParams (LzipFile.memberDictBuf db) #[] none ((emember K o db chunk).parse.length + 1)
        ((emember K o db chunk).parse ++ [.mtch END_DIST (emember K o db chunk).mlen]) := by
  simp only [memberLzma, rawBytes, if_true, emember, endMarker, memberDictBuf_eq]

theorem le_readerDictBuf_none (dict : Nat) : dict ≤ lzmaReaderDictBuf dict none 0 := by
  unfold lzmaReaderDictBuf lzmaDictBuf
  simp only
  omega

theorem fastParseOf_hc4 (K : MfConsts) (o : LzipOpts) (ho : o.bt4 = false) (chunk : Array UInt8) :
    fastParseOf K (lzmaOpts o) chunk = fastParseHc4 K.hc4 K.fast (effDict o) o.nice o.depth chunk := by
  simp [fastParseOf, lzmaOpts, ho]

/-- **the parse hypothesis of `EMember.Ok`, discharged**: the fast parse over HC4 of the member's data runs inside the
    dictionary the READER allocates for the header byte and denotes exactly the data -/
theorem emember_parse (K : MfConsts) (hH : K.hc4.ok) (hP : K.fast.ok) (o : LzipOpts) (ho : o.bt4 = false)
    (db dict' : Nat) (hdb : Lzip.decodeDict db = some dict') (hge : effDict o ≤ dict') (chunk : Array UInt8) :
    ∃ c', parseRun (LzipFile.memberDictBuf db) (emember K o db chunk).parse Coder.init #[]
      = some (c', (emember K o db chunk).data.toArray) := by
  have hb := effDict_bounds o
  have hbuf : min (effDict o) chunk.size ≤ LzipFile.memberDictBuf db := by
    have := le_readerDictBuf_none dict'
    simp only [LzipFile.memberDictBuf, hdb, Option.getD_some]
    omega
  obtain ⟨c', h', hp, hh⟩ := Props.C01Fast.fast_parse_valid K.hc4 hH K.fast hP (effDict o) o.nice o.depth
    (LzipFile.memberDictBuf db) chunk (by omega) hbuf (by omega)
  refine ⟨c', ?_⟩
  simp only [emember, fastParseOf_hc4 K o ho, bytesOf_toArray]
  rw [hp, hh]

/-- the stream of the member exists (the model range encoder accepts the parse) -/
theorem memberLzma_some (K : MfConsts) (hH : K.hc4.ok) (hP : K.fast.ok) (o : LzipOpts) (ho : o.bt4 = false)
    (db dict' : Nat) (hdb : Lzip.decodeDict db = some dict') (hge : effDict o ≤ dict') (chunk : Array UInt8) :
    memberLzma K o db chunk = some (emember K o db chunk).lzma := by
  obtain ⟨c', hp⟩ := emember_parse K hH hP o ho db dict' hdb hge chunk
  have hd := LzipFile.memberDictBuf_le db dict' hdb
  have hp' : parseRun (LzipFile.memberDictBuf db) (emember K o db chunk).parse Coder.init
      (presetUsedOf #[] (LzipFile.memberDictBuf db)) = some (c', (emember K o db chunk).data.toArray) := by
    rw [LzipFile.presetUsedOf_empty]; exact hp
  obtain ⟨bytes, henc, _, _⟩ := lzma_marker_uniform lzipParams (LzipFile.memberDictBuf db) hd #[]
    (emember K o db chunk).parse 2 (by omega) c' _ hp'
  have h1 := henc ((emember K o db chunk).parse.length + 1) (Nat.lt_succ_self _)
  rw [LzipFile.presetUsedOf_empty] at h1
  have hm : (emember K o db chunk).mlen = 2 := rfl
  have hdbe : (emember K o db chunk).dictByte = db := rfl
  rw [memberLzma_eq, hm, h1]
  simp only [EMember.lzma, hm, hdbe, h1, Option.getD_some]

/-! ## the file -/

theorem membersFast_eq (K : MfConsts) (hH : K.hc4.ok) (hP : K.fast.ok) (o : LzipOpts) (ho : o.bt4 = false)
    (db dict' : Nat) (hdb : Lzip.decodeDict db = some dict') (hge : effDict o ≤ dict') :
    ∀ cs : List (Array UInt8),
      membersFast K o db cs = some (fileBytes (wireMembers (cs.map (emember K o db)))) := by
  intro cs
  induction cs with
  | nil => simp [membersFast, fileBytes, wireMembers]
  | cons c cs ih =>
    simp only [membersFast, memberFast, memberLzma_some K hH hP o ho db dict' hdb hge c, Option.map_some, ih]
    simp [fileBytes, wireMembers, EMember.toWire, emember]

theorem membersData_chunks (K : MfConsts) (o : LzipOpts) (db : Nat) (d : Array UInt8) :
    membersData ((chunks o d).map (emember K o db)) = bytesOf d := by
  rw [← chunks_flatten o d]
  simp [membersData, emember, Function.comp_def]

/-- a member is not longer than the file -/
theorem member_length_le (ms : List EMember) (m : EMember) (hm : m ∈ ms) :
    m.lzma.length + 26 ≤ (fileBytes (wireMembers ms)).length := by
  induction ms with
  | nil => simp at hm
  | cons a rest ih =>
    have e : fileBytes (wireMembers (a :: rest)) = memberBytes a.dictByte a.lzma a.data ++ fileBytes (wireMembers rest) := by
      simp [fileBytes, wireMembers, EMember.toWire]
    rw [e, List.length_append, memberBytes_length]
    rcases List.mem_cons.mp hm with rfl | h
    · omega
    · have := ih h; omega

end LzmaVerif.LzipWriter
