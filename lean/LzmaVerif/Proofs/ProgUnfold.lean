import Lean
import Mathlib.Tactic.DefEqTransformations
import LzmaVerif.Model.Prog
/-!
Unfolding lemmas for `Prog.decRun`.

They cannot be obtained with `simp [Prog.decRun]`/`unfold`/`rfl`: generating the equation lemmas
makes the kernel evaluate `Prod.casesOn d.decodeDirect1 _`, i.e. weak-head normalise
`d.decodeDirect1` for an open `d`, which compares `2^31` with `_ + 2^32 - _` in unary and does not
terminate in practice.  We therefore state the definitional unfoldings of `Prog.decRun` and
`Prog.decRun._f` as *closed* equations `c = (value of c)` (checked by a single delta step), and
use generic (`F` a variable) computation rules of `Prog.brecOn` and of the matchers, so that no
check ever looks inside `decodeDirect1`/`decodeBitP`.
-/
set_option linter.auxLemma false

namespace LzmaVerif
open Rc

open Lean Elab Command Meta in
/-- `#closed_unfold c as n` adds the theorem `n : @c = (definition body of c)`, proved by `Eq.refl`. -/
elab "#closed_unfold " c:ident " as " n:ident : command => liftTermElabM do
  let cn ← realizeGlobalConstNoOverloadWithInfo c
  let ci ← getConstInfo cn
  let lvls := ci.levelParams.map mkLevelParam
  let e := mkConst ci.name lvls
  let ty ← mkEq e ci.value!
  let pf ← mkEqRefl e
  let ns ← getCurrNamespace
  addDecl (.thmDecl { name := ns ++ n.getId, levelParams := ci.levelParams, type := ty, value := pf })

namespace Prog

#closed_unfold LzmaVerif.Prog.decRun as decRun_def
#closed_unfold LzmaVerif.Prog.decRun._f as decRun_f_def


universe u

theorem brecOn_direct {α : Type} {motive : Prog α → Sort u}
    (F : (t : Prog α) → @Prog.below α motive t → motive t) (k : Bool → Prog α) :
    @Prog.brecOn α motive (Prog.direct k) F
      = F (Prog.direct k) (fun b => @Prog.brecOn.go α motive (k b) F) := rfl

theorem brecOn_bit {α : Type} {motive : Prog α → Sort u}
    (F : (t : Prog α) → @Prog.below α motive t → motive t) (i : Nat) (k : Bool → Prog α) :
    @Prog.brecOn α motive (Prog.bit i k) F
      = F (Prog.bit i k) (fun b => @Prog.brecOn.go α motive (k b) F) := rfl

theorem brecOn_go_fst {α : Type} {motive : Prog α → Sort u}
    (F : (t : Prog α) → @Prog.below α motive t → motive t) (t : Prog α) :
    (@Prog.brecOn.go α motive t F).1 = @Prog.brecOn α motive t F := rfl

theorem match_3_direct {α : Type} (motive : Prog α → Probs → Dec → Sort u) (k : Bool → Prog α)
    (ps : Probs) (d : Dec) h1 h2 h3 :
    Prog.decRun.match_3 motive (Prog.direct k) ps d h1 h2 h3 = h3 k ps d := rfl

theorem match_3_bit {α : Type} (motive : Prog α → Probs → Dec → Sort u) (i : Nat) (k : Bool → Prog α)
    (ps : Probs) (d : Dec) h1 h2 h3 :
    Prog.decRun.match_3 motive (Prog.bit i k) ps d h1 h2 h3 = h2 i k ps d := rfl

theorem match_3_ret {α : Type} (motive : Prog α → Probs → Dec → Sort u) (a : α)
    (ps : Probs) (d : Dec) h1 h2 h3 :
    Prog.decRun.match_3 motive (Prog.ret a) ps d h1 h2 h3 = h1 a ps d := rfl

theorem match_1_mk (motive : Bool × Dec → Sort u) (b : Bool) (d : Dec) h :
    Prog.decRun.match_1 motive (b, d) h = h b d := rfl

open Lean Elab Tactic Meta in
/-- goal `Prog.decRun.match_3 M (direct k | bit i k) ps d H1 H2 H3 B = rhs`: rewrite the left-hand
side with the (generic, propositional) computation rule of the matcher and beta/zeta-reduce the
head.  Deliberately *not* a definitional step: the kernel must never be asked to compare a
`match d.decodeDirect1 with …` with anything but a syntactically identical term. -/
elab "match3_step" : tactic => withMainContext do
  let g ← getMainGoal
  let t ← instantiateMVars (← g.getType)
  let some (_, lhs, rhs) := t.eq? | throwError "match3_step: not an equation"
  let fn := lhs.getAppFn
  let args := lhs.getAppArgs
  unless fn.isConstOf ``LzmaVerif.Prog.decRun.match_3 && args.size == 9 do
    throwError "match3_step: unexpected lhs {lhs}"
  let x := args[2]!
  let lem ←
    if x.isAppOf ``LzmaVerif.Prog.direct then
      pure (mkAppN (mkConst ``LzmaVerif.Prog.match_3_direct fn.constLevels!)
        #[args[0]!, args[1]!, x.appArg!, args[3]!, args[4]!, args[5]!, args[6]!, args[7]!])
    else if x.isAppOf ``LzmaVerif.Prog.bit then
      pure (mkAppN (mkConst ``LzmaVerif.Prog.match_3_bit fn.constLevels!)
        #[args[0]!, args[1]!, x.appFn!.appArg!, x.appArg!, args[3]!, args[4]!, args[5]!, args[6]!, args[7]!])
    else throwError "match3_step: unexpected discriminant {x}"
  let p ← mkCongrFun lem args[8]!
  let pt ← inferType p
  let some (_, _, mid) := pt.eq? | throwError "match3_step: bad lemma type"
  let rec zeta (e : Expr) (fuel : Nat) : Expr :=
    match fuel with
    | 0 => e
    | fuel + 1 => if e.isLet then zeta (e.letBody!.instantiate1 e.letValue!).headBeta fuel else e
  let mid' := zeta mid.headBeta 8
  let g' ← mkFreshExprSyntheticOpaqueMVar (← mkEq mid' rhs)
  g.assign (← mkEqTrans p g')
  replaceMainGoal [g'.mvarId!]

theorem f_direct {α : Type} (k : Bool → Prog α)
    (B : (b : Bool) → (Probs → Dec → α × Probs × Dec) ×'
      @Prog.below α (fun _ => Probs → Dec → α × Probs × Dec) (k b))
    (ps : Probs) (d : Dec) (b : Bool) (d' : Dec) (h : d.decodeDirect1 = (b, d')) :
    Prog.decRun._f (Prog.direct k) B ps d = (B b).1 ps d' := by
  rw [decRun_f_def]
  beta_reduce
  match3_step
  rw [h]

theorem decRun_direct_eq {α : Type} (k : Bool → Prog α) (ps : Probs) (d : Dec) (b : Bool) (d' : Dec)
    (h : d.decodeDirect1 = (b, d')) :
    (Prog.direct k).decRun ps d = (k b).decRun ps d' := by
  rw [decRun_def]
  beta_reduce
  rw [brecOn_direct (motive := fun _ => Probs → Dec → α × Probs × Dec) Prog.decRun._f k]
  rw [f_direct k _ ps d b d' h]

theorem f_bit {α : Type} (i : Nat) (k : Bool → Prog α)
    (B : (b : Bool) → (Probs → Dec → α × Probs × Dec) ×'
      @Prog.below α (fun _ => Probs → Dec → α × Probs × Dec) (k b))
    (ps : Probs) (d : Dec) (b : Bool) (d' : Dec) (h : d.decodeBitP (ps.get i) = (b, d')) :
    Prog.decRun._f (Prog.bit i k) B ps d = (B b).1 (ps.set i (updProb (ps.get i) b)) d' := by
  rw [decRun_f_def]
  beta_reduce
  match3_step
  rw [h]

theorem decRun_bit_eq {α : Type} (i : Nat) (k : Bool → Prog α) (ps : Probs) (d : Dec) (b : Bool) (d' : Dec)
    (h : d.decodeBitP (ps.get i) = (b, d')) :
    (Prog.bit i k).decRun ps d = (k b).decRun (ps.set i (updProb (ps.get i) b)) d' := by
  rw [decRun_def]
  beta_reduce
  rw [brecOn_bit (motive := fun _ => Probs → Dec → α × Probs × Dec) Prog.decRun._f i k]
  rw [f_bit i k _ ps d b d' h]

theorem decRun_ret {α : Type} (a : α) (ps : Probs) (d : Dec) :
    (Prog.ret a).decRun ps d = (a, ps, d) := rfl

end Prog
end LzmaVerif
