/-
  (B1) the invariant of reachable BT4 states and the facts about one step that all later proofs use.
-/
import LzmaVerif.Proofs.Bt4Base
namespace LzmaVerif.Mf.Bt4

/-- the standing hypotheses: source constants as the proofs need them, and sane run-time parameters.
    (`size` is what makes the omission of `normalize` from the step function sound: `Inv.noNorm`.) -/
structure Hyp (P : Bt4Params) (c : Cfg) (data : Array UInt8) : Prop where
  ok : P.ok
  dict : 1 ≤ c.dict
  size : data.size + c.dict + 2 < 2 ^ 31
  nice : 3 ≤ c.niceLen
  mlmax : 3 ≤ c.mlmax

/-- positions `q` with `data.size - q ≥ min nice_len 4` are inserted, later ones stay pending -/
def pendFrom (P : Bt4Params) (c : Cfg) (data : Array UInt8) : Nat :=
  data.size + 1 - min c.niceLen P.minAvailFinishing

/-- number of positions inserted so far -/
def nIns (P : Bt4Params) (c : Cfg) (data : Array UInt8) (pos : Nat) : Nat := min pos (pendFrom P c data)

/-- the invariant, with the bound on the entries of the hash tables (`hiH`) and of the tree (`hiT`)
    as parameters: between operations both are `lzPos`; inside a step the current position is excluded -/
structure InvG (P : Bt4Params) (c : Cfg) (data : Array UInt8) (hiH hiT : Nat) (s : St) : Prop where
  h2size : s.h2.size = P.hash.hash2Size
  h3size : s.h3.size = P.hash.hash3Size
  h4size : s.h4.size = hash4Size P.hash c.dict
  treesize : s.tree.size = cyclicSize P c * P.treeFactor
  cyc : s.cyclicPos < cyclicSize P c
  lz : s.lzPos = nIns P c data s.pos + cyclicSize P c
  h2ok : TblOk (cyclicSize P c) hiH s.h2
  h3ok : TblOk (cyclicSize P c) hiH s.h3
  h4ok : TblOk (cyclicSize P c) hiH s.h4
  treeok : TblOk (cyclicSize P c) hiT s.tree
  h2slot : ∀ i, s.h2.getD i 0 ≠ 0 →
    (hashesAt P c data (s.h2.getD i 0 - cyclicSize P c - 1)).h2 = i
  h3slot : ∀ i, s.h3.getD i 0 ≠ 0 →
    (hashesAt P c data (s.h3.getD i 0 - cyclicSize P c - 1)).h3 = i

/-- (B1) the invariant of the states between operations: every table / tree entry is 0 or the `lz_pos`
    of an inserted position (`cyclic_size < e ≤ lz_pos`), hash2/hash3 slots hold positions with that hash
    value, the arrays have their allocation sizes, `cyclic_pos < cyclic_size`,
    `lz_pos = (number of inserted positions) + cyclic_size` -/
def Inv (P : Bt4Params) (c : Cfg) (data : Array UInt8) (s : St) : Prop := InvG P c data s.lzPos s.lzPos s

theorem cs_eq {P : Bt4Params} (hok : P.ok) (c : Cfg) : cyclicSize P c = c.dict + 1 := by
  unfold cyclicSize; rw [hok.2.2.2.2.2.2.1]

theorem init_inv {P : Bt4Params} {c : Cfg} {data : Array UInt8} (hH : Hyp P c data) (lg : Bool) :
    Inv P c data (init P c lg) where
  h2size := by simp [init]
  h3size := by simp [init]
  h4size := by simp [init]
  treesize := by simp [init]
  cyc := by
    show cyclicSize P c - 1 < cyclicSize P c
    rw [cs_eq hH.ok]; omega
  lz := by simp [init, nIns]
  h2ok := TblOk.replicate _ _ _
  h3ok := TblOk.replicate _ _ _
  h4ok := TblOk.replicate _ _ _
  treeok := TblOk.replicate _ _ _
  h2slot := by intro i h; exact absurd (getD_replicate _ _) h
  h3slot := by intro i h; exact absurd (getD_replicate _ _) h

theorem minAvail_pos {P : Bt4Params} (hok : P.ok) : 3 ≤ P.minAvailFinishing := by
  have h1 := hok.2.2.2.2.2.2.2.2.2.2.2.2.1
  have h2 := hok.2.2.2.2.2.2.2.2.2.2.2.2.2.1
  omega

/-- the normalisation at `lz_pos = 0x7FFFFFFF` is never reached -/
theorem InvG.noNorm {P : Bt4Params} {c : Cfg} {data : Array UInt8} {a b : Nat} {s : St} (hH : Hyp P c data)
    (h : InvG P c data a b s) : s.lzPos < 0x7FFFFFFF := by
  have h1 := h.lz
  have h2 := hH.size
  have h3 := cs_eq hH.ok c
  have hn := hH.nice
  have hm := minAvail_pos hH.ok
  unfold nIns pendFrom at h1
  omega

/-! ### `move_pos` -/

def pending (P : Bt4Params) (c : Cfg) (data : Array UInt8) (pos : Nat) : Prop :=
  data.size - pos < c.niceLen ∧ data.size - pos < P.minAvailFinishing

instance (P : Bt4Params) (c : Cfg) (data : Array UInt8) (pos : Nat) : Decidable (pending P c data pos) := by
  unfold pending; exact inferInstance

/-- the state after a successful `move_pos` -/
def moved (P : Bt4Params) (c : Cfg) (s : St) : St :=
  { s with cyclicPos := if s.cyclicPos + 1 = cyclicSize P c then 0 else s.cyclicPos + 1,
           lzPos := s.lzPos + 1, pos := s.pos + 1 }

theorem movePos_cases {P : Bt4Params} {c : Cfg} {data : Array UInt8} (hH : Hyp P c data) (s : St) :
    (pending P c data s.pos ∧ movePos P c data.size s = ({ s with pos := s.pos + 1 }, 0)) ∨
    (¬ pending P c data s.pos ∧ 3 ≤ data.size - s.pos ∧
      movePos P c data.size s = (moved P c s, data.size - s.pos)) := by
  have hn := hH.nice
  have hm := minAvail_pos hH.ok
  obtain ⟨h2, h3, h4, tree, cyclicPos, lzPos, pos, log⟩ := s
  by_cases hp : pending P c data pos
  · left
    refine ⟨hp, ?_⟩
    have hp' : data.size - pos < c.niceLen ∧ data.size - pos < P.minAvailFinishing := hp
    simp only [movePos, hp', and_self, if_true, ne_eq, not_true_eq_false, if_false]
  · right
    have hp' : ¬ (data.size - pos < c.niceLen ∧ data.size - pos < P.minAvailFinishing) := hp
    have h3 : 3 ≤ data.size - pos := by
      by_cases h : data.size - pos < c.niceLen
      · have : ¬ data.size - pos < P.minAvailFinishing := fun h' => hp' ⟨h, h'⟩
        omega
      · omega
    refine ⟨hp, h3, ?_⟩
    have hne : data.size - pos ≠ 0 := by omega
    simp only [movePos, hp', if_false, ne_eq, hne, not_false_eq_true, if_true, moved]

theorem nIns_pending {P : Bt4Params} {c : Cfg} {data : Array UInt8} (hH : Hyp P c data) {pos : Nat}
    (h : pending P c data pos) : nIns P c data (pos + 1) = nIns P c data pos := by
  have hn := hH.nice
  have hm := minAvail_pos hH.ok
  unfold pending at h
  unfold nIns pendFrom
  omega

theorem nIns_not_pending {P : Bt4Params} {c : Cfg} {data : Array UInt8} (hH : Hyp P c data) {pos : Nat}
    (h : ¬ pending P c data pos) : nIns P c data (pos + 1) = pos + 1 ∧ nIns P c data pos = pos := by
  have hn := hH.nice
  have hm := minAvail_pos hH.ok
  unfold pending at h
  unfold nIns pendFrom
  omega

theorem inv_pending {P : Bt4Params} {c : Cfg} {data : Array UInt8} (hH : Hyp P c data) {s : St}
    (hI : Inv P c data s) (hp : pending P c data s.pos) : Inv P c data { s with pos := s.pos + 1 } := by
  obtain ⟨a1, a2, a3, a4, a5, a6, a7, a8, a9, a10, a11, a12⟩ := hI
  exact ⟨a1, a2, a3, a4, a5, by show s.lzPos = _; rw [a6, nIns_pending hH hp], a7, a8, a9, a10, a11, a12⟩

theorem inv_moved {P : Bt4Params} {c : Cfg} {data : Array UInt8} (hH : Hyp P c data) {s : St}
    (hI : Inv P c data s) (hp : ¬ pending P c data s.pos) :
    InvG P c data s.lzPos s.lzPos (moved P c s) ∧ (moved P c s).lzPos = s.pos + cyclicSize P c + 1 := by
  obtain ⟨a1, a2, a3, a4, a5, a6, a7, a8, a9, a10, a11, a12⟩ := hI
  have hn := nIns_not_pending hH hp
  refine ⟨⟨a1, a2, a3, a4, ?_, ?_, a7, a8, a9, a10, a11, a12⟩, ?_⟩
  · show (if s.cyclicPos + 1 = cyclicSize P c then 0 else s.cyclicPos + 1) < cyclicSize P c
    split <;> omega
  · show s.lzPos + 1 = nIns P c data (s.pos + 1) + cyclicSize P c
    rw [a6, hn.1, hn.2]; omega
  · show s.lzPos + 1 = _
    rw [a6, hn.2]

/-! ### the tree walks keep every entry valid and the length of the tree -/

theorem terminate_tree {cs hi : Nat} {tree : Array Nat} {ptr0 ptr1 : Nat} {lg : Log} {r : Array Nat × Log}
    (h : TblOk cs hi tree) (hx : terminate tree ptr0 ptr1 lg = r) : TblOk cs hi r.1 ∧ r.1.size = tree.size := by
  subst hx
  unfold terminate
  exact ⟨(h.set _ _ (EntryOk.zero _ _)).set _ _ (EntryOk.zero _ _), by simp only [Array.size_setIfInBounds]⟩

theorem relink_tree {cs hi : Nat} {tree : Array Nat} {ptr0 ptr1 pair : Nat} {lg : Log} {r : Array Nat × Log}
    (h : TblOk cs hi tree) (hx : relink tree ptr0 ptr1 pair lg = r) : TblOk cs hi r.1 ∧ r.1.size = tree.size := by
  subst hx
  unfold relink
  refine ⟨?_, by simp only [Array.size_setIfInBounds]⟩
  have h1 := h.set ptr1 _ (h pair)
  exact h1.set ptr0 _ (h1 (pair + 1))

theorem findLoop_tree (P : Bt4Params) (data : Array UInt8) (k : Ctx) {cs hi : Nat}
    (depth : Nat) (tree : Array Nat) (ptr0 ptr1 len0 len1 cur lenBest : Nat) (ms : Array Match) (lg : Log) :
    TblOk cs hi tree → EntryOk cs hi cur →
    TblOk cs hi (findLoop P data k depth tree ptr0 ptr1 len0 len1 cur lenBest ms lg).1 ∧
    (findLoop P data k depth tree ptr0 ptr1 len0 len1 cur lenBest ms lg).1.size = tree.size := by
  fun_induction findLoop P data k depth tree ptr0 ptr1 len0 len1 cur lenBest ms lg with
  | case1 tree ptr0 ptr1 len0 len1 cur lenBest ms lg tree' lg' hx =>
    intro h _; exact terminate_tree h hx
  | case2 depth tree ptr0 ptr1 len0 len1 cur lenBest ms lg delta hstop tree' lg' hx =>
    intro h _; exact terminate_tree h hx
  | case3 depth tree ptr0 ptr1 len0 len1 cur lenBest ms lg delta hstop pair len lg1 hit ms1 hnice tree' lg' hx =>
    intro h _; exact relink_tree h hx
  | case4 depth tree ptr0 ptr1 len0 len1 cur lenBest ms lg delta hstop pair len lg1 hit ms1 hnice lenBest1 lg2 hlt
      tree1 lg3 ih =>
    intro h hc
    have ht : TblOk cs hi tree1 := h.set ptr1 cur hc
    obtain ⟨a, b⟩ := ih ht (ht _)
    exact ⟨a, by rw [b]; simp only [tree1, Array.size_setIfInBounds]⟩
  | case5 depth tree ptr0 ptr1 len0 len1 cur lenBest ms lg delta hstop pair len lg1 hit ms1 hnice lenBest1 lg2 hlt
      tree1 lg3 ih =>
    intro h hc
    have ht : TblOk cs hi tree1 := h.set ptr0 cur hc
    obtain ⟨a, b⟩ := ih ht (ht _)
    exact ⟨a, by rw [b]; simp only [tree1, Array.size_setIfInBounds]⟩

theorem skipLoop_tree (P : Bt4Params) (data : Array UInt8) (k : Ctx) {cs hi : Nat}
    (depth : Nat) (tree : Array Nat) (ptr0 ptr1 len0 len1 cur : Nat) (lg : Log) :
    TblOk cs hi tree → EntryOk cs hi cur →
    TblOk cs hi (skipLoop P data k depth tree ptr0 ptr1 len0 len1 cur lg).1 ∧
    (skipLoop P data k depth tree ptr0 ptr1 len0 len1 cur lg).1.size = tree.size := by
  fun_induction skipLoop P data k depth tree ptr0 ptr1 len0 len1 cur lg with
  | case1 => intro h _; exact terminate_tree h rfl
  | case2 => intro h _; exact terminate_tree h rfl
  | case3 => intro h _; exact relink_tree h rfl
  | case4 depth tree ptr0 ptr1 len0 len1 cur lg delta hstop pair len0' lg1 len nice lg2 hx hnice lg3 hlt tree1 lg4 ih =>
    intro h hc
    have ht : TblOk cs hi tree1 := h.set ptr1 cur hc
    obtain ⟨a, b⟩ := ih ht (ht _)
    exact ⟨a, by rw [b]; simp only [tree1, Array.size_setIfInBounds]⟩
  | case5 depth tree ptr0 ptr1 len0 len1 cur lg delta hstop pair len0' lg1 len nice lg2 hx hnice lg3 hlt tree1 lg4 ih =>
    intro h hc
    have ht : TblOk cs hi tree1 := h.set ptr0 cur hc
    obtain ⟨a, b⟩ := ih ht (ht _)
    exact ⟨a, by rw [b]; simp only [tree1, Array.size_setIfInBounds]⟩

/-! ### the hash stage -/

theorem hashStage_st (P : Bt4Params) (c : Cfg) (data : Array UInt8) (s : St) :
    (hashStage P c data s).st =
      { s with h2 := s.h2.setIfInBounds (hashesAt P c data (s.pos - 1)).h2 s.lzPos,
               h3 := s.h3.setIfInBounds (hashesAt P c data (s.pos - 1)).h3 s.lzPos,
               h4 := s.h4.setIfInBounds (hashesAt P c data (s.pos - 1)).h4 s.lzPos,
               log := (((logHashReads s.log (s.pos - 1)).push (.h2 (hashesAt P c data (s.pos - 1)).h2)).push
                  (.h3 (hashesAt P c data (s.pos - 1)).h3)).push (.h4 (hashesAt P c data (s.pos - 1)).h4) } := by
  cases s; rfl

theorem hashStage_delta2 (P : Bt4Params) (c : Cfg) (data : Array UInt8) (s : St) :
    (hashStage P c data s).delta2 = s.lzPos - s.h2.getD (hashesAt P c data (s.pos - 1)).h2 0 := by
  cases s; rfl

theorem hashStage_delta3 (P : Bt4Params) (c : Cfg) (data : Array UInt8) (s : St) :
    (hashStage P c data s).delta3 = s.lzPos - s.h3.getD (hashesAt P c data (s.pos - 1)).h3 0 := by
  cases s; rfl

theorem hashStage_cur (P : Bt4Params) (c : Cfg) (data : Array UInt8) (s : St) :
    (hashStage P c data s).cur = s.h4.getD (hashesAt P c data (s.pos - 1)).h4 0 := by
  cases s; rfl

/-- the hash stage at a freshly moved, non-pending position -/
theorem hashStage_inv {P : Bt4Params} {c : Cfg} {data : Array UInt8} {hi : Nat} {s : St}
    (hI : InvG P c data hi hi s) (hlz : s.lzPos = hi + 1) (hp : s.lzPos = (s.pos - 1) + cyclicSize P c + 1) :
    InvG P c data (hi + 1) hi (hashStage P c data s).st := by
  obtain ⟨a1, a2, a3, a4, a5, a6, a7, a8, a9, a10, a11, a12⟩ := hI
  have hv : EntryOk (cyclicSize P c) (hi + 1) s.lzPos := Or.inr ⟨by omega, by omega⟩
  rw [hashStage_st]
  refine ⟨?_, ?_, ?_, a4, a5, a6, ?_, ?_, ?_, a10, ?_, ?_⟩
  · show (s.h2.setIfInBounds _ _).size = _
    rw [Array.size_setIfInBounds]; exact a1
  · show (s.h3.setIfInBounds _ _).size = _
    rw [Array.size_setIfInBounds]; exact a2
  · show (s.h4.setIfInBounds _ _).size = _
    rw [Array.size_setIfInBounds]; exact a3
  · exact (a7.mono (Nat.le_succ _)).set _ _ hv
  · exact (a8.mono (Nat.le_succ _)).set _ _ hv
  · exact (a9.mono (Nat.le_succ _)).set _ _ hv
  · intro i
    show (s.h2.setIfInBounds _ _).getD i 0 ≠ 0 → (hashesAt P c data ((s.h2.setIfInBounds _ _).getD i 0 - _ - 1)).h2 = i
    rw [getD_set]
    split
    · rename_i h
      intro _
      have : s.lzPos - cyclicSize P c - 1 = s.pos - 1 := by omega
      rw [this]; exact h.1
    · exact a11 i
  · intro i
    show (s.h3.setIfInBounds _ _).getD i 0 ≠ 0 → (hashesAt P c data ((s.h3.setIfInBounds _ _).getD i 0 - _ - 1)).h3 = i
    rw [getD_set]
    split
    · rename_i h
      intro _
      have : s.lzPos - cyclicSize P c - 1 = s.pos - 1 := by omega
      rw [this]; exact h.1
    · exact a12 i

/-! ### the private skip -/

theorem skipTree_eq (P : Bt4Params) (c : Cfg) (data : Array UInt8) (s : St) (niceLimit cur : Nat) :
    skipTree P c data s niceLimit cur =
      { s with
        tree := (skipLoop P data (ctxOf P c s 0 niceLimit) (depthLimit P c) s.tree (shl P s.cyclicPos + 1)
                  (shl P s.cyclicPos) 0 0 cur s.log).1,
        log := (skipLoop P data (ctxOf P c s 0 niceLimit) (depthLimit P c) s.tree (shl P s.cyclicPos + 1)
                  (shl P s.cyclicPos) 0 0 cur s.log).2 } := by
  cases s; rfl

theorem skipTree_inv {P : Bt4Params} {c : Cfg} {data : Array UInt8} {hiH hi : Nat} {s : St} {niceLimit cur : Nat}
    (hI : InvG P c data hiH hi s) (hc : EntryOk (cyclicSize P c) hi cur) :
    InvG P c data hiH hi (skipTree P c data s niceLimit cur) := by
  obtain ⟨a1, a2, a3, a4, a5, a6, a7, a8, a9, a10, a11, a12⟩ := hI
  rw [skipTree_eq]
  have h := skipLoop_tree P data (ctxOf P c s 0 niceLimit) (depthLimit P c) s.tree (shl P s.cyclicPos + 1)
    (shl P s.cyclicPos) 0 0 cur s.log a10 hc
  exact ⟨a1, a2, a3, by show _ = _; rw [h.2]; exact a4, a5, a6, a7, a8, a9, h.1, a11, a12⟩

theorem InvG.toInv {P : Bt4Params} {c : Cfg} {data : Array UInt8} {hi : Nat} {s : St}
    (hI : InvG P c data (hi + 1) hi s) (hlz : s.lzPos = hi + 1) : Inv P c data s := by
  obtain ⟨a1, a2, a3, a4, a5, a6, a7, a8, a9, a10, a11, a12⟩ := hI
  unfold Inv
  rw [hlz]
  exact ⟨a1, a2, a3, a4, a5, a6, a7, a8, a9, a10.mono (Nat.le_succ _), a11, a12⟩

/-! ### `find_matches` -/

/-- `match_len_limit` -/
def lenLimitOf (c : Cfg) (avail : Nat) : Nat := if avail < c.mlmax then avail else c.mlmax
/-- `nice_len_limit` of `find_matches` -/
def niceLimitOf (c : Cfg) (avail : Nat) : Nat := if avail < c.mlmax ∧ c.niceLen > avail then avail else c.niceLen

/-- `find` spelled out with projections instead of pattern matching -/
theorem find_eq (P : Bt4Params) (c : Cfg) (data : Array UInt8) (s : St) :
    find P c data s =
      let mv := movePos P c data.size s
      if mv.2 < c.mlmax ∧ mv.2 = 0 then (mv.1, #[]) else
      let lenLimit := lenLimitOf c mv.2
      let niceLimit := niceLimitOf c mv.2
      let hs := hashStage P c data mv.1
      let k := ctxOf P c hs.st lenLimit niceLimit
      let cd := extendCands data k.p lenLimit (hashCands P data k.p k.cs hs.delta2 hs.delta3 hs.st.log)
      if cd.ms.size > 0 ∧ geOrGt P.niceStopGe cd.lenBest niceLimit = true then
        (skipTree P c data { hs.st with log := cd.log } niceLimit hs.cur, cd.ms)
      else
        let lenBest := if cd.lenBest < P.lenBestFloor then P.lenBestFloor else cd.lenBest
        let r := findLoop P data k (depthLimit P c) hs.st.tree (shl P hs.st.cyclicPos + 1) (shl P hs.st.cyclicPos)
          0 0 hs.cur lenBest cd.ms cd.log
        ({ hs.st with tree := r.1, log := r.2.2 }, r.2.1) := by
  rfl

theorem InvG.setLog {P : Bt4Params} {c : Cfg} {data : Array UInt8} {a b : Nat} {s : St}
    (hI : InvG P c data a b s) (lg : Log) : InvG P c data a b { s with log := lg } := by
  obtain ⟨a1, a2, a3, a4, a5, a6, a7, a8, a9, a10, a11, a12⟩ := hI
  exact ⟨a1, a2, a3, a4, a5, a6, a7, a8, a9, a10, a11, a12⟩

theorem moved_pos (P : Bt4Params) (c : Cfg) (s : St) : (moved P c s).pos = s.pos + 1 := rfl
theorem moved_lzPos (P : Bt4Params) (c : Cfg) (s : St) : (moved P c s).lzPos = s.lzPos + 1 := rfl

/-- facts about a non-pending step that every later proof starts from -/
theorem step_facts {P : Bt4Params} {c : Cfg} {data : Array UInt8} (hH : Hyp P c data) {s : St}
    (hI : Inv P c data s) (hp : ¬ pending P c data s.pos) :
    InvG P c data (s.lzPos + 1) s.lzPos (hashStage P c data (moved P c s)).st ∧
    (hashStage P c data (moved P c s)).st.lzPos = s.lzPos + 1 ∧
    (hashStage P c data (moved P c s)).st.pos = s.pos + 1 ∧
    s.lzPos = s.pos + cyclicSize P c ∧
    EntryOk (cyclicSize P c) s.lzPos (hashStage P c data (moved P c s)).cur := by
  obtain ⟨hm, hlz⟩ := inv_moved hH hI hp
  have h1 := hashStage_inv hm (moved_lzPos P c s) (by rw [moved_pos, hlz]; omega)
  refine ⟨h1, ?_, ?_, ?_, ?_⟩
  · rw [hashStage_st]; rfl
  · rw [hashStage_st]; rfl
  · rw [moved_lzPos] at hlz; omega
  · rw [hashStage_cur]; exact hm.h4ok _

/-- the pieces of a `find` at a non-pending position, named -/
def stepHs (P : Bt4Params) (c : Cfg) (data : Array UInt8) (s : St) : HashStage := hashStage P c data (moved P c s)
def stepK (P : Bt4Params) (c : Cfg) (data : Array UInt8) (s : St) : Ctx :=
  ctxOf P c (stepHs P c data s).st (lenLimitOf c (data.size - s.pos)) (niceLimitOf c (data.size - s.pos))
def stepCd0 (P : Bt4Params) (c : Cfg) (data : Array UInt8) (s : St) : Cands :=
  hashCands P data (stepK P c data s).p (stepK P c data s).cs (stepHs P c data s).delta2 (stepHs P c data s).delta3
    (stepHs P c data s).st.log
def stepCd (P : Bt4Params) (c : Cfg) (data : Array UInt8) (s : St) : Cands :=
  extendCands data (stepK P c data s).p (lenLimitOf c (data.size - s.pos)) (stepCd0 P c data s)
def stepEarly (P : Bt4Params) (c : Cfg) (data : Array UInt8) (s : St) : Prop :=
  (stepCd P c data s).ms.size > 0 ∧
    geOrGt P.niceStopGe (stepCd P c data s).lenBest (niceLimitOf c (data.size - s.pos)) = true
def stepLenBest (P : Bt4Params) (c : Cfg) (data : Array UInt8) (s : St) : Nat :=
  if (stepCd P c data s).lenBest < P.lenBestFloor then P.lenBestFloor else (stepCd P c data s).lenBest
def stepLoop (P : Bt4Params) (c : Cfg) (data : Array UInt8) (s : St) : Array Nat × Array Match × Log :=
  findLoop P data (stepK P c data s) (depthLimit P c) (stepHs P c data s).st.tree
    (shl P (stepHs P c data s).st.cyclicPos + 1) (shl P (stepHs P c data s).st.cyclicPos)
    0 0 (stepHs P c data s).cur (stepLenBest P c data s) (stepCd P c data s).ms (stepCd P c data s).log

instance (P : Bt4Params) (c : Cfg) (data : Array UInt8) (s : St) : Decidable (stepEarly P c data s) := by
  unfold stepEarly; exact inferInstance

theorem find_pending {P : Bt4Params} {c : Cfg} {data : Array UInt8} (hH : Hyp P c data) {s : St}
    (hp : pending P c data s.pos) : find P c data s = ({ s with pos := s.pos + 1 }, #[]) := by
  rw [find_eq]
  have hml := hH.mlmax
  rcases movePos_cases hH s with ⟨_, hmv⟩ | ⟨hp', _, _⟩
  · simp only [hmv]
    rw [if_pos ⟨by omega, trivial⟩]
  · exact absurd hp hp'

theorem find_nonpending {P : Bt4Params} {c : Cfg} {data : Array UInt8} (hH : Hyp P c data) {s : St}
    (hp : ¬ pending P c data s.pos) :
    find P c data s =
      if stepEarly P c data s then
        (skipTree P c data { (stepHs P c data s).st with log := (stepCd P c data s).log }
          (niceLimitOf c (data.size - s.pos)) (stepHs P c data s).cur, (stepCd P c data s).ms)
      else
        ({ (stepHs P c data s).st with tree := (stepLoop P c data s).1, log := (stepLoop P c data s).2.2 },
          (stepLoop P c data s).2.1) := by
  rw [find_eq]
  have hml := hH.mlmax
  rcases movePos_cases hH s with ⟨hp', _⟩ | ⟨_, h3, hmv⟩
  · exact absurd hp' hp
  · simp only [hmv]
    rw [if_neg (by omega)]
    rfl

theorem find_inv {P : Bt4Params} {c : Cfg} {data : Array UInt8} (hH : Hyp P c data) {s : St}
    (hI : Inv P c data s) : Inv P c data (find P c data s).1 := by
  by_cases hp : pending P c data s.pos
  · rw [find_pending hH hp]
    exact inv_pending hH hI hp
  · rw [find_nonpending hH hp]
    obtain ⟨h1, h2, _, _, h5⟩ := step_facts hH hI hp
    split
    · exact (skipTree_inv (h1.setLog _) h5).toInv (by rw [skipTree_eq]; exact h2)
    · have h := findLoop_tree P data (stepK P c data s) (depthLimit P c) (stepHs P c data s).st.tree
        (shl P (stepHs P c data s).st.cyclicPos + 1) (shl P (stepHs P c data s).st.cyclicPos)
        0 0 (stepHs P c data s).cur (stepLenBest P c data s) (stepCd P c data s).ms (stepCd P c data s).log
        h1.treeok h5
      obtain ⟨a1, a2, a3, a4, a5, a6, a7, a8, a9, a10, a11, a12⟩ := h1
      refine InvG.toInv (hi := s.lzPos) ?_ h2
      exact ⟨a1, a2, a3, by show _ = _; rw [show (stepLoop P c data s).1.size = _ from h.2]; exact a4,
        a5, a6, a7, a8, a9, h.1, a11, a12⟩

theorem skipOne_eq (P : Bt4Params) (c : Cfg) (data : Array UInt8) (s : St) :
    skipOne P c data s =
      let mv := movePos P c data.size s
      if mv.2 < c.niceLen ∧ mv.2 = 0 then mv.1 else
      let niceLimit := if mv.2 < c.niceLen then mv.2 else c.niceLen
      skipTree P c data (hashStage P c data mv.1).st niceLimit (hashStage P c data mv.1).cur := by
  rfl

theorem skipOne_inv {P : Bt4Params} {c : Cfg} {data : Array UInt8} (hH : Hyp P c data) {s : St}
    (hI : Inv P c data s) : Inv P c data (skipOne P c data s) := by
  rw [skipOne_eq]
  have hml := hH.nice
  rcases movePos_cases hH s with ⟨hp, hmv⟩ | ⟨hp, h3, hmv⟩
  · simp only [hmv]
    rw [if_pos ⟨by omega, trivial⟩]
    exact inv_pending hH hI hp
  · simp only [hmv]
    rw [if_neg (by omega)]
    obtain ⟨h1, h2, _, _, h5⟩ := step_facts hH hI hp
    exact (skipTree_inv h1 h5).toInv (by rw [skipTree_eq]; exact h2)

theorem skip_inv {P : Bt4Params} {c : Cfg} {data : Array UInt8} (hH : Hyp P c data) (n : Nat) :
    ∀ {s : St}, Inv P c data s → Inv P c data (skip P c data n s) := by
  induction n with
  | zero => intro s h; exact h
  | succ n ih => intro s h; exact ih (skipOne_inv hH h)

theorem runOp_inv {P : Bt4Params} {c : Cfg} {data : Array UInt8} (hH : Hyp P c data) (op : Nat) {s : St}
    (tr : Array (Nat × List Match)) (hI : Inv P c data s) : Inv P c data (runOp P c data op s tr).1 := by
  unfold runOp
  split
  · exact find_inv hH hI
  · exact skip_inv hH op hI

theorem runOps_inv {P : Bt4Params} {c : Cfg} {data : Array UInt8} (hH : Hyp P c data) (ops : List Nat) :
    ∀ {s : St} (tr : Array (Nat × List Match)), Inv P c data s → Inv P c data (runOps P c data ops s tr).1 := by
  induction ops with
  | nil => intro s tr h; exact h
  | cons op rest ih =>
    intro s tr h
    unfold runOps
    split
    · exact h
    · exact ih _ (runOp_inv hH op tr h)

/-- (B1) every state reachable by a script satisfies the invariant -/
theorem runScript_inv {P : Bt4Params} {c : Cfg} {data : Array UInt8} (hH : Hyp P c data) (script : List Nat)
    (lg : Bool) : Inv P c data (runScript P c data script lg).1 :=
  runOps_inv hH script #[] (init_inv hH lg)

end LzmaVerif.Mf.Bt4
