import LzmaVerif.Proofs.XzParse
/-! Block bodies and whole streams: `readBlocks` on the bytes `streamBytes` produces. -/
namespace LzmaVerif.Xz
open LzmaVerif Lzma Checks

/-! ## Block body -/
/-- what the payload codec has to provide for one block -/
def PayloadOk (dict : Nat) (payload filtered : List Nat) : Prop :=
  ∀ (rest : List Nat) (cap : Nat), filtered.length ≤ cap →
    ∃ chunks, Lzma2.decode dict #[] (payload ++ rest) cap
      = .ok { out := filtered.toArray, consumed := payload.length, chunks := chunks }

theorem unfilter_map_readerFilter : ∀ (fs : List Filter) (d : List Nat),
    unfilter (fs.map readerFilter) d = unfilter fs d := by
  intro fs
  induction fs with
  | nil => intro d; rfl
  | cons f fs ih =>
    intro d
    cases f <;> simp [unfilter, readerFilter, ih]

theorem lzma2Dict_map_readerFilter (fs : List Filter) (hfs : FiltersOk fs) :
    lzma2Dict (fs.map readerFilter) = readerDict fs := by
  obtain ⟨pre, d, rfl, _, _, _⟩ := filtersOk_spec fs hfs
  unfold lzma2Dict
  rw [getLast?_map_readerFilter, readerDict_append]

theorem mem_dropLast_pre (fs : List Filter) (hfs : FiltersOk fs) (f : Filter)
    (hf : f ∈ (fs.map readerFilter).dropLast) : PreOk f := by
  obtain ⟨pre, d, rfl, _, hp, _⟩ := filtersOk_spec fs hfs
  rw [List.map_append, List.map_cons, List.map_nil, List.dropLast_concat, map_readerFilter_pre pre hp] at hf
  exact hp f hf

/-- header record the reader produces for a chain written as `fs` -/
def hdrOf (fs : List Filter) : BlockHeader :=
  { filters := fs.map readerFilter, size := (blockHeaderBytes fs).length }

def blkOf (fs : List Filter) (b : List Nat × List Nat) : Block :=
  { header := hdrOf fs, data := b.2, payload := b.1 }

theorem decodeBlockBody_ok (c : Check) (fs : List Filter) (hfs : FiltersOk fs) (payload data rest : List Nat)
    (cb cap : Nat) (hcb : cb % 4 = 0)
    (hp : PayloadOk (readerDict fs) payload (applyFilters fs data))
    (hu : unfilter fs (applyFilters fs data) = data)
    (hl : (applyFilters fs data).length ≤ cap) :
    decodeBlockBody c (hdrOf fs) cb
        (payload ++ (List.replicate ((4 - payload.length % 4) % 4) 0 ++ (c.compute data ++ rest))) cap
      = .ok (blkOf fs (payload, data)) rest := by
  obtain ⟨chunks, hdec⟩ := hp (List.replicate ((4 - payload.length % 4) % 4) 0 ++ (c.compute data ++ rest)) cap hl
  unfold decodeBlockBody
  split
  · rename_i hany
    exfalso
    rw [List.any_eq_true] at hany
    obtain ⟨f, hf, hm⟩ := hany
    have := mem_dropLast_pre fs hfs f hf
    cases f <;> simp_all [PreOk]
  · simp only [hdrOf, lzma2Dict_map_readerFilter fs hfs, hdec,
      List.drop_left, List.take_left, unfilter_map_readerFilter, hu]
    have hm : (4 - (cb + payload.length) % 4) % 4 = (4 - payload.length % 4) % 4 := by omega
    rw [hm, takeN_append _ _ _ (List.length_replicate ..)]
    simp only [replicate0_any, Bool.false_eq_true, if_false]
    rw [takeN_append _ _ _ (compute_length c data)]
    simp [blkOf, hdrOf, declaredMismatch]

/-! ## Blocks -/
/-- per-block hypotheses -/
def BlockOk (fs : List Filter) (b : List Nat × List Nat) : Prop :=
  PayloadOk (readerDict fs) b.1 (applyFilters fs b.2) ∧ unfilter fs (applyFilters fs b.2) = b.2 ∧
  (applyFilters fs b.2).length ≤ b.2.length

theorem blockBytes_fst (c : Check) (fs : List Filter) (p d : List Nat) :
    (blockBytes c fs p d).1 = blockHeaderBytes fs ++ (p ++ (List.replicate ((4 - p.length % 4) % 4) 0 ++ c.compute d)) := by
  simp [blockBytes]

theorem blockBytes_snd (c : Check) (fs : List Filter) (p d : List Nat) :
    (blockBytes c fs p d).2 = ((blockHeaderBytes fs).length + p.length + c.size, d.length) := rfl

theorem blockBytes_mod4 (c : Check) (fs : List Filter) (p d : List Nat) :
    (blockBytes c fs p d).1.length % 4 = 0 := by
  rw [blockBytes_fst]
  simp only [List.length_append, List.length_replicate, compute_length]
  have := blockHeaderBytes_mod4 fs
  have := size_mod4 c
  omega

theorem blockBytes_pos (c : Check) (fs : List Filter) (p d : List Nat) :
    1 ≤ (blockBytes c fs p d).1.length := by
  rw [blockBytes_fst]
  simp only [List.length_append]
  have := blockHeaderBytes_pos fs
  omega

/-- one block -/
theorem readBlocks_block (multi : Bool) (c : Check) (fs : List Filter) (hfs : FiltersOk fs)
    (b : List Nat × List Nat) (hb : BlockOk fs b) (tail acc : List Nat) (blks : List Block)
    (total pre fuel cap : Nat)
    (htot : total = pre + ((blockBytes c fs b.1 b.2).1 ++ tail).length) (hpre : pre % 4 = 0)
    (hcap : acc.length + b.2.length ≤ cap) :
    readBlocks multi total (fuel + 1) c ((blockBytes c fs b.1 b.2).1 ++ tail) acc blks cap
      = readBlocks multi total fuel c tail (acc ++ b.2) (blkOf fs b :: blks) cap := by
  obtain ⟨h1, h2, h3⟩ := hb
  rw [blockBytes_fst] at htot ⊢
  conv => lhs; unfold readBlocks
  simp only [List.append_assoc]
  rw [parseBlockHeader_ok fs hfs]
  simp only []
  have hcb : (total - (b.1 ++ (List.replicate ((4 - b.1.length % 4) % 4) 0 ++ (c.compute b.2 ++ tail))).length) % 4 = 0 := by
    have := blockHeaderBytes_mod4 fs
    simp only [List.length_append] at htot ⊢
    omega
  have := decodeBlockBody_ok c fs hfs b.1 b.2 tail _ cap hcb h1 h2 (by omega)
  simp only [hdrOf] at this
  rw [this]
  have hng : ¬ (acc.length + (blkOf fs (b.1, b.2)).data.length > cap) := by
    simp only [blkOf]; omega
  simp only [hng, if_false]
  rfl


def blocksBytes (c : Check) (fs : List Filter) (blocks : List (List Nat × List Nat)) : List Nat :=
  ((blocks.map fun b => blockBytes c fs b.1 b.2).map (·.1)).flatten

def blocksData (blocks : List (List Nat × List Nat)) : List Nat := (blocks.map (·.2)).flatten

theorem blocksBytes_cons (c : Check) (fs : List Filter) (b : List Nat × List Nat) (blocks : List (List Nat × List Nat)) :
    blocksBytes c fs (b :: blocks) = (blockBytes c fs b.1 b.2).1 ++ blocksBytes c fs blocks := by
  simp [blocksBytes]

theorem blocksBytes_mod4 (c : Check) (fs : List Filter) (blocks : List (List Nat × List Nat)) :
    (blocksBytes c fs blocks).length % 4 = 0 ∧ blocks.length ≤ (blocksBytes c fs blocks).length := by
  induction blocks with
  | nil => simp [blocksBytes]
  | cons b blocks ih =>
    rw [blocksBytes_cons, List.length_append, List.length_cons]
    have := blockBytes_mod4 c fs b.1 b.2
    have := blockBytes_pos c fs b.1 b.2
    omega

/-- all blocks of a stream -/
theorem readBlocks_blocks (multi : Bool) (c : Check) (fs : List Filter) (hfs : FiltersOk fs) (total cap : Nat) :
    ∀ (blocks : List (List Nat × List Nat)), (∀ b ∈ blocks, BlockOk fs b) →
    ∀ (tail acc : List Nat) (blks : List Block) (pre fuel : Nat),
    total = pre + (blocksBytes c fs blocks ++ tail).length → pre % 4 = 0 →
    acc.length + (blocksData blocks).length ≤ cap →
    readBlocks multi total (fuel + blocks.length) c (blocksBytes c fs blocks ++ tail) acc blks cap
      = readBlocks multi total fuel c tail (acc ++ blocksData blocks) ((blocks.map (blkOf fs)).reverse ++ blks) cap := by
  intro blocks
  induction blocks with
  | nil => intro _ tail acc blks pre fuel _ _ _; simp [blocksBytes, blocksData]
  | cons b blocks ih =>
    intro hb tail acc blks pre fuel htot hpre hcap
    rw [blocksBytes_cons] at htot ⊢
    simp only [blocksData, List.map_cons, List.flatten_cons, List.length_append] at hcap
    rw [List.append_assoc] at htot ⊢
    rw [List.length_cons, ← Nat.add_assoc]
    rw [readBlocks_block multi c fs hfs b (hb b List.mem_cons_self) _ acc blks total pre _ cap htot hpre (by omega)]
    rw [ih (fun x hx => hb x (List.mem_cons_of_mem _ hx)) tail (acc ++ b.2) _ (pre + (blockBytes c fs b.1 b.2).1.length) fuel
      (by rw [htot]; simp only [List.length_append]; omega)
      (by have := blockBytes_mod4 c fs b.1 b.2; omega)
      (by simp only [blocksData, List.length_append]; omega)]
    simp [blocksData]

/-! ## Index and footer -/
theorem indexBytes_cons (recs : List (Nat × Nat)) : indexBytes recs = 0 :: (indexBytes recs).tail := by
  rw [indexBytes_eq]; rfl

theorem parseBlockHeader_zero (x : List Nat) : parseBlockHeader (0 :: x) = .ok (none, x) := by
  simp [parseBlockHeader, pure, Except.pure]

/-- what happens after the footer of a stream -/
def afterStream (multi : Bool) (total fuel : Nat) (rest acc : List Nat) (blks : List Block) (cap : Nat) : Out :=
  if ¬ multi then .ok acc (total - rest.length) blks else
  match nextStream (rest.length + 1) rest 0 with
  | .error e => .err e
  | .ok none => .ok acc total blks
  | .ok (some (chk', rest')) => readBlocks multi total fuel chk' rest' acc [] cap

/-- index + footer, for ANY record list and ANY length announced in the footer: the reader compares the records
with the blocks it decoded and the backward size with the size of the index -/
theorem readBlocks_end (multi : Bool) (c : Check) (recs : List (Nat × Nat)) (hn : recs.length < 2 ^ 63)
    (hrecs : ∀ x ∈ recs, RecOk x) (n : Nat) (rest acc : List Nat) (blks : List Block) (total fuel cap : Nat) :
    readBlocks multi total (fuel + 1) c (indexBytes recs ++ (footerBytes c n ++ rest)) acc blks cap
      = if recs ≠ (blks.map (blockRecord c)).reverse then .err .invalidData
        else if (ofLe (le 4 (n / 4 - 1)) + 1) * 4 ≠ (indexBytes recs).length then .err .invalidData
        else afterStream multi total fuel rest acc blks cap := by
  conv => lhs; unfold readBlocks
  rw [indexBytes_cons, List.cons_append, parseBlockHeader_zero]
  simp only []
  rw [parseIndex_ok recs hn hrecs]
  simp only []
  by_cases hr : recs = (blks.map (blockRecord c)).reverse
  · have hlen : recs.length = blks.length := by rw [hr]; simp
    simp only [hlen, ne_eq, not_true_eq_false, if_false]
    rw [if_neg (not_not_intro hr), if_neg (not_not_intro hr)]
    rw [parseFooter_ok]
    simp only []
    rw [← indexBytes_cons]
    split
    · rfl
    · simp only [not_true_eq_false, if_false]
      rfl
  · rw [if_pos hr]
    split
    · rfl
    · first | rfl | rw [if_pos hr]

/-! ## Whole stream -/
def recsOf (c : Check) (fs : List Filter) (blocks : List (List Nat × List Nat)) : List (Nat × Nat) :=
  (blocks.map fun b => blockBytes c fs b.1 b.2).map (·.2)

/-- the records the reader collects for the blocks of a written stream are the records the writer puts into the
index -/
theorem blockRecords_blkOf (c : Check) (fs : List Filter) (blocks : List (List Nat × List Nat)) :
    (((blocks.map (blkOf fs)).reverse).map (blockRecord c)).reverse = recsOf c fs blocks := by
  rw [List.map_reverse, List.reverse_reverse]
  simp only [recsOf, List.map_map]
  apply List.map_congr_left
  intro b _
  rfl

/-- everything after the stream header -/
def streamBody (c : Check) (fs : List Filter) (blocks : List (List Nat × List Nat)) : List Nat :=
  blocksBytes c fs blocks ++ (indexBytes (recsOf c fs blocks) ++ footerBytes c (indexBytes (recsOf c fs blocks)).length)

theorem streamBytes_eq (c : Check) (fs : List Filter) (blocks : List (List Nat × List Nat)) :
    streamBytes c fs blocks = streamHeaderBytes c ++ streamBody c fs blocks := by
  simp [streamBytes, streamBody, blocksBytes, recsOf]

/-- the sizes fit the 63-bit integers of the XZ index (the writer model emits nothing for larger values) -/
def SizesOk63 (c : Check) (fs : List Filter) (blocks : List (List Nat × List Nat)) : Prop :=
  blocks.length < 2 ^ 63 ∧
  ∀ b ∈ blocks, (blockHeaderBytes fs).length + b.1.length + c.size < 2 ^ 63 ∧ b.2.length < 2 ^ 63

/-- the Index is at most 2^34 bytes long, so that `size / 4 - 1` fits the 32-bit Backward Size field of the footer
(`write_stream_footer` truncates with `as u32`; the reader compares the field with the size of the index) -/
def IndexFits (c : Check) (fs : List Filter) (blocks : List (List Nat × List Nat)) : Prop :=
  (indexBytes (recsOf c fs blocks)).length ≤ 2 ^ 34

/-- the size side conditions of the round trip: every index field fits its 63-bit integer and the Index fits the
Backward Size field -/
def SizesOk (c : Check) (fs : List Filter) (blocks : List (List Nat × List Nat)) : Prop :=
  SizesOk63 c fs blocks ∧ IndexFits c fs blocks

theorem recsOf_ok (c : Check) (fs : List Filter) (blocks : List (List Nat × List Nat)) (h : SizesOk63 c fs blocks) :
    (recsOf c fs blocks).length = blocks.length ∧ ∀ x ∈ recsOf c fs blocks, RecOk x := by
  refine ⟨by simp [recsOf], ?_⟩
  intro x hx
  simp only [recsOf, List.map_map, List.mem_map, Function.comp] at hx
  obtain ⟨b, hb, rfl⟩ := hx
  obtain ⟨h1, h2⟩ := h.2 b hb
  have := blockHeaderBytes_pos fs
  rw [blockBytes_snd]
  exact ⟨by simp only; omega, h1, h2⟩

theorem streamBody_length (c : Check) (fs : List Filter) (blocks : List (List Nat × List Nat)) :
    (streamBody c fs blocks).length % 4 = 0 ∧ blocks.length + 1 ≤ (streamBody c fs blocks).length := by
  simp only [streamBody, List.length_append, footerBytes_length]
  have := blocksBytes_mod4 c fs blocks
  have := indexBytes_mod4 (recsOf c fs blocks)
  omega

/-! ### the Backward Size field -/
theorem ofLe_lt : ∀ (bs : List Nat), Bytes bs → ofLe bs < 256 ^ bs.length := by
  intro bs
  induction bs with
  | nil => intro _; simp [ofLe]
  | cons b bs ih =>
    intro h
    have h1 := h b List.mem_cons_self
    have h2 := ih (fun x hx => h x (List.mem_cons_of_mem _ hx))
    simp only [ofLe, List.foldr_cons, List.length_cons, Nat.pow_succ] at h2 ⊢
    omega

theorem indexBytes_len_ge (rs : List (Nat × Nat)) : 4 ≤ (indexBytes rs).length := by
  rw [indexBytes_eq]
  simp only [List.length_cons, List.length_append, le_length]
  omega

/-- the footer the writer emits announces the right Index size exactly when the Index is at most 2^34 bytes -/
theorem backward_size_iff (n : Nat) (h4 : n % 4 = 0) (hge : 4 ≤ n) :
    (ofLe (le 4 (n / 4 - 1)) + 1) * 4 = n ↔ n ≤ 2 ^ 34 := by
  constructor
  · intro h
    have := ofLe_lt (le 4 (n / 4 - 1)) (le_bytes _ _)
    rw [le_length] at this
    omega
  · intro hle
    have : n / 4 - 1 < 256 ^ 4 := by omega
    rw [ofLe_le 4 _ this]
    omega

/-- one whole stream after its header: accepted iff the Index fits the Backward Size field -/
theorem readBlocks_stream_gen (multi : Bool) (c : Check) (fs : List Filter) (hfs : FiltersOk fs)
    (blocks : List (List Nat × List Nat)) (hb : ∀ b ∈ blocks, BlockOk fs b) (hsz : SizesOk63 c fs blocks)
    (rest acc : List Nat) (total pre fuel cap : Nat)
    (htot : total = pre + (streamBody c fs blocks ++ rest).length) (hpre : pre % 4 = 0)
    (hcap : acc.length + (blocksData blocks).length ≤ cap) :
    readBlocks multi total (fuel + blocks.length + 1) c (streamBody c fs blocks ++ rest) acc [] cap
      = if (indexBytes (recsOf c fs blocks)).length ≤ 2 ^ 34 then
          afterStream multi total fuel rest (acc ++ blocksData blocks) (blocks.map (blkOf fs)).reverse cap
        else .err .invalidData := by
  obtain ⟨r1, r2⟩ := recsOf_ok c fs blocks hsz
  have e : fuel + blocks.length + 1 = (fuel + 1) + blocks.length := by omega
  rw [e]
  unfold streamBody at htot ⊢
  rw [List.append_assoc] at htot ⊢
  rw [readBlocks_blocks multi c fs hfs total cap blocks hb _ acc [] pre (fuel + 1) htot hpre hcap]
  rw [List.append_assoc, List.append_nil]
  rw [readBlocks_end multi c _ (by rw [r1]; exact hsz.1) r2 _ rest _ _ total fuel cap]
  rw [if_neg (not_not_intro (blockRecords_blkOf c fs blocks).symm)]
  have hiff := backward_size_iff (indexBytes (recsOf c fs blocks)).length (indexBytes_mod4 _) (indexBytes_len_ge _)
  by_cases hle : (indexBytes (recsOf c fs blocks)).length ≤ 2 ^ 34
  · rw [if_pos hle, if_neg (not_not_intro (hiff.mpr hle))]
  · rw [if_neg hle, if_pos (fun h => hle (hiff.mp h))]

/-- one whole stream after its header -/
theorem readBlocks_stream (multi : Bool) (c : Check) (fs : List Filter) (hfs : FiltersOk fs)
    (blocks : List (List Nat × List Nat)) (hb : ∀ b ∈ blocks, BlockOk fs b) (hsz : SizesOk c fs blocks)
    (rest acc : List Nat) (total pre fuel cap : Nat)
    (htot : total = pre + (streamBody c fs blocks ++ rest).length) (hpre : pre % 4 = 0)
    (hcap : acc.length + (blocksData blocks).length ≤ cap) :
    readBlocks multi total (fuel + blocks.length + 1) c (streamBody c fs blocks ++ rest) acc [] cap
      = afterStream multi total fuel rest (acc ++ blocksData blocks) (blocks.map (blkOf fs)).reverse cap := by
  rw [readBlocks_stream_gen multi c fs hfs blocks hb hsz.1 rest acc total pre fuel cap htot hpre hcap,
    if_pos (show (indexBytes (recsOf c fs blocks)).length ≤ 2 ^ 34 from hsz.2)]

/-- **Decoding a written stream followed by anything**: rejected when the Index does not fit the Backward Size
field, otherwise reduced to what follows the stream. -/
theorem decode_stream_gen (multi : Bool) (c : Check) (fs : List Filter) (hfs : FiltersOk fs)
    (blocks : List (List Nat × List Nat)) (hb : ∀ b ∈ blocks, BlockOk fs b) (hsz : SizesOk63 c fs blocks)
    (rest : List Nat) (cap : Nat) (hcap : (blocksData blocks).length ≤ cap) :
    Xz.decode multi (streamBytes c fs blocks ++ rest) cap
      = if (indexBytes (recsOf c fs blocks)).length ≤ 2 ^ 34 then
          afterStream multi (streamBytes c fs blocks ++ rest).length
            ((streamBytes c fs blocks ++ rest).length + 1 - blocks.length) rest (blocksData blocks)
            (blocks.map (blkOf fs)).reverse cap
        else .err .invalidData := by
  unfold Xz.decode
  rw [streamBytes_eq, List.append_assoc, parseStreamHeader_ok]
  simp only []
  have hl := streamBody_length c fs blocks
  have hlen : (streamHeaderBytes c ++ (streamBody c fs blocks ++ rest)).length
      = 12 + (streamBody c fs blocks ++ rest).length := by
    rw [List.length_append, streamHeaderBytes_length]
  have e : (streamHeaderBytes c ++ (streamBody c fs blocks ++ rest)).length + 2
      = ((streamHeaderBytes c ++ (streamBody c fs blocks ++ rest)).length + 1 - blocks.length) + blocks.length + 1 := by
    rw [hlen]; simp only [List.length_append]; omega
  rw [e, readBlocks_stream_gen multi c fs hfs blocks hb hsz rest [] _ 12 _ cap hlen (by decide) (by simpa using hcap),
    List.nil_append]

/-- **Decoding a written stream followed by anything** reduces to what follows the stream. -/
theorem decode_stream (multi : Bool) (c : Check) (fs : List Filter) (hfs : FiltersOk fs)
    (blocks : List (List Nat × List Nat)) (hb : ∀ b ∈ blocks, BlockOk fs b) (hsz : SizesOk c fs blocks)
    (rest : List Nat) (cap : Nat) (hcap : (blocksData blocks).length ≤ cap) :
    Xz.decode multi (streamBytes c fs blocks ++ rest) cap
      = afterStream multi (streamBytes c fs blocks ++ rest).length
          ((streamBytes c fs blocks ++ rest).length + 1 - blocks.length) rest (blocksData blocks)
          (blocks.map (blkOf fs)).reverse cap := by
  rw [decode_stream_gen multi c fs hfs blocks hb hsz.1 rest cap hcap,
    if_pos (show (indexBytes (recsOf c fs blocks)).length ≤ 2 ^ 34 from hsz.2)]

/-! ### sufficient conditions for `IndexFits` -/
theorem recBytes_le : ∀ (recs : List (Nat × Nat)), (∀ r ∈ recs, RecOk r) → (recBytes recs).length ≤ 18 * recs.length := by
  intro recs
  induction recs with
  | nil => intro _; simp [recBytes]
  | cons x recs ih =>
    intro h
    obtain ⟨_, h1, h2⟩ := h x List.mem_cons_self
    obtain ⟨_, a2, _, _⟩ := mb_spec x.1 h1
    obtain ⟨_, b2, _, _⟩ := mb_spec x.2 h2
    have := ih (fun g hg => h g (List.mem_cons_of_mem _ hg))
    simp only [recBytes, List.map_cons, List.flatten_cons, List.length_append, List.length_cons] at this ⊢
    omega

/-- at most 2^29 blocks: the Index fits (a record takes at most 18 bytes) -/
theorem indexFits_of_blocks (c : Check) (fs : List Filter) (blocks : List (List Nat × List Nat))
    (hsz : SizesOk63 c fs blocks) (hn : blocks.length ≤ 2 ^ 29) : IndexFits c fs blocks := by
  obtain ⟨r1, r2⟩ := recsOf_ok c fs blocks hsz
  obtain ⟨_, n2, _, _⟩ := mb_spec (recsOf c fs blocks).length (by rw [r1]; exact hsz.1)
  have := recBytes_le _ r2
  unfold IndexFits
  rw [indexBytes_eq]
  simp only [List.length_cons, List.length_append, List.length_replicate, le_length]
  omega

theorem sizesOk_of_blocks (c : Check) (fs : List Filter) (blocks : List (List Nat × List Nat))
    (hsz : SizesOk63 c fs blocks) (hn : blocks.length ≤ 2 ^ 29) : SizesOk c fs blocks :=
  ⟨hsz, indexFits_of_blocks c fs blocks hsz hn⟩

theorem sizesOk_nil (c : Check) (fs : List Filter) : SizesOk c fs [] :=
  sizesOk_of_blocks c fs [] ⟨by decide, by intro b hb; cases hb⟩ (by decide)

end LzmaVerif.Xz
