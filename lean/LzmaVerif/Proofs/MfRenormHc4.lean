/-
  Simulation: the renormalising HC4 (`Model/Hc4Renorm.lean`, `movePosN` / `findN` / `skipN` / `runScriptN`) reports
  exactly the matches of the logical HC4 (`Model/Hc4.lean`), for every input, script, start value of `lz_pos` and
  normalisation threshold.
-/
import LzmaVerif.Proofs.MfRenorm
namespace LzmaVerif.Mf.Hc4

/-- the simulation relation between a state of the renormalising finder (N) and of the logical finder (L):
    same logical position and ring position, both counters at least `cyclic_size`, all four tables related
    entry by entry (`ERel`) -/
structure Sim (cs : Nat) (sN sL : State) : Prop where
  pos : sN.pos = sL.pos
  cp : sN.cyclicPos = sL.cyclicPos
  lzN : cs ≤ sN.lzPos
  lzL : cs ≤ sL.lzPos
  h2 : TRel cs sN.lzPos sL.lzPos sN.h2 sL.h2
  h3 : TRel cs sN.lzPos sL.lzPos sN.h3 sL.h3
  h4 : TRel cs sN.lzPos sL.lzPos sN.h4 sL.h4
  chain : TRel cs sN.lzPos sL.lzPos sN.chain sL.chain

/-- `HC4::new` (any start value `≥ cyclic_size` on the N side) -/
theorem initN_sim (P : Hc4Params) (hP : P.ok) (c : Cfg) (lzStart : Nat) (hs : cyclicSize P c ≤ lzStart) :
    Sim (cyclicSize P c) (initN P c lzStart) (init P c) := by
  have hL : cyclicSize P c ≤ c.dict + P.lzPosInitExtra := by
    unfold cyclicSize; rw [hP.2.2.2.1, hP.2.2.2.2.1]; exact Nat.le_refl _
  exact ⟨rfl, rfl, hs, hL, TRel.replicate hs hL _, TRel.replicate hs hL _, TRel.replicate hs hL _,
    TRel.replicate hs hL _⟩

/-- `move_pos`: the N side possibly normalises, the L side never does -/
theorem movePosN_sim (N : NormParams) (hN : N.ok) (P : Hc4Params) (c : Cfg) {sN sL : State}
    (h : Sim (cyclicSize P c) sN sL) (avail : Nat) :
    Sim (cyclicSize P c) (movePosN N P c sN avail) (movePos P c sL avail) := by
  obtain ⟨hpos, hcp, hlN, hlL, h2, h3, h4, hch⟩ := h
  unfold movePosN movePos
  by_cases ha : avail ≠ 0
  · rw [if_pos ha, if_pos ha]
    by_cases hm : sN.lzPos + 1 = N.maxPos
    · -- normalisation: `off = maxPos - cyclic_size = (lz_pos + 1) - cyclic_size`
      have hoff : N.offBase - cyclicSize P c = (sN.lzPos + 1) - cyclicSize P c := by rw [hN, ← hm]
      simp only [if_pos hm, normalizeSt, hoff]
      have hc1 : cyclicSize P c ≤ sN.lzPos + 1 := by omega
      refine ⟨by simp only [hpos], by simp only [hcp], ?_, ?_, ?_, ?_, ?_, ?_⟩
      · show cyclicSize P c ≤ sN.lzPos + 1 - (sN.lzPos + 1 - cyclicSize P c); omega
      · show cyclicSize P c ≤ sL.lzPos + 1; omega
      · exact h2.succ.norm hc1
      · exact h3.succ.norm hc1
      · exact h4.succ.norm hc1
      · exact hch.succ.norm hc1
    · simp only [if_neg hm]
      refine ⟨by simp only [hpos], by simp only [hcp], ?_, ?_, h2.succ, h3.succ, h4.succ, hch.succ⟩
      · show cyclicSize P c ≤ sN.lzPos + 1; omega
      · show cyclicSize P c ≤ sL.lzPos + 1; omega
  · rw [if_neg ha, if_neg ha]
    exact ⟨by simp only [hpos], hcp, hlN, hlL, h2, h3, h4, hch⟩

/-- the chain walk depends on the entries only through `delta` and the distance test -/
theorem chainLoop_sim (P : Hc4Params) (hge : P.chainStopGe = true) (d : Array UInt8) {cs lN lL : Nat}
    {chN chL : Array Nat} (hc : TRel cs lN lL chN chL) (cp : Int) (p mll nll : Nat) :
    ∀ (depth curN curL : Nat), ERel cs lN lL curN curL → ∀ (lenBest : Nat) (acc : List Match),
      chainLoop P d chN cs cp lN p mll nll depth curN lenBest acc =
        chainLoop P d chL cs cp lL p mll nll depth curL lenBest acc := by
  intro depth
  induction depth with
  | zero => intro curN curL _ lenBest acc; simp only [chainLoop]
  | succ depth ih =>
    intro curN curL hcur lenBest acc
    simp only [chainLoop, hge, if_true]
    by_cases hlt : lL - curL < cs
    · have hd := hcur.delta_eq hlt
      have e := ih _ _ (hc.get (chainIdx cs cp (lL - curL)).toNat)
      rw [hd]
      simp only [e]
    · have hltN : ¬ lN - curN < cs := fun h => hlt (hcur.lt_iff.mp h)
      have h1 : decide (lN - curN ≥ cs) = true := decide_eq_true (by omega)
      have h2 : decide (lL - curL ≥ cs) = true := decide_eq_true (by omega)
      simp only [h1, h2, if_true]

/-- the search of one `find_matches` call (after the tables were read and updated) -/
theorem findMatches_sim (P : Hc4Params) (hP : P.ok) (c : Cfg) (d : Array UInt8) {lN lL : Nat}
    {chN chL : Array Nat} (hc : TRel (cyclicSize P c) lN lL chN chL) (cp : Int) (p avail : Nat)
    {e2N e2L e3N e3L curN curL : Nat}
    (h2 : ERel (cyclicSize P c) lN lL e2N e2L) (h3 : ERel (cyclicSize P c) lN lL e3N e3L)
    (hcur : ERel (cyclicSize P c) lN lL curN curL) :
    findMatches P c d chN cp lN p avail (lN - e2N) (lN - e3N) curN =
      findMatches P c d chL cp lL p avail (lL - e2L) (lL - e3L) curL := by
  have hs2 : P.d2Strict = true := hP.1
  have hs3 : P.d3Strict = true := hP.2.1
  have hge : P.chainStopGe = true := hP.2.2.1
  have hcl := chainLoop_sim P hge d hc cp p (matchLenLimit c avail) (niceLenLimit c avail) (depthOf P c) _ _ hcur
  unfold findMatches
  simp only [hs2, hs3, cmpLt, if_true, hcl]
  by_cases n2 : lL - e2L < cyclicSize P c
  · have d2 := h2.delta_eq n2
    rw [d2]
    by_cases n3 : lL - e3L < cyclicSize P c
    · rw [h3.delta_eq n3]
    · have n3N : ¬ lN - e3N < cyclicSize P c := fun h => n3 (h3.lt_iff.mp h)
      simp only [decide_eq_false n3, decide_eq_false n3N, Bool.and_false, Bool.false_and, Bool.false_eq_true, if_false]
  · have n2N : ¬ lN - e2N < cyclicSize P c := fun h => n2 (h2.lt_iff.mp h)
    by_cases n3 : lL - e3L < cyclicSize P c
    · have d3 := h3.delta_eq n3
      rw [d3]
      have neN : (lN - e2N != lL - e3L) = true := by simp only [bne_iff_ne, ne_eq]; omega
      have neL : (lL - e2L != lL - e3L) = true := by simp only [bne_iff_ne, ne_eq]; omega
      simp only [decide_eq_false n2, decide_eq_false n2N, neN, neL, Bool.false_and, Bool.true_and, if_false,
        Bool.false_eq_true]
      by_cases hb : (decide (lL - e3L < cyclicSize P c) && byteAt d (p - (lL - e3L)) == byteAt d p) = true
      · simp only [hb, if_true]
      · simp only [hb, if_false, Bool.false_eq_true, List.length_nil, Nat.lt_irrefl, gt_iff_lt, false_and]
    · have n3N : ¬ lN - e3N < cyclicSize P c := fun h => n3 (h3.lt_iff.mp h)
      simp only [decide_eq_false n2, decide_eq_false n2N, decide_eq_false n3, decide_eq_false n3N,
        Bool.and_false, Bool.false_and, if_false, Bool.false_eq_true, List.length_nil, Nat.lt_irrefl, gt_iff_lt,
        false_and]

theorem updateTables_sim {cs : Nat} {sN sL : State} (h : Sim cs sN sL) (hs : Hashes) :
    Sim cs (updateTables sN hs) (updateTables sL hs) := by
  obtain ⟨a2, a3, a4, ach, acp, alz, apos⟩ := sN
  obtain ⟨b2, b3, b4, bch, bcp, blz, bpos⟩ := sL
  obtain ⟨hpos, hcp, hlN, hlL, h2, h3, h4, hch⟩ := h
  exact ⟨hpos, hcp, hlN, hlL, h2.set (ERel.self _ _ _) _, h3.set (ERel.self _ _ _) _,
    h4.set (ERel.self _ _ _) _, hch⟩

theorem setChain_sim {cs : Nat} {sN sL : State} (h : Sim cs sN sL) {vN vL : Nat}
    (hv : ERel cs sN.lzPos sL.lzPos vN vL) : Sim cs (setChain sN vN) (setChain sL vL) := by
  obtain ⟨a2, a3, a4, ach, acp, alz, apos⟩ := sN
  obtain ⟨b2, b3, b4, bch, bcp, blz, bpos⟩ := sL
  obtain ⟨hpos, hcp, hlN, hlL, h2, h3, h4, hch⟩ := h
  have hcp' : acp = bcp := hcp
  subst hcp'
  exact ⟨hpos, rfl, hlN, hlL, h2, h3, h4, hch.set hv _⟩

theorem updateTables_lzPos (s : State) (hs : Hashes) : (updateTables s hs).lzPos = s.lzPos := by
  obtain ⟨a2, a3, a4, ach, acp, alz, apos⟩ := s; rfl

theorem setChain_lzPos (s : State) (v : Nat) : (setChain s v).lzPos = s.lzPos := by
  obtain ⟨a2, a3, a4, ach, acp, alz, apos⟩ := s; rfl

/-- `find_matches` after `move_pos`: same matches, related states -/
theorem findAfter_sim (P : Hc4Params) (hP : P.ok) (c : Cfg) (d : Array UInt8) {s1N s1L : State}
    (h : Sim (cyclicSize P c) s1N s1L) (p avail : Nat) :
    (findAfter P c d s1N p avail).1 = (findAfter P c d s1L p avail).1 ∧
    Sim (cyclicSize P c) (findAfter P c d s1N p avail).2 (findAfter P c d s1L p avail).2 := by
  unfold findAfter
  by_cases hc : avail < c.mlmax ∧ avail = 0
  · rw [if_pos hc, if_pos hc]; exact ⟨rfl, h⟩
  · rw [if_neg hc, if_neg hc]
    have hcur := h.h4.get (hashesAt P c d p).h4
    have hS := setChain_sim (updateTables_sim h (hashesAt P c d p))
      (by rw [updateTables_lzPos, updateTables_lzPos]; exact hcur)
    refine ⟨?_, hS⟩
    have e := findMatches_sim P hP c d hS.chain (setChain (updateTables s1L (hashesAt P c d p))
        (s1L.h4.getD (hashesAt P c d p).h4 0)).cyclicPos p avail
      (e2N := s1N.h2.getD (hashesAt P c d p).h2 0) (e2L := s1L.h2.getD (hashesAt P c d p).h2 0)
      (e3N := s1N.h3.getD (hashesAt P c d p).h3 0) (e3L := s1L.h3.getD (hashesAt P c d p).h3 0)
      (curN := s1N.h4.getD (hashesAt P c d p).h4 0) (curL := s1L.h4.getD (hashesAt P c d p).h4 0)
      (by rw [setChain_lzPos, updateTables_lzPos, setChain_lzPos, updateTables_lzPos]
          exact h.h2.get _)
      (by rw [setChain_lzPos, updateTables_lzPos, setChain_lzPos, updateTables_lzPos]
          exact h.h3.get _)
      (by rw [setChain_lzPos, updateTables_lzPos, setChain_lzPos, updateTables_lzPos]
          exact hcur)
    simp only [setChain_lzPos, updateTables_lzPos] at e
    simp only [setChain_lzPos, updateTables_lzPos, hS.cp]
    exact e

/-- `HC4::find_matches`: the renormalising finder reports what the logical finder reports -/
theorem findN_sim (N : NormParams) (hN : N.ok) (P : Hc4Params) (hP : P.ok) (c : Cfg) (d : Array UInt8)
    {sN sL : State} (h : Sim (cyclicSize P c) sN sL) :
    (findN N P c d sN).1 = (find P c d sL).1 ∧
    Sim (cyclicSize P c) (findN N P c d sN).2 (find P c d sL).2 := by
  rw [find_eq_findAfter]
  unfold findN
  rw [h.pos]
  exact findAfter_sim P hP c d (movePosN_sim N hN P c h _) _ _

theorem skip1After_sim (P : Hc4Params) (c : Cfg) (d : Array UInt8) {s1N s1L : State}
    {cs : Nat} (h : Sim cs s1N s1L) (p avail : Nat) :
    Sim cs (skip1After P c d s1N p avail) (skip1After P c d s1L p avail) := by
  unfold skip1After
  by_cases ha : avail ≠ 0
  · rw [if_pos ha, if_pos ha]
    exact updateTables_sim (setChain_sim h (h.h4.get _)) _
  · rw [if_neg ha, if_neg ha]; exact h

theorem skip1N_sim (N : NormParams) (hN : N.ok) (P : Hc4Params) (c : Cfg) (d : Array UInt8)
    {sN sL : State} (h : Sim (cyclicSize P c) sN sL) :
    Sim (cyclicSize P c) (skip1N N P c d sN) (skip1 P c d sL) := by
  rw [skip1_eq_skip1After]
  unfold skip1N
  rw [h.pos]
  exact skip1After_sim P c d (movePosN_sim N hN P c h _) _ _

theorem skipN_sim (N : NormParams) (hN : N.ok) (P : Hc4Params) (c : Cfg) (d : Array UInt8) (n : Nat) :
    ∀ {sN sL : State}, Sim (cyclicSize P c) sN sL →
      Sim (cyclicSize P c) (skipN N P c d n sN) (skip P c d n sL) := by
  induction n with
  | zero => intro sN sL h; exact h
  | succ n ih => intro sN sL h; exact ih (skip1N_sim N hN P c d h)

theorem runScriptAuxN_sim (N : NormParams) (hN : N.ok) (P : Hc4Params) (hP : P.ok) (c : Cfg)
    (d : Array UInt8) (script : List Nat) :
    ∀ {sN sL : State} (acc : List (Nat × List Match)), Sim (cyclicSize P c) sN sL →
      (runScriptAuxN N P c d script sN acc).1 = (runScriptAux P c d script sL acc).1 ∧
      Sim (cyclicSize P c) (runScriptAuxN N P c d script sN acc).2 (runScriptAux P c d script sL acc).2 := by
  induction script with
  | nil => intro sN sL acc h; exact ⟨rfl, h⟩
  | cons op rest ih =>
    intro sN sL acc h
    have hex : exhausted d sN = exhausted d sL := by unfold exhausted; rw [h.pos]
    simp only [runScriptAuxN, runScriptAux, hex]
    by_cases he : exhausted d sL = true
    · rw [if_pos he, if_pos he]; exact ⟨rfl, h⟩
    · rw [if_neg he, if_neg he]
      by_cases h0 : op = 0
      · simp only [h0, if_true]
        have hf := findN_sim N hN P hP c d h
        rw [hf.1, h.pos]
        exact ih _ hf.2
      · simp only [h0, if_false]
        exact ih _ (skipN_sim N hN P c d op h)

/-- `lz_pos` of the renormalising finder stays in `[cyclic_size, maxPos)`: all its position arithmetic
    (`lz_pos - entry`, the stored values) fits 31 bits, whatever the input size -/
theorem movePosN_lz_bounds (N : NormParams) (hN : N.ok) (P : Hc4Params) (c : Cfg) (s : State) (avail : Nat)
    (hlo : cyclicSize P c ≤ s.lzPos) (hhi : s.lzPos < N.maxPos) :
    cyclicSize P c ≤ (movePosN N P c s avail).lzPos ∧ (movePosN N P c s avail).lzPos < N.maxPos := by
  unfold movePosN
  by_cases ha : avail ≠ 0
  · rw [if_pos ha]
    by_cases hm : s.lzPos + 1 = N.maxPos
    · have hoff : N.offBase - cyclicSize P c = (s.lzPos + 1) - cyclicSize P c := by rw [hN, ← hm]
      simp only [if_pos hm, normalizeSt, hoff]
      constructor <;> omega
    · simp only [if_neg hm]
      constructor <;> omega
  · rw [if_neg ha]; exact ⟨hlo, hhi⟩

theorem findAfter_lzPos (P : Hc4Params) (c : Cfg) (d : Array UInt8) (s1 : State) (p avail : Nat) :
    (findAfter P c d s1 p avail).2.lzPos = s1.lzPos := by
  unfold findAfter
  split
  · rfl
  · simp only [setChain_lzPos, updateTables_lzPos]

theorem skip1After_lzPos (P : Hc4Params) (c : Cfg) (d : Array UInt8) (s1 : State) (p avail : Nat) :
    (skip1After P c d s1 p avail).lzPos = s1.lzPos := by
  unfold skip1After
  split
  · simp only [setChain_lzPos, updateTables_lzPos]
  · rfl

/-- `cyclic_size ≤ lz_pos < maxPos` -/
def LzB (N : NormParams) (P : Hc4Params) (c : Cfg) (s : State) : Prop :=
  cyclicSize P c ≤ s.lzPos ∧ s.lzPos < N.maxPos

theorem findN_lzB (N : NormParams) (hN : N.ok) (P : Hc4Params) (c : Cfg) (d : Array UInt8) (s : State)
    (h : LzB N P c s) : LzB N P c (findN N P c d s).2 := by
  unfold LzB findN
  rw [findAfter_lzPos]
  exact movePosN_lz_bounds N hN P c s _ h.1 h.2

theorem skipN_lzB (N : NormParams) (hN : N.ok) (P : Hc4Params) (c : Cfg) (d : Array UInt8) (n : Nat) :
    ∀ s, LzB N P c s → LzB N P c (skipN N P c d n s) := by
  induction n with
  | zero => intro s h; exact h
  | succ n ih =>
    intro s h
    refine ih _ ?_
    unfold LzB skip1N
    rw [skip1After_lzPos]
    exact movePosN_lz_bounds N hN P c s _ h.1 h.2

theorem runScriptAuxN_lzB (N : NormParams) (hN : N.ok) (P : Hc4Params) (c : Cfg) (d : Array UInt8)
    (script : List Nat) : ∀ (s : State) (acc : List (Nat × List Match)), LzB N P c s →
      LzB N P c (runScriptAuxN N P c d script s acc).2 := by
  induction script with
  | nil => intro s acc h; exact h
  | cons op rest ih =>
    intro s acc h
    simp only [runScriptAuxN]
    split
    · exact h
    · split
      · exact ih _ _ (findN_lzB N hN P c d s h)
      · exact ih _ _ (skipN_lzB N hN P c d op s h)

theorem runScriptAuxN_lz_lt (N : NormParams) (hN : N.ok) (P : Hc4Params) (c : Cfg) (d : Array UInt8)
    (script : List Nat) (lzStart : Nat) (acc : List (Nat × List Match))
    (hs : cyclicSize P c ≤ lzStart) (hlt : lzStart < N.maxPos) :
    (runScriptAuxN N P c d script (initN P c lzStart) acc).2.lzPos < N.maxPos :=
  (runScriptAuxN_lzB N hN P c d script _ acc ⟨hs, hlt⟩).2

end LzmaVerif.Mf.Hc4
