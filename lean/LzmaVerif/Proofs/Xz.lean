import LzmaVerif.Proofs.XzMulti
import LzmaVerif.Proofs.XzAudit
import LzmaVerif.Proofs.XzFilterLen
import LzmaVerif.Proofs.XzPayloadEx
/-!
# XZ container: round trip, exact consumption, concatenation, rejection (C04 / C12 / C16)

Everything is parametric in the payload codec (`PayloadOk`, discharged by the LZMA2 round-trip theorem) and in
the filter inverse (`unfilter fs (applyFilters fs d) = d`, discharged by the filter theorems).

Definitions used in the statements (from the helper files):
* `Bytes`, `PayloadOk`                                   — as specified
* `PreOk`, `DictOk`, `FiltersOk` (decidable), `readerDict1`, `readerDict`, `readerFilter`
* `SizesOk c fs blocks` = `SizesOk63 ∧ IndexFits`         — the index fields fit the format's 63-bit integers, and the
                                                           Index (≤ 2^34 bytes) fits the footer's 32-bit Backward Size
* `blkOf fs (payload, data)`                             — the `Block` record the reader reports
* `Strm`, `catBytes`, `catData`, `finalBlks`             — lists of streams with stream padding
* `decodeA`, `Audit`, `Audit.Verified`                   — the auditing reader
-/
namespace LzmaVerif.Xz
open LzmaVerif Lzma Checks

/-! ## Parsing lemmas (restated; proofs in `Proofs/XzParse.lean`) -/

theorem parse_streamHeader (c : Check) (r : List Nat) :
    parseStreamHeader (streamHeaderBytes c ++ r) = .ok (c, r) := parseStreamHeader_ok c r

/-- a pre-filter comes back unchanged; LZMA2 comes back with the dictionary the property byte announces -/
theorem parse_filter_pre (f : Filter) (hf : PreOk f) (r : List Nat) :
    parseFilter (encFilter f ++ r) = .ok (f, r) := parseFilter_pre f hf r

theorem parse_filter_lzma2 (d : Nat) (hd : DictOk d) (r : List Nat) :
    parseFilter (encFilter (.lzma2 d) ++ r) = .ok (.lzma2 (readerDict1 d), r) ∧ d ≤ readerDict1 d :=
  ⟨parseFilter_lzma2 d hd r, (dictOk_spec d hd).choose_spec.2.2.2⟩

theorem parse_blockHeader (fs : List Filter) (hfs : FiltersOk fs) (r : List Nat) :
    parseBlockHeader (blockHeaderBytes fs ++ r)
      = .ok (some { filters := fs.map readerFilter, size := (blockHeaderBytes fs).length }, r) :=
  parseBlockHeader_ok fs hfs r

theorem parse_index (recs : List (Nat × Nat)) (hn : recs.length < 2 ^ 63) (h : ∀ x ∈ recs, RecOk x) (r : List Nat) :
    parseBlockHeader (indexBytes recs ++ r) = .ok (none, (indexBytes recs).tail ++ r) ∧
    parseIndex ((indexBytes recs).tail ++ r) = .ok (recs, (indexBytes recs).length, r) := by
  refine ⟨?_, parseIndex_ok recs hn h r⟩
  rw [indexBytes_cons, List.cons_append, parseBlockHeader_zero, List.tail_cons]

theorem parse_footer (c : Check) (n : Nat) (r : List Nat) :
    parseFooter (footerBytes c n ++ r) = .ok (ofLe (le 4 (n / 4 - 1)), [0, c.toByte], r) := parseFooter_ok c n r

/-! ## Hypotheses -/

theorem blockOk_of (fs : List Filter) (b : List Nat × List Nat)
    (h : PayloadOk (readerDict fs) b.1 (applyFilters fs b.2) ∧ unfilter fs (applyFilters fs b.2) = b.2) :
    BlockOk fs b :=
  ⟨h.1, h.2, Nat.le_of_eq (applyFilters_length fs b.2)⟩

theorem length_le_flatten {α : Type} : ∀ (l : List (List α)) (x : List α), x ∈ l → x.length ≤ l.flatten.length := by
  intro l
  induction l with
  | nil => intro x hx; cases hx
  | cons y l ih =>
    intro x hx
    rw [List.flatten_cons, List.length_append]
    rcases List.mem_cons.mp hx with rfl | hx
    · omega
    · have := ih x hx; omega

/-- `SizesOk63` follows from the obvious bounds on the stream and on the data -/
theorem sizesOk63_of_length (c : Check) (fs : List Filter) (blocks : List (List Nat × List Nat))
    (h1 : (streamBytes c fs blocks).length < 2 ^ 63) (h2 : ((blocks.map (·.2)).flatten).length < 2 ^ 63) :
    SizesOk63 c fs blocks := by
  rw [streamBytes_eq, List.length_append, streamHeaderBytes_length] at h1
  simp only [streamBody, List.length_append] at h1
  have hbb := blocksBytes_mod4 c fs blocks
  refine ⟨by omega, ?_⟩
  intro b hb
  constructor
  · have hm : (blockBytes c fs b.1 b.2).1 ∈ (blocks.map fun b => blockBytes c fs b.1 b.2).map (·.1) := by
      simp only [List.map_map, List.mem_map, Function.comp]
      exact ⟨b, hb, rfl⟩
    have := length_le_flatten _ _ hm
    rw [blockBytes_fst] at this
    simp only [List.length_append, compute_length] at this
    unfold blocksBytes at h1
    omega
  · have hm : b.2 ∈ blocks.map (·.2) := List.mem_map.mpr ⟨b, hb, rfl⟩
    have := length_le_flatten _ _ hm
    omega

/-- `SizesOk` follows from the obvious bounds on the stream and on the data, and at most 2^29 blocks (so that
the Index fits the footer's Backward Size field) -/
theorem sizesOk_of_length (c : Check) (fs : List Filter) (blocks : List (List Nat × List Nat))
    (h1 : (streamBytes c fs blocks).length < 2 ^ 63) (h2 : ((blocks.map (·.2)).flatten).length < 2 ^ 63)
    (hn : blocks.length ≤ 2 ^ 29) : SizesOk c fs blocks :=
  sizesOk_of_blocks c fs blocks (sizesOk63_of_length c fs blocks h1 h2) hn

/-! ## Round trip (C16: exact consumption is the `consumed` component, for ANY `rest`) -/

/-- Container-level round trip with the reported block list made explicit.  `Bytes` hypotheses are not needed. -/
theorem xz_roundtrip_blocks (c : Check) (fs : List Filter) (hfs : FiltersOk fs)
    (blocks : List (List Nat × List Nat))
    (hb : ∀ b ∈ blocks, PayloadOk (readerDict fs) b.1 (applyFilters fs b.2) ∧ unfilter fs (applyFilters fs b.2) = b.2)
    (hsz : SizesOk c fs blocks)
    (rest : List Nat) (cap : Nat) (hcap : ((blocks.map (·.2)).flatten).length ≤ cap) :
    Xz.decode false (streamBytes c fs blocks ++ rest) cap
      = .ok (blocks.map (·.2)).flatten (streamBytes c fs blocks).length (blocks.map (blkOf fs)).reverse :=
  xz_roundtrip_core c fs hfs blocks (fun b hbm => blockOk_of fs b (hb b hbm)) hsz rest cap hcap

/-- **Container-level round trip** (requested form; the only change is the added `hsz`: the model's writer emits
nothing for index fields ≥ 2^63, so the sizes must fit the format's 63-bit integers; and the writer truncates the
Backward Size of an Index above 2^34 bytes, which the reader now detects: `xz_roundtrip_iff`). -/
theorem xz_roundtrip (c : Check) (fs : List Filter) (hfs : FiltersOk fs)
    (blocks : List (List Nat × List Nat))
    (hb : ∀ b ∈ blocks, PayloadOk (readerDict fs) b.1 (applyFilters fs b.2) ∧
      unfilter fs (applyFilters fs b.2) = b.2 ∧ Bytes b.1 ∧ Bytes b.2)
    (hsz : SizesOk c fs blocks)
    (rest : List Nat) (cap : Nat) (hcap : ((blocks.map (·.2)).flatten).length ≤ cap) :
    ∃ blks, Xz.decode false (streamBytes c fs blocks ++ rest) cap
      = .ok (blocks.map (·.2)).flatten (streamBytes c fs blocks).length blks :=
  ⟨_, xz_roundtrip_blocks c fs hfs blocks (fun b hbm => ⟨(hb b hbm).1, (hb b hbm).2.1⟩) hsz rest cap hcap⟩

/-- the same with the size side condition stated on the stream and data lengths -/
theorem xz_roundtrip' (c : Check) (fs : List Filter) (hfs : FiltersOk fs)
    (blocks : List (List Nat × List Nat))
    (hb : ∀ b ∈ blocks, PayloadOk (readerDict fs) b.1 (applyFilters fs b.2) ∧ unfilter fs (applyFilters fs b.2) = b.2)
    (hlen : (streamBytes c fs blocks).length < 2 ^ 63) (hdat : ((blocks.map (·.2)).flatten).length < 2 ^ 63)
    (hn : blocks.length ≤ 2 ^ 29)
    (rest : List Nat) (cap : Nat) (hcap : ((blocks.map (·.2)).flatten).length ≤ cap) :
    ∃ blks, Xz.decode false (streamBytes c fs blocks ++ rest) cap
      = .ok (blocks.map (·.2)).flatten (streamBytes c fs blocks).length blks :=
  ⟨_, xz_roundtrip_blocks c fs hfs blocks hb (sizesOk_of_length c fs blocks hlen hdat hn) rest cap hcap⟩

/-- **The boundary of the round trip.**  With the 63-bit conditions alone, the reader accepts the writer's output
exactly when the Index is at most 2^34 bytes long: above that `write_stream_footer` truncates the Backward Size
(`as u32`) and the reader, which compares it with the size of the Index, rejects the writer's own stream. -/
theorem xz_roundtrip_iff (c : Check) (fs : List Filter) (hfs : FiltersOk fs)
    (blocks : List (List Nat × List Nat))
    (hb : ∀ b ∈ blocks, PayloadOk (readerDict fs) b.1 (applyFilters fs b.2) ∧ unfilter fs (applyFilters fs b.2) = b.2)
    (hsz : SizesOk63 c fs blocks)
    (rest : List Nat) (cap : Nat) (hcap : ((blocks.map (·.2)).flatten).length ≤ cap) :
    Xz.decode false (streamBytes c fs blocks ++ rest) cap
      = if (indexBytes (recsOf c fs blocks)).length ≤ 2 ^ 34 then
          .ok (blocks.map (·.2)).flatten (streamBytes c fs blocks).length (blocks.map (blkOf fs)).reverse
        else .err .invalidData := by
  rw [decode_stream_gen false c fs hfs blocks (fun b hbm => blockOk_of fs b (hb b hbm)) hsz rest cap hcap]
  split
  · simp [afterStream, blocksData]
  · rfl

/-- C16: in single-stream mode the whole result (data, consumed count, blocks) does not depend on what follows
    the stream -/
theorem xz_exact_consumption (c : Check) (fs : List Filter) (hfs : FiltersOk fs)
    (blocks : List (List Nat × List Nat))
    (hb : ∀ b ∈ blocks, PayloadOk (readerDict fs) b.1 (applyFilters fs b.2) ∧ unfilter fs (applyFilters fs b.2) = b.2)
    (hsz : SizesOk c fs blocks) (rest₁ rest₂ : List Nat) (cap : Nat)
    (hcap : ((blocks.map (·.2)).flatten).length ≤ cap) :
    Xz.decode false (streamBytes c fs blocks ++ rest₁) cap = Xz.decode false (streamBytes c fs blocks ++ rest₂) cap := by
  rw [xz_roundtrip_blocks c fs hfs blocks hb hsz rest₁ cap hcap, xz_roundtrip_blocks c fs hfs blocks hb hsz rest₂ cap hcap]

/-! ## C12: concatenated streams and stream padding -/

/-- user-level hypotheses give `Strm.Ok` -/
theorem Strm.ok_of (c : Check) (fs : List Filter) (blocks : List (List Nat × List Nat)) (hfs : FiltersOk fs)
    (hb : ∀ b ∈ blocks, PayloadOk (readerDict fs) b.1 (applyFilters fs b.2) ∧ unfilter fs (applyFilters fs b.2) = b.2)
    (hsz : SizesOk c fs blocks) : Strm.Ok ⟨c, fs, blocks⟩ :=
  ⟨hfs, fun b hbm => blockOk_of fs b (hb b hbm), hsz⟩

/-- what the reader does after a complete stream `s`, for ANY continuation `rest` -/
theorem decode_after_stream (multi : Bool) (s : Strm) (hs : s.Ok) (rest : List Nat) (cap : Nat)
    (hcap : s.data.length ≤ cap) :
    Xz.decode multi (s.bytes ++ rest) cap
      = afterStream multi (s.bytes ++ rest).length ((s.bytes ++ rest).length + 1 - s.blocks.length) rest s.data s.blks cap :=
  decode_stream multi s.c s.fs hs.1 s.blocks hs.2.1 hs.2.2 rest cap hcap

/-- general form with the trailing zeros unrestricted: the outcome is decided by `t % 4` -/
theorem xz_concat_list_gen (s₀ : Strm) (h₀ : s₀.Ok) (ss : List (Nat × Strm)) (hss : ∀ x ∈ ss, x.1 % 4 = 0 ∧ x.2.Ok)
    (t : Nat) (cap : Nat) (hcap : (s₀.data ++ catData ss).length ≤ cap) :
    Xz.decode true (s₀.bytes ++ (catBytes ss ++ List.replicate t 0)) cap
      = if t % 4 ≠ 0 then .err .invalidData else
        .ok (s₀.data ++ catData ss) (s₀.bytes ++ (catBytes ss ++ List.replicate t 0)).length (finalBlks ss s₀.blks) := by
  rw [List.length_append] at hcap
  rw [decode_after_stream true s₀ h₀ _ cap (by omega)]
  have hl := strm_bytes_length s₀
  have hf := catFuel_le ss
  exact afterStream_cat _ cap ss hss t s₀.data s₀.blks s₀.bytes.length _
    (by rw [List.length_append]) hl.1
    (by simp only [List.length_append, List.length_replicate]; omega) (by omega)

/-- **C12, general form**: a first stream, then any LIST of further streams, each preceded by stream padding whose
length is a multiple of four, then trailing stream padding (`t` zero bytes, `t % 4 = 0`): the reader returns the
concatenated data, consumes everything, and reports the blocks of the last stream. -/
theorem xz_concat_list (s₀ : Strm) (h₀ : s₀.Ok) (ss : List (Nat × Strm)) (hss : ∀ x ∈ ss, x.1 % 4 = 0 ∧ x.2.Ok)
    (t : Nat) (ht : t % 4 = 0) (cap : Nat) (hcap : (s₀.data ++ catData ss).length ≤ cap) :
    Xz.decode true (s₀.bytes ++ (catBytes ss ++ List.replicate t 0)) cap
      = .ok (s₀.data ++ catData ss) (s₀.bytes ++ (catBytes ss ++ List.replicate t 0)).length (finalBlks ss s₀.blks) := by
  rw [xz_concat_list_gen s₀ h₀ ss hss t cap hcap, if_neg (by omega)]

/-- **C12**: a valid stream (or list of streams with aligned paddings) followed by `t` zero bytes with
`t % 4 ≠ 0` and nothing else is rejected -/
theorem xz_misaligned_trailing_padding (s₀ : Strm) (h₀ : s₀.Ok) (ss : List (Nat × Strm))
    (hss : ∀ x ∈ ss, x.1 % 4 = 0 ∧ x.2.Ok) (t : Nat) (ht : t % 4 ≠ 0) (cap : Nat)
    (hcap : (s₀.data ++ catData ss).length ≤ cap) :
    Xz.decode true (s₀.bytes ++ (catBytes ss ++ List.replicate t 0)) cap = .err .invalidData := by
  rw [xz_concat_list_gen s₀ h₀ ss hss t cap hcap, if_pos ht]

/-- single-stream special case of `xz_misaligned_trailing_padding` -/
theorem xz_misaligned_trailing_padding_one (s : Strm) (hs : s.Ok) (t : Nat) (ht : t % 4 ≠ 0) (cap : Nat)
    (hcap : s.data.length ≤ cap) :
    Xz.decode true (s.bytes ++ List.replicate t 0) cap = .err .invalidData := by
  have := xz_misaligned_trailing_padding s hs [] (by intro x hx; cases hx) t ht cap (by simpa [catData] using hcap)
  simpa [catBytes] using this

/-- **C12, two streams** (possibly different check types / filters / blocks) with `k` bytes of stream padding -/
theorem xz_concat_two (s₁ s₂ : Strm) (h₁ : s₁.Ok) (h₂ : s₂.Ok) (k : Nat) (hk : k % 4 = 0) (cap : Nat)
    (hcap : (s₁.data ++ s₂.data).length ≤ cap) :
    Xz.decode true (s₁.bytes ++ List.replicate k 0 ++ s₂.bytes) cap
      = .ok (s₁.data ++ s₂.data) (s₁.bytes ++ List.replicate k 0 ++ s₂.bytes).length s₂.blks := by
  have := xz_concat_list s₁ h₁ [(k, s₂)] (by intro x hx; simp only [List.mem_singleton] at hx; subst hx; exact ⟨hk, h₂⟩)
    0 (by decide) cap (by simpa [catData] using hcap)
  simpa [catBytes, catData, finalBlks] using this

/-- stream padding whose length is not a multiple of four, followed by the magic of another stream, is rejected
    (whatever follows the magic) -/
theorem xz_misaligned_padding (s : Strm) (hs : s.Ok) (k : Nat) (hk : k % 4 ≠ 0) (r : List Nat) (cap : Nat)
    (hcap : s.data.length ≤ cap) :
    Xz.decode true (s.bytes ++ (List.replicate k 0 ++ (Consts.XZ_MAGIC ++ r))) cap = .err .invalidData := by
  rw [decode_after_stream true s hs _ cap hcap]
  exact afterStream_err _ _ _ _ _ _ _ (nextStream_misaligned r k _ 0 (by simp) (by omega))

/-- a non-zero byte that is not the first magic byte, after a stream and any amount of zero padding, is rejected -/
theorem xz_garbage_after_stream (s : Strm) (hs : s.Ok) (k b : Nat) (hb0 : b ≠ 0) (hb : b ≠ 253) (r : List Nat)
    (cap : Nat) (hcap : s.data.length ≤ cap) :
    Xz.decode true (s.bytes ++ (List.replicate k 0 ++ b :: r)) cap = .err .invalidData := by
  rw [decode_after_stream true s hs _ cap hcap]
  exact afterStream_err _ _ _ _ _ _ _ (nextStream_garbage b r hb0 hb k _ 0 (by simp))

/-! ## C04 (proved in `Proofs/XzAudit.lean`): `decode_rejects_non_xz`, `decode_consumed_le`,
`decodeA_fst`, `decode_accepts_verified` -/

/-! ## Non-vacuity -/

example : FiltersOk [.lzma2 8388608] := by decide
example : FiltersOk [.delta 4, .lzma2 4096] := by decide
example : FiltersOk [.bcj .x86 0, .bcj .arm 4096, .delta 256, .lzma2 65536] := by decide
example : ¬ FiltersOk [.bcj .arm 4098, .lzma2 65536] := by decide
example : ¬ FiltersOk [.lzma2 65536, .lzma2 65536] := by decide
example : ¬ FiltersOk [.delta 1, .delta 1, .delta 1, .delta 1, .lzma2 65536] := by decide
example : readerDict [.delta 4, .lzma2 5000] = 6144 := by decide

/-- the theorem instantiated on the empty stream (all hypotheses discharged) -/
example (rest : List Nat) : Xz.decode false (streamBytes .crc32 [.lzma2 4096] [] ++ rest) 10
    = .ok [] (streamBytes .crc32 [.lzma2 4096] []).length [] :=
  xz_roundtrip_blocks .crc32 [.lzma2 4096] (by decide) [] (by intro b hb; cases hb)
    (sizesOk_nil _ _) rest 10 (by simp)

example : (streamBytes .crc32 [.lzma2 4096] []).length = 32 := by
  simp [streamBytes, streamHeaderBytes, indexBytes, footerBytes, le_length, mb, XzInt.encode, XzInt.encodeFuel,
    Consts.XZ_MAGIC, Consts.XZ_FOOTER_MAGIC]

/-- the theorem instantiated on a stream with one real block (payload = a stored LZMA2 chunk): every hypothesis
    is discharged, for every byte value `x` and every trailing `rest` -/
example (x : Nat) (rest : List Nat) :
    Xz.decode false (streamBytes .crc64 [.lzma2 4096] [([1, 0, 0, x, 0], [x])] ++ rest) 1
      = .ok [x] (streamBytes .crc64 [.lzma2 4096] [([1, 0, 0, x, 0], [x])]).length
          [blkOf [.lzma2 4096] ([1, 0, 0, x, 0], [x])] := by
  have hb : ∀ b ∈ [(([1, 0, 0, x, 0] : List Nat), ([x] : List Nat))],
      PayloadOk (readerDict [.lzma2 4096]) b.1 (applyFilters [.lzma2 4096] b.2) ∧
        unfilter [.lzma2 4096] (applyFilters [.lzma2 4096] b.2) = b.2 := by
    intro b hb
    rw [List.mem_singleton] at hb
    subst hb
    have hp := payloadOk_stored (readerDict [.lzma2 4096]) [x] (by simp) (by simp)
    simp only [List.length_cons, List.length_nil, Nat.zero_add, Nat.sub_self, Nat.zero_div, Nat.zero_mod,
      List.cons_append, List.nil_append] at hp
    exact ⟨hp, rfl⟩
  have hsz : SizesOk .crc64 [.lzma2 4096] [([1, 0, 0, x, 0], [x])] := by
    refine sizesOk_of_blocks _ _ _ ⟨by simp, ?_⟩ (by simp)
    intro b hb
    rw [List.mem_singleton] at hb
    subst hb
    rw [blockHeaderBytes_length]
    simp only [List.map_cons, List.map_nil, encFilter, List.flatten_cons, List.flatten_nil, List.length_cons,
      List.length_nil, List.length_append, Check.size]
    omega
  exact xz_roundtrip_blocks .crc64 [.lzma2 4096] (by decide) _ hb hsz rest 1 (by simp)

/-- C12 instantiated: two (block-less) streams with different checks and filter chains, 8 bytes of padding -/
example : Xz.decode true ((Strm.mk .crc32 [.lzma2 4096] []).bytes ++ List.replicate 8 0 ++
      (Strm.mk .sha256 [.delta 4, .lzma2 65536] []).bytes) 0
    = .ok [] ((Strm.mk .crc32 [.lzma2 4096] []).bytes ++ List.replicate 8 0 ++
      (Strm.mk .sha256 [.delta 4, .lzma2 65536] []).bytes).length [] :=
  xz_concat_two ⟨.crc32, [.lzma2 4096], []⟩ ⟨.sha256, [.delta 4, .lzma2 65536], []⟩
    (Strm.ok_of _ _ _ (by decide) (by intro b hb; cases hb) (sizesOk_nil _ _))
    (Strm.ok_of _ _ _ (by decide) (by intro b hb; cases hb) (sizesOk_nil _ _)) 8 (by decide) 0 (by simp [Strm.data, blocksData])

#print axioms parse_streamHeader
#print axioms parse_filter_pre
#print axioms parse_filter_lzma2
#print axioms parse_blockHeader
#print axioms parse_index
#print axioms parse_footer
#print axioms xz_roundtrip_blocks
#print axioms xz_roundtrip
#print axioms xz_roundtrip'
#print axioms xz_roundtrip_iff
#print axioms xz_exact_consumption
#print axioms xz_concat_list
#print axioms xz_concat_list_gen
#print axioms xz_misaligned_trailing_padding
#print axioms xz_misaligned_trailing_padding_one
#print axioms xz_concat_two
#print axioms xz_misaligned_padding
#print axioms xz_garbage_after_stream
#print axioms decode_rejects_non_xz
#print axioms decode_consumed_le
#print axioms decodeA_fst
#print axioms decode_accepts_verified
#print axioms applyFilters_length
#print axioms payloadOk_stored

end LzmaVerif.Xz
