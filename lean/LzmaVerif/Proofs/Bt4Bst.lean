/-
  (B5) the binary-search-tree invariant of BT4 and its preservation by one descent, abstractly
  (over the array, the two hole pointers `ptr0` / `ptr1`, `len0` / `len1` and the current candidate).

  `TInv T lo hi`: for every live node `q` (`lo < q ≤ hi`), every live node reachable through `T[sl q]` is older
  than `q` and at most the suffix at `q`, every live node reachable through `T[sl q + 1]` is older and at least
  the suffix at `q` - in the lexicographic order truncated to `nw q` bytes, the `nice_len_limit` at `q`.
  This holds for ALL live nodes, also for those that were dropped from their tree: a descent makes the new node
  the root and otherwise only REMOVES paths (`Reach.shrink`); no node ever gains a descendant.
-/
import LzmaVerif.Proofs.Bt4Order
namespace LzmaVerif.Mf.Bt4

/-- logical data position of the node with `lz_pos` value `e` -/
def posOf (cs e : Nat) : Nat := e - cs - 1

/-- the `nice_len_limit` at node `e`: `min nice_len avail` -/
def nw (d : Array UInt8) (cs niceLen e : Nat) : Nat := min niceLen (d.size - posOf cs e)

def TInv (d : Array UInt8) (cs niceLen : Nat) (T : Array Nat) (lo hi : Nat) : Prop :=
  ∀ q, lo < q → q ≤ hi →
    (∀ x, RS cs T lo hi (sl cs q) x → x < q ∧ LeN d (nw d cs niceLen q) (posOf cs x) (posOf cs q)) ∧
    (∀ x, RS cs T lo hi (sl cs q + 1) x → x < q ∧ LeN d (nw d cs niceLen q) (posOf cs q) (posOf cs x))

def NotSlot (cs v σ : Nat) : Prop := σ ≠ sl cs v ∧ σ ≠ sl cs v + 1

/-- `σ` is not a child slot of a live node (it is one of the two slots of the node being inserted) -/
def NewSlot (cs lo hi σ : Nat) : Prop := ∀ v, lo < v → v ≤ hi → NotSlot cs v σ

section
variable {d : Array UInt8} {cs niceLen lo hi : Nat}

theorem sl_lt (hcs : 0 < cs) (v : Nat) : sl cs v + 1 < 2 * cs := by
  have := Nat.mod_lt (v - 1) hcs
  unfold sl; omega

theorem notSlot_of_ne (hlo : 1 ≤ lo) (hw : hi < lo + cs) {v w : Nat} (hv : lo < v) (hv' : v ≤ hi)
    (hw1 : lo < w) (hw2 : w ≤ hi) (hne : v ≠ w) : NotSlot cs v (sl cs w) ∧ NotSlot cs v (sl cs w + 1) := by
  have := sl_disjoint (cs := cs) (v := w) (w := v) (by omega) (by omega) (Ne.symm hne) (by omega) (by omega)
  exact ⟨⟨this.1, this.2.1⟩, ⟨this.2.2.1, this.2.2.2⟩⟩

/-- a single write, when the written value reaches only what the old content of the slot reached -/
theorem Reach.shrink_set {T : Array Nat} {σ0 w : Nat}
    (hp : (∃ v, lo < v ∧ v ≤ hi ∧ (σ0 = sl cs v ∨ σ0 = sl cs v + 1)) →
      ∀ x, Reach cs T lo hi w x → RS cs T lo hi σ0 x)
    {v x : Nat} (h : Reach cs (T.setIfInBounds σ0 w) lo hi v x) : Reach cs T lo hi v x := by
  refine Reach.shrink (T := T) ?_ h
  intro v a b
  constructor
  · intro x hx
    rw [getD_set] at hx
    split at hx
    · rename_i hh
      have := hp ⟨v, a, b, Or.inl hh.1⟩ x hx
      unfold RS at this; rw [hh.1] at this; exact this
    · exact hx
  · intro x hx
    rw [getD_set] at hx
    split at hx
    · rename_i hh
      have := hp ⟨v, a, b, Or.inr hh.1⟩ x hx
      unfold RS at this; rw [hh.1] at this; exact this
    · exact hx

theorem RS_set {T : Array Nat} {σ0 w : Nat}
    (hp : (∃ v, lo < v ∧ v ≤ hi ∧ (σ0 = sl cs v ∨ σ0 = sl cs v + 1)) →
      ∀ x, Reach cs T lo hi w x → RS cs T lo hi σ0 x)
    {σ x : Nat} (hσ : σ ≠ σ0 ∨ ∃ v, lo < v ∧ v ≤ hi ∧ (σ0 = sl cs v ∨ σ0 = sl cs v + 1))
    (h : RS cs (T.setIfInBounds σ0 w) lo hi σ x) : RS cs T lo hi σ x := by
  unfold RS at h ⊢
  have h' := Reach.shrink_set hp h
  rw [getD_set] at h'
  split at h'
  · rename_i hh
    rcases hσ with hne | hw
    · exact absurd hh.1.symm hne
    · have := hp hw x h'
      unfold RS at this; rw [hh.1] at this; exact this
  · exact h'

/-- arrays with the same contents have the same paths -/
theorem Reach.congr {T F : Array Nat} (he : ∀ i, F.getD i 0 = T.getD i 0) {v x : Nat}
    (h : Reach cs F lo hi v x) : Reach cs T lo hi v x := by
  refine Reach.shrink (T := T) ?_ h
  intro v _ _
  exact ⟨fun x hx => by rw [he] at hx; exact hx, fun x hx => by rw [he] at hx; exact hx⟩

theorem TInv.set {T : Array Nat} {σ0 w : Nat} (ht : TInv d cs niceLen T lo hi)
    (hp : (∃ v, lo < v ∧ v ≤ hi ∧ (σ0 = sl cs v ∨ σ0 = sl cs v + 1)) →
      ∀ x, Reach cs T lo hi w x → RS cs T lo hi σ0 x) :
    TInv d cs niceLen (T.setIfInBounds σ0 w) lo hi := by
  intro q a b
  constructor
  · intro x hx
    refine (ht q a b).1 x (RS_set hp ?_ hx)
    by_cases h : sl cs q = σ0
    · exact Or.inr ⟨q, a, b, Or.inl h.symm⟩
    · exact Or.inl h
  · intro x hx
    refine (ht q a b).2 x (RS_set hp ?_ hx)
    by_cases h : sl cs q + 1 = σ0
    · exact Or.inr ⟨q, a, b, Or.inr h.symm⟩
    · exact Or.inl h

/-- the state of one descent (bt4.rs:89-134 / :225-277) -/
structure LoopInv (d : Array UInt8) (cs niceLen lo hi p : Nat) (T : Array Nat) (ptr0 ptr1 len0 len1 cur : Nat) :
    Prop where
  tbl : ∀ i, T.getD i 0 ≤ hi
  size : 2 * cs ≤ T.size
  curHi : cur ≤ hi
  b0 : ptr0 < T.size
  b1 : ptr1 < T.size
  ne : ptr0 ≠ ptr1
  ti : TInv d cs niceLen T lo hi
  r0 : NewSlot cs lo hi ptr0 ∨ ∀ x, Reach cs T lo hi cur x → RS cs T lo hi ptr0 x
  r1 : NewSlot cs lo hi ptr1 ∨ ∀ x, Reach cs T lo hi cur x → RS cs T lo hi ptr1 x
  rr : T.getD ptr0 0 = cur ∨ T.getD ptr1 0 = cur ∨ (NewSlot cs lo hi ptr0 ∧ NewSlot cs lo hi ptr1)
  o : ∀ v, lo < v → v ≤ cur → NotSlot cs v ptr0 ∧ NotSlot cs v ptr1
  v : ∀ x, Reach cs T lo hi cur x → LeN d len0 (posOf cs x) p ∧ LeN d len1 p (posOf cs x)

/-- what the finished descent `F` guarantees, relative to the array `T` it was started on -/
structure Post (d : Array UInt8) (cs lo hi Nn p : Nat) (T F : Array Nat) (ptr0 ptr1 cur : Nat) : Prop where
  p1 : ∀ σ x, σ ≠ ptr0 → σ ≠ ptr1 → RS cs F lo hi σ x → RS cs T lo hi σ x
  n0 : ∀ x, RS cs F lo hi ptr0 x → Reach cs T lo hi cur x ∧ LeN d Nn p (posOf cs x)
  n1 : ∀ x, RS cs F lo hi ptr1 x → Reach cs T lo hi cur x ∧ LeN d Nn (posOf cs x) p
  fr : ∀ σ, σ ≠ ptr0 → σ ≠ ptr1 → (∀ v, lo < v → v ≤ cur → NotSlot cs v σ) → F.getD σ 0 = T.getD σ 0

/-- the premise of `Reach.shrink_set` for a hole of the descent -/
theorem LoopInv.hole_prem1 {p : Nat} {T : Array Nat} {ptr0 ptr1 len0 len1 cur : Nat}
    (h : LoopInv d cs niceLen lo hi p T ptr0 ptr1 len0 len1 cur) {w : Nat}
    (hw : ∀ x, Reach cs T lo hi w x → Reach cs T lo hi cur x) :
    (∃ v, lo < v ∧ v ≤ hi ∧ (ptr1 = sl cs v ∨ ptr1 = sl cs v + 1)) →
      ∀ x, Reach cs T lo hi w x → RS cs T lo hi ptr1 x := by
  rintro ⟨v, a, b, hv⟩ x hx
  rcases h.r1 with hn | hr
  · have := hn v a b
    rcases hv with hv | hv
    · exact absurd hv this.1
    · exact absurd hv this.2
  · exact hr x (hw x hx)

theorem LoopInv.hole_prem0 {p : Nat} {T : Array Nat} {ptr0 ptr1 len0 len1 cur : Nat}
    (h : LoopInv d cs niceLen lo hi p T ptr0 ptr1 len0 len1 cur) {w : Nat}
    (hw : ∀ x, Reach cs T lo hi w x → Reach cs T lo hi cur x) :
    (∃ v, lo < v ∧ v ≤ hi ∧ (ptr0 = sl cs v ∨ ptr0 = sl cs v + 1)) →
      ∀ x, Reach cs T lo hi w x → RS cs T lo hi ptr0 x := by
  rintro ⟨v, a, b, hv⟩ x hx
  rcases h.r0 with hn | hr
  · have := hn v a b
    rcases hv with hv | hv
    · exact absurd hv this.1
    · exact absurd hv this.2
  · exact hr x (hw x hx)

/-! ### the two ways a descent ends -/

/-- bt4.rs:93-95 / :232-234: both holes are cleared -/
theorem post_terminate {p Nn : Nat} {T : Array Nat} {ptr0 ptr1 len0 len1 cur : Nat}
    (h : LoopInv d cs niceLen lo hi p T ptr0 ptr1 len0 len1 cur) :
    Post d cs lo hi Nn p T ((T.setIfInBounds ptr0 0).setIfInBounds ptr1 0) ptr0 ptr1 cur := by
  have hz : ∀ (A : Array Nat) (x : Nat), ¬ Reach cs A lo hi 0 x := fun A x => Reach.not_low (Nat.zero_le _)
  have hsh : ∀ {v x}, Reach cs ((T.setIfInBounds ptr0 0).setIfInBounds ptr1 0) lo hi v x → Reach cs T lo hi v x := by
    intro v x hx
    have h1 := Reach.shrink_set (fun _ x hx => absurd hx (hz _ x)) hx
    exact Reach.shrink_set (fun _ x hx => absurd hx (hz _ x)) h1
  refine ⟨?_, ?_, ?_, ?_⟩
  · intro σ x h0 h1 hx
    unfold RS at hx ⊢
    have := hsh hx
    rw [getD_set, if_neg (by intro hh; exact h1 hh.1.symm), getD_set, if_neg (by intro hh; exact h0 hh.1.symm)] at this
    exact this
  · intro x hx
    unfold RS at hx
    rw [getD_set, if_neg (by intro hh; exact h.ne hh.1.symm), getD_set, if_pos ⟨rfl, h.b0⟩] at hx
    exact absurd hx (hz _ x)
  · intro x hx
    unfold RS at hx
    rw [getD_set, if_pos ⟨rfl, by rw [Array.size_setIfInBounds]; exact h.b1⟩] at hx
    exact absurd hx (hz _ x)
  · intro σ h0 h1 _
    rw [getD_set, if_neg (by intro hh; exact h1 hh.1.symm), getD_set, if_neg (by intro hh; exact h0 hh.1.symm)]

/-- bt4.rs:113-115 / :260-262: the candidate agrees with the new string on `nice_len_limit` bytes and is replaced
    by it; its two subtrees are handed to the holes -/
theorem post_relink {p Nn : Nat} {T : Array Nat} {ptr0 ptr1 len0 len1 cur : Nat}
    (h : LoopInv d cs niceLen lo hi p T ptr0 ptr1 len0 len1 cur) (hlo : lo < cur)
    (hN : Nn ≤ nw d cs niceLen cur) (heq : EqN d Nn (posOf cs cur) p) :
    Post d cs lo hi Nn p T
      ((T.setIfInBounds ptr1 (T.getD (sl cs cur) 0)).setIfInBounds ptr0
        ((T.setIfInBounds ptr1 (T.getD (sl cs cur) 0)).getD (sl cs cur + 1) 0)) ptr0 ptr1 cur := by
  have hns := h.o cur hlo (Nat.le_refl _)
  have e1 : (T.setIfInBounds ptr1 (T.getD (sl cs cur) 0)).getD (sl cs cur + 1) 0 = T.getD (sl cs cur + 1) 0 := by
    rw [getD_set, if_neg (by intro hh; exact hns.2.2 hh.1)]
  rw [e1]
  have hL : ∀ x, Reach cs T lo hi (T.getD (sl cs cur) 0) x → Reach cs T lo hi cur x :=
    fun x hx => Reach.left hlo h.curHi hx
  have hR : ∀ x, Reach cs T lo hi (T.getD (sl cs cur + 1) 0) x → Reach cs T lo hi cur x :=
    fun x hx => Reach.right hlo h.curHi hx
  -- every path of the result is a path of `T`
  have hsh : ∀ {v x}, Reach cs ((T.setIfInBounds ptr1 (T.getD (sl cs cur) 0)).setIfInBounds ptr0
      (T.getD (sl cs cur + 1) 0)) lo hi v x → Reach cs T lo hi v x := by
    intro v x hx
    refine Reach.shrink (T := T) ?_ hx
    intro v a b
    constructor
    · intro x hx
      rw [getD_set] at hx
      split at hx
      · rename_i hh
        have := h.hole_prem0 hR ⟨v, a, b, Or.inl hh.1⟩ x hx
        unfold RS at this; rw [hh.1] at this; exact this
      · rw [getD_set] at hx
        split at hx
        · rename_i hh
          have := h.hole_prem1 hL ⟨v, a, b, Or.inl hh.1⟩ x hx
          unfold RS at this; rw [hh.1] at this; exact this
        · exact hx
    · intro x hx
      rw [getD_set] at hx
      split at hx
      · rename_i hh
        have := h.hole_prem0 hR ⟨v, a, b, Or.inr hh.1⟩ x hx
        unfold RS at this; rw [hh.1] at this; exact this
      · rw [getD_set] at hx
        split at hx
        · rename_i hh
          have := h.hole_prem1 hL ⟨v, a, b, Or.inr hh.1⟩ x hx
          unfold RS at this; rw [hh.1] at this; exact this
        · exact hx
  have hti := h.ti cur hlo h.curHi
  have hle1 : LeN d Nn (posOf cs cur) p := LeN.of_eq heq
  have hle2 : LeN d Nn p (posOf cs cur) := LeN.of_eq heq.symm
  refine ⟨?_, ?_, ?_, ?_⟩
  · intro σ x h0 h1 hx
    unfold RS at hx ⊢
    have := hsh hx
    rw [getD_set, if_neg (by intro hh; exact h0 hh.1.symm), getD_set, if_neg (by intro hh; exact h1 hh.1.symm)] at this
    exact this
  · intro x hx
    unfold RS at hx
    have := hsh hx
    rw [getD_set, if_pos ⟨rfl, by rw [Array.size_setIfInBounds]; exact h.b0⟩] at this
    exact ⟨hR x this, hle2.trans (((hti.2 x this).2).mono hN)⟩
  · intro x hx
    unfold RS at hx
    have := hsh hx
    rw [getD_set, if_neg (by intro hh; exact h.ne hh.1), getD_set, if_pos ⟨rfl, h.b1⟩] at this
    exact ⟨hL x this, (((hti.1 x this).2).mono hN).trans hle1⟩
  · intro σ h0 h1 _
    rw [getD_set, if_neg (by intro hh; exact h0 hh.1.symm), getD_set, if_neg (by intro hh; exact h1 hh.1.symm)]

/-! ### one step of the descent -/

/-- bt4.rs:123-127 / :266-270: the candidate is smaller than the new string (first difference after `len`
    equal bytes); it is written to the hole `ptr1`, the walk continues with its larger child and
    `ptr1 = ` that child slot, `len1 = len` -/
theorem step_small (hlo1 : 1 ≤ lo) (hw : hi < lo + cs) {p Nn len : Nat} {T : Array Nat}
    {ptr0 ptr1 len0 len1 cur : Nat}
    (h : LoopInv d cs niceLen lo hi p T ptr0 ptr1 len0 len1 cur) (hlo : lo < cur)
    (hN : Nn ≤ nw d cs niceLen cur) (hlen : len ≤ nw d cs niceLen cur)
    (heq : EqN d len (posOf cs cur) p) (hlt : byteAt d (posOf cs cur + len) < byteAt d (p + len)) :
    LoopInv d cs niceLen lo hi p (T.setIfInBounds ptr1 cur) ptr0 (sl cs cur + 1) len0 len
      ((T.setIfInBounds ptr1 cur).getD (sl cs cur + 1) 0) ∧
    ∀ F, Post d cs lo hi Nn p (T.setIfInBounds ptr1 cur) F ptr0 (sl cs cur + 1)
        ((T.setIfInBounds ptr1 cur).getD (sl cs cur + 1) 0) →
      Post d cs lo hi Nn p T F ptr0 ptr1 cur := by
  have hcs : 0 < cs := by have := h.curHi; omega
  have hns := h.o cur hlo (Nat.le_refl _)
  have e1 : (T.setIfInBounds ptr1 cur).getD (sl cs cur + 1) 0 = T.getD (sl cs cur + 1) 0 := by
    rw [getD_set, if_neg (by intro hh; exact hns.2.2 hh.1)]
  rw [e1]
  have hself : ∀ x, Reach cs T lo hi cur x → Reach cs T lo hi cur x := fun _ hx => hx
  have hprem := h.hole_prem1 hself
  have hsh : ∀ {v x}, Reach cs (T.setIfInBounds ptr1 cur) lo hi v x → Reach cs T lo hi v x :=
    fun hx => Reach.shrink_set hprem hx
  have hti := h.ti cur hlo h.curHi
  have hR : ∀ x, Reach cs T lo hi (T.getD (sl cs cur + 1) 0) x → Reach cs T lo hi cur x :=
    fun x hx => Reach.right hlo h.curHi hx
  have hchi : T.getD (sl cs cur + 1) 0 ≤ hi := h.tbl _
  -- the child is older than the candidate
  have hcl : ∀ v, lo < v → v ≤ T.getD (sl cs cur + 1) 0 → v < cur := by
    intro v a b
    have := (hti.2 _ (Reach.refl (by omega) hchi)).1
    omega
  have hle : LeN d Nn (posOf cs cur) p := LeN.of_lt Nn heq hlt
  have hset : ∀ σ, σ ≠ ptr1 → (T.setIfInBounds ptr1 cur).getD σ 0 = T.getD σ 0 := by
    intro σ hσ; rw [getD_set, if_neg (by intro hh; exact hσ hh.1.symm)]
  constructor
  · refine ⟨?_, ?_, hchi, ?_, ?_, ?_, h.ti.set hprem, ?_, ?_, ?_, ?_, ?_⟩
    · intro i; rw [getD_set]; split
      · exact h.curHi
      · exact h.tbl i
    · rw [Array.size_setIfInBounds]; exact h.size
    · rw [Array.size_setIfInBounds]; exact h.b0
    · rw [Array.size_setIfInBounds]; have := sl_lt hcs cur; have := h.size; omega
    · exact hns.1.2
    · -- r0
      rcases h.r0 with hn | hr
      · exact Or.inl hn
      · rcases h.rr with e0 | e1' | ⟨hn, _⟩
        · right
          intro x hx
          unfold RS
          rw [hset _ h.ne, e0]
          refine Reach.right hlo h.curHi ?_
          rw [e1]; exact hx
        · right
          intro x hx
          have hsame : ∀ i, (T.setIfInBounds ptr1 cur).getD i 0 = T.getD i 0 := by
            intro i; rw [getD_set]; split
            · rename_i hh; rw [← hh.1, e1']
            · rfl
          have h1 : RS cs T lo hi ptr0 x := hr x (hR x (hsh hx))
          unfold RS at h1 ⊢
          rw [hset _ h.ne]
          exact Reach.congr (fun i => (hsame i).symm) h1
        · exact Or.inl hn
    · -- r1
      right
      intro x hx
      unfold RS; rw [e1]; exact hx
    · -- rr
      right; left; exact e1
    · -- o
      intro v a b
      have hvc := hcl v a b
      refine ⟨(h.o v a (by omega)).1, ?_⟩
      exact (notSlot_of_ne hlo1 hw a (by have := h.curHi; omega) hlo h.curHi (by omega)).2
    · -- v
      intro x hx
      have hx' := hsh hx
      refine ⟨(h.v x (hR x hx')).1, ?_⟩
      exact (LeN.of_eq heq.symm).trans (((hti.2 x hx').2).mono hlen)
  · intro F hP
    have hfr : F.getD ptr1 0 = cur := by
      rw [hP.fr ptr1 (Ne.symm h.ne) hns.2.2 (fun v a b => (h.o v a (by have := hcl v a b; omega)).2),
        getD_set, if_pos ⟨rfl, h.b1⟩]
    refine ⟨?_, ?_, ?_, ?_⟩
    · intro σ x h0 h1 hx
      by_cases hs : σ = sl cs cur + 1
      · subst hs
        exact hsh (hP.n1 x hx).1
      · exact RS_set hprem (Or.inl h1) (hP.p1 σ x h0 hs hx)
    · intro x hx
      exact ⟨hR x (hsh (hP.n0 x hx).1), (hP.n0 x hx).2⟩
    · intro x hx
      unfold RS at hx
      rw [hfr] at hx
      cases hx with
      | refl a b => exact ⟨Reach.refl a b, hle⟩
      | left a b hx' =>
        have h1 : RS cs (T.setIfInBounds ptr1 cur) lo hi (sl cs cur) x :=
          hP.p1 _ x (Ne.symm hns.1.1) (by omega) hx'
        have h2 : RS cs T lo hi (sl cs cur) x := RS_set hprem (Or.inl (Ne.symm hns.2.1)) h1
        exact ⟨Reach.left a b h2, (((hti.1 x h2).2).mono hN).trans hle⟩
      | right a b hx' =>
        have := hP.n1 x hx'
        exact ⟨hR x (hsh this.1), this.2⟩
    · intro σ h0 h1 hv
      have hσ := hv cur hlo (Nat.le_refl _)
      rw [hP.fr σ h0 hσ.2 (fun v a b => hv v a (by have := hcl v a b; omega)), hset _ h1]

/-- bt4.rs:128-132 / :271-275: the candidate is larger than the new string; it is written to the hole `ptr0`, the
    walk continues with its smaller child and `ptr0 = ` that child slot, `len0 = len` -/
theorem step_large (hlo1 : 1 ≤ lo) (hw : hi < lo + cs) {p Nn len : Nat} {T : Array Nat}
    {ptr0 ptr1 len0 len1 cur : Nat}
    (h : LoopInv d cs niceLen lo hi p T ptr0 ptr1 len0 len1 cur) (hlo : lo < cur)
    (hN : Nn ≤ nw d cs niceLen cur) (hlen : len ≤ nw d cs niceLen cur)
    (heq : EqN d len (posOf cs cur) p) (hlt : byteAt d (p + len) < byteAt d (posOf cs cur + len)) :
    LoopInv d cs niceLen lo hi p (T.setIfInBounds ptr0 cur) (sl cs cur) ptr1 len len1
      ((T.setIfInBounds ptr0 cur).getD (sl cs cur) 0) ∧
    ∀ F, Post d cs lo hi Nn p (T.setIfInBounds ptr0 cur) F (sl cs cur) ptr1
        ((T.setIfInBounds ptr0 cur).getD (sl cs cur) 0) →
      Post d cs lo hi Nn p T F ptr0 ptr1 cur := by
  have hcs : 0 < cs := by have := h.curHi; omega
  have hns := h.o cur hlo (Nat.le_refl _)
  have e1 : (T.setIfInBounds ptr0 cur).getD (sl cs cur) 0 = T.getD (sl cs cur) 0 := by
    rw [getD_set, if_neg (by intro hh; exact hns.1.1 hh.1)]
  rw [e1]
  have hself : ∀ x, Reach cs T lo hi cur x → Reach cs T lo hi cur x := fun _ hx => hx
  have hprem := h.hole_prem0 hself
  have hsh : ∀ {v x}, Reach cs (T.setIfInBounds ptr0 cur) lo hi v x → Reach cs T lo hi v x :=
    fun hx => Reach.shrink_set hprem hx
  have hti := h.ti cur hlo h.curHi
  have hL : ∀ x, Reach cs T lo hi (T.getD (sl cs cur) 0) x → Reach cs T lo hi cur x :=
    fun x hx => Reach.left hlo h.curHi hx
  have hchi : T.getD (sl cs cur) 0 ≤ hi := h.tbl _
  have hcl : ∀ v, lo < v → v ≤ T.getD (sl cs cur) 0 → v < cur := by
    intro v a b
    have := (hti.1 _ (Reach.refl (by omega) hchi)).1
    omega
  have hle : LeN d Nn p (posOf cs cur) := LeN.of_lt Nn heq.symm hlt
  have hset : ∀ σ, σ ≠ ptr0 → (T.setIfInBounds ptr0 cur).getD σ 0 = T.getD σ 0 := by
    intro σ hσ; rw [getD_set, if_neg (by intro hh; exact hσ hh.1.symm)]
  constructor
  · refine ⟨?_, ?_, hchi, ?_, ?_, ?_, h.ti.set hprem, ?_, ?_, ?_, ?_, ?_⟩
    · intro i; rw [getD_set]; split
      · exact h.curHi
      · exact h.tbl i
    · rw [Array.size_setIfInBounds]; exact h.size
    · rw [Array.size_setIfInBounds]; have := sl_lt hcs cur; have := h.size; omega
    · rw [Array.size_setIfInBounds]; exact h.b1
    · exact Ne.symm hns.2.1
    · -- r0
      right
      intro x hx
      unfold RS; rw [e1]; exact hx
    · -- r1
      rcases h.r1 with hn | hr
      · exact Or.inl hn
      · rcases h.rr with e0 | e1' | ⟨_, hn⟩
        · right
          intro x hx
          have hsame : ∀ i, (T.setIfInBounds ptr0 cur).getD i 0 = T.getD i 0 := by
            intro i; rw [getD_set]; split
            · rename_i hh; rw [← hh.1, e0]
            · rfl
          have h1 : RS cs T lo hi ptr1 x := hr x (hL x (hsh hx))
          unfold RS at h1 ⊢
          rw [hset _ (Ne.symm h.ne)]
          exact Reach.congr (fun i => (hsame i).symm) h1
        · right
          intro x hx
          unfold RS
          rw [hset _ (Ne.symm h.ne), e1']
          refine Reach.left hlo h.curHi ?_
          rw [e1]; exact hx
        · exact Or.inl hn
    · -- rr
      left; exact e1
    · -- o
      intro v a b
      have hvc := hcl v a b
      refine ⟨?_, (h.o v a (by omega)).2⟩
      exact (notSlot_of_ne hlo1 hw a (by have := h.curHi; omega) hlo h.curHi (by omega)).1
    · -- v
      intro x hx
      have hx' := hsh hx
      refine ⟨?_, (h.v x (hL x hx')).2⟩
      exact (((hti.1 x hx').2).mono hlen).trans (LeN.of_eq heq)
  · intro F hP
    have hfr : F.getD ptr0 0 = cur := by
      rw [hP.fr ptr0 hns.1.1 h.ne (fun v a b => (h.o v a (by have := hcl v a b; omega)).1),
        getD_set, if_pos ⟨rfl, h.b0⟩]
    refine ⟨?_, ?_, ?_, ?_⟩
    · intro σ x h0 h1 hx
      by_cases hs : σ = sl cs cur
      · subst hs
        exact hsh (hP.n0 x hx).1
      · exact RS_set hprem (Or.inl h0) (hP.p1 σ x hs h1 hx)
    · intro x hx
      unfold RS at hx
      rw [hfr] at hx
      cases hx with
      | refl a b => exact ⟨Reach.refl a b, hle⟩
      | left a b hx' =>
        have := hP.n0 x hx'
        exact ⟨hL x (hsh this.1), this.2⟩
      | right a b hx' =>
        have h1 : RS cs (T.setIfInBounds ptr0 cur) lo hi (sl cs cur + 1) x :=
          hP.p1 _ x (by omega) (Ne.symm hns.2.2) hx'
        have h2 : RS cs T lo hi (sl cs cur + 1) x := RS_set hprem (Or.inl (Ne.symm hns.1.2)) h1
        exact ⟨Reach.right a b h2, hle.trans (((hti.2 x h2).2).mono hN)⟩
    · intro x hx
      exact ⟨hL x (hsh (hP.n1 x hx).1), (hP.n1 x hx).2⟩
    · intro σ h0 h1 hv
      have hσ := hv cur hlo (Nat.le_refl _)
      rw [hP.fr σ hσ.1 h1 (fun v a b => hv v a (by have := hcl v a b; omega)), hset _ h0]

end
end LzmaVerif.Mf.Bt4
