/-
  Normal encoder: `convert_opts` + the pending path of `get_next_symbol` hand out the back-pointer chain
  (`ConvertSpec`): the in-place pointer reversal over `opts[]`, including the scratch entries that the composite
  candidates (`set2` / `set3`) use for their inner symbols.
-/
import LzmaVerif.Proofs.EncNormalOpt

namespace LzmaVerif.EncNormal
open LzmaVerif Mf Lzma Rc EncFast EncPrices

/-- same candidate fields except the (back / forward) pointer `optPrev` -/
def SameBut (x y : Opt) : Prop :=
  x.backPrev = y.backPrev ∧ x.prev1IsLiteral = y.prev1IsLiteral ∧ x.hasPrev2 = y.hasPrev2 ∧
    x.optPrev2 = y.optPrev2 ∧ x.backPrev2 = y.backPrev2

theorem pending_step (P : NormalParams) (d : Array UInt8) (p : Nat) (opts : Opts) (e f cur : Nat) (h : cur < e) :
    pending P d p opts e (f + 1) cur =
      (symOf P d (p + cur) (oat opts (oat opts cur).optPrev).backPrev ((oat opts cur).optPrev - cur),
        (oat opts cur).optPrev - cur) :: pending P d p opts e f (oat opts cur).optPrev := by
  rw [pending, if_pos h]

theorem chainOf_zero (P : NormalParams) (d : Array UInt8) (p : Nat) (opts : Opts) (fuel : Nat) :
    chainOf P d p opts fuel 0 = [] := by
  cases fuel with
  | zero => rfl
  | succ n => rw [chainOf, if_pos rfl]

theorem convertLoop_size : ∀ (fuel : Nat) (opts : Opts) (optCur optPrev : Nat),
    (convertLoop fuel opts optCur optPrev).size = opts.size
  | 0, opts, _, _ => rfl
  | fuel + 1, opts, optCur, optPrev => by
    rw [convertLoop]
    simp only
    split
    · split
      · split
        · simp only [Array.size_modify]
        · rw [convertLoop_size fuel]; simp only [Array.size_modify]
      · split
        · simp only [Array.size_modify]
        · rw [convertLoop_size fuel]; simp only [Array.size_modify]
    · split
      · simp only [Array.size_modify]
      · rw [convertLoop_size fuel]; simp only [Array.size_modify]

theorem convertLoop_spec (P : NormalParams) (d : Array UInt8) (p : Nat) (o0 : Opts) (e : Nat)
    (hsh : ∀ i, 1 ≤ i → i ≤ e → Shape (oat o0 i) i) (hsz : e < o0.size) :
    ∀ (fuel x : Nat) (opts : Opts) (T : List (Sym × Nat)), 1 ≤ x → x ≤ e → x ≤ fuel → opts.size = o0.size →
      (∀ k, k < x → oat opts k = oat o0 k) → SameBut (oat opts x) (oat o0 x) →
      (∀ opts' : Opts, (∀ k, x ≤ k → oat opts' k = oat opts k) → ∀ f, e - x < f → pending P d p opts' e f x = T) →
      ∀ F fc, e < F → x ≤ fc →
        pending P d p (convertLoop fuel opts x (oat o0 x).optPrev) e F 0 = chainOf P d p o0 fc x ++ T
  | 0, x, opts, T, h1, _, hf, _, _, _, _ => by omega
  | fuel + 1, x, opts, T, h1, hxe, hf, hs, hlow, hsame, hrob => by
    intro F fc hF hfc
    obtain ⟨sb, sp1, sp2, so2, sb2⟩ := hsame
    have hshape := hsh x h1 hxe
    -- one more group of the chain
    obtain ⟨fc', rfl⟩ : ∃ n, fc = n + 1 := ⟨fc - 1, by omega⟩
    rw [chainOf, if_neg (by omega)]
    -- the final step shared by all shapes: `y` is the node the group starts from, `optsA` the array with the
    -- inner links written, `cx` the first node after `y`, `G` the symbols of the group
    have fin : ∀ (optsA : Opts) (y cx : Nat) (G : List (Sym × Nat)), y < cx → cx ≤ x → optsA.size = o0.size →
        (∀ k, k ≤ y → oat optsA k = oat o0 k) →
        (∀ opts' : Opts, (∀ k, y ≤ k → oat opts' k = oat (optsA.modify y fun o => { o with optPrev := cx }) k) →
          ∀ f, e - y < f → pending P d p opts' e f y = G ++ T) →
        pending P d p
            (if y = 0 then optsA.modify y fun o => { o with optPrev := cx }
             else convertLoop fuel (optsA.modify y fun o => { o with optPrev := cx }) y (oat optsA y).optPrev) e F 0 =
          (chainOf P d p o0 fc' y ++ G) ++ T := by
      intro optsA y cx G hycx hcx hsA hlowA hrobA
      have hys : y < optsA.size := by omega
      split
      · next hy0 =>
        subst hy0
        rw [chainOf_zero, List.nil_append]
        obtain ⟨F', rfl⟩ : ∃ n, F = n + 1 := ⟨F - 1, by omega⟩
        exact hrobA _ (fun k _ => rfl) (F' + 1) (by omega)
      · next hy0 =>
        rw [hlowA y (Nat.le_refl _), List.append_assoc]
        refine convertLoop_spec P d p o0 e hsh hsz fuel y _ (G ++ T) (by omega) (by omega) (by omega)
          (by rw [Array.size_modify]; exact hsA) ?_ ?_ hrobA F fc' hF (by omega)
        · intro k hk
          rw [oat_modify _ _ _ _ hys, if_neg (by omega)]
          exact hlowA k (by omega)
        · rw [oat_modify_self _ _ _ hys, hlowA y (Nat.le_refl _)]
          exact ⟨rfl, rfl, rfl, rfl, rfl⟩
    rw [convertLoop]
    simp only
    unfold Shape at hshape
    unfold groupOf
    rw [sp1]
    cases hp1 : (oat o0 x).prev1IsLiteral
    · -- `set1`
      simp only [hp1, Bool.false_eq_true, if_false] at hshape ⊢
      obtain ⟨hlt, _⟩ := hshape
      have := fin opts (oat o0 x).optPrev x
        [(symOf P d (p + (oat o0 x).optPrev) (oat o0 x).backPrev (x - (oat o0 x).optPrev), x - (oat o0 x).optPrev)]
        hlt (Nat.le_refl _) hs (fun k hk => hlow k (by omega)) ?_
      · exact this
      · intro opts' hag f hf'
        obtain ⟨f', rfl⟩ : ∃ n, f = n + 1 := ⟨f - 1, by omega⟩
        have hys : (oat o0 x).optPrev < opts.size := by omega
        rw [pending_step P d p opts' e f' _ (by omega)]
        have e1 : (oat opts' (oat o0 x).optPrev).optPrev = x := by
          rw [hag _ (Nat.le_refl _), oat_modify_self _ _ _ hys]
        have e2 : (oat opts' x).backPrev = (oat o0 x).backPrev := by
          rw [hag x (by omega), oat_modify _ _ _ _ hys, if_neg (by omega), sb]
        rw [e1, e2]
        simp only [List.cons_append, List.nil_append]
        congr 1
        refine hrob opts' (fun k hk => ?_) f' (by omega)
        rw [hag k (by omega), oat_modify _ _ _ _ hys, if_neg (by omega)]
    · -- `set2` / `set3`
      simp only [hp1, if_true] at hshape ⊢
      obtain ⟨hb0, ho1, hoi, hh2⟩ := hshape
      rw [sp2]
      generalize hpv : (oat o0 x).optPrev = pv at ho1 hoi hh2 ⊢
      have hpvs : pv < opts.size := by omega
      cases hp2 : (oat o0 x).hasPrev2
      · -- literal + rep0
        simp only [Bool.false_eq_true, if_false]
        have hAs : (opts.modify pv fun o => { o with optPrev := x, backPrev := -1 }).size = o0.size := by
          rw [Array.size_modify]; exact hs
        have := fin (opts.modify pv fun o => { o with optPrev := x, backPrev := -1 }) (pv - 1) pv
          [(.lit (byteAt d (p + (pv - 1))), 1), (symOf P d (p + pv) (oat o0 x).backPrev (x - pv), x - pv)]
          (by omega) (by omega) hAs
          (fun k hk => by rw [oat_modify _ _ _ _ hpvs, if_neg (by omega)]; exact hlow k (by omega)) ?_
        · exact this
        · intro opts' hag f hf'
          have hys : pv - 1 < (opts.modify pv fun o => { o with optPrev := x, backPrev := -1 }).size := by omega
          obtain ⟨f', rfl⟩ : ∃ n, f = n + 1 := ⟨f - 1, by omega⟩
          obtain ⟨f'', rfl⟩ : ∃ n, f' = n + 1 := ⟨f' - 1, by omega⟩
          rw [pending_step P d p opts' e (f'' + 1) _ (by omega)]
          have e1 : (oat opts' (pv - 1)).optPrev = pv := by
            rw [hag _ (Nat.le_refl _), oat_modify_self _ _ _ hys]
          have e2 : oat opts' pv = { oat opts pv with optPrev := x, backPrev := -1 } := by
            rw [hag pv (by omega), oat_modify _ _ _ _ hys, if_neg (by omega), oat_modify_self _ _ _ hpvs]
          have e3 : (oat opts' x).backPrev = (oat o0 x).backPrev := by
            rw [hag x (by omega), oat_modify _ _ _ _ hys, if_neg (by omega), oat_modify _ _ _ _ hpvs, if_neg (by omega), sb]
          rw [e1, pending_step P d p opts' e f'' _ (by omega), e2]
          simp only
          rw [e3]
          have e4 : pv - (pv - 1) = 1 := by omega
          rw [e4, symOf_lit]
          simp only [List.cons_append, List.nil_append]
          congr 2
          refine hrob opts' (fun k hk => ?_) f'' (by omega)
          rw [hag k (by omega), oat_modify _ _ _ _ hys, if_neg (by omega), oat_modify _ _ _ _ hpvs, if_neg (by omega)]
      · -- X + literal + rep0
        obtain ⟨hb2, hlx⟩ := hh2 hp2
        simp only [if_true]
        rw [sb2, so2]
        generalize hy : (oat o0 x).optPrev2 = y at hlx ⊢
        have hA1s : pv - 1 < (opts.modify pv fun o => { o with optPrev := x, backPrev := -1 }).size := by
          rw [Array.size_modify]; omega
        have hAs : ((opts.modify pv fun o => { o with optPrev := x, backPrev := -1 }).modify (pv - 1)
            fun o => { o with optPrev := pv - 1 + 1, backPrev := (oat o0 x).backPrev2 }).size = o0.size := by
          rw [Array.size_modify, Array.size_modify]; exact hs
        have := fin ((opts.modify pv fun o => { o with optPrev := x, backPrev := -1 }).modify (pv - 1)
            fun o => { o with optPrev := pv - 1 + 1, backPrev := (oat o0 x).backPrev2 }) y (pv - 1)
          [(symOf P d (p + y) (oat o0 x).backPrev2 (pv - 1 - y), pv - 1 - y), (.lit (byteAt d (p + (pv - 1))), 1),
            (symOf P d (p + pv) (oat o0 x).backPrev (x - pv), x - pv)]
          (by omega) (by omega) hAs
          (fun k hk => by
            rw [oat_modify _ _ _ _ hA1s, if_neg (by omega), oat_modify _ _ _ _ hpvs, if_neg (by omega)]
            exact hlow k (by omega)) ?_
        · exact this
        · intro opts' hag f hf'
          have hys : y < ((opts.modify pv fun o => { o with optPrev := x, backPrev := -1 }).modify (pv - 1)
            fun o => { o with optPrev := pv - 1 + 1, backPrev := (oat o0 x).backPrev2 }).size := by omega
          obtain ⟨f', rfl⟩ : ∃ n, f = n + 1 := ⟨f - 1, by omega⟩
          obtain ⟨f'', rfl⟩ : ∃ n, f' = n + 1 := ⟨f' - 1, by omega⟩
          obtain ⟨f3, rfl⟩ : ∃ n, f'' = n + 1 := ⟨f'' - 1, by omega⟩
          have e1 : (oat opts' y).optPrev = pv - 1 := by
            rw [hag _ (Nat.le_refl _), oat_modify_self _ _ _ hys]
          have e2 : oat opts' (pv - 1) =
              { oat (opts.modify pv fun o => { o with optPrev := x, backPrev := -1 }) (pv - 1) with
                optPrev := pv - 1 + 1, backPrev := (oat o0 x).backPrev2 } := by
            rw [hag (pv - 1) (by omega), oat_modify _ _ _ _ hys, if_neg (by omega), oat_modify_self _ _ _ hA1s]
          have e3 : oat opts' pv = { oat opts pv with optPrev := x, backPrev := -1 } := by
            rw [hag pv (by omega), oat_modify _ _ _ _ hys, if_neg (by omega), oat_modify _ _ _ _ hA1s,
              if_neg (by omega), oat_modify_self _ _ _ hpvs]
          have e4 : (oat opts' x).backPrev = (oat o0 x).backPrev := by
            rw [hag x (by omega), oat_modify _ _ _ _ hys, if_neg (by omega), oat_modify _ _ _ _ hA1s,
              if_neg (by omega), oat_modify _ _ _ _ hpvs, if_neg (by omega), sb]
          have e5 : pv - 1 + 1 = pv := by omega
          rw [pending_step P d p opts' e (f3 + 1 + 1) _ (by omega), e1, e2]
          simp only
          rw [pending_step P d p opts' e (f3 + 1) _ (by omega), e2]
          simp only
          rw [e5, e3]
          simp only
          rw [pending_step P d p opts' e f3 _ (by omega), e3]
          simp only
          rw [e4]
          have e6 : pv - (pv - 1) = 1 := by omega
          rw [e6, symOf_lit]
          simp only [List.cons_append, List.nil_append]
          congr 3
          refine hrob opts' (fun k hk => ?_) f3 (by omega)
          rw [hag k (by omega), oat_modify _ _ _ _ hys, if_neg (by omega), oat_modify _ _ _ _ hA1s,
            if_neg (by omega), oat_modify _ _ _ _ hpvs, if_neg (by omega)]

theorem pending_end (P : NormalParams) (d : Array UInt8) (p : Nat) (opts : Opts) (e f : Nat) :
    pending P d p opts e f e = [] := by
  cases f with
  | zero => rfl
  | succ n => rw [pending, if_neg (Nat.lt_irrefl e)]

/-- **the pointer reversal is correct**: `convert_opts` + the pending path hand out the back-pointer chain -/
theorem convertSpec_holds (P : NormalParams) : ConvertSpec P := by
  intro d p opts cur hs h1 hlt hsh
  refine ⟨?_, ?_⟩
  · unfold convertOpts
    have := convertLoop_spec P d p opts cur hsh (by omega) P.opts cur opts [] h1 (Nat.le_refl _) (by omega) rfl
      (fun k _ => rfl) ⟨rfl, rfl, rfl, rfl, rfl⟩ (fun opts' _ f _ => pending_end P d p opts' cur f) P.opts cur hlt
      (Nat.le_refl _)
    rw [this, List.append_nil]
  · unfold convertOpts
    exact convertLoop_size _ _ _ _

end LzmaVerif.EncNormal
