/-
  (B4) every array index and every data index the model (hence `find_matches` / `skip` of bt4.rs) computes
  is in bounds.  Stated over the explicit access log `St.log`.
-/
import LzmaVerif.Proofs.Bt4Bounds
namespace LzmaVerif.Mf.Bt4

/-- additional hypotheses of (B4): `nice_len ≥ 4` (the crate enforces `8 ≤ nice_len ≤ 273`) and
    `nice_len ≤ match_len_max` (the LZMA encoders pass `match_len_max = 273`) -/
structure HypA (P : Bt4Params) (c : Cfg) (data : Array UInt8) : Prop extends Hyp P c data where
  niceAvail : P.minAvailFinishing ≤ c.niceLen
  niceMl : c.niceLen ≤ c.mlmax

/-- what "in bounds" means for one logged access -/
def AccessOk (P : Bt4Params) (c : Cfg) (data : Array UInt8) : Access → Prop
  | .h2 i => i < P.hash.hash2Size
  | .h3 i => i < P.hash.hash3Size
  | .h4 i => i < hash4Size P.hash c.dict
  | .tree i => i < cyclicSize P c * P.treeFactor
  -- `buf[read_pos + fwd - back]`: no underflow, inside the data, not further back than the dictionary
  | .byte p fwd back => back ≤ p + fwd ∧ p + fwd < data.size ∧ p ≤ p + fwd - back + c.dict
  -- `extend_match(buf, p, cur, delta, limit)`: both slices `[p+cur-delta .. p+limit-delta)`, `[p+cur .. p+limit)`
  | .extend p cur delta limit => delta ≤ p + cur ∧ cur ≤ limit ∧ p + limit ≤ data.size ∧ delta ≤ c.dict

def LogOk (P : Bt4Params) (c : Cfg) (data : Array UInt8) (lg : Log) : Prop :=
  ∀ l, lg = some l → ∀ a ∈ l, AccessOk P c data a

theorem LogOk.push {P : Bt4Params} {c : Cfg} {data : Array UInt8} {lg : Log} (h : LogOk P c data lg) {a : Access}
    (ha : AccessOk P c data a) : LogOk P c data (lg.push a) := by
  intro l hl
  cases lg with
  | none => simp [Log.push] at hl
  | some xs =>
    simp only [Log.push, Option.some.injEq] at hl
    subst hl
    intro b hb
    rcases List.mem_cons.1 hb with rfl | hb
    · exact ha
    · exact h xs rfl b hb

/-! ### index arithmetic -/

theorem shl_eq {P : Bt4Params} (hok : P.ok) (x : Nat) : shl P x = 2 * x := by
  unfold shl; rw [ok_shl hok, Nat.shiftLeft_eq]; omega

theorem pairOf_lt {P : Bt4Params} (hok : P.ok) (k : Ctx) (delta : Nat) (hc : k.cyclicPos < k.cs)
    (hd : delta < k.cs) : pairOf P k delta + 1 < 2 * k.cs := by
  unfold pairOf
  rw [shl_eq hok, ok_pairSel hok]
  show 2 * (k.cyclicPos + (if geOrGt false delta k.cyclicPos = true then k.cs else 0) - delta) + 1 < _
  rw [geOrGt_false]
  split
  · rename_i h; rw [decide_eq_true_eq] at h; omega
  · rename_i h; rw [decide_eq_true_eq] at h; omega

theorem treeIdx_ok {P : Bt4Params} {c : Cfg} {data : Array UInt8} (hok : P.ok) {k : Ctx} (hcs : k.cs = cyclicSize P c)
    {i : Nat} (h : i < 2 * k.cs) : AccessOk P c data (.tree i) := by
  show i < cyclicSize P c * P.treeFactor
  have := ok_factor hok
  rw [← hcs]
  calc i < 2 * k.cs := h
    _ = k.cs * 2 := Nat.mul_comm _ _
    _ ≤ k.cs * P.treeFactor := Nat.mul_le_mul_left _ this

theorem terminate_log {P : Bt4Params} {c : Cfg} {data : Array UInt8} {tree : Array Nat} {ptr0 ptr1 : Nat} {lg : Log}
    {r : Array Nat × Log} (h : LogOk P c data lg) (h0 : AccessOk P c data (.tree ptr0))
    (h1 : AccessOk P c data (.tree ptr1)) (hx : terminate tree ptr0 ptr1 lg = r) : LogOk P c data r.2 := by
  subst hx; exact (h.push h0).push h1

theorem relink_log {P : Bt4Params} {c : Cfg} {data : Array UInt8} {tree : Array Nat} {ptr0 ptr1 pair : Nat} {lg : Log}
    {r : Array Nat × Log} (h : LogOk P c data lg) (h0 : AccessOk P c data (.tree ptr0))
    (h1 : AccessOk P c data (.tree ptr1)) (hp : AccessOk P c data (.tree pair))
    (hp1 : AccessOk P c data (.tree (pair + 1))) (hx : relink tree ptr0 ptr1 pair lg = r) :
    LogOk P c data r.2 := by
  subst hx; exact (((h.push hp).push h1).push hp1).push h0

/-- the bytes `get_byte(len, delta)` and `get_byte(len, 0)` -/
theorem byte_ok {P : Bt4Params} {c : Cfg} {data : Array UInt8} (p len delta : Nat) (d2 : delta ≤ p) (d3 : delta ≤ c.dict)
    (hl : p + len < data.size) :
    AccessOk P c data (.byte p len delta) ∧ AccessOk P c data (.byte p len 0) :=
  ⟨⟨by omega, hl, by omega⟩, ⟨by omega, hl, by omega⟩⟩

/-! ### the tree walks -/

theorem findLoop_log {P : Bt4Params} {c : Cfg} {data : Array UInt8} (hok : P.ok) (k : Ctx) {hi : Nat}
    (hk : KFacts P c data k hi) (hcs : k.cs = cyclicSize P c) (hna : k.niceLimit ≤ data.size - k.p)
    (depth : Nat) (tree : Array Nat) (ptr0 ptr1 len0 len1 cur lenBest : Nat) (ms : Array Match) (lg : Log) :
    LogOk P c data lg → TblOk k.cs hi tree → EntryOk k.cs hi cur → ptr0 < 2 * k.cs → ptr1 < 2 * k.cs →
    len0 ≤ k.lenLimit → len1 ≤ k.lenLimit → lenBest < data.size - k.p →
    LogOk P c data (findLoop P data k depth tree ptr0 ptr1 len0 len1 cur lenBest ms lg).2.2 := by
  have hll := hk.lenLim
  fun_induction findLoop P data k depth tree ptr0 ptr1 len0 len1 cur lenBest ms lg with
  | case1 tree ptr0 ptr1 len0 len1 cur lenBest ms lg tree' lg' hx =>
    intro hl _ _ p0 p1 _ _ _
    exact terminate_log hl (treeIdx_ok hok hcs p0) (treeIdx_ok hok hcs p1) hx
  | case2 depth tree ptr0 ptr1 len0 len1 cur lenBest ms lg delta hstop tree' lg' hx =>
    intro hl _ _ p0 p1 _ _ _
    exact terminate_log hl (treeIdx_ok hok hcs p0) (treeIdx_ok hok hcs p1) hx
  | case3 depth tree ptr0 ptr1 len0 len1 cur lenBest ms lg delta hstop pair len lg1 hit ms1 hnice tree' lg' hx =>
    intro hl ht hc p0 p1 h0 h1 hb
    rw [ok_stop hok, geOrGt_true, decide_eq_true_eq] at hstop
    obtain ⟨d1, d2, d3⟩ := delta_of_entry hk.toKCore hc (by omega)
    have hpair := pairOf_lt hok k delta hk.cyc (by omega)
    have hl1 : LogOk P c data lg1 := hl.push (a := .extend k.p (min len0 len1) delta k.lenLimit)
      ⟨by omega, by omega, by omega, d3⟩
    exact relink_log hl1 (treeIdx_ok hok hcs p0) (treeIdx_ok hok hcs p1)
      (treeIdx_ok hok hcs (show pair < _ by omega)) (treeIdx_ok hok hcs hpair) hx
  | case4 depth tree ptr0 ptr1 len0 len1 cur lenBest ms lg delta hstop pair len lg1 hit ms1 hnice lenBest1 lg2 hlt
      tree1 lg3 ih =>
    intro hl ht hc p0 p1 h0 h1 hb
    rw [ok_stop hok, geOrGt_true, decide_eq_true_eq] at hstop
    obtain ⟨d1, d2, d3⟩ := delta_of_entry hk.toKCore hc (by omega)
    have hpair := pairOf_lt hok k delta hk.cyc (by omega)
    have hlen : len ≤ k.lenLimit := extendMatch_le _ _ _ _ _ (by omega)
    have hl1 : LogOk P c data lg1 := hl.push (a := .extend k.p (min len0 len1) delta k.lenLimit)
      ⟨by omega, by omega, by omega, d3⟩
    have hb1 : lenBest1 < data.size - k.p ∧ len < data.size - k.p := by
      by_cases hhit : hit = true
      · have hn : ¬ len ≥ k.niceLimit := by
          intro hge; apply hnice
          simp only [hhit, ok_nice hok, geOrGt_true, Bool.true_and, decide_eq_true_eq]; exact hge
        simp only [lenBest1, hhit, if_true]; omega
      · have : ¬ lenBest < len := by
          intro h'; apply hhit; simp only [hit, ok_best hok, ltOrLe_true, decide_eq_true_eq]; exact h'
        simp only [lenBest1, hhit, Bool.false_eq_true, if_false]; omega
    have hby := byte_ok (P := P) (c := c) (data := data) k.p len delta d2 d3 (by omega)
    have hl2 : LogOk P c data lg2 := (hl1.push hby.1).push hby.2
    have hl3 : LogOk P c data lg3 := (hl2.push (treeIdx_ok hok hcs p1)).push (treeIdx_ok hok hcs hpair)
    have ht1 : TblOk k.cs hi tree1 := ht.set ptr1 cur hc
    exact ih hl3 ht1 (ht1 _) p0 hpair h0 hlen hb1.1
  | case5 depth tree ptr0 ptr1 len0 len1 cur lenBest ms lg delta hstop pair len lg1 hit ms1 hnice lenBest1 lg2 hlt
      tree1 lg3 ih =>
    intro hl ht hc p0 p1 h0 h1 hb
    rw [ok_stop hok, geOrGt_true, decide_eq_true_eq] at hstop
    obtain ⟨d1, d2, d3⟩ := delta_of_entry hk.toKCore hc (by omega)
    have hpair := pairOf_lt hok k delta hk.cyc (by omega)
    have hlen : len ≤ k.lenLimit := extendMatch_le _ _ _ _ _ (by omega)
    have hl1 : LogOk P c data lg1 := hl.push (a := .extend k.p (min len0 len1) delta k.lenLimit)
      ⟨by omega, by omega, by omega, d3⟩
    have hb1 : lenBest1 < data.size - k.p ∧ len < data.size - k.p := by
      by_cases hhit : hit = true
      · have hn : ¬ len ≥ k.niceLimit := by
          intro hge; apply hnice
          simp only [hhit, ok_nice hok, geOrGt_true, Bool.true_and, decide_eq_true_eq]; exact hge
        simp only [lenBest1, hhit, if_true]; omega
      · have : ¬ lenBest < len := by
          intro h'; apply hhit; simp only [hit, ok_best hok, ltOrLe_true, decide_eq_true_eq]; exact h'
        simp only [lenBest1, hhit, Bool.false_eq_true, if_false]; omega
    have hby := byte_ok (P := P) (c := c) (data := data) k.p len delta d2 d3 (by omega)
    have hl2 : LogOk P c data lg2 := (hl1.push hby.1).push hby.2
    have hl3 : LogOk P c data lg3 :=
      (hl2.push (treeIdx_ok hok hcs p0)).push (treeIdx_ok hok hcs (show pair < _ by omega))
    have ht1 : TblOk k.cs hi tree1 := ht.set ptr0 cur hc
    exact ih hl3 ht1 (ht1 _) (by omega) p1 hlen h1 hb1.1

/-- the inner loop of the private skip: with `len < nice_len_limit` the fuel never runs out, every
    byte read lies below `nice_len_limit`, and the result is `< nice_len_limit` unless it was hit -/
theorem skipInner_log {P : Bt4Params} {c : Cfg} {data : Array UInt8} (p delta niceLimit : Nat)
    (d2 : delta ≤ p) (d3 : delta ≤ c.dict) (hna : p + niceLimit ≤ data.size)
    (fuel len : Nat) (lg : Log) :
    LogOk P c data lg → len < niceLimit → niceLimit ≤ fuel + len →
    LogOk P c data (skipInner data p delta niceLimit fuel len lg).2.2 ∧
    ((skipInner data p delta niceLimit fuel len lg).2.1 = false →
      (skipInner data p delta niceLimit fuel len lg).1 < niceLimit) := by
  fun_induction skipInner data p delta niceLimit fuel len lg with
  | case1 len lg => intro _ h1 h2; omega
  | case2 fuel len lg len1 heq => intro hl _ _; exact ⟨hl, fun h => by simp at h⟩
  | case3 fuel len lg len1 hne lg1 hby =>
    intro hl h1 h2
    have hb := byte_ok (P := P) (c := c) (data := data) p len1 delta d2 d3 (by omega)
    exact ⟨(hl.push hb.1).push hb.2, fun _ => by omega⟩
  | case4 fuel len lg len1 hne lg1 hby ih =>
    intro hl h1 h2
    have hb := byte_ok (P := P) (c := c) (data := data) p len1 delta d2 d3 (by omega)
    exact ih ((hl.push hb.1).push hb.2) (by omega) (by omega)

/-- the first comparison + inner loop of one private-skip iteration -/
theorem skipStep_log {P : Bt4Params} {c : Cfg} {data : Array UInt8} (p delta niceLimit len0 : Nat)
    (d2 : delta ≤ p) (d3 : delta ≤ c.dict) (hna : p + niceLimit ≤ data.size) (lg : Log) {len : Nat} {nice : Bool}
    {lg2 : Log} (hl : LogOk P c data lg) (h0 : len0 < niceLimit)
    (hx : (if byteAt data (p + len0 - delta) = byteAt data (p + len0) then
        skipInner data p delta niceLimit niceLimit len0 lg else (len0, false, lg)) = (len, nice, lg2)) :
    LogOk P c data lg2 ∧ (nice = false → len < niceLimit) := by
  split at hx
  · have := skipInner_log (P := P) (c := c) p delta niceLimit d2 d3 hna niceLimit len0 lg hl h0 (by omega)
    rw [hx] at this; exact this
  · simp only [Prod.mk.injEq] at hx
    obtain ⟨rfl, rfl, rfl⟩ := hx
    exact ⟨hl, fun _ => h0⟩

theorem skipLoop_log {P : Bt4Params} {c : Cfg} {data : Array UInt8} (hok : P.ok) (k : Ctx) {hi : Nat}
    (hk : KCore P c data k hi) (hcs : k.cs = cyclicSize P c) (hna : k.niceLimit ≤ data.size - k.p)
    (depth : Nat) (tree : Array Nat) (ptr0 ptr1 len0 len1 cur : Nat) (lg : Log) :
    LogOk P c data lg → TblOk k.cs hi tree → EntryOk k.cs hi cur → ptr0 < 2 * k.cs → ptr1 < 2 * k.cs →
    len0 < k.niceLimit → len1 < k.niceLimit →
    LogOk P c data (skipLoop P data k depth tree ptr0 ptr1 len0 len1 cur lg).2 := by
  have hin := hk.inData
  fun_induction skipLoop P data k depth tree ptr0 ptr1 len0 len1 cur lg with
  | case1 tree ptr0 ptr1 len0 len1 cur lg =>
    intro hl _ _ p0 p1 _ _
    exact terminate_log hl (treeIdx_ok hok hcs p0) (treeIdx_ok hok hcs p1) rfl
  | case2 depth tree ptr0 ptr1 len0 len1 cur lg delta hstop =>
    intro hl _ _ p0 p1 _ _
    exact terminate_log hl (treeIdx_ok hok hcs p0) (treeIdx_ok hok hcs p1) rfl
  | case3 depth tree ptr0 ptr1 len0 len1 cur lg delta hstop pair len0' lg1 len lg2 hx =>
    intro hl ht hc p0 p1 h0 h1
    rw [ok_stop hok, geOrGt_true, decide_eq_true_eq] at hstop
    obtain ⟨d1, d2, d3⟩ := delta_of_entry hk hc (by omega)
    have hpair := pairOf_lt hok k delta hk.cyc (by omega)
    have hby := byte_ok (P := P) (c := c) (data := data) k.p len0' delta d2 d3 (by omega)
    have hl1 : LogOk P c data lg1 := (hl.push hby.1).push hby.2
    have hs := skipStep_log k.p delta k.niceLimit len0' d2 d3 (by omega) lg1 hl1 (by omega) hx
    exact relink_log hs.1 (treeIdx_ok hok hcs p0) (treeIdx_ok hok hcs p1)
      (treeIdx_ok hok hcs (show pair < _ by omega)) (treeIdx_ok hok hcs hpair) rfl
  | case4 depth tree ptr0 ptr1 len0 len1 cur lg delta hstop pair len0' lg1 len nice lg2 hx hnice lg3 hlt tree1 lg4 ih =>
    intro hl ht hc p0 p1 h0 h1
    rw [ok_stop hok, geOrGt_true, decide_eq_true_eq] at hstop
    obtain ⟨d1, d2, d3⟩ := delta_of_entry hk hc (by omega)
    have hpair := pairOf_lt hok k delta hk.cyc (by omega)
    have hby := byte_ok (P := P) (c := c) (data := data) k.p len0' delta d2 d3 (by omega)
    have hl1 : LogOk P c data lg1 := (hl.push hby.1).push hby.2
    have hs := skipStep_log k.p delta k.niceLimit len0' d2 d3 (by omega) lg1 hl1 (by omega) hx
    have hlen : len < k.niceLimit := hs.2 (by simpa using hnice)
    have hby2 := byte_ok (P := P) (c := c) (data := data) k.p len delta d2 d3 (by omega)
    have hl3 : LogOk P c data lg3 := (hs.1.push hby2.1).push hby2.2
    have hl4 : LogOk P c data lg4 := (hl3.push (treeIdx_ok hok hcs p1)).push (treeIdx_ok hok hcs hpair)
    have ht1 : TblOk k.cs hi tree1 := ht.set ptr1 cur hc
    exact ih hl4 ht1 (ht1 _) p0 hpair h0 hlen
  | case5 depth tree ptr0 ptr1 len0 len1 cur lg delta hstop pair len0' lg1 len nice lg2 hx hnice lg3 hlt tree1 lg4 ih =>
    intro hl ht hc p0 p1 h0 h1
    rw [ok_stop hok, geOrGt_true, decide_eq_true_eq] at hstop
    obtain ⟨d1, d2, d3⟩ := delta_of_entry hk hc (by omega)
    have hpair := pairOf_lt hok k delta hk.cyc (by omega)
    have hby := byte_ok (P := P) (c := c) (data := data) k.p len0' delta d2 d3 (by omega)
    have hl1 : LogOk P c data lg1 := (hl.push hby.1).push hby.2
    have hs := skipStep_log k.p delta k.niceLimit len0' d2 d3 (by omega) lg1 hl1 (by omega) hx
    have hlen : len < k.niceLimit := hs.2 (by simpa using hnice)
    have hby2 := byte_ok (P := P) (c := c) (data := data) k.p len delta d2 d3 (by omega)
    have hl3 : LogOk P c data lg3 := (hs.1.push hby2.1).push hby2.2
    have hl4 : LogOk P c data lg4 :=
      (hl3.push (treeIdx_ok hok hcs p0)).push (treeIdx_ok hok hcs (show pair < _ by omega))
    have ht1 : TblOk k.cs hi tree1 := ht.set ptr0 cur hc
    exact ih hl4 ht1 (ht1 _) (by omega) p1 hlen h1

/-! ### the hash stage and the candidates -/

theorem hash4Size_pos (H : HashParams) (d : Nat) : 0 < hash4Size H d := by
  unfold hash4Size; exact Nat.succ_pos _

theorem hashIdx_lt {P : Bt4Params} (hok : P.ok) (c : Cfg) (data : Array UInt8) (p : Nat) :
    (hashesAt P c data p).h2 < P.hash.hash2Size ∧ (hashesAt P c data p).h3 < P.hash.hash3Size ∧
    (hashesAt P c data p).h4 < hash4Size P.hash c.dict := by
  have h2 := (ok_hash2 hok).1
  have h3 := (ok_hash3 hok).1
  have h4 := hash4Size_pos P.hash c.dict
  unfold hashesAt calcHashes
  refine ⟨?_, ?_, ?_⟩
  · exact Nat.lt_of_le_of_lt Nat.and_le_right (by omega)
  · exact Nat.lt_of_le_of_lt Nat.and_le_right (by omega)
  · exact Nat.lt_of_le_of_lt Nat.and_le_right (by omega)

theorem hashStage_log {P : Bt4Params} {c : Cfg} {data : Array UInt8} (hok : P.ok) {s : St}
    (hl : LogOk P c data s.log) (hp : s.pos - 1 + 4 ≤ data.size) :
    LogOk P c data (hashStage P c data s).st.log := by
  rw [hashStage_st]
  obtain ⟨i2, i3, i4⟩ := hashIdx_lt hok c data (s.pos - 1)
  have hb : ∀ i, i < 4 → AccessOk P c data (.byte (s.pos - 1) i 0) := fun i hi => ⟨by omega, by omega, by omega⟩
  have h1 : LogOk P c data (logHashReads s.log (s.pos - 1)) := by
    unfold logHashReads
    exact (((hl.push (hb 0 (by omega))).push (hb 1 (by omega))).push (hb 2 (by omega))).push (hb 3 (by omega))
  exact ((h1.push (a := .h2 _) i2).push (a := .h3 _) i3).push (a := .h4 _) i4

theorem hashCands_log_eq (P : Bt4Params) (data : Array UInt8) (p cs d2 d3 : Nat) (lg : Log) :
    (hashCands P data p cs d2 d3 lg).log =
      (if (d2 != d3 && ltOrLe P.d3Strict d3 cs) = true then
        ((if ltOrLe P.d2Strict d2 cs = true then (lg.push (.byte p 0 d2)).push (.byte p 0 0) else lg).push
          (.byte p 0 d3)).push (.byte p 0 0)
       else (if ltOrLe P.d2Strict d2 cs = true then (lg.push (.byte p 0 d2)).push (.byte p 0 0) else lg)) := by
  unfold hashCands
  simp only [apply_ite Cands.log, ite_self]

theorem hashCands_log {P : Bt4Params} {c : Cfg} {data : Array UInt8} (hok : P.ok) (p cs d2 d3 : Nat) (lg : Log)
    (hl : LogOk P c data lg) (h0 : AccessOk P c data (.byte p 0 0))
    (h2 : d2 < cs → AccessOk P c data (.byte p 0 d2)) (h3 : d3 < cs → AccessOk P c data (.byte p 0 d3)) :
    LogOk P c data (hashCands P data p cs d2 d3 lg).log := by
  rw [hashCands_log_eq, ok_d2 hok, ok_d3 hok]
  simp only [ltOrLe_true, Bool.and_eq_true, decide_eq_true_eq]
  have hl2 : LogOk P c data (if d2 < cs then (lg.push (.byte p 0 d2)).push (.byte p 0 0) else lg) := by
    split
    · rename_i h; exact (hl.push (h2 h)).push h0
    · exact hl
  split
  · rename_i h; exact (hl2.push (h3 h.2)).push h0
  · exact hl2

theorem extendCands_log {P : Bt4Params} {c : Cfg} {data : Array UInt8} (p lim : Nat) (cd : Cands)
    (hl : LogOk P c data cd.log) (h : cd.ms.size > 0 → AccessOk P c data (.extend p cd.lenBest cd.delta2 lim)) :
    LogOk P c data (extendCands data p lim cd).log := by
  unfold extendCands
  split
  · rename_i hs; exact hl.push (h hs)
  · exact hl

/-! ### one step -/

theorem step_core {P : Bt4Params} {c : Cfg} {data : Array UInt8} (hH : Hyp P c data) {s : St}
    (hI : Inv P c data s) (hp : ¬ pending P c data s.pos) (a b : Nat) :
    KCore P c data (ctxOf P c (stepHs P c data s).st a b) s.lzPos :=
  have h := (stepK_facts hH hI hp).1.toKCore
  ⟨h.lz, h.hi, h.cs, h.cyc, h.inData⟩

theorem avail4 {P : Bt4Params} {c : Cfg} {data : Array UInt8} (hA : HypA P c data) {pos : Nat}
    (hp : ¬ pending P c data pos) : pos + 4 ≤ data.size ∧ P.minAvailFinishing ≤ data.size - pos := by
  have h1 := ok_avail4 hA.ok
  have h2 := hA.niceAvail
  unfold pending at hp
  have : ¬ data.size - pos < P.minAvailFinishing := fun h => hp ⟨by omega, h⟩
  omega

theorem skipTree_log {P : Bt4Params} {c : Cfg} {data : Array UInt8} (hok : P.ok) {s : St} {hi niceLimit cur : Nat}
    (hk : KCore P c data (ctxOf P c s 0 niceLimit) hi) (hl : LogOk P c data s.log)
    (ht : TblOk (cyclicSize P c) hi s.tree) (hc : EntryOk (cyclicSize P c) hi cur) (hn0 : 0 < niceLimit)
    (hna : niceLimit ≤ data.size - (s.pos - 1)) :
    LogOk P c data (skipTree P c data s niceLimit cur).log := by
  rw [skipTree_eq]
  have hcyc : s.cyclicPos < cyclicSize P c := hk.cyc
  exact skipLoop_log hok (ctxOf P c s 0 niceLimit) hk rfl hna (depthLimit P c) s.tree _ _ 0 0 cur s.log hl ht hc
    (by rw [shl_eq hok]; show 2 * s.cyclicPos + 1 < 2 * cyclicSize P c; omega)
    (by rw [shl_eq hok]; show 2 * s.cyclicPos < 2 * cyclicSize P c; omega) hn0 hn0

/-- the invariant together with "every access logged so far was in bounds" -/
def InvL (P : Bt4Params) (c : Cfg) (data : Array UInt8) (s : St) : Prop :=
  Inv P c data s ∧ LogOk P c data s.log

theorem niceLimitOf_le {c : Cfg} (hml : c.niceLen ≤ c.mlmax) (avail : Nat) : niceLimitOf c avail ≤ avail ∨
    (niceLimitOf c avail = c.niceLen ∧ c.niceLen ≤ avail) := by
  unfold niceLimitOf
  split
  · left; exact Nat.le_refl _
  · rename_i h
    by_cases h1 : avail < c.mlmax
    · right; exact ⟨rfl, by have : ¬ c.niceLen > avail := fun h' => h ⟨h1, h'⟩; omega⟩
    · right; exact ⟨rfl, by omega⟩

theorem find_log {P : Bt4Params} {c : Cfg} {data : Array UInt8} (hA : HypA P c data) {s : St}
    (hIL : InvL P c data s) : LogOk P c data (find P c data s).1.log := by
  obtain ⟨hI, hL⟩ := hIL
  have hH := hA.toHyp
  have hok := hH.ok
  by_cases hp : pending P c data s.pos
  · rw [find_pending hH hp]; exact hL
  obtain ⟨hk, hp0⟩ := stepK_facts hH hI hp
  obtain ⟨h1, h2, h3, h4, h5⟩ := step_facts hH hI hp
  obtain ⟨e2, e3, he2, he3, hd2, hd3⟩ := stepHs_deltas hH hI hp
  obtain ⟨ha4, haA⟩ := avail4 hA hp
  have hfl := ok_floor_lt hok
  have hcs : cyclicSize P c = (stepK P c data s).cs := rfl
  have hnl : niceLimitOf c (data.size - s.pos) = (stepK P c data s).niceLimit := rfl
  have hll : lenLimitOf c (data.size - s.pos) = (stepK P c data s).lenLimit := rfl
  have hn3 := hk.nice3
  have hl3 := hk.len3
  have hlenlim := hk.lenLim
  have hna : (stepK P c data s).niceLimit ≤ data.size - (stepK P c data s).p := by
    rw [hp0, ← hnl]
    rcases niceLimitOf_le hA.niceMl (data.size - s.pos) with h | h <;> omega
  -- the log after the hash stage
  have hlHs : LogOk P c data (stepHs P c data s).st.log :=
    hashStage_log hok (s := moved P c s) hL (by rw [moved_pos]; omega)
  -- candidates
  have hbyte : ∀ e, EntryOk (stepK P c data s).cs s.lzPos e →
      (stepK P c data s).lzPos - e < (stepK P c data s).cs →
      AccessOk P c data (.byte (stepK P c data s).p 0 ((stepK P c data s).lzPos - e)) := by
    intro e he hlt
    obtain ⟨d1, d2, d3⟩ := delta_of_entry hk.toKCore he hlt
    exact ⟨by omega, by rw [hp0]; omega, by omega⟩
  have hl0 : LogOk P c data (stepCd0 P c data s).log :=
    hashCands_log hok _ _ _ _ _ hlHs ⟨by omega, by rw [hp0]; omega, by omega⟩
      (by rw [hd2]; exact hbyte e2 he2) (by rw [hd3]; exact hbyte e3 he3)
  have hc0 := hashCands_cases hok data (stepK P c data s).p (stepK P c data s).cs (stepHs P c data s).delta2
    (stepHs P c data s).delta3 (stepHs P c data s).st.log
  have hcd0 : stepCd0 P c data s = hashCands P data (stepK P c data s).p (stepK P c data s).cs
      (stepHs P c data s).delta2 (stepHs P c data s).delta3 (stepHs P c data s).st.log := rfl
  rw [← hcd0] at hc0
  have hext : (stepCd0 P c data s).ms.size > 0 →
      AccessOk P c data (.extend (stepK P c data s).p (stepCd0 P c data s).lenBest (stepCd0 P c data s).delta2
        (lenLimitOf c (data.size - s.pos))) := by
    intro hsz
    rw [hll]
    rcases hc0 with ⟨m0, _, _⟩ | ⟨a, _, _, l0, dd⟩ | ⟨a, _, _, l0, dd⟩ | ⟨_, _, a, _, _, _, l0, dd⟩
    · rw [m0] at hsz; exact absurd hsz (Nat.lt_irrefl 0)
    · rw [l0, dd]; rw [hd2] at a ⊢
      obtain ⟨d1, d2, d3⟩ := delta_of_entry hk.toKCore he2 a
      exact ⟨by omega, by omega, by rw [hlenlim]; omega, d3⟩
    · rw [l0, dd]; rw [hd3] at a ⊢
      obtain ⟨d1, d2, d3⟩ := delta_of_entry hk.toKCore he3 a
      exact ⟨by omega, by omega, by rw [hlenlim]; omega, d3⟩
    · rw [l0, dd]; rw [hd3] at a ⊢
      obtain ⟨d1, d2, d3⟩ := delta_of_entry hk.toKCore he3 a
      exact ⟨by omega, by omega, by rw [hlenlim]; omega, d3⟩
  have hlCd : LogOk P c data (stepCd P c data s).log := extendCands_log _ _ _ hl0 hext
  rw [find_nonpending hH hp]
  split
  · -- early return through the private skip
    refine skipTree_log hok (hi := s.lzPos) (step_core hH hI hp 0 _) hlCd h1.treeok h5 (by rw [hnl]; omega) ?_
    show niceLimitOf c (data.size - s.pos) ≤ data.size - ((stepHs P c data s).st.pos - 1)
    have : (stepHs P c data s).st.pos - 1 = s.pos := hp0
    rw [this, hnl, ← hp0]; exact hna
  · rename_i hne
    -- `lenBest` stays below `avail`
    have hlb : stepLenBest P c data s < data.size - (stepK P c data s).p := by
      rw [hp0]
      have hlbe : stepLenBest P c data s =
        (if (stepCd P c data s).lenBest < P.lenBestFloor then P.lenBestFloor else (stepCd P c data s).lenBest) := rfl
      rw [hlbe]
      split
      · omega
      · have hcases := extendCands_cases hok data (stepK P c data s).p (stepK P c data s).cs
          (stepHs P c data s).delta2 (stepHs P c data s).delta3 (lenLimitOf c (data.size - s.pos))
          (stepHs P c data s).st.log
        have hcd : stepCd P c data s = extendCands data (stepK P c data s).p (lenLimitOf c (data.size - s.pos))
            (hashCands P data (stepK P c data s).p (stepK P c data s).cs (stepHs P c data s).delta2
              (stepHs P c data s).delta3 (stepHs P c data s).st.log) := rfl
        rw [← hcd] at hcases
        have hsz : (stepCd P c data s).ms.size > 0 → (stepCd P c data s).lenBest < data.size - s.pos := by
          intro hsz
          have : ¬ geOrGt P.niceStopGe (stepCd P c data s).lenBest (niceLimitOf c (data.size - s.pos)) = true :=
            fun h' => hne ⟨hsz, h'⟩
          rw [ok_nice hok, geOrGt_true, decide_eq_true_eq] at this
          rw [hp0] at hna; omega
        rcases hcases with ⟨_, l0⟩ | ⟨_, _, m0, _⟩ | ⟨_, _, m0, _⟩ | ⟨_, _, _, _, _, m0, _⟩
        · omega
        · exact hsz (by rw [m0]; exact Nat.zero_lt_one)
        · exact hsz (by rw [m0]; exact Nat.zero_lt_one)
        · exact hsz (by rw [m0]; exact Nat.zero_lt_succ 1)
    have hcyc : (stepHs P c data s).st.cyclicPos < (stepK P c data s).cs := h1.cyc
    exact findLoop_log hok (stepK P c data s) hk rfl hna (depthLimit P c) _ _ _ 0 0 _ _ _ _ hlCd
      (by rw [← hcs]; exact h1.treeok) (by rw [← hcs]; exact h5)
      (by rw [shl_eq hok]; omega) (by rw [shl_eq hok]; omega) (Nat.zero_le _) (Nat.zero_le _) hlb

theorem find_invL {P : Bt4Params} {c : Cfg} {data : Array UInt8} (hA : HypA P c data) {s : St}
    (h : InvL P c data s) : InvL P c data (find P c data s).1 :=
  ⟨find_inv hA.toHyp h.1, find_log hA h⟩

theorem skipOne_log {P : Bt4Params} {c : Cfg} {data : Array UInt8} (hA : HypA P c data) {s : St}
    (hIL : InvL P c data s) : LogOk P c data (skipOne P c data s).log := by
  obtain ⟨hI, hL⟩ := hIL
  have hH := hA.toHyp
  have hok := hH.ok
  rw [skipOne_eq]
  have hml := hH.nice
  rcases movePos_cases hH s with ⟨hp, hmv⟩ | ⟨hp, h3, hmv⟩
  · simp only [hmv]
    rw [if_pos ⟨by omega, trivial⟩]
    exact hL
  · simp only [hmv]
    rw [if_neg (by omega)]
    obtain ⟨h1, h2, h3', h4, h5⟩ := step_facts hH hI hp
    obtain ⟨ha4, haA⟩ := avail4 hA hp
    have hlHs : LogOk P c data (stepHs P c data s).st.log :=
      hashStage_log hok (s := moved P c s) hL (by rw [moved_pos]; omega)
    refine skipTree_log hok (hi := s.lzPos) (step_core hH hI hp 0 _) hlHs h1.treeok h5 (by split <;> omega) ?_
    have : (hashStage P c data (moved P c s)).st.pos - 1 = s.pos := by rw [h3']; rfl
    rw [this]
    split <;> omega

theorem skipOne_invL {P : Bt4Params} {c : Cfg} {data : Array UInt8} (hA : HypA P c data) {s : St}
    (h : InvL P c data s) : InvL P c data (skipOne P c data s) :=
  ⟨skipOne_inv hA.toHyp h.1, skipOne_log hA h⟩

theorem skip_invL {P : Bt4Params} {c : Cfg} {data : Array UInt8} (hA : HypA P c data) (n : Nat) :
    ∀ {s : St}, InvL P c data s → InvL P c data (skip P c data n s) := by
  induction n with
  | zero => intro s h; exact h
  | succ n ih => intro s h; exact ih (skipOne_invL hA h)

theorem runOp_invL {P : Bt4Params} {c : Cfg} {data : Array UInt8} (hA : HypA P c data) (op : Nat) {s : St}
    (tr : Array (Nat × List Match)) (h : InvL P c data s) : InvL P c data (runOp P c data op s tr).1 := by
  unfold runOp
  split
  · exact find_invL hA h
  · exact skip_invL hA op h

theorem runOps_invL {P : Bt4Params} {c : Cfg} {data : Array UInt8} (hA : HypA P c data) (ops : List Nat) :
    ∀ {s : St} (tr : Array (Nat × List Match)), InvL P c data s → InvL P c data (runOps P c data ops s tr).1 := by
  induction ops with
  | nil => intro s tr h; exact h
  | cons op rest ih =>
    intro s tr h
    unfold runOps
    split
    · exact h
    · exact ih _ (runOp_invL hA op tr h)

theorem init_invL {P : Bt4Params} {c : Cfg} {data : Array UInt8} (hA : HypA P c data) (lg : Bool) :
    InvL P c data (init P c lg) := by
  refine ⟨init_inv hA.toHyp lg, ?_⟩
  intro l hl a ha
  cases lg
  · simp [init] at hl
  · simp only [init, if_true, Option.some.injEq] at hl
    subst hl; simp at ha

/-- (B4) with logging switched on, every access recorded during any script — hash-table slots,
    `tree[ptr0]`, `tree[ptr1]`, `tree[pair]`, `tree[pair+1]`, single bytes, `extend_match` slices — is in bounds -/
theorem runScript_log {P : Bt4Params} {c : Cfg} {data : Array UInt8} (hA : HypA P c data) (script : List Nat) :
    ∀ l, (runScript P c data script true).1.log = some l → ∀ a ∈ l, AccessOk P c data a :=
  (runOps_invL hA script #[] (init_invL hA true)).2

end LzmaVerif.Mf.Bt4
