/-
  (B5, foundations) the order the BT4 tree is sorted by, and reachability in the cyclic tree array.

  * `LeN d n a b`: the suffix of `d` at `a` is at most the suffix at `b` in the lexicographic order TRUNCATED
    to `n` bytes (a preorder; two suffixes that agree on `n` bytes are equivalent).  The tree of bt4.rs is only
    sorted up to the `nice_len_limit` in force at the node (nodes that agree with the new string on
    `nice_len_limit` bytes are replaced, bt4.rs:112-116 / :259-263), so the invariant uses this order.
  * `Reach cs T lo hi v x`: node `x` is reachable from node `v` through the child slots of the array `T`,
    following only nodes `v'` with `lo < v' ≤ hi` (the check `delta >= cyclic_size` of bt4.rs:92 / :231 ends the
    descent at anything older).  Nodes are named by their `lz_pos` value, the slot pair of node `v` is
    `sl cs v = 2 * ((v - 1) % cs)`.
-/
import LzmaVerif.Proofs.Bt4Base
namespace LzmaVerif.Mf.Bt4

/-! ### truncated lexicographic order -/

def EqN (d : Array UInt8) (n a b : Nat) : Prop := ∀ i, i < n → byteAt d (a + i) = byteAt d (b + i)

def LeN (d : Array UInt8) (n a b : Nat) : Prop :=
  EqN d n a b ∨ ∃ j, j < n ∧ EqN d j a b ∧ byteAt d (a + j) < byteAt d (b + j)

theorem EqN.symm {d : Array UInt8} {n a b : Nat} (h : EqN d n a b) : EqN d n b a :=
  fun i hi => (h i hi).symm

theorem EqN.mono {d : Array UInt8} {n m a b : Nat} (h : EqN d n a b) (hm : m ≤ n) : EqN d m a b :=
  fun i hi => h i (by omega)

theorem EqN.trans {d : Array UInt8} {n a b c : Nat} (h1 : EqN d n a b) (h2 : EqN d n b c) : EqN d n a c :=
  fun i hi => (h1 i hi).trans (h2 i hi)

theorem EqN.zero (d : Array UInt8) (a b : Nat) : EqN d 0 a b := fun _ hi => absurd hi (Nat.not_lt_zero _)

theorem LeN.of_eq {d : Array UInt8} {n a b : Nat} (h : EqN d n a b) : LeN d n a b := Or.inl h

theorem LeN.zero (d : Array UInt8) (a b : Nat) : LeN d 0 a b := Or.inl (EqN.zero d a b)

/-- a strict difference after `j` equal bytes decides the order for every truncation -/
theorem LeN.of_lt {d : Array UInt8} {j a b : Nat} (n : Nat) (h : EqN d j a b)
    (hlt : byteAt d (a + j) < byteAt d (b + j)) : LeN d n a b := by
  by_cases hj : j < n
  · exact Or.inr ⟨j, hj, h, hlt⟩
  · exact Or.inl (h.mono (by omega))

theorem LeN.mono {d : Array UInt8} {n m a b : Nat} (h : LeN d n a b) (hm : m ≤ n) : LeN d m a b := by
  rcases h with h | ⟨j, hj, he, hlt⟩
  · exact Or.inl (h.mono hm)
  · exact LeN.of_lt m he hlt

theorem LeN.trans {d : Array UInt8} {n a b c : Nat} (h1 : LeN d n a b) (h2 : LeN d n b c) : LeN d n a c := by
  rcases h1 with h1 | ⟨j1, hj1, e1, l1⟩
  · rcases h2 with h2 | ⟨j2, hj2, e2, l2⟩
    · exact Or.inl (h1.trans h2)
    · refine Or.inr ⟨j2, hj2, (h1.mono (by omega)).trans e2, ?_⟩
      rw [h1 j2 hj2]; exact l2
  · rcases h2 with h2 | ⟨j2, hj2, e2, l2⟩
    · refine Or.inr ⟨j1, hj1, e1.trans (h2.mono (by omega)), ?_⟩
      rw [← h2 j1 hj1]; exact l1
    · rcases Nat.lt_trichotomy j1 j2 with h | h | h
      · refine Or.inr ⟨j1, hj1, e1.trans (e2.mono (by omega)), ?_⟩
        rw [← e2 j1 h]; exact l1
      · subst h
        exact Or.inr ⟨j1, hj1, e1.trans e2, Nat.lt_trans l1 l2⟩
      · refine Or.inr ⟨j2, hj2, (e1.mono (by omega)).trans e2, ?_⟩
        rw [e1 j2 h]; exact l2

theorem LeN.antisymm {d : Array UInt8} {n a b : Nat} (h1 : LeN d n a b) (h2 : LeN d n b a) : EqN d n a b := by
  rcases h1 with h1 | ⟨j1, hj1, e1, l1⟩
  · exact h1
  · rcases h2 with h2 | ⟨j2, hj2, e2, l2⟩
    · have := h2 j1 hj1; omega
    · rcases Nat.lt_trichotomy j1 j2 with h | h | h
      · have := e2 j1 h; omega
      · subst h; omega
      · have := e1 j2 h; omega

/-! ### slots -/

/-- the first of the two child slots of node `v` (`tree[sl]` = smaller side, `tree[sl + 1]` = larger side) -/
def sl (cs v : Nat) : Nat := 2 * ((v - 1) % cs)

theorem mod_ne_of_close {cs a b : Nat} (hab : a < b) (hd : b - a < cs) : a % cs ≠ b % cs := by
  intro h
  have h1 : (b - a) % cs = 0 := Nat.sub_mod_eq_zero_of_mod_eq h.symm
  rw [Nat.mod_eq_of_lt hd] at h1
  omega

/-- two different nodes less than `cs` apart have disjoint slot pairs -/
theorem sl_disjoint {cs v w : Nat} (hv : 1 ≤ v) (hw : 1 ≤ w) (hne : v ≠ w) (hd : v - w < cs) (hd' : w - v < cs) :
    sl cs v ≠ sl cs w ∧ sl cs v ≠ sl cs w + 1 ∧ sl cs v + 1 ≠ sl cs w ∧ sl cs v + 1 ≠ sl cs w + 1 := by
  have hm : (v - 1) % cs ≠ (w - 1) % cs := by
    rcases Nat.lt_or_gt_of_ne hne with h | h
    · exact mod_ne_of_close (by omega) (by omega)
    · exact fun e => mod_ne_of_close (a := w - 1) (b := v - 1) (by omega) (by omega) e.symm
  unfold sl
  omega

/-! ### reachability -/

inductive Reach (cs : Nat) (T : Array Nat) (lo hi : Nat) : Nat → Nat → Prop
  | refl {v : Nat} : lo < v → v ≤ hi → Reach cs T lo hi v v
  | left {v x : Nat} : lo < v → v ≤ hi → Reach cs T lo hi (T.getD (sl cs v) 0) x → Reach cs T lo hi v x
  | right {v x : Nat} : lo < v → v ≤ hi → Reach cs T lo hi (T.getD (sl cs v + 1) 0) x → Reach cs T lo hi v x

theorem Reach.inWin {cs : Nat} {T : Array Nat} {lo hi v x : Nat} (h : Reach cs T lo hi v x) : lo < v ∧ v ≤ hi := by
  cases h with
  | refl a b => exact ⟨a, b⟩
  | left a b _ => exact ⟨a, b⟩
  | right a b _ => exact ⟨a, b⟩

theorem Reach.target {cs : Nat} {T : Array Nat} {lo hi v x : Nat} (h : Reach cs T lo hi v x) : lo < x ∧ x ≤ hi := by
  induction h with
  | refl a b => exact ⟨a, b⟩
  | left _ _ _ ih => exact ih
  | right _ _ _ ih => exact ih

/-- raising the lower end of the window (slots of nodes that left it are recycled) only removes paths -/
theorem Reach.lo_mono {cs : Nat} {T : Array Nat} {lo lo' hi v x : Nat} (hl : lo ≤ lo')
    (h : Reach cs T lo' hi v x) : Reach cs T lo hi v x := by
  induction h with
  | refl a b => exact Reach.refl (by omega) b
  | left a b _ ih => exact Reach.left (by omega) b ih
  | right a b _ ih => exact Reach.right (by omega) b ih

/-- when no entry exceeds `hi`, allowing one more node at the top adds nothing below it -/
theorem Reach.hi_drop {cs : Nat} {T : Array Nat} {lo hi v x : Nat} (ht : ∀ i, T.getD i 0 ≤ hi) (hv : v ≤ hi)
    (h : Reach cs T lo (hi + 1) v x) : Reach cs T lo hi v x := by
  induction h with
  | refl a b => exact Reach.refl a hv
  | left a b _ ih => exact Reach.left a hv (ih (ht _))
  | right a b _ ih => exact Reach.right a hv (ih (ht _))

/-- **shrinking**: if, at every slot of a live node, what `F` stores reaches (in `T`) only what `T` stored there
    reaches, then every path of `F` is a path of `T` -/
theorem Reach.shrink {cs : Nat} {T F : Array Nat} {lo hi : Nat}
    (hs : ∀ v, lo < v → v ≤ hi →
      (∀ x, Reach cs T lo hi (F.getD (sl cs v) 0) x → Reach cs T lo hi (T.getD (sl cs v) 0) x) ∧
      (∀ x, Reach cs T lo hi (F.getD (sl cs v + 1) 0) x → Reach cs T lo hi (T.getD (sl cs v + 1) 0) x))
    {v x : Nat} (h : Reach cs F lo hi v x) : Reach cs T lo hi v x := by
  induction h with
  | refl a b => exact Reach.refl a b
  | left a b _ ih => exact Reach.left a b ((hs _ a b).1 _ ih)
  | right a b _ ih => exact Reach.right a b ((hs _ a b).2 _ ih)

theorem Reach.not_low {cs : Nat} {T : Array Nat} {lo hi v x : Nat} (hv : v ≤ lo) : ¬ Reach cs T lo hi v x :=
  fun h => by have := h.inWin; omega

/-- what a slot reaches -/
def RS (cs : Nat) (T : Array Nat) (lo hi σ x : Nat) : Prop := Reach cs T lo hi (T.getD σ 0) x

end LzmaVerif.Mf.Bt4
