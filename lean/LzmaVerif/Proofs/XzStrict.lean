import LzmaVerif.Model.XzStrict
import LzmaVerif.Proofs.XzForged
/-!
# Interoperability: everything the XZ writer model emits is accepted by the strict decoder
-/
namespace LzmaVerif.XzStrict
open LzmaVerif Lzma Checks Xz

/-! ## Length bookkeeping of the lax parsers (needed for the alignment invariant of S2) -/

theorem lzma2_consumed_le (dict : Nat) (pre : Array Nat) (inp : List Nat) (cap : Nat) (r : Lzma2.DecOk)
    (h : Lzma2.decode dict pre inp cap = .ok r) : r.consumed ≤ inp.length := by
  unfold Lzma2.decode at h
  split at h
  · injection h with h; subst h; simp only; omega
  · cases h
  · cases h

/-- the block body depends on the number of bytes consumed before only modulo 4 -/
theorem decodeBlockBody_cb (chk : Check) (h : BlockHeader) (cb cb' : Nat) (inp : List Nat) (cap : Nat)
    (hm : cb % 4 = cb' % 4) : decodeBlockBody chk h cb inp cap = decodeBlockBody chk h cb' inp cap := by
  have e : ∀ x, (4 - (cb + x) % 4) % 4 = (4 - (cb' + x) % 4) % 4 := by intro x; omega
  unfold decodeBlockBody
  simp only [e]

theorem decodeBlockBody_len (chk : Check) (h : BlockHeader) (cb : Nat) (inp : List Nat) (cap : Nat)
    (blk : Block) (rest : List Nat) (hd : decodeBlockBody chk h cb inp cap = .ok blk rest) :
    rest.length ≤ inp.length ∧ (cb + (inp.length - rest.length)) % 4 = 0 ∧ blk.header = h := by
  unfold decodeBlockBody at hd
  split at hd
  · cases hd
  · split at hd
    · cases hd
    · cases hd
    · rename_i r hr
      have hc := lzma2_consumed_le _ _ _ _ _ hr
      simp only [] at hd
      split at hd
      · cases hd
      · rename_i pad rest1 hT
        split at hd
        · cases hd
        · split at hd
          · cases hd
          · rename_i stored rest2 hT2
            split at hd
            · cases hd
            · split at hd
              · cases hd
              · split at hd
                · cases hd
                · injection hd with h1 h2
                  rw [← h2, ← h1]
                  obtain ⟨e1, l1⟩ := takeN_ok hT
                  obtain ⟨e2, l2⟩ := takeN_ok hT2
                  have hl : inp.length = r.consumed + (pad.length + (stored.length + rest2.length)) := by
                    have := congrArg List.length (List.take_append_drop r.consumed inp)
                    rw [List.length_append, e1, List.length_append, e2, List.length_append, List.length_take] at this
                    omega
                  have := size_mod4 chk
                  refine ⟨by omega, by omega, rfl⟩

theorem parseFlags_len (inp : List Nat) (c : Check) (rest : List Nat) (h : parseFlags inp = .ok (c, rest)) :
    inp.length = 6 + rest.length := by
  unfold parseFlags at h
  simp only [bind, Except.bind] at h
  split at h
  · cases h
  · rename_i v hT
    obtain ⟨flags, inp1⟩ := v
    obtain ⟨e1, l1⟩ := takeN_ok hT
    simp only [] at h
    split at h
    · cases h
    · split at h
      · cases h
      · split at h
        · cases h
        · rename_i v2 hT2
          obtain ⟨crc, inp2⟩ := v2
          obtain ⟨e2, l2⟩ := takeN_ok hT2
          simp only [] at h
          split at h
          · cases h
          · injection h with h
            injection h with h1 h2
            subst h2
            rw [e1, List.length_append, e2, List.length_append]
            omega

theorem parseStreamHeader_len (inp : List Nat) (c : Check) (rest : List Nat)
    (h : parseStreamHeader inp = .ok (c, rest)) : inp.length = 12 + rest.length := by
  unfold parseStreamHeader at h
  simp only [bind, Except.bind] at h
  split at h
  · cases h
  · rename_i v hT
    obtain ⟨magic, inp1⟩ := v
    obtain ⟨e1, l1⟩ := takeN_ok hT
    simp only [] at h
    split at h
    · cases h
    · have := parseFlags_len _ _ _ h
      rw [e1, List.length_append]
      omega

theorem parseFooter_len (inp : List Nat) (bs : Nat) (flags rest : List Nat)
    (h : parseFooter inp = .ok (bs, flags, rest)) : inp.length = 12 + rest.length := by
  unfold parseFooter at h
  simp only [bind, Except.bind] at h
  split at h
  · cases h
  · rename_i v1 hT1
    obtain ⟨a1, i1⟩ := v1
    obtain ⟨e1, l1⟩ := takeN_ok hT1
    simp only [] at h
    split at h
    · cases h
    · rename_i v2 hT2
      obtain ⟨a2, i2⟩ := v2
      obtain ⟨e2, l2⟩ := takeN_ok hT2
      simp only [] at h
      split at h
      · cases h
      · rename_i v3 hT3
        obtain ⟨a3, i3⟩ := v3
        obtain ⟨e3, l3⟩ := takeN_ok hT3
        simp only [] at h
        split at h
        · cases h
        · split at h
          · cases h
          · rename_i v4 hT4
            obtain ⟨a4, i4⟩ := v4
            obtain ⟨e4, l4⟩ := takeN_ok hT4
            simp only [] at h
            split at h
            · cases h
            · injection h with h
              injection h with h1 h2
              injection h2 with h2 h3
              subst h3
              rw [e1, List.length_append, e2, List.length_append, e3, List.length_append, e4, List.length_append]
              omega

theorem nextStream_len : ∀ (fuel : Nat) (inp : List Nat) (z : Nat) (c : Check) (rest : List Nat),
    nextStream fuel inp z = .ok (some (c, rest)) →
    ∃ k, inp.length = k + 12 + rest.length ∧ (z + k) % 4 = 0 := by
  intro fuel
  induction fuel with
  | zero => intro inp z c rest h; simp [nextStream] at h
  | succ fuel ih =>
    intro inp z c rest h
    cases inp with
    | nil =>
      simp only [nextStream] at h
      split at h
      · cases h
      · cases h
    | cons b t =>
      simp only [nextStream] at h
      split at h
      · obtain ⟨k, h1, h2⟩ := ih _ _ _ _ h
        exact ⟨k + 1, by simp only [List.length_cons]; omega, by omega⟩
      · split at h
        · cases h
        · simp only [bind, Except.bind] at h
          split at h
          · cases h
          · split at h
            · cases h
            · split at h
              · cases h
              · rename_i hz
                split at h
                · cases h
                · rename_i v hF
                  obtain ⟨c', rest'⟩ := v
                  injection h with h
                  injection h with h
                  injection h with h1 h2
                  subst h1 h2
                  have hl := parseFlags_len _ _ _ hF
                  rw [List.length_drop] at hl
                  simp only [List.length_cons] at hl ⊢
                  refine ⟨0, ?_, by omega⟩
                  omega

theorem parseBlockHeader_len (inp : List Nat) (h : BlockHeader) (inp' : List Nat)
    (hp : parseBlockHeader inp = .ok (some h, inp')) :
    inp.length = h.size + inp'.length ∧ h.size % 4 = 0 := by
  cases inp with
  | nil => simp [parseBlockHeader] at hp
  | cons sz t =>
    unfold parseBlockHeader at hp
    simp only [] at hp
    split at hp
    · cases hp
    · simp only [bind, Except.bind] at hp
      split at hp
      · cases hp
      · rename_i v hT
        obtain ⟨hd, inp1⟩ := v
        obtain ⟨e1, l1⟩ := takeN_ok hT
        simp only [] at hp
        repeat' (split at hp <;> try cases hp)
        all_goals (subst e1; simp only [List.length_cons, List.length_append]; omega)

/-! ### the `size` the reader computes for an Index is the length of its canonical serialisation -/

theorem parseReaderAux_pos : ∀ (fuel : Nat) (data : List Nat) (shift acc n v k : Nat),
    XzInt.parseReaderAux fuel data shift acc n = .ok v k → n + 1 ≤ k ∧ k ≤ n + data.length := by
  intro fuel
  induction fuel with
  | zero => intro data shift acc n v k h; simp [XzInt.parseReaderAux] at h
  | succ fuel ih =>
    intro data shift acc n v k h
    cases data with
    | nil => simp [XzInt.parseReaderAux] at h
    | cons b bs =>
      simp only [XzInt.parseReaderAux] at h
      split at h
      · cases h
      · split at h
        · injection h with h1 h2
          simp only [List.length_cons]; omega
        · have := ih _ _ _ _ _ _ h
          simp only [List.length_cons]; omega

theorem mbReader_len (inp : List Nat) (v : Nat) (rest : List Nat) (h : mbReader inp = .ok (v, rest)) :
    rest.length < inp.length := by
  unfold mbReader at h
  split at h
  · rename_i v' k hp
    injection h with h
    injection h with h1 h2
    have := parseReaderAux_pos _ _ _ _ _ _ _ hp
    rw [← h2, List.length_drop]
    omega
  · cases h
  · cases h

theorem parseRecords_len : ∀ (fuel n : Nat) (inp : List Nat) (acc recs : List (Nat × Nat)) (rest : List Nat),
    parseRecords fuel n inp acc = .ok (recs, rest) → inp.length < fuel → recs.length = acc.length + n := by
  intro fuel
  induction fuel with
  | zero => intro n inp acc recs rest _ hl; omega
  | succ fuel ih =>
    intro n inp acc recs rest h hl
    simp only [parseRecords] at h
    split at h
    · rename_i hn
      injection h with h
      injection h with h1 h2
      rw [← h1, List.length_reverse, hn]
      rfl
    · rename_i hn
      simp only [bind, Except.bind] at h
      split at h
      · cases h
      · rename_i v1 hm1
        obtain ⟨u, inp1⟩ := v1
        simp only [] at h
        split at h
        · cases h
        · rename_i v2 hm2
          obtain ⟨s, inp2⟩ := v2
          simp only [] at h
          split at h
          · cases h
          · have l1 := mbReader_len _ _ _ hm1
            have l2 := mbReader_len _ _ _ hm2
            have := ih _ _ _ _ _ h (by omega)
            rw [this, List.length_cons]
            omega

theorem parseIndex_size (inp : List Nat) (recs : List (Nat × Nat)) (isize : Nat) (rest : List Nat)
    (h : parseIndex inp = .ok (recs, isize, rest)) : isize = (indexBytes recs).length := by
  have hsize : (indexBytes recs).length = 1 + (mb recs.length ++ recBytes recs).length +
      (4 - (1 + (mb recs.length ++ recBytes recs).length) % 4) % 4 + 4 := by
    rw [indexBytes_eq]
    simp only [List.length_cons, List.length_append, List.length_replicate, le_length]
    omega
  unfold parseIndex at h
  simp only [bind, Except.bind] at h
  split at h
  · cases h
  · rename_i v1 hm1
    obtain ⟨n, inp1⟩ := v1
    simp only [] at h
    split at h
    · cases h
    · rename_i v2 hr
      obtain ⟨recs', inp2⟩ := v2
      have hn := parseRecords_len _ _ _ _ _ _ hr (by omega)
      simp only [List.length_nil, Nat.zero_add] at hn
      simp only [] at h
      split at h
      · cases h
      · split at h
        · cases h
        · split at h
          · cases h
          · split at h
            · cases h
            · injection h with h
              injection h with h1 h2
              injection h2 with h2 h3
              subst h1
              rw [← h2, hsize, hn]
              rfl

/-! ## S2: the strict decoder accepts a subset of what the crate's reader accepts, with the same result -/

theorem readBlocksS_lax (total cap : Nat) : ∀ (fuel : Nat) (chk : Check) (inp acc : List Nat) (blks : List Block)
    (recs : List (Nat × Nat)) (d : List Nat) (n : Nat) (b : List Block),
    recs = blks.map (blockRecord chk) → inp.length ≤ total → (total - inp.length) % 4 = 0 →
    readBlocksS total fuel chk inp acc blks recs cap = .ok d n b →
    readBlocks true total fuel chk inp acc blks cap = .ok d n b := by
  intro fuel
  induction fuel with
  | zero => intro chk inp acc blks recs d n b _ _ _ h; simp [readBlocksS] at h
  | succ fuel ih =>
    intro chk inp acc blks recs d n b hrl hle hal h
    unfold readBlocksS at h
    unfold readBlocks
    generalize hH : parseBlockHeader inp = H at h ⊢
    cases H with
    | error e => cases h
    | ok v =>
      obtain ⟨oh, inp'⟩ := v
      cases oh with
      | some hd =>
        simp only [] at h ⊢
        obtain ⟨hl1, hl2⟩ := parseBlockHeader_len _ _ _ hH
        split at h
        · cases h
        · rename_i cs us hS
          split at h
          · cases h
          · have hcb : (total - inp'.length) % 4 = hd.size % 4 := by omega
            rw [decodeBlockBody_cb chk hd _ _ inp' cap hcb]
            generalize hB : decodeBlockBody chk hd hd.size inp' cap = B at h ⊢
            cases B with
            | capped => cases h
            | err e => cases h
            | ok blk rest =>
              simp only [] at h ⊢
              obtain ⟨hb1, hb2, hb3⟩ := decodeBlockBody_len _ _ _ _ _ _ _ hB
              split at h
              · cases h
              · split at h
                · cases h
                · split at h
                  · cases h
                  · rename_i hc
                    rw [if_neg hc]
                    exact ih _ _ _ _ _ _ _ _ (by simp [hrl, blockRecord, hb3]) (by omega) (by omega) h
      | none =>
        simp only [] at h ⊢
        generalize hI : parseIndex inp' = I at h ⊢
        cases I with
        | error e => cases h
        | ok v =>
          obtain ⟨irecs, isize, inp''⟩ := v
          simp only [] at h ⊢
          have his := parseIndex_size _ _ _ _ hI
          split at h
          · cases h
          · rename_i hcanon
            split at h
            · cases h
            · rename_i hrec
              split at h
              · cases h
              · simp only [ne_eq, Decidable.not_not] at hrec hcanon
                have hrec' : irecs = (blks.map (blockRecord chk)).reverse := by rw [hrec, hrl]
                have hlen : ¬ (irecs.length ≠ blks.length) := by
                  rw [hrec']; simp
                rw [if_neg hlen, if_neg (not_not_intro hrec')]
                generalize hF : parseFooter inp'' = F at h ⊢
                cases F with
                | error e => cases h
                | ok v =>
                  obtain ⟨bs, flags, rest⟩ := v
                  simp only [] at h ⊢
                  split at h
                  · cases h
                  · rename_i hfl
                    split at h
                    · cases h
                    · rename_i hbs
                      simp only [ne_eq, Decidable.not_not] at hbs
                      -- the size the reader computed is the number of bytes the Index occupies
                      have hsz : (bs + 1) * 4 = isize := by
                        have hl := congrArg List.length hcanon
                        rw [List.length_take] at hl
                        rw [his, ← hl]
                        omega
                      rw [if_neg (not_not_intro hsz), if_neg hfl]
                      simp only [not_true_eq_false, if_false]
                      generalize hN : nextStream (rest.length + 1) rest 0 = N at h ⊢
                      cases N with
                      | error e => cases h
                      | ok o =>
                        cases o with
                        | none => exact h
                        | some p =>
                          obtain ⟨chk', rest'⟩ := p
                          simp only [] at h ⊢
                          obtain ⟨k, hk1, hk2⟩ := nextStream_len _ _ _ _ _ hN
                          have hfl := parseFooter_len _ _ _ _ hF
                          exact ih _ _ _ _ _ _ _ _ rfl (by omega) (by omega) h

/-- **S2.**  Whatever the strict decoder accepts, the crate's reader (multi-stream mode) accepts with the same
data, the same consumed count and the same block list. -/
theorem strict_implies_lax (inp : List Nat) (cap : Nat) (d : List Nat) (n : Nat) (b : List Block)
    (h : decodeStrict inp cap = .ok d n b) : Xz.decode true inp cap = .ok d n b := by
  unfold decodeStrict at h
  unfold Xz.decode
  generalize hH : parseStreamHeader inp = H at h ⊢
  cases H with
  | error e => cases h
  | ok v =>
    obtain ⟨chk, rest⟩ := v
    simp only [] at h ⊢
    have hl := parseStreamHeader_len _ _ _ hH
    exact readBlocksS_lax _ cap _ _ _ _ _ _ _ _ _ rfl (by omega) (by omega) h

/-! ## S1: the writer's output passes every strict rule -/

theorem mb_small (b : Nat) (hb : b < 128) : mb b = [b] := by
  have h63 : ¬ (b > 2 ^ 63 - 1) := by omega
  simp only [mb, XzInt.encode, h63, if_false, Option.getD_some, XzInt.encodeFuel, hb, if_true]

theorem mbStrict_small (b : Nat) (r : List Nat) (hb : b < 128) : mbStrict (b :: r) = .ok (b, r) := by
  unfold mbStrict
  rw [mbSlice_small b r hb]
  simp only [mb_small b hb, List.cons_append, List.nil_append, if_true]

/-- one Filter Flags entry as the writer emits it: two one-byte integers and the announced number of property bytes -/
theorem encFilter_shape (f : Filter) (hf : AnyOk f) :
    ∃ id psz props, encFilter f = id :: psz :: props ∧ id < 128 ∧ psz < 128 ∧ props.length = psz := by
  cases f with
  | delta d => exact ⟨3, 1, [(d - 1) % 256], rfl, by decide, by decide, rfl⟩
  | bcj a s =>
    obtain ⟨i1, _⟩ := idOfArch_spec a
    simp only [encFilter]
    split
    · exact ⟨idOfArch a, 0, [], rfl, i1, by decide, rfl⟩
    · exact ⟨idOfArch a, 4, le 4 s, rfl, i1, by decide, le_length _ _⟩
  | lzma2 d => exact ⟨0x21, 1, [(XzInt.propOfDict d).getD 0], rfl, by decide, by decide, rfl⟩

theorem skipFilters_ok : ∀ (fs : List Filter), (∀ f ∈ fs, AnyOk f) → ∀ r,
    skipFilters fs.length ((fs.map encFilter).flatten ++ r) = .ok r := by
  intro fs
  induction fs with
  | nil => intro _ r; rfl
  | cons f fs ih =>
    intro h r
    obtain ⟨id, psz, props, he, h1, h2, h3⟩ := encFilter_shape f (h f List.mem_cons_self)
    simp only [List.length_cons, List.map_cons, List.flatten_cons, List.append_assoc, skipFilters, he,
      List.cons_append]
    rw [mbStrict_small id _ h1]
    simp only [bind, Except.bind]
    rw [mbStrict_small psz _ h2]
    simp only []
    have hl : ¬ ((props ++ ((fs.map encFilter).flatten ++ r)).length < psz) := by
      rw [List.length_append]; omega
    rw [if_neg hl]
    have hd : List.drop psz (props ++ ((fs.map encFilter).flatten ++ r)) = (fs.map encFilter).flatten ++ r := by
      rw [← h3, List.drop_left]
    simp only [hd]
    exact ih (fun g hg => h g (List.mem_cons_of_mem _ hg)) r

/-- shape of a written block header (the computation is the one in `parseBlockHeader_ok`) -/
theorem blockHeaderBytes_shape (fs : List Filter) (hfs : FiltersOk fs) :
    ∃ sz P L, blockHeaderBytes fs = sz :: (fs.length - 1) :: ((fs.map encFilter).flatten ++ (P ++ L)) ∧
      sz ≠ 0 ∧ (sz + 1) * 4 - 1 = 1 + ((fs.map encFilter).flatten).length + P.length + 4 ∧ L.length = 4 := by
  have hany := filtersOk_any fs hfs
  obtain ⟨pre, d, hfsE, hpl, hpre, hd⟩ := filtersOk_spec fs hfs
  have hlen4 : 1 ≤ fs.length ∧ fs.length ≤ 4 := by
    rw [hfsE]; simp only [List.length_append, List.length_cons, List.length_nil]; omega
  obtain ⟨hfl, hfb⟩ := encFilters_spec fs hany
  have hflags : (fs.length - 1) % 256 = fs.length - 1 := by omega
  simp only [blockHeaderBytes, hflags, List.length_cons]
  generalize hfilt : (fs.map encFilter).flatten = filt at *
  generalize hsz : (1 + (filt.length + 1) + 4 + 3) / 4 * 4 / 4 - 1 = sz
  generalize hP : List.replicate ((1 + (filt.length + 1) + 4 + 3) / 4 * 4 - 1 - (filt.length + 1) - 4) 0 = P
  have hPl : P.length = (1 + (filt.length + 1) + 4 + 3) / 4 * 4 - 1 - (filt.length + 1) - 4 := by
    rw [← hP, List.length_replicate]
  refine ⟨sz, P, le 4 (crc32 (sz :: (fs.length - 1) :: filt ++ P)), ?_, ?_, ?_, le_length 4 _⟩
  · simp only [List.cons_append, List.append_assoc]
  · omega
  · omega

theorem headerStrict_ok (fs : List Filter) (hfs : FiltersOk fs) (r : List Nat) :
    headerStrict (blockHeaderBytes fs ++ r) = .ok (none, none) := by
  have hany := filtersOk_any fs hfs
  obtain ⟨pre, d, hfsE, hpl, hpre, hd⟩ := filtersOk_spec fs hfs
  have hlen4 : 1 ≤ fs.length ∧ fs.length ≤ 4 := by
    rw [hfsE]; simp only [List.length_append, List.length_cons, List.length_nil]; omega
  obtain ⟨sz, P, L, he, hsz, hlen, hL⟩ := blockHeaderBytes_shape fs hfs
  have hsk := skipFilters_ok fs hany (P ++ L)
  rw [he]
  generalize hfilt : (fs.map encFilter).flatten = filt at *
  generalize hn : fs.length = n at *
  have hhd : ((n - 1) :: (filt ++ (P ++ L))).length = (sz + 1) * 4 - 1 := by
    simp only [List.length_cons, List.length_append]; omega
  unfold headerStrict
  simp only [List.cons_append]
  rw [← List.cons_append, takeN_append _ _ _ hhd]
  simp only [bind, Except.bind, List.getD_cons_zero, List.drop_succ_cons, List.drop_zero]
  have c0 : ¬ ((n - 1) / 4 % 16 ≠ 0) := by omega
  have c1 : ¬ ((n - 1) / 64 % 2 = 1) := by omega
  have c2 : ¬ ((n - 1) / 128 % 2 = 1) := by omega
  have c3 : (n - 1) % 4 + 1 = n := by omega
  simp only [c0, c1, c2, c3, if_false, pure, Except.pure]
  rw [hsk]

theorem dropLast_any_isLzma2 (fs : List Filter) (hfs : FiltersOk fs) :
    (fs.map readerFilter).dropLast.any isLzma2 = false := by
  rw [Bool.eq_false_iff]
  intro hany
  rw [List.any_eq_true] at hany
  obtain ⟨f, hf, hm⟩ := hany
  have := mem_dropLast_pre fs hfs f hf
  cases f <;> simp_all [PreOk, isLzma2]

/-- one block (no alignment hypothesis: the strict decoder pads relative to the block) -/
theorem readBlocksS_block (c : Check) (fs : List Filter) (hfs : FiltersOk fs)
    (b : List Nat × List Nat) (hb : BlockOk fs b) (tail acc : List Nat) (blks : List Block)
    (recs : List (Nat × Nat)) (total fuel cap : Nat) (hcap : acc.length + b.2.length ≤ cap) :
    readBlocksS total (fuel + 1) c ((blockBytes c fs b.1 b.2).1 ++ tail) acc blks recs cap
      = readBlocksS total fuel c tail (acc ++ b.2) (blkOf fs b :: blks) ((blockBytes c fs b.1 b.2).2 :: recs) cap := by
  obtain ⟨h1, h2, h3⟩ := hb
  rw [blockBytes_fst, blockBytes_snd]
  conv => lhs; unfold readBlocksS
  simp only [List.append_assoc]
  rw [parseBlockHeader_ok fs hfs, headerStrict_ok fs hfs]
  simp only [dropLast_any_isLzma2 fs hfs, Bool.false_eq_true, if_false]
  have := decodeBlockBody_ok c fs hfs b.1 b.2 tail (blockHeaderBytes fs).length cap (blockHeaderBytes_mod4 fs) h1 h2
    (by omega)
  simp only [hdrOf] at this
  rw [this]
  have hng : ¬ (acc.length + (blkOf fs (b.1, b.2)).data.length > cap) := by
    simp only [blkOf]; omega
  simp only [sizeFieldOk, not_true_eq_false, hng, if_false]
  rfl

theorem recsOf_cons (c : Check) (fs : List Filter) (b : List Nat × List Nat) (blocks : List (List Nat × List Nat)) :
    recsOf c fs (b :: blocks) = (blockBytes c fs b.1 b.2).2 :: recsOf c fs blocks := by
  simp [recsOf]

/-- all blocks of a stream; the record list grows with the blocks -/
theorem readBlocksS_blocks (c : Check) (fs : List Filter) (hfs : FiltersOk fs) (total cap : Nat) :
    ∀ (blocks : List (List Nat × List Nat)), (∀ b ∈ blocks, BlockOk fs b) →
    ∀ (tail acc : List Nat) (blks : List Block) (recs : List (Nat × Nat)) (fuel : Nat),
    acc.length + (blocksData blocks).length ≤ cap →
    readBlocksS total (fuel + blocks.length) c (blocksBytes c fs blocks ++ tail) acc blks recs cap
      = readBlocksS total fuel c tail (acc ++ blocksData blocks) ((blocks.map (blkOf fs)).reverse ++ blks)
          ((recsOf c fs blocks).reverse ++ recs) cap := by
  intro blocks
  induction blocks with
  | nil => intro _ tail acc blks recs fuel _; simp [blocksBytes, blocksData, recsOf]
  | cons b blocks ih =>
    intro hb tail acc blks recs fuel hcap
    rw [blocksBytes_cons, recsOf_cons]
    simp only [blocksData, List.map_cons, List.flatten_cons, List.length_append] at hcap
    rw [List.append_assoc, List.length_cons, ← Nat.add_assoc]
    rw [readBlocksS_block c fs hfs b (hb b List.mem_cons_self) _ acc blks recs total _ cap (by omega)]
    rw [ih (fun x hx => hb x (List.mem_cons_of_mem _ hx)) tail (acc ++ b.2) _ _ fuel
      (by simp only [blocksData, List.length_append]; omega)]
    simp [blocksData]

/-- what the strict decoder does after the footer of a stream -/
def afterStreamS (total fuel : Nat) (rest acc : List Nat) (blks : List Block) (cap : Nat) : Out :=
  match nextStream (rest.length + 1) rest 0 with
  | .error e => .err e
  | .ok none => .ok acc total blks
  | .ok (some (chk', rest')) => readBlocksS total fuel chk' rest' acc [] [] cap

theorem backward_size_ok (n : Nat) (h4 : n % 4 = 0) (hge : 4 ≤ n) (hle : n ≤ 2 ^ 34) :
    (ofLe (le 4 (n / 4 - 1)) + 1) * 4 = n := by
  have : n / 4 - 1 < 256 ^ 4 := by omega
  rw [ofLe_le 4 _ this]
  omega

theorem limitsOk_index_le (rs : List (Nat × Nat)) (n : Nat) (h : limitsOk rs n = true) : n ≤ 2 ^ 34 := by
  unfold limitsOk at h
  simp only [Bool.and_eq_true, decide_eq_true_eq] at h
  exact h.2

/-- Index + Footer of a written stream: accepted iff the stream respects the format's size limits -/
theorem readBlocksS_end (c : Check) (rs : List (Nat × Nat)) (hn : rs.length < 2 ^ 63) (hrs : ∀ x ∈ rs, RecOk x)
    (rest acc : List Nat) (blks : List Block) (recs : List (Nat × Nat)) (total fuel cap : Nat)
    (hrecs : rs = recs.reverse) :
    readBlocksS total (fuel + 1) c (indexBytes rs ++ (footerBytes c (indexBytes rs).length ++ rest)) acc blks recs cap
      = if limitsOk rs (indexBytes rs).length = true then afterStreamS total fuel rest acc blks cap
        else .err .invalidData := by
  obtain ⟨p1, p2⟩ := parse_index rs hn hrs (footerBytes c (indexBytes rs).length ++ rest)
  conv => lhs; unfold readBlocksS
  rw [p1]
  simp only []
  rw [p2]
  have e1 : (indexBytes rs ++ (footerBytes c (indexBytes rs).length ++ rest)).length
      - (footerBytes c (indexBytes rs).length ++ rest).length = (indexBytes rs).length := by
    rw [List.length_append]; omega
  simp only [e1, List.take_left, ne_eq, not_true_eq_false, if_false]
  rw [if_neg (not_not_intro hrecs)]
  by_cases hl : limitsOk rs (indexBytes rs).length = true
  · have hbs := backward_size_ok (indexBytes rs).length (indexBytes_mod4 rs) (indexBytes_len_ge rs)
      (limitsOk_index_le _ _ hl)
    rw [if_pos hl]
    simp only [hl, not_true_eq_false, if_false]
    rw [parseFooter_ok]
    simp only [hbs, not_true_eq_false, if_false]
    rfl
  · rw [if_neg hl]
    simp only [hl, if_true, Bool.false_eq_true, not_false_eq_true]

/-- one whole written stream after its header -/
theorem readBlocksS_stream (c : Check) (fs : List Filter) (hfs : FiltersOk fs)
    (blocks : List (List Nat × List Nat)) (hb : ∀ b ∈ blocks, BlockOk fs b) (hsz : SizesOk63 c fs blocks)
    (rest acc : List Nat) (total fuel cap : Nat) (hcap : acc.length + (blocksData blocks).length ≤ cap) :
    readBlocksS total (fuel + blocks.length + 1) c (streamBody c fs blocks ++ rest) acc [] [] cap
      = if limitsOk (recsOf c fs blocks) (indexBytes (recsOf c fs blocks)).length = true then
          afterStreamS total fuel rest (acc ++ blocksData blocks) (blocks.map (blkOf fs)).reverse cap
        else .err .invalidData := by
  obtain ⟨r1, r2⟩ := recsOf_ok c fs blocks hsz
  have e : fuel + blocks.length + 1 = (fuel + 1) + blocks.length := by omega
  rw [e]
  unfold streamBody
  rw [List.append_assoc]
  rw [readBlocksS_blocks c fs hfs total cap blocks hb _ acc [] [] (fuel + 1) hcap]
  rw [List.append_assoc, List.append_nil, List.append_nil]
  exact readBlocksS_end c _ (by rw [r1]; exact hsz.1) r2 rest _ _ _ total fuel cap (by simp)

/-- **the strict decoder on a written stream followed by anything** -/
theorem decodeStrict_stream (c : Check) (fs : List Filter) (hfs : FiltersOk fs)
    (blocks : List (List Nat × List Nat)) (hb : ∀ b ∈ blocks, BlockOk fs b) (hsz : SizesOk63 c fs blocks)
    (rest : List Nat) (cap : Nat) (hcap : (blocksData blocks).length ≤ cap) :
    decodeStrict (streamBytes c fs blocks ++ rest) cap
      = if limitsOk (recsOf c fs blocks) (indexBytes (recsOf c fs blocks)).length = true then
          afterStreamS (streamBytes c fs blocks ++ rest).length
            ((streamBytes c fs blocks ++ rest).length + 1 - blocks.length) rest (blocksData blocks)
            (blocks.map (blkOf fs)).reverse cap
        else .err .invalidData := by
  unfold decodeStrict
  rw [streamBytes_eq, List.append_assoc, parseStreamHeader_ok]
  simp only []
  have hl := streamBody_length c fs blocks
  have hlen : (streamHeaderBytes c ++ (streamBody c fs blocks ++ rest)).length
      = 12 + (streamBody c fs blocks ++ rest).length := by
    rw [List.length_append, streamHeaderBytes_length]
  have e : (streamHeaderBytes c ++ (streamBody c fs blocks ++ rest)).length + 2
      = ((streamHeaderBytes c ++ (streamBody c fs blocks ++ rest)).length + 1 - blocks.length) + blocks.length + 1 := by
    rw [hlen]; simp only [List.length_append]; omega
  rw [e, readBlocksS_stream c fs hfs blocks hb hsz rest [] _ _ cap (by simpa using hcap), List.nil_append]

/-! ### The size limits -/

/-- The size limits a stream must respect to be representable in the format / acceptable to liblzma:
the stream and its uncompressed data are shorter than 2^63 bytes (`LZMA_VLI_MAX`), and the Index field is at most
2^34 bytes (`LZMA_BACKWARD_SIZE_MAX`: the footer stores `size / 4 - 1` in 32 bits). -/
def StreamLimits (c : Check) (fs : List Filter) (blocks : List (List Nat × List Nat)) : Prop :=
  (streamBytes c fs blocks).length < 2 ^ 63 ∧ (blocksData blocks).length < 2 ^ 63 ∧
  (indexBytes (recsOf c fs blocks)).length ≤ 2 ^ 34

theorem ceil4_block (c : Check) (fs : List Filter) (p d : List Nat) :
    ceil4 (blockBytes c fs p d).2.1 = (blockBytes c fs p d).1.length := by
  rw [blockBytes_fst, blockBytes_snd]
  simp only [List.length_append, List.length_replicate, compute_length, ceil4]
  have := blockHeaderBytes_mod4 fs
  have := size_mod4 c
  omega

theorem sum_ceil4_recsOf (c : Check) (fs : List Filter) : ∀ (blocks : List (List Nat × List Nat)),
    ((recsOf c fs blocks).map fun r => ceil4 r.1).sum = (blocksBytes c fs blocks).length := by
  intro blocks
  induction blocks with
  | nil => simp [recsOf, blocksBytes]
  | cons b blocks ih =>
    rw [recsOf_cons, blocksBytes_cons]
    simp only [List.map_cons, List.sum_cons, List.length_append]
    rw [ih, ceil4_block]

theorem sum_snd_recsOf (c : Check) (fs : List Filter) : ∀ (blocks : List (List Nat × List Nat)),
    ((recsOf c fs blocks).map fun r => r.2).sum = (blocksData blocks).length := by
  intro blocks
  induction blocks with
  | nil => simp [recsOf, blocksData]
  | cons b blocks ih =>
    rw [recsOf_cons, blockBytes_snd]
    simp only [List.map_cons, List.sum_cons, blocksData, List.flatten_cons, List.length_append]
    simp only [blocksData] at ih
    rw [ih]

theorem streamBytes_length (c : Check) (fs : List Filter) (blocks : List (List Nat × List Nat)) :
    (streamBytes c fs blocks).length
      = 12 + (blocksBytes c fs blocks).length + (indexBytes (recsOf c fs blocks)).length + 12 := by
  rw [streamBytes_eq, List.length_append, streamHeaderBytes_length]
  simp only [streamBody, List.length_append, footerBytes_length]
  omega

theorem recsOf_ge5 (c : Check) (fs : List Filter) (blocks : List (List Nat × List Nat)) :
    ∀ x ∈ recsOf c fs blocks, 5 ≤ x.1 := by
  intro x hx
  simp only [recsOf, List.map_map, List.mem_map, Function.comp] at hx
  obtain ⟨b, hb, rfl⟩ := hx
  have := blockHeaderBytes_pos fs
  rw [blockBytes_snd]
  simp only
  omega

/-- the decoder's limit check on the records of a written stream is exactly `StreamLimits` -/
theorem limitsOk_iff (c : Check) (fs : List Filter) (blocks : List (List Nat × List Nat)) :
    limitsOk (recsOf c fs blocks) (indexBytes (recsOf c fs blocks)).length = true ↔ StreamLimits c fs blocks := by
  unfold limitsOk StreamLimits
  simp only [Bool.and_eq_true, decide_eq_true_eq, List.all_eq_true]
  rw [sum_ceil4_recsOf, sum_snd_recsOf, streamBytes_length]
  constructor
  · rintro ⟨⟨⟨_, h1⟩, h2⟩, h3⟩
    exact ⟨by omega, by omega, h3⟩
  · rintro ⟨h1, h2, h3⟩
    exact ⟨⟨⟨recsOf_ge5 c fs blocks, by omega⟩, by omega⟩, h3⟩

theorem StreamLimits.sizesOk63 {c : Check} {fs : List Filter} {blocks : List (List Nat × List Nat)}
    (h : StreamLimits c fs blocks) : SizesOk63 c fs blocks :=
  sizesOk63_of_length c fs blocks h.1 h.2.1

theorem StreamLimits.sizesOk {c : Check} {fs : List Filter} {blocks : List (List Nat × List Nat)}
    (h : StreamLimits c fs blocks) : SizesOk c fs blocks :=
  ⟨h.sizesOk63, h.2.2⟩

/-! ### Single stream -/

theorem afterStreamS_nil (total fuel : Nat) (acc : List Nat) (blks : List Block) (cap : Nat) :
    afterStreamS total fuel [] acc blks cap = .ok acc total blks := by
  simp [afterStreamS, nextStream, pure, Except.pure]

/-- **S1 (single stream).**  Every stream the writer model emits — any check type, any admissible filter chain,
any list of blocks whose payloads decode — is accepted by the strict decoder, with the concatenated data, the whole
length consumed and the block list the crate's reader reports.  The hypotheses are those of `xz_roundtrip_blocks`
with `SizesOk` (63-bit fields, Index ≤ 2^34 bytes) strengthened to `StreamLimits` (which implies it; it adds
liblzma's 2^63 limits on the whole stream): see `writer_overflow_rejected` for why. -/
theorem writer_output_strict (c : Check) (fs : List Filter) (hfs : FiltersOk fs)
    (blocks : List (List Nat × List Nat))
    (hb : ∀ b ∈ blocks, PayloadOk (readerDict fs) b.1 (applyFilters fs b.2) ∧ unfilter fs (applyFilters fs b.2) = b.2)
    (hlim : StreamLimits c fs blocks)
    (cap : Nat) (hcap : ((blocks.map (·.2)).flatten).length ≤ cap) :
    decodeStrict (streamBytes c fs blocks) cap
      = .ok (blocks.map (·.2)).flatten (streamBytes c fs blocks).length (blocks.map (blkOf fs)).reverse := by
  have h := decodeStrict_stream c fs hfs blocks (fun b hbm => blockOk_of fs b (hb b hbm)) hlim.sizesOk63 [] cap hcap
  rw [List.append_nil] at h
  rw [h, if_pos ((limitsOk_iff c fs blocks).mpr hlim), afterStreamS_nil]
  rfl

/-- **The writer's output is rejected when the limits are exceeded**: the precise boundary of S1
(for the Index limit the crate's own reader rejects the stream too: `xz_roundtrip_iff`). -/
theorem writer_overflow_rejected (c : Check) (fs : List Filter) (hfs : FiltersOk fs)
    (blocks : List (List Nat × List Nat))
    (hb : ∀ b ∈ blocks, PayloadOk (readerDict fs) b.1 (applyFilters fs b.2) ∧ unfilter fs (applyFilters fs b.2) = b.2)
    (hsz : SizesOk63 c fs blocks) (hlim : ¬ StreamLimits c fs blocks)
    (cap : Nat) (hcap : ((blocks.map (·.2)).flatten).length ≤ cap) :
    decodeStrict (streamBytes c fs blocks) cap = .err .invalidData := by
  have h := decodeStrict_stream c fs hfs blocks (fun b hbm => blockOk_of fs b (hb b hbm)) hsz [] cap hcap
  rw [List.append_nil] at h
  rw [h, if_neg (fun hl => hlim ((limitsOk_iff c fs blocks).mp hl))]

/-- **S1, exact form.**  Under the 63-bit hypotheses, the strict decoder accepts the writer's output if and only if
the stream respects `StreamLimits`. -/
theorem writer_output_strict_iff (c : Check) (fs : List Filter) (hfs : FiltersOk fs)
    (blocks : List (List Nat × List Nat))
    (hb : ∀ b ∈ blocks, PayloadOk (readerDict fs) b.1 (applyFilters fs b.2) ∧ unfilter fs (applyFilters fs b.2) = b.2)
    (hsz : SizesOk63 c fs blocks) (cap : Nat) (hcap : ((blocks.map (·.2)).flatten).length ≤ cap) :
    decodeStrict (streamBytes c fs blocks) cap
        = .ok (blocks.map (·.2)).flatten (streamBytes c fs blocks).length (blocks.map (blkOf fs)).reverse
      ↔ StreamLimits c fs blocks := by
  constructor
  · intro h
    apply Classical.byContradiction
    intro hl
    rw [writer_overflow_rejected c fs hfs blocks hb hsz hl cap hcap] at h
    cases h
  · intro hl
    exact writer_output_strict c fs hfs blocks hb hl cap hcap

/-! ### Concatenated streams with stream padding -/

def _root_.LzmaVerif.Xz.Strm.Limits (s : Strm) : Prop := StreamLimits s.c s.fs s.blocks

theorem afterStreamS_err (total fuel : Nat) (rest acc : List Nat) (blks : List Block) (cap : Nat) (e : Xz.Err)
    (h : nextStream (rest.length + 1) rest 0 = .error e) :
    afterStreamS total fuel rest acc blks cap = .err e := by
  simp [afterStreamS, h]

theorem afterStreamS_none (total fuel : Nat) (rest acc : List Nat) (blks : List Block) (cap : Nat)
    (h : nextStream (rest.length + 1) rest 0 = .ok none) :
    afterStreamS total fuel rest acc blks cap = .ok acc total blks := by
  simp [afterStreamS, h]

theorem afterStreamS_some (total fuel : Nat) (rest acc : List Nat) (blks : List Block) (cap : Nat)
    (c : Check) (rest' : List Nat) (h : nextStream (rest.length + 1) rest 0 = .ok (some (c, rest'))) :
    afterStreamS total fuel rest acc blks cap = readBlocksS total fuel c rest' acc [] [] cap := by
  simp [afterStreamS, h]

/-- what follows a stream: more streams (aligned padding), then trailing zeros -/
theorem afterStreamS_cat (total cap : Nat) : ∀ (ss : List (Nat × Strm)),
    (∀ x ∈ ss, x.1 % 4 = 0 ∧ x.2.Ok ∧ x.2.Limits) → ∀ (t : Nat) (acc : List Nat) (blks : List Block) (fuel : Nat),
    catFuel ss ≤ fuel → acc.length + (catData ss).length ≤ cap →
    afterStreamS total fuel (catBytes ss ++ List.replicate t 0) acc blks cap
      = if t % 4 ≠ 0 then .err .invalidData else .ok (acc ++ catData ss) total (finalBlks ss blks) := by
  intro ss
  induction ss with
  | nil =>
    intro _ t acc blks fuel _ _
    simp only [catBytes, List.nil_append, catData, List.append_nil, finalBlks]
    have hz := nextStream_zeros t ((List.replicate t 0).length + 1) 0 (by simp)
    rw [Nat.zero_add] at hz
    by_cases ht : t % 4 ≠ 0
    · rw [if_pos ht] at hz ⊢
      exact afterStreamS_err _ _ _ _ _ _ _ hz
    · rw [if_neg ht] at hz ⊢
      exact afterStreamS_none _ _ _ _ _ _ hz
  | cons x ss ih =>
    obtain ⟨k, s⟩ := x
    intro hss t acc blks fuel hfuel hcap
    obtain ⟨hk, ⟨hfs, hb, hsz⟩, hlim⟩ := hss (k, s) List.mem_cons_self
    simp only at hk
    simp only [catFuel] at hfuel
    simp only [catData, List.length_append] at hcap
    simp only [catBytes, List.append_assoc]
    unfold Strm.bytes
    rw [streamBytes_eq]
    simp only [List.append_assoc]
    have hns := nextStream_header s.c (streamBody s.c s.fs s.blocks ++ (catBytes ss ++ List.replicate t 0)) k
      ((List.replicate k 0 ++ (streamHeaderBytes s.c ++ (streamBody s.c s.fs s.blocks ++ (catBytes ss ++ List.replicate t 0)))).length + 1)
      0 (by simp only [List.length_append, List.length_replicate]; omega)
    have hz : ¬ ((0 + k) % 4 ≠ 0) := by omega
    simp only [hz, if_false] at hns
    rw [afterStreamS_some _ _ _ _ _ _ _ _ hns]
    obtain ⟨f, rfl⟩ : ∃ f, fuel = f + s.blocks.length + 1 := ⟨fuel - s.blocks.length - 1, by omega⟩
    rw [readBlocksS_stream s.c s.fs hfs s.blocks hb hsz.1 _ acc total f cap
      (by simpa [Strm.data] using (by omega : acc.length + s.data.length ≤ cap)),
      if_pos ((limitsOk_iff s.c s.fs s.blocks).mpr hlim)]
    rw [ih (fun y hy => hss y (List.mem_cons_of_mem _ hy)) t _ _ f (by omega)
      (by simp only [List.length_append]; simp only [Strm.data] at hcap; omega)]
    simp [catData, finalBlks, Strm.data, Strm.blks]

/-- the strict decoder after a complete first stream, for ANY continuation -/
theorem decodeStrict_after_stream (s : Strm) (hs : s.Ok) (hl : s.Limits) (rest : List Nat) (cap : Nat)
    (hcap : s.data.length ≤ cap) :
    decodeStrict (s.bytes ++ rest) cap
      = afterStreamS (s.bytes ++ rest).length ((s.bytes ++ rest).length + 1 - s.blocks.length) rest s.data s.blks cap := by
  have h := decodeStrict_stream s.c s.fs hs.1 s.blocks hs.2.1 hs.2.2.1 rest cap hcap
  rw [if_pos ((limitsOk_iff s.c s.fs s.blocks).mpr hl)] at h
  exact h

/-- general form with the trailing zeros unrestricted -/
theorem writer_output_strict_concat_gen (s₀ : Strm) (h₀ : s₀.Ok) (l₀ : s₀.Limits) (ss : List (Nat × Strm))
    (hss : ∀ x ∈ ss, x.1 % 4 = 0 ∧ x.2.Ok ∧ x.2.Limits)
    (t : Nat) (cap : Nat) (hcap : (s₀.data ++ catData ss).length ≤ cap) :
    decodeStrict (s₀.bytes ++ (catBytes ss ++ List.replicate t 0)) cap
      = if t % 4 ≠ 0 then .err .invalidData else
        .ok (s₀.data ++ catData ss) (s₀.bytes ++ (catBytes ss ++ List.replicate t 0)).length (finalBlks ss s₀.blks) := by
  rw [List.length_append] at hcap
  rw [decodeStrict_after_stream s₀ h₀ l₀ _ cap (by omega)]
  have hl := strm_bytes_length s₀
  have hf := catFuel_le ss
  exact afterStreamS_cat _ cap ss hss t s₀.data s₀.blks _
    (by simp only [List.length_append, List.length_replicate]; omega) (by omega)

/-- **S1 (concatenated streams).**  A first written stream, then any list of further written streams (possibly
with different check types, filter chains and blocks), each preceded by stream padding whose length is a multiple
of four, then `t` bytes of trailing stream padding (`t % 4 = 0`): accepted by the strict decoder, with the
concatenated data, everything consumed, and the blocks of the last stream.  Mirrors `xz_concat_list`. -/
theorem writer_output_strict_concat (s₀ : Strm) (h₀ : s₀.Ok) (l₀ : s₀.Limits) (ss : List (Nat × Strm))
    (hss : ∀ x ∈ ss, x.1 % 4 = 0 ∧ x.2.Ok ∧ x.2.Limits)
    (t : Nat) (ht : t % 4 = 0) (cap : Nat) (hcap : (s₀.data ++ catData ss).length ≤ cap) :
    decodeStrict (s₀.bytes ++ (catBytes ss ++ List.replicate t 0)) cap
      = .ok (s₀.data ++ catData ss) (s₀.bytes ++ (catBytes ss ++ List.replicate t 0)).length (finalBlks ss s₀.blks) := by
  rw [writer_output_strict_concat_gen s₀ h₀ l₀ ss hss t cap hcap, if_neg (by omega)]

/-! ### A simple sufficient condition for the Index limit -/

/-- `StreamLimits` from the obvious bounds: stream and data shorter than 2^63 bytes, at most 2^29 blocks -/
theorem streamLimits_of (c : Check) (fs : List Filter) (blocks : List (List Nat × List Nat))
    (h1 : (streamBytes c fs blocks).length < 2 ^ 63) (h2 : ((blocks.map (·.2)).flatten).length < 2 ^ 63)
    (hn : blocks.length ≤ 2 ^ 29) : StreamLimits c fs blocks :=
  ⟨h1, h2, indexFits_of_blocks c fs blocks (sizesOk63_of_length c fs blocks h1 h2) hn⟩

/-- S1 with the size side conditions stated on lengths (cf. `xz_roundtrip'`) -/
theorem writer_output_strict' (c : Check) (fs : List Filter) (hfs : FiltersOk fs)
    (blocks : List (List Nat × List Nat))
    (hb : ∀ b ∈ blocks, PayloadOk (readerDict fs) b.1 (applyFilters fs b.2) ∧ unfilter fs (applyFilters fs b.2) = b.2)
    (hlen : (streamBytes c fs blocks).length < 2 ^ 63) (hdat : ((blocks.map (·.2)).flatten).length < 2 ^ 63)
    (hn : blocks.length ≤ 2 ^ 29)
    (cap : Nat) (hcap : ((blocks.map (·.2)).flatten).length ≤ cap) :
    decodeStrict (streamBytes c fs blocks) cap
      = .ok (blocks.map (·.2)).flatten (streamBytes c fs blocks).length (blocks.map (blkOf fs)).reverse :=
  writer_output_strict c fs hfs blocks hb (streamLimits_of c fs blocks hlen hdat hn) cap hcap

/-! ## S3: what laxity remains in the crate's reader

Since the reader fix (`finish_block_record`, `parse_index_and_footer`: Index records, Backward Size and the block
header's size fields are compared with the decoded blocks) the crate's reader still does not enforce

* the reserved bits `0x3C` of the Block Flags (`lax_not_strict_witness`),
* the shortest form of multibyte integers, in the block header (`lax_not_strict_witness_vli`) and in the Index,
  where it even computes padding, CRC32 and size from the re-encoded integers (`lax_not_strict_witness_index_vli`),
* "LZMA2 only as the last filter" (a chain with an inner LZMA2 stacks two LZMA2 decoders: outside the model,
  `.capped`), and liblzma's 2^63 limits on whole-stream sizes (unreachable).

`Unpadded Size ≥ 5` and `Index ≤ 2^34` are now implied by the new comparisons.  The files below are accepted by
`Xz.decode` and rejected by `decodeStrict` (and by `xz -t`, liblzma 5.8.2). -/

/-- A 56-byte file whose only defect is the reserved Block Flags bit `0x04` (block header CRC32 recomputed). -/
def laxWitness : List Nat :=
  [0xfd, 0x37, 0x7a, 0x58, 0x5a, 0x00, 0x00, 0x01, 0x69, 0x22, 0xde, 0x36,      -- stream header (CRC32 check)
   0x02, 0x04, 0x21, 0x01, 0x00, 0x00, 0x00, 0x00, 0x24, 0x03, 0xd8, 0x22,      -- block header, flags = 0x04
   0x01, 0x00, 0x00, 0x41, 0x00, 0x00, 0x00, 0x00, 0x8b, 0x9e, 0xd9, 0xd3,      -- LZMA2 (stored "A"), padding, check
   0x00, 0x01, 0x15, 0x01, 0xa9, 0x63, 0x34, 0x60,                              -- index: 1 record (21, 1)
   0x90, 0x42, 0x99, 0x0d, 0x01, 0x00, 0x00, 0x00, 0x00, 0x01, 0x59, 0x5a]      -- footer

/-- A 60-byte file whose only defect is the filter id 0x21 written in two bytes (`A1 00`) in the block header. -/
def laxWitnessVli : List Nat :=
  [0xfd, 0x37, 0x7a, 0x58, 0x5a, 0x00, 0x00, 0x01, 0x69, 0x22, 0xde, 0x36,
   0x03, 0x00, 0xa1, 0x00, 0x01, 0x00, 0x00, 0x00, 0x00, 0x00, 0x00, 0x00, 0xee, 0x75, 0x7b, 0x86,
   0x01, 0x00, 0x00, 0x41, 0x00, 0x00, 0x00, 0x00, 0x8b, 0x9e, 0xd9, 0xd3,
   0x00, 0x01, 0x19, 0x01, 0xa5, 0x2c, 0x81, 0xcc,
   0x90, 0x42, 0x99, 0x0d, 0x01, 0x00, 0x00, 0x00, 0x00, 0x01, 0x59, 0x5a]

/-- A 57-byte file whose Index writes the number of records in two bytes (`81 00`); padding, CRC32 and Backward
Size are those of the canonical 8-byte Index, which is what the crate's reader computes. -/
def laxWitnessIndexVli : List Nat :=
  [0xfd, 0x37, 0x7a, 0x58, 0x5a, 0x00, 0x00, 0x01, 0x69, 0x22, 0xde, 0x36,
   0x02, 0x00, 0x21, 0x01, 0x00, 0x00, 0x00, 0x00, 0x37, 0x27, 0x97, 0xd6,
   0x01, 0x00, 0x00, 0x41, 0x00, 0x00, 0x00, 0x00, 0x8b, 0x9e, 0xd9, 0xd3,
   0x00, 0x81, 0x00, 0x15, 0x01, 0xa9, 0x63, 0x34, 0x60,
   0x90, 0x42, 0x99, 0x0d, 0x01, 0x00, 0x00, 0x00, 0x00, 0x01, 0x59, 0x5a]

theorem out_of_result (o : Out) (d : List Nat) (n : Nat) (h : o.result? = some (d, n)) : ∃ b, o = .ok d n b := by
  cases o with
  | ok d' n' b =>
    simp only [Out.result?, Option.some.injEq, Prod.mk.injEq] at h
    exact ⟨b, by rw [h.1, h.2]⟩
  | err e => cases h
  | capped => cases h

theorem out_of_err (o : Out) (e : Xz.Err) (h : o.err? = some e) : o = .err e := by
  cases o with
  | ok d n b => cases h
  | err e' => simp only [Out.err?, Option.some.injEq] at h; rw [h]
  | capped => cases h

/-- **S3.**  A concrete file that the crate's reader accepts (in both modes) and the strict decoder — like
liblzma ("Unsupported options") — rejects: a reserved Block Flags bit is set. -/
theorem lax_not_strict_witness :
    (∃ b, Xz.decode true laxWitness 16 = .ok [0x41] 56 b) ∧ (∃ b, Xz.decode false laxWitness 16 = .ok [0x41] 56 b) ∧
    decodeStrict laxWitness 16 = .err .invalidInput :=
  ⟨out_of_result _ _ _ (by decide +kernel), out_of_result _ _ _ (by decide +kernel), out_of_err _ _ (by decide +kernel)⟩

/-- a non-shortest multibyte integer in the block header -/
theorem lax_not_strict_witness_vli :
    (∃ b, Xz.decode true laxWitnessVli 16 = .ok [0x41] 60 b) ∧ decodeStrict laxWitnessVli 16 = .err .invalidData :=
  ⟨out_of_result _ _ _ (by decide +kernel), out_of_err _ _ (by decide +kernel)⟩

/-- a non-shortest multibyte integer in the Index -/
theorem lax_not_strict_witness_index_vli :
    (∃ b, Xz.decode true laxWitnessIndexVli 16 = .ok [0x41] 57 b) ∧
    decodeStrict laxWitnessIndexVli 16 = .err .invalidData :=
  ⟨out_of_result _ _ _ (by decide +kernel), out_of_err _ _ (by decide +kernel)⟩

/-! ### the witnesses of the old laxity are now rejected by the reader -/

/-- the former witness: Index record (21, **2**) for a block of 1 byte, Index CRC32 recomputed -/
def forgedIndexWitness : List Nat :=
  [0xfd, 0x37, 0x7a, 0x58, 0x5a, 0x00, 0x00, 0x01, 0x69, 0x22, 0xde, 0x36,
   0x02, 0x00, 0x21, 0x01, 0x00, 0x00, 0x00, 0x00, 0x37, 0x27, 0x97, 0xd6,
   0x01, 0x00, 0x00, 0x41, 0x00, 0x00, 0x00, 0x00, 0x8b, 0x9e, 0xd9, 0xd3,
   0x00, 0x01, 0x15, 0x02, 0x13, 0x32, 0x3d, 0xf9,
   0x90, 0x42, 0x99, 0x0d, 0x01, 0x00, 0x00, 0x00, 0x00, 0x01, 0x59, 0x5a]

/-- the former witness: right record (21, 1), Backward Size 2 (= 12 bytes) instead of 1 (= 8 bytes), footer CRC32
recomputed -/
def forgedBackwardWitness : List Nat :=
  [0xfd, 0x37, 0x7a, 0x58, 0x5a, 0x00, 0x00, 0x01, 0x69, 0x22, 0xde, 0x36,
   0x02, 0x00, 0x21, 0x01, 0x00, 0x00, 0x00, 0x00, 0x37, 0x27, 0x97, 0xd6,
   0x01, 0x00, 0x00, 0x41, 0x00, 0x00, 0x00, 0x00, 0x8b, 0x9e, 0xd9, 0xd3,
   0x00, 0x01, 0x15, 0x01, 0xa9, 0x63, 0x34, 0x60,
   0x3e, 0x30, 0x0d, 0x8b, 0x02, 0x00, 0x00, 0x00, 0x00, 0x01, 0x59, 0x5a]

theorem forged_witnesses_rejected :
    Xz.decode true forgedIndexWitness 16 = .err .invalidData ∧ Xz.decode false forgedIndexWitness 16 = .err .invalidData ∧
    decodeStrict forgedIndexWitness 16 = .err .invalidData ∧
    Xz.decode true forgedBackwardWitness 16 = .err .invalidData ∧
    Xz.decode false forgedBackwardWitness 16 = .err .invalidData ∧
    decodeStrict forgedBackwardWitness 16 = .err .invalidData :=
  ⟨out_of_err _ _ (by decide +kernel), out_of_err _ _ (by decide +kernel), out_of_err _ _ (by decide +kernel),
   out_of_err _ _ (by decide +kernel), out_of_err _ _ (by decide +kernel), out_of_err _ _ (by decide +kernel)⟩

/-- the witnesses differ from a file the writer model emits (which both decoders accept) only in those fields -/
theorem witness_base_accepted :
    streamBytes .crc32 [.lzma2 4096] [([1, 0, 0, 0x41, 0], [0x41])] =
      forgedIndexWitness.take 39 ++ [0x01, 0xa9, 0x63, 0x34, 0x60] ++ forgedIndexWitness.drop 44 ∧
    (∃ b, decodeStrict (streamBytes .crc32 [.lzma2 4096] [([1, 0, 0, 0x41, 0], [0x41])]) 16 = .ok [0x41] 56 b) :=
  ⟨by decide +kernel, out_of_result _ _ _ (by decide +kernel)⟩

/-! ## Forged Index / footer: the strict decoder (general form; the reader's counterpart is
`Xz.reader_rejects_forged_index` / `Xz.reader_rejects_wrong_backward_size` in `Proofs/XzForged.lean`) -/

/-- Index + Footer with arbitrary records and an arbitrary announced length -/
theorem readBlocksS_end_forged (c : Check) (rs : List (Nat × Nat)) (hn : rs.length < 2 ^ 63)
    (hrs : ∀ x ∈ rs, RecOk x) (n : Nat) (rest acc : List Nat) (blks : List Block) (recs : List (Nat × Nat))
    (total fuel cap : Nat) (hne : rs ≠ recs.reverse ∨ (ofLe (le 4 (n / 4 - 1)) + 1) * 4 ≠ (indexBytes rs).length) :
    readBlocksS total (fuel + 1) c (indexBytes rs ++ (footerBytes c n ++ rest)) acc blks recs cap
      = .err .invalidData := by
  obtain ⟨p1, p2⟩ := parse_index rs hn hrs (footerBytes c n ++ rest)
  conv => lhs; unfold readBlocksS
  rw [p1]
  simp only []
  rw [p2]
  have e1 : (indexBytes rs ++ (footerBytes c n ++ rest)).length - (footerBytes c n ++ rest).length
      = (indexBytes rs).length := by
    rw [List.length_append]; omega
  simp only [e1, List.take_left, ne_eq, not_true_eq_false, if_false]
  by_cases hr : rs = recs.reverse
  · have hbs : (ofLe (le 4 (n / 4 - 1)) + 1) * 4 ≠ (indexBytes rs).length := by
      rcases hne with h | h
      · exact absurd hr h
      · exact h
    rw [if_neg (not_not_intro hr)]
    split
    · rfl
    · rw [parseFooter_ok]
      simp only [not_true_eq_false, if_false]
      rw [if_pos hbs]
  · rw [if_pos hr]

theorem strict_rejects_forged (c : Check) (fs : List Filter) (hfs : FiltersOk fs)
    (blocks : List (List Nat × List Nat))
    (hb : ∀ b ∈ blocks, PayloadOk (readerDict fs) b.1 (applyFilters fs b.2) ∧ unfilter fs (applyFilters fs b.2) = b.2)
    (rs : List (Nat × Nat)) (hn : rs.length < 2 ^ 63) (hrs : ∀ x ∈ rs, RecOk x) (n : Nat)
    (hne : rs ≠ recsOf c fs blocks ∨ (ofLe (le 4 (n / 4 - 1)) + 1) * 4 ≠ (indexBytes rs).length)
    (cap : Nat) (hcap : ((blocks.map (·.2)).flatten).length ≤ cap) :
    decodeStrict (forgedStream c fs blocks rs n) cap = .err .invalidData := by
  have hb' : ∀ b ∈ blocks, BlockOk fs b := fun b hbm => blockOk_of fs b (hb b hbm)
  have hbb := blocksBytes_mod4 c fs blocks
  unfold decodeStrict
  unfold forgedStream
  rw [parseStreamHeader_ok]
  simp only []
  generalize hT : (streamHeaderBytes c ++ (blocksBytes c fs blocks ++ (indexBytes rs ++ (footerBytes c n ++ [])))).length
    = total
  have htot : total = 12 + (blocksBytes c fs blocks ++ (indexBytes rs ++ (footerBytes c n ++ []))).length := by
    rw [← hT, List.length_append, streamHeaderBytes_length]
  have hbl : blocks.length ≤ total := by
    rw [htot, List.length_append]; omega
  have e : total + 2 = ((total + 1 - blocks.length) + 1) + blocks.length := by omega
  rw [e, readBlocksS_blocks c fs hfs total cap blocks hb' _ [] [] [] _ (by rw [List.length_nil, Nat.zero_add]; exact hcap)]
  exact readBlocksS_end_forged c rs hn hrs n [] _ _ _ total _ cap (by simpa using hne)

/-- a forged Index is rejected by the crate's reader and by the strict decoder alike -/
theorem forged_index_rejected_by_both (c : Check) (fs : List Filter) (hfs : FiltersOk fs)
    (blocks : List (List Nat × List Nat))
    (hb : ∀ b ∈ blocks, PayloadOk (readerDict fs) b.1 (applyFilters fs b.2) ∧ unfilter fs (applyFilters fs b.2) = b.2)
    (rs : List (Nat × Nat)) (hn : rs.length < 2 ^ 63) (hrs : ∀ x ∈ rs, RecOk x)
    (hne : rs ≠ recsOf c fs blocks) (n : Nat) (cap : Nat) (hcap : ((blocks.map (·.2)).flatten).length ≤ cap) :
    Xz.decode true (forgedStream c fs blocks rs n) cap = .err .invalidData ∧
    decodeStrict (forgedStream c fs blocks rs n) cap = .err .invalidData :=
  ⟨reader_rejects_forged_index true c fs hfs blocks hb rs hn hrs hne n cap hcap,
   strict_rejects_forged c fs hfs blocks hb rs hn hrs n (Or.inl hne) cap hcap⟩

/-! ## The boundary of S1 and of the round trip is real

`write_stream_footer` computes `((index_size / 4) - 1) as u32` — a silent truncation when the Index is larger than
2^34 bytes (more than about 2^33 blocks).  The model (`footerBytes`: `le 4 (indexLen / 4 - 1)`) has the same
behaviour.  Such a stream is rejected by the strict decoder and — since the reader compares the Backward Size with
the Index — by the crate's own reader. -/

/-- a block holding the single byte 0x41 as a stored LZMA2 chunk -/
def tinyBlock : List Nat × List Nat := ([1, 0, 0, 0x41, 0], [0x41])

theorem stored1_ok (fs : List Filter) (hfs : fs = [.lzma2 4096]) (x : Nat) :
    PayloadOk (readerDict fs) [1, 0, 0, x, 0] (applyFilters fs [x]) ∧ unfilter fs (applyFilters fs [x]) = [x] := by
  subst hfs
  have hp := payloadOk_stored (readerDict [.lzma2 4096]) [x] (by simp) (by simp)
  simp only [List.length_cons, List.length_nil, Nat.zero_add, Nat.sub_self, Nat.zero_div, Nat.zero_mod,
    List.cons_append, List.nil_append] at hp
  exact ⟨hp, rfl⟩

theorem flatten_replicate_len (b : List Nat × List Nat) : ∀ (n : Nat),
    (((List.replicate n b).map (·.2)).flatten).length = n * b.2.length := by
  intro n
  induction n with
  | zero => simp
  | succ n ih =>
    simp only [List.replicate_succ, List.map_cons, List.flatten_cons, List.length_append, ih, Nat.succ_mul]
    omega

theorem hdr_lzma2_len (d : Nat) : (blockHeaderBytes [.lzma2 d]).length = 12 := by
  rw [blockHeaderBytes_length]
  simp [encFilter]

theorem index_ge_records (rs : List (Nat × Nat)) (h : ∀ x ∈ rs, RecOk x) : rs.length ≤ (indexBytes rs).length := by
  obtain ⟨rl, _⟩ := recBytes_spec rs h
  rw [indexBytes_eq]
  simp only [List.length_cons, List.length_append]
  omega

/-- **The writer's own output beyond the limit**: `N > 2^34` tiny blocks.  All 63-bit conditions hold; the
crate's reader and the strict decoder both reject the stream (wrong Backward Size). -/
theorem writer_index_overflow (c : Check) (N : Nat) (hN : 2 ^ 34 < N) (hN2 : N < 2 ^ 63) :
    Xz.decode false (streamBytes c [.lzma2 4096] (List.replicate N tinyBlock)) N = .err .invalidData ∧
    decodeStrict (streamBytes c [.lzma2 4096] (List.replicate N tinyBlock)) N = .err .invalidData := by
  have hfs : FiltersOk [.lzma2 4096] := by decide
  have hb : ∀ b ∈ List.replicate N tinyBlock,
      PayloadOk (readerDict [.lzma2 4096]) b.1 (applyFilters [.lzma2 4096] b.2) ∧
        unfilter [.lzma2 4096] (applyFilters [.lzma2 4096] b.2) = b.2 := by
    intro b hbm
    rw [List.eq_of_mem_replicate hbm]
    exact stored1_ok _ rfl 0x41
  have hsz : SizesOk63 c [.lzma2 4096] (List.replicate N tinyBlock) := by
    refine ⟨by rw [List.length_replicate]; exact hN2, ?_⟩
    intro b hbm
    rw [List.eq_of_mem_replicate hbm, hdr_lzma2_len]
    have : c.size ≤ 32 := by cases c <;> decide
    simp only [tinyBlock, List.length_cons, List.length_nil]
    omega
  have hcap : (((List.replicate N tinyBlock).map (·.2)).flatten).length ≤ N := by
    rw [flatten_replicate_len]; simp [tinyBlock]
  have hbig : ¬ (indexBytes (recsOf c [.lzma2 4096] (List.replicate N tinyBlock))).length ≤ 2 ^ 34 := by
    obtain ⟨r1, r2⟩ := recsOf_ok c [.lzma2 4096] _ hsz
    have := index_ge_records _ r2
    rw [r1, List.length_replicate] at this
    omega
  have hnl : ¬ StreamLimits c [.lzma2 4096] (List.replicate N tinyBlock) := fun h => hbig h.2.2
  have h1 := xz_roundtrip_iff c [.lzma2 4096] hfs _ hb hsz [] N hcap
  rw [List.append_nil, if_neg hbig] at h1
  exact ⟨h1, writer_overflow_rejected c [.lzma2 4096] hfs _ hb hsz hnl N hcap⟩

/-! ## Non-vacuity: every theorem with hypotheses, instantiated -/

/-- `StreamLimits` from `SizesOk63` and small explicit bounds -/
theorem streamLimits_of_sizes (c : Check) (fs : List Filter) (blocks : List (List Nat × List Nat))
    (hsz : SizesOk63 c fs blocks) (hn : blocks.length ≤ 2 ^ 29) (hbb : (blocksBytes c fs blocks).length < 2 ^ 62)
    (hd : (blocksData blocks).length < 2 ^ 63) : StreamLimits c fs blocks := by
  have hi : (indexBytes (recsOf c fs blocks)).length ≤ 2 ^ 34 := indexFits_of_blocks c fs blocks hsz hn
  refine ⟨?_, hd, hi⟩
  rw [streamBytes_length]
  omega

theorem two_blocks_limits (c : Check) (x y : Nat) :
    StreamLimits c [.lzma2 4096] [([1, 0, 0, x, 0], [x]), ([1, 0, 0, y, 0], [y])] := by
  have hc : c.size ≤ 32 := by cases c <;> decide
  apply streamLimits_of_sizes
  · refine ⟨by simp, ?_⟩
    intro b hb
    rw [hdr_lzma2_len]
    simp only [List.mem_cons, List.not_mem_nil, or_false] at hb
    rcases hb with rfl | rfl <;> simp only [List.length_cons, List.length_nil] <;> omega
  · simp
  · simp only [blocksBytes, List.map_cons, List.map_nil, List.flatten_cons, List.flatten_nil, blockBytes_fst,
      List.length_append, List.length_cons, List.length_nil, List.length_replicate, hdr_lzma2_len, compute_length]
    omega
  · simp [blocksData]

/-- S1 instantiated: two real blocks, any check type, any two byte values — all hypotheses discharged -/
example (c : Check) (x y : Nat) :
    decodeStrict (streamBytes c [.lzma2 4096] [([1, 0, 0, x, 0], [x]), ([1, 0, 0, y, 0], [y])]) 2
      = .ok [x, y] (streamBytes c [.lzma2 4096] [([1, 0, 0, x, 0], [x]), ([1, 0, 0, y, 0], [y])]).length
          [blkOf [.lzma2 4096] ([1, 0, 0, y, 0], [y]), blkOf [.lzma2 4096] ([1, 0, 0, x, 0], [x])] := by
  have hb : ∀ b ∈ [(([1, 0, 0, x, 0] : List Nat), ([x] : List Nat)), ([1, 0, 0, y, 0], [y])],
      PayloadOk (readerDict [.lzma2 4096]) b.1 (applyFilters [.lzma2 4096] b.2) ∧
        unfilter [.lzma2 4096] (applyFilters [.lzma2 4096] b.2) = b.2 := by
    intro b hb
    simp only [List.mem_cons, List.not_mem_nil, or_false] at hb
    rcases hb with rfl | rfl
    · exact stored1_ok _ rfl x
    · exact stored1_ok _ rfl y
  exact writer_output_strict c [.lzma2 4096] (by decide) _ hb (two_blocks_limits c x y) 2 (by simp)

/-- the hypotheses of `writer_output_strict'` (length form) for the same stream -/
example (c : Check) (x y : Nat) :
    (streamBytes c [.lzma2 4096] [([1, 0, 0, x, 0], [x]), ([1, 0, 0, y, 0], [y])]).length < 2 ^ 63 ∧
    (([([1, 0, 0, x, 0], [x]), ([1, 0, 0, y, 0], [y])].map (·.2)).flatten).length < 2 ^ 63 ∧
    [(([1, 0, 0, x, 0] : List Nat), ([x] : List Nat)), ([1, 0, 0, y, 0], [y])].length ≤ 2 ^ 29 :=
  ⟨(two_blocks_limits c x y).1, (two_blocks_limits c x y).2.1, by simp⟩

/-- S1 (concatenation) instantiated: a CRC32 stream with two blocks, 8 bytes of padding, an (empty) SHA-256 stream
with a delta + LZMA2 chain, 4 bytes of padding, a CRC64 stream with two blocks, 12 bytes of trailing padding -/
example (x y z : Nat) :
    decodeStrict
      ((Strm.mk .crc32 [.lzma2 4096] [([1, 0, 0, x, 0], [x]), ([1, 0, 0, x, 0], [x])]).bytes ++
        (catBytes [(8, Strm.mk .sha256 [.delta 4, .lzma2 65536] []),
                   (4, Strm.mk .crc64 [.lzma2 4096] [([1, 0, 0, y, 0], [y]), ([1, 0, 0, z, 0], [z])])]
          ++ List.replicate 12 0)) 4
      = .ok [x, x, y, z]
          ((Strm.mk .crc32 [.lzma2 4096] [([1, 0, 0, x, 0], [x]), ([1, 0, 0, x, 0], [x])]).bytes ++
            (catBytes [(8, Strm.mk .sha256 [.delta 4, .lzma2 65536] []),
                   (4, Strm.mk .crc64 [.lzma2 4096] [([1, 0, 0, y, 0], [y]), ([1, 0, 0, z, 0], [z])])]
              ++ List.replicate 12 0)).length
          [blkOf [.lzma2 4096] ([1, 0, 0, z, 0], [z]), blkOf [.lzma2 4096] ([1, 0, 0, y, 0], [y])] := by
  have hb2 : ∀ (u v : Nat), ∀ b ∈ [(([1, 0, 0, u, 0] : List Nat), ([u] : List Nat)), ([1, 0, 0, v, 0], [v])],
      PayloadOk (readerDict [.lzma2 4096]) b.1 (applyFilters [.lzma2 4096] b.2) ∧
        unfilter [.lzma2 4096] (applyFilters [.lzma2 4096] b.2) = b.2 := by
    intro u v b hb
    simp only [List.mem_cons, List.not_mem_nil, or_false] at hb
    rcases hb with rfl | rfl
    · exact stored1_ok _ rfl u
    · exact stored1_ok _ rfl v
  have ok2 : ∀ (c : Check) (u v : Nat), (Strm.mk c [.lzma2 4096] [([1, 0, 0, u, 0], [u]), ([1, 0, 0, v, 0], [v])]).Ok ∧
      (Strm.mk c [.lzma2 4096] [([1, 0, 0, u, 0], [u]), ([1, 0, 0, v, 0], [v])]).Limits := by
    intro c u v
    exact ⟨Strm.ok_of _ _ _ (by decide) (hb2 u v) (two_blocks_limits c u v).sizesOk, two_blocks_limits c u v⟩
  have ok0 : (Strm.mk .sha256 [.delta 4, .lzma2 65536] []).Ok ∧ (Strm.mk .sha256 [.delta 4, .lzma2 65536] []).Limits := by
    have hs : SizesOk .sha256 [.delta 4, .lzma2 65536] [] := sizesOk_nil _ _
    exact ⟨Strm.ok_of _ _ _ (by decide) (by intro b hb; cases hb) hs,
      streamLimits_of_sizes _ _ _ hs.1 (by simp) (by simp [blocksBytes]) (by simp [blocksData])⟩
  have := writer_output_strict_concat _ (ok2 .crc32 x x).1 (ok2 .crc32 x x).2
    [(8, Strm.mk .sha256 [.delta 4, .lzma2 65536] []),
     (4, Strm.mk .crc64 [.lzma2 4096] [([1, 0, 0, y, 0], [y]), ([1, 0, 0, z, 0], [z])])]
    (by
      intro p hp
      simp only [List.mem_cons, List.not_mem_nil, or_false] at hp
      rcases hp with rfl | rfl
      · exact ⟨by decide, ok0.1, ok0.2⟩
      · exact ⟨(by decide : 4 % 4 = 0), (ok2 .crc64 y z).1, (ok2 .crc64 y z).2⟩)
    12 (by decide) 4 (by simp [Strm.data, blocksData, catData])
  simpa [Strm.data, blocksData, catData, finalBlks, Strm.blks] using this

/-- S2 instantiated on an accepted file (`witness_base_accepted`) -/
example : ∃ b, Xz.decode true (streamBytes .crc32 [.lzma2 4096] [([1, 0, 0, 0x41, 0], [0x41])]) 16 = .ok [0x41] 56 b := by
  obtain ⟨b, hb⟩ := witness_base_accepted.2
  exact ⟨b, strict_implies_lax _ _ _ _ _ hb⟩

/-- the hypotheses of `writer_overflow_rejected` / `writer_index_overflow` are satisfiable: 2^35 tiny blocks -/
example : decodeStrict (streamBytes .crc32 [.lzma2 4096] (List.replicate (2 ^ 35) tinyBlock)) (2 ^ 35)
    = .err .invalidData :=
  (writer_index_overflow .crc32 (2 ^ 35) (by decide) (by decide)).2

/-- `forged_index_rejected_by_both` instantiated: the record (21, 2) instead of (21, 1), any announced Index
length `n`, any byte `x` -/
example (x n : Nat) :
    Xz.decode true (forgedStream .crc32 [.lzma2 4096] [([1, 0, 0, x, 0], [x])] [(21, 2)] n) 1 = .err .invalidData ∧
    decodeStrict (forgedStream .crc32 [.lzma2 4096] [([1, 0, 0, x, 0], [x])] [(21, 2)] n) 1 = .err .invalidData := by
  have hb : ∀ b ∈ [(([1, 0, 0, x, 0] : List Nat), ([x] : List Nat))],
      PayloadOk (readerDict [.lzma2 4096]) b.1 (applyFilters [.lzma2 4096] b.2) ∧
        unfilter [.lzma2 4096] (applyFilters [.lzma2 4096] b.2) = b.2 := by
    intro b hb
    rw [List.mem_singleton] at hb
    subst hb
    exact stored1_ok _ rfl x
  have hne : [(21, 2)] ≠ recsOf .crc32 [.lzma2 4096] [([1, 0, 0, x, 0], [x])] := by
    simp [recsOf, blockBytes_snd, hdr_lzma2_len, Check.size]
  exact forged_index_rejected_by_both .crc32 [.lzma2 4096] (by decide) _ hb [(21, 2)] (by decide)
    (by intro r hr; rw [List.mem_singleton] at hr; subst hr; exact ⟨by decide, by decide, by decide⟩) hne n 1 (by simp)

#print axioms writer_output_strict
#print axioms writer_output_strict'
#print axioms writer_output_strict_concat
#print axioms writer_output_strict_concat_gen
#print axioms writer_output_strict_iff
#print axioms writer_overflow_rejected
#print axioms writer_index_overflow
#print axioms strict_implies_lax
#print axioms lax_not_strict_witness
#print axioms lax_not_strict_witness_vli
#print axioms lax_not_strict_witness_index_vli
#print axioms forged_witnesses_rejected
#print axioms witness_base_accepted
#print axioms strict_rejects_forged
#print axioms forged_index_rejected_by_both
#print axioms limitsOk_iff
#print axioms streamLimits_of
#print axioms headerStrict_ok
#print axioms decodeStrict_stream
#print axioms parseIndex_size

end LzmaVerif.XzStrict
