import LzmaVerif.Proofs.RcRoundtrip
/-!
Two additions to the range coder round trip, needed for LZMA2 chunks:

* `rc_roundtrip_fin`: the conclusion of `rc_roundtrip'` plus `d'.normalize.code = 0` – after the
  final normalisation the decoder has read all `K + 5` bytes and its `code` is `F - L = 0`
  (`RangeDecoder::is_finished` of the buffer variant checks exactly this);
* `encRun_probsOk`: the adapted tables the encoder leaves satisfy `ProbsOk` again, so a chunk may
  continue with the tables of the previous one.
-/
namespace LzmaVerif
open Rc Rc.Ideal

namespace Prog

theorem encRun_probsOk {α : Type} (prog : Prog α) : ∀ (bits : List Bool) (ps : Probs) (e : Enc)
    (a : α) (bs' : List Bool) (ps' : Probs) (e' : Enc),
    prog.encRun bits ps e = some (a, bs', ps', e') → ProbsOk ps → ProbsOk ps' := by
  induction prog with
  | ret a0 =>
    intro bits ps e a bs' ps' e' h hps
    simp only [encRun, Option.some.injEq, Prod.mk.injEq] at h
    obtain ⟨_, _, rfl, _⟩ := h
    exact hps
  | bit i k ih =>
    intro bits ps e a bs' ps' e' h hps
    cases bits with
    | nil => simp only [encRun] at h; exact absurd h (by simp)
    | cons b bs =>
      simp only [encRun] at h
      exact ih b _ _ _ _ _ _ _ h (ProbsOk_set ps i b hps)
  | direct k ih =>
    intro bits ps e a bs' ps' e' h hps
    cases bits with
    | nil => simp only [encRun] at h; exact absurd h (by simp)
    | cons b bs =>
      simp only [encRun] at h
      exact ih b _ _ _ _ _ _ _ h hps

end Prog

namespace Rc

/-- **Range coder round trip with the `is_finished` facts**: as `rc_roundtrip'`, and in addition
    the decoder's `code` is 0 after the final normalisation. -/
theorem rc_roundtrip_fin {α : Type} (prog : Prog α) (bits : List Bool) (ps : Probs) (hps : ProbsOk ps)
    (a : α) (bs' : List Bool) (ps' : Probs) (e' : Enc)
    (henc : prog.encRun bits ps Enc.init = some (a, bs', ps', e')) (rest : List Nat) :
    ∃ d0 d', Dec.init (e'.bytes ++ rest) = some d0 ∧
      prog.decRun ps d0 = (a, ps', d') ∧
      d'.normalize.inp = rest ∧ d'.normalize.over = 0 ∧ d'.normalize.code = 0 ∧
      e'.bytes.head? = some 0 ∧ (∀ b ∈ e'.bytes, b < 256) ∧
      e'.bytes.length = e'.pendingSize ∧ 5 ≤ e'.bytes.length := by
  have hall := Prog.evs_ok prog bits ps hps
  obtain ⟨habs, hT⟩ := enc_abs prog bits ps Enc.init st0 a bs' ps' e' henc hps abs_init st0_ROk
  obtain ⟨fb, fl, fn⟩ := finish_spec e' _ habs hT
  obtain ⟨nk, nlo, nhi⟩ := run_nested (prog.evs bits ps) st0 st0_ROk hall
  generalize hTdef : run st0 (prog.evs bits ps) = T at *
  have hbytes : ∀ x ∈ e'.bytes, x < 256 := fun x hx => fb x (List.mem_reverse.mp hx)
  have hlen : e'.bytes.length = T.k + 5 := by unfold Enc.bytes; rw [List.length_reverse]; exact fl
  have hnum : num e'.bytes = T.L := fn
  have hpend : e'.bytes.length = e'.pendingSize := by
    rw [hlen]; unfold Enc.pendingSize; have := habs.k; omega
  have hF4 : num e'.bytes < 256 ^ (T.k + 4) := by
    rw [hnum]
    simp only [st0, Nat.sub_zero, Nat.zero_add] at nhi
    have h1 : 4294967295 * 256 ^ T.k ≤ 256 ^ 4 * 256 ^ T.k := Nat.mul_le_mul_right _ (by decide)
    have h2 : 256 ^ (T.k + 4) = 256 ^ 4 * 256 ^ T.k := by rw [pow_add]; ring
    rw [h2]
    exact Nat.lt_of_lt_of_le nhi h1
  obtain ⟨d0, hinit, d0r, d0c, d0i, d0o, hhead⟩ := init_spec e'.bytes rest T.k hlen hbytes hF4
  have hsim0 : Sim (num e'.bytes) T.k st0 { range := 0xFFFFFFFF, code := num e'.bytes / 256 ^ T.k, k := 0 } :=
    ⟨rfl, rfl, Nat.zero_le _, rfl⟩
  have hdr0 : DR e'.bytes rest d0 { range := 0xFFFFFFFF, code := num e'.bytes / 256 ^ T.k, k := 0 } :=
    ⟨d0r, d0c, d0i, d0o⟩
  have hF : num e'.bytes = (run (norm st0) (prog.evs bits ps)).L := by rw [norm_st0, hTdef, hnum]
  have hK : T.k = (run (norm st0) (prog.evs bits ps)).k := by rw [norm_st0, hTdef]
  obtain ⟨d', di', c', hdec, hsim', hdr', hpre', hk', hL'⟩ :=
    sim_run e'.bytes rest T.k hlen hbytes prog bits ps Enc.init st0 _ d0 a bs' ps' e' henc hps
      ⟨by simp only [st0]; omega, by simp only [st0]; omega⟩ hF hK hsim0 hdr0
  have hF' : num e'.bytes = (run (norm c') []).L := by simp only [run]; exact hL'.symm
  have hK' : T.k = (run (norm c') []).k := by simp only [run]; exact hk'.symm
  obtain ⟨hcl, hkl, hnk⟩ := sim_pre _ T.k c' di' [] hpre' (by intro e he; exact absurd he (by simp)) hF' hK' hsim'
  have hdrn := normalize_dr e'.bytes rest T.k hlen hbytes d' di' hdr' hcl hkl
  have hsimn := dnorm_sim _ T.k c' di' hsim' hnk
  obtain ⟨_, skn, _, scn⟩ := hsimn
  refine ⟨d0, d', hinit, hdec, ?_, hdrn.over, ?_, hhead, hbytes, hpend, by omega⟩
  · rw [hdrn.inp, skn, hk']
    exact List.drop_left' (by omega)
  · rw [hdrn.code]
    rw [hk', hL', Nat.sub_self, Nat.pow_zero, Nat.div_one] at scn
    omega

end Rc
end LzmaVerif

#print axioms LzmaVerif.Rc.rc_roundtrip_fin
#print axioms LzmaVerif.Prog.encRun_probsOk
